(* C02 at the level of delivered data, stream level: for every well-formed stream of Spec/StreamSpec.v - any units,
   any cut, any adaptation-field stuffing, any interleaving of the PIDs, fillers anywhere - the successive NextData
   calls deliver exactly [expected], all Ok, then ErrNoMorePackets.
   The induction runs over the packets in transmission order; its invariant relates, per PID, the unit that is open
   in the stream model (and the packets of it that have arrived) to the queue the packet pool holds for that PID, and
   the program-map PIDs announced by the PATs completed so far to the demuxer's program map. *)
From Coq Require Import ZArith List Lia Bool ZifyBool Sorted.
Require Import Base.Bits Base.Iter Base.Wr Gen.Consts Gen.Types Gen.Preds
  Model.Packet Model.Pes Model.Psi Model.Pool Model.PoolRun Model.Reader Model.Demux Model.DemuxFull
  Spec.PesSpec Spec.PacketSpec Spec.PsiSpec Spec.StreamSpec
  Proofs.PesParseRef Proofs.PsiParse Proofs.PsiParsePmt Proofs.PsiParseSi Proofs.PsiSiLink Proofs.PsiUserDesc
  Proofs.PoolProofs Proofs.LossProofs Proofs.DemuxProofs
  Proofs.RoundTripDemux Proofs.RoundTripUnit Proofs.RoundTripPool Proofs.RoundTripMux Proofs.RoundTripRun
  Proofs.StreamUnits.
Import ListNotations.
Open Scope Z_scope.

Definition dflt_spkt : spkt := mk_spkt zero_Packet [].
Definition hd_pkt (d : list spkt) : Packet := sp_pkt (hd dflt_spkt d).
Definition last_cc (d : list spkt) : Z := cc_of (sp_pkt (last d dflt_spkt)).

(* a null packet as the pool sees it *)
Definition null_obs (p : Packet) : Prop := pid_of p = C_PIDNull /\ exists n, Packet_Payload p = repeat 255 n.

Section Domain.
Variable SP : list Z -> PSISection -> Prop.
Hypothesis SP_parses : forall b s, SP b s -> sec_parses b s.

(* ---------------- one PID as an automaton over its own packets ---------------- *)

(* the unit that is open on a PID and the packets of it that have arrived *)
Definition pst : Type := option (sunit * list spkt).

Definition complete (u : sunit) (d : list spkt) : Prop := payload_of d = unit_bytes u.

(* the packets d are a beginning of u that does not end on a section boundary (PSI units) *)
Definition partial (u : sunit) (d : list spkt) : Prop :=
  match u with
  | UPsi su => (exists S', psi_unit_bytes su = payload_of d ++ S') /\
               psi_mid su (Z.of_nat (length (payload_of d))) = true
  | UPes _ => True
  end.

Definition next_done (st : pst) (k : nat) (p : spkt) : list spkt :=
  if (k =? 0)%nat then [p] else match st with Some (_, d0) => d0 ++ [p] | None => [p] end.

Definition next_st (st : pst) (u : sunit) (k n : nat) (p : spkt) : pst :=
  if completes u k n then None else Some (u, next_done st k p).

Fixpoint pid_seq (x : Z) (st : pst) (l : list titem) : Prop :=
  match l with
  | [] => match st with None => True | Some (u, d) => is_psi u = false /\ complete u d end
  | (u, k, n, p) :: r =>
      pkt_on x p /\
      (if (k =? 0)%nat
       then pusi (sp_pkt p) = true /\ unit_ok SP u /\
            match st with
            | None => True
            | Some (u0, d0) => is_psi u0 = false /\ complete u0 d0 /\ cc_of (sp_pkt p) = (last_cc d0 + 1) mod 16
            end
       else pusi (sp_pkt p) = false /\ disc_flag (sp_pkt p) = false /\
            match st with
            | None => False
            | Some (u0, d0) => u0 = u /\ cc_of (sp_pkt p) = (last_cc d0 + 1) mod 16
            end) /\
      (if completes u k n then complete u (next_done st k p) else partial u (next_done st k p)) /\
      pid_seq x (next_st st u k n p) r
  end.

(* ---------------- the declarative per-PID form yields the automaton ---------------- *)

Lemma payload_of_app a b : payload_of (a ++ b) = payload_of a ++ payload_of b.
Proof. unfold payload_of. rewrite map_app, concat_app. reflexivity. Qed.

Lemma cc_chain_tail a l : cc_chain (a :: l) -> cc_chain l.
Proof. destruct l as [|b l]; [intros _; exact I|]. intros [_ H]. exact H. Qed.

Lemma cc_chain_app_r a b : cc_chain (a ++ b) -> cc_chain b.
Proof. induction a as [|x a IH]; [auto|]. intros H. apply IH. apply (cc_chain_tail x). exact H. Qed.

Definition cc_sp (sp : spkt) : Z := cc_of (sp_pkt sp).

Lemma last_cc_snoc d p : last_cc (d ++ [p]) = cc_sp p.
Proof. unfold last_cc. rewrite last_last. reflexivity. Qed.

Lemma firstn_snoc {A} (l1 : list A) a l2 : firstn (S (length l1)) (l1 ++ a :: l2) = l1 ++ [a].
Proof.
  rewrite firstn_app. replace (S (length l1) - length l1)%nat with 1%nat by lia.
  rewrite firstn_all2 by lia. reflexivity.
Qed.

(* the state of a PID after the packets d of the n that carry u *)
Definition st_at (u : sunit) (d : list spkt) (n : nat) : pst :=
  if is_psi u && (length d =? n)%nat then None else Some (u, d).

Lemma psi_partial_partial u d S' : unit_bytes u = payload_of d ++ S' -> psi_partial u d -> partial u d.
Proof. destruct u as [pu|su]; [intros _ _; exact I|]. cbn [unit_bytes psi_partial partial]. intros H Hb. split; [exists S'; exact H|exact Hb]. Qed.

(* the continuation packets of a carried unit *)
Lemma rest_seq x u n later tl : forall rest d0,
  d0 <> [] -> length (d0 ++ rest) = n ->
  Forall (pkt_on x) rest ->
  Forall (fun sp => pusi (sp_pkt sp) = false /\ disc_flag (sp_pkt sp) = false) rest ->
  payload_of (d0 ++ rest) = unit_bytes u ->
  (forall k, (0 < k < n)%nat -> psi_partial u (firstn k (d0 ++ rest))) ->
  cc_chain (last_cc d0 :: map cc_sp rest ++ later) ->
  pid_seq x (st_at u (d0 ++ rest) n) tl ->
  pid_seq x (st_at u d0 n) (number_from u n (length d0) rest ++ tl).
Proof.
  induction rest as [|p rest IH]; intros d0 Hne Hn Hon Hcont Hpay Hpart Hcc Htl.
  - rewrite app_nil_r in Htl. exact Htl.
  - pose proof (Forall_inv Hon) as Hp. pose proof (Forall_inv_tail Hon) as Hon'.
    pose proof (Forall_inv Hcont) as [Hpu Hdi]. pose proof (Forall_inv_tail Hcont) as Hcont'.
    rewrite app_length in Hn. cbn [length] in Hn. subst n. cbn [map app] in Hcc. destruct Hcc as [Hc1 Hcc'].
    assert (Hk0 : (length d0 =? 0)%nat = false) by (destruct d0; [contradiction|reflexivity]).
    assert (Hst : st_at u d0 (length d0 + S (length rest)) = Some (u, d0)).
    { unfold st_at. replace (length d0 =? length d0 + S (length rest))%nat with false by (symmetry; apply Nat.eqb_neq; lia).
      rewrite andb_false_r. reflexivity. }
    rewrite Hst. cbn [number_from app pid_seq]. rewrite Hk0.
    split; [exact Hp|]. split; [split; [exact Hpu|split; [exact Hdi|split; [reflexivity|exact Hc1]]]|].
    assert (Hnd : next_done (Some (u, d0)) (length d0) p = d0 ++ [p]) by (unfold next_done; rewrite Hk0; reflexivity).
    assert (Happ : d0 ++ p :: rest = (d0 ++ [p]) ++ rest) by (rewrite <- app_assoc; reflexivity).
    assert (Hnext : next_st (Some (u, d0)) u (length d0) (length d0 + S (length rest)) p =
                    st_at u (d0 ++ [p]) (length d0 + S (length rest))).
    { unfold next_st, st_at, completes. rewrite Hnd, app_length. cbn [length]. rewrite Nat.add_1_r. reflexivity. }
    rewrite Hnd, Hnext. split.
    + unfold completes. destruct (is_psi u) eqn:Epsi; cbn [andb].
      * destruct (S (length d0) =? length d0 + S (length rest))%nat eqn:E.
        -- apply Nat.eqb_eq in E. assert (rest = []) by (destruct rest; [reflexivity|cbn [length] in E; lia]). subst rest.
           unfold complete. rewrite <- Hpay. reflexivity.
        -- apply Nat.eqb_neq in E. apply (psi_partial_partial u (d0 ++ [p]) (payload_of rest)).
           ++ rewrite <- Hpay, Happ. apply payload_of_app.
           ++ specialize (Hpart (S (length d0)) ltac:(lia)). rewrite firstn_snoc in Hpart. exact Hpart.
      * destruct u; [exact I|discriminate Epsi].
    + replace (S (length d0)) with (length (d0 ++ [p])) by (rewrite app_length; cbn [length]; lia).
      apply IH; try assumption.
      * destruct d0; discriminate.
      * rewrite <- Happ, app_length. cbn [length]. reflexivity.
      * rewrite <- Happ. exact Hpay.
      * rewrite <- Happ. exact Hpart.
      * rewrite last_cc_snoc. exact Hcc'.
      * rewrite <- Happ. exact Htl.
Qed.

(* what may precede the first packet of a unit *)
Definition st_closed (st : pst) : Prop :=
  match st with None => True | Some (u0, d0) => is_psi u0 = false /\ complete u0 d0 end.
Definition prev_cc (st : pst) : list Z := match st with None => [] | Some (_, d0) => [last_cc d0] end.

Lemma carried_seq x c st later tl : carried_ok SP x c -> st_closed st ->
  cc_chain (prev_cc st ++ map cc_sp (cu_pkts c) ++ later) ->
  pid_seq x (if is_psi (cu_unit c) then None else Some (cu_unit c, cu_pkts c)) tl ->
  pid_seq x st (labelled c ++ tl).
Proof.
  intros (Hu & Hon & Hpu & Hcont & Hpay & Hpart) Hst Hcc Htl.
  destruct c as [u first rest]. unfold labelled, cu_pkts in *. cbn [cu_unit cu_first cu_rest] in *.
  inversion Hon as [|? ? Hp Hon']; subst. cbn [length number_from app pid_seq Nat.eqb].
  split; [exact Hp|]. split.
  { split; [exact Hpu|]. split; [exact Hu|]. destruct st as [[u0 d0]|]; [|exact I].
    destruct Hst as [H1 H2]. split; [exact H1|]. split; [exact H2|]. cbn [prev_cc app map] in Hcc. apply Hcc. }
  assert (Hnd : next_done st 0 first = [first]) by reflexivity.
  assert (Hnext : next_st st u 0 (S (length rest)) first = st_at u [first] (S (length rest))).
  { unfold next_st, st_at, completes. rewrite Hnd. reflexivity. }
  rewrite Hnd, Hnext. split.
  - unfold completes. destruct (is_psi u) eqn:Epsi; cbn [andb].
    + destruct (1 =? S (length rest))%nat eqn:E.
      * apply Nat.eqb_eq in E. assert (rest = []) by (destruct rest; [reflexivity|cbn [length] in E; lia]). subst rest. exact Hpay.
      * apply Nat.eqb_neq in E. apply (psi_partial_partial u [first] (payload_of rest)).
        -- rewrite <- Hpay. apply (payload_of_app [first] rest).
        -- apply (Hpart 1%nat). cbn [length]. lia.
    + destruct u; [exact I|discriminate Epsi].
  - apply (rest_seq x u (S (length rest)) later tl rest [first]); try assumption; try discriminate; try reflexivity.
    + assert (H : cc_chain (map cc_sp (first :: rest) ++ later)) by (apply (cc_chain_app_r (prev_cc st)); exact Hcc).
      exact H.
    + unfold st_at. cbn [app length]. rewrite Nat.eqb_refl, andb_true_r. exact Htl.
Qed.

Lemma cc_chain_link (a b : list spkt) later : a <> [] ->
  cc_chain (map cc_sp (a ++ b) ++ later) -> cc_chain (last_cc a :: map cc_sp b ++ later).
Proof.
  intros Hne. destruct (exists_last Hne) as (a' & z & ->). rewrite last_cc_snoc, <- app_assoc, map_app, <- app_assoc.
  intros H. apply cc_chain_app_r in H. exact H.
Qed.

Theorem units_seq x : forall cus st, Forall (carried_ok SP x) cus -> st_closed st ->
  cc_chain (prev_cc st ++ map cc_sp (flat_map cu_pkts cus)) ->
  pid_seq x st (flat_map labelled cus).
Proof.
  induction cus as [|c cus IH]; intros st Hall Hst Hcc.
  - cbn [flat_map pid_seq]. destruct st as [[u0 d0]|]; [exact Hst|exact I].
  - inversion Hall as [|? ? Hc Hall']; subst. cbn [flat_map] in *. rewrite map_app in Hcc.
    apply (carried_seq x c st (map cc_sp (flat_map cu_pkts cus)) _ Hc Hst Hcc).
    pose proof Hc as (_ & _ & _ & _ & Hpay & _).
    apply IH; [exact Hall'| |].
    + destruct (is_psi (cu_unit c)) eqn:E; [exact I|]. split; [exact E|exact Hpay].
    + apply cc_chain_app_r in Hcc. destruct (is_psi (cu_unit c)); [apply (cc_chain_app_r (map cc_sp (cu_pkts c))); exact Hcc|].
      cbn [prev_cc app]. rewrite <- map_app in Hcc.
      pose proof (cc_chain_link (cu_pkts c) (flat_map cu_pkts cus) [] ltac:(discriminate)) as L.
      rewrite !app_nil_r in L. apply L, Hcc.
Qed.

(* ---------------- the invariant ---------------- *)

Variable pids : list Z.                 (* the PIDs of the stream *)
Variables tbl pes : Z -> bool.          (* PIDs carrying tables / PES *)
Hypothesis tbl_pes : forall x, tbl x = true -> pes x = true -> False.

Definition kind_ok (x : Z) (u : sunit) : Prop :=
  if is_psi u then table_pid_ok x /\ tbl x = true else es_pid_ok x /\ pes x = true.

Fixpoint evs_ok (reg : list Z) (evs : list ev) : Prop :=
  match evs with
  | [] => True
  | EFill p :: r => filler_ok p /\ evs_ok reg r
  | EPkt x u k n p :: r =>
      kind_ok x u /\ In x pids /\ (tbl x = true -> x = 0 \/ In x reg) /\
      evs_ok (if completes u k n then reg ++ announces u else reg) r
  end.

Definition supd (s : Z -> pst) (x : Z) (v : pst) : Z -> pst := fun y => if y =? x then v else s y.

Lemma upd_same f x v : upd f x v x = v.
Proof. unfold upd. rewrite Z.eqb_refl. reflexivity. Qed.
Lemma upd_other f x v y : y <> x -> upd f x v y = f y.
Proof. intros H. unfold upd. destruct (y =? x) eqn:E; [lia|reflexivity]. Qed.
Lemma supd_same f x v : supd f x v x = v.
Proof. unfold supd. rewrite Z.eqb_refl. reflexivity. Qed.
Lemma supd_other f x v y : y <> x -> supd f x v y = f y.
Proof. intros H. unfold supd. destruct (y =? x) eqn:E; [lia|reflexivity]. Qed.

Definition pid_inv (pend : Z -> list DemuxerData) (pl : pool) (x : Z) (st : pst) : Prop :=
  match st with
  | None => qof pl x = [] /\ pend x = []
  | Some (u, d) => d <> [] /\ Forall (pkt_on x) d /\ unit_ok SP u /\ kind_ok x u /\
                   qof pl x = map obs d /\ pend x = unit_data x u (hd_pkt d)
  end.

Record Inv (s : Z -> pst) (pend : Z -> list DemuxerData) (pl : pool) (pm : pmap) (reg : list Z) : Prop := {
  iv_sorted : sorted pl;
  iv_pm : forall y, pm_mem pm y = true <-> In y reg;
  iv_null : Forall null_obs (qof pl C_PIDNull) /\ s C_PIDNull = None /\ pend C_PIDNull = [];
  iv_pend : forall y, pend y <> [] -> In y pids;
  iv_pid : forall x, x <> C_PIDNull -> pid_inv pend pl x (s x)
}.

Lemma pid_inv_frame pend pend' pl pl' x st :
  qof pl' x = qof pl x -> pend' x = pend x -> pid_inv pend pl x st -> pid_inv pend' pl' x st.
Proof. unfold pid_inv. intros -> ->. auto. Qed.

(* one PID changes *)
Lemma inv_update s pend pl pm reg x s' pend' pl1 pm1 reg1 :
  Inv s pend pl pm reg -> x <> C_PIDNull -> sorted pl1 ->
  (forall y, y <> x -> qof pl1 y = qof pl y) ->
  (forall y, pm_mem pm1 y = true <-> In y reg1) ->
  (forall y, y <> x -> s' y = s y) -> (forall y, y <> x -> pend' y = pend y) ->
  (pend' x <> [] -> In x pids) ->
  pid_inv pend' pl1 x (s' x) ->
  Inv s' pend' pl1 pm1 reg1.
Proof.
  intros [Hso Hpm (Hn1 & Hn2 & Hn3) Hpe Hpid] Hx Hso1 Hq Hpm1 Hs Hp Hpx Hnew.
  constructor; try assumption.
  - rewrite (Hq _ (not_eq_sym Hx)), (Hs _ (not_eq_sym Hx)), (Hp _ (not_eq_sym Hx)). auto.
  - intros y Hy. destruct (Z.eq_dec y x) as [->|Hne]; [exact (Hpx Hy)|]. apply Hpe. rewrite <- (Hp y Hne). exact Hy.
  - intros y Hy. destruct (Z.eq_dec y x) as [->|Hne]; [exact Hnew|].
    rewrite (Hs y Hne). apply (pid_inv_frame pend pend' pl pl1 y _ (Hq y Hne) (Hp y Hne)). apply Hpid, Hy.
Qed.

(* ---------------- feeding one packet ---------------- *)

Notation P := full_parsers.

Lemma feed_quiet pl pm p pl1 : pool_add pm pl p = (pl1, []) -> forall r,
  feed P pl pm (p :: r) = match feed P pl1 pm r with Some (a, b, o) => Some (a, b, [] ++ o) | None => None end.
Proof. intros H r. cbn [feed]. rewrite H. destruct (feed P pl1 pm r) as [[[a b] o]|]; reflexivity. Qed.

Lemma feed_flush pl pm p pl1 g ds : pool_add pm pl p = (pl1, g) -> g <> [] -> parse_data P None pm g = Ok ds -> forall r,
  feed P pl pm (p :: r) =
  match feed P pl1 (pm_after pm ds) r with Some (a, b, o) => Some (a, b, ds ++ o) | None => None end.
Proof. intros H Hg Hp r. cbn [feed]. rewrite H. destruct g as [|g0 g']; [contradiction|]. rewrite Hp. reflexivity. Qed.

Lemma pm_mem_after pm l y : pm_mem (fold_left pm_add l pm) y = pm_mem pm y || existsb (Z.eqb y) l.
Proof.
  revert pm. induction l as [|a l IH]; intros pm; cbn [fold_left existsb]; [rewrite orb_false_r; reflexivity|].
  rewrite IH, pm_mem_add, orb_assoc. reflexivity.
Qed.

Lemma pm_after_reg pm reg ds : (forall y, pm_mem pm y = true <-> In y reg) ->
  forall y, pm_mem (pm_after pm ds) y = true <-> In y (reg ++ flat_map pat_pids ds).
Proof.
  intros H y. unfold pm_after. rewrite pm_mem_after, orb_true_iff, in_app_iff, H, existsb_exists.
  split; (intros [A|B]; [left; exact A|right]).
  - destruct B as (z & Hz & E). apply Z.eqb_eq in E. subst z. exact Hz.
  - exists y. split; [exact B|apply Z.eqb_refl].
Qed.

Lemma obs_on x sp : pkt_on x sp -> on_pid x (obs sp).
Proof. intros (_ & H1 & H2 & H3). repeat split; assumption. Qed.

Lemma obs_cc_range sp : spkt_ok sp -> 0 <= cc_of (obs sp) < 16.
Proof. intros (W & _). apply (wfh_cc _ (wfp_header _ W)). Qed.

(* fillers change nothing but the null PID's queue *)
Lemma step_fill s pend pl pm reg sp :
  Inv s pend pl pm reg -> (forall y, In y reg -> y <> C_PIDNull /\ pes y = false) -> filler_ok sp ->
  exists pl1, pool_add pm pl (obs sp) = (pl1, []) /\ Inv s pend pl1 pm reg.
Proof.
  intros Hinv Hreg (Hok & Hkind).
  destruct (tei (obs sp)) eqn:Et; [exists pl; split; [apply pool_add_ignored; left; exact Et|exact Hinv]|].
  destruct (has_payload (obs sp)) eqn:Eh; [|exists pl; split; [apply pool_add_ignored; right; exact Eh|exact Hinv]].
  destruct Hkind as [H|[H|(Hpid & Hpu & n & Hpl)]]; [change (tei (sp_pkt sp)) with (tei (obs sp)) in H; congruence| |].
  { change (has_payload (sp_pkt sp)) with (has_payload (obs sp)) in H; congruence. }
  pose proof Hinv as [Hso Hpm (Hn1 & Hn2 & Hn3) Hpe Hpidv].
  assert (Hnpsi : (Z.eqb C_PIDNull C_PIDPAT || pm_mem pm C_PIDNull) = false).
  { destruct (pm_mem pm C_PIDNull) eqn:E; [|reflexivity]. apply Hpm in E. destruct (Hreg _ E) as [E' _]. congruence. }
  assert (Hq : null_obs (obs sp)) by (split; [exact Hpid|exists n; exact Hpl]).
  destruct (acc_add_quiet pm C_PIDNull (qof pl C_PIDNull) (obs sp) null_obs Hnpsi Hpu Hn1 Hq) as (q' & Hacc & Hq').
  assert (Hon : on_pid C_PIDNull (obs sp)) by (repeat split; assumption).
  destruct (pool_add_step pm pl (obs sp) C_PIDNull _ _ Hso Hon Hacc) as (pl1 & Hadd & Hs1 & Hq1 & Hfr).
  exists pl1. split; [exact Hadd|]. constructor; try assumption.
  - rewrite Hq1. auto.
  - intros x Hx. apply (pid_inv_frame pend pend pl pl1 x _ (Hfr x Hx) eq_refl). apply Hpidv, Hx.
Qed.

(* ---------------- one payload packet ---------------- *)

Lemma snoc_last (d : list spkt) : d <> [] -> d = removelast d ++ [last d dflt_spkt].
Proof. intros H. apply app_removelast_last, H. Qed.

Lemma in_last (d : list spkt) : d <> [] -> In (last d dflt_spkt) d.
Proof. intros H. rewrite (snoc_last d H) at 2. apply in_or_app. right. left. reflexivity. Qed.

Lemma acc_open pm x d0 sp : d0 <> [] -> Forall (pkt_on x) d0 -> pkt_on x sp ->
  cc_of (sp_pkt sp) = (last_cc d0 + 1) mod 16 ->
  (disc_flag (sp_pkt sp) = false \/ pusi (sp_pkt sp) = true) ->
  acc_add pm x (map obs d0) (obs sp) =
  if pusi (sp_pkt sp)
  then (if (Z.eqb x C_PIDPAT || pm_mem pm x) && is_psi_complete [obs sp] then ([], [obs sp]) else ([obs sp], map obs d0))
  else (if (Z.eqb x C_PIDPAT || pm_mem pm x) && is_psi_complete (map obs (d0 ++ [sp]))
        then ([], map obs (d0 ++ [sp])) else (map obs (d0 ++ [sp]), [])).
Proof.
  intros Hne Hall Hon Hcc Hd.
  pose proof (proj1 (Forall_forall _ _) Hall _ (in_last d0 Hne)) as (Hokl & _).
  assert (E : map obs d0 = map obs (removelast d0) ++ [obs (last d0 dflt_spkt)]).
  { rewrite (snoc_last d0 Hne) at 1. rewrite map_app. reflexivity. }
  rewrite map_app. cbn [map]. rewrite E.
  apply (acc_add_follow pm x (map obs (removelast d0)) (obs (last d0 dflt_spkt)) (obs sp)).
  - apply Hon.
  - apply (obs_cc_range _ Hokl).
  - exact Hcc.
  - destruct Hd as [Hd|Hd]; [left; apply obs_no_disc, Hd|right; exact Hd].
Qed.

Lemma complete_flag u d : is_psi u = true -> unit_ok SP u -> complete u d -> is_psi_complete (map obs d) = true.
Proof.
  destruct u as [pu|su]; [discriminate|]. intros _ Hok Hc. unfold complete in Hc. cbn [unit_bytes unit_ok] in *.
  rewrite is_psi_complete_obs, Hc, (psi_unit_complete SP su Hok). reflexivity.
Qed.

Lemma partial_flag u d : is_psi u = true -> unit_ok SP u -> partial u d -> is_psi_complete (map obs d) = false.
Proof.
  destruct u as [pu|su]; [discriminate|]. intros _ Hok [(S' & HS) Hb]. cbn [unit_ok] in *.
  rewrite is_psi_complete_obs, (psi_unit_incomplete SP SP_parses su (payload_of d) S' Hok HS Hb). reflexivity.
Qed.

Lemma pes_data_no_pat pm fp v x : pm_after pm [pes_data fp v x] = pm.
Proof. reflexivity. Qed.

Lemma parse_pes_done pm x u d : is_psi u = false -> unit_ok SP u -> d <> [] -> Forall (pkt_on x) d -> complete u d ->
  (x =? C_PIDCAT) = false -> isPSIPayload x (pm_mem pm) = false ->
  parse_data P None pm (map obs d) = Ok (unit_data x u (hd_pkt d)) /\ pm_after pm (unit_data x u (hd_pkt d)) = pm.
Proof.
  destruct u as [pu|su]; [|discriminate]. intros _ Hok Hne Hall Hc H1 H2. destruct d as [|sp1 rest]; [contradiction|].
  pose proof (Forall_inv Hall) as (_ & Hpid & _). cbn [unit_ok unit_bytes unit_data hd_pkt hd map] in *.
  split; [|reflexivity].
  assert (Hcat' : concat (map Packet_Payload (obs sp1 :: map obs rest)) = pes_unit_bytes pu).
  { rewrite <- Hc. apply (payload_obs (sp1 :: rest)). }
  exact (parse_pes_group pm x (obs sp1) (map obs rest) pu Hok Hpid H1 H2 Hcat').
Qed.

Lemma parse_psi_done pm x u d : is_psi u = true -> unit_ok SP u -> d <> [] -> Forall (pkt_on x) d -> complete u d ->
  (x =? C_PIDCAT) = false -> isPSIPayload x (pm_mem pm) = true ->
  parse_data P None pm (map obs d) = Ok (unit_data x u (hd_pkt d)).
Proof.
  destruct u as [pu|su]; [discriminate|]. intros _ Hok Hne Hall Hc H1 H2. destruct d as [|sp1 rest]; [contradiction|].
  pose proof (Forall_inv Hall) as (_ & Hpid & _). cbn [unit_ok unit_bytes unit_data hd_pkt hd map] in *.
  assert (Hcat' : concat (map Packet_Payload (obs sp1 :: map obs rest)) = psi_unit_bytes su).
  { rewrite <- Hc. apply (payload_obs (sp1 :: rest)). }
  exact (parse_psi_group SP SP_parses pm x (obs sp1) (map obs rest) su Hok Hpid H1 H2 Hcat').
Qed.

Lemma ev_out_other pend x u k n p y : y <> x -> snd (ev_out pend x u k n p) y = pend y.
Proof.
  intros H. unfold ev_out. destruct (k =? 0)%nat, (completes u k n); cbn [snd]; rewrite ?upd_other by exact H; reflexivity.
Qed.

Section Step.
Variables (s : Z -> pst) (pend : Z -> list DemuxerData) (pl : pool) (pm : pmap) (reg : list Z).
Hypothesis Hinv : Inv s pend pl pm reg.
Hypothesis Hreg : forall y, In y reg -> y <> C_PIDNull /\ pes y = false.

Lemma pes_flags x : es_pid_ok x -> pes x = true ->
  (Z.eqb x C_PIDPAT || pm_mem pm x) = false /\ (x =? C_PIDCAT) = false /\ isPSIPayload x (pm_mem pm) = false.
Proof.
  intros Hx Hp. assert (Hm : pm_mem pm x = false).
  { destruct (pm_mem pm x) eqn:E; [|reflexivity]. apply (iv_pm _ _ _ _ _ Hinv) in E. destruct (Hreg _ E) as [_ E']. congruence. }
  unfold isPSIPayload. rewrite Hm. unfold es_pid_ok, C_PIDPAT, C_PIDCAT in *. repeat split; lia.
Qed.

Lemma psi_flags x : table_pid_ok x -> (x = 0 \/ In x reg) ->
  (Z.eqb x C_PIDPAT || pm_mem pm x) = true /\ (x =? C_PIDCAT) = false /\ isPSIPayload x (pm_mem pm) = true.
Proof.
  intros Hx Hr. assert (Hm : (Z.eqb x C_PIDPAT || pm_mem pm x) = true).
  { destruct Hr as [->|Hr]; [reflexivity|]. apply (iv_pm _ _ _ _ _ Hinv) in Hr. rewrite Hr. apply orb_true_r. }
  split; [exact Hm|]. split; [unfold table_pid_ok, C_PIDCAT in *; lia|].
  unfold isPSIPayload. rewrite Hm. reflexivity.
Qed.

Theorem step_pkt x u k n sp tlx :
  (forall y, In y (if completes u k n then announces u else []) -> y <> C_PIDNull /\ pes y = false) ->
  kind_ok x u -> In x pids -> (tbl x = true -> x = 0 \/ In x reg) ->
  pid_seq x (s x) ((u, k, n, sp) :: tlx) ->
  exists pl1 pm1,
    (forall r, feed P pl pm (obs sp :: r) =
       match feed P pl1 pm1 r with
       | Some (a, b, o) => Some (a, b, fst (ev_out pend x u k n sp) ++ o)
       | None => None
       end) /\
    Inv (supd s x (next_st (s x) u k n sp)) (snd (ev_out pend x u k n sp)) pl1 pm1
        (if completes u k n then reg ++ announces u else reg).
Proof.
  intros Hann Hkind Hin Htbl Hseq. cbn [pid_seq] in Hseq. destruct Hseq as (Hon & Hhead & Hcp & _).
  pose proof Hinv as [Hso Hpm Hnull Hpe Hpidv].
  assert (Hx : x <> C_PIDNull).
  { unfold kind_ok, es_pid_ok, table_pid_ok, C_PIDNull in *. destruct (is_psi u); lia. }
  pose proof (Hpidv x Hx) as Hpx.
  pose proof (obs_on x sp Hon) as Hon'.
  (* the common ending: given the accumulator's answer *)
  assert (Hfin_quiet : forall q st' v,
            acc_add pm x (qof pl x) (obs sp) = (q, []) ->
            fst (ev_out pend x u k n sp) = [] -> completes u k n = false ->
            next_st (s x) u k n sp = st' -> snd (ev_out pend x u k n sp) x = v -> (v <> [] -> In x pids) ->
            (forall pl1, qof pl1 x = q -> forall pend', pend' x = v -> pid_inv pend' pl1 x st') ->
            exists pl1 pm1,
              (forall r, feed P pl pm (obs sp :: r) =
                 match feed P pl1 pm1 r with
                 | Some (a, b, o) => Some (a, b, fst (ev_out pend x u k n sp) ++ o)
                 | None => None
                 end) /\
              Inv (supd s x (next_st (s x) u k n sp)) (snd (ev_out pend x u k n sp)) pl1 pm1
                  (if completes u k n then reg ++ announces u else reg)).
  { intros q st' v Hacc Hout Hc Hst Hv Hvin Hpi.
    destruct (pool_add_step pm pl (obs sp) x _ _ Hso Hon' Hacc) as (pl1 & Hadd & Hs1 & Hq1 & Hfr).
    exists pl1, pm. split; [rewrite Hout; apply (feed_quiet pl pm _ pl1 Hadd)|]. rewrite Hc, Hst.
    apply (inv_update s pend pl pm reg x _ _ pl1 pm reg Hinv Hx Hs1 Hfr Hpm).
    - intros y Hy. apply supd_other, Hy.
    - intros y Hy. apply ev_out_other, Hy.
    - rewrite Hv. exact Hvin.
    - rewrite supd_same. apply (Hpi pl1 Hq1 _ Hv). }
  assert (Hfin_flush : forall q g st' v reg1,
            acc_add pm x (qof pl x) (obs sp) = (q, g) -> g <> [] ->
            parse_data P None pm g = Ok (fst (ev_out pend x u k n sp)) ->
            (forall y, pm_mem (pm_after pm (fst (ev_out pend x u k n sp))) y = true <-> In y reg1) ->
            (if completes u k n then reg ++ announces u else reg) = reg1 ->
            next_st (s x) u k n sp = st' -> snd (ev_out pend x u k n sp) x = v -> (v <> [] -> In x pids) ->
            (forall pl1, qof pl1 x = q -> forall pend', pend' x = v -> pid_inv pend' pl1 x st') ->
            exists pl1 pm1,
              (forall r, feed P pl pm (obs sp :: r) =
                 match feed P pl1 pm1 r with
                 | Some (a, b, o) => Some (a, b, fst (ev_out pend x u k n sp) ++ o)
                 | None => None
                 end) /\
              Inv (supd s x (next_st (s x) u k n sp)) (snd (ev_out pend x u k n sp)) pl1 pm1
                  (if completes u k n then reg ++ announces u else reg)).
  { intros q g st' v reg1 Hacc Hg Hparse Hpm1 Hr1 Hst Hv Hvin Hpi.
    destruct (pool_add_step pm pl (obs sp) x _ _ Hso Hon' Hacc) as (pl1 & Hadd & Hs1 & Hq1 & Hfr).
    exists pl1, (pm_after pm (fst (ev_out pend x u k n sp))). split; [apply (feed_flush pl pm _ pl1 g _ Hadd Hg Hparse)|].
    rewrite Hr1, Hst.
    apply (inv_update s pend pl pm reg x _ _ pl1 _ reg1 Hinv Hx Hs1 Hfr Hpm1).
    - intros y Hy. apply supd_other, Hy.
    - intros y Hy. apply ev_out_other, Hy.
    - rewrite Hv. exact Hvin.
    - rewrite supd_same. apply (Hpi pl1 Hq1 _ Hv). }
  unfold kind_ok in Hkind. destruct (is_psi u) eqn:Epsi.
  - (* a table PID *)
    destruct Hkind as [Htp Htx]. destruct (psi_flags x Htp (Htbl Htx)) as (Hb & Hcat & Hpsi).
    destruct (k =? 0)%nat eqn:Ek.
    + (* first packet of the unit: nothing is open on a table PID *)
      destruct Hhead as (Hpu & Hu & Hprev).
      assert (Hnone : s x = None).
      { destruct (s x) as [[u0 d0]|] eqn:Es; [|reflexivity]. exfalso. destruct Hprev as (Hp0 & _).
        destruct Hpx as (_ & _ & _ & Hk0 & _). unfold kind_ok in Hk0. rewrite Hp0 in Hk0. apply (tbl_pes x Htx), Hk0. }
      rewrite Hnone in *. destruct Hpx as [Hq0 Hp0]. unfold next_done in Hcp. rewrite Ek in Hcp.
      destruct (completes u k n) eqn:Ec.
      * assert (Hacc : acc_add pm x (qof pl x) (obs sp) = ([], map obs [sp])).
        { rewrite Hq0, acc_add_empty, Hb. cbn [andb]. change [obs sp] with (map obs [sp]).
          rewrite (complete_flag u [sp] Epsi Hu Hcp). reflexivity. }
        assert (Hout : fst (ev_out pend x u k n sp) = unit_data x u (sp_pkt sp)).
        { unfold ev_out. rewrite Ek, Ec. cbn [fst]. rewrite Hp0, upd_same. reflexivity. }
        assert (Hparse : parse_data P None pm (map obs [sp]) = Ok (fst (ev_out pend x u k n sp))).
        { rewrite Hout. apply (parse_psi_done pm x u [sp] Epsi Hu); try assumption; try discriminate. constructor; [exact Hon|constructor]. }
        assert (Hpm1 : forall y, pm_mem (pm_after pm (fst (ev_out pend x u k n sp))) y = true <-> In y (reg ++ announces u)).
        { rewrite Hout. intros y. rewrite (pm_after_reg pm reg _ Hpm y), pat_pids_unit. reflexivity. }
        assert (Hv : snd (ev_out pend x u k n sp) x = []) by (unfold ev_out; rewrite Ek, Ec; cbn [snd]; apply upd_same).
        refine (Hfin_flush [] (map obs [sp]) None [] (reg ++ announces u) Hacc ltac:(discriminate) Hparse Hpm1 eq_refl _ Hv _ _).
        -- unfold next_st. rewrite Ec. reflexivity.
        -- intros A; contradiction.
        -- intros pl1 Hq1 pend' Hv'. split; assumption.
      * assert (Hacc : acc_add pm x (qof pl x) (obs sp) = (map obs [sp], [])).
        { rewrite Hq0, acc_add_empty, Hb. cbn [andb]. change [obs sp] with (map obs [sp]).
          rewrite (partial_flag u [sp] Epsi Hu Hcp). reflexivity. }
        assert (Hout : fst (ev_out pend x u k n sp) = []) by (unfold ev_out; rewrite Ek, Ec; cbn [fst]; exact Hp0).
        assert (Hv : snd (ev_out pend x u k n sp) x = unit_data x u (sp_pkt sp)) by (unfold ev_out; rewrite Ek, Ec; cbn [snd]; apply upd_same).
        refine (Hfin_quiet (map obs [sp]) (Some (u, [sp])) (unit_data x u (sp_pkt sp)) Hacc Hout eq_refl _ Hv (fun _ => Hin) _).
        -- unfold next_st, next_done. rewrite Ec, Ek. reflexivity.
        -- intros pl1 Hq1 pend' Hv'. split; [discriminate|]. split; [constructor; [exact Hon|constructor]|].
           split; [exact Hu|]. split; [unfold kind_ok; rewrite Epsi; split; assumption|]. split; assumption.
    + (* a continuation packet *)
      destruct Hhead as (Hpu & Hdi & Hprev). destruct (s x) as [[u0 d0]|] eqn:Es; [|contradiction].
      destruct Hprev as [-> Hcc]. destruct Hpx as (Hne & Hall & Hu & Hk0 & Hq0 & Hp0).
      unfold next_done in Hcp. rewrite Ek in Hcp.
      assert (Hall' : Forall (pkt_on x) (d0 ++ [sp])) by (apply Forall_app; split; [exact Hall|constructor; [exact Hon|constructor]]).
      assert (Hhd : hd_pkt (d0 ++ [sp]) = hd_pkt d0) by (destruct d0; [contradiction|reflexivity]).
      assert (Hne' : d0 ++ [sp] <> []) by (destruct d0; discriminate).
      destruct (completes u k n) eqn:Ec.
      * assert (Hacc : acc_add pm x (qof pl x) (obs sp) = ([], map obs (d0 ++ [sp]))).
        { rewrite Hq0, (acc_open pm x d0 sp Hne Hall Hon Hcc (or_introl Hdi)), Hpu, Hb. cbn [andb].
          rewrite (complete_flag u _ Epsi Hu Hcp). reflexivity. }
        assert (Hout : fst (ev_out pend x u k n sp) = unit_data x u (hd_pkt d0)).
        { unfold ev_out. rewrite Ek, Ec. cbn [fst app]. exact Hp0. }
        assert (Hg : map obs (d0 ++ [sp]) <> []) by (destruct d0; discriminate).
        assert (Hparse : parse_data P None pm (map obs (d0 ++ [sp])) = Ok (fst (ev_out pend x u k n sp))).
        { rewrite Hout, <- Hhd. apply (parse_psi_done pm x u _ Epsi Hu); assumption. }
        assert (Hpm1 : forall y, pm_mem (pm_after pm (fst (ev_out pend x u k n sp))) y = true <-> In y (reg ++ announces u)).
        { rewrite Hout. intros y. rewrite (pm_after_reg pm reg _ Hpm y), pat_pids_unit. reflexivity. }
        assert (Hv : snd (ev_out pend x u k n sp) x = []) by (unfold ev_out; rewrite Ek, Ec; cbn [snd]; apply upd_same).
        refine (Hfin_flush [] (map obs (d0 ++ [sp])) None [] (reg ++ announces u) Hacc Hg Hparse Hpm1 eq_refl _ Hv _ _).
        -- unfold next_st. rewrite Ec. reflexivity.
        -- intros A; contradiction.
        -- intros pl1 Hq1 pend' Hv'. split; assumption.
      * assert (Hacc : acc_add pm x (qof pl x) (obs sp) = (map obs (d0 ++ [sp]), [])).
        { rewrite Hq0, (acc_open pm x d0 sp Hne Hall Hon Hcc (or_introl Hdi)), Hpu, Hb. cbn [andb].
          rewrite (partial_flag u _ Epsi Hu Hcp). reflexivity. }
        assert (Hout : fst (ev_out pend x u k n sp) = []) by (unfold ev_out; rewrite Ek, Ec; reflexivity).
        assert (Hv : snd (ev_out pend x u k n sp) x = pend x) by (unfold ev_out; rewrite Ek, Ec; reflexivity).
        refine (Hfin_quiet (map obs (d0 ++ [sp])) (Some (u, d0 ++ [sp])) (pend x) Hacc Hout eq_refl _ Hv (fun _ => Hin) _).
        -- unfold next_st, next_done. rewrite Ec, Ek. reflexivity.
        -- intros pl1 Hq1 pend' Hv'. split; [exact Hne'|]. split; [exact Hall'|]. split; [exact Hu|].
           split; [exact Hk0|]. split; [exact Hq1|]. rewrite Hv', Hhd. exact Hp0.
  - (* an elementary-stream PID *)
    destruct Hkind as [Hep Hpx']. destruct (pes_flags x Hep Hpx') as (Hb & Hcat & Hpsi).
    assert (Ec : completes u k n = false) by (unfold completes; rewrite Epsi; reflexivity).
    destruct (k =? 0)%nat eqn:Ek.
    + destruct Hhead as (Hpu & Hu & Hprev).
      assert (Hnew : forall pl1, qof pl1 x = map obs [sp] -> forall pend', pend' x = unit_data x u (sp_pkt sp) ->
                pid_inv pend' pl1 x (Some (u, [sp]))).
      { intros pl1 Hq1 pend' Hv. split; [discriminate|]. split; [constructor; [exact Hon|constructor]|].
        split; [exact Hu|]. split; [unfold kind_ok; rewrite Epsi; split; assumption|]. split; assumption. }
      assert (Hst : next_st (s x) u k n sp = Some (u, [sp])) by (unfold next_st, next_done; rewrite Ec, Ek; reflexivity).
      assert (Hv : snd (ev_out pend x u k n sp) x = unit_data x u (sp_pkt sp)) by (unfold ev_out; rewrite Ek, Ec; cbn [snd]; apply upd_same).
      destruct (s x) as [[u0 d0]|] eqn:Es.
      * (* the previous unit is flushed *)
        destruct Hprev as (Hp0 & Hc0 & Hcc). destruct Hpx as (Hne & Hall & Hu0 & Hk0 & Hq0 & Hpe0).
        assert (Hacc : acc_add pm x (qof pl x) (obs sp) = (map obs [sp], map obs d0)).
        { rewrite Hq0, (acc_open pm x d0 sp Hne Hall Hon Hcc (or_intror Hpu)), Hpu, Hb. reflexivity. }
        destruct (parse_pes_done pm x u0 d0 Hp0 Hu0 Hne Hall Hc0 Hcat Hpsi) as [Hparse Hpma].
        assert (Hout : fst (ev_out pend x u k n sp) = unit_data x u0 (hd_pkt d0)).
        { unfold ev_out. rewrite Ek, Ec. cbn [fst]. exact Hpe0. }
        assert (Hg : map obs d0 <> []) by (destruct d0; [contradiction|discriminate]).
        rewrite <- Hout in Hparse, Hpma.
        assert (Hpm1 : forall y, pm_mem (pm_after pm (fst (ev_out pend x u k n sp))) y = true <-> In y reg) by (rewrite Hpma; exact Hpm).
        assert (Hr1 : (if completes u k n then reg ++ announces u else reg) = reg) by (rewrite Ec; reflexivity).
        exact (Hfin_flush (map obs [sp]) (map obs d0) (Some (u, [sp])) (unit_data x u (sp_pkt sp)) reg Hacc Hg Hparse Hpm1 Hr1 Hst Hv (fun _ => Hin) Hnew).
      * destruct Hpx as [Hq0 Hp0].
        assert (Hacc : acc_add pm x (qof pl x) (obs sp) = (map obs [sp], [])) by (rewrite Hq0, acc_add_empty, Hb; reflexivity).
        assert (Hout : fst (ev_out pend x u k n sp) = []) by (unfold ev_out; rewrite Ek, Ec; cbn [fst]; exact Hp0).
        exact (Hfin_quiet (map obs [sp]) (Some (u, [sp])) (unit_data x u (sp_pkt sp)) Hacc Hout Ec Hst Hv (fun _ => Hin) Hnew).
    + destruct Hhead as (Hpu & Hdi & Hprev). destruct (s x) as [[u0 d0]|] eqn:Es; [|contradiction].
      destruct Hprev as [-> Hcc]. destruct Hpx as (Hne & Hall & Hu & Hk0 & Hq0 & Hp0).
      assert (Hall' : Forall (pkt_on x) (d0 ++ [sp])) by (apply Forall_app; split; [exact Hall|constructor; [exact Hon|constructor]]).
      assert (Hhd : hd_pkt (d0 ++ [sp]) = hd_pkt d0) by (destruct d0; [contradiction|reflexivity]).
      assert (Hne' : d0 ++ [sp] <> []) by (destruct d0; discriminate).
      assert (Hacc : acc_add pm x (qof pl x) (obs sp) = (map obs (d0 ++ [sp]), [])).
      { rewrite Hq0, (acc_open pm x d0 sp Hne Hall Hon Hcc (or_introl Hdi)), Hpu, Hb. reflexivity. }
      assert (Hout : fst (ev_out pend x u k n sp) = []) by (unfold ev_out; rewrite Ek, Ec; reflexivity).
      assert (Hv : snd (ev_out pend x u k n sp) x = pend x) by (unfold ev_out; rewrite Ek, Ec; reflexivity).
      assert (Hst : next_st (Some (u, d0)) u k n sp = Some (u, d0 ++ [sp])) by (unfold next_st, next_done; rewrite Ec, Ek; reflexivity).
      refine (Hfin_quiet (map obs (d0 ++ [sp])) (Some (u, d0 ++ [sp])) (pend x) Hacc Hout Ec Hst Hv (fun _ => Hin) _).
      intros pl1 Hq1 pend' Hv'. split; [exact Hne'|]. split; [exact Hall'|]. split; [exact Hu|].
      split; [exact Hk0|]. split; [exact Hq1|]. rewrite Hv', Hhd. exact Hp0.
Qed.

End Step.

(* ---------------- end of stream ---------------- *)

Lemma is_pes_payload_ff n : isPESPayload (repeat 255 n) = false.
Proof.
  destruct n as [|[|[|n]]]; try reflexivity.
  unfold isPESPayload. cbn [repeat length]. destruct (Z.of_nat (S (S (S (length (repeat 255 n))))) <? 3) eqn:E; [reflexivity|].
  reflexivity.
Qed.

Lemma null_payload q : Forall null_obs q -> exists n, concat_payload q = repeat 255 n.
Proof.
  induction 1 as [|p q (_ & n & Hn) _ (m & IH)]; [exists 0%nat; reflexivity|].
  exists (n + m)%nat. unfold concat_payload in *. cbn [flat_map]. rewrite Hn, IH, repeat_app. reflexivity.
Qed.

Lemma null_group_parses pm q : q <> [] -> Forall null_obs q -> pm_mem pm C_PIDNull = false -> parse_data P None pm q = Ok [].
Proof.
  intros Hne Hall Hpm. destruct (null_payload q Hall) as (n & Hn). destruct q as [|p0 q']; [contradiction|].
  pose proof (Forall_inv Hall) as (Hpid & _).
  unfold parse_data. rewrite Hpid. change (C_PIDNull =? C_PIDCAT) with false. cbv iota.
  unfold isPSIPayload. rewrite Hpm. change (C_PIDNull =? C_PIDPAT) with false. cbn [orb].
  change ((C_PIDNull >=? 16) && (C_PIDNull <=? 20) || (C_PIDNull >=? 30) && (C_PIDNull <=? 31)) with false. cbv iota.
  rewrite Hn, is_pes_payload_ff. reflexivity.
Qed.

Definition ne {A} (l : list A) : bool := match l with [] => false | _ => true end.

Lemma flat_map_ne {A} (f : Z -> list A) l : flat_map f l = flat_map f (filter (fun y => ne (f y)) l).
Proof.
  induction l as [|a l IH]; [reflexivity|]. cbn [flat_map filter]. destruct (f a) eqn:E; cbn [ne].
  - exact IH.
  - cbn [flat_map]. rewrite E, IH. reflexivity.
Qed.

Lemma sorted_filter (g : Z -> bool) l : StronglySorted Z.lt l -> StronglySorted Z.lt (filter g l).
Proof.
  induction 1 as [|a l Hs IH Hall]; [constructor|]. cbn [filter]. destruct (g a); [|exact IH].
  constructor; [exact IH|]. apply Forall_forall. intros y Hy. apply filter_In in Hy.
  apply (proj1 (Forall_forall _ _) Hall y (proj1 Hy)).
Qed.

Lemma flat_map_support {A} (f : Z -> list A) l1 l2 : StronglySorted Z.lt l1 -> StronglySorted Z.lt l2 ->
  (forall y, f y <> [] -> In y l1 /\ In y l2) -> flat_map f l1 = flat_map f l2.
Proof.
  intros H1 H2 H. rewrite (flat_map_ne f l1), (flat_map_ne f l2). f_equal.
  apply sorted_same_members; [apply sorted_filter, H1|apply sorted_filter, H2|].
  intros y. rewrite !filter_In. split; intros [_ Hy]; (split; [|exact Hy]); apply H; destruct (f y); discriminate.
Qed.

Theorem end_drain s pend pl pm reg :
  StronglySorted Z.lt pids -> Inv s pend pl pm reg -> (forall y, In y reg -> y <> C_PIDNull /\ pes y = false) ->
  (forall x, pid_seq x (s x) []) ->
  drain_data P pm pl = Some (flat_map pend pids).
Proof.
  intros Hsp Hinv Hreg Hend. pose proof Hinv as [Hso Hpm (Hn1 & Hn2 & Hn3) Hpe Hpidv].
  assert (Hpmn : pm_mem pm C_PIDNull = false).
  { destruct (pm_mem pm C_PIDNull) eqn:E; [|reflexivity]. apply Hpm in E. destruct (Hreg _ E) as [E' _]. congruence. }
  rewrite (drain_data_by_qof P pm pend pl Hso).
  - f_equal. apply flat_map_support; [apply pool_pids_sorted, Hso|exact Hsp|].
    intros y Hy. split; [|apply Hpe, Hy]. apply (pool_pids_in pl Hso).
    destruct (Z.eq_dec y C_PIDNull) as [->|Hne]; [congruence|].
    pose proof (Hpidv y Hne) as Hp. unfold pid_inv in Hp. destruct (s y) as [[u d]|].
    + destruct Hp as (Hd & _ & _ & _ & Hq & _). rewrite Hq. destruct d; [contradiction|discriminate].
    + destruct Hp as [_ Hp]. congruence.
  - intros k Hk. destruct (Z.eq_dec k C_PIDNull) as [->|Hne].
    + rewrite Hn3. split; [apply null_group_parses; assumption|reflexivity].
    + pose proof (Hpidv k Hne) as Hp. specialize (Hend k). unfold pid_inv in Hp. cbn [pid_seq] in Hend.
      destruct (s k) as [[u d]|]; [|destruct Hp as [Hq _]; congruence].
      destruct Hp as (Hd & Hall & Hu & Hkind & Hq & Hpd). destruct Hend as [Hps Hc].
      unfold kind_ok in Hkind. rewrite Hps in Hkind. destruct Hkind as [Hes Hpes].
      destruct (pes_flags s pend pl pm reg Hinv Hreg k Hes Hpes) as (_ & Hcat & Hpsi).
      rewrite Hq, Hpd. apply (parse_pes_done pm k u d Hps Hu Hd Hall Hc Hcat Hpsi).
Qed.

(* ---------------- the whole stream ---------------- *)

Definition ev_obs (e : ev) : Packet := obs (ev_pkt e).

Lemma announced_cons e r : announced (e :: r) =
  (match e with EPkt _ u k n _ => if completes u k n then announces u else [] | EFill _ => [] end) ++ announced r.
Proof. reflexivity. Qed.

Theorem run_events : StronglySorted Z.lt pids -> forall evs s pend pl pm reg,
  Inv s pend pl pm reg -> evs_ok reg evs ->
  (forall y, In y (reg ++ announced evs) -> y <> C_PIDNull /\ pes y = false) ->
  (forall x, pid_seq x (s x) (proj x evs)) ->
  exists pl' pm' out pend',
    feed P pl pm (map ev_obs evs) = Some (pl', pm', out) /\
    drain_data P pm' pl' = Some (flat_map pend' pids) /\
    out ++ flat_map pend' pids = StreamSpec.expect pids pend evs.
Proof.
  intros Hsp. induction evs as [|e r IH]; intros s pend pl pm reg Hinv Hok Hreg Hseq.
  - exists pl, pm, [], pend. cbn [map feed StreamSpec.expect app]. split; [reflexivity|]. split; [|reflexivity].
    apply (end_drain s pend pl pm reg Hsp Hinv); [|exact Hseq].
    intros y Hy. apply Hreg. apply in_or_app. left. exact Hy.
  - destruct e as [sp|x u k n sp].
    + destruct Hok as [Hf Hok]. cbn [map ev_obs ev_pkt].
      destruct (step_fill s pend pl pm reg sp Hinv ltac:(intros y Hy; apply Hreg, in_or_app; left; exact Hy) Hf) as (pl1 & Hadd & Hinv1).
      destruct (IH s pend pl1 pm reg Hinv1 Hok Hreg Hseq) as (pl' & pm' & out & pend' & Hfeed & Hdr & Hex).
      exists pl', pm', out, pend'. split; [|split; [exact Hdr|exact Hex]].
      change (ev_obs (EFill sp)) with (obs sp). rewrite (feed_quiet pl pm (obs sp) pl1 Hadd), Hfeed. reflexivity.
    + destruct Hok as (Hkind & Hin & Htbl & Hok). rewrite announced_cons in Hreg.
      assert (Hseqx : pid_seq x (s x) ((u, k, n, sp) :: proj x r)).
      { specialize (Hseq x). cbn [proj] in Hseq. rewrite Z.eqb_refl in Hseq. exact Hseq. }
      destruct (step_pkt s pend pl pm reg Hinv ltac:(intros y Hy; apply Hreg, in_or_app; left; exact Hy) x u k n sp (proj x r)
                  ltac:(intros y Hy; apply Hreg, in_or_app; right; apply in_or_app; left; exact Hy) Hkind Hin Htbl Hseqx)
        as (pl1 & pm1 & Hfeed1 & Hinv1).
      destruct (IH _ _ pl1 pm1 _ Hinv1 Hok) as (pl' & pm' & out & pend' & Hfeed & Hdr & Hex).
      * intros y Hy. apply Hreg. destruct (completes u k n).
        -- rewrite <- app_assoc in Hy. exact Hy.
        -- cbn [app]. exact Hy.
      * intros y. destruct (Z.eq_dec y x) as [->|Hne].
        -- rewrite supd_same. cbn [pid_seq] in Hseqx. apply Hseqx.
        -- rewrite (supd_other _ _ _ _ Hne). specialize (Hseq y). cbn [proj] in Hseq.
           destruct (x =? y) eqn:E; [lia|exact Hseq].
      * exists pl', pm', (fst (ev_out pend x u k n sp) ++ out), pend'.
        split; [|split; [exact Hdr|]].
        -- cbn [map]. change (ev_obs (EPkt x u k n sp)) with (obs sp). rewrite Hfeed1, Hfeed. reflexivity.
        -- cbn [StreamSpec.expect]. destruct (ev_out pend x u k n sp) as [o1 p1]. cbn [fst snd] in *. rewrite <- app_assoc, Hex. reflexivity.
Qed.

(* ---------------- where the reader stands when a unit is delivered ---------------- *)

Fixpoint nd_iter (n : nat) (s : dstate) : list (res DemuxerData) * dstate :=
  match n with
  | O => ([], s)
  | S k => let '(r, s1) := nd P s in let '(rs, s2) := nd_iter k s1 in (r :: rs, s2)
  end.

Lemma nd_iter_app a : forall b s,
  nd_iter (a + b) s = let '(r1, s1) := nd_iter a s in let '(r2, s2) := nd_iter b s1 in (r1 ++ r2, s2).
Proof using.
  induction a as [|a IH]; intros b s; cbn [Nat.add nd_iter].
  - destruct (nd_iter b s) as [r2 s2]. reflexivity.
  - destruct (nd P s) as [r s1]. rewrite IH. destruct (nd_iter a s1) as [r1 s1']. destruct (nd_iter b s1') as [r2 s2]. reflexivity.
Qed.

(* buffered data are handed out without touching reader, pool or program map *)
Lemma buffer_calls : forall B s, d_buffer s = B ->
  exists s', nd_iter (length B) s = (map Ok B, s') /\ d_buffer s' = [] /\ d_pool s' = d_pool s /\ d_pm s' = d_pm s /\
             (forall bufs, at_bufs s bufs -> at_bufs s' bufs) /\ d_reader s' = d_reader s.
Proof using.
  induction B as [|b B IH]; intros s HB.
  - exists s. cbn [length nd_iter map]. split; [reflexivity|]. split; [exact HB|]. split; [reflexivity|]. split; [reflexivity|].
    split; [intros bufs H; exact H|reflexivity].
  - cbn [length nd_iter map]. unfold nd. rewrite (buffered_first P None no_skip s b B HB).
    set (s1 := mk_dstate B (d_pb s) (d_pool s) (d_pm s) (d_reader s) (d_opt_size s) (d_groups s) (d_consulted s)).
    destruct (IH s1 eq_refl) as (s' & E & H1 & H2 & H3 & H4 & H5). fold (nd P). rewrite E.
    exists s'. split; [reflexivity|]. split; [exact H1|]. split; [exact H2|]. split; [exact H3|].
    split; [intros bufs Hat; apply H4; exact Hat|exact H5].
Qed.

Lemma feed_nil_inv pl pm pl1 pm1 o : feed P pl pm [] = Some (pl1, pm1, o) -> pl1 = pl /\ pm1 = pm /\ o = [].
Proof using. cbn [feed]. intros H. injection H as <- <- <-. auto. Qed.

(* one NextData call from an empty buffer: it reads the packets that deliver nothing and stops right behind the first
   packet that delivers something *)
Lemma loop_reach : forall pkts1 bufs1 sd fuel p b bufs2 pl1 pm1 pl2 pm2 d ds,
  (S (length bufs1) < fuel)%nat -> d_buffer sd = [] -> at_bufs sd (bufs1 ++ b :: bufs2) ->
  Forall2 (fun b p => parse_packet_bytes b = Ok p) bufs1 pkts1 -> parse_packet_bytes b = Ok p ->
  feed P (d_pool sd) (d_pm sd) pkts1 = Some (pl1, pm1, []) ->
  feed P pl1 pm1 [p] = Some (pl2, pm2, d :: ds) ->
  exists s', next_data_loop P None no_skip fuel sd = (Ok d, s') /\ at_bufs s' bufs2 /\ d_buffer s' = ds /\
             d_pool s' = pl2 /\ d_pm s' = pm2.
Proof using SP SP_parses.
  induction pkts1 as [|p1 r1 IH]; intros bufs1 sd fuel p b bufs2 pl1 pm1 pl2 pm2 d ds Hfuel Hbuf Hat HF Hb Hf1 Hf2.
  - inversion HF; subst bufs1. cbn [app] in Hat. destruct (feed_nil_inv _ _ _ _ _ Hf1) as (-> & -> & _).
    destruct fuel as [|k]; [lia|]. rewrite loop_unfold.
    destruct (next_packet_cons sd b bufs2 p Hat Hb) as (s1 & Hnp & (C1 & C2 & C3) & Hat1 & _). rewrite Hnp. cbn [after_packet].
    cbn [feed] in Hf2. rewrite C1, C2.
    destruct (pool_add (d_pm sd) (d_pool sd) p) as [pla g]. destruct g as [|g0 g']; [discriminate Hf2|].
    change (d_pm (log_group (set_pool s1 pla) (g0 :: g'))) with (d_pm s1). rewrite C2.
    destruct (parse_data P None (d_pm sd) (g0 :: g')) as [ds0| |]; try discriminate.
    injection Hf2 as <- <- Hout. rewrite app_nil_r in Hout. subst ds0. cbn [update_data].
    eexists. split; [reflexivity|]. split; [exact Hat1|]. cbn [log_group set_pool d_pool d_pm d_buffer]. rewrite C3, Hbuf, C2.
    split; [reflexivity|]. split; reflexivity.
  - inversion HF as [|b1 p1' bufs1' r1' Hb1 HF']; subst. cbn [app length] in *.
    destruct fuel as [|k]; [lia|]. rewrite loop_unfold.
    destruct (next_packet_cons sd b1 _ p1 Hat Hb1) as (s1 & Hnp & (C1 & C2 & C3) & Hat1 & _). rewrite Hnp. cbn [after_packet].
    cbn [feed] in Hf1. rewrite C1, C2.
    destruct (pool_add (d_pm sd) (d_pool sd) p1) as [pla g]. destruct g as [|g0 g'].
    + apply (IH bufs1' (set_pool s1 pla) k p b bufs2 pl1 pm1 pl2 pm2 d ds); try assumption; try lia.
      * cbn [set_pool d_buffer]. rewrite C3. exact Hbuf.
      * cbn [set_pool d_pool d_pm]. rewrite C2. exact Hf1.
    + change (d_pm (log_group (set_pool s1 pla) (g0 :: g'))) with (d_pm s1). rewrite C2.
      destruct (parse_data P None (d_pm sd) (g0 :: g')) as [ds0| |]; try discriminate.
      destruct (feed P pla (pm_after (d_pm sd) ds0) r1) as [[[plb pmb] outr]|] eqn:Er; try discriminate.
      injection Hf1 as <- <- Hout. apply app_eq_nil in Hout. destruct Hout as [-> ->]. cbn [update_data].
      apply (IH bufs1' (log_group (set_pool s1 pla) (g0 :: g')) k p b bufs2 plb pmb pl2 pm2 d ds); try assumption; try lia.
      * cbn [log_group set_pool d_buffer]. rewrite C3. exact Hbuf.
      * cbn [log_group set_pool d_pool d_pm]. rewrite C2. exact Er.
Qed.

Lemma nd_reach pkts1 bufs1 sd p b bufs2 pl1 pm1 pl2 pm2 d ds :
  d_buffer sd = [] -> at_bufs sd (bufs1 ++ b :: bufs2) ->
  Forall2 (fun b p => parse_packet_bytes b = Ok p) bufs1 pkts1 -> parse_packet_bytes b = Ok p ->
  feed P (d_pool sd) (d_pm sd) pkts1 = Some (pl1, pm1, []) ->
  feed P pl1 pm1 [p] = Some (pl2, pm2, d :: ds) ->
  exists s', nd P sd = (Ok d, s') /\ at_bufs s' bufs2 /\ d_buffer s' = ds /\ d_pool s' = pl2 /\ d_pm s' = pm2.
Proof using SP SP_parses.
  intros Hbuf Hat HF Hb Hf1 Hf2. unfold nd, next_data. rewrite Hbuf, (at_bufs_fuel sd _ Hat).
  apply (loop_reach pkts1 bufs1 sd _ p b bufs2 pl1 pm1 pl2 pm2 d ds); try assumption.
  rewrite app_length. cbn [length]. lia.
Qed.

Definition ev_bytes (e : ev) : list Z := spkt_bytes (ev_pkt e).

Lemma evs_seen l : Forall spkt_ok (map ev_pkt l) ->
  Forall2 (fun b p => parse_packet_bytes b = Ok p) (map ev_bytes l) (map ev_obs l).
Proof using.
  induction l as [|e l IH]; intros H; [constructor|]. cbn [map] in *.
  constructor; [apply (spkt_seen _ (Forall_inv H))|apply IH, (Forall_inv_tail H)].
Qed.

(* the calls that deliver the data of [pre], then the call that reads the delivering packet e *)
Theorem reach_event : forall pre s pend pl pm reg x u k n sp post qe sd d ds,
  Inv s pend pl pm reg -> evs_ok reg (pre ++ EPkt x u k n sp :: post) ->
  (forall y, In y (reg ++ announced (pre ++ EPkt x u k n sp :: post)) -> y <> C_PIDNull /\ pes y = false) ->
  (forall y, pid_seq y (s y) (proj y (pre ++ EPkt x u k n sp :: post))) ->
  Forall spkt_ok (map ev_pkt (qe ++ pre ++ EPkt x u k n sp :: post)) ->
  d_buffer sd = [] -> at_bufs sd (map ev_bytes (qe ++ pre ++ EPkt x u k n sp :: post)) ->
  feed P (d_pool sd) (d_pm sd) (map ev_obs qe) = Some (pl, pm, []) ->
  fst (ev_out (snd (delivered pend pre)) x u k n sp) = d :: ds ->
  exists sn s', nd_iter (length (fst (delivered pend pre))) sd = (map Ok (fst (delivered pend pre)), sn) /\
    nd P sn = (Ok d, s') /\ at_bufs s' (map ev_bytes post) /\ d_buffer s' = ds.
Proof using SP_parses tbl_pes.
  induction pre as [|e1 pre IH]; intros s pend pl pm reg x u k n sp post qe sd d ds Hinv Hok Hreg Hseq Hsp Hbuf Hat Hq Hout.
  - cbn [app delivered fst snd length nd_iter map] in *. destruct Hok as (Hkind & Hin & Htbl & _).
    rewrite announced_cons in Hreg.
    assert (Hseqx : pid_seq x (s x) ((u, k, n, sp) :: proj x post)).
    { specialize (Hseq x). cbn [proj] in Hseq. rewrite Z.eqb_refl in Hseq. exact Hseq. }
    destruct (step_pkt s pend pl pm reg Hinv ltac:(intros y Hy; apply Hreg, in_or_app; left; exact Hy) x u k n sp (proj x post)
                ltac:(intros y Hy; apply Hreg, in_or_app; right; apply in_or_app; left; exact Hy) Hkind Hin Htbl Hseqx)
      as (pl1 & pm1 & Hfeed1 & _).
    specialize (Hfeed1 []). change (feed P pl1 pm1 []) with (Some (pl1, pm1, @nil DemuxerData)) in Hfeed1. cbv iota beta in Hfeed1. rewrite Hout, app_nil_r in Hfeed1.
    rewrite !map_app in Hat, Hsp. cbn [map] in Hat, Hsp. apply Forall_app in Hsp. destruct Hsp as [Hsp1 Hsp2].
    destruct (spkt_seen sp (Forall_inv Hsp2)) as [_ Hparse].
    destruct (nd_reach (map ev_obs qe) (map ev_bytes qe) sd (obs sp) (ev_bytes (EPkt x u k n sp)) (map ev_bytes post)
                pl pm pl1 pm1 d ds Hbuf Hat (evs_seen qe Hsp1) Hparse Hq Hfeed1) as (s' & Hnd & Hat' & Hb' & _).
    exists sd, s'. split; [reflexivity|]. split; [exact Hnd|]. split; [exact Hat'|exact Hb'].
  - assert (Hassoc : qe ++ (e1 :: pre) ++ EPkt x u k n sp :: post = (qe ++ [e1]) ++ pre ++ EPkt x u k n sp :: post).
    { rewrite <- app_assoc. reflexivity. }
    destruct e1 as [f|x1 u1 k1 n1 sp1].
    + (* a filler *)
      cbn [app delivered] in *. destruct Hok as [Hf Hok].
      destruct (step_fill s pend pl pm reg f Hinv ltac:(intros y Hy; apply Hreg, in_or_app; left; exact Hy) Hf) as (pl1 & Hadd & Hinv1).
      apply (IH s pend pl1 pm reg x u k n sp post (qe ++ [EFill f]) sd d ds Hinv1 Hok Hreg Hseq); try assumption.
      * rewrite <- Hassoc. exact Hsp.
      * rewrite <- Hassoc. exact Hat.
      * rewrite map_app, (feed_app P _ _ _ _ _ _ _ Hq). cbn [map]. change (ev_obs (EFill f)) with (obs f).
        rewrite (feed_quiet pl pm (obs f) pl1 Hadd). reflexivity.
    + (* a payload packet *)
      cbn [app] in Hok, Hreg, Hseq. destruct Hok as (Hkind & Hin & Htbl & Hok). rewrite announced_cons in Hreg.
      assert (Hseqx : pid_seq x1 (s x1) ((u1, k1, n1, sp1) :: proj x1 (pre ++ EPkt x u k n sp :: post))).
      { specialize (Hseq x1). cbn [proj] in Hseq. rewrite Z.eqb_refl in Hseq. exact Hseq. }
      destruct (step_pkt s pend pl pm reg Hinv ltac:(intros y Hy; apply Hreg, in_or_app; left; exact Hy) x1 u1 k1 n1 sp1 _
                  ltac:(intros y Hy; apply Hreg, in_or_app; right; apply in_or_app; left; exact Hy) Hkind Hin Htbl Hseqx)
        as (pl1 & pm1 & Hfeed1 & Hinv1).
      cbn [delivered] in Hout |- *.
      destruct (ev_out pend x1 u1 k1 n1 sp1) as [o1 pend1] eqn:Eo. cbn [fst snd] in Hfeed1, Hinv1.
      destruct (delivered pend1 pre) as [o2 pend2] eqn:Ed. cbn [fst snd] in Hout |- *.
      assert (Hreg1 : forall y, In y ((if completes u1 k1 n1 then reg ++ announces u1 else reg) ++
                                      announced (pre ++ EPkt x u k n sp :: post)) -> y <> C_PIDNull /\ pes y = false).
      { intros y Hy. apply Hreg. destruct (completes u1 k1 n1); [rewrite <- app_assoc in Hy; exact Hy|cbn [app]; exact Hy]. }
      assert (Hseq1 : forall y, pid_seq y (supd s x1 (next_st (s x1) u1 k1 n1 sp1) y) (proj y (pre ++ EPkt x u k n sp :: post))).
      { intros y. destruct (Z.eq_dec y x1) as [->|Hne].
        - rewrite supd_same. cbn [pid_seq] in Hseqx. apply Hseqx.
        - rewrite (supd_other _ _ _ _ Hne). specialize (Hseq y). cbn [proj] in Hseq. destruct (x1 =? y) eqn:E; [lia|exact Hseq]. }
      pose proof (Hfeed1 []) as Hf1. change (feed P pl1 pm1 []) with (Some (pl1, pm1, @nil DemuxerData)) in Hf1. cbv iota beta in Hf1. rewrite app_nil_r in Hf1.
      destruct o1 as [|d1 ds1].
      * (* nothing delivered: the call goes on *)
        cbn [app].
        pose proof (IH _ pend1 pl1 pm1 _ x u k n sp post (qe ++ [EPkt x1 u1 k1 n1 sp1]) sd d ds Hinv1 Hok Hreg1 Hseq1) as IH'.
        rewrite Ed in IH'. cbn [fst snd] in IH'. apply IH'; try assumption.
        -- rewrite <- Hassoc. exact Hsp.
        -- rewrite <- Hassoc. exact Hat.
        -- rewrite map_app, (feed_app P _ _ _ _ _ _ _ Hq). cbn [map]. change (ev_obs (EPkt x1 u1 k1 n1 sp1)) with (obs sp1).
           rewrite Hf1. reflexivity.
      * (* this packet ends a call *)
        rewrite map_app in Hat, Hsp. cbn [app map] in Hat, Hsp. apply Forall_app in Hsp. destruct Hsp as [Hsp1 Hsp2].
        destruct (spkt_seen sp1 (Forall_inv Hsp2)) as [_ Hparse].
        destruct (nd_reach (map ev_obs qe) (map ev_bytes qe) sd (obs sp1) (ev_bytes (EPkt x1 u1 k1 n1 sp1))
                    (map ev_bytes (pre ++ EPkt x u k n sp :: post))
                    pl pm pl1 pm1 d1 ds1 Hbuf Hat (evs_seen qe Hsp1) Hparse Hq Hf1) as (s1 & Hnd1 & Hat1 & Hb1 & Hp1 & Hm1).
        destruct (buffer_calls ds1 s1 Hb1) as (s2 & Hit2 & Hb2 & Hp2 & Hm2 & Hat2 & _).
        pose proof (IH _ pend1 pl1 pm1 _ x u k n sp post [] s2 d ds Hinv1 Hok Hreg1 Hseq1) as IH'.
        rewrite Ed in IH'. cbn [fst snd app] in IH'.
        destruct IH' as (sn & s' & Hit & Hnd & Hat' & Hb'); try assumption.
        -- exact (Forall_inv_tail Hsp2).
        -- apply Hat2. exact Hat1.
        -- cbn [map feed]. rewrite Hp2, Hm2, Hp1, Hm1. reflexivity.
        -- exists sn, s'. split; [|split; [exact Hnd|split; assumption]].
           cbn [app length]. rewrite app_length. cbn [nd_iter]. rewrite Hnd1, (nd_iter_app (length ds1) (length o2) s1), Hit2, Hit.
           cbn [map]. rewrite map_app. reflexivity.
Qed.

(* the invariant after a beginning of the stream *)
Lemma prefix_inv : forall pre s pend pl pm reg post,
  Inv s pend pl pm reg -> evs_ok reg (pre ++ post) ->
  (forall y, In y (reg ++ announced (pre ++ post)) -> y <> C_PIDNull /\ pes y = false) ->
  (forall y, pid_seq y (s y) (proj y (pre ++ post))) ->
  exists s' pl' pm' reg', Inv s' (snd (delivered pend pre)) pl' pm' reg' /\
    (forall y, pid_seq y (s' y) (proj y post)).
Proof using SP_parses tbl_pes.
  induction pre as [|e pre IH]; intros s pend pl pm reg post Hinv Hok Hreg Hseq.
  - exists s, pl, pm, reg. split; [exact Hinv|exact Hseq].
  - destruct e as [f|x u k n sp]; cbn [app delivered] in *.
    + destruct Hok as [Hf Hok].
      destruct (step_fill s pend pl pm reg f Hinv ltac:(intros y Hy; apply Hreg, in_or_app; left; exact Hy) Hf) as (pl1 & _ & Hinv1).
      apply (IH s pend pl1 pm reg post Hinv1 Hok Hreg Hseq).
    + destruct Hok as (Hkind & Hin & Htbl & Hok). rewrite announced_cons in Hreg.
      assert (Hseqx : pid_seq x (s x) ((u, k, n, sp) :: proj x (pre ++ post))).
      { specialize (Hseq x). cbn [proj] in Hseq. rewrite Z.eqb_refl in Hseq. exact Hseq. }
      destruct (step_pkt s pend pl pm reg Hinv ltac:(intros y Hy; apply Hreg, in_or_app; left; exact Hy) x u k n sp _
                  ltac:(intros y Hy; apply Hreg, in_or_app; right; apply in_or_app; left; exact Hy) Hkind Hin Htbl Hseqx)
        as (pl1 & pm1 & _ & Hinv1).
      destruct (ev_out pend x u k n sp) as [o1 pend1] eqn:Eo. cbn [fst snd] in Hinv1.
      destruct (IH _ pend1 pl1 pm1 _ post Hinv1 Hok) as (s' & pl' & pm' & reg' & Hinv' & Hseq').
      * intros y Hy. apply Hreg. destruct (completes u k n); [rewrite <- app_assoc in Hy; exact Hy|cbn [app]; exact Hy].
      * intros y. destruct (Z.eq_dec y x) as [->|Hne].
        -- rewrite supd_same. cbn [pid_seq] in Hseqx. apply Hseqx.
        -- rewrite (supd_other _ _ _ _ Hne). specialize (Hseq y). cbn [proj] in Hseq. destruct (x =? y) eqn:E; [lia|exact Hseq].
      * exists s', pl', pm', reg'. destruct (delivered pend1 pre) as [o2 pend2]. cbn [snd] in *. split; assumption.
Qed.

(* the packet completing a table unit delivers exactly the data of that unit *)
Lemma completing_out s pend pl pm reg x u k n sp tlx :
  Inv s pend pl pm reg -> kind_ok x u -> completes u k n = true ->
  pid_seq x (s x) ((u, k, n, sp) :: tlx) ->
  exists p0, fst (ev_out pend x u k n sp) = unit_data x u p0.
Proof using SP_parses tbl_pes.
  intros Hinv Hkind Hc Hseq. cbn [pid_seq] in Hseq. destruct Hseq as (_ & Hhead & _).
  assert (Epsi : is_psi u = true) by (unfold completes in Hc; destruct (is_psi u); [reflexivity|discriminate]).
  unfold kind_ok in Hkind. rewrite Epsi in Hkind. destruct Hkind as [Htp Htx].
  assert (Hx : x <> C_PIDNull) by (unfold table_pid_ok, C_PIDNull in *; lia).
  pose proof (iv_pid _ _ _ _ _ Hinv x Hx) as Hpx. unfold ev_out. rewrite Hc.
  destruct (k =? 0)%nat eqn:Ek; cbn [fst].
  - destruct Hhead as (_ & _ & Hprev). exists (sp_pkt sp). rewrite upd_same.
    destruct (s x) as [[u0 d0]|]; unfold pid_inv in Hpx.
    + exfalso. destruct Hprev as (Hp0 & _). destruct Hpx as (_ & _ & _ & Hk0 & _). unfold kind_ok in Hk0. rewrite Hp0 in Hk0.
      apply (tbl_pes x Htx), Hk0.
    + destruct Hpx as [_ ->]. reflexivity.
  - destruct Hhead as (_ & _ & Hprev). destruct (s x) as [[u0 d0]|]; [|contradiction]. destruct Hprev as [-> _].
    destruct Hpx as (_ & _ & _ & _ & _ & Hp). exists (hd_pkt d0). cbn [app]. exact Hp.
Qed.

End Domain.

(* (restated outside the section: lia makes every lemma proved inside depend on all its hypotheses) *)
Lemma upd_same' f x v : upd f x v x = v.
Proof. unfold upd. rewrite Z.eqb_refl. reflexivity. Qed.
Lemma upd_other' f x v y : y <> x -> upd f x v y = f y.
Proof. intros H. unfold upd. destruct (y =? x) eqn:E; [lia|reflexivity]. Qed.
Lemma ev_out_other' pend x u k n p y : y <> x -> snd (ev_out pend x u k n p) y = pend y.
Proof.
  intros H. unfold ev_out. destruct (k =? 0)%nat, (completes u k n); cbn [snd]; rewrite ?upd_other' by exact H; reflexivity.
Qed.

(* ---------------- from the declarative well-formedness to the hypotheses of the induction ---------------- *)

Definition pes_pid (l : list (Z * list carried)) (x : Z) : bool :=
  match units_of l x with c :: _ => negb (is_psi (cu_unit c)) | [] => false end.

Lemma table_pes_excl l x : table_pid l x = true -> pes_pid l x = true -> False.
Proof. unfold table_pid, pes_pid. destruct (units_of l x) as [|c ?]; [discriminate|]. destruct (is_psi (cu_unit c)); discriminate. Qed.

Lemma units_of_in l x : units_of l x <> [] -> In x (map fst l).
Proof.
  induction l as [|[k c] l IH]; [intros H; contradiction|]. cbn [units_of map fst In].
  destruct (k =? x) eqn:E; [left; lia|]. intros H. right. apply IH, H.
Qed.

Lemma in_number_from u n : forall l k0 u' k' n' p', In (u', k', n', p') (number_from u n k0 l) ->
  u' = u /\ n' = n /\ (k0 <= k')%nat /\ In p' l.
Proof.
  induction l as [|p l IH]; intros k0 u' k' n' p' H; [contradiction|]. cbn [number_from] in H. destruct H as [E|H].
  - injection E as <- <- <- <-. repeat split; [lia|left; reflexivity].
  - destruct (IH _ _ _ _ _ H) as (A & B & C & D). repeat split; try assumption; [lia|right; exact D].
Qed.

Lemma in_labelled c u k n p : In (u, k, n, p) (labelled c) ->
  u = cu_unit c /\ In p (cu_pkts c) /\ (k = 0%nat -> p = cu_first c).
Proof.
  unfold labelled, cu_pkts. cbn [number_from length]. intros [E|H].
  - injection E as <- <- <- <-. repeat split; [left; reflexivity].
  - destruct (in_number_from _ _ _ _ _ _ _ _ H) as (A & _ & C & D). split; [exact A|]. split; [right; exact D|]. intros ->. lia.
Qed.

Lemma in_proj x u k n p evs : In (EPkt x u k n p) evs -> In (u, k, n, p) (proj x evs).
Proof.
  induction evs as [|e r IH]; [intros H; contradiction|]. intros [E|H].
  - subst e. cbn [proj]. rewrite Z.eqb_refl. left. reflexivity.
  - destruct e as [q|y u' k' n' q]; cbn [proj]; [apply IH, H|]. destruct (y =? x); [right|]; apply IH, H.
Qed.

Lemma payload_le sp : spkt_ok sp -> (length (sp_payload sp) <= 188)%nat.
Proof.
  intros H. pose proof (spkt_bytes_len sp H) as Hl. destruct H as (W & Hs & Ob).
  unfold spkt_bytes in Hl. rewrite (PacketRef.ref_bytes_stuffed _ _ W Hs Ob), !app_length in Hl. unfold sp_payload. lia.
Qed.

Lemma section_to_data_len s fp x : (length (section_to_data s fp x) <= 2)%nat.
Proof.
  unfold section_to_data. destruct (PSISection_Syntax s) as [syn|]; [|cbn; lia].
  destruct (PSISectionSyntax_Data syn) as [d|]; [|cbn; lia]. destruct (PSISection_Header s) as [h|]; [|cbn; lia].
  set (tid := PSISectionHeader_TableID h).
  destruct (is_nit_id tid), (tid =? C_PSITableIDPAT), (tid =? C_PSITableIDPMT), (is_sdt_id tid), (tid =? C_PSITableIDTOT), (is_eit_id tid);
    cbn [app length]; lia.
Qed.

Lemma concat_framed_length3 secs : Forall framed secs -> (3 * length secs <= length (concat secs))%nat.
Proof.
  induction 1 as [|s l Hs _ IH]; [cbn; lia|]. cbn [concat length]. rewrite app_length.
  pose proof (framed_length s Hs). lia.
Qed.

Lemma unit_data_pid x u p : Forall (fun d => DemuxerData_PID d = x) (unit_data x u p).
Proof.
  destruct u as [pu|su]; cbn [unit_data]; [repeat constructor|].
  induction (su_secs su) as [|s l IH]; [constructor|]. cbn [flat_map]. apply Forall_app. split; [|exact IH].
  unfold section_to_data. destruct (PSISection_Syntax (se_value s)) as [syn|]; [|constructor].
  destruct (PSISectionSyntax_Data syn) as [d|]; [|constructor]. destruct (PSISection_Header (se_value s)) as [h|]; [|constructor].
  set (tid := PSISectionHeader_TableID h).
  destruct (is_nit_id tid), (tid =? C_PSITableIDPAT), (tid =? C_PSITableIDPMT), (is_sdt_id tid), (tid =? C_PSITableIDTOT), (is_eit_id tid);
    repeat constructor.
Qed.

Section Top.
Variable SP : list Z -> PSISection -> Prop.
Hypothesis SP_parses : forall b s, SP b s -> sec_parses b s.

Lemma units_of_ok l x : Forall (fun e => pid_units_ok SP (fst e) (snd e)) l ->
  units_of l x = [] \/ pid_units_ok SP x (units_of l x).
Proof.
  induction 1 as [|[k c] l Hk _ IH]; [left; reflexivity|]. cbn [units_of].
  destruct (k =? x) eqn:E; [|exact IH]. right. assert (k = x) by lia. subst k. exact Hk.
Qed.

(* the data of a unit are no more than its bytes *)
Lemma unit_data_le x u p : unit_ok SP u -> (length (unit_data x u p) <= length (unit_bytes u))%nat.
Proof.
  destruct u as [pu|su]; cbn [unit_ok unit_data unit_bytes].
  - intros Hok. destruct (pes_unit_start pu ltac:(apply Hok) (pes_plen_range pu Hok)) as (tail & ->). cbn [length]. lia.
  - intros (Hp & Hf & _ & _ & Hs). pose proof (concat_framed_length3 _ (secs_framed SP _ Hs)) as H3. rewrite map_length in H3.
    assert (Hlen : forall l, (length (flat_map (fun s => section_to_data (se_value s) (first_pkt p) x) l) <= 2 * length l)%nat).
    { induction l as [|s l IH]; [cbn; lia|]. cbn [flat_map length]. rewrite app_length.
      pose proof (section_to_data_len (se_value s) (first_pkt p) x). lia. }
    specialize (Hlen (su_secs su)). unfold psi_unit_bytes. cbn [length]. rewrite !app_length. lia.
Qed.

Lemma payload_of_len l : Forall spkt_ok l -> (length (payload_of l) <= 188 * length l)%nat.
Proof.
  induction 1 as [|sp l Hsp _ IH]; [cbn; lia|]. unfold payload_of in *. cbn [map concat length]. rewrite app_length.
  pose proof (payload_le sp Hsp). lia.
Qed.

Lemma number_from_length u n : forall l k, length (number_from u n k l) = length l.
Proof. induction l as [|p l IH]; intros k; [reflexivity|]. cbn [number_from length]. rewrite IH. reflexivity. Qed.

(* per PID: no more data than 188 times its packets *)
Lemma units_data_len x cus : Forall (carried_ok SP x) cus ->
  (length (flat_map (fun c => unit_data x (cu_unit c) (sp_pkt (cu_first c))) cus) <= 188 * length (flat_map labelled cus))%nat.
Proof.
  induction 1 as [|c cus (Hu & Hon & _ & _ & Hpay & _) _ IH]; [cbn; lia|]. cbn [flat_map]. rewrite !app_length.
  pose proof (unit_data_le x (cu_unit c) (sp_pkt (cu_first c)) Hu) as H1. rewrite <- Hpay in H1.
  assert (Hok : Forall spkt_ok (cu_pkts c)) by (eapply Forall_impl; [|exact Hon]; intros a Ha; apply Ha).
  pose proof (payload_of_len _ Hok) as H2.
  assert (Hl : length (labelled c) = length (cu_pkts c)) by (unfold labelled; apply number_from_length). lia.
Qed.

Section Stream.
Variable rs : ref_stream.
Hypothesis Hwf : wf_stream SP rs.

Let pidl := map fst (rs_pids rs).
Let tbl := table_pid (rs_pids rs).
Let pes := pes_pid (rs_pids rs).

Lemma event_unit x u k n p : In (EPkt x u k n p) (rs_events rs) ->
  exists c, In c (units_of (rs_pids rs) x) /\ In (u, k, n, p) (labelled c) /\ pid_units_ok SP x (units_of (rs_pids rs) x).
Proof.
  destruct Hwf as (_ & Hall & Hproj & _). intros H. apply in_proj in H. rewrite Hproj in H.
  apply in_flat_map in H. destruct H as (c & Hc & Hin). exists c. split; [exact Hc|]. split; [exact Hin|].
  destruct (units_of_ok (rs_pids rs) x Hall) as [E|Hok]; [rewrite E in Hc; contradiction|exact Hok].
Qed.

Lemma event_facts x u k n p : In (EPkt x u k n p) (rs_events rs) ->
  kind_ok tbl pes x u /\ In x pidl /\ pkt_on x p.
Proof.
  intros H. destruct (event_unit x u k n p H) as (c & Hc & Hin & (Hcar & _ & Hkind)).
  destruct (in_labelled c u k n p Hin) as (-> & Hp & Hk0).
  pose proof (proj1 (Forall_forall _ _) Hcar c Hc) as Hcok.
  split; [|split].
  - unfold kind_ok, tbl, pes, table_pid, pes_pid. destruct (units_of (rs_pids rs) x) as [|c0 l] eqn:E; [contradiction|].
    destruct Hkind as [[Hes Hall]|[Htp Hall]].
    + rewrite (proj1 (Forall_forall _ _) Hall c Hc), (Forall_inv Hall). split; [exact Hes|reflexivity].
    + rewrite (proj1 (Forall_forall _ _) Hall c Hc), (Forall_inv Hall). split; [exact Htp|reflexivity].
  - apply units_of_in. intros E. rewrite E in Hc. contradiction.
  - destruct Hcok as (_ & Hon & _). apply (proj1 (Forall_forall _ _) Hon p Hp).
Qed.

Lemma evs_ok_intro : forall evs reg,
  (forall x u k n p, In (EPkt x u k n p) evs -> kind_ok tbl pes x u /\ In x pidl) ->
  Forall filler_ok (fillers evs) -> pat_first tbl reg evs -> evs_ok pidl tbl pes reg evs.
Proof.
  induction evs as [|e r IH]; intros reg Hf Hfill Hpat; [exact I|]. destruct e as [q|x u k n q].
  - cbn [fillers] in Hfill. cbn [evs_ok pat_first] in *. split; [apply (Forall_inv Hfill)|].
    apply IH; [intros x' u' k' n' p' Hi; apply (Hf x' u' k' n' p'); right; exact Hi|apply (Forall_inv_tail Hfill)|exact Hpat].
  - cbn [fillers] in Hfill. cbn [evs_ok pat_first] in *. destruct Hpat as [Hp1 Hp2].
    destruct (Hf x u k n q ltac:(left; reflexivity)) as [Hk Hin]. split; [exact Hk|]. split; [exact Hin|]. split; [exact Hp1|].
    apply IH; [intros x' u' k' n' p' Hi; apply (Hf x' u' k' n' p'); right; exact Hi|exact Hfill|exact Hp2].
Qed.

Lemma stream_seq x : pid_seq SP x None (proj x (rs_events rs)).
Proof.
  destruct Hwf as (_ & Hall & Hproj & _). rewrite Hproj.
  destruct (units_of_ok (rs_pids rs) x Hall) as [E|(Hcar & Hcc & _)]; [rewrite E; exact I|].
  apply (units_seq SP SP_parses x _ None Hcar I). exact Hcc.
Qed.

Lemma stream_pkts_ok : Forall spkt_ok (map ev_pkt (rs_events rs)).
Proof.
  apply Forall_forall. intros sp Hsp. apply in_map_iff in Hsp. destruct Hsp as (e & <- & He).
  destruct e as [q|x u k n q]; cbn [ev_pkt].
  - destruct Hwf as (_ & _ & _ & Hfill & _).
    assert (Hq : In q (fillers (rs_events rs))).
    { clear - He. induction (rs_events rs) as [|e r IH]; [contradiction|]. destruct He as [->|He]; [left; reflexivity|].
      destruct e; cbn [fillers]; [right|]; apply IH, He. }
    apply (proj1 (Forall_forall _ _) Hfill q Hq).
  - destruct (event_facts x u k n q He) as (_ & _ & (Hok & _)). exact Hok.
Qed.

Lemma stream_bufs : StreamSpec.stream_bytes rs = concat (map (fun e => spkt_bytes (ev_pkt e)) (rs_events rs)).
Proof. unfold StreamSpec.stream_bytes. apply flat_map_concat_map. Qed.

End Stream.
End Top.

(* ---------------- what [expect] lists: per PID, and how many ---------------- *)

Definition pid_tagged (pend : Z -> list DemuxerData) : Prop := forall y, Forall (fun d => DemuxerData_PID d = y) (pend y).

Lemma filter_all x l : Forall (fun d => DemuxerData_PID d = x) l -> filter (on_x x) l = l.
Proof. induction 1 as [|d l Hd _ IH]; [reflexivity|]. cbn [filter]. unfold on_x at 1. rewrite Hd, Z.eqb_refl, IH. reflexivity. Qed.

Lemma filter_none x y l : y <> x -> Forall (fun d => DemuxerData_PID d = y) l -> filter (on_x x) l = [].
Proof.
  intros Hne. induction 1 as [|d l Hd _ IH]; [reflexivity|]. cbn [filter]. unfold on_x at 1. rewrite Hd.
  destruct (y =? x) eqn:E; [lia|exact IH].
Qed.

Lemma pid_tagged_upd pend x v : pid_tagged pend -> Forall (fun d => DemuxerData_PID d = x) v -> pid_tagged (upd pend x v).
Proof. intros H Hv y. unfold upd. destruct (y =? x) eqn:E; [assert (y = x) by lia; subst; exact Hv|apply H]. Qed.

Lemma ev_out_tagged pend x u k n p : pid_tagged pend ->
  Forall (fun d => DemuxerData_PID d = x) (fst (ev_out pend x u k n p)) /\ pid_tagged (snd (ev_out pend x u k n p)).
Proof.
  intros H. pose proof (unit_data_pid x u (sp_pkt p)) as Hu. unfold ev_out.
  destruct (k =? 0)%nat, (completes u k n); cbn [fst snd]; rewrite ?upd_same'; split;
    repeat (first [apply Forall_app; split | apply pid_tagged_upd | apply H | exact Hu | constructor]).
Qed.

Definition starts_data (x : Z) (l : list titem) : list DemuxerData :=
  flat_map (fun t => match t with (u, k, _, p) => if (k =? 0)%nat then unit_data x u (sp_pkt p) else [] end) l.

Lemma filter_pend_in x pids pend : NoDup pids -> In x pids -> pid_tagged pend ->
  filter (on_x x) (flat_map pend pids) = pend x.
Proof.
  intros Hnd Hin Ht. induction pids as [|a l IH]; [contradiction|]. cbn [flat_map]. rewrite filter_app.
  apply NoDup_cons_iff in Hnd. destruct Hnd as [Ha Hnd]. destruct (Z.eq_dec a x) as [->|Hne].
  - rewrite (filter_all x _ (Ht x)).
    assert (E : filter (on_x x) (flat_map pend l) = []).
    { clear - Ha Ht. induction l as [|b l IH]; [reflexivity|]. cbn [flat_map]. rewrite filter_app.
      rewrite (filter_none x b _ ltac:(intros ->; apply Ha; left; reflexivity) (Ht b)), IH; [reflexivity|].
      intros H. apply Ha. right. exact H. }
    rewrite E, app_nil_r. reflexivity.
  - rewrite (filter_none x a _ Hne (Ht a)). cbn [app]. destruct Hin as [E|Hin]; [congruence|]. apply IH; assumption.
Qed.

Lemma filter_pend_out x pids pend : ~ In x pids -> pid_tagged pend -> filter (on_x x) (flat_map pend pids) = [].
Proof.
  intros Hn Ht. induction pids as [|a l IH]; [reflexivity|]. cbn [flat_map]. rewrite filter_app.
  rewrite (filter_none x a _ ltac:(intros ->; apply Hn; left; reflexivity) (Ht a)), IH; [reflexivity|].
  intros H. apply Hn. right. exact H.
Qed.

(* per PID: what was open, then the units that start on it, each once, in order *)
Theorem expect_on_x pids x : NoDup pids -> In x pids -> forall evs pend, pid_tagged pend ->
  filter (on_x x) (StreamSpec.expect pids pend evs) = pend x ++ starts_data x (proj x evs).
Proof.
  intros Hnd Hin. induction evs as [|e r IH]; intros pend Ht.
  - cbn [StreamSpec.expect proj starts_data flat_map]. rewrite app_nil_r. apply filter_pend_in; assumption.
  - destruct e as [q|y u k n q]; cbn [StreamSpec.expect proj]; [apply IH, Ht|].
    destruct (ev_out_tagged pend y u k n q Ht) as [Ho Ht'].
    pose proof (ev_out_other' pend y u k n q) as Hother.
    destruct (ev_out pend y u k n q) as [o p'] eqn:Eo. cbn [fst snd] in *.
    rewrite filter_app, (IH p' Ht'). destruct (y =? x) eqn:E.
    + assert (y = x) by lia. subst y. rewrite (filter_all x o Ho).
      cbn [starts_data flat_map]. fold (starts_data x (proj x r)).
      unfold ev_out in Eo. destruct (k =? 0)%nat, (completes u k n); injection Eo as <- <-; rewrite ?upd_same';
        rewrite ?app_nil_r, <- ?app_assoc; reflexivity.
    + rewrite (filter_none x y o ltac:(lia) Ho), (Hother x ltac:(lia)). reflexivity.
Qed.

Theorem expect_off_x pids x : ~ In x pids -> forall evs pend, pid_tagged pend -> pend x = [] ->
  (forall y u k n p, In (EPkt y u k n p) evs -> y <> x) ->
  filter (on_x x) (StreamSpec.expect pids pend evs) = [].
Proof.
  intros Hn. induction evs as [|e r IH]; intros pend Ht Hx Hev.
  - apply filter_pend_out; assumption.
  - destruct e as [q|y u k n q]; cbn [StreamSpec.expect].
    + apply IH; try assumption. intros y u k n p H. apply (Hev y u k n p). right. exact H.
    + destruct (ev_out_tagged pend y u k n q Ht) as [Ho Ht'].
      pose proof (ev_out_other' pend y u k n q) as Hother.
      pose proof (Hev y u k n q ltac:(left; reflexivity)) as Hy.
      destruct (ev_out pend y u k n q) as [o p'] eqn:Eo. cbn [fst snd] in *.
      rewrite filter_app, (filter_none x y o Hy Ho). cbn [app]. apply IH; try assumption.
      * rewrite (Hother x ltac:(lia)). exact Hx.
      * intros y' u' k' n' p H. apply (Hev y' u' k' n' p). right. exact H.
Qed.

(* ---------------- counting: the data of a stream are fewer than its bytes ---------------- *)

Fixpoint sum_over (f : Z -> nat) (l : list Z) : nat := match l with [] => 0%nat | a :: r => (f a + sum_over f r)%nat end.

Lemma sum_over_add f g l : sum_over (fun x => (f x + g x)%nat) l = (sum_over f l + sum_over g l)%nat.
Proof. induction l as [|a l IH]; [reflexivity|]. cbn [sum_over]. rewrite IH. lia. Qed.

Lemma sum_over_le f g l : (forall x, In x l -> (f x <= g x)%nat) -> (sum_over f l <= sum_over g l)%nat.
Proof.
  induction l as [|a l IH]; intros H; [cbn; lia|]. cbn [sum_over].
  pose proof (H a ltac:(left; reflexivity)). specialize (IH ltac:(intros x Hx; apply H; right; exact Hx)). lia.
Qed.

Lemma sum_over_mul c f l : sum_over (fun x => (c * f x)%nat) l = (c * sum_over f l)%nat.
Proof. induction l as [|a l IH]; [cbn; lia|]. cbn [sum_over]. rewrite IH. lia. Qed.

Lemma sum_over_zero f l : (forall x, f x = 0%nat) -> sum_over f l = 0%nat.
Proof. intros H. induction l as [|a l IH]; [reflexivity|]. cbn [sum_over]. rewrite H, IH. reflexivity. Qed.

Definition hit (y x : Z) : nat := if y =? x then 1%nat else 0%nat.

Lemma hit_none y l : ~ In y l -> sum_over (hit y) l = 0%nat.
Proof.
  induction l as [|a l IH]; intros H; [reflexivity|]. cbn [sum_over]. unfold hit at 1.
  destruct (y =? a) eqn:E; [exfalso; apply H; left; lia|]. rewrite IH; [reflexivity|]. intros H'. apply H. right. exact H'.
Qed.

Lemma hit_le y l : NoDup l -> (sum_over (hit y) l <= 1)%nat.
Proof.
  induction 1 as [|a l Ha _ IH]; [cbn; lia|]. cbn [sum_over]. unfold hit at 1. destruct (y =? a) eqn:E; [|lia].
  assert (y = a) by lia. subst a. rewrite (hit_none y l Ha). lia.
Qed.

Lemma hit_one y l : NoDup l -> In y l -> sum_over (hit y) l = 1%nat.
Proof.
  induction 1 as [|a l Ha _ IH]; intros Hin; [contradiction|]. cbn [sum_over]. unfold hit at 1. destruct (y =? a) eqn:E.
  - assert (y = a) by lia. subst a. rewrite (hit_none y l Ha). reflexivity.
  - destruct Hin as [->|Hin]; [lia|]. rewrite (IH Hin). reflexivity.
Qed.

Lemma partition_len pids : NoDup pids -> forall L, Forall (fun d => In (DemuxerData_PID d) pids) L ->
  length L = sum_over (fun x => length (filter (on_x x) L)) pids.
Proof.
  intros Hnd. induction 1 as [|d L Hd _ IH]; [symmetry; apply sum_over_zero; reflexivity|].
  cbn [length]. rewrite IH.
  assert (E : forall l, sum_over (fun x => length (filter (on_x x) (d :: L))) l =
              (sum_over (hit (DemuxerData_PID d)) l + sum_over (fun x => length (filter (on_x x) L)) l)%nat).
  { intros l. rewrite <- sum_over_add. induction l as [|a l IHl]; [reflexivity|]. cbn [sum_over]. rewrite IHl. f_equal.
    cbn [filter]. unfold on_x at 1, hit. destruct (DemuxerData_PID d =? a); reflexivity. }
  rewrite E, (hit_one _ _ Hnd Hd). reflexivity.
Qed.

Lemma proj_len_sum pids : NoDup pids -> forall evs, (sum_over (fun x => length (proj x evs)) pids <= length evs)%nat.
Proof.
  intros Hnd. induction evs as [|e r IH]; [rewrite sum_over_zero by reflexivity; cbn; lia|].
  destruct e as [q|y u k n q]; cbn [length].
  - assert (E : forall l, sum_over (fun x => length (proj x (EFill q :: r))) l = sum_over (fun x => length (proj x r)) l) by reflexivity.
    rewrite E. lia.
  - assert (E : forall l, sum_over (fun x => length (proj x (EPkt y u k n q :: r))) l =
                (sum_over (hit y) l + sum_over (fun x => length (proj x r)) l)%nat).
    { intros l. rewrite <- sum_over_add. induction l as [|a l IHl]; [reflexivity|]. cbn [sum_over]. rewrite IHl. f_equal.
      cbn [proj]. unfold hit. destruct (y =? a); reflexivity. }
    rewrite E. pose proof (hit_le y pids Hnd). lia.
Qed.

Lemma expect_pids pids : forall evs pend, pid_tagged pend ->
  (forall x u k n p, In (EPkt x u k n p) evs -> In x pids) ->
  Forall (fun d => In (DemuxerData_PID d) pids) (StreamSpec.expect pids pend evs).
Proof.
  induction evs as [|e r IH]; intros pend Ht Hev.
  - cbn [StreamSpec.expect]. apply Forall_forall. intros d Hd. apply in_flat_map in Hd. destruct Hd as (y & Hy & Hd).
    rewrite (proj1 (Forall_forall _ _) (Ht y) d Hd). exact Hy.
  - destruct e as [q|x u k n q]; cbn [StreamSpec.expect].
    + apply IH; [exact Ht|]. intros x u k n p H. apply (Hev x u k n p). right. exact H.
    + destruct (ev_out_tagged pend x u k n q Ht) as [Ho Ht'].
      destruct (ev_out pend x u k n q) as [o p']. cbn [fst snd] in *. apply Forall_app. split.
      * eapply Forall_impl; [|exact Ho]. intros d ->. apply (Hev x u k n q). left. reflexivity.
      * apply IH; [exact Ht'|]. intros x' u' k' n' p H. apply (Hev x' u' k' n' p). right. exact H.
Qed.

(* ---------------- the theorems ---------------- *)

Section Final.
Variable SP : list Z -> PSISection -> Prop.
Hypothesis SP_parses : forall b s, SP b s -> sec_parses b s.

Lemma pkts_seen l : Forall spkt_ok l ->
  Forall (buf_ok 188) (map spkt_bytes l) /\ Forall2 (fun b p => parse_packet_bytes b = Ok p) (map spkt_bytes l) (map obs l).
Proof.
  induction 1 as [|sp l Hsp _ [IH1 IH2]]; [split; constructor|]. destruct (spkt_seen sp Hsp) as [Hb Hp].
  cbn [map]. split; constructor; assumption.
Qed.

Lemma sorted_nodup l : StronglySorted Z.lt l -> NoDup l.
Proof.
  induction 1 as [|a l _ IH Hall]; [constructor|]. constructor; [|exact IH].
  intros Hin. pose proof (proj1 (Forall_forall _ _) Hall a Hin). lia.
Qed.

Lemma init_inv pids tbl pes : Inv SP pids tbl pes (fun _ => None) no_pend [] [] [].
Proof.
  constructor.
  - exact I.
  - intros y. cbn. split; [discriminate|contradiction].
  - split; [constructor|split; reflexivity].
  - intros y H. exfalso. apply H. reflexivity.
  - intros x _. split; reflexivity.
Qed.

Lemma starts_number_from x u n : forall l k0, (0 < k0)%nat -> starts_data x (number_from u n k0 l) = [].
Proof.
  induction l as [|p l IH]; intros k0 Hk; [reflexivity|]. cbn [number_from starts_data flat_map].
  destruct k0; [lia|]. cbn [Nat.eqb app]. apply (IH (S (S k0))). lia.
Qed.

Lemma starts_data_app x a b : starts_data x (a ++ b) = starts_data x a ++ starts_data x b.
Proof. apply flat_map_app. Qed.

Lemma starts_labelled x cus :
  starts_data x (flat_map labelled cus) = flat_map (fun c => unit_data x (cu_unit c) (sp_pkt (cu_first c))) cus.
Proof.
  induction cus as [|c cus IH]; [reflexivity|]. cbn [flat_map]. rewrite starts_data_app, IH. f_equal.
  unfold labelled, cu_pkts. cbn [number_from length].
  change ((cu_unit c, 0%nat, S (length (cu_rest c)), cu_first c) :: number_from (cu_unit c) (S (length (cu_rest c))) 1 (cu_rest c))
    with ([(cu_unit c, 0%nat, S (length (cu_rest c)), cu_first c)] ++ number_from (cu_unit c) (S (length (cu_rest c))) 1 (cu_rest c)).
  rewrite starts_data_app, (starts_number_from x (cu_unit c) (S (length (cu_rest c))) (cu_rest c) 1%nat ltac:(lia)).
  cbn [starts_data flat_map Nat.eqb]. rewrite !app_nil_r. reflexivity.
Qed.

Section Stream.
Variable rs : ref_stream.
Hypothesis Hwf : wf_stream SP rs.

Let pidl := map fst (rs_pids rs).

Lemma stream_run : exists pl' pm' out pend',
  feed full_parsers [] [] (map ev_obs (rs_events rs)) = Some (pl', pm', out) /\
  drain_data full_parsers pm' pl' = Some (flat_map pend' pidl) /\
  out ++ flat_map pend' pidl = expected rs.
Proof.
  pose proof Hwf as (Hsorted & Hall & Hproj & Hfill & Hpat & Hann).
  apply (run_events SP SP_parses pidl (table_pid (rs_pids rs)) (pes_pid (rs_pids rs)) (table_pes_excl (rs_pids rs)) Hsorted
           (rs_events rs) (fun _ => None) no_pend [] [] []).
  - apply init_inv.
  - apply (evs_ok_intro rs); [|exact Hfill|exact Hpat].
    intros x u k n p H. destruct (event_facts SP rs Hwf x u k n p H) as (A & B & _). split; assumption.
  - cbn [app]. intros y Hy. destruct (Hann y Hy) as [H1 H2]. split; [exact H1|].
    unfold pes_pid. destruct (units_of (rs_pids rs) y) as [|c l] eqn:E; [reflexivity|].
    rewrite (H2 c ltac:(left; reflexivity)). reflexivity.
  - intros x. apply (stream_seq SP SP_parses rs Hwf).
Qed.

(* per PID: exactly the units of that PID, each once, in order - whatever the interleaving *)
Theorem data_per_pid x : filter (on_x x) (expected rs) = expected_on rs x.
Proof.
  pose proof Hwf as (Hsorted & Hall & Hproj & _). unfold expected, expected_on.
  assert (Ht : pid_tagged no_pend) by (intros y; constructor).
  destruct (in_dec Z.eq_dec x pidl) as [Hin|Hout].
  - rewrite (expect_on_x pidl x (sorted_nodup _ Hsorted) Hin _ _ Ht). cbn [no_pend app].
    rewrite Hproj. apply starts_labelled.
  - rewrite (expect_off_x pidl x Hout _ _ Ht eq_refl).
    + destruct (units_of (rs_pids rs) x) as [|c l] eqn:E; [reflexivity|]. exfalso. apply Hout.
      apply units_of_in. rewrite E. discriminate.
    + intros y u k n p H -> . destruct (event_facts SP rs Hwf x u k n p H) as (_ & B & _). exact (Hout B).
Qed.

Lemma expected_length : (length (expected rs) <= 188 * length (rs_events rs))%nat.
Proof.
  pose proof Hwf as (Hsorted & Hall & Hproj & _). pose proof (sorted_nodup _ Hsorted) as Hnd. fold pidl in Hnd.
  assert (Ht : pid_tagged no_pend) by (intros y; constructor).
  assert (Hp : Forall (fun d => In (DemuxerData_PID d) pidl) (expected rs)).
  { apply expect_pids; [exact Ht|]. intros x u k n p H. apply (event_facts SP rs Hwf x u k n p H). }
  rewrite (partition_len pidl Hnd _ Hp).
  apply (Nat.le_trans _ (sum_over (fun x => 188 * length (proj x (rs_events rs)))%nat pidl)).
  - apply sum_over_le. intros x _. rewrite data_per_pid, Hproj. unfold expected_on.
    destruct (units_of_ok SP (rs_pids rs) x Hall) as [E|(Hcar & _)]; [rewrite E; cbn; lia|].
    apply (units_data_len SP SP_parses x _ Hcar).
  - rewrite sum_over_mul. pose proof (proj_len_sum pidl Hnd (rs_events rs)). lia.
Qed.

(* C02, delivered data: successive NextData calls on the bytes of a well-formed stream return exactly the expected
   data, all Ok, then ErrNoMorePackets *)
Theorem data_exact : demux_all (StreamSpec.stream_bytes rs) = map Ok (expected rs).
Proof.
  destruct stream_run as (pl' & pm' & out & pend' & Hf & Hd & He).
  destruct (pkts_seen _ (stream_pkts_ok SP rs Hwf)) as [Hb Hp].
  rewrite stream_bufs. rewrite <- (map_map ev_pkt spkt_bytes).
  set (bufs := map spkt_bytes (map ev_pkt (rs_events rs))) in *.
  assert (Hy : yields full_parsers (init_dstate (new_reader (concat bufs) None Seekable) 188) (out ++ flat_map pend' pidl)).
  { exists bufs, (map obs (map ev_pkt (rs_events rs))), pl', pm', out, (flat_map pend' pidl).
    split; [apply init_at_bufs, Hb|]. split; [exact Hp|]. split; [rewrite map_map; exact Hf|]. split; [exact Hd|reflexivity]. }
  unfold demux_all. rewrite (nd_all_yields full_parsers _ _ _ Hy).
  - rewrite He. reflexivity.
  - rewrite He. pose proof expected_length as Hl. pose proof (concat_length_188 bufs Hb) as Hlen.
    unfold bufs in Hlen at 2. rewrite !map_length in Hlen. lia.
Qed.

(* where the reader stands: the call that returns the first datum delivered by the packet (x, u, k of n) - for a
   PAT / PMT unit the packet that completes it - is the call number |data delivered before| + 1, it returns that datum,
   leaves the other data of the unit in the buffer, and has consumed the stream exactly up to the end of that packet *)
Theorem delivered_at pre x u k n sp post d ds :
  rs_events rs = pre ++ EPkt x u k n sp :: post ->
  fst (ev_out (snd (delivered no_pend pre)) x u k n sp) = d :: ds ->
  exists sn s',
    nd_iter (length (fst (delivered no_pend pre))) (init_dstate (new_reader (StreamSpec.stream_bytes rs) None Seekable) 188) =
      (map Ok (fst (delivered no_pend pre)), sn) /\
    nd full_parsers sn = (Ok d, s') /\
    r_rest (d_reader s') = flat_map (fun e => spkt_bytes (ev_pkt e)) post /\
    d_buffer s' = ds.
Proof.
  intros Hev Hout. pose proof Hwf as (Hsorted & Hall & Hproj & Hfill & Hpat & Hann).
  pose proof (stream_pkts_ok SP rs Hwf) as Hsp. destruct (pkts_seen _ Hsp) as [Hb _].
  set (sd := init_dstate (new_reader (StreamSpec.stream_bytes rs) None Seekable) 188).
  assert (Hat : at_bufs sd (map ev_bytes ([] ++ pre ++ EPkt x u k n sp :: post))).
  { cbn [app]. rewrite <- Hev. unfold sd. rewrite stream_bufs.
    change (map ev_bytes (rs_events rs)) with (map (fun e => spkt_bytes (ev_pkt e)) (rs_events rs)).
    apply init_at_bufs. rewrite <- (map_map ev_pkt spkt_bytes). exact Hb. }
  destruct (reach_event SP SP_parses pidl (table_pid (rs_pids rs)) (pes_pid (rs_pids rs)) (table_pes_excl (rs_pids rs))
              pre (fun _ => None) no_pend [] [] [] x u k n sp post [] sd d ds) as (sn & s' & H1 & H2 & H3 & H4); try assumption.
  - apply init_inv.
  - rewrite <- Hev. apply (evs_ok_intro rs); [|exact Hfill|exact Hpat].
    intros x' u' k' n' p' H. destruct (event_facts SP rs Hwf x' u' k' n' p' H) as (A & B & _). split; assumption.
  - rewrite <- Hev. cbn [app]. intros y Hy. destruct (Hann y Hy) as [Hn1 Hn2]. split; [exact Hn1|].
    unfold pes_pid. destruct (units_of (rs_pids rs) y) as [|c l] eqn:E; [reflexivity|].
    rewrite (Hn2 c ltac:(left; reflexivity)). reflexivity.
  - rewrite <- Hev. intros y. apply (stream_seq SP SP_parses rs Hwf).
  - cbn [app]. rewrite <- Hev. exact Hsp.
  - reflexivity.
  - reflexivity.
  - exists sn, s'. split; [exact H1|]. split; [exact H2|]. split; [|exact H4].
    destruct H3 as (_ & _ & Hr & _). rewrite Hr. unfold ev_bytes. symmetry. apply flat_map_concat_map.
Qed.

Lemma stream_hyps :
  evs_ok pidl (table_pid (rs_pids rs)) (pes_pid (rs_pids rs)) [] (rs_events rs) /\
  (forall y, In y ([] ++ announced (rs_events rs)) -> y <> C_PIDNull /\ pes_pid (rs_pids rs) y = false) /\
  (forall y, pid_seq SP y None (proj y (rs_events rs))).
Proof.
  pose proof Hwf as (Hsorted & Hall & Hproj & Hfill & Hpat & Hann). split; [|split].
  - apply (evs_ok_intro rs); [|exact Hfill|exact Hpat].
    intros x' u' k' n' p' H. destruct (event_facts SP rs Hwf x' u' k' n' p' H) as (A & B & _). split; assumption.
  - cbn [app]. intros y Hy. destruct (Hann y Hy) as [Hn1 Hn2]. split; [exact Hn1|].
    unfold pes_pid. destruct (units_of (rs_pids rs) y) as [|c l] eqn:E; [reflexivity|].
    rewrite (Hn2 c ltac:(left; reflexivity)). reflexivity.
  - intros y. apply (stream_seq SP SP_parses rs Hwf).
Qed.

(* ... and the other data of the unit follow from the buffer, the reader staying where it is *)
Theorem delivered_at_all pre x u k n sp post d ds :
  rs_events rs = pre ++ EPkt x u k n sp :: post ->
  fst (ev_out (snd (delivered no_pend pre)) x u k n sp) = d :: ds ->
  exists sn s' s'',
    nd_iter (length (fst (delivered no_pend pre))) (init_dstate (new_reader (StreamSpec.stream_bytes rs) None Seekable) 188) =
      (map Ok (fst (delivered no_pend pre)), sn) /\
    nd full_parsers sn = (Ok d, s') /\
    r_rest (d_reader s') = flat_map (fun e => spkt_bytes (ev_pkt e)) post /\
    nd_iter (length ds) s' = (map Ok ds, s'') /\
    r_rest (d_reader s'') = flat_map (fun e => spkt_bytes (ev_pkt e)) post.
Proof.
  intros Hev Hout. destruct (delivered_at pre x u k n sp post d ds Hev Hout) as (sn & s' & H1 & H2 & H3 & H4).
  destruct (buffer_calls ds s' H4) as (s'' & Hit & _ & _ & _ & _ & Hrd).
  exists sn, s', s''. repeat (split; [assumption|]). rewrite Hrd. exact H3.
Qed.

(* C02, PAT / PMT: the packet that completes a table unit u on PID x delivers exactly the data of u (one datum per
   section); the NextData call that returns the first of them is call number |data delivered before| + 1 and has read
   the stream exactly up to the end of that packet; the remaining sections come from the buffer *)
Theorem pat_pmt_at_last_packet pre x u k n sp post :
  rs_events rs = pre ++ EPkt x u k n sp :: post -> completes u k n = true ->
  exists p0, fst (ev_out (snd (delivered no_pend pre)) x u k n sp) = unit_data x u p0 /\
  forall d ds, unit_data x u p0 = d :: ds ->
  exists sn s' s'',
    nd_iter (length (fst (delivered no_pend pre))) (init_dstate (new_reader (StreamSpec.stream_bytes rs) None Seekable) 188) =
      (map Ok (fst (delivered no_pend pre)), sn) /\
    nd full_parsers sn = (Ok d, s') /\
    r_rest (d_reader s') = flat_map (fun e => spkt_bytes (ev_pkt e)) post /\
    nd_iter (length ds) s' = (map Ok ds, s'') /\
    r_rest (d_reader s'') = flat_map (fun e => spkt_bytes (ev_pkt e)) post.
Proof.
  intros Hev Hc. destruct stream_hyps as (Hok & Hreg & Hseq). rewrite Hev in Hok, Hreg, Hseq.
  destruct (prefix_inv SP SP_parses pidl (table_pid (rs_pids rs)) (pes_pid (rs_pids rs)) (table_pes_excl (rs_pids rs))
              pre (fun _ => None) no_pend [] [] [] (EPkt x u k n sp :: post) (init_inv _ _ _) Hok Hreg Hseq)
    as (s1 & pl1 & pm1 & reg1 & Hinv1 & Hseq1).
  assert (Hkind : kind_ok (table_pid (rs_pids rs)) (pes_pid (rs_pids rs)) x u).
  { apply (event_facts SP rs Hwf x u k n sp). rewrite Hev. apply in_or_app. right. left. reflexivity. }
  specialize (Hseq1 x). cbn [proj] in Hseq1. rewrite Z.eqb_refl in Hseq1.
  destruct (completing_out SP SP_parses pidl (table_pid (rs_pids rs)) (pes_pid (rs_pids rs)) (table_pes_excl (rs_pids rs))
              s1 _ pl1 pm1 reg1 x u k n sp _ Hinv1 Hkind Hc Hseq1) as (p0 & Hout).
  exists p0. split; [exact Hout|]. intros d ds Hd. apply (delivered_at_all pre x u k n sp post d ds Hev). rewrite Hout. exact Hd.
Qed.

(* per PID, on the delivered list *)
Theorem data_per_pid_delivered : exists L, demux_all (StreamSpec.stream_bytes rs) = map Ok L /\
  forall x, filter (on_x x) L = expected_on rs x.
Proof. exists (expected rs). split; [exact data_exact|exact data_per_pid]. Qed.

End Stream.
End Final.

(* ---------------- the model is inhabited: packets for every piece, C13's sections ---------------- *)

Lemma bytes_ok_b l : forallb (fun b => (0 <=? b) && (b <? 256)) l = true -> bytes_ok l.
Proof. intros H. rewrite forallb_forall in H. apply Forall_forall. intros b Hb. specialize (H b Hb). unfold byte_ok. lia. Qed.

(* the packet built around a piece of at most 184 bytes is conformant, whatever the stuffing value *)
Lemma raw_packet_ok x cc err start has_pl piece sv :
  0 <= x < 2 ^ 13 -> bytes_ok piece -> (length piece <= 184)%nat -> byte_ok sv -> (has_pl = false -> piece = []) ->
  spkt_ok (raw_packet x cc err start has_pl piece sv).
Proof.
  intros Hx Hb Hl Hsv Hhp. set (len := Z.of_nat (length piece)).
  assert (Hlen : 0 <= len <= 184) by (unfold len; lia).
  unfold spkt_ok, raw_packet. cbn [sp_pkt sp_stuff]. fold len. split; [|split].
  - constructor; cbn [Packet_Header Packet_AdaptationField Packet_Payload PacketHeader_HasAdaptationField PacketHeader_HasPayload].
    + constructor; cbn [PacketHeader_PID PacketHeader_TransportScramblingControl PacketHeader_ContinuityCounter]; try lia; apply Z.mod_pos_bound; lia.
    + unfold fill_af. destruct (len =? 184) eqn:E; cbn [negb]; [reflexivity|].
      eexists. split; [reflexivity|]. unfold wf_af. cbn [PacketAdaptationField_IsOneByteStuffing].
      destruct (len =? 183) eqn:E3.
      * unfold af_rest_zero. cbn. repeat split; reflexivity.
      * constructor; cbn -[Z.sub Z.add]; try reflexivity. lia.
    + destruct has_pl; [exact Hb|apply Hhp; reflexivity].
    + unfold fill_af, ref_af_size, ref_af_length. destruct (len =? 184) eqn:E; [fold len; lia|].
      cbn [PacketAdaptationField_IsOneByteStuffing PacketAdaptationField_HasPCR PacketAdaptationField_HasOPCR
           PacketAdaptationField_HasSplicingCountdown PacketAdaptationField_HasTransportPrivateData
           PacketAdaptationField_HasAdaptationExtensionField PacketAdaptationField_StuffingLength].
      destruct (len =? 183) eqn:E3; fold len; lia.
  - unfold stuffing_of, fill_af. cbn [Packet_AdaptationField]. rewrite repeat_length.
    destruct (len =? 184) eqn:E; [destruct (len <? 183) eqn:E2; lia|].
    cbn [PacketAdaptationField_StuffingLength]. destruct (len =? 183) eqn:E3; destruct (len <? 183) eqn:E2; lia.
  - apply Forall_forall. intros b Hin. apply repeat_spec in Hin. subst b. exact Hsv.
Qed.

(* the sections C13 decodes: PAT, PMT, SDT, NIT, EIT, TOT, descriptor loops in any domain D that satisfies C13's
   descriptor premises (no descriptors, user-defined descriptors: C13_no_desc_premises, C13_user_desc_premises) *)
Inductive c13_sections : list Z -> PSISection -> Prop :=
| c13_pat ssi pb ext ver cni sn lsn progs : pat_wf ext ver sn lsn progs ->
    c13_sections (spec_pat_section ssi pb ext ver cni sn lsn progs) (pat_section_value ssi pb ext ver cni sn lsn progs)
| c13_pmt D ssi pb ext ver cni sn lsn pcr pds pbytes xs : desc_premises D -> pmt_wf D ext ver sn lsn pcr pds pbytes xs ->
    c13_sections (spec_pmt_section ssi pb ext ver cni sn lsn pcr pbytes (map stream_spec xs))
                 (pmt_section_value ssi pb ext ver cni sn lsn pcr pds pbytes xs)
| c13_sdt D tid ssi pb ext ver cni sn lsn onid xs : desc_premises D -> sdt_wf D tid ext ver sn lsn onid xs ->
    c13_sections (spec_section tid ssi pb (spec_sdt_body ext ver cni sn lsn onid (map sv_spec xs)))
                 (sdt_section_value tid ssi pb ext ver cni sn lsn onid xs)
| c13_nit D tid ssi pb ext ver cni sn lsn nds nbytes xs : desc_premises D -> nit_wf D tid ext ver sn lsn nds nbytes xs ->
    c13_sections (spec_section tid ssi pb (spec_nit_body ext ver cni sn lsn nbytes (map ts_spec xs)))
                 (nit_section_value tid ssi pb ext ver cni sn lsn nds nbytes xs)
| c13_eit D tid ssi pb ext ver cni sn lsn tsid onid slsn ltid xs : desc_premises D ->
    eit_wf D c15_time c15_dur tid ext ver sn lsn tsid onid slsn ltid xs ->
    c13_sections (spec_section tid ssi pb (spec_eit_body ext ver cni sn lsn tsid onid slsn ltid (map ev_spec xs)))
                 (eit_section_value tid ssi pb ext ver cni sn lsn tsid onid slsn ltid xs)
| c13_tot D ssi pb t tb ds bytes : desc_premises D -> c15_time t tb -> D ds bytes -> 7 + Z.of_nat (length bytes) + 4 < 4096 ->
    c13_sections (spec_section 115 ssi pb (spec_tot_body tb bytes)) (tot_section_value ssi pb t tb ds bytes).

Theorem c13_sections_parse b s : c13_sections b s -> sec_parses b s.
Proof.
  intros [ssi pb ext ver cni sn lsn progs H | D ssi pb ext ver cni sn lsn pcr pds pbytes xs HD H
         | D tid ssi pb ext ver cni sn lsn onid xs HD H | D tid ssi pb ext ver cni sn lsn nds nbytes xs HD H
         | D tid ssi pb ext ver cni sn lsn tsid onid slsn ltid xs HD H | D ssi pb t tb ds bytes HD Ht Hd Hl].
  - exact (pat_sec_parses ssi pb ext ver cni sn lsn progs H).
  - exact (pmt_sec_parses_p D HD ssi pb ext ver cni sn lsn pcr pds pbytes xs H).
  - exact (sdt_parses_p D HD tid ssi pb ext ver cni sn lsn onid xs H).
  - exact (nit_parses_p D HD tid ssi pb ext ver cni sn lsn nds nbytes xs H).
  - exact (eit_parses_p D HD tid ssi pb ext ver cni sn lsn tsid onid slsn ltid xs H).
  - exact (tot_parses_p D HD ssi pb t tb ds bytes Ht Hd Hl).
Qed.

(* ---------------- every cut into pieces of at most 184 bytes is a carriage ---------------- *)

Lemma cut_concat sizes : forall bytes, concat (cut sizes bytes) = bytes.
Proof.
  induction sizes as [|s r IH]; intros bytes; cbn [cut concat]; [apply app_nil_r|]. rewrite IH. apply firstn_skipn.
Qed.

Lemma piece_packets_payload x sv : forall pieces cc st, map sp_payload (piece_packets x cc st pieces sv) = pieces.
Proof. induction pieces as [|pc r IH]; intros cc st; [reflexivity|]. cbn [piece_packets map]. rewrite IH. reflexivity. Qed.

Lemma piece_packets_on x sv : 0 <= x < 2 ^ 13 -> byte_ok sv -> forall pieces cc st,
  Forall (fun pc => bytes_ok pc /\ (length pc <= 184)%nat) pieces -> Forall (pkt_on x) (piece_packets x cc st pieces sv).
Proof.
  intros Hx Hsv. induction pieces as [|pc r IH]; intros cc st H; [constructor|]. cbn [piece_packets].
  destruct (Forall_inv H) as [Hb Hl]. constructor; [|apply IH, (Forall_inv_tail H)].
  split; [apply raw_packet_ok; try assumption; discriminate|]. repeat split; reflexivity.
Qed.

Lemma piece_packets_cont x sv : forall pieces cc,
  Forall (fun sp => pusi (sp_pkt sp) = false /\ disc_flag (sp_pkt sp) = false) (piece_packets x cc false pieces sv).
Proof.
  induction pieces as [|pc r IH]; intros cc; [constructor|]. cbn [piece_packets]. constructor; [|apply IH].
  split; [reflexivity|]. unfold disc_flag, piece_packet, raw_packet, fill_af. cbn [sp_pkt Packet_AdaptationField].
  destruct (Z.of_nat (length pc) =? 184); reflexivity.
Qed.

Lemma bytes_ok_concat_pieces pieces : bytes_ok (concat pieces) -> Forall bytes_ok pieces.
Proof.
  induction pieces as [|pc r IH]; intros H; [constructor|]. cbn [concat] in H. apply Forall_app in H. destruct H as [H1 H2].
  constructor; [exact H1|apply IH, H2].
Qed.

(* the cut is admissible for the unit: pieces of at most 184 bytes; for a PSI unit no proper beginning ends on a
   section boundary (S5) *)
Definition cut_ok_b (u : sunit) (pieces : list (list Z)) : bool :=
  forallb (fun pc => (length pc <=? 184)%nat) pieces &&
  match u with
  | UPsi su => forallb (fun k => psi_mid su (Z.of_nat (length (concat (firstn k pieces))))) (seq 1 (length pieces - 1))
  | UPes _ => true
  end.

Section Inhabited.
Variable SP : list Z -> PSISection -> Prop.

Lemma unit_bytes_ok u : unit_ok SP u -> bytes_ok (unit_bytes u).
Proof.
  destruct u as [pu|su]; cbn [unit_ok unit_bytes].
  - intros (_ & Hd & _). unfold pes_unit_bytes. apply Forall_app. split; [|exact Hd].
    destruct (pu_opt pu) as [[[h pack] st]|]; [unfold ref_pes_bytes, ref_opt_bytes; apply Forall_app; split|unfold ref_pes_bytes_noopt];
      apply bytes_of_bits_ok.
  - intros (Hp & Hf & Hfb & _ & Hs). unfold psi_unit_bytes. constructor; [unfold byte_ok; lia|].
    apply Forall_app. split; [exact Hfb|]. apply Forall_app. split.
    + induction Hs as [|s l (_ & _ & _ & Hb & _) _ IH]; [constructor|]. cbn [map concat]. apply Forall_app. split; [|exact IH].
      unfold sec_bytes. apply RoundTripTables.spec_section_ok, Hb.
    + apply Forall_forall. intros b Hb. apply repeat_spec in Hb. subst b. unfold byte_ok. lia.
Qed.

Theorem carry_ok x cc u sizes sv : 0 <= x < 2 ^ 13 -> byte_ok sv -> unit_ok SP u ->
  cut_ok_b u (cut sizes (unit_bytes u)) = true -> carried_ok SP x (carry x cc u sizes sv).
Proof.
  intros Hx Hsv Hu Hcut. set (pieces := cut sizes (unit_bytes u)) in *.
  assert (Hcat : concat pieces = unit_bytes u) by apply cut_concat.
  assert (Hne : pieces <> []) by (unfold pieces; destruct sizes; discriminate).
  apply andb_true_iff in Hcut. destruct Hcut as [Hlen Hpsi].
  assert (Hpieces : Forall (fun pc => bytes_ok pc /\ (length pc <= 184)%nat) pieces).
  { pose proof (bytes_ok_concat_pieces pieces ltac:(rewrite Hcat; apply unit_bytes_ok, Hu)) as Hb.
    rewrite forallb_forall in Hlen. apply Forall_forall. intros pc Hin. split; [apply (proj1 (Forall_forall _ _) Hb pc Hin)|].
    apply Nat.leb_le, Hlen, Hin. }
  assert (Hc : cu_unit (carry x cc u sizes sv) = u /\ cu_pkts (carry x cc u sizes sv) = piece_packets x cc true pieces sv).
  { unfold carry. fold pieces. destruct pieces as [|pc r]; [contradiction|]. cbn [piece_packets]. split; reflexivity. }
  destruct Hc as [Hcu Hcp]. unfold carried_ok. rewrite Hcu.
  assert (Hfirst : exists pc r, pieces = pc :: r) by (destruct pieces as [|pc r]; [contradiction|eauto]).
  destruct Hfirst as (pc & r & Epc).
  assert (Hcf : cu_first (carry x cc u sizes sv) = piece_packet x cc true pc sv /\
                cu_rest (carry x cc u sizes sv) = piece_packets x (cc + 1) false r sv).
  { unfold cu_pkts in Hcp. rewrite Epc in Hcp. cbn [piece_packets] in Hcp. injection Hcp as H1 H2. split; assumption. }
  destruct Hcf as [Hcf Hcr].
  split; [exact Hu|]. split; [rewrite Hcp; apply piece_packets_on; assumption|]. split; [rewrite Hcf; reflexivity|].
  split; [rewrite Hcr; apply piece_packets_cont|]. split.
  - rewrite Hcp. unfold payload_of. rewrite piece_packets_payload. exact Hcat.
  - intros k Hk. rewrite Hcp in Hk |- *. destruct u as [pu|su]; [exact I|]. cbn [psi_partial].
    assert (Hl : length (piece_packets x cc true pieces sv) = length pieces).
    { rewrite <- (piece_packets_payload x sv pieces cc true) at 2. rewrite map_length. reflexivity. }
    rewrite Hl in Hk. unfold payload_of. rewrite <- firstn_map, piece_packets_payload.
    rewrite forallb_forall in Hpsi. exact (Hpsi k ltac:(apply in_seq; lia)).
Qed.

End Inhabited.

(* ---------------- a concrete stream ---------------- *)

(* PAT (PID 0, two sections and a 0xFF tail, cut in the middle of the first section), PMT (PID 4096, pointer_field 2,
   cut into three packets of 8 / 10 / 11 bytes with adaptation-field stuffing of value 0x42), a video PID 256 (two PES with PTS, CRC, pack header and header
   stuffing, PES_packet_length 0, the first cut into two packets), an audio PID 257 (one bounded PES), interleaved,
   with a null packet, an adaptation-field-only packet and a packet with the transport_error_indicator in between *)
Definition ex_pat_sec : psi_sec :=
  {| se_tid := 0; se_ssi := true; se_pb := false; se_body := spec_pat_body 1 0 true 0 1 [(1, 4096)];
     se_value := pat_section_value true false 1 0 true 0 1 [(1, 4096)] |}.
Definition ex_pat_sec1 : psi_sec :=
  {| se_tid := 0; se_ssi := true; se_pb := false; se_body := spec_pat_body 1 0 true 1 1 [(2, 4097)];
     se_value := pat_section_value true false 1 0 true 1 1 [(2, 4097)] |}.
Definition ex_streams : list (Z * Z * list Descriptor * list Z) := [(27, 256, [], []); (15, 257, [], [])].
Definition ex_pmt_sec : psi_sec :=
  {| se_tid := 2; se_ssi := true; se_pb := false;
     se_body := spec_pmt_body 1 0 true 0 0 256 [] (map stream_spec ex_streams);
     se_value := pmt_section_value true false 1 0 true 0 0 256 [] [] ex_streams |}.
Definition ex_pat : sunit := UPsi {| su_ptr := 0; su_fill := []; su_secs := [ex_pat_sec; ex_pat_sec1]; su_tail := 3 |}.
Definition ex_pmt : sunit := UPsi {| su_ptr := 2; su_fill := [170; 85]; su_secs := [ex_pmt_sec]; su_tail := 0 |}.
Definition ex_opt := Some (example_all, [170; 187], 3%nat).
Definition ex_v1 : sunit := UPes {| pu_sid := 224; pu_plen := 0; pu_opt := ex_opt; pu_data := [1; 2; 3; 4; 5; 6; 7; 8; 9; 10] |}.
Definition ex_v2 : sunit := UPes {| pu_sid := 224; pu_plen := 0; pu_opt := ex_opt; pu_data := [11; 12; 13; 14; 15] |}.
Definition ex_a1 : sunit := UPes {| pu_sid := 192; pu_plen := 23; pu_opt := ex_opt; pu_data := [21; 22; 23; 24] |}.

Definition c_pat := carry 0 5 ex_pat [10%nat] 255.
Definition c_pmt := carry 4096 9 ex_pmt [8%nat; 10%nat] 66.
Definition c_v1 := carry 256 14 ex_v1 [12%nat] 0.
Definition c_v2 := carry 256 16 ex_v2 [] 255.
Definition c_a1 := carry 257 3 ex_a1 [] 7.

Definition at_ev (x : Z) (c : carried) (i : nat) : ev :=
  EPkt x (cu_unit c) i (length (cu_pkts c)) (nth i (cu_pkts c) dflt_spkt).

Definition ex_null := raw_packet 8191 0 false false true (repeat 255 184) 0.
Definition ex_af_only := raw_packet 256 15 false false false [] 255.
Definition ex_tei := raw_packet 257 4 true false true (repeat 9 184) 0.

Definition ex_events : list ev :=
  [ at_ev 0 c_pat 0; EFill ex_null; at_ev 256 c_v1 0; at_ev 0 c_pat 1; at_ev 4096 c_pmt 0; at_ev 257 c_a1 0; at_ev 4096 c_pmt 1;
    at_ev 256 c_v1 1; EFill ex_af_only; at_ev 4096 c_pmt 2; EFill ex_tei; at_ev 256 c_v2 0 ].

Definition ex_stream : ref_stream :=
  {| rs_pids := [(0, [c_pat]); (256, [c_v1; c_v2]); (257, [c_a1]); (4096, [c_pmt])]; rs_events := ex_events |}.

Lemma ex_pes_ok data plen sid : bytes_ok data -> 0 <= sid < 256 -> lib_has_optional_header sid = true ->
  (plen = 0 \/ (0 < plen < 65536 /\ plen = 19 + Z.of_nat (length data))) ->
  pes_unit_ok {| pu_sid := sid; pu_plen := plen; pu_opt := ex_opt; pu_data := data |}.
Proof.
  intros Hd Hs Hl Hp. unfold pes_unit_ok. cbn [pu_sid pu_data pu_opt pu_plen ex_opt].
  split; [exact Hs|]. split; [exact Hd|]. split; [split; [exact Hl|exact example_all_wf]|].
  destruct Hp as [->|[H1 H2]]; [left; reflexivity|right]. split; [exact H1|]. rewrite H2. reflexivity.
Qed.

Lemma ex_units_ok : unit_ok c13_sections ex_pat /\ unit_ok c13_sections ex_pmt /\
  unit_ok c13_sections ex_v1 /\ unit_ok c13_sections ex_v2 /\ unit_ok c13_sections ex_a1.
Proof.
  split; [|split; [|split; [|split]]].
  - assert (Hsec : forall sn progs, pat_wf 1 0 sn 1 progs -> bytes_ok (spec_pat_body 1 0 true sn 1 progs) ->
              Z.of_nat (length (spec_pat_body 1 0 true sn 1 progs)) + 4 < 4096 ->
              sec_ok c13_sections {| se_tid := 0; se_ssi := true; se_pb := false; se_body := spec_pat_body 1 0 true sn 1 progs;
                                     se_value := pat_section_value true false 1 0 true sn 1 progs |}).
    { intros sn progs Hw Hb Hl. unfold sec_ok. cbn [se_tid se_body]. split; [lia|]. split; [reflexivity|]. split; [exact Hl|].
      split; [exact Hb|]. unfold sec_bytes. cbn [se_tid se_ssi se_pb se_body se_value]. exact (c13_pat true false 1 0 true sn 1 progs Hw). }
    cbn [unit_ok ex_pat]. unfold psi_unit_ok. cbn [su_ptr su_fill su_secs]. split; [lia|]. split; [reflexivity|].
    split; [constructor|]. split; [discriminate|]. constructor; [|constructor; [|constructor]].
    + apply Hsec; [|apply bytes_ok_b; vm_compute; reflexivity|vm_compute; reflexivity].
      unfold pat_wf, pat_entry_ok. cbn [length]. repeat split; try lia. repeat constructor; cbn [fst snd]; lia.
    + apply Hsec; [|apply bytes_ok_b; vm_compute; reflexivity|vm_compute; reflexivity].
      unfold pat_wf, pat_entry_ok. cbn [length]. repeat split; try lia. repeat constructor; cbn [fst snd]; lia.
  - cbn [unit_ok ex_pmt]. unfold psi_unit_ok. cbn [su_ptr su_fill su_secs]. split; [lia|]. split; [reflexivity|].
    split; [apply bytes_ok_b; reflexivity|]. split; [discriminate|]. constructor; [|constructor].
    unfold sec_ok. cbn [se_tid se_body ex_pmt_sec]. split; [lia|]. split; [reflexivity|].
    split; [vm_compute; reflexivity|]. split; [apply bytes_ok_b; vm_compute; reflexivity|].
    unfold sec_bytes. cbn [se_tid se_ssi se_pb se_body se_value ex_pmt_sec].
    refine (c13_pmt no_desc16 true false 1 0 true 0 0 256 [] [] ex_streams no_desc_premises _).
    unfold pmt_wf. repeat split; try lia; try reflexivity; try (repeat constructor; cbn; lia); try (vm_compute; reflexivity).
  - apply ex_pes_ok; [apply bytes_ok_b; reflexivity|lia|reflexivity|left; reflexivity].
  - apply ex_pes_ok; [apply bytes_ok_b; reflexivity|lia|reflexivity|left; reflexivity].
  - apply ex_pes_ok; [apply bytes_ok_b; reflexivity|lia|reflexivity|right; cbn [length]; lia].
Qed.

Example ex_stream_wf : wf_stream c13_sections ex_stream.
Proof.
  destruct ex_units_ok as (U1 & U2 & U3 & U4 & U5).
  assert (B255 : byte_ok 255) by (unfold byte_ok; lia). assert (B66 : byte_ok 66) by (unfold byte_ok; lia).
  assert (B0 : byte_ok 0) by (unfold byte_ok; lia). assert (B7 : byte_ok 7) by (unfold byte_ok; lia).
  assert (C1 : carried_ok c13_sections 0 c_pat) by (apply carry_ok; [lia|assumption|assumption|vm_compute; reflexivity]).
  assert (C2 : carried_ok c13_sections 4096 c_pmt) by (apply carry_ok; [lia|assumption|assumption|vm_compute; reflexivity]).
  assert (C3 : carried_ok c13_sections 256 c_v1) by (apply carry_ok; [lia|assumption|assumption|vm_compute; reflexivity]).
  assert (C4 : carried_ok c13_sections 256 c_v2) by (apply carry_ok; [lia|assumption|assumption|vm_compute; reflexivity]).
  assert (C5 : carried_ok c13_sections 257 c_a1) by (apply carry_ok; [lia|assumption|assumption|vm_compute; reflexivity]).
  unfold wf_stream. cbn [rs_pids rs_events ex_stream]. split; [|split; [|split; [|split; [|split]]]].
  - cbn [map fst]. repeat constructor; lia.
  - assert (F1 : forall x c, carried_ok c13_sections x c -> Forall (carried_ok c13_sections x) [c]) by (intros; constructor; [assumption|constructor]).
    assert (G1 : forall (Q : carried -> Prop) c, Q c -> Forall Q [c]) by (intros; constructor; [assumption|constructor]).
    constructor; [|constructor; [|constructor; [|constructor; [|constructor]]]]; cbn [fst snd]; unfold pid_units_ok.
    + split; [apply F1, C1|]. split; [vm_compute; auto|]. right. split; [left; reflexivity|apply G1; reflexivity].
    + split; [constructor; [exact C3|apply F1, C4]|]. split; [vm_compute; auto|]. left. split; [unfold es_pid_ok; lia|].
      constructor; [reflexivity|apply G1; reflexivity].
    + split; [apply F1, C5|]. split; [vm_compute; exact I|]. left. split; [unfold es_pid_ok; lia|apply G1; reflexivity].
    + split; [apply F1, C2|]. split; [vm_compute; auto|]. right. split; [unfold table_pid_ok; lia|apply G1; reflexivity].
  - intros x. unfold ex_events, at_ev. cbn [proj units_of].
    destruct (0 =? x) eqn:E0; [assert (x = 0) by lia; subst x; vm_compute; reflexivity|].
    destruct (256 =? x) eqn:E1; [assert (x = 256) by lia; subst x; vm_compute; reflexivity|].
    destruct (257 =? x) eqn:E2; [assert (x = 257) by lia; subst x; vm_compute; reflexivity|].
    destruct (4096 =? x) eqn:E3; [assert (x = 4096) by lia; subst x; vm_compute; reflexivity|]. reflexivity.
  - cbn [fillers ex_events at_ev]. constructor; [split|constructor; [split|constructor; [split|constructor]]].
    + apply raw_packet_ok; try assumption; try lia; try discriminate. { apply bytes_ok_b. vm_compute. reflexivity. } { rewrite repeat_length. lia. }
    + right. right. split; [reflexivity|]. split; [reflexivity|]. exists 184%nat. reflexivity.
    + apply raw_packet_ok; try assumption; try lia; try reflexivity. { constructor. } { cbn. lia. }
    + right. left. reflexivity.
    + apply raw_packet_ok; try assumption; try lia; try discriminate. { apply bytes_ok_b. vm_compute. reflexivity. } { rewrite repeat_length. lia. }
    + left. reflexivity.
  - vm_compute. repeat split; intros H; try discriminate H; auto.
  - intros x Hx. vm_compute in Hx. destruct Hx as [<-|[<-|[]]]; (split; [discriminate|]); intros c Hc; vm_compute in Hc.
    + destruct Hc as [<-|[]]. reflexivity.
    + contradiction.
Qed.

(* the model run on its bytes delivers: the two PAT sections when the second PAT packet is read, the PMT when its third
   packet is read, the first video PES when the second one starts, and at end of stream the second video PES and the
   audio PES, in PID order *)
Example ex_stream_demuxed :
  demux_all (StreamSpec.stream_bytes ex_stream) = map Ok (expected ex_stream) /\
  map DemuxerData_PID (expected ex_stream) = [0; 0; 4096; 256; 256; 257] /\
  length (StreamSpec.stream_bytes ex_stream) = (12 * 188)%nat.
Proof. vm_compute. repeat split; reflexivity. Qed.
