(* C02 at the level of delivered data, unit level: what the packet parser, the accumulator and parseData make of the
   packets of ONE unit of the stream model of Spec/StreamSpec.v, whatever the cut:
     - a conformant packet with any stuffing is 188 bytes and parses to the packet (C11);
     - isPSIComplete on the payload received so far of a PSI unit: false while the last section is incomplete (S5),
       true on the whole unit;
     - the accumulator, one packet at a time, on any PID;
     - parseData on the packets of a whole PES unit = the PES header and exactly the payload (C12_parse_ref), on the
       packets of a whole PSI unit = one datum per section (C13_multi). *)
From Coq Require Import ZArith List Lia Bool ZifyBool.
Require Import Base.Bits Base.Iter Base.Wr Gen.Consts Gen.Types Gen.Preds
  Model.Packet Model.Pes Model.Psi Model.Pool Model.PoolRun Model.Reader Model.Demux Model.DemuxFull
  Spec.CrcSpec Spec.PesSpec Spec.PacketSpec Spec.PsiSpec Spec.StreamSpec
  Proofs.PacketProofs Proofs.PacketWrite Proofs.PacketRoundTrip Proofs.PacketRef Proofs.PesProofs Proofs.PesRoundTrip Proofs.PesParseRef
  Proofs.PsiProofs Proofs.PsiParse Proofs.PoolProofs Proofs.LossProofs Proofs.DemuxProofs
  Proofs.RoundTripDemux Proofs.RoundTripUnit Proofs.RoundTripTables.
Import ListNotations.
Open Scope Z_scope.

(* ---------------- packets ---------------- *)

Lemma spkt_bytes_len sp : spkt_ok sp -> length (spkt_bytes sp) = 188%nat.
Proof.
  intros (W & Hs & Ob). unfold spkt_bytes.
  pose proof (ff_stuffing_length _ W) as Hff.
  assert (Hffok : bytes_ok (ff_stuffing (sp_pkt sp))).
  { unfold ff_stuffing. apply Forall_forall. intros b Hb. apply repeat_spec in Hb. subst b. unfold byte_ok. lia. }
  rewrite (ref_bytes_stuffed _ _ W Hs Ob).
  pose proof (write_ref_packet _ W) as Hw. destruct (write_packet_188 _ _ Hw) as [Hl _].
  pose proof (ref_bytes_stuffed _ _ W Hff Hffok) as E. unfold ref_packet_bytes_stuffed in E.
  unfold ref_packet_bytes, ref_packet_fields in Hl. rewrite E in Hl.
  rewrite !app_length in Hl. rewrite !app_length. lia.
Qed.

Lemma spkt_seen sp : spkt_ok sp ->
  buf_ok 188 (spkt_bytes sp) /\ parse_packet_bytes (spkt_bytes sp) = Ok (observed (sp_pkt sp)).
Proof.
  intros H. pose proof (spkt_bytes_len sp H) as Hl. destruct H as (W & Hs & Ob). split.
  - split; [lia|]. unfold spkt_bytes, ref_packet_bytes_stuffed. apply bytes_of_bits_ok.
  - unfold spkt_bytes. exact (parse_ref_any_stuffing _ _ W Hs Ob).
Qed.

(* what the pool reads of an observed packet *)
Definition obs (sp : spkt) : Packet := observed (sp_pkt sp).

Lemma obs_no_disc sp : disc_flag (sp_pkt sp) = false -> no_disc_flag (obs sp).
Proof.
  unfold disc_flag, no_disc_flag, obs, observed. cbn [Packet_AdaptationField Packet_Header].
  destruct (Packet_AdaptationField (sp_pkt sp)) as [a|];
    cbn [option_map odflt observed_af PacketAdaptationField_DiscontinuityIndicator].
  - intros ->. apply andb_false_r.
  - intros _. apply andb_false_r.
Qed.

Lemma first_pkt_obs sp : first_packet_of (obs sp) = first_pkt (sp_pkt sp).
Proof. reflexivity. Qed.

Lemma payload_obs l : concat (map Packet_Payload (map obs l)) = payload_of l.
Proof. unfold payload_of. rewrite map_map. reflexivity. Qed.

(* ---------------- the accumulator, one packet at a time ---------------- *)

Lemma acc_add_empty pm x p :
  acc_add pm x [] p =
  if (Z.eqb x C_PIDPAT || pm_mem pm x) && is_psi_complete [p] then ([], [p]) else ([p], []).
Proof.
  unfold acc_add. change (isSameAsPrevious [] p) with false. cbv iota.
  destruct (resets [] p), (pusi p); reflexivity.
Qed.

(* the next packet of a PID: neither a duplicate nor a discontinuity *)
Lemma next_packet_facts q' pe e :
  has_payload e = true -> 0 <= cc_of pe < 16 -> cc_of e = (cc_of pe + 1) mod 16 ->
  (no_disc_flag e \/ pusi e = true) ->
  isSameAsPrevious (q' ++ [pe]) e = false /\ resets (q' ++ [pe]) e = false.
Proof.
  intros Hpay Hr Hcc Hdi.
  assert (Hnth : nth (Z.to_nat (Z.of_nat (length (q' ++ [pe])) - 1)) (q' ++ [pe]) zero_Packet = pe).
  { rewrite app_length. cbn [length]. replace (Z.to_nat (Z.of_nat (length q' + 1) - 1)) with (length q') by lia.
    apply nth_last_app. }
  assert (Hlen : (Z.of_nat (length (q' ++ [pe])) >? 0) = true) by (rewrite app_length; cbn [length]; lia).
  unfold cc_of in *. split.
  - unfold isSameAsPrevious. rewrite Hnth, Hlen.
    assert (Hne : (PacketHeader_ContinuityCounter (Packet_Header e) =?
                   PacketHeader_ContinuityCounter (Packet_Header pe)) = false).
    { rewrite Hcc. apply Z.eqb_neq. Ltac Zify.zify_post_hook ::= Z.div_mod_to_equations. lia. }
    rewrite Hne, !andb_false_r. reflexivity.
  - assert (Hcd : hasCounterDiscontinuity (q' ++ [pe]) e = false).
    { unfold hasCounterDiscontinuity. rewrite Hnth, Hlen. unfold has_payload in Hpay. rewrite Hpay.
      cbn [orb andb negb]. rewrite orb_false_r. apply negb_false_iff, Z.eqb_eq. rewrite Hcc.
      rewrite (Z.mod_small (_ + 1) 256) by lia. reflexivity. }
    unfold resets, hasDiscontinuity. rewrite Hcd, orb_false_r.
    destruct Hdi as [Hdi|Hp].
    + unfold no_disc_flag in Hdi. rewrite Hdi. reflexivity.
    + rewrite Hp. cbn [negb]. apply andb_false_r.
Qed.

Lemma acc_add_follow pm x q' pe e :
  has_payload e = true -> 0 <= cc_of pe < 16 -> cc_of e = (cc_of pe + 1) mod 16 ->
  (no_disc_flag e \/ pusi e = true) ->
  acc_add pm x (q' ++ [pe]) e =
  if pusi e
  then (if (Z.eqb x C_PIDPAT || pm_mem pm x) && is_psi_complete [e] then ([], [e]) else ([e], q' ++ [pe]))
  else (if (Z.eqb x C_PIDPAT || pm_mem pm x) && is_psi_complete ((q' ++ [pe]) ++ [e])
        then ([], (q' ++ [pe]) ++ [e]) else ((q' ++ [pe]) ++ [e], [])).
Proof.
  intros Hpay Hr Hcc Hdi. destruct (next_packet_facts q' pe e Hpay Hr Hcc Hdi) as [Hs Hd].
  unfold acc_add. rewrite Hs, Hd. destruct (pusi e); reflexivity.
Qed.

(* a packet without payload_unit_start on a PID that is not treated as PSI never flushes; the queue keeps its shape *)
Lemma acc_add_quiet pm x q p (Q : Packet -> Prop) :
  (Z.eqb x C_PIDPAT || pm_mem pm x) = false -> pusi p = false -> Forall Q q -> Q p ->
  exists q', acc_add pm x q p = (q', []) /\ Forall Q q'.
Proof.
  intros Hn Hp Hq HQ. unfold acc_add. rewrite Hn, Hp. cbn [andb].
  destruct (isSameAsPrevious q p); [exists q; split; [reflexivity|exact Hq]|].
  destruct (resets q p).
  - exists [p]. split; [reflexivity|]. constructor; [exact HQ|constructor].
  - exists (q ++ [p]). split; [reflexivity|]. apply Forall_app. split; [exact Hq|]. constructor; [exact HQ|constructor].
Qed.

(* ---------------- isPSIComplete on a PSI unit and on its beginnings ---------------- *)

(* table_id, two bytes whose low 12 bits count the rest *)
Definition framed (sec : list Z) : Prop :=
  exists tid tl rest, sec = tid :: tl ++ rest /\ length tl = 2%nat /\ shouldStopPSIParsing tid = false /\
    Z.land (be16 tl) 4095 = Z.of_nat (length rest).

Lemma spec_section_framed tid ssi pb body :
  0 <= tid < 256 -> shouldStopPSIParsing tid = false -> Z.of_nat (length body) + 4 < 4096 ->
  framed (spec_section tid ssi pb body).
Proof.
  intros Ht Hstop HL. set (L := Z.of_nat (length body) + 4) in *.
  set (crc := CrcSpec.be32 (crc32_mpeg2 (spec_section_prefix tid ssi pb body))).
  set (tl := bytes_of_bits (hdr_tail_bits ssi pb L)).
  assert (Htl : length tl = 2%nat) by apply hdr_tail_length.
  exists tid, tl, (body ++ crc). split; [|split; [exact Htl|split; [exact Hstop|]]].
  - unfold spec_section. cbv zeta. fold crc. unfold spec_section_prefix. fold L.
    rewrite PsiParse.header_bytes by exact Ht. fold tl. cbn [app]. rewrite <- !app_assoc. reflexivity.
  - destruct tl as [|b1 [|b2 [|? ?]]] eqn:Etl; try discriminate Htl.
    assert (Hok : bytes_ok [b1; b2]) by (rewrite <- Etl; apply bytes_of_bits_ok).
    inversion Hok as [|? ? Hb1 Hok']; subst. inversion Hok' as [|? ? Hb2 _]; subst.
    rewrite (land_be16_field b1 b2 Hb1 Hb2), <- Etl.
    destruct (hdr_tail_fields ssi pb L ltac:(unfold L; lia)) as (_ & _ & Hf). fold tl in Hf. rewrite Hf.
    rewrite app_length. unfold crc. cbn [CrcSpec.be32 length]. unfold L. lia.
Qed.

Lemma framed_length sec : framed sec -> (3 <= length sec)%nat.
Proof. intros (tid & tl & rest & -> & Htl & _). cbn [length]. rewrite app_length. lia. Qed.

(* the walk of isPSIComplete over whole sections *)
Lemma walk_sections : forall secs B o R k, Forall framed secs ->
  at_ (mk_iter B o) (concat secs ++ R) ->
  psi_walk (length secs + k) (mk_iter B o) = psi_walk k (mk_iter B (o + Z.of_nat (length (concat secs)))).
Proof.
  induction secs as [|sec secs IH]; intros B o R k Hall Hat.
  - cbn [concat length Nat.add]. rewrite Z.add_0_r. reflexivity.
  - inversion Hall as [|? ? Hf Hall']; subst. destruct Hf as (tid & tl & rest & -> & Htl & Hstop & Hland).
    cbn [concat] in Hat. rewrite <- app_assoc in Hat. cbn [app] in Hat. rewrite <- app_assoc in Hat.
    cbn [length Nat.add psi_walk].
    pose proof (at_cons_lt _ _ _ Hat) as Hlt. cbn [ioff] in Hlt.
    destruct (ioff (mk_iter B o) <? ilen (mk_iter B o)) eqn:E; [|cbn [ioff] in E; lia]. cbn [negb].
    rewrite (read_byte _ _ _ Hat), Hstop. cbn [ibs ioff].
    pose proof (at_move1 _ _ _ Hat) as Hat1. cbn [ibs ioff] in Hat1.
    unfold next_bytes_nocopy. rewrite (read_bytes _ tl _ 2 Hat1) by (rewrite ?Htl; lia). cbn [ibs ioff]. rewrite Hland.
    pose proof (at_shift B (o + 1) tl _ Hat1) as Hat2. rewrite Htl in Hat2.
    pose proof (at_shift B (o + 1 + Z.of_nat 2) rest _ Hat2) as Hat3.
    replace (o + 1 + 2 + Z.of_nat (length rest)) with (o + 1 + Z.of_nat 2 + Z.of_nat (length rest)) by lia.
    rewrite (IH B _ R k Hall' Hat3). f_equal. f_equal. cbn [concat]. rewrite app_length. cbn [length]. rewrite app_length, Htl. lia.
Qed.

Lemma concat_framed_length secs : Forall framed secs -> (length secs <= length (concat secs))%nat.
Proof.
  induction 1 as [|s l Hs _ IH]; [reflexivity|]. cbn [concat length]. rewrite app_length.
  pose proof (framed_length s Hs). lia.
Qed.

(* the whole unit: complete *)
Lemma psi_complete_whole ptr fill secs t :
  0 <= ptr -> Z.of_nat (length fill) = ptr -> Forall framed secs ->
  is_psi_complete_bytes (ptr :: fill ++ concat secs ++ repeat 255 t) = Ok true.
Proof.
  intros Hp Hfill Hall. set (U := ptr :: fill ++ concat secs ++ repeat 255 t).
  unfold is_psi_complete_bytes. fold U.
  assert (Hat0 : at_ (new_iter U) (ptr :: fill ++ concat secs ++ repeat 255 t)) by (split; [cbn; lia|reflexivity]).
  rewrite (read_byte _ _ _ Hat0). cbn [ibs ioff new_iter].
  assert (Hat1 : at_ (mk_iter U (0 + 1 + ptr)) (concat secs ++ repeat 255 t)).
  { pose proof (at_shift U 0 (ptr :: fill) _ Hat0) as X. cbn [length] in X.
    replace (0 + Z.of_nat (S (length fill))) with (0 + 1 + ptr) in X by lia. exact X. }
  pose proof (concat_framed_length secs Hall) as Hcl.
  assert (HlenU : Z.of_nat (length U) = 1 + ptr + Z.of_nat (length (concat secs)) + Z.of_nat t).
  { unfold U. cbn [length]. rewrite !app_length, repeat_length. lia. }
  replace (S (length U)) with (length secs + S (length U - length secs))%nat by lia.
  rewrite (walk_sections secs U _ _ _ Hall Hat1).
  pose proof (at_shift U _ (concat secs) _ Hat1) as Hat2.
  set (e := 0 + 1 + ptr + Z.of_nat (length (concat secs))) in *.
  cbn [psi_walk ioff ibs]. unfold ilen. cbn [ibs].
  destruct t as [|t'].
  - cbn [repeat] in Hat2.
    destruct (e <? Z.of_nat (length U)) eqn:E2; [unfold e in E2; lia|]. cbn [negb ioff ibs].
    destruct (e <=? Z.of_nat (length U)) eqn:E3; [reflexivity|unfold e in E3; lia].
  - cbn [repeat] in Hat2.
    destruct (e <? Z.of_nat (length U)) eqn:E2; [|unfold e in E2; lia]. cbn [negb].
    rewrite (read_byte _ _ _ Hat2). change (shouldStopPSIParsing 255) with true. cbn [ibs ioff].
    destruct (e + 1 <=? Z.of_nat (length U)) eqn:E3; [reflexivity|unfold e in E3; lia].
Qed.

(* a list equal to A ++ L ++ T that ends strictly inside L *)
Lemma prefix_inside {A} (a l t p s : list A) : a ++ l ++ t = p ++ s ->
  (length a < length p < length a + length l)%nat ->
  exists q q2, p = a ++ q /\ l = q ++ q2 /\ q <> [] /\ q2 <> [].
Proof.
  intros H Hl. set (m := (length p - length a)%nat).
  exists (firstn m l), (skipn m l).
  assert (Hp : p = a ++ firstn m l).
  { pose proof (f_equal (firstn (length p)) H) as F.
    rewrite (firstn_app (length p) p s), firstn_all, Nat.sub_diag, firstn_O, app_nil_r in F.
    rewrite firstn_app, (firstn_all2 (n := length p) a) in F by lia. fold m in F.
    rewrite firstn_app in F. replace (m - length l)%nat with 0%nat in F by lia.
    rewrite firstn_O, app_nil_r in F. symmetry. exact F. }
  split; [exact Hp|]. split; [symmetry; apply firstn_skipn|]. split.
  - intros E. pose proof (f_equal (@length A) E) as X. rewrite firstn_length in X. cbn in X. lia.
  - intros E. pose proof (f_equal (@length A) E) as X. rewrite skipn_length in X. cbn in X. lia.
Qed.

(* a beginning of the unit that ends strictly inside a section: not complete *)
Lemma psi_complete_partial ptr fill front lst after P S' :
  0 <= ptr -> Z.of_nat (length fill) = ptr -> Forall framed front -> framed lst ->
  ptr :: fill ++ concat front ++ lst ++ after = P ++ S' ->
  1 + ptr + Z.of_nat (length (concat front)) < Z.of_nat (length P)
    < 1 + ptr + Z.of_nat (length (concat front)) + Z.of_nat (length lst) ->
  is_psi_complete_bytes P = Ok false.
Proof.
  intros Hp Hfill Hall Hlst HU Hlen.
  set (A := ptr :: fill ++ concat front).
  assert (HA : Z.of_nat (length A) = 1 + ptr + Z.of_nat (length (concat front))).
  { unfold A. cbn [length]. rewrite app_length. lia. }
  assert (HU' : A ++ lst ++ after = P ++ S').
  { unfold A. cbn [app]. rewrite <- HU, <- !app_assoc. reflexivity. }
  destruct (prefix_inside A lst _ P S' HU' ltac:(lia)) as (Q & Q2 & HP & HL & HQ & HQ2).
  destruct Hlst as (tid & tl & rest & Elst & Htl & Hstop & Hland).
  destruct Q as [|b Q']; [contradiction|].
  assert (b = tid) by (rewrite Elst in HL; cbn [app] in HL; injection HL as <- _; reflexivity). subst b.
  assert (HQ' : tl ++ rest = Q' ++ Q2) by (rewrite Elst in HL; cbn [app] in HL; injection HL as HL; exact HL).
  unfold is_psi_complete_bytes.
  assert (Hat0 : at_ (new_iter P) (ptr :: fill ++ concat front ++ tid :: Q')).
  { split; [cbn; lia|]. cbn [new_iter ioff ibs Z.to_nat skipn]. rewrite HP. unfold A. cbn [app]. rewrite <- app_assoc. reflexivity. }
  rewrite (read_byte _ _ _ Hat0). cbn [ibs ioff new_iter].
  assert (Hat1 : at_ (mk_iter P (0 + 1 + ptr)) (concat front ++ tid :: Q')).
  { pose proof (at_shift P 0 (ptr :: fill) _ Hat0) as X. cbn [length] in X.
    replace (0 + Z.of_nat (S (length fill))) with (0 + 1 + ptr) in X by lia. exact X. }
  pose proof (concat_framed_length front Hall) as Hcl.
  assert (HlenP : Z.of_nat (length P) = 1 + ptr + Z.of_nat (length (concat front)) + 1 + Z.of_nat (length Q')).
  { rewrite HP, app_length. cbn [length]. lia. }
  replace (S (length P)) with (length front + S (length P - length front))%nat by lia.
  rewrite (walk_sections front P _ _ _ Hall Hat1).
  pose proof (at_shift P _ (concat front) _ Hat1) as Hat2.
  set (e := 0 + 1 + ptr + Z.of_nat (length (concat front))) in *.
  cbn [psi_walk ioff ibs]. unfold ilen. cbn [ibs].
  destruct (e <? Z.of_nat (length P)) eqn:E2; [|unfold e in E2; lia]. cbn [negb].
  rewrite (read_byte _ _ _ Hat2), Hstop. cbn [ibs ioff].
  pose proof (at_move1 _ _ _ Hat2) as Hat3. cbn [ibs ioff] in Hat3.
  destruct (Nat.lt_ge_cases (length Q') 2) as [Hshort|Hlong].
  - (* the length bytes are not there yet *)
    unfold next_bytes_nocopy, next_bytes, ilen. cbn [ibs ioff].
    destruct (Z.of_nat (length P) <? e + 1 + 2) eqn:E3; [reflexivity|unfold e in E3; lia].
  - assert (HQl : Q' = tl ++ firstn (length Q' - 2) rest).
    { pose proof (f_equal (firstn (length Q')) HQ') as F.
      rewrite (firstn_app (length Q') Q' Q2), firstn_all, Nat.sub_diag, firstn_O, app_nil_r in F.
      rewrite firstn_app, (firstn_all2 (n := length Q') tl), Htl in F by lia. symmetry. exact F. }
    rewrite HQl in Hat3.
    unfold next_bytes_nocopy. rewrite (read_bytes _ tl _ 2 Hat3) by (rewrite ?Htl; lia). cbn [ibs ioff]. rewrite Hland.
    assert (Hbeyond : Z.of_nat (length P) < e + 1 + 2 + Z.of_nat (length rest)).
    { rewrite Elst in Hlen. cbn [length] in Hlen. rewrite app_length, Htl in Hlen. unfold e. lia. }
    destruct (length P - length front)%nat as [|k']; [reflexivity|].
    cbn [psi_walk ioff ibs]. unfold ilen. cbn [ibs].
    destruct (e + 1 + 2 + Z.of_nat (length rest) <? Z.of_nat (length P)) eqn:E4; [lia|]. cbn [negb ioff ibs].
    destruct (e + 1 + 2 + Z.of_nat (length rest) <=? Z.of_nat (length P)) eqn:E5; [lia|reflexivity].
Qed.

(* a beginning that ends before the first section: not complete *)
Lemma psi_complete_short ptr tl P S' : 0 <= ptr -> ptr :: tl = P ++ S' -> Z.of_nat (length P) < 1 + ptr ->
  is_psi_complete_bytes P = Ok false.
Proof.
  intros Hp HU Hlen. destruct P as [|b P']; [reflexivity|]. cbn [app] in HU. injection HU as <- _.
  unfold is_psi_complete_bytes.
  assert (Hat0 : at_ (new_iter (ptr :: P')) (ptr :: P')) by (split; [cbn; lia|reflexivity]).
  rewrite (read_byte _ _ _ Hat0). cbn [ibs ioff new_iter psi_walk]. unfold ilen. cbn [ibs].
  destruct (0 + 1 + ptr <? Z.of_nat (length (ptr :: P'))) eqn:E; [lia|]. cbn [negb ioff ibs].
  destruct (0 + 1 + ptr <=? Z.of_nat (length (ptr :: P'))) eqn:E2; [lia|reflexivity].
Qed.

(* ---------------- parseData on the packets of a whole PES unit ---------------- *)

Lemma pes_unit_start u : 0 <= pu_sid u < 256 -> 0 <= pu_plen u < 65536 ->
  exists tail, pes_unit_bytes u = 0 :: 0 :: 1 :: tail.
Proof.
  intros Hs HL. destruct (head_bytes (pu_sid u) (pu_plen u) Hs HL) as (B & EB & _).
  unfold pes_unit_bytes. destruct (pu_opt u) as [[[h pack] st]|].
  - unfold ref_pes_bytes. rewrite head_bytes_ref, EB. cbn [app]. eexists. reflexivity.
  - unfold ref_pes_bytes_noopt. rewrite head_bytes_ref, EB. cbn [app]. eexists. reflexivity.
Qed.

Lemma pes_plen_range u : pes_unit_ok u -> 0 <= pu_plen u < 65536.
Proof. intros (_ & _ & _ & [->|[H _]]); lia. Qed.

Lemma pes_unit_parses u : pes_unit_ok u -> parse_pes_data_bytes (pes_unit_bytes u) = Ok (pes_unit_value u).
Proof.
  intros Hok. pose proof (pes_plen_range u Hok) as HL. destruct Hok as (Hs & Hb & Hopt & Hlen).
  unfold pes_unit_bytes, pes_unit_value, pes_hdr_len in *.
  destruct (pu_opt u) as [[[h pack] st]|].
  - destruct Hopt as [Ho WA].
    destruct (parse_ref (pu_sid u) (pu_plen u) h pack st (pu_data u) Hs HL Ho WA) as (P0 & P1 & _).
    destruct Hlen as [H0|[Hpos Heq]].
    + rewrite (P0 H0). reflexivity.
    + destruct (len_all_bounds h pack st WA) as (R0 & R1 & R2).
      rewrite P1 by lia. f_equal. f_equal. apply firstn_all2. lia.
  - destruct (parse_ref_noopt (pu_sid u) (pu_plen u) (pu_data u) Hs HL Hopt) as (P0 & P1 & _).
    destruct Hlen as [H0|[Hpos Heq]].
    + rewrite (P0 H0). reflexivity.
    + rewrite P1 by lia. f_equal. f_equal. apply firstn_all2. lia.
Qed.

Theorem parse_pes_group pm x p1 rest u :
  pes_unit_ok u -> pid_of p1 = x -> (x =? C_PIDCAT) = false -> isPSIPayload x (pm_mem pm) = false ->
  concat (map Packet_Payload (p1 :: rest)) = pes_unit_bytes u ->
  parse_data full_parsers None pm (p1 :: rest) = Ok [pes_data (first_packet_of p1) (pes_unit_value u) x].
Proof.
  intros Hok Hpid H1 H2 Hcat.
  unfold parse_data. rewrite Hpid, H1, H2, concat_payload_map, Hcat.
  destruct (pes_unit_start u ltac:(apply Hok) (pes_plen_range u Hok)) as (tail & Htail).
  rewrite Htail at 1. rewrite is_pes_payload_start.
  cbn [full_parsers dp_pes]. rewrite (pes_unit_parses u Hok). reflexivity.
Qed.

(* ---------------- PSI units ---------------- *)

Section Domain.
Variable SP : list Z -> PSISection -> Prop.
Hypothesis SP_parses : forall b s, SP b s -> sec_parses b s.

Lemma secs_framed l : Forall (sec_ok SP) l -> Forall framed (map sec_bytes l).
Proof.
  induction 1 as [|s l (Ht & Hst & HL & _) _ IH]; [constructor|]. cbn [map]. constructor; [|exact IH].
  unfold sec_bytes. exact (spec_section_framed _ _ _ _ Ht Hst HL).
Qed.

Lemma secs_parse l : Forall (sec_ok SP) l -> Forall2 sec_parses (map sec_bytes l) (map se_value l).
Proof.
  induction 1 as [|s l (_ & _ & _ & _ & Hsp) _ IH]; [constructor|]. cbn [map]. constructor; [apply SP_parses, Hsp|exact IH].
Qed.

Lemma psi_unit_complete u : psi_unit_ok SP u -> is_psi_complete_bytes (psi_unit_bytes u) = Ok true.
Proof.
  intros (Hp & Hf & _ & _ & Hs). unfold psi_unit_bytes.
  apply psi_complete_whole; [lia|exact Hf|apply secs_framed, Hs].
Qed.

Lemma inside_secs_spec : forall secs start L, inside_secs start secs L = true ->
  exists front s back, secs = front ++ s :: back /\
    start + Z.of_nat (length (concat (map sec_bytes front))) < L
      < start + Z.of_nat (length (concat (map sec_bytes front))) + Z.of_nat (length (sec_bytes s)).
Proof.
  induction secs as [|s r IH]; intros start L H; [discriminate|]. cbn [inside_secs] in H.
  apply orb_true_iff in H. destruct H as [H|H].
  - exists [], s, r. split; [reflexivity|]. cbn [map concat length]. lia.
  - destruct (IH _ _ H) as (front & s' & back & -> & Hb). exists (s :: front), s', back. split; [reflexivity|].
    cbn [map concat]. rewrite app_length. lia.
Qed.

Lemma psi_unit_incomplete u P S' : psi_unit_ok SP u -> psi_unit_bytes u = P ++ S' ->
  psi_mid u (Z.of_nat (length P)) = true -> is_psi_complete_bytes P = Ok false.
Proof.
  intros (Hp & Hf & _ & Hne & Hs) HU Hmid. unfold psi_unit_bytes, psi_mid in *.
  apply orb_true_iff in Hmid. destruct Hmid as [Hshort|Hin].
  - apply (psi_complete_short (su_ptr u) _ P S' ltac:(lia) HU). lia.
  - destruct (inside_secs_spec _ _ _ Hin) as (front & s & back & E & Hb). rewrite E in *.
    rewrite map_app in HU. cbn [map] in HU. rewrite concat_app in HU. cbn [concat] in HU. rewrite <- !app_assoc in HU.
    apply Forall_app in Hs. destruct Hs as [Hfr Hl]. pose proof (Forall_inv Hl) as Hl1.
    pose proof (secs_framed _ Hfr) as F1.
    pose proof (secs_framed _ (Forall_cons _ Hl1 (Forall_nil _))) as F2. cbn [map] in F2. pose proof (Forall_inv F2) as F2'.
    apply (psi_complete_partial (su_ptr u) (su_fill u) (map sec_bytes front) (sec_bytes s)
             (concat (map sec_bytes back) ++ repeat 255 (su_tail u)) P S'); try assumption; lia.
Qed.

Lemma flat_map_map {A B C} (f : B -> list C) (g : A -> B) l : flat_map f (map g l) = flat_map (fun a => f (g a)) l.
Proof. induction l as [|a l IH]; [reflexivity|]. cbn [map flat_map]. rewrite IH. reflexivity. Qed.

Theorem parse_psi_group pm x p1 rest u :
  psi_unit_ok SP u -> pid_of p1 = x -> (x =? C_PIDCAT) = false -> isPSIPayload x (pm_mem pm) = true ->
  concat (map Packet_Payload (p1 :: rest)) = psi_unit_bytes u ->
  parse_data full_parsers None pm (p1 :: rest) =
  Ok (flat_map (fun s => section_to_data (se_value s) (first_packet_of p1) x) (su_secs u)).
Proof.
  intros (Hp & Hf & _ & _ & Hs) Hpid H1 H2 Hcat.
  unfold parse_data. rewrite Hpid, H1, H2, concat_payload_map, Hcat.
  cbn [full_parsers dp_psi]. unfold psi_unit_bytes.
  destruct (fill_tail (su_tail u)) as (ts & Ht & Hts).
  rewrite (parse_unit (su_ptr u) (su_fill u) _ _ _ ts Hp Hf (secs_parse _ Hs) Ht). cbn [res_map]. f_equal.
  unfold psi_to_data. cbn [PSIData_Sections]. rewrite flat_map_app, Hts, app_nil_r. apply flat_map_map.
Qed.

(* the program-map PIDs a list of section data registers do not depend on the packet and PID they are tagged with *)
Lemma pat_pids_section s fp pid : flat_map pat_pids (section_to_data s fp pid) = sec_pat_pids s.
Proof.
  unfold sec_pat_pids, section_to_data. destruct (PSISection_Syntax s) as [syn|]; [|reflexivity].
  destruct (PSISectionSyntax_Data syn) as [d|]; [|reflexivity]. destruct (PSISection_Header s) as [h|]; [|reflexivity].
  set (tid := PSISectionHeader_TableID h).
  destruct (is_nit_id tid), (tid =? C_PSITableIDPAT), (tid =? C_PSITableIDPMT), (is_sdt_id tid), (tid =? C_PSITableIDTOT), (is_eit_id tid);
    reflexivity.
Qed.

Lemma pat_pids_unit x u p : flat_map pat_pids (unit_data x u p) = announces u.
Proof.
  destruct u as [pu|su]; [reflexivity|]. cbn [unit_data announces].
  induction (su_secs su) as [|s l IH]; [reflexivity|]. cbn [flat_map]. rewrite flat_map_app, pat_pids_section, IH. reflexivity.
Qed.

End Domain.

(* isPSIComplete on observed packets looks at their concatenated payloads only *)
Lemma is_psi_complete_obs l :
  is_psi_complete (map obs l) = match is_psi_complete_bytes (payload_of l) with Ok b => b | _ => false end.
Proof. unfold is_psi_complete. rewrite concat_payload_map, payload_obs. reflexivity. Qed.
