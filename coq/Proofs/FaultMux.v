(* C18 at the level of Muxer calls: the io.Writer fails on its k-th Write call (Model/MuxFaults.v).
   For every state, history and failure index:
     mux_fault_before  every entry before the last is the fault-free run's entry of the same call;
     mux_fault_call    when the history has a k-th Write, the last entry belongs to the call during which it happens:
                       the injected error, a count <= the bytes accepted during the call, and those bytes are a
                       prefix of what the call writes when nothing fails;
     mux_no_fault      when the history has fewer than k+1 Writes nothing is different.
   packet_parts (how Muxer.WritePacket accounts for its Writes) is shown to be a regrouping of the very same Write
   calls as the packet's item list, so the statements speak about the bytes of Model/Muxer.v (mout_bytes). *)
From Coq Require Import ZArith List Lia Bool ZifyBool.
Require Import Base.Bits Base.Iter Base.Wr Gen.Consts Gen.Types Gen.Preds Model.Packet Model.Muxer Model.Faults Model.MuxFaults.
Require Import Proofs.MuxerProofs Proofs.FaultProofs.
Import ListNotations.
Open Scope Z_scope.

(* ---------------- Write calls of a concatenation of byte-aligned item lists ---------------- *)

Lemma run_item_frame it c ch :
  run_item (c, ch) it = (fst (run_item (c, []) it), ch ++ snd (run_item (c, []) it)).
Proof.
  destruct it as [w v|b|bs]; cbn [run_item fst snd]; unfold push_bits; cbn [fst snd app]; try reflexivity.
  destruct c as [|c0 c]; cbn [fst snd app].
  - destruct bs; [rewrite app_nil_r|]; reflexivity.
  - reflexivity.
Qed.

Lemma run_items_frame l : forall c ch,
  run_items l (c, ch) = (fst (run_items l (c, [])), ch ++ snd (run_items l (c, []))).
Proof.
  induction l as [|it l IH]; intros c ch; unfold run_items in *; cbn [fold_left fst snd]; [rewrite app_nil_r; reflexivity|].
  rewrite (run_item_frame it c ch). destruct (run_item (c, []) it) as [c1 ch1]. cbn [fst snd].
  rewrite (IH c1 (ch ++ ch1)), (IH c1 ch1). cbn [fst snd]. rewrite app_assoc. reflexivity.
Qed.

Lemma aligned_cache_empty l n : ibz l = 8 * n -> fst (run_items l ([], [])) = [].
Proof.
  unfold ibz. intros H.
  pose proof (run_items_total l ([], [])) as T. pose proof (run_items_cache l ([], []) ltac:(simpl; lia)) as C.
  change (st_total ([], [])) with 0%nat in T. unfold st_total in T.
  destruct (fst (run_items l ([], []))) as [|b0 c]; [reflexivity|exfalso].
  cbn [length] in *. set (a := length (concat (snd (run_items l ([], []))))) in *. lia.
Qed.

(* the BitsWriter makes the same Write calls for a ++ b as for a and then b, when a ends on a byte boundary *)
Lemma chunks_of_app_aligned a b n : ibz a = 8 * n -> chunks_of (a ++ b) = chunks_of a ++ chunks_of b.
Proof.
  intros H. unfold chunks_of, run_items. rewrite fold_left_app. fold (run_items a ([], [])).
  pose proof (aligned_cache_empty a n H) as Hc.
  destruct (run_items a ([], [])) as [c ch]. cbn [fst snd] in *. subst c.
  fold (run_items b ([], ch)). rewrite run_items_frame. reflexivity.
Qed.

Lemma chunks_of_repeat_ff k : chunks_of (repeat (wu8 255) k) = repeat [255] k.
Proof.
  induction k as [|k IH]; [reflexivity|].
  change (repeat (wu8 255) (S k)) with ([wu8 255] ++ repeat (wu8 255) k).
  rewrite (chunks_of_app_aligned [wu8 255] _ 1) by reflexivity. rewrite IH. reflexivity.
Qed.

Lemma concat_repeat_single {A} (x : A) k : concat (repeat [x] k) = repeat x k.
Proof. induction k as [|k IH]; [reflexivity|]. cbn [repeat concat app]. rewrite IH. reflexivity. Qed.

Lemma chunks_of_bytes pl : chunks_of [WBytes pl] = match pl with [] => [] | _ => [pl] end.
Proof. unfold chunks_of, run_items. cbn [fold_left run_item fst snd]. destruct pl; reflexivity. Qed.

(* Muxer.WritePacket's accounting is a regrouping of exactly the Write calls the packet's items make *)
Lemma packet_parts_regroup p target its : enc_packet p target = Ok its ->
  concat (packet_parts p target) = chunks_of its.
Proof.
  intros H. unfold packet_parts. rewrite H. unfold enc_packet in H.
  set (plen := Z.of_nat (length (Packet_Payload p))) in *.
  assert (Hgoal : forall afi afn,
    ibz afi = 8 * afn ->
    its = [wu8 syncByte] ++ enc_packet_header (Packet_Header p) ++ afi ++
          (if PacketHeader_HasPayload (Packet_Header p) then [WBytes (Packet_Payload p)] else []) ++
          repeat_item (target - (if PacketHeader_HasPayload (Packet_Header p) then 1 + C_mpegTsPacketHeaderSize + afn + plen
                                 else 1 + C_mpegTsPacketHeaderSize + afn)) (wu8 255) ->
    concat ([chunks_of [wu8 syncByte]; chunks_of (enc_packet_header (Packet_Header p))] ++
            (match afi with [] => [] | w :: l => [chunks_of (w :: l)] end) ++
            (if PacketHeader_HasPayload (Packet_Header p) then match Packet_Payload p with [] => [] | pl => [[pl]] end else []) ++
            repeat [[255]] (Z.to_nat (target - (if PacketHeader_HasPayload (Packet_Header p)
                                                then 1 + C_mpegTsPacketHeaderSize + afn + plen
                                                else 1 + C_mpegTsPacketHeaderSize + afn)))) = chunks_of its).
  { intros afi afn Haf ->.
    rewrite (chunks_of_app_aligned [wu8 syncByte] _ 1) by reflexivity.
    rewrite (chunks_of_app_aligned (enc_packet_header (Packet_Header p)) _ 3) by (rewrite enc_packet_header_bits; reflexivity).
    rewrite (chunks_of_app_aligned afi _ afn Haf).
    cbn [app concat]. f_equal. f_equal.
    assert (Hafc : concat (match afi with [] => [] | w :: l => [chunks_of (w :: l)] end) = chunks_of afi).
    { destruct afi; [reflexivity|]. cbn [concat]. apply app_nil_r. }
    rewrite concat_app, Hafc. f_equal. rewrite concat_app. unfold repeat_item. rewrite concat_repeat_single.
    destruct (PacketHeader_HasPayload (Packet_Header p)).
    - rewrite (chunks_of_app_aligned [WBytes (Packet_Payload p)] _ plen) by (ibz_simpl; fold plen; lia).
      rewrite chunks_of_bytes, chunks_of_repeat_ff. f_equal.
      destruct (Packet_Payload p); [reflexivity|]. cbn [concat]. apply app_nil_r.
    - cbn [app concat]. rewrite chunks_of_repeat_ff. reflexivity. }
  destruct (PacketHeader_HasAdaptationField (Packet_Header p)) eqn:Haf.
  - destruct (Packet_AdaptationField p) as [af|]; cbn [need res_bind] in H; [|discriminate].
    destruct (PacketAdaptationField_StuffingLength af <? 0); cbn [res_bind] in H; [discriminate|].
    destruct (_ <? plen) eqn:E1 in H; [discriminate|].
    destruct (enc_adaptation_field af) as [[afi afn]| |] eqn:Eaf; cbn [res_bind] in H; try discriminate.
    destruct (_ <? plen) eqn:E2 in H; [discriminate|].
    cbv beta iota zeta. cbn [fst snd]. apply Hgoal; [eapply enc_adaptation_field_bits; exact Eaf|].
    inversion H. reflexivity.
  - cbn [res_bind] in H.
    destruct (_ <? plen) eqn:E1 in H; [discriminate|]. cbn [res_bind] in H.
    destruct (_ <? plen) eqn:E2 in H; [discriminate|].
    cbv beta iota zeta. cbn [fst snd]. apply (Hgoal [] 0); [reflexivity|]. inversion H. reflexivity.
Qed.

(* the groups a call accounts for hold exactly the Write calls of Model/Muxer.v *)
Lemma groups_of_call_regroup s o : let out := snd (mux_step s o) in
  concat (groups_of_call o out) = concat (mo_groups out).
Proof.
  cbv zeta. unfold groups_of_call. destruct o; try reflexivity.
  unfold mux_step, mux_step_part, write_packet_op, emit_packet. cbn [snd mout_of_part].
  destruct (enc_packet p C_MpegTsPacketSize) as [its| |] eqn:E;
    cbn [po_res po_group po_pkt]; unfold mout_of_part; cbn [pa_res pa_groups mo_res mo_groups]; try reflexivity.
  rewrite (packet_parts_regroup p _ its E). cbn [concat]. rewrite app_nil_r. reflexivity.
Qed.

Lemma groups_of_call_bytes s o : let out := snd (mux_step s o) in
  concat (concat (groups_of_call o out)) = mout_bytes out.
Proof. cbv zeta. unfold mout_bytes. rewrite groups_of_call_regroup. reflexivity. Qed.

(* ---------------- the three statements ---------------- *)

Lemma call_writes_nonneg o out : 0 <= call_writes o out.
Proof. unfold call_writes. lia. Qed.

Lemma mux_writes_nonneg ops : forall s, 0 <= mux_writes s ops.
Proof.
  induction ops as [|o r IH]; intros s; cbn [mux_writes]; [lia|].
  destruct (mux_step s o) as [s' out]. pose proof (call_writes_nonneg o out). specialize (IH s'). lia.
Qed.

Lemma n_before_nonneg groups : forall k, 0 <= n_before groups k.
Proof.
  induction groups as [|g r IH]; intros k; cbn [n_before]; [lia|].
  destruct (k <? Z.of_nat (length g)); [lia|]. specialize (IH (k - Z.of_nat (length g))). lia.
Qed.

Lemma mux_run_entries_length ops : forall s, length (mux_run_entries s ops) = length ops.
Proof.
  induction ops as [|o r IH]; intros s; cbn [mux_run_entries]; [reflexivity|].
  destruct (mux_step s o) as [s' out]. cbn [length]. rewrite IH. reflexivity.
Qed.

(* the fault-free observation is the run of Model/Muxer.v *)
Lemma mux_run_entries_run ops : forall s, mux_run_entries s ops = map entry_of_call (snd (mux_run s ops)).
Proof.
  induction ops as [|o r IH]; intros s; cbn [mux_run_entries mux_run]; [reflexivity|].
  destruct (mux_step s o) as [s' out]. rewrite IH. destruct (mux_run s' r) as [s2 outs]. reflexivity.
Qed.

(* (3) fewer than k+1 Writes in the whole history: nothing fails, the observation is the fault-free one *)
Theorem mux_no_fault ops : forall s k, mux_writes s ops <= k -> mux_run_faulty s ops k = mux_run_entries s ops.
Proof.
  induction ops as [|o r IH]; intros s k Hk; cbn [mux_run_faulty mux_run_entries mux_writes] in *; [reflexivity|].
  destruct (mux_step s o) as [s' out]. unfold call_writes in Hk. pose proof (mux_writes_nonneg r s').
  destruct (k <? Z.of_nat (length (concat (groups_of_call o out)))) eqn:E; [lia|].
  f_equal. apply IH. lia.
Qed.

(* (1) every entry before the last is the fault-free run's entry for that call: code, count and bytes *)
Theorem mux_fault_before ops : forall s k i, (S i < length (mux_run_faulty s ops k))%nat ->
  nth_error (mux_run_faulty s ops k) i = nth_error (mux_run_entries s ops) i.
Proof.
  induction ops as [|o r IH]; intros s k i Hi; cbn [mux_run_faulty mux_run_entries] in *; [cbn in Hi; lia|].
  destruct (mux_step s o) as [s' out].
  destruct (k <? Z.of_nat (length (concat (groups_of_call o out)))) eqn:E; [cbn [length] in Hi; lia|].
  destruct i as [|i]; [reflexivity|]. cbn [nth_error length] in *. apply IH. lia.
Qed.

Lemma mux_run_faulty_length ops : forall s k, (length (mux_run_faulty s ops k) <= length ops)%nat.
Proof.
  induction ops as [|o r IH]; intros s k; cbn [mux_run_faulty]; [cbn; lia|].
  destruct (mux_step s o) as [s' out].
  destruct (k <? Z.of_nat (length (concat (groups_of_call o out)))); cbn [length]; [lia|]. specialize (IH s' (k - Z.of_nat (length (concat (groups_of_call o out))))). lia.
Qed.

(* (2) the history has a k-th Write: the observation ends with the call i during which it happens
   (the Writes of the calls before i number at most k, those up to and including i more than k); that call returns
   the injected error — not nil —, reports a count between 0 and the number of bytes the writer accepted during the
   call, and those bytes are a prefix of the bytes the same call writes in the fault-free run *)
Theorem mux_fault_call ops : forall s k, 0 <= k < mux_writes s ops ->
  exists i n acc,
    length (mux_run_faulty s ops k) = S i /\ (i < length ops)%nat /\
    mux_writes s (firstn i ops) <= k < mux_writes s (firstn (S i) ops) /\
    nth_error (mux_run_faulty s ops k) i = Some (E_injected, n, acc) /\
    E_injected <> mres_code (Ok tt) /\
    0 <= n <= Z.of_nat (length acc) /\
    exists code n0 bytes rest, nth_error (mux_run_entries s ops) i = Some (code, n0, bytes) /\ bytes = acc ++ rest.
Proof.
  induction ops as [|o r IH]; intros s k Hk; cbn [mux_writes] in Hk; [lia|].
  cbn [mux_run_faulty mux_run_entries].
  pose proof (groups_of_call_bytes s o) as Hbytes. cbv zeta in Hbytes.
  destruct (mux_step s o) as [s' out] eqn:Estep. cbn [snd] in Hbytes. unfold call_writes in Hk.
  destruct (k <? Z.of_nat (length (concat (groups_of_call o out)))) eqn:E.
  - exists O, (n_before (groups_of_call o out) k), (accepted (concat (groups_of_call o out)) k).
    cbn [length nth_error firstn mux_writes]. rewrite Estep. unfold call_writes.
    split; [reflexivity|]. split; [lia|]. split; [lia|]. split; [reflexivity|]. split; [discriminate|].
    split; [split; [apply n_before_nonneg|apply writer_count_le_accepted; lia]|].
    destruct (accepted_prefix (concat (groups_of_call o out)) k) as [rest Hrest].
    unfold entry_of_call. eexists _, _, _, rest. split; [reflexivity|]. rewrite <- Hbytes. exact Hrest.
  - destruct (IH s' (k - Z.of_nat (length (concat (groups_of_call o out)))) ltac:(lia))
      as (i & n & acc & H1 & H2 & H3 & H4 & H5 & H6 & H7).
    exists (S i), n, acc. cbn [length nth_error]. rewrite H1.
    split; [reflexivity|]. split; [lia|]. split.
    { change (firstn (S i) (o :: r)) with (o :: firstn i r). change (firstn (S (S i)) (o :: r)) with (o :: firstn (S i) r).
      cbn [mux_writes]. rewrite Estep. unfold call_writes. lia. }
    split; [exact H4|]. split; [exact H5|]. split; [exact H6|exact H7].
Qed.
