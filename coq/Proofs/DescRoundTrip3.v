(* C14, per-tag round trips, third part: short event, component, AC-3, Enhanced AC-3, extension, extended event,
   VBI data.  Pattern as in Proofs/DescProofs.v part C and Proofs/DescRoundTrip2.v. *)
From Coq Require Import ZArith List Lia Bool ZifyBool.
Require Import Base.Bits Base.Iter Base.Wr Gen.Consts Gen.Types Gen.Preds Model.Dvb Model.Desc Spec.DescSpec
  Proofs.DescProofs Proofs.DescRoundTrip2.
Import ListNotations.
Open Scope Z_scope.

(* ================= more steps ================= *)

(* `if i.Offset() < offsetEnd { NextBytes(offsetEnd - i.Offset()) }` on the bytes up to offsetEnd *)
Lemma rest_bytes_step pre a rest e : e = zlen pre + zlen a ->
  rest_bytes e (mk_iter (pre ++ a ++ rest) (zlen pre)) = Ok (a, mk_iter ((pre ++ a) ++ rest) (zlen (pre ++ a))).
Proof.
  intros ->. unfold rest_bytes, ibind. rewrite ioffset_step. pose proof (zlen_nonneg a) as Hnn.
  destruct (zlen pre <? zlen pre + zlen a) eqn:E.
  - replace (zlen pre + zlen a - zlen pre) with (zlen a) by lia. apply next_bytes_step. reflexivity.
  - assert (Ea : a = []) by (apply length_zero_iff_nil; unfold zlen in *; lia). subst a.
    unfold iret. cbn [app]. rewrite app_nil_r. reflexivity.
Qed.

(* `NextBytes(offsetEnd - i.Offset())` *)
Lemma bytes_to_step pre a rest e : e = zlen pre + zlen a ->
  bytes_to e (mk_iter (pre ++ a ++ rest) (zlen pre)) = Ok (a, mk_iter ((pre ++ a) ++ rest) (zlen (pre ++ a))).
Proof.
  intros ->. unfold bytes_to, ibind. rewrite ioffset_step.
  replace (zlen pre + zlen a - zlen pre) with (zlen a) by lia. apply next_bytes_step. reflexivity.
Qed.

(* an optional byte: present exactly when its flag is set; a field whose flag is clear holds 0 *)
Definition opt_ok (c : bool) (x : Z) : Prop := byte_range x /\ (c = false -> x = 0).
Definition opt_bytes (c : bool) (x : Z) : list Z := if c then [x] else [].

Lemma opt_byte_step c x pre rest : opt_ok c x ->
  opt_byte c (mk_iter (pre ++ opt_bytes c x ++ rest) (zlen pre)) =
  Ok (x, mk_iter ((pre ++ opt_bytes c x) ++ rest) (zlen (pre ++ opt_bytes c x))).
Proof.
  intros [Hr H0]. destruct c; cbn [opt_byte opt_bytes app].
  - apply next_byte_step.
  - rewrite (H0 eq_refl). unfold iret. rewrite app_nil_r. reflexivity.
Qed.

Lemma bytes_of_items_wif_u8 c x l : items_bytes_ok l -> byte_range x ->
  bytes_of_items (wif c [wu8 x] ++ l) = opt_bytes c x ++ bytes_of_items l.
Proof.
  intros Hl Hx. destruct c; cbn [wif opt_bytes app]; [|reflexivity].
  rewrite bytes_of_items_cons_u8, Z.mod_small by (auto; exact Hx). reflexivity.
Qed.

Lemma items_ok_wif c g l : items_bytes_ok (wif c g ++ l) -> items_bytes_ok l.
Proof. intros H. apply items_bytes_ok_app_inv in H. tauto. Qed.

Lemma zlen_opt_bytes c x : zlen (opt_bytes c x) = Z.b2z c.
Proof. destruct c; reflexivity. Qed.

Lemma firstn_3_of_3 {A} (l : list A) : length l = 3%nat -> firstn 3 l = l.
Proof. intros H. rewrite <- H. apply firstn_all. Qed.

(* right-nest the appends of the buffer: pre ++ x :: a ++ y :: b ++ rest *)
Ltac flat_app := repeat (progress (cbn [app]; rewrite <- ?app_assoc)).

(* ================= short event (EN 300 468 6.2.37) ================= *)

Lemma brt_short_event d v :
  Descriptor_Tag d = 77 -> Descriptor_ShortEvent d = Some v -> length (DescriptorShortEvent_Language v) = 3%nat ->
  5 + zlen (DescriptorShortEvent_EventName v) + zlen (DescriptorShortEvent_Text v) < 256 ->
  body_rt d (set_ShortEvent (desc_hdr 77 (5 + zlen (DescriptorShortEvent_EventName v) + zlen (DescriptorShortEvent_Text v))) v).
Proof.
  intros Ht Hv H3 Hl. destruct v as [name lang text].
  cbn [DescriptorShortEvent_EventName DescriptorShortEvent_Language DescriptorShortEvent_Text] in *.
  pose proof (zlen_nonneg name). pose proof (zlen_nonneg text).
  assert (Hs : desc_size d = 5 + zlen name + zlen text) by (unfold desc_size; rewrite Ht, Hv; reflexivity).
  intros pre body rest' (bi & Ebi & Hbok & ->). rewrite Ht, Hs.
  assert (bi = enc_short_event {| DescriptorShortEvent_EventName := name; DescriptorShortEvent_Language := lang; DescriptorShortEvent_Text := text |})
    by (unfold enc_descriptor_body in Ebi; rewrite Ht, Hv in Ebi; inversion Ebi; reflexivity). subst bi.
  set (n := 5 + zlen name + zlen text).
  change (parse_descriptor_body 77 n (zlen pre + n)) with (v0 <- new_descriptor_short_event ;; iret (set_ShortEvent (desc_hdr 77 n) v0)).
  unfold enc_short_event in *. cbn [DescriptorShortEvent_EventName DescriptorShortEvent_Language DescriptorShortEvent_Text] in *.
  destruct (bytes_of_items_code3 lang _ H3 Hbok) as (Hlang & Hrest & ->).
  assert (Hn : bytes_ok name) by (apply items_ok_tail in Hrest; apply items_ok_head_bytes in Hrest; exact Hrest).
  assert (Htx : bytes_ok text) by (do 3 apply items_ok_tail in Hrest; apply items_ok_head_bytes in Hrest; exact Hrest).
  rewrite bytes_of_items_cons_u8, bytes_of_items_cons_bytes, bytes_of_items_cons_u8, bytes_of_items_cons_bytes, bytes_of_items_nil, app_nil_r by iok.
  unfold blen. fold (zlen name) (zlen text). rewrite !Z.mod_small by lia.
  rewrite <- !app_assoc. cbn [app]. rewrite <- !app_assoc. cbn [app].
  unfold new_descriptor_short_event, ibind. rewrite next_bytes_step by (apply zlen_3; exact H3).
  rewrite next_byte_step. rewrite next_bytes_step by reflexivity. rewrite next_byte_step. rewrite next_bytes_step by reflexivity.
  unfold iret. eexists. reflexivity.
Qed.

(* ================= component (EN 300 468 6.2.8) ================= *)

Definition wf_component (v : DescriptorComponent) : Prop :=
  0 <= DescriptorComponent_StreamContentExt v < 16 /\ 0 <= DescriptorComponent_StreamContent v < 16 /\
  byte_range (DescriptorComponent_ComponentType v) /\ byte_range (DescriptorComponent_ComponentTag v) /\
  length (DescriptorComponent_ISO639LanguageCode v) = 3%nat /\ zlen (DescriptorComponent_Text v) < 250.

Lemma brt_component d v :
  Descriptor_Tag d = 80 -> Descriptor_Component d = Some v -> wf_component v ->
  body_rt d (set_Component (desc_hdr 80 (6 + zlen (DescriptorComponent_Text v))) v).
Proof.
  intros Ht Hv (Hext & Hsc & Hty & Htg & H3 & Hl). destruct v as [ctag ctype lang sc ext text].
  cbn [DescriptorComponent_ComponentTag DescriptorComponent_ComponentType DescriptorComponent_ISO639LanguageCode
       DescriptorComponent_StreamContent DescriptorComponent_StreamContentExt DescriptorComponent_Text] in *.
  pose proof (zlen_nonneg text).
  assert (Hs : desc_size d = 6 + zlen text) by (unfold desc_size; rewrite Ht, Hv; reflexivity).
  intros pre body rest' (bi & Ebi & Hbok & ->). rewrite Ht, Hs.
  match type of Hv with _ = Some ?V => assert (bi = enc_component V)
    by (unfold enc_descriptor_body in Ebi; rewrite Ht, Hv in Ebi; inversion Ebi; reflexivity) end. subst bi.
  set (n := 6 + zlen text).
  change (parse_descriptor_body 80 n (zlen pre + n)) with (v0 <- new_descriptor_component (zlen pre + n) ;; iret (set_Component (desc_hdr 80 n) v0)).
  unfold enc_component in *.
  cbn [DescriptorComponent_ComponentTag DescriptorComponent_ComponentType DescriptorComponent_ISO639LanguageCode
       DescriptorComponent_StreamContent DescriptorComponent_StreamContentExt DescriptorComponent_Text] in *.
  change ([WBits 4 ext; WBits 4 sc; wu8 ctype; wu8 ctag] ++ wbytesn lang 3 0 ++ [WBytes text]) with
    ([WBits 4 ext; WBits 4 sc] ++ wu8 ctype :: wu8 ctag :: wbytesn lang 3 0 ++ [WBytes text]) in *.
  apply items_bytes_ok_app_inv in Hbok. destruct Hbok as [_ Hbok]. pose proof Hbok as Hbok2. do 2 apply items_ok_tail in Hbok2.
  destruct (bytes_of_items_code3 lang _ H3 Hbok2) as (Hlang & Htext & E3).
  assert (Htx : bytes_ok text) by (apply items_ok_head_bytes in Htext; exact Htext).
  destruct (bytes_of_items_group1 [WBits 4 ext; WBits 4 sc] (wu8 ctype :: wu8 ctag :: wbytesn lang 3 0 ++ [WBytes text])) as (b0 & -> & B0);
    [iok|exact Hbok|bl; reflexivity|].
  rewrite !bytes_of_items_cons_u8 by (try apply items_ok_tail in Hbok; assumption). rewrite E3.
  rewrite bytes_of_single_bytes by exact Htx. rewrite !Z.mod_small by assumption.
  cbn [app]. rewrite <- !app_assoc.
  unfold new_descriptor_component, ibind. rewrite next_byte_step. rewrite next_byte_step. rewrite next_byte_step.
  rewrite next_bytes_step by (apply zlen_3; exact H3).
  rewrite rest_bytes_step by (rewrite !zlen_app, !zlen_cons, !zlen_nil, (zlen_3 lang H3); unfold n; lia).
  unfold iret, bitsf. rewrite B0. unfold items_bits. cbn [flat_map item_bits].
  rewrite (field_here 4 ext) by exact Hext. rewrite (field_skip 4 ext) by lia. change (4 - 4)%nat with 0%nat.
  rewrite (field_here 4 sc) by exact Hsc.
  eexists. reflexivity.
Qed.

(* ================= AC-3 (EN 300 468 Annex D.3) ================= *)

(* a flag of the first byte, read back from the bits the writer put there *)
Ltac flag_bits B := unfold bitb, bitsf; rewrite B; unfold items_bits; cbn [flat_map item_bits app];
  rewrite ?field_bit_skip, field_bit_here, b2z_eqb; reflexivity.

Definition wf_ac3 (v : DescriptorAC3) : Prop :=
  opt_ok (DescriptorAC3_HasComponentType v) (DescriptorAC3_ComponentType v) /\
  opt_ok (DescriptorAC3_HasBSID v) (DescriptorAC3_BSID v) /\
  opt_ok (DescriptorAC3_HasMainID v) (DescriptorAC3_MainID v) /\
  opt_ok (DescriptorAC3_HasASVC v) (DescriptorAC3_ASVC v) /\
  size_ac3 v < 256.

Lemma brt_ac3 d v :
  Descriptor_Tag d = 106 -> Descriptor_AC3 d = Some v -> wf_ac3 v ->
  body_rt d (set_AC3 (desc_hdr 106 (size_ac3 v)) v).
Proof.
  intros Ht Hv (Oct & Obs & Omi & Oas & Hl).
  assert (Hs : desc_size d = size_ac3 v) by (unfold desc_size; rewrite Ht, Hv; reflexivity).
  intros pre body rest' (bi & Ebi & Hbok & ->). rewrite Ht, Hs.
  assert (bi = enc_ac3 v) by (unfold enc_descriptor_body in Ebi; rewrite Ht, Hv in Ebi; inversion Ebi; reflexivity). subst bi.
  set (n := size_ac3 v) in *.
  change (parse_descriptor_body 106 n (zlen pre + n)) with (v0 <- new_descriptor_ac3 (zlen pre + n) ;; iret (set_AC3 (desc_hdr 106 n) v0)).
  destruct v as [ai asvc bsid ct hasASVC hasBSID hasCT hasMainID mid].
  cbn [DescriptorAC3_AdditionalInfo DescriptorAC3_ASVC DescriptorAC3_BSID DescriptorAC3_ComponentType DescriptorAC3_HasASVC
       DescriptorAC3_HasBSID DescriptorAC3_HasComponentType DescriptorAC3_HasMainID DescriptorAC3_MainID] in *.
  unfold enc_ac3 in *.
  cbn [DescriptorAC3_AdditionalInfo DescriptorAC3_ASVC DescriptorAC3_BSID DescriptorAC3_ComponentType DescriptorAC3_HasASVC
       DescriptorAC3_HasBSID DescriptorAC3_HasComponentType DescriptorAC3_HasMainID DescriptorAC3_MainID] in *.
  set (g0 := [WBool hasCT; WBool hasBSID; WBool hasMainID; WBool hasASVC; WBits 4 255]) in *.
  pose proof Hbok as H1. apply items_bytes_ok_app_inv in H1. destruct H1 as [_ H1].
  pose proof (items_ok_wif _ _ _ H1) as H2. pose proof (items_ok_wif _ _ _ H2) as H3.
  pose proof (items_ok_wif _ _ _ H3) as H4. pose proof (items_ok_wif _ _ _ H4) as H5.
  assert (Hai : bytes_ok ai) by (apply items_ok_head_bytes in H5; exact H5).
  destruct (bytes_of_items_group1 g0 _ ltac:(unfold g0; iok) H1 ltac:(unfold g0; bl; reflexivity)) as (b0 & -> & B0).
  rewrite !bytes_of_items_wif_u8 by (try assumption; first [apply Oct|apply Obs|apply Omi|apply Oas]).
  rewrite bytes_of_single_bytes by exact Hai.
  cbn [app]. rewrite <- !app_assoc.
  assert (F0 : bitb [b0] 0 = hasCT) by (unfold g0 in B0; flag_bits B0).
  assert (F1 : bitb [b0] 1 = hasBSID) by (unfold g0 in B0; flag_bits B0).
  assert (F2 : bitb [b0] 2 = hasMainID) by (unfold g0 in B0; flag_bits B0).
  assert (F3 : bitb [b0] 3 = hasASVC) by (unfold g0 in B0; flag_bits B0).
  unfold new_descriptor_ac3, ibind. rewrite next_byte_step. cbv zeta. rewrite F0, F1, F2, F3.
  rewrite opt_byte_step by exact Oct. rewrite opt_byte_step by exact Obs.
  rewrite opt_byte_step by exact Omi. rewrite opt_byte_step by exact Oas.
  rewrite rest_bytes_step by (rewrite !zlen_app, !zlen_opt_bytes, !zlen_cons, !zlen_nil; unfold n, size_ac3;
    cbn [DescriptorAC3_AdditionalInfo DescriptorAC3_HasASVC DescriptorAC3_HasBSID DescriptorAC3_HasComponentType DescriptorAC3_HasMainID]; ring).
  unfold iret. eexists. reflexivity.
Qed.

(* ================= Enhanced AC-3 (EN 300 468 Annex D.5) ================= *)

Definition wf_enhanced_ac3 (v : DescriptorEnhancedAC3) : Prop :=
  opt_ok (DescriptorEnhancedAC3_HasComponentType v) (DescriptorEnhancedAC3_ComponentType v) /\
  opt_ok (DescriptorEnhancedAC3_HasBSID v) (DescriptorEnhancedAC3_BSID v) /\
  opt_ok (DescriptorEnhancedAC3_HasMainID v) (DescriptorEnhancedAC3_MainID v) /\
  opt_ok (DescriptorEnhancedAC3_HasASVC v) (DescriptorEnhancedAC3_ASVC v) /\
  opt_ok (DescriptorEnhancedAC3_HasSubStream1 v) (DescriptorEnhancedAC3_SubStream1 v) /\
  opt_ok (DescriptorEnhancedAC3_HasSubStream2 v) (DescriptorEnhancedAC3_SubStream2 v) /\
  opt_ok (DescriptorEnhancedAC3_HasSubStream3 v) (DescriptorEnhancedAC3_SubStream3 v) /\
  size_enhanced_ac3 v < 256.

Lemma brt_enhanced_ac3 d v :
  Descriptor_Tag d = 122 -> Descriptor_EnhancedAC3 d = Some v -> wf_enhanced_ac3 v ->
  body_rt d (set_EnhancedAC3 (desc_hdr 122 (size_enhanced_ac3 v)) v).
Proof.
  intros Ht Hv (Oct & Obs & Omi & Oas & O1 & O2 & O3 & Hl).
  assert (Hs : desc_size d = size_enhanced_ac3 v) by (unfold desc_size; rewrite Ht, Hv; reflexivity).
  intros pre body rest' (bi & Ebi & Hbok & ->). rewrite Ht, Hs.
  assert (bi = enc_enhanced_ac3 v) by (unfold enc_descriptor_body in Ebi; rewrite Ht, Hv in Ebi; inversion Ebi; reflexivity). subst bi.
  set (n := size_enhanced_ac3 v) in *.
  change (parse_descriptor_body 122 n (zlen pre + n)) with
    (v0 <- new_descriptor_enhanced_ac3 (zlen pre + n) ;; iret (set_EnhancedAC3 (desc_hdr 122 n) v0)).
  destruct v as [ai asvc bsid ct hasASVC hasBSID hasCT hasMainID has1 has2 has3 mid mix s1 s2 s3].
  cbn [DescriptorEnhancedAC3_AdditionalInfo DescriptorEnhancedAC3_ASVC DescriptorEnhancedAC3_BSID DescriptorEnhancedAC3_ComponentType
       DescriptorEnhancedAC3_HasASVC DescriptorEnhancedAC3_HasBSID DescriptorEnhancedAC3_HasComponentType DescriptorEnhancedAC3_HasMainID
       DescriptorEnhancedAC3_HasSubStream1 DescriptorEnhancedAC3_HasSubStream2 DescriptorEnhancedAC3_HasSubStream3 DescriptorEnhancedAC3_MainID
       DescriptorEnhancedAC3_MixInfoExists DescriptorEnhancedAC3_SubStream1 DescriptorEnhancedAC3_SubStream2 DescriptorEnhancedAC3_SubStream3] in *.
  unfold enc_enhanced_ac3 in *.
  cbn [DescriptorEnhancedAC3_AdditionalInfo DescriptorEnhancedAC3_ASVC DescriptorEnhancedAC3_BSID DescriptorEnhancedAC3_ComponentType
       DescriptorEnhancedAC3_HasASVC DescriptorEnhancedAC3_HasBSID DescriptorEnhancedAC3_HasComponentType DescriptorEnhancedAC3_HasMainID
       DescriptorEnhancedAC3_HasSubStream1 DescriptorEnhancedAC3_HasSubStream2 DescriptorEnhancedAC3_HasSubStream3 DescriptorEnhancedAC3_MainID
       DescriptorEnhancedAC3_MixInfoExists DescriptorEnhancedAC3_SubStream1 DescriptorEnhancedAC3_SubStream2 DescriptorEnhancedAC3_SubStream3] in *.
  set (g0 := [WBool hasCT; WBool hasBSID; WBool hasMainID; WBool hasASVC; WBool mix; WBool has1; WBool has2; WBool has3]) in *.
  pose proof Hbok as H1. apply items_bytes_ok_app_inv in H1. destruct H1 as [_ H1].
  pose proof (items_ok_wif _ _ _ H1) as H2. pose proof (items_ok_wif _ _ _ H2) as H3.
  pose proof (items_ok_wif _ _ _ H3) as H4. pose proof (items_ok_wif _ _ _ H4) as H5.
  pose proof (items_ok_wif _ _ _ H5) as H6. pose proof (items_ok_wif _ _ _ H6) as H7. pose proof (items_ok_wif _ _ _ H7) as H8.
  assert (Hai : bytes_ok ai) by (apply items_ok_head_bytes in H8; exact H8).
  destruct (bytes_of_items_group1 g0 _ ltac:(unfold g0; iok) H1 ltac:(unfold g0; bl; reflexivity)) as (b0 & -> & B0).
  rewrite !bytes_of_items_wif_u8 by (try assumption; first [apply Oct|apply Obs|apply Omi|apply Oas|apply O1|apply O2|apply O3]).
  rewrite bytes_of_single_bytes by exact Hai.
  cbn [app]. rewrite <- !app_assoc.
  assert (F0 : bitb [b0] 0 = hasCT) by (unfold g0 in B0; flag_bits B0).
  assert (F1 : bitb [b0] 1 = hasBSID) by (unfold g0 in B0; flag_bits B0).
  assert (F2 : bitb [b0] 2 = hasMainID) by (unfold g0 in B0; flag_bits B0).
  assert (F3 : bitb [b0] 3 = hasASVC) by (unfold g0 in B0; flag_bits B0).
  assert (F4 : bitb [b0] 4 = mix) by (unfold g0 in B0; flag_bits B0).
  assert (F5 : bitb [b0] 5 = has1) by (unfold g0 in B0; flag_bits B0).
  assert (F6 : bitb [b0] 6 = has2) by (unfold g0 in B0; flag_bits B0).
  assert (F7 : bitb [b0] 7 = has3) by (unfold g0 in B0; flag_bits B0).
  unfold new_descriptor_enhanced_ac3, ibind. rewrite next_byte_step. cbv zeta. rewrite F0, F1, F2, F3, F4, F5, F6, F7.
  rewrite opt_byte_step by exact Oct. rewrite opt_byte_step by exact Obs.
  rewrite opt_byte_step by exact Omi. rewrite opt_byte_step by exact Oas.
  rewrite opt_byte_step by exact O1. rewrite opt_byte_step by exact O2. rewrite opt_byte_step by exact O3.
  rewrite rest_bytes_step by (rewrite !zlen_app, !zlen_opt_bytes, !zlen_cons, !zlen_nil; unfold n, size_enhanced_ac3;
    cbn [DescriptorEnhancedAC3_AdditionalInfo DescriptorEnhancedAC3_HasASVC DescriptorEnhancedAC3_HasBSID DescriptorEnhancedAC3_HasComponentType
         DescriptorEnhancedAC3_HasMainID DescriptorEnhancedAC3_HasSubStream1 DescriptorEnhancedAC3_HasSubStream2 DescriptorEnhancedAC3_HasSubStream3]; ring).
  unfold iret. eexists. reflexivity.
Qed.

(* ================= extension (EN 300 468 6.2.16): supplementary audio (6.4.11) or raw bytes ================= *)

Definition wf_supplementary_audio (s : DescriptorExtensionSupplementaryAudio) : Prop :=
  0 <= DescriptorExtensionSupplementaryAudio_EditorialClassification s < 32 /\
  (if DescriptorExtensionSupplementaryAudio_HasLanguageCode s
   then length (DescriptorExtensionSupplementaryAudio_LanguageCode s) = 3%nat
   else DescriptorExtensionSupplementaryAudio_LanguageCode s = []).

(* extension tag 6 carries the typed body and nothing else; any other extension tag carries its bytes *)
Definition wf_extension (v : DescriptorExtension) : Prop :=
  size_extension v < 256 /\
  ((DescriptorExtension_Tag v = 6 /\ DescriptorExtension_Unknown v = None /\
    exists s, DescriptorExtension_SupplementaryAudio v = Some s /\ wf_supplementary_audio s) \/
   (byte_range (DescriptorExtension_Tag v) /\ DescriptorExtension_Tag v <> 6 /\ DescriptorExtension_SupplementaryAudio v = None /\
    exists bs, DescriptorExtension_Unknown v = Some bs)).

Lemma brt_extension d v :
  Descriptor_Tag d = 127 -> Descriptor_Extension d = Some v -> wf_extension v ->
  body_rt d (set_Extension (desc_hdr 127 (size_extension v)) v).
Proof.
  intros Ht Hv (Hl & Hcase).
  assert (Hs : desc_size d = size_extension v) by (unfold desc_size; rewrite Ht, Hv; reflexivity).
  intros pre body rest' (bi & Ebi & Hbok & ->). rewrite Ht, Hs.
  assert (Eenc : enc_extension v = Ok bi) by (unfold enc_descriptor_body in Ebi; rewrite Ht, Hv in Ebi; exact Ebi). clear Ebi.
  set (n := size_extension v) in *.
  change (parse_descriptor_body 127 n (zlen pre + n)) with
    (v0 <- new_descriptor_extension (zlen pre + n) ;; iret (set_Extension (desc_hdr 127 n) v0)).
  destruct v as [osa tag unk]. cbn [DescriptorExtension_SupplementaryAudio DescriptorExtension_Tag DescriptorExtension_Unknown] in *.
  unfold enc_extension in Eenc. cbn [DescriptorExtension_SupplementaryAudio DescriptorExtension_Tag DescriptorExtension_Unknown] in Eenc.
  unfold C_DescriptorTagExtensionSupplementaryAudio in *.
  destruct Hcase as [(Etag & Eunk & s & Esa & Hec & Hlang)|(Hr & Hne & Esa & bs & Eunk)]; subst.
  - (* supplementary audio *)
    cbn [Z.eqb Pos.eqb dneed res_map] in Eenc. inversion Eenc; subst bi; clear Eenc.
    destruct s as [ec hasLang lang mix pd].
    cbn [DescriptorExtensionSupplementaryAudio_EditorialClassification DescriptorExtensionSupplementaryAudio_HasLanguageCode
         DescriptorExtensionSupplementaryAudio_LanguageCode DescriptorExtensionSupplementaryAudio_MixType
         DescriptorExtensionSupplementaryAudio_PrivateData] in *.
    unfold enc_extension_supplementary_audio in *.
    cbn [DescriptorExtensionSupplementaryAudio_EditorialClassification DescriptorExtensionSupplementaryAudio_HasLanguageCode
         DescriptorExtensionSupplementaryAudio_LanguageCode DescriptorExtensionSupplementaryAudio_MixType
         DescriptorExtensionSupplementaryAudio_PrivateData] in *.
    set (g0 := [WBool mix; WBits 5 ec; WBool true; WBool hasLang]) in *.
    pose proof (items_ok_tail _ _ Hbok) as H1. pose proof H1 as H2. apply items_bytes_ok_app_inv in H2. destruct H2 as [_ H2].
    rewrite bytes_of_items_cons_u8 by exact H1. change (6 mod 256) with 6.
    destruct (bytes_of_items_group1 g0 _ ltac:(unfold g0; iok) H2 ltac:(unfold g0; bl; reflexivity)) as (b0 & -> & B0).
    assert (F7 : bitb [b0] 7 = hasLang).
    { unfold g0 in B0. unfold bitb, bitsf. rewrite B0. unfold items_bits. cbn [flat_map item_bits app bits_of].
      rewrite !field_bit_skip, field_bit_here, b2z_eqb. reflexivity. }
    assert (F0 : bitb [b0] 0 = mix) by (unfold g0 in B0; flag_bits B0).
    assert (Fe : bitsf [b0] 1 5 = ec).
    { unfold g0 in B0. unfold bitsf. rewrite B0. unfold items_bits. cbn [flat_map item_bits app].
      rewrite field_bit_skip. apply field_here. exact Hec. }
    destruct hasLang; cbn [wif app] in *.
    + destruct (bytes_of_items_code3 lang _ Hlang H2) as (Hlg & Hpd & ->).
      assert (Hp : bytes_ok pd) by (apply items_ok_head_bytes in Hpd; exact Hpd).
      rewrite bytes_of_single_bytes by exact Hp. cbn [app]. rewrite <- !app_assoc.
      unfold new_descriptor_extension, ibind, C_DescriptorTagExtensionSupplementaryAudio. rewrite next_byte_step. cbn [Z.eqb Pos.eqb].
      unfold new_descriptor_extension_supplementary_audio, ibind.
      rewrite next_byte_step. cbv zeta. rewrite F7, F0, Fe.
      rewrite next_bytes_step by (apply zlen_3; exact Hlang).
      rewrite rest_bytes_step by (rewrite !zlen_app, !zlen_cons, !zlen_nil, (zlen_3 lang Hlang); unfold n, size_extension, size_supplementary_audio, C_DescriptorTagExtensionSupplementaryAudio;
        cbn [DescriptorExtension_SupplementaryAudio DescriptorExtension_Tag DescriptorExtensionSupplementaryAudio_HasLanguageCode
             DescriptorExtensionSupplementaryAudio_PrivateData Z.eqb Pos.eqb]; ring).
      unfold iret. eexists. reflexivity.
    + subst lang.
      assert (Hp : bytes_ok pd) by (apply items_ok_head_bytes in H2; exact H2).
      rewrite bytes_of_single_bytes by exact Hp. cbn [app].
      unfold new_descriptor_extension, ibind, C_DescriptorTagExtensionSupplementaryAudio. rewrite next_byte_step. cbn [Z.eqb Pos.eqb].
      unfold new_descriptor_extension_supplementary_audio, ibind.
      rewrite next_byte_step. cbv zeta. rewrite F7, F0, Fe. unfold iret at 1.
      rewrite rest_bytes_step by (rewrite !zlen_app, !zlen_cons, !zlen_nil; unfold n, size_extension, size_supplementary_audio, C_DescriptorTagExtensionSupplementaryAudio;
        cbn [DescriptorExtension_SupplementaryAudio DescriptorExtension_Tag DescriptorExtensionSupplementaryAudio_HasLanguageCode
             DescriptorExtensionSupplementaryAudio_PrivateData Z.eqb Pos.eqb]; ring).
      unfold iret. eexists. reflexivity.
  - (* any other extension tag: the bytes as they are *)
    destruct (tag =? 6) eqn:E6; [lia|]. inversion Eenc; subst bi; clear Eenc.
    assert (Hb : bytes_ok bs) by (apply items_ok_tail in Hbok; apply items_ok_head_bytes in Hbok; exact Hbok).
    rewrite bytes_of_items_cons_u8, bytes_of_single_bytes, Z.mod_small by (auto; iok).
    unfold new_descriptor_extension, ibind, C_DescriptorTagExtensionSupplementaryAudio. cbn [app]. rewrite next_byte_step. rewrite E6. unfold ibind.
    rewrite bytes_to_step by (rewrite !zlen_app, !zlen_cons, !zlen_nil; unfold n, size_extension;
      cbn [DescriptorExtension_Tag DescriptorExtension_Unknown]; unfold C_DescriptorTagExtensionSupplementaryAudio; rewrite E6; ring).
    unfold iret. eexists. reflexivity.
Qed.

(* ================= extended event (EN 300 468 6.2.15) ================= *)

Lemma sumZ_bound {A} (f : A -> Z) l B : (forall x, 0 <= f x) -> sumZ f l < B -> Forall (fun x => f x < B) l.
Proof.
  intros Hnn. induction l as [|x l IH]; intros H; [constructor|]. cbn [sumZ fold_right] in H. fold (sumZ f l) in H.
  pose proof (sumZ_nonneg f l Hnn). pose proof (Hnn x). constructor; [lia|apply IH; lia].
Qed.

Lemma size_extended_event_item_nonneg it : 0 <= size_extended_event_item it.
Proof.
  unfold size_extended_event_item. pose proof (zlen_nonneg (DescriptorExtendedEventItem_Description it)).
  pose proof (zlen_nonneg (DescriptorExtendedEventItem_Content it)). lia.
Qed.

Lemma extended_event_item_rt it : size_extended_event_item it < 256 ->
  item_rt new_descriptor_extended_event_item enc_extended_event_item size_extended_event_item it.
Proof.
  intros Hl. destruct it as [content descr]. unfold item_rt, enc_extended_event_item, size_extended_event_item in *.
  cbn [DescriptorExtendedEventItem_Content DescriptorExtendedEventItem_Description] in *.
  pose proof (zlen_nonneg content). pose proof (zlen_nonneg descr).
  intros Hok. split; [bl; lia|]. split; [lia|]. intros pre rest.
  assert (Hd : bytes_ok descr) by (apply items_ok_tail in Hok; apply items_ok_head_bytes in Hok; exact Hok).
  assert (Hc : bytes_ok content) by (do 3 apply items_ok_tail in Hok; apply items_ok_head_bytes in Hok; exact Hok).
  rewrite bytes_of_items_cons_u8, bytes_of_items_cons_bytes, bytes_of_items_cons_u8, bytes_of_single_bytes by iok.
  unfold blen. fold (zlen descr) (zlen content). rewrite !Z.mod_small by lia.
  cbn [app]. rewrite <- !app_assoc. cbn [app].
  unfold new_descriptor_extended_event_item, ibind. rewrite next_byte_step. rewrite next_bytes_step by reflexivity.
  rewrite next_byte_step. rewrite next_bytes_step by reflexivity.
  fin_run. reflexivity.
Qed.

Definition wf_extended_event (v : DescriptorExtendedEvent) : Prop :=
  0 <= DescriptorExtendedEvent_Number v < 16 /\ 0 <= DescriptorExtendedEvent_LastDescriptorNumber v < 16 /\
  length (DescriptorExtendedEvent_ISO639LanguageCode v) = 3%nat /\ size_extended_event v < 256.

Lemma brt_extended_event d v :
  Descriptor_Tag d = 78 -> Descriptor_ExtendedEvent d = Some v -> wf_extended_event v ->
  body_rt d (set_ExtendedEvent (desc_hdr 78 (size_extended_event v)) v).
Proof.
  intros Ht Hv (Hnum & Hlast & H3 & Hl).
  assert (Hs : desc_size d = size_extended_event v) by (unfold desc_size; rewrite Ht, Hv; reflexivity).
  intros pre body rest' (bi & Ebi & Hbok & ->). rewrite Ht, Hs.
  assert (bi = enc_extended_event v) by (unfold enc_descriptor_body in Ebi; rewrite Ht, Hv in Ebi; inversion Ebi; reflexivity). subst bi.
  set (n := size_extended_event v) in *.
  change (parse_descriptor_body 78 n (zlen pre + n)) with
    (v0 <- new_descriptor_extended_event ;; iret (set_ExtendedEvent (desc_hdr 78 n) v0)).
  unfold enc_extended_event in *. rewrite calc_extended_event_size in *. cbn [snd] in *.
  pose proof (sumZ_nonneg size_extended_event_item (DescriptorExtendedEvent_Items v) size_extended_event_item_nonneg) as Hinn.
  pose proof (zlen_nonneg (DescriptorExtendedEvent_Text v)) as Htn.
  assert (Hil : size_extended_event_items v < 256) by (unfold n, size_extended_event in Hl; unfold size_extended_event_items in *; lia).
  rewrite (Z.mod_small (size_extended_event_items v)) in * by (unfold size_extended_event_items in *; lia).
  destruct v as [lang items last num text].
  cbn [DescriptorExtendedEvent_ISO639LanguageCode DescriptorExtendedEvent_Items DescriptorExtendedEvent_LastDescriptorNumber
       DescriptorExtendedEvent_Number DescriptorExtendedEvent_Text] in *.
  unfold size_extended_event_items in *. cbn [DescriptorExtendedEvent_Items] in *.
  set (il := sumZ size_extended_event_item items) in *.
  assert (Hn : n = 6 + il + zlen text) by reflexivity.
  (* the pieces of the item list *)
  apply items_bytes_ok_app_inv in Hbok. destruct Hbok as [_ Hbok].
  destruct (bytes_of_items_code3 lang _ H3 Hbok) as (Hlang & Hrest & E3).
  pose proof Hrest as Hrest2. apply items_ok_tail in Hrest2. apply items_bytes_ok_app_inv in Hrest2. destruct Hrest2 as [Hitems Htail].
  assert (Htx : bytes_ok text) by (apply items_ok_tail in Htail; apply items_ok_head_bytes in Htail; exact Htail).
  assert (HR : Forall (item_rt new_descriptor_extended_event_item enc_extended_event_item size_extended_event_item) items).
  { eapply Forall_impl; [|apply (sumZ_bound size_extended_event_item items 256 size_extended_event_item_nonneg Hil)].
    intros it. apply extended_event_item_rt. }
  assert (Hbl : bitlen (flat_map enc_extended_event_item items) = 8 * il).
  { rewrite (bitlen_flat_map _ (fun it => 8 * size_extended_event_item it)).
    - unfold il. clear. induction items as [|x l IH]; [reflexivity|]. cbn [sumZ fold_right]. unfold sumZ in IH. rewrite IH. lia.
    - intros it. unfold enc_extended_event_item, size_extended_event_item. bl. lia. }
  set (ib := bytes_of_items (flat_map enc_extended_event_item items)) in *.
  assert (Hib : zlen ib = il) by (apply bytes_of_items_zlen; assumption).
  destruct (bytes_of_items_group1 [WBits 4 num; WBits 4 last] _ ltac:(iok) Hbok ltac:(bl; reflexivity)) as (b0 & -> & B0).
  rewrite E3. cbn [app]. rewrite bytes_of_items_cons_u8 by (apply items_ok_tail in Hrest; exact Hrest).
  rewrite (bytes_of_items_app _ _ il) by assumption. fold ib.
  rewrite bytes_of_items_cons_u8, bytes_of_single_bytes by (auto; iok).
  unfold blen. fold (zlen text). rewrite !Z.mod_small by lia.
  flat_app.
  unfold new_descriptor_extended_event, ibind. rewrite next_byte_step. rewrite next_bytes_step by (apply zlen_3; exact H3).
  rewrite next_byte_step. rewrite ioffset_step.
  pose proof (iloop_items new_descriptor_extended_event_item enc_extended_event_item size_extended_event_item items
                (((pre ++ [b0]) ++ lang) ++ [il]) (zlen text :: text ++ rest') HR Hitems) as Hloop.
  cbv zeta in Hloop. fold ib in Hloop. rewrite Hib in Hloop. rewrite Hloop. clear Hloop.
  match goal with |- context [mk_iter (?P ++ ib ++ ?R) (zlen ?P + il)] =>
    replace (zlen P + il) with (zlen (P ++ ib)) by (rewrite (zlen_app P ib); lia); rewrite (app_assoc P ib R) end.
  rewrite next_byte_step. rewrite next_bytes_step by reflexivity.
  unfold iret, bitsf. rewrite B0. unfold items_bits. cbn [flat_map item_bits].
  rewrite (field_here 4 num) by exact Hnum. rewrite (field_skip 4 num) by lia. change (4 - 4)%nat with 0%nat.
  rewrite (field_here 4 last) by exact Hlast.
  eexists. reflexivity.
Qed.

(* ================= VBI data (EN 300 468 6.2.47) ================= *)

Lemma iloop_fuel_next_byte a : forall k pre rest, (length a < k)%nat ->
  iloop_fuel k (zlen pre + zlen a) next_byte (mk_iter (pre ++ a ++ rest) (zlen pre)) =
  Ok (a, mk_iter (pre ++ a ++ rest) (zlen pre + zlen a)).
Proof.
  induction a as [|x a IH]; intros k pre rest Hk.
  - destruct k; [cbn [length] in Hk; lia|]. rewrite zlen_nil, Z.add_0_r. apply iloop_fuel_done. lia.
  - destruct k; [lia|]. pose proof (zlen_nonneg a) as Hnn. rewrite zlen_cons.
    cbn [iloop_fuel]. unfold ibind at 1. rewrite ioffset_step.
    destruct (zlen pre <? zlen pre + (1 + zlen a)) eqn:E; [|lia].
    unfold ibind at 1. cbn [app]. rewrite next_byte_at. unfold ibind at 1.
    replace (pre ++ x :: a ++ rest) with ((pre ++ [x]) ++ a ++ rest) by (rewrite <- app_assoc; reflexivity).
    replace (zlen pre + 1) with (zlen (pre ++ [x])) by (rewrite zlen_app; reflexivity).
    replace (zlen pre + (1 + zlen a)) with (zlen (pre ++ [x]) + zlen a) by (rewrite zlen_app; change (zlen [x]) with 1; lia).
    rewrite IH by (cbn [length] in Hk; lia). reflexivity.
Qed.

Lemma iloop_next_byte a pre rest :
  iloop (zlen pre + zlen a) next_byte (mk_iter (pre ++ a ++ rest) (zlen pre)) =
  Ok (a, mk_iter (pre ++ a ++ rest) (zlen pre + zlen a)).
Proof.
  unfold iloop, ibind. rewrite ioffset_step. apply iloop_fuel_next_byte. unfold zlen. lia.
Qed.

Definition wf_vbi_line (l : DescriptorVBIDataDescriptor) : Prop := 0 <= DescriptorVBIDataDescriptor_LineOffset l < 32.

(* a service of one of the six line-based kinds carries its lines (fewer than 256); any other kind carries none
   (the writer emits one reserved byte for it, the parser skips it) *)
Definition wf_vbi_service (s : DescriptorVBIDataService) : Prop :=
  byte_range (DescriptorVBIDataService_DataServiceID s) /\
  (if spec_is_vbi_line_service (DescriptorVBIDataService_DataServiceID s)
   then Forall wf_vbi_line (DescriptorVBIDataService_Descriptors s) /\ zlen (DescriptorVBIDataService_Descriptors s) < 256
   else DescriptorVBIDataService_Descriptors s = []).

Lemma vbi_lines_bytes descs : Forall wf_vbi_line descs ->
  items_bytes_ok (flat_map enc_vbi_line descs) /\ bitlen (flat_map enc_vbi_line descs) = 8 * zlen descs /\
  exists bs, bytes_of_items (flat_map enc_vbi_line descs) = bs /\ map vbi_line bs = descs /\ zlen bs = zlen descs.
Proof.
  induction 1 as [|l descs Hl _ (IHok & IHb & bs & Ebs & Emap & Elen)].
  - split; [constructor|]. split; [reflexivity|]. exists []. repeat split.
  - cbn [flat_map]. destruct l as [p lo]. unfold wf_vbi_line in Hl. cbn [DescriptorVBIDataDescriptor_LineOffset] in Hl.
    set (g := enc_vbi_line {| DescriptorVBIDataDescriptor_FieldParity := p; DescriptorVBIDataDescriptor_LineOffset := lo |}).
    assert (Eg : g = [WBits 2 255; WBool p; WBits 5 lo]) by reflexivity.
    assert (Hg : items_bytes_ok g) by (rewrite Eg; iok). assert (Hgb : bitlen g = 8) by (rewrite Eg; bl; reflexivity).
    split; [apply items_bytes_ok_app; assumption|]. split; [rewrite bitlen_app, Hgb, IHb, zlen_cons; lia|].
    destruct (bytes_of_items_group1 g _ Hg IHok Hgb) as (b & Eb & B). exists (b :: bs).
    split; [rewrite Eb, Ebs; reflexivity|]. split; [|rewrite !zlen_cons, Elen; reflexivity].
    cbn [map]. rewrite Emap. f_equal. unfold vbi_line, bitb, bitsf. rewrite B, Eg. unfold items_bits. cbn [flat_map item_bits app].
    rewrite !(field_skip 2 255) by lia. change (2 - 2)%nat with 0%nat. change (3 - 2)%nat with 1%nat.
    rewrite field_bit_here, b2z_eqb, field_bit_skip, field_here by exact Hl. reflexivity.
Qed.

Lemma vbi_data_service_rt s : wf_vbi_service s -> item_rt vbi_data_service enc_vbi_data_service size_vbi_data_service s.
Proof.
  intros (Hid & Hcase). destruct s as [id descs].
  cbn [DescriptorVBIDataService_DataServiceID DescriptorVBIDataService_Descriptors] in *.
  unfold item_rt, enc_vbi_data_service, size_vbi_data_service.
  cbn [DescriptorVBIDataService_DataServiceID DescriptorVBIDataService_Descriptors].
  rewrite is_vbi_line_service_spec.
  destruct (spec_is_vbi_line_service id) eqn:Eline.
  - destruct Hcase as [HF Hlen]. pose proof (zlen_nonneg descs) as Hnn.
    destruct (vbi_lines_bytes descs HF) as (Lok & Lb & bs & Ebs & Emap & Elen).
    intros _. split; [rewrite bitlen_cons, (bitlen_cons _ (flat_map _ _)), Lb; unfold wu8; bl; lia|]. split; [lia|].
    intros pre rest.
    rewrite !bytes_of_items_cons_u8 by (try assumption; iok; assumption). rewrite Ebs.
    fold (zlen descs). rewrite !Z.mod_small by (unfold byte_range in *; lia). cbn [app].
    unfold vbi_data_service, ibind. rewrite next_byte_step. rewrite next_byte_step. rewrite ioffset_step.
    rewrite <- Elen. rewrite iloop_next_byte. unfold iret. rewrite is_vbi_line_service_spec, Eline, Emap.
    apply ok_pair_eq; [reflexivity|rewrite <- !app_assoc; reflexivity|rewrite !zlen_app, !zlen_cons, !zlen_nil; lia].
  - subst descs. intros _. split; [unfold wu8; bl; reflexivity|]. split; [lia|]. intros pre rest.
    rewrite !bytes_of_items_cons_u8, bytes_of_items_nil by iok. change (1 mod 256) with 1. change (255 mod 256) with 255.
    rewrite Z.mod_small by exact Hid. cbn [app].
    unfold vbi_data_service, ibind. rewrite next_byte_step. rewrite next_byte_step. rewrite ioffset_step.
    change (255 :: rest) with ([255] ++ rest). change 1 with (zlen [255]) at 2. rewrite iloop_next_byte. unfold iret.
    rewrite is_vbi_line_service_spec, Eline.
    apply ok_pair_eq; [reflexivity|rewrite <- !app_assoc; reflexivity|rewrite !zlen_app, !zlen_cons, !zlen_nil; lia].
Qed.

Lemma brt_vbi_data d v :
  Descriptor_Tag d = 69 -> Descriptor_VBIData d = Some v -> Forall wf_vbi_service (DescriptorVBIData_Services v) ->
  body_rt d (set_VBIData (desc_hdr 69 (size_vbi_data v)) v).
Proof.
  intros Ht Hv HF.
  assert (Hs : desc_size d = size_vbi_data v) by (unfold desc_size; rewrite Ht, Hv; reflexivity).
  apply (flat_map_body_rt vbi_data_service enc_vbi_data_service size_vbi_data_service (DescriptorVBIData_Services v) d _
           (fun items => set_VBIData (desc_hdr 69 (size_vbi_data v)) {| DescriptorVBIData_Services := items |})).
  - eapply Forall_impl; [|exact HF]. intros it. apply vbi_data_service_rt.
  - unfold enc_descriptor_body. rewrite Ht, Hv. reflexivity.
  - intros e i. rewrite Ht, Hs. loop_parser new_descriptor_vbi_data.
  - destruct v. reflexivity.
Qed.

(* ================= one descriptor in a loop ================= *)

Theorem rt_short_event d v out rest :
  Descriptor_Tag d = 77 -> Descriptor_ShortEvent d = Some v -> length (DescriptorShortEvent_Language v) = 3%nat ->
  5 + zlen (DescriptorShortEvent_EventName v) + zlen (DescriptorShortEvent_Text v) < 256 ->
  enc_descriptors_with_length [d] = Ok out -> items_bytes_ok out ->
  parse_descriptors (new_iter (bytes_of_items out ++ rest)) =
    Ok ([set_ShortEvent (desc_hdr 77 (5 + zlen (DescriptorShortEvent_EventName v) + zlen (DescriptorShortEvent_Text v))) v],
        mk_iter (bytes_of_items out ++ rest) (4 + (5 + zlen (DescriptorShortEvent_EventName v) + zlen (DescriptorShortEvent_Text v)))).
Proof.
  intros Ht Hv H3 Hl H Hok.
  assert (Hs : desc_size d = 5 + zlen (DescriptorShortEvent_EventName v) + zlen (DescriptorShortEvent_Text v))
    by (unfold desc_size; rewrite Ht, Hv; reflexivity).
  pose proof (zlen_nonneg (DescriptorShortEvent_EventName v)). pose proof (zlen_nonneg (DescriptorShortEvent_Text v)).
  rewrite <- Hs at 2. apply rt_of_brt; try assumption; [apply brt_short_event; assumption|rewrite Ht; lia|lia].
Qed.

Theorem rt_component d v out rest :
  Descriptor_Tag d = 80 -> Descriptor_Component d = Some v -> wf_component v ->
  enc_descriptors_with_length [d] = Ok out -> items_bytes_ok out ->
  parse_descriptors (new_iter (bytes_of_items out ++ rest)) =
    Ok ([set_Component (desc_hdr 80 (6 + zlen (DescriptorComponent_Text v))) v],
        mk_iter (bytes_of_items out ++ rest) (4 + (6 + zlen (DescriptorComponent_Text v)))).
Proof.
  intros Ht Hv Hwf H Hok.
  assert (Hs : desc_size d = 6 + zlen (DescriptorComponent_Text v)) by (unfold desc_size; rewrite Ht, Hv; reflexivity).
  pose proof (zlen_nonneg (DescriptorComponent_Text v)). pose proof Hwf as (_ & _ & _ & _ & _ & Hl).
  rewrite <- Hs at 2. apply rt_of_brt; try assumption; [apply brt_component; assumption|rewrite Ht; lia|lia].
Qed.

Lemma size_ac3_pos v : 0 < size_ac3 v.
Proof.
  unfold size_ac3. pose proof (zlen_nonneg (DescriptorAC3_AdditionalInfo v)).
  pose proof (b2z_nonneg (DescriptorAC3_HasComponentType v)). pose proof (b2z_nonneg (DescriptorAC3_HasBSID v)).
  pose proof (b2z_nonneg (DescriptorAC3_HasMainID v)). pose proof (b2z_nonneg (DescriptorAC3_HasASVC v)).
  repeat match goal with |- context [Z.b2z ?b] => generalize dependent (Z.b2z b); intros end. lia.
Qed.

Theorem rt_ac3 d v out rest :
  Descriptor_Tag d = 106 -> Descriptor_AC3 d = Some v -> wf_ac3 v ->
  enc_descriptors_with_length [d] = Ok out -> items_bytes_ok out ->
  parse_descriptors (new_iter (bytes_of_items out ++ rest)) =
    Ok ([set_AC3 (desc_hdr 106 (size_ac3 v)) v], mk_iter (bytes_of_items out ++ rest) (4 + size_ac3 v)).
Proof.
  intros Ht Hv Hwf H Hok.
  assert (Hs : desc_size d = size_ac3 v) by (unfold desc_size; rewrite Ht, Hv; reflexivity).
  pose proof (size_ac3_pos v). pose proof Hwf as (_ & _ & _ & _ & Hl).
  rewrite <- Hs at 2. apply rt_of_brt; try assumption; [apply brt_ac3; assumption|rewrite Ht; lia|lia].
Qed.

Lemma size_enhanced_ac3_pos v : 0 < size_enhanced_ac3 v.
Proof.
  unfold size_enhanced_ac3. pose proof (zlen_nonneg (DescriptorEnhancedAC3_AdditionalInfo v)).
  pose proof (b2z_nonneg (DescriptorEnhancedAC3_HasComponentType v)). pose proof (b2z_nonneg (DescriptorEnhancedAC3_HasBSID v)).
  pose proof (b2z_nonneg (DescriptorEnhancedAC3_HasMainID v)). pose proof (b2z_nonneg (DescriptorEnhancedAC3_HasASVC v)).
  pose proof (b2z_nonneg (DescriptorEnhancedAC3_HasSubStream1 v)). pose proof (b2z_nonneg (DescriptorEnhancedAC3_HasSubStream2 v)).
  pose proof (b2z_nonneg (DescriptorEnhancedAC3_HasSubStream3 v)).
  repeat match goal with |- context [Z.b2z ?b] => generalize dependent (Z.b2z b); intros end. lia.
Qed.

Theorem rt_enhanced_ac3 d v out rest :
  Descriptor_Tag d = 122 -> Descriptor_EnhancedAC3 d = Some v -> wf_enhanced_ac3 v ->
  enc_descriptors_with_length [d] = Ok out -> items_bytes_ok out ->
  parse_descriptors (new_iter (bytes_of_items out ++ rest)) =
    Ok ([set_EnhancedAC3 (desc_hdr 122 (size_enhanced_ac3 v)) v], mk_iter (bytes_of_items out ++ rest) (4 + size_enhanced_ac3 v)).
Proof.
  intros Ht Hv Hwf H Hok.
  assert (Hs : desc_size d = size_enhanced_ac3 v) by (unfold desc_size; rewrite Ht, Hv; reflexivity).
  pose proof (size_enhanced_ac3_pos v). pose proof Hwf as (_ & _ & _ & _ & _ & _ & _ & Hl).
  rewrite <- Hs at 2. apply rt_of_brt; try assumption; [apply brt_enhanced_ac3; assumption|rewrite Ht; lia|lia].
Qed.

Lemma size_extension_pos v : 0 < size_extension v.
Proof.
  unfold size_extension, size_supplementary_audio.
  destruct (_ =? _); [destruct (DescriptorExtension_SupplementaryAudio v) as [s|]|destruct (DescriptorExtension_Unknown v) as [bs|]];
    try lia.
  - pose proof (zlen_nonneg (DescriptorExtensionSupplementaryAudio_PrivateData s)).
    destruct (DescriptorExtensionSupplementaryAudio_HasLanguageCode s); lia.
  - pose proof (zlen_nonneg bs). lia.
Qed.

Theorem rt_extension d v out rest :
  Descriptor_Tag d = 127 -> Descriptor_Extension d = Some v -> wf_extension v ->
  enc_descriptors_with_length [d] = Ok out -> items_bytes_ok out ->
  parse_descriptors (new_iter (bytes_of_items out ++ rest)) =
    Ok ([set_Extension (desc_hdr 127 (size_extension v)) v], mk_iter (bytes_of_items out ++ rest) (4 + size_extension v)).
Proof.
  intros Ht Hv Hwf H Hok.
  assert (Hs : desc_size d = size_extension v) by (unfold desc_size; rewrite Ht, Hv; reflexivity).
  pose proof (size_extension_pos v). pose proof Hwf as (Hl & _).
  rewrite <- Hs at 2. apply rt_of_brt; try assumption; [apply brt_extension; assumption|rewrite Ht; lia|lia].
Qed.

Lemma size_extended_event_pos v : 0 < size_extended_event v.
Proof.
  unfold size_extended_event, size_extended_event_items.
  pose proof (sumZ_nonneg size_extended_event_item (DescriptorExtendedEvent_Items v) size_extended_event_item_nonneg).
  pose proof (zlen_nonneg (DescriptorExtendedEvent_Text v)). lia.
Qed.

Theorem rt_extended_event d v out rest :
  Descriptor_Tag d = 78 -> Descriptor_ExtendedEvent d = Some v -> wf_extended_event v ->
  enc_descriptors_with_length [d] = Ok out -> items_bytes_ok out ->
  parse_descriptors (new_iter (bytes_of_items out ++ rest)) =
    Ok ([set_ExtendedEvent (desc_hdr 78 (size_extended_event v)) v], mk_iter (bytes_of_items out ++ rest) (4 + size_extended_event v)).
Proof.
  intros Ht Hv Hwf H Hok.
  assert (Hs : desc_size d = size_extended_event v) by (unfold desc_size; rewrite Ht, Hv; reflexivity).
  pose proof (size_extended_event_pos v). pose proof Hwf as (_ & _ & _ & Hl).
  rewrite <- Hs at 2. apply rt_of_brt; try assumption; [apply brt_extended_event; assumption|rewrite Ht; lia|lia].
Qed.

Theorem rt_vbi_data d v out rest :
  Descriptor_Tag d = 69 -> Descriptor_VBIData d = Some v -> Forall wf_vbi_service (DescriptorVBIData_Services v) ->
  0 < size_vbi_data v < 256 ->
  enc_descriptors_with_length [d] = Ok out -> items_bytes_ok out ->
  parse_descriptors (new_iter (bytes_of_items out ++ rest)) =
    Ok ([set_VBIData (desc_hdr 69 (size_vbi_data v)) v], mk_iter (bytes_of_items out ++ rest) (4 + size_vbi_data v)).
Proof.
  intros Ht Hv Hwf Hl H Hok.
  assert (Hs : desc_size d = size_vbi_data v) by (unfold desc_size; rewrite Ht, Hv; reflexivity).
  rewrite <- Hs at 2. apply rt_of_brt; try assumption; [apply brt_vbi_data; assumption|rewrite Ht; lia|lia].
Qed.
