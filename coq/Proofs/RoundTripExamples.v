(* Concrete histories showing that the hypotheses of the C01 theorems are satisfiable (used by the Examples in
   Props/C01.v): Add 0x101 (H.264); SetPCRPID 0x101; WriteData 0x101 with a PTS and 300 payload bytes (this call emits
   the tables first); a second WriteData of 500 bytes (no tables: the retransmit period is 40). *)
From Coq Require Import ZArith List Lia Bool.
Require Import Base.Bits Base.Iter Base.Wr Gen.Consts Gen.Types Gen.Preds Model.Packet Model.Pes Model.Muxer
  Spec.MuxSpec Spec.PesSpec Spec.PacketSpec Proofs.MuxerProofs Proofs.RoundTripPkt Proofs.RoundTripUnit Proofs.RoundTripL1.
Import ListNotations.
Open Scope Z_scope.

Definition rt_es : PMTElementaryStream :=
  {| PMTElementaryStream_ElementaryPID := 257;
     PMTElementaryStream_ElementaryStreamDescriptors := [];
     PMTElementaryStream_StreamType := C_StreamTypeH264Video |}.

Definition rt_opt (pts : Z) : PESOptionalHeader := {|
  PESOptionalHeader_AdditionalCopyInfo := 0;
  PESOptionalHeader_CRC := 0;
  PESOptionalHeader_DataAlignmentIndicator := true;
  PESOptionalHeader_DSMTrickMode := None;
  PESOptionalHeader_DTS := None;
  PESOptionalHeader_ESCR := None;
  PESOptionalHeader_ESRate := 0;
  PESOptionalHeader_Extension2Data := [];
  PESOptionalHeader_Extension2Length := 0;
  PESOptionalHeader_HasAdditionalCopyInfo := false;
  PESOptionalHeader_HasCRC := false;
  PESOptionalHeader_HasDSMTrickMode := false;
  PESOptionalHeader_HasESCR := false;
  PESOptionalHeader_HasESRate := false;
  PESOptionalHeader_HasExtension := false;
  PESOptionalHeader_HasExtension2 := false;
  PESOptionalHeader_HasOptionalFields := false;
  PESOptionalHeader_HasPackHeaderField := false;
  PESOptionalHeader_HasPrivateData := false;
  PESOptionalHeader_HasProgramPacketSequenceCounter := false;
  PESOptionalHeader_HasPSTDBuffer := false;
  PESOptionalHeader_HeaderLength := 0;
  PESOptionalHeader_IsCopyrighted := false;
  PESOptionalHeader_IsOriginal := true;
  PESOptionalHeader_MarkerBits := 2;
  PESOptionalHeader_MPEG1OrMPEG2ID := 0;
  PESOptionalHeader_OriginalStuffingLength := 0;
  PESOptionalHeader_PacketSequenceCounter := 0;
  PESOptionalHeader_PackField := 0;
  PESOptionalHeader_Priority := false;
  PESOptionalHeader_PrivateData := [];
  PESOptionalHeader_PSTDBufferScale := 0;
  PESOptionalHeader_PSTDBufferSize := 0;
  PESOptionalHeader_PTS := Some (cr pts 0);
  PESOptionalHeader_PTSDTSIndicator := 2;
  PESOptionalHeader_ScramblingControl := 0
|}.

Definition rt_h0 (pts : Z) : PESHeader :=
  {| PESHeader_OptionalHeader := Some (rt_opt pts); PESHeader_PacketLength := 0; PESHeader_StreamID := 0 |}.

Definition rt_payload (n : nat) : list Z := map (fun k => Z.of_nat k mod 251) (seq 0 n).

Definition rt_data (pts : Z) (n : nat) : MuxerData :=
  {| MuxerData_PID := 257;
     MuxerData_AdaptationField := None;
     MuxerData_PES := Some {| PESData_Data := rt_payload n; PESData_Header := Some (rt_h0 pts) |} |}.

Definition rt_ops : list mop := [MAdd rt_es; MSetPCR 257; MWriteData (rt_data 90000 300)].

Definition rt_state : mstate := fst (mux_run_parts (new_muxer 40) rt_ops).
Definition rt_ctx : esctx := match es_find 257 (ms_es rt_state) with Some c => c | None => new_es_context rt_es end.

Lemma rt_opt_wf pts : 0 <= pts < 2 ^ 33 -> wf_opt (rt_opt pts).
Proof.
  intros H. constructor; cbn; try lia; try reflexivity; try (split; reflexivity); try (repeat split; reflexivity).
  - exists pts. split; [exact H|reflexivity].
Qed.

Lemma rt_payload_ok n : bytes_ok (rt_payload n).
Proof.
  unfold rt_payload, bytes_ok. apply Forall_forall. intros b Hb. apply in_map_iff in Hb. destruct Hb as (k & <- & _).
  unfold byte_ok. pose proof (Z.mod_pos_bound (Z.of_nat k) 251 ltac:(lia)). lia.
Qed.

Lemma rt_state_inv : ms_inv rt_state.
Proof.
  unfold rt_state. apply run_inv.
  - apply new_muxer_inv.
  - vm_compute. repeat constructor; discriminate.
  - repeat constructor.
Qed.

Lemma rt_domain : data_in_domain rt_state (rt_data 93600 500) rt_ctx (rt_h0 93600) (rt_payload 500).
Proof.
  constructor.
  - unfold es_pid. cbn. unfold C_pmtStartPID. lia.
  - exact I.
  - exact I.
  - vm_compute. reflexivity.
  - eexists. split; [reflexivity|]. split; reflexivity.
  - split; [discriminate|apply rt_payload_ok].
  - assert (E : filled_header (rt_h0 93600) (ec_es rt_ctx) =
               {| PESHeader_OptionalHeader := Some (rt_opt 93600); PESHeader_PacketLength := 0; PESHeader_StreamID := 224 |})
      by (vm_compute; reflexivity).
    rewrite E. split; [cbn; lia|]. intros _. exists (rt_opt 93600). split; [reflexivity|apply rt_opt_wf; lia].
Qed.

(* ---------------- a whole history (for C01_roundtrip_nodesc) ---------------- *)
Require Import Proofs.PsiSiLink Proofs.RoundTripTables Proofs.RoundTripMux Proofs.RoundTripRun.

Definition rt_hist : list mop :=
  [MAdd rt_es; MSetPCR 257; MWriteData (rt_data 90000 300); MWriteData (rt_data 93600 500); MWriteTables].

Lemma rt_domain_gen s pts n ctx : es_find 257 (ms_es s) = Some ctx -> ec_es ctx = rt_es -> 0 <= pts < 2 ^ 33 -> n <> O ->
  data_in_domain s (rt_data pts n) ctx (rt_h0 pts) (rt_payload n).
Proof.
  intros Hf He Hp Hn. constructor.
  - unfold es_pid. cbn. unfold C_pmtStartPID. lia.
  - exact I.
  - exact I.
  - exact Hf.
  - eexists. split; [reflexivity|]. split; reflexivity.
  - split; [destruct n; [congruence|discriminate]|apply rt_payload_ok].
  - rewrite He.
    assert (E : filled_header (rt_h0 pts) rt_es =
               {| PESHeader_OptionalHeader := Some (rt_opt pts); PESHeader_PacketLength := 0; PESHeader_StreamID := 224 |}) by reflexivity.
    rewrite E. split; [cbn; lia|]. intros _. exists (rt_opt pts). split; [reflexivity|apply rt_opt_wf; exact Hp].
Qed.

Lemma rt_streams_dom s : ms_streams s = [rt_es] -> streams_dom no_desc16 s.
Proof.
  intros E. unfold streams_dom. rewrite E. constructor; [|constructor]. split.
  - unfold stream_in_dom, rt_es, spid. split; [cbn; unfold C_StreamTypeH264Video; lia|]. split; [cbn; lia|]. exists []. split; reflexivity.
  - unfold es_pid, rt_es, spid. cbn. unfold C_pmtStartPID. lia.
Qed.

(* the states and parts of the run *)
Definition rt_o3 : mop := MWriteData (rt_data 90000 300).
Definition rt_o4 : mop := MWriteData (rt_data 93600 500).
Definition rt_s1 : mstate := fst (mux_step_part (new_muxer 40) (MAdd rt_es)).
Definition rt_s2 : mstate := fst (mux_step_part rt_s1 (MSetPCR 257)).
Definition rt_s3 : mstate := fst (mux_step_part rt_s2 rt_o3).
Definition rt_s4 : mstate := fst (mux_step_part rt_s3 rt_o4).
Definition rt_s5 : mstate := fst (mux_step_part rt_s4 MWriteTables).

Lemma rt_ctx_of s : option_map ec_es (es_find 257 (ms_es s)) = Some rt_es ->
  exists ctx, es_find 257 (ms_es s) = Some ctx /\ ec_es ctx = rt_es.
Proof. destruct (es_find 257 (ms_es s)) as [ctx|]; [|discriminate]. cbn. intros H. exists ctx. split; [reflexivity|congruence]. Qed.

Lemma rt_history_ok : history_ok no_desc16 (new_muxer 40) rt_hist.
Proof.
  unfold rt_hist. cbn [history_ok]. fold rt_s1. fold rt_s2. fold rt_o3 rt_o4. fold rt_s3. fold rt_s4. fold rt_s5.
  assert (St : ms_streams rt_s1 = [rt_es] /\ ms_streams rt_s2 = [rt_es] /\ ms_streams rt_s3 = [rt_es] /\
               ms_streams rt_s4 = [rt_es] /\ ms_streams rt_s5 = [rt_es]) by (vm_compute; repeat split; reflexivity).
  destruct St as (S1 & S2 & S3 & S4 & S5).
  assert (Rs : pa_res (snd (mux_step_part (new_muxer 40) (MAdd rt_es))) = Ok tt /\
               pa_res (snd (mux_step_part rt_s1 (MSetPCR 257))) = Ok tt /\
               pa_res (snd (mux_step_part rt_s2 rt_o3)) = Ok tt /\ pa_res (snd (mux_step_part rt_s3 rt_o4)) = Ok tt /\
               pa_res (snd (mux_step_part rt_s4 MWriteTables)) = Ok tt) by (vm_compute; repeat split; reflexivity).
  destruct Rs as (R1 & R2 & R3 & R4 & R5).
  destruct (rt_ctx_of rt_s2 ltac:(vm_compute; reflexivity)) as (c2 & F2 & E2).
  destruct (rt_ctx_of rt_s3 ltac:(vm_compute; reflexivity)) as (c3 & F3 & E3).
  split; [split; [rewrite R1; discriminate|split; [apply rt_streams_dom, S1|exact I]]|].
  split; [split; [rewrite R2; discriminate|split; [apply rt_streams_dom, S2|exact I]]|].
  split; [split; [rewrite R3; discriminate|split; [apply rt_streams_dom, S3|]]|].
  { split; [exact I|]. left. split; [exact R3|]. exists c2, (rt_h0 90000), (rt_payload 300).
    apply rt_domain_gen; [exact F2|exact E2|lia|discriminate]. }
  split; [split; [rewrite R4; discriminate|split; [apply rt_streams_dom, S4|]]|].
  { split; [exact I|]. left. split; [exact R4|]. exists c3, (rt_h0 93600), (rt_payload 500).
    apply rt_domain_gen; [exact F3|exact E3|lia|discriminate]. }
  split; [split; [rewrite R5; discriminate|split; [apply rt_streams_dom, S5|exact I]]|exact I].
Qed.

(* what comes out: PAT, PMT; the first PES when the second starts; PAT, PMT of the explicit WriteTables; the second
   PES at end of stream *)
Lemma rt_expect_shape :
  map DemuxerData_PID (expect (new_muxer 40) [] rt_hist) = [0; 4096; 257; 0; 4096; 257] /\
  map (fun d => match DemuxerData_PES d with Some pes => length (PESData_Data pes) | None => O end)
      (expect (new_muxer 40) [] rt_hist) = [0; 0; 300; 0; 0; 500]%nat.
Proof. vm_compute. split; reflexivity. Qed.
