(* Concrete histories showing that the hypotheses of the C01 theorems are satisfiable (used by the Examples in
   Props/C01.v): Add 0x101 (H.264); SetPCRPID 0x101; WriteData 0x101 with a PTS and 300 payload bytes (this call emits
   the tables first); a second WriteData of 500 bytes (no tables: the retransmit period is 40). *)
From Coq Require Import ZArith List Lia Bool.
Require Import Base.Bits Base.Iter Base.Wr Gen.Consts Gen.Types Gen.Preds Model.Packet Model.Pes Model.Muxer
  Spec.MuxSpec Spec.PesSpec Spec.PacketSpec Proofs.MuxerProofs Proofs.RoundTripPkt Proofs.RoundTripUnit Proofs.RoundTripL1.
Import ListNotations.
Open Scope Z_scope.

Definition rt_es : PMTElementaryStream :=
  {| PMTElementaryStream_ElementaryPID := 257;
     PMTElementaryStream_ElementaryStreamDescriptors := [];
     PMTElementaryStream_StreamType := C_StreamTypeH264Video |}.

Definition rt_opt (pts : Z) : PESOptionalHeader := {|
  PESOptionalHeader_AdditionalCopyInfo := 0;
  PESOptionalHeader_CRC := 0;
  PESOptionalHeader_DataAlignmentIndicator := true;
  PESOptionalHeader_DSMTrickMode := None;
  PESOptionalHeader_DTS := None;
  PESOptionalHeader_ESCR := None;
  PESOptionalHeader_ESRate := 0;
  PESOptionalHeader_Extension2Data := [];
  PESOptionalHeader_Extension2Length := 0;
  PESOptionalHeader_HasAdditionalCopyInfo := false;
  PESOptionalHeader_HasCRC := false;
  PESOptionalHeader_HasDSMTrickMode := false;
  PESOptionalHeader_HasESCR := false;
  PESOptionalHeader_HasESRate := false;
  PESOptionalHeader_HasExtension := false;
  PESOptionalHeader_HasExtension2 := false;
  PESOptionalHeader_HasOptionalFields := false;
  PESOptionalHeader_HasPackHeaderField := false;
  PESOptionalHeader_HasPrivateData := false;
  PESOptionalHeader_HasProgramPacketSequenceCounter := false;
  PESOptionalHeader_HasPSTDBuffer := false;
  PESOptionalHeader_HeaderLength := 0;
  PESOptionalHeader_IsCopyrighted := false;
  PESOptionalHeader_IsOriginal := true;
  PESOptionalHeader_MarkerBits := 2;
  PESOptionalHeader_MPEG1OrMPEG2ID := 0;
  PESOptionalHeader_OriginalStuffingLength := 0;
  PESOptionalHeader_PacketSequenceCounter := 0;
  PESOptionalHeader_PackField := 0;
  PESOptionalHeader_Priority := false;
  PESOptionalHeader_PrivateData := [];
  PESOptionalHeader_PSTDBufferScale := 0;
  PESOptionalHeader_PSTDBufferSize := 0;
  PESOptionalHeader_PTS := Some (cr pts 0);
  PESOptionalHeader_PTSDTSIndicator := 2;
  PESOptionalHeader_ScramblingControl := 0
|}.

Definition rt_h0 (pts : Z) : PESHeader :=
  {| PESHeader_OptionalHeader := Some (rt_opt pts); PESHeader_PacketLength := 0; PESHeader_StreamID := 0 |}.

Definition rt_payload (n : nat) : list Z := map (fun k => Z.of_nat k mod 251) (seq 0 n).

Definition rt_data (pts : Z) (n : nat) : MuxerData :=
  {| MuxerData_PID := 257;
     MuxerData_AdaptationField := None;
     MuxerData_PES := Some {| PESData_Data := rt_payload n; PESData_Header := Some (rt_h0 pts) |} |}.

Definition rt_ops : list mop := [MAdd rt_es; MSetPCR 257; MWriteData (rt_data 90000 300)].

Definition rt_state : mstate := fst (mux_run_parts (new_muxer 40) rt_ops).
Definition rt_ctx : esctx := match es_find 257 (ms_es rt_state) with Some c => c | None => new_es_context rt_es end.

Lemma rt_opt_wf pts : 0 <= pts < 2 ^ 33 -> wf_opt (rt_opt pts).
Proof.
  intros H. constructor; cbn; try lia; try reflexivity; try (split; reflexivity); try (repeat split; reflexivity).
  - exists pts. split; [exact H|reflexivity].
Qed.

Lemma rt_payload_ok n : bytes_ok (rt_payload n).
Proof.
  unfold rt_payload, bytes_ok. apply Forall_forall. intros b Hb. apply in_map_iff in Hb. destruct Hb as (k & <- & _).
  unfold byte_ok. pose proof (Z.mod_pos_bound (Z.of_nat k) 251 ltac:(lia)). lia.
Qed.

Lemma rt_state_inv : ms_inv rt_state.
Proof.
  unfold rt_state. apply run_inv.
  - apply new_muxer_inv.
  - vm_compute. repeat constructor; discriminate.
  - repeat constructor.
Qed.

Lemma rt_domain : data_in_domain rt_state (rt_data 93600 500) rt_ctx (rt_h0 93600) (rt_payload 500).
Proof.
  constructor.
  - unfold es_pid. cbn. unfold C_pmtStartPID. lia.
  - exact I.
  - exact I.
  - vm_compute. reflexivity.
  - eexists. split; [reflexivity|]. split; reflexivity.
  - split; [discriminate|apply rt_payload_ok].
  - assert (E : filled_header (rt_h0 93600) (ec_es rt_ctx) =
               {| PESHeader_OptionalHeader := Some (rt_opt 93600); PESHeader_PacketLength := 0; PESHeader_StreamID := 224 |})
      by (vm_compute; reflexivity).
    rewrite E. split; [cbn; lia|]. intros _. exists (rt_opt 93600). split; [reflexivity|apply rt_opt_wf; lia].
Qed.
