(* Lemmas for property C11, part 3: parsePacket (writePacket p) = observed p for every conformant packet p:
   sync byte, header, adaptation field (Proofs/PacketProofs.v), payload offset and payload. *)
From Coq Require Import ZArith List Lia Bool ZifyBool.
Require Import Base.Bits Base.Iter Base.Wr Gen.Consts Gen.Types Gen.Preds Model.Clock Model.Packet
  Spec.PesSpec Spec.PacketSpec Proofs.ClockProofs Proofs.PesRoundTrip Proofs.PacketProofs.
Import ListNotations.
Open Scope Z_scope.

(* ---------------- the adaptation field in either form ---------------- *)

Definition af_items (af : PacketAdaptationField) : list witem :=
  if PacketAdaptationField_IsOneByteStuffing af then [wu8 0] else af_body_items af.

Lemma af_len_range af : wf_af af -> 0 <= ref_af_length af.
Proof.
  unfold wf_af, ref_af_length. destruct (PacketAdaptationField_IsOneByteStuffing af) eqn:NS; intros W; [lia|].
  pose proof (af_len_split af NS) as S. unfold ref_af_length in S. rewrite NS in S. rewrite S.
  destruct (af_part_lens_nonneg af W) as (N1 & N2 & N3 & N4 & N5). pose proof (wfa_stuff af W). lia.
Qed.

Lemma enc_af_any af : wf_af af -> enc_adaptation_field af = Ok (af_items af, 1 + ref_af_length af).
Proof.
  unfold wf_af, af_items. destruct (PacketAdaptationField_IsOneByteStuffing af) eqn:NS; intros W.
  - unfold enc_adaptation_field, ref_af_length. rewrite NS. reflexivity.
  - apply (enc_af_ok af W NS).
Qed.

Lemma af_items_aligned af : wf_af af -> aligned (af_items af) (Z.to_nat (1 + ref_af_length af)).
Proof.
  unfold wf_af, af_items. destruct (PacketAdaptationField_IsOneByteStuffing af) eqn:NS; intros W.
  - unfold ref_af_length. rewrite NS. apply wu8_aligned.
  - apply (af_body_aligned af W NS).
Qed.

(* the regenerated packetAdaptationFieldSize is the length byte plus adaptation_field_length *)
Lemma af_size_eq af : wf_af af -> packetAdaptationFieldSize af = 1 + ref_af_length af.
Proof.
  unfold wf_af, packetAdaptationFieldSize. destruct (PacketAdaptationField_IsOneByteStuffing af) eqn:NS; intros W.
  - unfold ref_af_length. rewrite NS. reflexivity.
  - rewrite (af_len_split af NS). pose proof (wf_ext_of_af af W) as X.
    unfold n_pcr, n_opcr, n_sc, n_tpd, n_ext, pcr_len, sc_len, tpd_len, ext_len, wf_ext_opt, C_pcrBytesSize in *.
    destruct (PacketAdaptationField_HasAdaptationExtensionField af).
    + destruct X as (e & EX & We). rewrite EX. cbn [odflt]. rewrite (calc_afe_eq e).
      destruct (PacketAdaptationField_HasPCR af), (PacketAdaptationField_HasOPCR af),
        (PacketAdaptationField_HasSplicingCountdown af), (PacketAdaptationField_HasTransportPrivateData af); cbv zeta; lia.
    + destruct (PacketAdaptationField_HasPCR af), (PacketAdaptationField_HasOPCR af),
        (PacketAdaptationField_HasSplicingCountdown af), (PacketAdaptationField_HasTransportPrivateData af); cbv zeta; lia.
Qed.

Lemma observed_one_byte af : PacketAdaptationField_IsOneByteStuffing af = true -> af_rest_zero af ->
  observed_af af =
  {| PacketAdaptationField_AdaptationExtensionField := None;
     PacketAdaptationField_OPCR := None;
     PacketAdaptationField_PCR := None;
     PacketAdaptationField_TransportPrivateData := [];
     PacketAdaptationField_TransportPrivateDataLength := 0;
     PacketAdaptationField_Length := 0;
     PacketAdaptationField_StuffingLength := 0;
     PacketAdaptationField_SpliceCountdown := 0;
     PacketAdaptationField_IsOneByteStuffing := true;
     PacketAdaptationField_RandomAccessIndicator := false;
     PacketAdaptationField_DiscontinuityIndicator := false;
     PacketAdaptationField_ElementaryStreamPriorityIndicator := false;
     PacketAdaptationField_HasAdaptationExtensionField := false;
     PacketAdaptationField_HasOPCR := false;
     PacketAdaptationField_HasPCR := false;
     PacketAdaptationField_HasTransportPrivateData := false;
     PacketAdaptationField_HasSplicingCountdown := false |}.
Proof.
  intros NS Z. unfold observed_af, ref_af_length. rewrite NS.
  destruct Z as (-> & -> & -> & -> & -> & -> & -> & -> & -> & -> & -> & -> & -> & ->). reflexivity.
Qed.

(* parsePacketAdaptationField on what writePacketAdaptationField emitted; the iterator is left somewhere
   inside the field (in front of the stuffing), parsePacket seeks to the payload afterwards *)
Lemma parse_af_any af bs k : wf_af af -> ref_af_length af <= 255 ->
  located bs k (bytes_of_items (af_items af)) ->
  exists k', parse_packet_adaptation_field (mk_iter bs k) = Ok (observed_af af, mk_iter bs k').
Proof.
  unfold wf_af, af_items. destruct (PacketAdaptationField_IsOneByteStuffing af) eqn:NS; intros W Hle Hl.
  - rewrite wu8_bytes in Hl. change (0 mod 256) with 0 in Hl.
    unfold parse_packet_adaptation_field.
    erewrite ibind_ok by (apply (next_byte_located bs k 0 Hl)).
    erewrite ibind_ok by reflexivity. change (0 >? 0) with false. cbv iota.
    rewrite (observed_one_byte af NS W). eexists. reflexivity.
  - eexists. apply (parse_af_located af W NS bs k Hle Hl).
Qed.

(* ---------------- the whole packet ---------------- *)

Definition af_opt_items (p : Packet) : list witem :=
  if PacketHeader_HasAdaptationField (Packet_Header p)
  then match Packet_AdaptationField p with Some af => af_items af | None => [] end else [].
Definition payload_items (p : Packet) : list witem :=
  if PacketHeader_HasPayload (Packet_Header p) then [WBytes (Packet_Payload p)] else [].

(* what writePacket hands to the BitsWriter for a conformant packet: no padding behind the payload *)
Definition packet_items (p : Packet) : list witem :=
  [wu8 syncByte] ++ enc_packet_header (Packet_Header p) ++ af_opt_items p ++ payload_items p.

Lemma af_opt_aligned p : wf_packet p -> aligned (af_opt_items p) (Z.to_nat (ref_af_size (Packet_AdaptationField p))).
Proof.
  intros W. pose proof (wfp_af p W) as A. unfold af_opt_items.
  destruct (PacketHeader_HasAdaptationField (Packet_Header p)).
  - destruct A as (af & -> & Wa). cbn [ref_af_size]. apply (af_items_aligned af Wa).
  - rewrite A. apply aligned_nil.
Qed.

Lemma af_size_range p : wf_packet p -> 0 <= ref_af_size (Packet_AdaptationField p) <= 184.
Proof.
  intros W. pose proof (wfp_af p W) as A. pose proof (wfp_size p W) as S.
  destruct (PacketHeader_HasAdaptationField (Packet_Header p)).
  - destruct A as (af & EA & Wa). rewrite EA in *. cbn [ref_af_size] in *. pose proof (af_len_range af Wa). lia.
  - rewrite A in *. cbn [ref_af_size] in *. lia.
Qed.

Lemma payload_aligned p : wf_packet p -> aligned (payload_items p) (length (Packet_Payload p)).
Proof.
  intros W. pose proof (wfp_payload p W) as P. unfold payload_items.
  destruct (PacketHeader_HasPayload (Packet_Header p)).
  - apply wbytes_aligned. exact P.
  - rewrite P. apply aligned_nil.
Qed.

Lemma payload_bytes p : wf_packet p -> bytes_of_items (payload_items p) = Packet_Payload p.
Proof.
  intros W. pose proof (wfp_payload p W) as P. unfold payload_items.
  destruct (PacketHeader_HasPayload (Packet_Header p)).
  - apply wbytes_bytes. exact P.
  - rewrite P. reflexivity.
Qed.

Lemma enc_packet_ok p : wf_packet p -> enc_packet p 188 = Ok (packet_items p).
Proof.
  intros W. pose proof (wfp_af p W) as A. pose proof (wfp_size p W) as S. pose proof (wfp_payload p W) as P.
  unfold enc_packet, packet_items, af_opt_items, payload_items, C_mpegTsPacketHeaderSize.
  set (plen := Z.of_nat (length (Packet_Payload p))) in *.
  destruct (PacketHeader_HasAdaptationField (Packet_Header p)).
  - destruct A as (af & EA & Wa). rewrite EA in *. cbn [need res_bind ref_af_size] in *.
    assert (Hst : PacketAdaptationField_StuffingLength af <? 0 = false).
    { unfold wf_af in Wa. destruct (PacketAdaptationField_IsOneByteStuffing af).
      - destruct Wa as (_ & _ & _ & _ & -> & _). reflexivity.
      - pose proof (wfa_stuff af Wa). lia. }
    rewrite Hst, (af_size_eq af Wa). cbn [res_bind].
    destruct (188 - 1 - 3 - (1 + ref_af_length af) <? plen) eqn:E1; [lia|].
    rewrite (enc_af_any af Wa). cbn [res_bind].
    destruct (188 - (1 + 3 + (1 + ref_af_length af)) <? plen) eqn:E2; [lia|].
    destruct (PacketHeader_HasPayload (Packet_Header p)).
    + replace (188 - (1 + 3 + (1 + ref_af_length af) + plen)) with 0 by lia. reflexivity.
    + subst plen. rewrite P in *. cbn [length Z.of_nat] in *.
      replace (188 - (1 + 3 + (1 + ref_af_length af))) with 0 by lia. reflexivity.
  - rewrite A in *. cbn [res_bind ref_af_size] in *.
    destruct (188 - 1 - 3 <? plen) eqn:E1; [lia|]. cbn [res_bind].
    destruct (188 - (1 + 3 + 0) <? plen) eqn:E2; [lia|].
    destruct (PacketHeader_HasPayload (Packet_Header p)).
    + replace (188 - (1 + 3 + 0 + plen)) with 0 by lia. reflexivity.
    + subst plen. rewrite P in *. cbn [length Z.of_nat] in *. lia.
Qed.

Lemma skipn_located bs k a : located bs k a -> Z.of_nat (length bs) = k + Z.of_nat (length a) ->
  skipn (Z.to_nat k) bs = a.
Proof.
  intros (pre & rest & -> & ->) H. rewrite !app_length in H.
  assert (rest = []) as -> by (destruct rest; [reflexivity | cbn [length] in H; lia]).
  rewrite Nat2Z.id, app_nil_r, skipn_app, skipn_all, Nat.sub_diag. reflexivity.
Qed.

Theorem parse_write_packet p : wf_packet p ->
  exists bs, write_packet p 188 = Ok bs /\ length bs = 188%nat /\ parse_packet_bytes bs = Ok (observed p).
Proof.
  intros W. unfold write_packet. rewrite (enc_packet_ok p W). cbn [res_map].
  eexists. split; [reflexivity|].
  pose proof (wfp_af p W) as A. pose proof (wfp_size p W) as S. pose proof (wfp_payload p W) as P.
  pose proof (af_size_range p W) as R.
  pose proof (af_opt_aligned p W) as A2. pose proof (payload_aligned p W) as A3.
  pose proof (header_aligned (Packet_Header p)) as A1.
  set (bs := bytes_of_items (packet_items p)).
  assert (Hal : aligned (packet_items p) 188).
  { unfold packet_items.
    replace 188%nat with (1 + (3 + (Z.to_nat (ref_af_size (Packet_AdaptationField p)) + length (Packet_Payload p))))%nat by lia.
    repeat apply aligned_app; [apply wu8_aligned | apply A1 | apply A2 | apply A3]. }
  destruct (aligned_bytes _ _ Hal) as [Hlen _]. fold bs in Hlen. split; [exact Hlen|].
  assert (Hl : located bs 0 (bytes_of_items (packet_items p))).
  { exists [], []. split; [|reflexivity]. cbn [app]. rewrite app_nil_r. reflexivity. }
  unfold packet_items in Hl.
  apply (located_items bs 0 _ _ 1 (wu8_aligned _)) in Hl; [|repeat apply items_bytes_ok_app; [apply A1|apply A2|apply A3]].
  destruct Hl as [L0 Hl].
  apply (located_items bs _ _ _ 3 A1) in Hl; [|repeat apply items_bytes_ok_app; [apply A2|apply A3]].
  destruct Hl as [L1 Hl].
  apply (located_items bs _ _ _ _ A2) in Hl; [|apply A3].
  destruct Hl as [L2 L3].
  rewrite Z2Nat.id in L3 by lia. rewrite (payload_bytes p W) in L3.
  change (0 + Z.of_nat 1) with 1 in *. change (1 + Z.of_nat 3) with 4 in *.
  rewrite wu8_bytes in L0. change (syncByte mod 256) with 71 in L0.
  unfold parse_packet_bytes, run_iter, parse_packet.
  (* sync byte, seek, header *)
  assert (Hhead : exists k', parse_packet_head (new_iter bs) =
            Ok (({| Packet_AdaptationField := option_map observed_af (Packet_AdaptationField p);
                     Packet_Header := Packet_Header p; Packet_Payload := [] |}, 1), mk_iter bs k')).
  { unfold parse_packet_head, new_iter.
    erewrite ibind_ok by (apply (next_byte_located bs 0 71 L0)).
    change (negb (71 =? syncByte)) with false. cbv iota.
    erewrite ibind_ok by reflexivity. unfold ilen. cbn [ibs]. rewrite Hlen.
    unfold iseek at 1. erewrite ibind_ok by reflexivity. cbn [ibs].
    change (Z.of_nat 188 - C_MpegTsPacketSize + 1) with 1.
    erewrite ibind_ok by reflexivity. cbn [ioff].
    erewrite ibind_ok by (apply (header_located _ bs 1 (wfp_header p W) L1)).
    change (1 + 3) with 4. unfold af_opt_items in L2.
    destruct (PacketHeader_HasAdaptationField (Packet_Header p)).
    - destruct A as (af & EA & Wa). rewrite EA in *. cbn [ref_af_size option_map] in *.
      destruct (parse_af_any af bs 4 Wa ltac:(lia) L2) as (k' & Hp).
      erewrite ibind_ok by (erewrite ibind_ok by (exact Hp); reflexivity).
      eexists. reflexivity.
    - rewrite A. erewrite ibind_ok by reflexivity. eexists. reflexivity. }
  destruct Hhead as (k' & Hhead).
  erewrite ibind_ok by (exact Hhead). cbv beta iota. unfold no_skip. cbv iota.
  (* payload *)
  unfold parse_packet_tail. cbn [Packet_Header Packet_AdaptationField].
  unfold observed. destruct (PacketHeader_HasPayload (Packet_Header p)) eqn:HP.
  - assert (Hoff : payloadOffset 1 (Packet_Header p)
                     (odflt zero_PacketAdaptationField (option_map observed_af (Packet_AdaptationField p))) =
                   4 + ref_af_size (Packet_AdaptationField p)).
    { unfold payloadOffset. destruct (PacketHeader_HasAdaptationField (Packet_Header p)).
      - destruct A as (af & -> & Wa). cbn [option_map odflt observed_af PacketAdaptationField_Length ref_af_size]. lia.
      - rewrite A. cbn [ref_af_size]. lia. }
    rewrite Hoff. unfold iseek at 1. erewrite ibind_ok by reflexivity. cbn [ibs].
    assert (Hd : idump (mk_iter bs (4 + ref_af_size (Packet_AdaptationField p))) =
                 Ok (Packet_Payload p, mk_iter bs (if Z.of_nat (length (Packet_Payload p)) =? 0
                                                    then 4 + ref_af_size (Packet_AdaptationField p) else 188))).
    { unfold idump, ilen. cbn [ibs ioff]. rewrite Hlen.
      destruct (4 + ref_af_size (Packet_AdaptationField p) <? Z.of_nat 188) eqn:E; cbn [negb].
      - destruct (4 + ref_af_size (Packet_AdaptationField p) <? 0) eqn:E2; [lia|].
        rewrite (skipn_located bs _ _ L3) by lia.
        destruct (Z.of_nat (length (Packet_Payload p)) =? 0) eqn:E3; [lia|]. reflexivity.
      - destruct (Z.of_nat (length (Packet_Payload p)) =? 0) eqn:E3; [|lia].
        destruct (Packet_Payload p); [reflexivity | cbn [length] in E3; lia]. }
    erewrite ibind_ok by (exact Hd). reflexivity.
  - rewrite P. reflexivity.
Qed.
