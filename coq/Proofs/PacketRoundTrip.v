(* Lemmas for property C11, part 3: parsePacket (writePacket p) = observed p for every conformant packet p:
   sync byte, header, adaptation field (Proofs/PacketProofs.v), payload offset and payload. *)
From Coq Require Import ZArith List Lia Bool ZifyBool.
Require Import Base.Bits Base.Iter Base.Wr Gen.Consts Gen.Types Gen.Preds Model.Clock Model.Packet
  Spec.PesSpec Spec.PacketSpec Proofs.ClockProofs Proofs.PesRoundTrip Proofs.PacketProofs.
Import ListNotations.
Open Scope Z_scope.

(* ---------------- the adaptation field in either form ---------------- *)

Definition af_items (af : PacketAdaptationField) : list witem :=
  if PacketAdaptationField_IsOneByteStuffing af then [wu8 0] else af_body_items af.

Lemma af_len_range af : wf_af af -> 0 <= ref_af_length af.
Proof.
  unfold wf_af, ref_af_length. destruct (PacketAdaptationField_IsOneByteStuffing af) eqn:NS; intros W; [lia|].
  pose proof (af_len_split af NS) as S. unfold ref_af_length in S. rewrite NS in S. rewrite S.
  destruct (af_part_lens_nonneg af W) as (N1 & N2 & N3 & N4 & N5). pose proof (wfa_stuff af W). lia.
Qed.

Lemma enc_af_any af : wf_af af -> enc_adaptation_field af = Ok (af_items af, 1 + ref_af_length af).
Proof.
  unfold wf_af, af_items. destruct (PacketAdaptationField_IsOneByteStuffing af) eqn:NS; intros W.
  - unfold enc_adaptation_field, ref_af_length. rewrite NS. reflexivity.
  - apply (enc_af_ok af W NS).
Qed.

Lemma af_items_aligned af : wf_af af -> aligned (af_items af) (Z.to_nat (1 + ref_af_length af)).
Proof.
  unfold wf_af, af_items. destruct (PacketAdaptationField_IsOneByteStuffing af) eqn:NS; intros W.
  - unfold ref_af_length. rewrite NS. apply wu8_aligned.
  - apply (af_body_aligned af W NS).
Qed.

(* the regenerated packetAdaptationFieldSize is the length byte plus adaptation_field_length *)
Lemma af_size_eq af : wf_af af -> packetAdaptationFieldSize af = 1 + ref_af_length af.
Proof.
  unfold wf_af, packetAdaptationFieldSize. destruct (PacketAdaptationField_IsOneByteStuffing af) eqn:NS; intros W.
  - unfold ref_af_length. rewrite NS. reflexivity.
  - rewrite (af_len_split af NS). pose proof (wf_ext_of_af af W) as X.
    unfold n_pcr, n_opcr, n_sc, n_tpd, n_ext, pcr_len, sc_len, tpd_len, ext_len, wf_ext_opt, C_pcrBytesSize in *.
    destruct (PacketAdaptationField_HasAdaptationExtensionField af).
    + destruct X as (e & EX & We). rewrite EX. cbn [odflt]. rewrite (calc_afe_eq e).
      destruct (PacketAdaptationField_HasPCR af), (PacketAdaptationField_HasOPCR af),
        (PacketAdaptationField_HasSplicingCountdown af), (PacketAdaptationField_HasTransportPrivateData af); cbv zeta; lia.
    + destruct (PacketAdaptationField_HasPCR af), (PacketAdaptationField_HasOPCR af),
        (PacketAdaptationField_HasSplicingCountdown af), (PacketAdaptationField_HasTransportPrivateData af); cbv zeta; lia.
Qed.

Lemma observed_one_byte af : PacketAdaptationField_IsOneByteStuffing af = true -> af_rest_zero af ->
  observed_af af =
  {| PacketAdaptationField_AdaptationExtensionField := None;
     PacketAdaptationField_OPCR := None;
     PacketAdaptationField_PCR := None;
     PacketAdaptationField_TransportPrivateData := [];
     PacketAdaptationField_TransportPrivateDataLength := 0;
     PacketAdaptationField_Length := 0;
     PacketAdaptationField_StuffingLength := 0;
     PacketAdaptationField_SpliceCountdown := 0;
     PacketAdaptationField_IsOneByteStuffing := true;
     PacketAdaptationField_RandomAccessIndicator := false;
     PacketAdaptationField_DiscontinuityIndicator := false;
     PacketAdaptationField_ElementaryStreamPriorityIndicator := false;
     PacketAdaptationField_HasAdaptationExtensionField := false;
     PacketAdaptationField_HasOPCR := false;
     PacketAdaptationField_HasPCR := false;
     PacketAdaptationField_HasTransportPrivateData := false;
     PacketAdaptationField_HasSplicingCountdown := false |}.
Proof.
  intros NS Z. unfold observed_af, ref_af_length. rewrite NS.
  destruct Z as (-> & -> & -> & -> & -> & -> & -> & -> & -> & -> & -> & -> & -> & ->). reflexivity.
Qed.

(* what precedes the stuffing bytes *)
Definition af_prefix (af : PacketAdaptationField) : list witem :=
  if PacketAdaptationField_IsOneByteStuffing af then [wu8 0] else af_prefix_items af.
Definition af_stuffing (af : PacketAdaptationField) : list witem :=
  if PacketAdaptationField_IsOneByteStuffing af then [] else af_stuff af.

Lemma af_items_split af : af_items af = af_prefix af ++ af_stuffing af.
Proof.
  unfold af_items, af_prefix, af_stuffing. destruct (PacketAdaptationField_IsOneByteStuffing af); [reflexivity|].
  unfold af_body_items, af_prefix_items, af_items_with. rewrite <- !app_assoc. reflexivity.
Qed.

Lemma stuffing_range af : wf_af af -> 0 <= PacketAdaptationField_StuffingLength af <= ref_af_length af.
Proof.
  unfold wf_af, ref_af_length. destruct (PacketAdaptationField_IsOneByteStuffing af) eqn:NS; intros W.
  - destruct W as (_ & _ & _ & _ & -> & _). lia.
  - pose proof (af_len_split af NS) as S. unfold ref_af_length in S. rewrite NS in S. rewrite S.
    destruct (af_part_lens_nonneg af W) as (N1 & N2 & N3 & N4 & N5). pose proof (wfa_stuff af W). lia.
Qed.

Lemma af_prefix_aligned af : wf_af af ->
  aligned (af_prefix af) (Z.to_nat (1 + ref_af_length af - PacketAdaptationField_StuffingLength af)).
Proof.
  intros Wa. pose proof (stuffing_range af Wa) as R. revert Wa R.
  unfold wf_af, af_prefix. destruct (PacketAdaptationField_IsOneByteStuffing af) eqn:NS; intros W R.
  - destruct W as (_ & _ & _ & _ & E & _). rewrite E. unfold ref_af_length. rewrite NS. apply wu8_aligned.
  - destruct (af_part_lens_nonneg af W) as (N1 & N2 & N3 & N4 & N5).
    rewrite (af_len_split af NS). unfold af_prefix_items, af_items_with.
    replace (Z.to_nat (1 + (1 + n_pcr af + n_opcr af + n_sc af + n_tpd af + n_ext af + PacketAdaptationField_StuffingLength af) -
                       PacketAdaptationField_StuffingLength af))
      with (1 + (1 + (Z.to_nat (n_pcr af) + (Z.to_nat (n_opcr af) + (Z.to_nat (n_sc af) + (Z.to_nat (n_tpd af) +
            (Z.to_nat (n_ext af) + 0)))))))%nat by lia.
    repeat apply aligned_app.
    + apply wu8_aligned.
    + apply af_flags_aligned.
    + apply pcr_items_aligned.
    + apply pcr_items_aligned.
    + apply sc_items_aligned.
    + apply tpd_items_aligned. exact (wfa_tpd af W).
    + apply ext_items_aligned. exact (wfa_ext af W).
    + apply aligned_nil.
Qed.

Lemma af_stuffing_ok af : items_bytes_ok (af_stuffing af).
Proof.
  unfold af_stuffing. destruct (PacketAdaptationField_IsOneByteStuffing af); [constructor|]. apply af_stuff_aligned.
Qed.

(* parsePacketAdaptationField on what writePacketAdaptationField emitted in front of the stuffing bytes (which are
   never read); the iterator is left in front of the stuffing, parsePacket seeks to the payload afterwards *)
Lemma parse_af_prefix af bs k : wf_af af -> ref_af_length af <= 255 ->
  located bs k (bytes_of_items (af_prefix af)) ->
  exists k', parse_packet_adaptation_field (mk_iter bs k) = Ok (observed_af af, mk_iter bs k').
Proof.
  unfold wf_af, af_prefix. destruct (PacketAdaptationField_IsOneByteStuffing af) eqn:NS; intros W Hle Hl.
  - rewrite wu8_bytes in Hl. change (0 mod 256) with 0 in Hl.
    unfold parse_packet_adaptation_field.
    erewrite ibind_ok by (apply (next_byte_located bs k 0 Hl)).
    erewrite ibind_ok by reflexivity. change (0 >? 0) with false. cbv iota.
    rewrite (observed_one_byte af NS W). eexists. reflexivity.
  - eexists. apply (parse_af_prefix_located af W NS bs k Hle Hl).
Qed.

Lemma parse_af_any af bs k : wf_af af -> ref_af_length af <= 255 ->
  located bs k (bytes_of_items (af_items af)) ->
  exists k', parse_packet_adaptation_field (mk_iter bs k) = Ok (observed_af af, mk_iter bs k').
Proof.
  intros W Hle Hl. rewrite af_items_split in Hl.
  apply (located_items bs k _ _ _ (af_prefix_aligned af W) (af_stuffing_ok af)) in Hl.
  apply (parse_af_prefix af bs k W Hle). apply Hl.
Qed.

(* ---------------- the whole packet ---------------- *)

Definition af_opt_items (p : Packet) : list witem :=
  if PacketHeader_HasAdaptationField (Packet_Header p)
  then match Packet_AdaptationField p with Some af => af_items af | None => [] end else [].
Definition payload_items (p : Packet) : list witem :=
  if PacketHeader_HasPayload (Packet_Header p) then [WBytes (Packet_Payload p)] else [].

(* what writePacket hands to the BitsWriter for a conformant packet: no padding behind the payload *)
Definition packet_items (p : Packet) : list witem :=
  [wu8 syncByte] ++ enc_packet_header (Packet_Header p) ++ af_opt_items p ++ payload_items p.

Lemma af_opt_aligned p : wf_packet p -> aligned (af_opt_items p) (Z.to_nat (ref_af_size (Packet_AdaptationField p))).
Proof.
  intros W. pose proof (wfp_af p W) as A. unfold af_opt_items.
  destruct (PacketHeader_HasAdaptationField (Packet_Header p)).
  - destruct A as (af & -> & Wa). cbn [ref_af_size]. apply (af_items_aligned af Wa).
  - rewrite A. apply aligned_nil.
Qed.

Lemma af_size_range p : wf_packet p -> 0 <= ref_af_size (Packet_AdaptationField p) <= 184.
Proof.
  intros W. pose proof (wfp_af p W) as A. pose proof (wfp_size p W) as S.
  destruct (PacketHeader_HasAdaptationField (Packet_Header p)).
  - destruct A as (af & EA & Wa). rewrite EA in *. cbn [ref_af_size] in *. pose proof (af_len_range af Wa). lia.
  - rewrite A in *. cbn [ref_af_size] in *. lia.
Qed.

Lemma payload_aligned p : wf_packet p -> aligned (payload_items p) (length (Packet_Payload p)).
Proof.
  intros W. pose proof (wfp_payload p W) as P. unfold payload_items.
  destruct (PacketHeader_HasPayload (Packet_Header p)).
  - apply wbytes_aligned. exact P.
  - rewrite P. apply aligned_nil.
Qed.

Lemma payload_bytes p : wf_packet p -> bytes_of_items (payload_items p) = Packet_Payload p.
Proof.
  intros W. pose proof (wfp_payload p W) as P. unfold payload_items.
  destruct (PacketHeader_HasPayload (Packet_Header p)).
  - apply wbytes_bytes. exact P.
  - rewrite P. reflexivity.
Qed.

Lemma enc_packet_ok p : wf_packet p -> enc_packet p 188 = Ok (packet_items p).
Proof.
  intros W. pose proof (wfp_af p W) as A. pose proof (wfp_size p W) as S. pose proof (wfp_payload p W) as P.
  unfold enc_packet, packet_items, af_opt_items, payload_items, C_mpegTsPacketHeaderSize.
  set (plen := Z.of_nat (length (Packet_Payload p))) in *.
  destruct (PacketHeader_HasAdaptationField (Packet_Header p)).
  - destruct A as (af & EA & Wa). rewrite EA in *. cbn [need res_bind ref_af_size] in *.
    assert (Hst : PacketAdaptationField_StuffingLength af <? 0 = false).
    { unfold wf_af in Wa. destruct (PacketAdaptationField_IsOneByteStuffing af).
      - destruct Wa as (_ & _ & _ & _ & -> & _). reflexivity.
      - pose proof (wfa_stuff af Wa). lia. }
    rewrite Hst, (af_size_eq af Wa). cbn [res_bind].
    destruct (188 - 1 - 3 - (1 + ref_af_length af) <? plen) eqn:E1; [lia|].
    rewrite (enc_af_any af Wa). cbn [res_bind].
    destruct (188 - (1 + 3 + (1 + ref_af_length af)) <? plen) eqn:E2; [lia|].
    destruct (PacketHeader_HasPayload (Packet_Header p)).
    + replace (188 - (1 + 3 + (1 + ref_af_length af) + plen)) with 0 by lia. reflexivity.
    + subst plen. rewrite P in *. cbn [length Z.of_nat] in *.
      replace (188 - (1 + 3 + (1 + ref_af_length af))) with 0 by lia. reflexivity.
  - rewrite A in *. cbn [res_bind ref_af_size] in *.
    destruct (188 - 1 - 3 <? plen) eqn:E1; [lia|]. cbn [res_bind].
    destruct (188 - (1 + 3 + 0) <? plen) eqn:E2; [lia|].
    destruct (PacketHeader_HasPayload (Packet_Header p)).
    + replace (188 - (1 + 3 + 0 + plen)) with 0 by lia. reflexivity.
    + subst plen. rewrite P in *. cbn [length Z.of_nat] in *. lia.
Qed.

Lemma skipn_located bs k a : located bs k a -> Z.of_nat (length bs) = k + Z.of_nat (length a) ->
  skipn (Z.to_nat k) bs = a.
Proof.
  intros (pre & rest & -> & ->) H. rewrite !app_length in H.
  assert (rest = []) as -> by (destruct rest; [reflexivity | cbn [length] in H; lia]).
  rewrite Nat2Z.id, app_nil_r, skipn_app, skipn_all, Nat.sub_diag. reflexivity.
Qed.

(* what precedes the stuffing bytes of the adaptation field *)
Definition af_opt_prefix (p : Packet) : list witem :=
  if PacketHeader_HasAdaptationField (Packet_Header p)
  then match Packet_AdaptationField p with Some af => af_prefix af | None => [] end else [].

Lemma stuffing_of_range p : wf_packet p -> 0 <= stuffing_of p <= ref_af_size (Packet_AdaptationField p).
Proof.
  intros W. pose proof (wfp_af p W) as A. unfold stuffing_of.
  destruct (PacketHeader_HasAdaptationField (Packet_Header p)).
  - destruct A as (af & -> & Wa). cbn [ref_af_size]. pose proof (stuffing_range af Wa). lia.
  - rewrite A. cbn [ref_af_size]. lia.
Qed.

Lemma af_opt_prefix_aligned p : wf_packet p ->
  aligned (af_opt_prefix p) (Z.to_nat (ref_af_size (Packet_AdaptationField p) - stuffing_of p)).
Proof.
  intros W. pose proof (wfp_af p W) as A. unfold af_opt_prefix, stuffing_of.
  destruct (PacketHeader_HasAdaptationField (Packet_Header p)).
  - destruct A as (af & -> & Wa). cbn [ref_af_size]. apply (af_prefix_aligned af Wa).
  - rewrite A. apply aligned_nil.
Qed.

(* the core: a 188-byte buffer that carries the sync byte, the header, the adaptation field up to its stuffing and the
   payload of a conformant packet at their places parses to that packet, whatever the stuffing bytes are *)
Lemma parse_located_packet p bs : wf_packet p -> length bs = 188%nat ->
  located bs 0 [71] ->
  located bs 1 (bytes_of_items (enc_packet_header (Packet_Header p))) ->
  located bs 4 (bytes_of_items (af_opt_prefix p)) ->
  located bs (4 + ref_af_size (Packet_AdaptationField p)) (Packet_Payload p) ->
  parse_packet_bytes bs = Ok (observed p).
Proof.
  intros W Hlen L0 L1 L2 L3.
  pose proof (wfp_af p W) as A. pose proof (wfp_size p W) as S. pose proof (wfp_payload p W) as P.
  pose proof (af_size_range p W) as R.
  unfold parse_packet_bytes, run_iter, parse_packet.
  (* sync byte, seek, header, adaptation field *)
  assert (Hhead : exists k', parse_packet_head (new_iter bs) =
            Ok (({| Packet_AdaptationField := option_map observed_af (Packet_AdaptationField p);
                     Packet_Header := Packet_Header p; Packet_Payload := [] |}, 1), mk_iter bs k')).
  { unfold parse_packet_head, new_iter.
    erewrite ibind_ok by (apply (next_byte_located bs 0 71 L0)).
    change (negb (71 =? syncByte)) with false. cbv iota.
    erewrite ibind_ok by reflexivity. unfold ilen. cbn [ibs]. rewrite Hlen.
    unfold iseek at 1. erewrite ibind_ok by reflexivity. cbn [ibs].
    change (Z.of_nat 188 - C_MpegTsPacketSize + 1) with 1.
    erewrite ibind_ok by reflexivity. cbn [ioff].
    erewrite ibind_ok by (apply (header_located _ bs 1 (wfp_header p W) L1)).
    change (1 + 3) with 4. unfold af_opt_prefix in L2.
    destruct (PacketHeader_HasAdaptationField (Packet_Header p)).
    - destruct A as (af & EA & Wa). rewrite EA in *. cbn [ref_af_size option_map] in *.
      destruct (parse_af_prefix af bs 4 Wa ltac:(lia) L2) as (k' & Hp).
      erewrite ibind_ok by (erewrite ibind_ok by (exact Hp); reflexivity).
      eexists. reflexivity.
    - rewrite A. erewrite ibind_ok by reflexivity. eexists. reflexivity. }
  destruct Hhead as (k' & Hhead).
  erewrite ibind_ok by (exact Hhead). cbv beta iota. unfold no_skip. cbv iota.
  (* payload offset and payload *)
  unfold parse_packet_tail. cbn [Packet_Header Packet_AdaptationField].
  unfold observed. destruct (PacketHeader_HasPayload (Packet_Header p)) eqn:HP.
  - assert (Hoff : payloadOffset 1 (Packet_Header p)
                     (odflt zero_PacketAdaptationField (option_map observed_af (Packet_AdaptationField p))) =
                   4 + ref_af_size (Packet_AdaptationField p)).
    { unfold payloadOffset. destruct (PacketHeader_HasAdaptationField (Packet_Header p)).
      - destruct A as (af & -> & Wa). cbn [option_map odflt observed_af PacketAdaptationField_Length ref_af_size]. lia.
      - rewrite A. cbn [ref_af_size]. lia. }
    rewrite Hoff. unfold iseek at 1. erewrite ibind_ok by reflexivity. cbn [ibs].
    assert (Hd : idump (mk_iter bs (4 + ref_af_size (Packet_AdaptationField p))) =
                 Ok (Packet_Payload p, mk_iter bs (if Z.of_nat (length (Packet_Payload p)) =? 0
                                                    then 4 + ref_af_size (Packet_AdaptationField p) else 188))).
    { unfold idump, ilen. cbn [ibs ioff]. rewrite Hlen.
      destruct (4 + ref_af_size (Packet_AdaptationField p) <? Z.of_nat 188) eqn:E; cbn [negb].
      - destruct (4 + ref_af_size (Packet_AdaptationField p) <? 0) eqn:E2; [lia|].
        rewrite (skipn_located bs _ _ L3) by lia.
        destruct (Z.of_nat (length (Packet_Payload p)) =? 0) eqn:E3; [lia|]. reflexivity.
      - destruct (Z.of_nat (length (Packet_Payload p)) =? 0) eqn:E3; [|lia].
        destruct (Packet_Payload p); [reflexivity | cbn [length] in E3; lia]. }
    erewrite ibind_ok by (exact Hd). reflexivity.
  - rewrite P. reflexivity.
Qed.

Lemma af_opt_items_split p : af_opt_items p = af_opt_prefix p ++
  (if PacketHeader_HasAdaptationField (Packet_Header p)
   then match Packet_AdaptationField p with Some af => af_stuffing af | None => [] end else []).
Proof.
  unfold af_opt_items, af_opt_prefix. destruct (PacketHeader_HasAdaptationField (Packet_Header p)); [|reflexivity].
  destruct (Packet_AdaptationField p) as [af|]; [apply af_items_split | reflexivity].
Qed.

Theorem parse_write_packet p : wf_packet p ->
  exists bs, write_packet p 188 = Ok bs /\ length bs = 188%nat /\ parse_packet_bytes bs = Ok (observed p).
Proof.
  intros W. unfold write_packet. rewrite (enc_packet_ok p W). cbn [res_map].
  eexists. split; [reflexivity|].
  pose proof (wfp_size p W) as S. pose proof (af_size_range p W) as R. pose proof (stuffing_of_range p W) as SR.
  pose proof (af_opt_aligned p W) as A2. pose proof (payload_aligned p W) as A3.
  pose proof (header_aligned (Packet_Header p)) as A1.
  set (bs := bytes_of_items (packet_items p)).
  assert (Hal : aligned (packet_items p) 188).
  { unfold packet_items.
    replace 188%nat with (1 + (3 + (Z.to_nat (ref_af_size (Packet_AdaptationField p)) + length (Packet_Payload p))))%nat by lia.
    repeat apply aligned_app; [apply wu8_aligned | apply A1 | apply A2 | apply A3]. }
  destruct (aligned_bytes _ _ Hal) as [Hlen _]. fold bs in Hlen. split; [exact Hlen|].
  assert (Hl : located bs 0 (bytes_of_items (packet_items p))).
  { exists [], []. split; [|reflexivity]. cbn [app]. rewrite app_nil_r. reflexivity. }
  unfold packet_items in Hl.
  apply (located_items bs 0 _ _ 1 (wu8_aligned _)) in Hl; [|repeat apply items_bytes_ok_app; [apply A1|apply A2|apply A3]].
  destruct Hl as [L0 Hl].
  apply (located_items bs _ _ _ 3 A1) in Hl; [|repeat apply items_bytes_ok_app; [apply A2|apply A3]].
  destruct Hl as [L1 Hl].
  apply (located_items bs _ _ _ _ A2) in Hl; [|apply A3].
  destruct Hl as [L2 L3].
  rewrite Z2Nat.id in L3 by lia. rewrite (payload_bytes p W) in L3.
  change (0 + Z.of_nat 1) with 1 in *. change (1 + Z.of_nat 3) with 4 in *.
  rewrite wu8_bytes in L0. change (syncByte mod 256) with 71 in L0.
  rewrite af_opt_items_split in L2.
  apply (located_items bs 4 _ _ _ (af_opt_prefix_aligned p W)) in L2.
  2:{ destruct (PacketHeader_HasAdaptationField (Packet_Header p)); [|constructor].
      destruct (Packet_AdaptationField p); [apply af_stuffing_ok | constructor]. }
  apply (parse_located_packet p bs W Hlen L0 L1 (proj1 L2) L3).
Qed.

(* the bytes in front of the adaptation field stuffing: sync byte, header, adaptation field up to the stuffing *)
Definition packet_prefix_items (p : Packet) : list witem :=
  [wu8 syncByte] ++ enc_packet_header (Packet_Header p) ++ af_opt_prefix p.

(* the stuffing bytes are never read: any bytes in their place give the same result *)
Theorem parse_any_stuffing p sb : wf_packet p -> Z.of_nat (length sb) = stuffing_of p ->
  parse_packet_bytes (bytes_of_items (packet_prefix_items p) ++ sb ++ Packet_Payload p) = Ok (observed p).
Proof.
  intros W Hsb.
  pose proof (wfp_size p W) as S. pose proof (af_size_range p W) as R. pose proof (stuffing_of_range p W) as SR.
  pose proof (af_opt_prefix_aligned p W) as A2. pose proof (header_aligned (Packet_Header p)) as A1.
  set (n := Z.to_nat (ref_af_size (Packet_AdaptationField p) - stuffing_of p)) in *.
  assert (Hal : aligned (packet_prefix_items p) (1 + (3 + n))).
  { unfold packet_prefix_items. repeat apply aligned_app; [apply wu8_aligned | apply A1 | apply A2]. }
  destruct (aligned_bytes _ _ Hal) as [Hpl _].
  set (pre := bytes_of_items (packet_prefix_items p)) in *.
  set (bs := pre ++ sb ++ Packet_Payload p).
  assert (Hlen : length bs = 188%nat) by (unfold bs; rewrite !app_length, Hpl; lia).
  assert (Hl : located bs 0 (bytes_of_items (packet_prefix_items p))) by (apply located_self_prefix).
  unfold packet_prefix_items in Hl.
  apply (located_items bs 0 _ _ 1 (wu8_aligned _)) in Hl; [|repeat apply items_bytes_ok_app; [apply A1|apply A2]].
  destruct Hl as [L0 Hl].
  apply (located_items bs _ _ _ 3 A1) in Hl; [|apply A2].
  destruct Hl as [L1 L2].
  change (0 + Z.of_nat 1) with 1 in *. change (1 + Z.of_nat 3) with 4 in *.
  rewrite wu8_bytes in L0. change (syncByte mod 256) with 71 in L0.
  apply (parse_located_packet p bs W Hlen L0 L1 L2).
  exists (pre ++ sb), []. split.
  - unfold bs. rewrite app_nil_r, <- app_assoc. reflexivity.
  - rewrite app_length, Hpl. lia.
Qed.
