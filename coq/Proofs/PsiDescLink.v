(* The writer-side premises about descriptor loops that the PMT theorems of Proofs/PsiProofs.v and
   Proofs/PsiWritePmt.v take, discharged with the lemmas of C14 (Proofs/DescProofs.v), for descriptor lists in
   C14's domain: no body longer than 255 bytes (no uint8 wrap of a length byte), loop shorter than 4096, and the
   writer succeeds with byte strings that hold bytes. *)
From Coq Require Import ZArith List Lia Bool ZifyBool.
Require Import Base.Bits Base.Iter Base.Wr Gen.Consts Gen.Types Gen.Preds Model.Packet Model.Desc Model.Dvb Model.Psi.
Require Import Spec.CrcSpec Spec.DescSpec Spec.PsiSpec Proofs.CrcProofs Proofs.DescProofs Proofs.PsiProofs
  Proofs.PsiParse Proofs.PsiParsePmt Proofs.PsiWritePmt.
Import ListNotations.
Open Scope Z_scope.

(* C14's domain for one descriptor loop *)
Definition desc_dom (ds : list Descriptor) : Prop :=
  Forall (fun d => desc_size d < 256) ds /\ loop_size ds < 4096 /\
  exists its, enc_descriptors ds = Ok its /\ items_bytes_ok its.

(* the bytes of the loop body the writer emits *)
Definition desc_bytes (ds : list Descriptor) (bytes : list Z) : Prop :=
  desc_dom ds /\ exists its, enc_descriptors ds = Ok its /\ bytes = bytes_of_items its.

Lemma loop_size_nonneg ds : 0 <= loop_size ds.
Proof. unfold loop_size. apply sumZ_nonneg. intros x. pose proof (desc_size_nonneg x). lia. Qed.

Lemma calc_descriptors_length_nonneg ds : 0 <= calc_descriptors_length ds.
Proof.
  unfold calc_descriptors_length.
  assert (G : forall l a, 0 <= a ->
    0 <= fold_left (fun length d => ((length + 2) mod 65536 + calc_descriptor_length d) mod 65536) l a).
  { induction l as [|d l IH]; intros a Ha; cbn [fold_left]; [exact Ha|]. apply IH. apply Z.mod_pos_bound. lia. }
  apply G. lia.
Qed.

Lemma desc_dom_facts ds its' : desc_dom ds -> enc_descriptors ds = Ok its' ->
  items_bytes_ok its' /\ calc_descriptors_length ds = loop_size ds /\
  length (items_bits its') = (8 * Z.to_nat (loop_size ds))%nat.
Proof.
  intros (HF & Hs & its0 & E0 & Hok) E. rewrite E in E0. inversion E0; subst its0. clear E0.
  destruct (enc_descriptors_bytes ds its' E Hok) as (bodies & _ & _ & Hbits).
  assert (Esum : sumZ (fun d => 2 + emitted d) ds = loop_size ds).
  { unfold loop_size. clear -HF. induction HF as [|d ds Hd _ IH]; [reflexivity|]. cbn [sumZ fold_right]. unfold sumZ in IH.
    rewrite IH. destruct (emitted_nowrap d Hd) as [-> _]. reflexivity. }
  pose proof (loop_size_nonneg ds). split; [exact Hok|]. split.
  - apply calc_descriptors_length_nowrap; [exact HF|lia].
  - unfold bitlen in Hbits. rewrite Esum in Hbits. lia.
Qed.

(* premise of mux_pmt *)
Lemma desc_len_premise ds its : desc_dom ds -> enc_descriptors_with_length ds = Ok its ->
  items_bytes_ok its /\ 0 <= calc_descriptors_length ds /\
  length (items_bits its) = (8 * Z.to_nat (2 + calc_descriptors_length ds))%nat.
Proof.
  intros Hd H. unfold enc_descriptors_with_length in H.
  destruct (enc_descriptors ds) as [its'| |] eqn:E; cbn [res_map] in H; try discriminate.
  assert (Eits : its = [WBits 4 255; WBits 12 (calc_descriptors_length ds)] ++ its') by (inversion H; reflexivity).
  subst its. clear H. destruct (desc_dom_facts ds its' Hd E) as (Hok & Hc & Hl).
  pose proof (loop_size_nonneg ds). split; [|split].
  - apply items_bytes_ok_app; [repeat constructor|exact Hok].
  - rewrite Hc. lia.
  - rewrite items_bits_app, app_length, Hl, Hc.
    change (length (items_bits [WBits 4 255; WBits 12 (loop_size ds)])) with 16%nat. lia.
Qed.

(* premise of write_pmt *)
Lemma desc_write_premise ds bytes : desc_bytes ds bytes ->
  Z.of_nat (length bytes) < 4096 /\ calc_descriptors_length ds = Z.of_nat (length bytes) /\
  exists its, enc_descriptors_with_length ds = Ok its /\ items_bytes_ok its /\
              length (items_bits its) = (8 * (2 + length bytes))%nat /\
              bytes_of_items its = spec_desc_loop bytes.
Proof.
  intros (Hd & its' & E & ->). destruct (desc_dom_facts ds its' Hd E) as (Hok & Hc & Hl).
  pose proof (loop_size_nonneg ds) as Hnn. destruct Hd as (_ & Hs & _).
  assert (Lb : length (bytes_of_items its') = Z.to_nat (loop_size ds)) by (apply (PsiProofs.bytes_of_items_length _ _ Hok Hl)).
  split; [lia|]. split; [lia|].
  exists ([WBits 4 255; WBits 12 (calc_descriptors_length ds)] ++ its').
  assert (Hh : items_bytes_ok [WBits 4 255; WBits 12 (calc_descriptors_length ds)]) by repeat constructor.
  split; [unfold enc_descriptors_with_length; rewrite E; reflexivity|]. split; [apply items_bytes_ok_app; assumption|]. split.
  - rewrite items_bits_app, app_length, Hl, Lb.
    change (length (items_bits [WBits 4 255; WBits 12 (calc_descriptors_length ds)])) with 16%nat. lia.
  - rewrite (PsiProofs.bytes_of_items_app _ _ 2 Hh Hok) by reflexivity. unfold spec_desc_loop. f_equal.
    rewrite chunks_concat by exact Hh. rewrite Hc, Lb, Z2Nat.id by lia. reflexivity.
Qed.

(* ---------- C09_mux_pmt without premises about other models ---------- *)
Theorem mux_pmt_closed c h sh d pmt its : PSISectionHeader_TableID h = 2 -> PSISectionHeader_SectionLength h > 0 ->
  PSISectionSyntaxData_PMT d = Some pmt ->
  desc_dom (PMTData_ProgramDescriptors pmt) ->
  Forall (fun es => desc_dom (PMTElementaryStream_ElementaryStreamDescriptors es)) (PMTData_ElementaryStreams pmt) ->
  pmt_body_len pmt + 9 <= 4095 ->
  enc_psi_section (mk_section c h sh d) = Ok its ->
  exists pre, bytes_of_items its = pre ++ CrcSpec.be32 (crc32_mpeg2 pre) /\
    spec_crc_ok (bytes_of_items its) /\
    (3 <= length pre)%nat /\ nth 0 pre 0 = 2 /\
    bitsf (firstn 3 pre) 12 12 = Z.of_nat (length (bytes_of_items its)) - 3.
Proof. apply (mux_pmt desc_dom desc_len_premise calc_descriptors_length_nonneg). Qed.

(* ---------- C13_write_pmt without premises about other models ---------- *)
Theorem write_pmt_closed p c h sh d ext_pn pcr pds pbytes xs : 0 <= p < 256 ->
  PSISectionHeader_TableID h = 2 -> PSISectionHeader_SectionLength h > 0 ->
  PSISectionSyntaxData_PMT d = Some {| PMTData_ElementaryStreams := map stream_value xs; PMTData_PCRPID := pcr;
                                       PMTData_ProgramDescriptors := pds; PMTData_ProgramNumber := ext_pn |} ->
  desc_bytes pds pbytes -> Forall (wstream_ok desc_bytes) xs ->
  9 + Z.of_nat (length pbytes) + Z.of_nat (length (flat_map stream_bytes xs)) + 4 < 4096 ->
  write_psi_data {| PSIData_PointerField := p; PSIData_Sections := [mk_section c h sh d] |} =
  Ok (p :: repeat 0 (Z.to_nat p) ++
      spec_pmt_section (PSISectionHeader_SectionSyntaxIndicator h) (PSISectionHeader_PrivateBit h)
        (PSISectionSyntaxHeader_TableIDExtension sh) (PSISectionSyntaxHeader_VersionNumber sh)
        (PSISectionSyntaxHeader_CurrentNextIndicator sh) (PSISectionSyntaxHeader_SectionNumber sh)
        (PSISectionSyntaxHeader_LastSectionNumber sh) pcr pbytes (map stream_spec xs)).
Proof. apply (write_pmt desc_bytes desc_write_premise). Qed.
