(* C08 (e): a packet carried in a buffer of 188+k bytes parses to the packet of its 188-byte form.
   parsePacket reads the sync byte, seeks to len-188+1 and from there on uses only offsets relative to that point
   (offsetStart, afStart).  The proof is a shift-invariance ("frame") property of the iterator monad: two iterator
   states of which one has [pre] prepended to the bytes and [length pre] added to the offset behave alike under every
   primitive the parser uses after the seek; offset-valued results differ by [length pre].  Both the wide and the
   narrow buffer are such shifts of the iterator over the last 187 bytes at offset 0. *)
From Coq Require Import ZArith List Lia Bool ZifyBool.
Require Import Base.Bits Base.Iter Gen.Consts Gen.Types Gen.Preds Model.Clock Model.Packet Model.Pool Model.Reader Model.Demux
  Proofs.ReaderProofs Proofs.SafeProofs Proofs.DemuxProofs.
Import ListNotations.
Open Scope Z_scope.
Open Scope iter_scope.

(* ================= shift invariance of the iterator monad ================= *)

Section Shift.
Variable pre : list Z.
Let d : Z := Z.of_nat (length pre).

(* [i] is [i0] with [pre] in front *)
Definition shifted (i i0 : iter) : Prop := ibs i = pre ++ ibs i0 /\ ioff i = ioff i0 + d.

(* [m] run on a shifted state does what [m0] does on the unshifted one (whose offset is not negative: the bytes of
   [pre] are never looked at), with results related by [V] *)
Definition sim {A} (V : A -> A -> Prop) (m m0 : IM A) : Prop :=
  forall i i0, shifted i i0 -> 0 <= ioff i0 ->
  match m0 i0 with
  | Ok (a0, j0) => exists a j, m i = Ok (a, j) /\ V a a0 /\ shifted j j0 /\ 0 <= ioff j0
  | Err c => m i = Err c
  | Panic => m i = Panic
  end.

Definition shifted_off (o o0 : Z) : Prop := o = o0 + d /\ 0 <= o0.

Lemma shifted_len i i0 : shifted i i0 -> ilen i = ilen i0 + d.
Proof. intros [H _]. unfold ilen, d. rewrite H, app_length. lia. Qed.

Lemma sim_bind {A B} (V : A -> A -> Prop) (W : B -> B -> Prop) m m0 f f0 :
  sim V m m0 -> (forall a a0, V a a0 -> sim W (f a) (f0 a0)) -> sim W (ibind m f) (ibind m0 f0).
Proof.
  intros Hm Hf i i0 Hs Ho. unfold ibind. specialize (Hm i i0 Hs Ho).
  destruct (m0 i0) as [[a0 j0]|c|].
  - destruct Hm as [a [j [E [Hv [Hs' Ho']]]]]. rewrite E. exact (Hf a a0 Hv j j0 Hs' Ho').
  - rewrite Hm. reflexivity.
  - rewrite Hm. reflexivity.
Qed.

(* the common case: the intermediate value is the same in both runs *)
Lemma sim_bind_eq {A B} (W : B -> B -> Prop) (m m0 : IM A) (f f0 : A -> IM B) :
  sim eq m m0 -> (forall a, sim W (f a) (f0 a)) -> sim W (ibind m f) (ibind m0 f0).
Proof. intros Hm Hf. apply (sim_bind eq W); [exact Hm|]. intros a a0 <-. apply Hf. Qed.

Lemma sim_iret {A} (V : A -> A -> Prop) a a0 : V a a0 -> sim V (iret a) (iret a0).
Proof. intros H i i0 Hs Ho. cbn. exists a, i. auto. Qed.

Lemma sim_ierr {A} (V : A -> A -> Prop) c : sim V (ierr c) (ierr c).
Proof. intros i i0 Hs Ho. reflexivity. Qed.

Lemma sim_weaken {A} (V W : A -> A -> Prop) m m0 : sim V m m0 -> (forall a a0, V a a0 -> W a a0) -> sim W m m0.
Proof.
  intros H HW i i0 Hs Ho. specialize (H i i0 Hs Ho). destruct (m0 i0) as [[a0 j0]|c|]; auto.
  destruct H as [a [j [E [Hv R]]]]. exists a, j. split; [exact E|]. split; [apply HW; exact Hv|exact R].
Qed.

Lemma nth_shift (bs : list Z) (k : Z) : 0 <= k -> nth (Z.to_nat (k + d)) (pre ++ bs) 0 = nth (Z.to_nat k) bs 0.
Proof.
  intros Hk. rewrite app_nth2 by (unfold d; lia). f_equal. unfold d. lia.
Qed.

Lemma skipn_shift (bs : list Z) (k : Z) : 0 <= k -> skipn (Z.to_nat (k + d)) (pre ++ bs) = skipn (Z.to_nat k) bs.
Proof.
  intros Hk. replace (Z.to_nat (k + d)) with (length pre + Z.to_nat k)%nat by (unfold d; lia).
  rewrite skipn_app. replace (length pre + Z.to_nat k - length pre)%nat with (Z.to_nat k) by lia.
  rewrite skipn_all2 by lia. reflexivity.
Qed.

Lemma slice_shift (bs : list Z) (a b : Z) : 0 <= a -> slice (pre ++ bs) (a + d) (b + d) = slice bs a b.
Proof.
  intros Ha. unfold slice. rewrite skipn_shift by exact Ha. f_equal. lia.
Qed.

Lemma sim_next_byte : sim eq next_byte next_byte.
Proof.
  intros i i0 Hs Ho. pose proof (shifted_len i i0 Hs) as Hl. destruct Hs as [Hb Hoff].
  unfold next_byte. rewrite Hl, Hoff.
  replace (ilen i0 + d <? ioff i0 + d + 1) with (ilen i0 <? ioff i0 + 1) by lia.
  destruct (ilen i0 <? ioff i0 + 1); [reflexivity|].
  assert (0 <= d) by (unfold d; lia).
  destruct (ioff i0 <? 0) eqn:E0; [lia|]. destruct (ioff i0 + d <? 0) eqn:E1; [lia|].
  eexists _, _. split; [reflexivity|]. split; [|split; [split|]]; cbn [ibs ioff].
  - rewrite Hb. apply nth_shift. exact Ho.
  - exact Hb.
  - lia.
  - lia.
Qed.

Lemma sim_next_bytes n : sim eq (next_bytes n) (next_bytes n).
Proof.
  intros i i0 Hs Ho. pose proof (shifted_len i i0 Hs) as Hl. destruct Hs as [Hb Hoff].
  unfold next_bytes. rewrite Hl, Hoff.
  replace (ilen i0 + d <? ioff i0 + d + n) with (ilen i0 <? ioff i0 + n) by lia.
  destruct (ilen i0 <? ioff i0 + n); [reflexivity|].
  destruct (n <? 0) eqn:En; [reflexivity|].
  assert (0 <= d) by (unfold d; lia).
  destruct (ioff i0 <? 0) eqn:E0; [lia|]. destruct (ioff i0 + d <? 0) eqn:E1; [lia|].
  eexists _, _. split; [reflexivity|]. split; [|split; [split|]]; cbn [ibs ioff].
  - rewrite Hb. replace (ioff i0 + d + n) with (ioff i0 + n + d) by lia. apply slice_shift. exact Ho.
  - exact Hb.
  - lia.
  - lia.
Qed.

Lemma sim_next_bytes_nocopy n : sim eq (next_bytes_nocopy n) (next_bytes_nocopy n).
Proof. exact (sim_next_bytes n). Qed.

Lemma sim_iskip n : 0 <= n -> sim eq (iskip n) (iskip n).
Proof.
  intros Hn i i0 [Hb Hoff] Ho. cbn. eexists _, _. split; [reflexivity|]. split; [reflexivity|].
  split; [split|]; cbn [ibs ioff]; [exact Hb|lia|lia].
Qed.

(* Seek to an offset obtained from Offset() (plus something non-negative) *)
Lemma sim_iseek o o0 : shifted_off o o0 -> sim eq (iseek o) (iseek o0).
Proof.
  intros [Ho1 Ho2] i i0 [Hb Hoff] Ho. cbn. eexists _, _. split; [reflexivity|]. split; [reflexivity|].
  split; [split|]; cbn [ibs ioff]; [exact Hb|lia|lia].
Qed.

Lemma sim_ioffset : sim shifted_off ioffset ioffset.
Proof.
  intros i i0 Hs Ho. cbn. eexists _, _. split; [reflexivity|]. split; [split; [apply Hs|exact Ho]|]. split; assumption.
Qed.

Lemma sim_ilength : sim (fun l l0 => l = l0 + d) ilength ilength.
Proof.
  intros i i0 Hs Ho. cbn. eexists _, _. split; [reflexivity|]. split; [apply shifted_len; exact Hs|]. split; assumption.
Qed.

Lemma sim_has_bytes_left : sim eq has_bytes_left has_bytes_left.
Proof.
  intros i i0 Hs Ho. pose proof (shifted_len i i0 Hs) as Hl. cbn. eexists _, _. split; [reflexivity|].
  split; [|split; assumption]. destruct Hs as [_ Hoff]. rewrite Hl, Hoff. lia.
Qed.

Lemma sim_idump : sim eq idump idump.
Proof.
  intros i i0 Hs Ho. pose proof (shifted_len i i0 Hs) as Hl. destruct Hs as [Hb Hoff].
  unfold idump. rewrite Hl, Hoff.
  replace (ioff i0 + d <? ilen i0 + d) with (ioff i0 <? ilen i0) by lia.
  destruct (negb (ioff i0 <? ilen i0)) eqn:E.
  - eexists _, _. split; [reflexivity|]. split; [reflexivity|]. split; [split; assumption|assumption].
  - assert (0 <= d) by (unfold d; lia).
    destruct (ioff i0 <? 0) eqn:E0; [lia|]. destruct (ioff i0 + d <? 0) eqn:E1; [lia|].
    eexists _, _. split; [reflexivity|]. split; [|split; [split|]]; cbn [ibs ioff].
    + rewrite Hb. apply skipn_shift. exact Ho.
    + exact Hb.
    + reflexivity.
    + unfold ilen. lia.
Qed.

(* a byte is read and given back: `b <- next_byte ;; iskip (-1) ;;; k b` (the only backward move of the parser) *)
Lemma sim_peek {A} (V : A -> A -> Prop) (k k0 : Z -> IM A) : (forall b, sim V (k b) (k0 b)) ->
  sim V (ibind next_byte (fun b => ibind (iskip (-1)) (fun _ => k b)))
        (ibind next_byte (fun b => ibind (iskip (-1)) (fun _ => k0 b))).
Proof.
  intros Hk i i0 Hs Ho. pose proof (sim_next_byte i i0 Hs Ho) as H. unfold ibind, iskip.
  destruct (next_byte i0) as [[b0 j0]|c|] eqn:E0.
  - destruct H as [b [j [E [<- [[Hb Hoff] Ho']]]]]. rewrite E.
    apply next_byte_ok in E0. destruct E0 as [Hr0 [Eb0 [Eo0 _]]].
    apply Hk; [split; cbn [ibs ioff]; [exact Hb|lia]|cbn [ioff]; lia].
  - rewrite H. reflexivity.
  - rewrite H. reflexivity.
Qed.

Lemma sim_when {A} (V : A -> A -> Prop) (c : bool) (m m0 : IM A) dflt : sim V m m0 -> V dflt dflt ->
  sim V (when c m dflt) (when c m0 dflt).
Proof. intros Hm Hd. unfold when. destruct c; [exact Hm|apply sim_iret; exact Hd]. Qed.

(* ================= the packet parser after its seek ================= *)

Lemma sim_parse_pcr : sim eq parse_pcr parse_pcr.
Proof. unfold parse_pcr. apply sim_bind_eq; [apply sim_next_bytes_nocopy|]. intros bs. apply sim_iret. reflexivity. Qed.

Lemma sim_parse_pts_or_dts : sim eq parse_pts_or_dts parse_pts_or_dts.
Proof. unfold parse_pts_or_dts. apply sim_bind_eq; [apply sim_next_bytes_nocopy|]. intros bs. apply sim_iret. reflexivity. Qed.

Lemma sim_parse_packet_header : sim eq parse_packet_header parse_packet_header.
Proof. unfold parse_packet_header. apply sim_bind_eq; [apply sim_next_bytes_nocopy|]. intros bs. apply sim_iret. reflexivity. Qed.

Lemma sim_parse_af_extension : sim eq parse_af_extension parse_af_extension.
Proof.
  unfold parse_af_extension. apply sim_bind_eq; [apply sim_next_byte|]. intros len.
  destruct (len >? 0); [|apply sim_iret; reflexivity].
  apply sim_bind_eq; [apply sim_next_byte|]. intros fl.
  apply sim_bind_eq; [apply sim_when; [apply sim_next_bytes_nocopy|reflexivity]|]. intros ltw.
  apply sim_bind_eq; [apply sim_when; [apply sim_next_bytes_nocopy|reflexivity]|]. intros pr.
  apply sim_bind_eq.
  - destruct (bitb [fl] 2); [|apply sim_iret; reflexivity].
    apply sim_peek. intros b2. apply sim_bind_eq; [apply sim_parse_pts_or_dts|]. intros dts. apply sim_iret. reflexivity.
  - intros [st dts]. apply sim_iret. reflexivity.
Qed.

(* the adaptation field: same record (StuffingLength is a difference of two offsets), and its Length is not negative *)
Definition af_rel (a a0 : PacketAdaptationField) : Prop := a = a0 /\ 0 <= PacketAdaptationField_Length a0.

Lemma sim_parse_af : sim af_rel parse_packet_adaptation_field parse_packet_adaptation_field.
Proof.
  unfold parse_packet_adaptation_field. apply sim_bind_eq; [apply sim_next_byte|]. intros len.
  apply (sim_bind shifted_off af_rel); [apply sim_ioffset|]. intros afStart afStart0 [Ha _].
  destruct (len >? 0) eqn:Elen; [|apply sim_iret; split; [reflexivity|cbn; lia]].
  apply sim_bind_eq; [apply sim_next_byte|]. intros fl.
  apply sim_bind_eq.
  { destruct (bitb [fl] 3); [|apply sim_iret; reflexivity].
    apply sim_bind_eq; [apply sim_parse_pcr|]. intros c. apply sim_iret. reflexivity. }
  intros pcr. apply sim_bind_eq.
  { destruct (bitb [fl] 4); [|apply sim_iret; reflexivity].
    apply sim_bind_eq; [apply sim_parse_pcr|]. intros c. apply sim_iret. reflexivity. }
  intros opcr. apply sim_bind_eq; [apply sim_when; [apply sim_next_byte|reflexivity]|]. intros sc.
  apply sim_bind_eq.
  { destruct (bitb [fl] 6); [|apply sim_iret; reflexivity].
    apply sim_bind_eq; [apply sim_next_byte|]. intros l.
    apply sim_bind_eq; [apply sim_when; [apply sim_next_bytes|reflexivity]|]. intros dd. apply sim_iret. reflexivity. }
  intros [tpdl tpd]. apply sim_bind_eq.
  { destruct (bitb [fl] 7); [|apply sim_iret; reflexivity].
    apply sim_bind_eq; [apply sim_parse_af_extension|]. intros e. apply sim_iret. reflexivity. }
  intros ext. apply (sim_bind shifted_off af_rel); [apply sim_ioffset|]. intros off off0 [Ho _].
  apply sim_iret. split; [|cbn; lia].
  subst afStart off. replace (off0 + d - (afStart0 + d)) with (off0 - afStart0) by lia. reflexivity.
Qed.

(* parsePacket from the point it has seeked to: header, adaptation field, skipper, payload *)
Definition packet_body : IM (Packet * Z) :=
  offsetStart <- ioffset ;;
  h <- parse_packet_header ;;
  af <- (if PacketHeader_HasAdaptationField h then a <- parse_packet_adaptation_field ;; iret (Some a) else iret None) ;;
  iret ({| Packet_AdaptationField := af; Packet_Header := h; Packet_Payload := [] |}, offsetStart).

Definition body_rel (x x0 : Packet * Z) : Prop :=
  fst x = fst x0 /\ shifted_off (snd x) (snd x0) /\
  match Packet_AdaptationField (fst x0) with Some a => 0 <= PacketAdaptationField_Length a | None => True end.

Lemma sim_packet_body : sim body_rel packet_body packet_body.
Proof.
  unfold packet_body. apply (sim_bind shifted_off body_rel); [apply sim_ioffset|]. intros os os0 Hos.
  apply sim_bind_eq; [apply sim_parse_packet_header|]. intros h.
  apply (sim_bind (fun af af0 => af = af0 /\ match af0 with Some a => 0 <= PacketAdaptationField_Length a | None => True end) body_rel).
  - destruct (PacketHeader_HasAdaptationField h); [|apply sim_iret; split; [reflexivity|exact I]].
    apply (sim_bind af_rel _); [apply sim_parse_af|]. intros a a0 [-> Hl]. apply sim_iret. split; [reflexivity|exact Hl].
  - intros af af0 [-> Hl]. apply sim_iret. split; [reflexivity|]. split; [exact Hos|exact Hl].
Qed.

Lemma payloadOffset_shift os os0 h a : shifted_off os os0 -> 0 <= PacketAdaptationField_Length a ->
  shifted_off (payloadOffset os h a) (payloadOffset os0 h a).
Proof.
  intros [-> H0] Hl. unfold payloadOffset, shifted_off. destruct (PacketHeader_HasAdaptationField h); lia.
Qed.

Lemma sim_parse_packet_tail p0 os os0 : shifted_off os os0 ->
  match Packet_AdaptationField p0 with Some a => 0 <= PacketAdaptationField_Length a | None => True end ->
  sim eq (parse_packet_tail p0 os) (parse_packet_tail p0 os0).
Proof.
  intros Hos Hl. unfold parse_packet_tail. destruct (PacketHeader_HasPayload (Packet_Header p0)); [|apply sim_iret; reflexivity].
  apply sim_bind_eq.
  - apply sim_iseek. apply payloadOffset_shift; [exact Hos|].
    destruct (Packet_AdaptationField p0); cbn [odflt]; [exact Hl|cbn; lia].
  - intros _. apply sim_bind_eq; [apply sim_idump|]. intros pl. apply sim_iret. reflexivity.
Qed.

Definition packet_rest (skip : Packet -> bool) : IM Packet :=
  '(p0, offsetStart) <- packet_body ;;
  if skip p0 then ierr E_skipped else parse_packet_tail p0 offsetStart.

Lemma sim_packet_rest skip : sim eq (packet_rest skip) (packet_rest skip).
Proof.
  unfold packet_rest. apply (sim_bind body_rel eq); [apply sim_packet_body|].
  intros [p os] [p0 os0] [Hp [Hos Hl]]. cbn [fst snd] in *. subst p.
  destruct (skip p0); [apply sim_ierr|]. apply sim_parse_packet_tail; assumption.
Qed.

End Shift.

(* ================= parsePacket = sync byte, seek, then the shift-invariant rest ================= *)

Lemma parse_packet_head_split b tl :
  parse_packet_head (new_iter (b :: tl)) =
  if negb (b =? syncByte) then Err E_sync
  else packet_body (mk_iter (b :: tl) (Z.of_nat (length (b :: tl)) - C_MpegTsPacketSize + 1)).
Proof.
  unfold parse_packet_head, ibind at 1. unfold next_byte, new_iter, ilen. cbn [ibs ioff].
  assert (E : (Z.of_nat (length (b :: tl)) <? 0 + 1) = false) by (cbn [length]; lia).
  rewrite E. cbn [Z.ltb Z.compare Z.to_nat nth]. change (0 <? 0) with false. cbn iota.
  destruct (negb (b =? syncByte)); [reflexivity|].
  unfold ibind at 1. unfold ilength, ilen. cbn [ibs ioff]. unfold ibind at 1. unfold iseek. cbn [ibs ioff].
  reflexivity.
Qed.

Lemma parse_packet_split skip b tl :
  parse_packet skip (new_iter (b :: tl)) =
  if negb (b =? syncByte) then Err E_sync
  else packet_rest skip (mk_iter (b :: tl) (Z.of_nat (length (b :: tl)) - C_MpegTsPacketSize + 1)).
Proof.
  unfold parse_packet, packet_rest. unfold ibind at 1 2. rewrite parse_packet_head_split.
  destruct (negb (b =? syncByte)); reflexivity.
Qed.

(* a buffer of 188+k bytes reduced to its 188-byte form: the first byte and the last 187 *)
Definition narrow (b : list Z) : list Z :=
  match b with
  | [] => []
  | x :: t => x :: skipn (length t - 187) t
  end.

Lemma narrow_wide x extra rest : length rest = 187%nat -> narrow (x :: extra ++ rest) = x :: rest.
Proof.
  intros H. cbn [narrow]. f_equal. rewrite app_length, H.
  replace (length extra + 187 - 187)%nat with (length extra + 0)%nat by lia.
  rewrite skipn_app, Nat.add_0_r, skipn_all, Nat.sub_diag. reflexivity.
Qed.

Lemma narrow_188 b : length b = 188%nat -> narrow b = b.
Proof. destruct b as [|x t]; [discriminate|]. cbn [length narrow]. intros H. replace (length t - 187)%nat with 0%nat by lia. reflexivity. Qed.

Lemma narrow_length b : (188 <= length b)%nat -> length (narrow b) = 188%nat.
Proof. destruct b as [|x t]; cbn [length narrow]; [lia|]. intros H. rewrite skipn_length. lia. Qed.

Lemma narrow_bytes_ok b : bytes_ok b -> bytes_ok (narrow b).
Proof.
  destruct b as [|x t]; [auto|]. unfold bytes_ok. cbn [narrow]. intros H. inversion H; subst. constructor; [assumption|].
  apply Forall_forall. intros y Hy. apply In_skipn in Hy. rewrite Forall_forall in H3. auto.
Qed.

(* both buffers are shifts of the iterator over the last 187 bytes *)
Lemma wide_shifted x extra rest :
  shifted (x :: extra) (mk_iter (x :: extra ++ rest) (Z.of_nat (length (x :: extra ++ rest)) - Z.of_nat (length rest))) (new_iter rest).
Proof.
  split; cbn [ibs ioff new_iter]; [reflexivity|]. cbn [length]. rewrite app_length. lia.
Qed.

Section Wide.
Variables (x : Z) (extra rest : list Z).
Hypothesis Hrest : Z.of_nat (length rest) = 187.

Let iw := mk_iter (x :: extra ++ rest) (Z.of_nat (length (x :: extra ++ rest)) - C_MpegTsPacketSize + 1).
Let inr := mk_iter (x :: rest) (Z.of_nat (length (x :: rest)) - C_MpegTsPacketSize + 1).

Lemma iw_shifted : shifted (x :: extra) iw (new_iter rest).
Proof.
  pose proof (wide_shifted x extra rest) as H. unfold iw.
  replace (Z.of_nat (length (x :: extra ++ rest)) - C_MpegTsPacketSize + 1)
    with (Z.of_nat (length (x :: extra ++ rest)) - Z.of_nat (length rest)); [exact H|].
  rewrite Hrest. change C_MpegTsPacketSize with 188. lia.
Qed.

Lemma inr_shifted : shifted [x] inr (new_iter rest).
Proof.
  pose proof (wide_shifted x [] rest) as H. cbn [app] in H. unfold inr.
  replace (Z.of_nat (length (x :: rest)) - C_MpegTsPacketSize + 1)
    with (Z.of_nat (length (x :: rest)) - Z.of_nat (length rest)); [exact H|].
  rewrite Hrest. change C_MpegTsPacketSize with 188. lia.
Qed.

(* two runs that simulate the same run agree *)
Lemma sim_two {A} (V V' : A -> A -> Prop) (m : IM A) (R : A -> A -> Prop) :
  (forall a a' a0, V a a0 -> V' a' a0 -> R a a') ->
  sim (x :: extra) V m m -> sim [x] V' m m ->
  match m iw, m inr with
  | Ok (a, _), Ok (a', _) => R a a'
  | Err c, Err c' => c = c'
  | Panic, Panic => True
  | _, _ => False
  end.
Proof.
  intros HR Hw Hn.
  specialize (Hw iw (new_iter rest) iw_shifted ltac:(cbn; lia)).
  specialize (Hn inr (new_iter rest) inr_shifted ltac:(cbn; lia)).
  destruct (m (new_iter rest)) as [[a0 j0]|c|].
  - destruct Hw as [a [j [E [Hv _]]]]. destruct Hn as [a' [j' [E' [Hv' _]]]]. rewrite E, E'. eapply HR; eassumption.
  - rewrite Hw, Hn. reflexivity.
  - rewrite Hw, Hn. exact I.
Qed.

Lemma packet_rest_wide skip : res_map fst (packet_rest skip iw) = res_map fst (packet_rest skip inr).
Proof.
  pose proof (sim_two eq eq (packet_rest skip) eq ltac:(intros; congruence)
                (sim_packet_rest (x :: extra) skip) (sim_packet_rest [x] skip)) as H.
  destruct (packet_rest skip iw) as [[a j]|c|], (packet_rest skip inr) as [[a' j']|c'|]; cbn [res_map fst]; try contradiction; congruence.
Qed.

Lemma packet_body_wide :
  res_map (fun r => fst (fst r)) (packet_body iw) = res_map (fun r => fst (fst r)) (packet_body inr).
Proof.
  pose proof (sim_two (body_rel (x :: extra)) (body_rel [x]) packet_body (fun a a' => fst a = fst a')
                ltac:(intros a a' a0 [H1 _] [H2 _]; congruence)
                (sim_packet_body (x :: extra)) (sim_packet_body [x])) as H.
  destruct (packet_body iw) as [[a j]|c|], (packet_body inr) as [[a' j']|c'|]; cbn [res_map fst]; try contradiction; congruence.
Qed.

End Wide.

(* C08 (e): for EVERY first byte, every k = |extra| >= 0 extra bytes and every 187 last bytes (no assumption that the
   bytes are in range, that the sync byte is right or that the packet is well formed), every skipper *)
Theorem parse_packet_wide skip x extra rest : Z.of_nat (length rest) = 187 ->
  run_iter (parse_packet skip) (x :: extra ++ rest) = run_iter (parse_packet skip) (x :: rest).
Proof.
  intros H. unfold run_iter. rewrite !parse_packet_split.
  destruct (negb (x =? syncByte)); [reflexivity|]. apply packet_rest_wide. exact H.
Qed.

(* ... and the packet shown to the PacketSkipper (header + adaptation field) is the same *)
Theorem parse_packet_head_wide x extra rest : Z.of_nat (length rest) = 187 ->
  res_map fst (run_iter parse_packet_head (x :: extra ++ rest)) = res_map fst (run_iter parse_packet_head (x :: rest)).
Proof.
  intros H. unfold run_iter. rewrite !parse_packet_head_split.
  destruct (negb (x =? syncByte)); [reflexivity|].
  pose proof (packet_body_wide x extra rest H) as E.
  match goal with |- res_map fst (res_map fst ?A) = res_map fst (res_map fst ?B) =>
    destruct A as [[a j]|c|], B as [[a' j']|c'|]; cbn [res_map fst] in *; congruence end.
Qed.

(* the literal statement kept so far as Definition C08_wide_full *)
Corollary parse_packet_wide_sync skip extra rest : Z.of_nat (length rest) = 187 ->
  run_iter (parse_packet skip) (syncByte :: extra ++ rest) = run_iter (parse_packet skip) (syncByte :: rest).
Proof. apply parse_packet_wide. Qed.

(* ---- every buffer of at least 188 bytes parses like its 188-byte form ---- *)

Lemma split_wide b : (188 <= length b)%nat ->
  exists x extra rest, b = x :: extra ++ rest /\ length rest = 187%nat /\ narrow b = x :: rest.
Proof.
  destruct b as [|x t]; cbn [length]; [lia|]. intros H.
  exists x, (firstn (length t - 187) t), (skipn (length t - 187) t).
  rewrite firstn_skipn. split; [reflexivity|]. split; [rewrite skipn_length; lia|reflexivity].
Qed.

Theorem parse_packet_narrow skip b : (188 <= length b)%nat ->
  run_iter (parse_packet skip) b = run_iter (parse_packet skip) (narrow b).
Proof.
  intros H. destruct (split_wide b H) as [x [extra [rest [-> [Hr ->]]]]]. apply parse_packet_wide. lia.
Qed.

Theorem skipped_narrow skip b : (188 <= length b)%nat -> skipped skip b = skipped skip (narrow b).
Proof.
  intros H. destruct (split_wide b H) as [x [extra [rest [-> [Hr ->]]]]]. unfold skipped.
  pose proof (parse_packet_head_wide x extra rest ltac:(lia)) as E.
  destruct (run_iter parse_packet_head (x :: extra ++ rest)) as [[p o]|c|],
           (run_iter parse_packet_head (x :: rest)) as [[p' o']|c'|]; cbn [res_map fst] in E; congruence.
Qed.

(* ---- streams: what successive NextPacket calls return on a list of 188+k-byte buffers ---- *)

Definition wide_enough (b : list Z) : Prop := (188 <= length b)%nat.

Theorem first_unskipped_narrow skip bufs : Forall wide_enough bufs ->
  fst (first_unskipped skip (map narrow bufs)) = fst (first_unskipped skip bufs) /\
  snd (first_unskipped skip (map narrow bufs)) = map narrow (snd (first_unskipped skip bufs)).
Proof.
  induction 1 as [|b r Hb Hr IH]; [split; reflexivity|].
  cbn [map first_unskipped]. rewrite <- (skipped_narrow skip b Hb).
  destruct (skipped skip b); [exact IH|].
  cbn [fst snd]. rewrite <- (parse_packet_narrow no_skip b Hb). split; reflexivity.
Qed.

Lemma first_unskipped_rest_wide skip bufs : Forall wide_enough bufs -> Forall wide_enough (snd (first_unskipped skip bufs)).
Proof.
  induction 1 as [|b r Hb Hr IH]; [constructor|]. cbn [first_unskipped]. destruct (skipped skip b); [exact IH|exact Hr].
Qed.

(* every result of every call, to the end of the stream *)
Theorem all_packets_narrow skip fuel : forall bufs, Forall wide_enough bufs ->
  all_packets fuel skip (map narrow bufs) = all_packets fuel skip bufs.
Proof.
  induction fuel as [|k IH]; intros bufs H; [reflexivity|].
  cbn [all_packets]. destruct (first_unskipped_narrow skip bufs H) as [H1 H2].
  pose proof (first_unskipped_rest_wide skip bufs H) as H3.
  destruct (first_unskipped skip (map narrow bufs)) as [r' rest'], (first_unskipped skip bufs) as [r rest].
  cbn [fst snd] in *. subst r' rest'. f_equal.
  destruct r as [p|c|]; try (apply IH; exact H3). destruct (c =? E_nomore); [reflexivity|apply IH; exact H3].
Qed.

(* ---- packetBuffer.next on a reader over the wide stream vs a reader over its 188-byte form ---- *)

Lemma map_narrow_ok size bufs : C_MpegTsPacketSize <= size -> Forall (buf_ok size) bufs ->
  Forall (buf_ok C_MpegTsPacketSize) (map narrow bufs) /\ Forall wide_enough bufs.
Proof.
  intros Hs H. induction H as [|b r [Hl Hb] Hr [IH1 IH2]]; [split; constructor|].
  assert (Hw : wide_enough b) by (unfold wide_enough; change C_MpegTsPacketSize with 188 in Hs; lia).
  split; constructor; auto. split; [rewrite narrow_length by exact Hw; reflexivity|apply narrow_bytes_ok; exact Hb].
Qed.

(* the packet a NextPacket call returns from a stream of [size]-byte packets (size = 188+k) is the packet it returns
   from the stream of their 188-byte forms, for every skipper, every position in the stream and whatever trails the
   last whole packet *)
Theorem pb_next_wide skip size bufs fuel fuel' r r' tail tail' : C_MpegTsPacketSize <= size ->
  reader_ok r -> r_rest r = concat bufs ++ tail -> Forall (buf_ok size) bufs -> Z.of_nat (length tail) < size ->
  reader_ok r' -> r_rest r' = concat (map narrow bufs) ++ tail' -> Z.of_nat (length tail') < C_MpegTsPacketSize ->
  (length bufs < fuel)%nat -> (length bufs < fuel')%nat ->
  fst (fst (pb_next fuel skip size r)) = fst (fst (pb_next fuel' skip C_MpegTsPacketSize r')) /\
  (fst (first_unskipped skip bufs) <> Err E_nomore ->
   r_rest (snd (fst (pb_next fuel skip size r))) = concat (snd (first_unskipped skip bufs)) ++ tail /\
   r_rest (snd (fst (pb_next fuel' skip C_MpegTsPacketSize r'))) = concat (map narrow (snd (first_unskipped skip bufs))) ++ tail').
Proof.
  intros Hs Hok Hr Hall Htail Hok' Hr' Htail' Hf Hf'.
  destruct (map_narrow_ok size bufs Hs Hall) as [Hall' Hw].
  destruct (pb_next_refines skip size bufs fuel r tail Hs Hok Hr Hall Htail Hf) as [A1 [A2 A3]].
  destruct (pb_next_refines skip C_MpegTsPacketSize (map narrow bufs) fuel' r' tail' ltac:(lia) Hok' Hr' Hall' Htail'
              ltac:(rewrite map_length; exact Hf')) as [B1 [B2 B3]].
  destruct (first_unskipped_narrow skip bufs Hw) as [C1 C2].
  split; [rewrite A1, B1, C1; reflexivity|].
  intros Hne. split; [apply A3; exact Hne|]. rewrite B3, C2; [reflexivity|]. rewrite C1. exact Hne.
Qed.

(* ================= the whole demuxer on a wide stream: packets AND data ================= *)

Definition sized (size : Z) (b : list Z) : Prop := Z.of_nat (length b) = size.

Lemma concat_sized size bufs : Forall (sized size) bufs ->
  Z.of_nat (length (concat bufs)) = size * Z.of_nat (length bufs).
Proof. induction 1 as [|b r Hb Hr IH]; cbn [concat length]; [lia|]. rewrite app_length. unfold sized in Hb. lia. Qed.

(* reader r holds n whole size-byte buffers and a short tail; r' holds their 188-byte forms and a short tail *)
Definition rd_rel (size : Z) (n : nat) (r r' : reader) : Prop :=
  exists bufs tail tail', length bufs = n /\ reader_ok r /\ reader_ok r' /\
    r_rest r = concat bufs ++ tail /\ r_rest r' = concat (map narrow bufs) ++ tail' /\
    Forall (sized size) bufs /\ Z.of_nat (length tail) < size /\ Z.of_nat (length tail') < C_MpegTsPacketSize.

Lemma rd_rel_intro size bufs tail tail' r r' : reader_ok r -> reader_ok r' ->
  r_rest r = concat bufs ++ tail -> r_rest r' = concat (map narrow bufs) ++ tail' ->
  Forall (sized size) bufs -> Z.of_nat (length tail) < size -> Z.of_nat (length tail') < C_MpegTsPacketSize ->
  rd_rel size (length bufs) r r'.
Proof. intros. exists bufs, tail, tail'. split; [reflexivity|]. do 6 (split; [assumption|]). assumption. Qed.

Lemma read_full_eof r size : reader_ok r -> Z.of_nat (length (r_rest r)) < size ->
  exists bs e r1, read_full r size = ((bs, Some e), r1) /\ e <> RInjected /\ reader_ok r1 /\ r_rest r1 = [].
Proof.
  intros [Hf Hl] Hlt. unfold read_full, r_stop. rewrite Hf. unfold r_len.
  destruct (size <=? Z.max 0 (r_total r - r_pos r)) eqn:E; [lia|].
  eexists _, _, _. split; [reflexivity|]. split; [destruct (Z.max 0 (r_total r - r_pos r) =? 0); discriminate|].
  split.
  - split; [exact Hf|]. cbn [r_advance r_total r_pos r_rest]. rewrite skipn_length. lia.
  - cbn [r_advance r_rest]. apply skipn_all2. lia.
Qed.

Lemma pb_next_sim skip size : C_MpegTsPacketSize <= size -> forall bufs fuel fuel' r r' tail tail',
  reader_ok r -> reader_ok r' -> r_rest r = concat bufs ++ tail -> r_rest r' = concat (map narrow bufs) ++ tail' ->
  Forall (sized size) bufs -> Z.of_nat (length tail) < size -> Z.of_nat (length tail') < C_MpegTsPacketSize ->
  (length bufs < fuel)%nat -> (length bufs < fuel')%nat ->
  fst (fst (pb_next fuel skip size r)) = fst (fst (pb_next fuel' skip C_MpegTsPacketSize r')) /\
  exists n2, (n2 <= length bufs)%nat /\
    (is_ok (fst (fst (pb_next fuel skip size r))) = true -> (n2 < length bufs)%nat) /\
    rd_rel size n2 (snd (fst (pb_next fuel skip size r))) (snd (fst (pb_next fuel' skip C_MpegTsPacketSize r'))).
Proof.
  intros Hs. induction bufs as [|b rest IH]; intros fuel fuel' r r' tail tail' Hok Hok' Hr Hr' Hall Ht Ht' Hf Hf'.
  - destruct fuel as [|k]; [simpl in Hf; lia|]. destruct fuel' as [|k']; [simpl in Hf'; lia|].
    cbn [pb_next]. cbn [map concat app] in Hr, Hr'.
    destruct (read_full_eof r size Hok ltac:(rewrite Hr; exact Ht)) as (bs & e & r1 & E1 & Hne & Hok1 & Hr1).
    destruct (read_full_eof r' C_MpegTsPacketSize Hok' ltac:(rewrite Hr'; exact Ht')) as (bs' & e' & r1' & E1' & Hne' & Hok1' & Hr1').
    rewrite E1, E1'.
    assert (G : rd_rel size 0 r1 r1').
    { apply (rd_rel_intro size [] [] []); cbn [map concat app length]; auto; try constructor; change C_MpegTsPacketSize with 188 in *; lia. }
    destruct e, e'; try contradiction; cbn [fst snd]; (split; [reflexivity|]); exists 0%nat;
      (split; [cbn; lia|]); (split; [discriminate|exact G]).
  - destruct fuel as [|k]; [simpl in Hf; lia|]. destruct fuel' as [|k']; [simpl in Hf'; lia|].
    inversion Hall as [|? ? Hb Hrest]; subst.
    assert (Hw : (188 <= length b)%nat) by (unfold sized in Hb; change C_MpegTsPacketSize with 188 in Hs; lia).
    cbn [map concat] in Hr, Hr'. rewrite <- app_assoc in Hr, Hr'.
    destruct (read_full_buf r size b (concat rest ++ tail) Hok Hr Hb) as [H1 [H2 H3]].
    destruct (read_full_buf r' C_MpegTsPacketSize (narrow b) (concat (map narrow rest) ++ tail') Hok' Hr'
                ltac:(rewrite narrow_length by exact Hw; reflexivity)) as [H1' [H2' H3']].
    cbn [pb_next]. rewrite H1, H1'. rewrite <- (parse_packet_narrow skip b Hw).
    assert (G : rd_rel size (length rest) (r_advance r size) (r_advance r' C_MpegTsPacketSize)).
    { apply (rd_rel_intro size rest tail tail'); assumption. }
    destruct (run_iter (parse_packet skip) b) as [p|c|].
    + cbn [fst snd]. split; [reflexivity|]. exists (length rest). cbn [length]. split; [lia|]. split; [intros _; lia|exact G].
    + destruct (c =? E_skipped).
      * specialize (IH k k' _ _ tail tail' H2 H2' H3 H3' Hrest Ht Ht' ltac:(simpl in Hf; lia) ltac:(simpl in Hf'; lia)).
        destruct (pb_next k skip size (r_advance r size)) as [[x r2] l],
                 (pb_next k' skip C_MpegTsPacketSize (r_advance r' C_MpegTsPacketSize)) as [[x' r2'] l'].
        cbn [fst snd] in *. destruct IH as [I1 (n2 & I2 & I3 & I4)]. split; [exact I1|].
        exists n2. split; [cbn [length]; lia|]. split; [intros Hx; specialize (I3 Hx); cbn [length]; lia|exact I4].
      * cbn [fst snd]. split; [reflexivity|]. exists (length rest). cbn [length]. split; [lia|]. split; [intros _; lia|exact G].
    + cbn [fst snd]. split; [reflexivity|]. exists (length rest). cbn [length]. split; [lia|]. split; [intros _; lia|exact G].
Qed.

Lemma rd_rel_fuel size n r r' : C_MpegTsPacketSize <= size -> rd_rel size n r r' ->
  (n < packets_left r size)%nat /\ (n < packets_left r' C_MpegTsPacketSize)%nat /\
  (n + 1 < S (S (Z.to_nat ((r_len r - r_pos r) / 188))))%nat /\ (n + 1 < S (S (Z.to_nat ((r_len r' - r_pos r') / 188))))%nat.
Proof.
  intros Hs (bufs & tail & tail' & Hn & [_ Hl] & [_ Hl'] & Hr & Hr' & Hall & Ht & Ht').
  change C_MpegTsPacketSize with 188 in *.
  assert (Hall' : Forall (sized 188) (map narrow bufs)).
  { clear -Hall Hs. induction Hall as [|b r Hb Hr IH]; constructor; auto. unfold sized in *. rewrite narrow_length; lia. }
  pose proof (concat_sized size bufs Hall) as C. pose proof (concat_sized 188 _ Hall') as C'. rewrite map_length in C'.
  rewrite Hr, app_length in Hl. rewrite Hr', app_length in Hl'. unfold packets_left, r_len. rewrite Hn in *.
  set (N := Z.of_nat n) in *. set (t := Z.of_nat (length tail)) in *. set (t' := Z.of_nat (length tail')) in *.
  assert (E1 : (r_total r - r_pos r) / Z.max 1 size = N).
  { symmetry. apply (Z.div_unique_pos _ _ N t); lia. }
  assert (E2 : (r_total r' - r_pos r') / Z.max 1 188 = N).
  { symmetry. apply (Z.div_unique_pos _ _ N t'); lia. }
  assert (E3 : N <= (r_total r - r_pos r) / 188).
  { apply Z.div_le_lower_bound; nia. }
  assert (E4 : (r_total r' - r_pos r') / 188 = N).
  { symmetry. apply (Z.div_unique_pos _ _ N t'); lia. }
  rewrite E1, E2, E4. unfold N in *. repeat split; lia.
Qed.

(* the two demuxer states: same data buffer, pool and program map; packet buffers of size / 188 (or none yet, with
   these sizes as the option); readers as above.  The ghost logs are not constrained. *)
Definition wrel (size : Z) (n : nat) (s s' : dstate) : Prop :=
  d_buffer s' = d_buffer s /\ d_pool s' = d_pool s /\ d_pm s' = d_pm s /\
  ((d_pb s = None /\ d_pb s' = None /\ d_opt_size s = size /\ d_opt_size s' = C_MpegTsPacketSize) \/
   (d_pb s = Some (mk_pbuf size) /\ d_pb s' = Some (mk_pbuf C_MpegTsPacketSize))) /\
  rd_rel size n (d_reader s) (d_reader s').

Lemma wrel_set_pool size n s s' pl : wrel size n s s' -> wrel size n (set_pool s pl) (set_pool s' pl).
Proof. intros (Hb & Hpl & Hpm & Hpb & Hr). unfold wrel, set_pool. cbn. auto 10. Qed.

Lemma wrel_log_group size n s s' g g' : wrel size n s s' -> wrel size n (log_group s g) (log_group s' g').
Proof. intros (Hb & Hpl & Hpm & Hpb & Hr). unfold wrel, log_group. cbn. auto 10. Qed.

Lemma update_data_wide size n s s' ds : wrel size n s s' ->
  fst (update_data s ds) = fst (update_data s' ds) /\ wrel size n (snd (update_data s ds)) (snd (update_data s' ds)).
Proof.
  intros H. destruct ds as [|d rest]; [split; [reflexivity|exact H]|].
  destruct H as (Hb & Hpl & Hpm & Hpb & Hr). cbn [update_data fst snd]. split; [reflexivity|].
  unfold wrel. cbn. rewrite Hb, Hpm. auto 10.
Qed.

Section WideDemux.
Variables (P : dparsers) (prs : option custom_parser) (skip : Packet -> bool) (size : Z).
Hypothesis Hsize : C_MpegTsPacketSize <= size.

Lemma packet_buffer_next_wide n r r' : rd_rel size n r r' ->
  fst (fst (packet_buffer_next skip (mk_pbuf size) r)) = fst (fst (packet_buffer_next skip (mk_pbuf C_MpegTsPacketSize) r')) /\
  exists n2, (n2 <= n)%nat /\
    (is_ok (fst (fst (packet_buffer_next skip (mk_pbuf size) r))) = true -> (n2 < n)%nat) /\
    rd_rel size n2 (snd (fst (packet_buffer_next skip (mk_pbuf size) r)))
                   (snd (fst (packet_buffer_next skip (mk_pbuf C_MpegTsPacketSize) r'))).
Proof.
  intros H. destruct (rd_rel_fuel size n r r' Hsize H) as (F1 & F2 & _).
  destruct H as (bufs & tail & tail' & Hn & Hok & Hok' & Hr & Hr' & Hall & Ht & Ht'). subst n.
  unfold packet_buffer_next. cbn [pb_size]. change C_MpegTsPacketSize with 188 in *.
  destruct (size <? 0) eqn:E1; [lia|]. destruct (size =? 0) eqn:E2; [lia|].
  change (188 <? 0) with false. change (188 =? 0) with false. cbn iota.
  exact (pb_next_sim skip size Hsize bufs _ _ r r' tail tail' Hok Hok' Hr Hr' Hall Ht Ht' F1 F2).
Qed.

Lemma next_packet_wide n s s' : wrel size n s s' ->
  fst (next_packet skip s) = fst (next_packet skip s') /\
  exists n2, (n2 <= n)%nat /\ (is_ok (fst (next_packet skip s)) = true -> (n2 < n)%nat) /\
    wrel size n2 (snd (next_packet skip s)) (snd (next_packet skip s')).
Proof.
  intros (Hb & Hpl & Hpm & Hpb & Hr).
  destruct (packet_buffer_next_wide n _ _ Hr) as [B1 (n2 & B2 & B3 & B4)].
  unfold next_packet. destruct Hpb as [(E1 & E2 & E3 & E4)|(E1 & E2)].
  - rewrite E1, E2, E3, E4. unfold new_packet_buffer. change C_MpegTsPacketSize with 188 in *.
    destruct (size =? 0) eqn:Ez; [lia|]. change (188 =? 0) with false. cbn iota.
    cbn [set_pb set_reader d_reader].
    destruct (packet_buffer_next skip (mk_pbuf size) (d_reader s)) as [[rp r1] l],
             (packet_buffer_next skip (mk_pbuf 188) (d_reader s')) as [[rp' r1'] l']. cbn [fst snd] in *.
    split; [exact B1|]. exists n2. split; [exact B2|]. split; [exact B3|].
    unfold wrel, log_consulted, set_reader. cbn. repeat split; auto.
  - rewrite E1, E2.
    destruct (packet_buffer_next skip (mk_pbuf size) (d_reader s)) as [[rp r1] l],
             (packet_buffer_next skip (mk_pbuf C_MpegTsPacketSize) (d_reader s')) as [[rp' r1'] l']. cbn [fst snd] in *.
    split; [exact B1|]. exists n2. split; [exact B2|]. split; [exact B3|].
    unfold wrel, log_consulted, set_reader. cbn. repeat split; auto.
Qed.

Lemma drain_wide n fuel : forall s s', wrel size n s s' ->
  fst (drain P prs fuel s) = fst (drain P prs fuel s') /\ wrel size n (snd (drain P prs fuel s)) (snd (drain P prs fuel s')).
Proof.
  induction fuel as [|k IH]; intros s s' H; [split; [reflexivity|exact H]|].
  cbn [drain]. assert (Hpl : d_pool s' = d_pool s) by apply H. rewrite Hpl.
  destruct (pool_dump (d_pool s)) as [pl1 ps].
  pose proof (wrel_set_pool size n s s' pl1 H) as H0.
  destruct ps as [|p0 t]; [split; [reflexivity|exact H0]|].
  pose proof (wrel_log_group size n _ _ (p0 :: t) (p0 :: t) H0) as H1.
  set (s1 := log_group (set_pool s pl1) (p0 :: t)) in *.
  set (s1' := log_group (set_pool s' pl1) (p0 :: t)) in *.
  assert (Hpm : d_pm s1' = d_pm s1) by apply H1. rewrite Hpm.
  destruct (parse_data P prs (d_pm s1) (p0 :: t)) as [ds|c|].
  - destruct (update_data_wide size n s1 s1' ds H1) as [U1 U2].
    destruct (update_data s1 ds) as [[dd|] s2], (update_data s1' ds) as [[dd'|] s2']; cbn [fst snd] in *; try discriminate.
    + inversion U1; subst. split; [reflexivity|exact U2].
    + apply IH; assumption.
  - apply IH; assumption.
  - split; [reflexivity|exact H1].
Qed.

Lemma loop_wide fuel : forall fuel' n s s', wrel size n s s' -> (n + 1 < fuel)%nat -> (n + 1 < fuel')%nat ->
  fst (next_data_loop P prs skip fuel s) = fst (next_data_loop P prs skip fuel' s') /\
  exists n2, (n2 <= n)%nat /\ wrel size n2 (snd (next_data_loop P prs skip fuel s)) (snd (next_data_loop P prs skip fuel' s')).
Proof.
  induction fuel as [|k IH]; intros fuel' n s s' H Hf Hf'; [lia|]. destruct fuel' as [|k']; [lia|].
  cbn [next_data_loop].
  destruct (next_packet_wide n s s' H) as [N1 (n2 & N2 & N3 & N4)].
  destruct (next_packet skip s) as [rp s1], (next_packet skip s') as [rp' s1']. cbn [fst snd] in *. subst rp'.
  assert (Hpl : d_pool s1' = d_pool s1) by apply N4. assert (Hpm : d_pm s1' = d_pm s1) by apply N4.
  destruct rp as [p|c|].
  - specialize (N3 eq_refl). rewrite Hpl, Hpm.
    destruct (pool_add (d_pm s1) (d_pool s1) p) as [pl1 ps].
    pose proof (wrel_set_pool size n2 s1 s1' pl1 N4) as H0.
    destruct ps as [|p0 t].
    { destruct (IH k' n2 _ _ H0 ltac:(lia) ltac:(lia)) as [I1 (n3 & I2 & I3)]. split; [exact I1|]. exists n3. split; [lia|exact I3]. }
    pose proof (wrel_log_group size n2 _ _ (p0 :: t) (p0 :: t) H0) as H1.
    set (s2 := log_group (set_pool s1 pl1) (p0 :: t)) in *.
    set (s2' := log_group (set_pool s1' pl1) (p0 :: t)) in *.
    assert (Hpm2 : d_pm s2' = d_pm s2) by apply H1. rewrite Hpm2.
    destruct (parse_data P prs (d_pm s2) (p0 :: t)) as [ds|c|]; try (split; [reflexivity|exists n2; split; [lia|exact H1]]).
    destruct (update_data_wide size n2 s2 s2' ds H1) as [U1 U2].
    destruct (update_data s2 ds) as [[dd|] s3], (update_data s2' ds) as [[dd'|] s3']; cbn [fst snd] in *; try discriminate.
    + inversion U1; subst. split; [reflexivity|]. exists n2. split; [lia|exact U2].
    + destruct (IH k' n2 _ _ U2 ltac:(lia) ltac:(lia)) as [I1 (n3 & I2 & I3)]. split; [exact I1|]. exists n3. split; [lia|exact I3].
  - destruct (c =? E_nomore).
    + rewrite Hpl. destruct (drain_wide n2 (S (length (d_pool s1))) s1 s1' N4) as [D1 D2]. split; [exact D1|]. exists n2. split; [lia|exact D2].
    + split; [reflexivity|]. exists n2. split; [lia|exact N4].
  - split; [reflexivity|]. exists n2. split; [lia|exact N4].
Qed.

Lemma call_wide c n s s' : wrel size n s s' ->
  fst (call P prs skip c s) = fst (call P prs skip c s') /\
  exists n2, wrel size n2 (snd (call P prs skip c s)) (snd (call P prs skip c s')).
Proof.
  intros H. destruct c; cbn [call].
  - destruct (next_packet_wide n s s' H) as [N1 (n2 & _ & _ & N4)].
    destruct (next_packet skip s) as [rp s1], (next_packet skip s') as [rp' s1']. cbn [fst snd] in *. subst rp'.
    split; [reflexivity|]. exists n2. exact N4.
  - unfold next_data. assert (Hb : d_buffer s' = d_buffer s) by apply H. rewrite Hb.
    destruct (d_buffer s) as [|dd rest] eqn:E.
    + assert (Hr : rd_rel size n (d_reader s) (d_reader s')) by apply H.
      destruct (rd_rel_fuel size n _ _ Hsize Hr) as (_ & _ & F3 & F4).
      destruct (loop_wide (nd_fuel s) (nd_fuel s') n s s' H F3 F4) as [L1 (n2 & _ & L3)].
      destruct (next_data_loop P prs skip (nd_fuel s) s) as [rp s1], (next_data_loop P prs skip (nd_fuel s') s') as [rp' s1'].
      cbn [fst snd] in *. subst rp'. split; [reflexivity|]. exists n2. exact L3.
    + cbn [fst snd]. split; [reflexivity|]. exists n.
      destruct H as (_ & Hpl & Hpm & Hpb & Hr). unfold wrel. cbn. auto 10.
Qed.

Lemma calls_wide_rel cs : forall n s s', wrel size n s s' -> calls P prs skip cs s = calls P prs skip cs s'.
Proof.
  induction cs as [|c r IH]; intros n s s' H; [reflexivity|].
  cbn [calls]. destruct (call_wide c n s s' H) as [C1 (n2 & C2)].
  destruct (call P prs skip c s) as [x s1], (call P prs skip c s') as [x' s1']. cbn [fst snd] in *. subst x'.
  f_equal. exact (IH n2 _ _ C2).
Qed.

(* C08 (e), whole demuxer: a stream of [size]-byte packets (size = 188+k given explicitly, any k), followed by any
   short tail, read through any kind of reader, gives for EVERY sequence of NextPacket / NextData calls -- with any
   unit parsers, packets parser and skipper -- exactly the results (packets, data, errors) of the stream of the
   188-byte forms read with packet size 188 *)
Theorem calls_wide cs bufs tail tail' k k' : Forall (sized size) bufs ->
  Z.of_nat (length tail) < size -> Z.of_nat (length tail') < C_MpegTsPacketSize ->
  calls P prs skip cs (init_dstate (new_reader (concat bufs ++ tail) None k) size) =
  calls P prs skip cs (init_dstate (new_reader (concat (map narrow bufs) ++ tail') None k') C_MpegTsPacketSize).
Proof.
  intros Hall Ht Ht'. apply (calls_wide_rel cs (length bufs)).
  unfold wrel, init_dstate. cbn [d_buffer d_pool d_pm d_pb d_opt_size d_reader].
  repeat split; auto.
  apply (rd_rel_intro size bufs tail tail'); auto; unfold reader_ok, new_reader; cbn [r_fault r_total r_pos r_rest]; split; auto; lia.
Qed.

End WideDemux.
