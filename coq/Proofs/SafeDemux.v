(* C03_no_panic: in every state the Demuxer model can reach from a fresh state over bytes_ok input (any reader kind,
   with or without an injected reader fault, packet size option 0 = auto-detect or >= 188, any PacketSkipper, no
   PacketsParser or one that does not itself panic), NextPacket and NextData do not return Panic.

   Invariant: the reader is well formed (what is left is a suffix of bytes_ok input, the bookkeeping agrees), the
   packet buffer, once created, has a packet size >= 188 (so make([]byte, packetSize) and the Seek(len-188+1) of
   parsePacket are fine), every packet held by the pool has a bytes_ok payload (so the concatenated payload handed to
   the unit parsers is bytes_ok), the size option is 0 or >= 188. *)
From Coq Require Import ZArith List Lia Bool ZifyBool.
Require Import Base.Bits Base.Iter Gen.Consts Gen.Types Gen.Preds Model.Packet Model.Pool Model.Reader Model.Demux
  Model.Pes Model.Psi Model.DemuxFull.
Require Import Proofs.SafeProofs Proofs.SafeUnits Proofs.SafePsi Proofs.ReaderProofs.
Import ListNotations.
Open Scope Z_scope.

(* ---------------- the reader ---------------- *)

Definition reader_wf (r : reader) : Prop :=
  Z.of_nat (length (r_rest r)) = r_total r - r_pos r /\ bytes_ok (r_rest r) /\ bytes_ok (r_all r) /\
  r_total r = Z.of_nat (length (r_all r)) /\ 0 <= r_pos r.

Lemma new_reader_wf data f k : bytes_ok data -> reader_wf (new_reader data f k).
Proof. intros H. unfold reader_wf, new_reader. cbn. repeat split; auto; lia. Qed.

Lemma r_stop_le r : fst (r_stop r) <= r_total r.
Proof. unfold r_stop, r_len. destruct (r_fault r) as [f|]; [destruct (f <=? r_total r) eqn:E|]; cbn [fst]; lia. Qed.

Lemma bytes_ok_firstn n bs : bytes_ok bs -> bytes_ok (firstn n bs).
Proof. intros H. unfold bytes_ok in *. apply Forall_forall. intros x Hx. apply In_firstn in Hx. rewrite Forall_forall in H. auto. Qed.
Lemma bytes_ok_skipn n bs : bytes_ok bs -> bytes_ok (skipn n bs).
Proof. intros H. unfold bytes_ok in *. apply Forall_forall. intros x Hx. apply In_skipn in Hx. rewrite Forall_forall in H. auto. Qed.

Lemma r_advance_wf r n : reader_wf r -> 0 <= n <= r_total r - r_pos r -> reader_wf (r_advance r n).
Proof.
  intros (H1 & H2 & H3 & H4 & H5) Hn. unfold reader_wf, r_advance. cbn [r_rest r_total r_pos r_all].
  rewrite skipn_length. repeat split; auto; try lia. apply bytes_ok_skipn; exact H2.
Qed.

Lemma r_seek0_wf r : reader_wf r -> reader_wf (r_seek0 r).
Proof. intros (H1 & H2 & H3 & H4 & H5). unfold reader_wf, r_seek0. cbn [r_rest r_total r_pos r_all]. repeat split; auto; lia. Qed.

(* io.ReadFull: the reader stays well formed, the bytes are bytes_ok, and without an error there are exactly n *)
Lemma read_full_wf r n : reader_wf r -> 0 <= n ->
  reader_wf (snd (read_full r n)) /\ bytes_ok (fst (fst (read_full r n))) /\
  (snd (fst (read_full r n)) = None -> Z.of_nat (length (fst (fst (read_full r n)))) = n).
Proof.
  intros Hwf Hn. pose proof Hwf as (H1 & H2 & H3 & H4 & H5). pose proof (r_stop_le r) as Hs.
  unfold read_full. destruct (r_stop r) as [stop inj]. cbn [fst] in Hs.
  destruct (n <=? Z.max 0 (stop - r_pos r)) eqn:E; cbn [fst snd].
  - split; [apply r_advance_wf; [exact Hwf|lia]|]. split; [apply bytes_ok_firstn; exact H2|].
    intros _. rewrite firstn_length. lia.
  - split; [apply r_advance_wf; [exact Hwf|lia]|]. split; [apply bytes_ok_firstn; exact H2|]. discriminate.
Qed.

(* deciding bytes_ok on a concrete byte string (for Examples) *)
Definition bytes_okb (bs : list Z) : bool := forallb (fun b => (0 <=? b) && (b <? 256)) bs.
Lemma bytes_okb_ok bs : bytes_okb bs = true -> bytes_ok bs.
Proof.
  unfold bytes_okb, bytes_ok. rewrite forallb_forall, Forall_forall. intros H x Hx. specialize (H x Hx). unfold byte_ok. lia.
Qed.

(* ---------------- packets ---------------- *)

Definition packet_ok (p : Packet) : Prop := bytes_ok (Packet_Payload p).

Lemma parse_packet_head_payload i p0 off i' : parse_packet_head i = Ok ((p0, off), i') -> Packet_Payload p0 = [].
Proof.
  unfold parse_packet_head, ibind. intros H.
  repeat match type of H with
  | match ?X with _ => _ end = Ok _ => destruct X as [[? ?]|?|] eqn:?; try discriminate
  | (if ?c then _ else _) _ = Ok _ => destruct c eqn:?; try discriminate
  end.
  unfold iret in H. inversion H; subst. reflexivity.
Qed.

(* parsePacket on a buffer of at least 188 bytes_ok bytes: no panic, and the payload of the packet is bytes_ok *)
Lemma parse_packet_ok skip bs : bytes_ok bs -> C_MpegTsPacketSize <= Z.of_nat (length bs) ->
  match run_iter (parse_packet skip) bs with
  | Panic => False
  | Err c => True
  | Ok p => packet_ok p
  end.
Proof.
  intros Hb Hlen. unfold run_iter, parse_packet, ibind.
  pose proof (parse_packet_head_safe (new_iter bs) eq_refl Hb Hlen) as H.
  destruct (parse_packet_head (new_iter bs)) as [[[p0 off] i']|c|] eqn:Eh; cbn [res_map]; auto.
  destruct H as [Hoff [Hi' [Hbs Haf]]].
  destruct (skip p0); [cbn; exact I|].
  unfold parse_packet_tail. destruct (PacketHeader_HasPayload (Packet_Header p0)).
  - unfold ibind, iseek. cbn [ibs ioff].
    assert (Hpo : 0 <= payloadOffset off (Packet_Header p0) (odflt zero_PacketAdaptationField (Packet_AdaptationField p0))).
    { unfold payloadOffset. destruct (PacketHeader_HasAdaptationField (Packet_Header p0)); [|lia].
      destruct (Packet_AdaptationField p0); cbn [odflt]; [lia|cbn; lia]. }
    pose proof (safe_idump (mk_iter (ibs i') (payloadOffset off (Packet_Header p0) (odflt zero_PacketAdaptationField (Packet_AdaptationField p0))))
                  Hpo ltac:(cbn [ibs]; rewrite Hbs; exact Hb)) as Hd.
    destruct (idump _) as [[pl i'']|c|]; cbn; auto. unfold packet_ok. cbn [Packet_Payload]. tauto.
  - cbn. unfold packet_ok. rewrite (parse_packet_head_payload _ _ _ _ Eh). constructor.
Qed.

(* ---------------- the pool ---------------- *)

Definition queue_ok (q : queue) : Prop := Forall packet_ok q.
Definition pool_ok (pl : pool) : Prop := Forall (fun e => queue_ok (snd e)) pl.

Lemma concat_payload_ok ps : queue_ok ps -> bytes_ok (concat_payload ps).
Proof.
  unfold queue_ok, concat_payload, bytes_ok. induction 1 as [|p ps Hp _ IH]; cbn [flat_map]; [constructor|].
  apply Forall_app. split; [exact Hp|exact IH].
Qed.

Lemma acc_add_ok pm pid q p : queue_ok q -> packet_ok p ->
  queue_ok (fst (acc_add pm pid q p)) /\ queue_ok (snd (acc_add pm pid q p)).
Proof.
  intros Hq Hp. unfold acc_add. destruct (isSameAsPrevious q p); [cbn; split; [exact Hq|constructor]|].
  set (q1 := if resets q p then [] else q).
  assert (Hq1 : queue_ok q1) by (unfold q1; destruct (resets q p); [constructor|exact Hq]).
  assert (Hp1 : queue_ok [p]) by (repeat constructor; exact Hp).
  assert (Hnil : queue_ok []) by constructor.
  destruct (pusi p); cbv beta iota zeta.
  - cbn [app]. destruct (_ && _); cbn [fst snd]; split; assumption.
  - assert (Hq3 : queue_ok (q1 ++ [p])) by (apply Forall_app; split; assumption).
    destruct (_ && _); cbn [fst snd]; split; assumption.
Qed.

Lemma pool_lookup_ok pl pid q : pool_ok pl -> pool_lookup pl pid = Some q -> queue_ok q.
Proof.
  induction 1 as [|[k q0] r Hq _ IH]; cbn [pool_lookup]; [discriminate|].
  destruct (k =? pid); [intros E; inversion E; subst; exact Hq|exact IH].
Qed.

Lemma pool_set_ok pl pid q : pool_ok pl -> queue_ok q -> pool_ok (pool_set pl pid q).
Proof.
  intros Hpl Hq. induction Hpl as [|[k q0] r Hq0 Hr IH]; cbn [pool_set]; [repeat constructor; exact Hq|].
  destruct (k =? pid); [constructor; [exact Hq|exact Hr]|].
  destruct (pid <? k); [constructor; [exact Hq|constructor; [exact Hq0|exact Hr]]|].
  constructor; [exact Hq0|exact IH].
Qed.

Lemma pool_add_ok pm pl p : pool_ok pl -> packet_ok p ->
  pool_ok (fst (pool_add pm pl p)) /\ queue_ok (snd (pool_add pm pl p)).
Proof.
  intros Hpl Hp. unfold pool_add. destruct (tei p); [cbn; split; [exact Hpl|constructor]|].
  destruct (negb (has_payload p)); [cbn; split; [exact Hpl|constructor]|].
  set (q := match pool_lookup pl (pid_of p) with Some q => q | None => [] end).
  assert (Hq : queue_ok q).
  { unfold q. destruct (pool_lookup pl (pid_of p)) eqn:E; [eapply pool_lookup_ok; eassumption|constructor]. }
  destruct (acc_add_ok pm (pid_of p) q p Hq Hp) as [H1 H2].
  destruct (acc_add pm (pid_of p) q p) as [q' ps]. cbn [fst snd] in *.
  split; [apply pool_set_ok; assumption|exact H2].
Qed.

Lemma pool_dump_ok pl : pool_ok pl -> pool_ok (fst (pool_dump pl)) /\ queue_ok (snd (pool_dump pl)).
Proof.
  induction 1 as [|[k q] r Hq Hr IH]; cbn [pool_dump]; [split; constructor|].
  destruct q; [exact IH|]. cbn [fst snd]. split; [exact Hr|exact Hq].
Qed.

(* ---------------- auto-detection and the packet buffer ---------------- *)

Lemma auto_detect_wf r : reader_wf r ->
  reader_wf (snd (auto_detect r)) /\
  match fst (auto_detect r) with Panic => False | Err _ => True | Ok ps => C_MpegTsPacketSize <= ps end.
Proof.
  intros Hwf. unfold auto_detect.
  pose proof (read_full_wf r detect_window Hwf ltac:(unfold detect_window; lia)) as (W1 & _ & _).
  destruct (r_kind r) eqn:Ek.
  - (* Plain *)
    destruct (read_full r detect_window) as [[bs e] r1]. cbn [fst snd] in W1.
    destruct (match e with Some RInjected => Some E_injected | Some REOF => Some E_nomore | _ => None end); [cbn; auto|].
    destruct (negb (nth 0 (pad_to bs detect_window) 0 =? syncByte)); [cbn; auto|].
    destruct (find_sync (pad_to bs detect_window) 0) as [ps|] eqn:Ef; [|cbn; auto].
    destruct (find_sync_spec _ _ _ Ef) as (_ & Hps & _).
    pose proof (read_full_wf r1 (ps - (detect_window - ps)) W1 ltac:(unfold detect_window, C_MpegTsPacketSize in *; lia)) as (W2 & _ & _).
    destruct (read_full r1 (ps - (detect_window - ps))) as [[bs2 e2] r2]. cbn [fst snd] in W2.
    destruct e2 as [[| |]|]; cbn [fst snd]; auto.
  - (* Seekable *)
    destruct (read_full r detect_window) as [[bs e] r1]. cbn [fst snd] in W1.
    destruct (match e with Some RInjected => Some E_injected | Some REOF => Some E_nomore | _ => None end); [cbn; auto|].
    destruct (negb (nth 0 (pad_to bs detect_window) 0 =? syncByte)); [cbn; auto|].
    destruct (find_sync (pad_to bs detect_window) 0) as [ps|] eqn:Ef; [|cbn; auto].
    destruct (find_sync_spec _ _ _ Ef) as (_ & Hps & _). cbn [fst snd]. split; [apply r_seek0_wf; exact W1|exact Hps].
  - (* Bufio *)
    destruct (read_full r detect_window) as [[bs e] r1] eqn:Er. cbn [fst snd] in W1.
    destruct (match e with Some RInjected => Some E_injected | Some REOF => Some E_nomore | _ => None end); [cbn; auto|].
    destruct (negb (nth 0 (pad_to bs detect_window) 0 =? syncByte)); [cbn; auto|].
    destruct (find_sync (pad_to bs detect_window) 0) as [ps|] eqn:Ef; [|cbn; auto].
    destruct (find_sync_spec _ _ _ Ef) as (_ & Hps & _). cbn [fst snd]. auto.
Qed.

Lemma pb_next_wf skip size : C_MpegTsPacketSize <= size -> forall fuel r, reader_wf r ->
  reader_wf (snd (fst (pb_next fuel skip size r))) /\
  match fst (fst (pb_next fuel skip size r)) with Panic => False | Err _ => True | Ok p => packet_ok p end.
Proof.
  intros Hsz. induction fuel as [|k IH]; intros r Hwf; cbn [pb_next]; [cbn; auto|].
  pose proof (read_full_wf r size Hwf ltac:(unfold C_MpegTsPacketSize in *; lia)) as (W1 & Wb & Wl).
  destruct (read_full r size) as [[bs e] r1]. cbn [fst snd] in *.
  destruct e as [[| |]|]; cbn [fst snd]; auto.
  pose proof (parse_packet_ok skip bs Wb ltac:(rewrite (Wl eq_refl); exact Hsz)) as Hp.
  destruct (run_iter (parse_packet skip) bs) as [p|c|]; cbn [fst snd]; [auto| |contradiction].
  destruct (c =? E_skipped); [|cbn; auto].
  specialize (IH r1 W1). destruct (pb_next k skip size r1) as [[x r''] l]. cbn [fst snd] in *. exact IH.
Qed.

Lemma packet_buffer_next_wf skip pb r : C_MpegTsPacketSize <= pb_size pb -> reader_wf r ->
  reader_wf (snd (fst (packet_buffer_next skip pb r))) /\
  match fst (fst (packet_buffer_next skip pb r)) with Panic => False | Err _ => True | Ok p => packet_ok p end.
Proof.
  intros Hsz Hwf. unfold packet_buffer_next. unfold C_MpegTsPacketSize in *.
  destruct (pb_size pb <? 0) eqn:E1; [lia|]. destruct (pb_size pb =? 0) eqn:E2; [lia|].
  apply pb_next_wf; assumption.
Qed.

(* ---------------- the demuxer ---------------- *)

Definition dinv (s : dstate) : Prop :=
  reader_wf (d_reader s) /\
  match d_pb s with Some pb => C_MpegTsPacketSize <= pb_size pb | None => True end /\
  pool_ok (d_pool s) /\
  (d_opt_size s = 0 \/ C_MpegTsPacketSize <= d_opt_size s).

(* a PacketsParser that does not itself panic *)
Definition parser_no_panic (prs : option custom_parser) : Prop :=
  match prs with Some f => forall ps, f ps <> Panic | None => True end.

Lemma next_packet_inv skip s : dinv s ->
  dinv (snd (next_packet skip s)) /\
  match fst (next_packet skip s) with Panic => False | Err _ => True | Ok p => packet_ok p end.
Proof.
  intros (Hr & Hpb & Hpl & Hopt). unfold next_packet.
  destruct (d_pb s) as [pb|] eqn:Epb.
  - pose proof (packet_buffer_next_wf skip pb (d_reader s) Hpb Hr) as [W P].
    destruct (packet_buffer_next skip pb (d_reader s)) as [[rp r'] l]. cbn [fst snd] in *.
    split; [|exact P]. unfold dinv. cbn [log_consulted set_reader d_reader d_pb d_pool d_opt_size]. rewrite Epb. auto.
  - unfold new_packet_buffer. destruct (d_opt_size s =? 0) eqn:E0.
    + pose proof (auto_detect_wf (d_reader s) Hr) as [W A].
      destruct (auto_detect (d_reader s)) as [[ps|c|] r']; cbn [fst snd] in *; [| |contradiction].
      * pose proof (packet_buffer_next_wf skip (mk_pbuf ps) r' A W) as [W2 P].
        cbn [set_pb set_reader d_reader].
        destruct (packet_buffer_next skip (mk_pbuf ps) r') as [[rp r''] l]. cbn [fst snd] in *.
        split; [|exact P]. unfold dinv. cbn [log_consulted set_reader set_pb d_reader d_pb d_pool d_opt_size pb_size]. auto.
      * split; [|exact I]. unfold dinv. cbn [set_reader d_reader d_pb d_pool d_opt_size]. rewrite Epb. auto.
    + assert (Hsz : C_MpegTsPacketSize <= d_opt_size s) by (destruct Hopt; [lia|assumption]).
      pose proof (packet_buffer_next_wf skip (mk_pbuf (d_opt_size s)) (d_reader s) Hsz Hr) as [W2 P].
      cbn [set_pb set_reader d_reader].
      destruct (packet_buffer_next skip (mk_pbuf (d_opt_size s)) (d_reader s)) as [[rp r''] l]. cbn [fst snd] in *.
      split; [|exact P]. unfold dinv. cbn [log_consulted set_reader set_pb d_reader d_pb d_pool d_opt_size pb_size]. auto.
Qed.

(* parseData with the real unit parsers on a non-empty group of packets with bytes_ok payloads *)
Lemma parse_data_no_panic prs pm ps : parser_no_panic prs -> ps <> [] -> queue_ok ps ->
  parse_data full_parsers prs pm ps <> Panic.
Proof.
  intros Hprs Hne Hok. unfold parse_data.
  assert (Hdef : forall ds0,
    match ps with
    | [] => Panic
    | p0 :: _ =>
        if pid_of p0 =? C_PIDCAT then Ok ds0
        else if isPSIPayload (pid_of p0) (pm_mem pm)
             then dp_psi full_parsers (concat_payload ps)
                    {| Packet_AdaptationField := Packet_AdaptationField p0; Packet_Header := Packet_Header p0; Packet_Payload := [] |}
                    (pid_of p0)
             else if isPESPayload (concat_payload ps)
                  then res_map (fun pes => [pes_data {| Packet_AdaptationField := Packet_AdaptationField p0; Packet_Header := Packet_Header p0; Packet_Payload := [] |} pes (pid_of p0)])
                         (dp_pes full_parsers (concat_payload ps))
                  else Ok ds0
    end <> Panic).
  { intros ds0. destruct ps as [|p0 r]; [contradiction|].
    pose proof (concat_payload_ok _ Hok) as Hb.
    destruct (pid_of p0 =? C_PIDCAT); [discriminate|].
    destruct (isPSIPayload (pid_of p0) (pm_mem pm)).
    - cbn [full_parsers dp_psi]. pose proof (parse_psi_data_no_panic _ Hb) as H.
      destruct (parse_psi_data_bytes (concat_payload (p0 :: r))); cbn; [discriminate|discriminate|contradiction].
    - destruct (isPESPayload (concat_payload (p0 :: r))); [|discriminate].
      cbn [full_parsers dp_pes]. pose proof (parse_pes_data_no_panic _ Hb) as H.
      destruct (parse_pes_data_bytes (concat_payload (p0 :: r))); cbn; [discriminate|discriminate|contradiction]. }
  destruct prs as [f|]; [|apply Hdef].
  specialize (Hprs ps). destruct (f ps) as [[ds [|]]|c|]; [discriminate|apply Hdef|discriminate|contradiction].
Qed.

Lemma update_data_inv s ds : dinv s -> dinv (snd (update_data s ds)).
Proof. intros H. unfold update_data. destruct ds; [exact H|]. cbn [snd]. exact H. Qed.

Lemma set_pool_inv s pl : dinv s -> pool_ok pl -> dinv (set_pool s pl).
Proof. intros (H1 & H2 & H3 & H4) Hpl. unfold dinv. cbn [set_pool d_reader d_pb d_pool d_opt_size]. auto. Qed.

Lemma log_group_inv s g : dinv s -> dinv (log_group s g).
Proof. intros H. exact H. Qed.

Lemma drain_inv prs : parser_no_panic prs -> forall fuel s, dinv s ->
  dinv (snd (drain full_parsers prs fuel s)) /\ fst (drain full_parsers prs fuel s) <> Panic.
Proof.
  intros Hprs. induction fuel as [|k IH]; intros s Hs; cbn [drain]; [cbn; split; [exact Hs|discriminate]|].
  pose proof Hs as (_ & _ & Hpl & _). pose proof (pool_dump_ok _ Hpl) as [D1 D2].
  destruct (pool_dump (d_pool s)) as [pl' ps]. cbn [fst snd] in D1, D2.
  pose proof (set_pool_inv s pl' Hs D1) as Hs0.
  destruct ps as [|p ps]; [cbn; split; [exact Hs0|discriminate]|].
  pose proof (parse_data_no_panic prs (d_pm (log_group (set_pool s pl') (p :: ps))) (p :: ps) Hprs ltac:(discriminate) D2) as Hpd.
  destruct (parse_data full_parsers prs (d_pm (log_group (set_pool s pl') (p :: ps))) (p :: ps)) as [ds|c|]; [| |contradiction].
  - pose proof (update_data_inv (log_group (set_pool s pl') (p :: ps)) ds Hs0) as Hu.
    destruct (update_data (log_group (set_pool s pl') (p :: ps)) ds) as [[d|] s2]; cbn [fst snd] in *.
    + split; [exact Hu|discriminate].
    + apply IH. exact Hu.
  - apply IH. exact Hs0.
Qed.

Lemma next_data_loop_inv prs skip : parser_no_panic prs -> forall fuel s, dinv s ->
  dinv (snd (next_data_loop full_parsers prs skip fuel s)) /\ fst (next_data_loop full_parsers prs skip fuel s) <> Panic.
Proof.
  intros Hprs. induction fuel as [|k IH]; intros s Hs; cbn [next_data_loop]; [cbn; split; [exact Hs|discriminate]|].
  pose proof (next_packet_inv skip s Hs) as [Hs1 Hp].
  destruct (next_packet skip s) as [[p|c|] s1]; cbn [fst snd] in *; [| |contradiction].
  - pose proof Hs1 as (_ & _ & Hpl & _). pose proof (pool_add_ok (d_pm s1) (d_pool s1) p Hpl Hp) as [A1 A2].
    destruct (pool_add (d_pm s1) (d_pool s1) p) as [pl' ps]. cbn [fst snd] in A1, A2.
    pose proof (set_pool_inv s1 pl' Hs1 A1) as Hs2.
    destruct ps as [|q ps]; [apply IH; exact Hs2|].
    pose proof (parse_data_no_panic prs (d_pm (log_group (set_pool s1 pl') (q :: ps))) (q :: ps) Hprs ltac:(discriminate) A2) as Hpd.
    destruct (parse_data full_parsers prs (d_pm (log_group (set_pool s1 pl') (q :: ps))) (q :: ps)) as [ds|c|]; [| |contradiction].
    + pose proof (update_data_inv (log_group (set_pool s1 pl') (q :: ps)) ds Hs2) as Hu.
      destruct (update_data (log_group (set_pool s1 pl') (q :: ps)) ds) as [[d|] s3]; cbn [fst snd] in *.
      * split; [exact Hu|discriminate].
      * apply IH. exact Hu.
    + cbn. split; [exact Hs2|discriminate].
  - destruct (c =? E_nomore); [apply drain_inv; assumption|cbn; split; [exact Hs1|discriminate]].
Qed.

Lemma next_data_inv prs skip s : parser_no_panic prs -> dinv s ->
  dinv (snd (next_data full_parsers prs skip s)) /\ fst (next_data full_parsers prs skip s) <> Panic.
Proof.
  intros Hprs Hs. unfold next_data. destruct (d_buffer s) as [|d rest].
  - apply next_data_loop_inv; assumption.
  - cbn [fst snd]. split; [exact Hs|discriminate].
Qed.

Lemma rewind_inv s : dinv s -> dinv (snd (rewind s)).
Proof.
  intros (H1 & H2 & H3 & H4). unfold rewind, rewind_reader.
  destruct (r_kind (d_reader s)); cbn [snd]; unfold dinv; cbn [d_reader d_pb d_pool d_opt_size];
    (split; [first [exact H1|apply r_seek0_wf; exact H1]|split; [exact I|split; [constructor|exact H4]]]).
Qed.

Lemma init_inv data fault k opt : bytes_ok data -> (opt = 0 \/ C_MpegTsPacketSize <= opt) ->
  dinv (init_dstate (new_reader data fault k) opt).
Proof.
  intros Hb Ho. unfold dinv, init_dstate. cbn [d_reader d_pb d_pool d_opt_size].
  split; [apply new_reader_wf; exact Hb|split; [exact I|split; [constructor|exact Ho]]].
Qed.

(* the states a Demuxer can be in: created over bytes_ok data, then any sequence of NextPacket / NextData / Rewind *)
Inductive reachable (prs : option custom_parser) (skip : Packet -> bool) : dstate -> Prop :=
| reach_init data fault k opt : bytes_ok data -> (opt = 0 \/ C_MpegTsPacketSize <= opt) ->
    reachable prs skip (init_dstate (new_reader data fault k) opt)
| reach_packet s : reachable prs skip s -> reachable prs skip (snd (next_packet skip s))
| reach_data s : reachable prs skip s -> reachable prs skip (snd (next_data full_parsers prs skip s))
| reach_rewind s : reachable prs skip s -> reachable prs skip (snd (rewind s)).

Lemma reachable_inv prs skip s : parser_no_panic prs -> reachable prs skip s -> dinv s.
Proof.
  intros Hprs. induction 1 as [data fault k opt Hb Ho|s _ IH|s _ IH|s _ IH].
  - apply init_inv; assumption.
  - apply next_packet_inv; exact IH.
  - apply next_data_inv; assumption.
  - apply rewind_inv; exact IH.
Qed.

Theorem no_panic_reachable prs skip s : parser_no_panic prs -> reachable prs skip s ->
  fst (next_packet skip s) <> Panic /\ fst (next_data full_parsers prs skip s) <> Panic.
Proof.
  intros Hprs Hr. pose proof (reachable_inv prs skip s Hprs Hr) as Hs. split.
  - pose proof (next_packet_inv skip s Hs) as [_ H]. destruct (fst (next_packet skip s)); [discriminate|discriminate|contradiction].
  - apply next_data_inv; assumption.
Qed.
