(* program_map.go as regenerated (Gen/RestGen.v, go/gen/restgen.go) against the hand models of the program map:

     Demuxer side   Model/Pool.v keeps only the SET of PMT PIDs: pmap = list Z, pm_mem, pm_add (what isPSIPayload,
                    the packet pool and Demuxer.updateData need).
     Muxer side     Proofs/MuxGenEq.v: gpm = list (Z * Z) with gpm_set, mux_pm (the one entry NewMuxer sets) and
                    to_pat (programMap.toPATDataUnlocked); the Muxer model itself holds the constant pat_data.

   The regenerated functions are parametric in the map[uint32]uint16 (an abstract type with make / get / set /
   delete / len / range as parameters).  Two things are proved:

   (1) for EVERY implementation of the map that satisfies the three laws of a finite map (get after make / set /
       delete), the regenerated existsUnlocked is a membership test that newProgramMap makes constantly false,
       setUnlocked extends by the key, unsetUnlocked restricts by the key; hence pm_abs (the abstraction RELATION
       "same membership answers") holds between the Go map and the model's pmap along every history.
   (2) for the association-list implementation (Model/Muxer.v es_find / es_put / es_del, enumeration in list order)
       the abstraction is a FUNCTION, pm_alpha m = the keys in insertion order, and it commutes exactly:
       pm_alpha newProgramMap = [], pm_alpha (setUnlocked m pid n) = pm_add (pm_alpha m) pid,
       existsUnlocked m pid = pm_mem (pm_alpha m) pid.  The Muxer side (the same instance is gpm / gpm_set; NewMuxer
       instantiated with the regenerated newProgramMap / setUnlocked builds {p := mux_pm}; the regenerated
       toPATDataUnlocked of it is pat_data whatever order the runtime enumerates the map in) is Proofs/RestGenPmMux.v. *)
From Coq Require Import ZArith List Lia Bool ZifyBool Permutation.
Require Import Gen.Consts Gen.Types Gen.Preds Gen.RestGen Model.Pool Model.Muxer Proofs.MuxerProofs.
Import ListNotations.
Open Scope Z_scope.

(* ---------------- (1) any lawful map ---------------- *)

Lemma pm_mem_add pm pid q : pm_mem (pm_add pm pid) q = (q =? pid) || pm_mem pm q.
Proof.
  unfold pm_add. destruct (pm_mem pm pid) eqn:E.
  - destruct (q =? pid) eqn:Eq; [|reflexivity]. apply Z.eqb_eq in Eq. subst q. exact E.
  - unfold pm_mem. rewrite existsb_app. cbn [existsb]. rewrite orb_false_r, orb_comm. reflexivity.
Qed.

Lemma pm_mem_filter pm pid q : pm_mem (filter (fun x => negb (x =? pid)) pm) q = negb (q =? pid) && pm_mem pm q.
Proof.
  unfold pm_mem. induction pm as [|a r IH]; [cbn [filter existsb]; rewrite andb_false_r; reflexivity|].
  cbn [filter existsb]. destruct (a =? pid) eqn:Ea; cbn [negb existsb]; rewrite IH;
    destruct (q =? a) eqn:Eqa; destruct (q =? pid) eqn:Eqp; cbn [negb andb orb]; try reflexivity; lia.
Qed.

Section MapLaws.
Context {M : Type}.
Variables (mk : M) (get : M -> Z -> option Z) (set : M -> Z -> Z -> M) (del : M -> Z -> M).
Hypothesis get_make : forall k, get mk k = None.
Hypothesis get_set : forall m k v k', get (set m k v) k' = if k' =? k then Some v else get m k'.
Hypothesis get_del : forall m k k', get (del m k) k' = if k' =? k then None else get m k'.

Lemma exists_new pid : programMap_existsUnlocked get (newProgramMap mk) pid = false.
Proof. unfold programMap_existsUnlocked, newProgramMap. cbn [programMap_p]. rewrite get_make. reflexivity. Qed.

Lemma exists_set m pid n q :
  programMap_existsUnlocked get (programMap_setUnlocked set m pid n) q = (q =? pid) || programMap_existsUnlocked get m q.
Proof.
  unfold programMap_existsUnlocked, programMap_setUnlocked. cbn [programMap_p]. rewrite get_set.
  destruct (q =? pid); reflexivity.
Qed.

Lemma exists_unset m pid q :
  programMap_existsUnlocked get (programMap_unsetUnlocked del m pid) q = negb (q =? pid) && programMap_existsUnlocked get m q.
Proof.
  unfold programMap_existsUnlocked, programMap_unsetUnlocked. cbn [programMap_p]. rewrite get_del.
  destruct (q =? pid); reflexivity.
Qed.

(* the abstraction relation between the Go map and the Demuxer model's set of PMT PIDs *)
Definition pm_abs (m : @programMap M) (pm : pmap) : Prop :=
  forall pid, programMap_existsUnlocked get m pid = pm_mem pm pid.

Lemma pm_abs_new : pm_abs (newProgramMap mk) [].
Proof. intro pid. rewrite exists_new. reflexivity. Qed.

Lemma pm_abs_set m pm pid n : pm_abs m pm -> pm_abs (programMap_setUnlocked set m pid n) (pm_add pm pid).
Proof. intros H q. rewrite exists_set, pm_mem_add, H. reflexivity. Qed.

Lemma pm_abs_unset m pm pid :
  pm_abs m pm -> pm_abs (programMap_unsetUnlocked del m pid) (filter (fun q => negb (q =? pid)) pm).
Proof. intros H q. rewrite exists_unset, H, pm_mem_filter. reflexivity. Qed.

(* every history of registrations (what Demuxer.updateData does for every PAT program with a non-zero number):
   the Go map and the model's list answer alike — and nothing else writes the map: Rewind keeps it *)
Lemma pm_abs_history (regs : list (Z * Z)) :
  pm_abs (fold_left (fun m e => programMap_setUnlocked set m (fst e) (snd e)) regs (newProgramMap mk))
         (fold_left pm_add (map fst regs) []).
Proof.
  assert (G : forall m pm, pm_abs m pm ->
     pm_abs (fold_left (fun m e => programMap_setUnlocked set m (fst e) (snd e)) regs m) (fold_left pm_add (map fst regs) pm)).
  { induction regs as [|e r IH]; intros m pm H; [exact H|]. cbn [fold_left map]. apply IH, pm_abs_set, H. }
  apply G, pm_abs_new.
Qed.

End MapLaws.

(* ---------------- (2) the association-list map ---------------- *)

Definition lmap := list (Z * Z).
Definition lm_make : lmap := [].
Definition lm_get (m : lmap) (k : Z) : option Z := es_find k m.
Definition lm_set (m : lmap) (k v : Z) : lmap := es_put k v m.
Definition lm_del (m : lmap) (k : Z) : lmap := es_del k m.
Definition lm_len (m : lmap) : Z := Z.of_nat (length m).
Definition lm_range (m : lmap) : list (Z * Z) := m.

(* the laws are satisfiable: the association list is a lawful map *)
Lemma lm_get_make k : lm_get lm_make k = None.
Proof. reflexivity. Qed.
Lemma lm_get_set m k v k' : lm_get (lm_set m k v) k' = if k' =? k then Some v else lm_get m k'.
Proof. unfold lm_get, lm_set. rewrite es_find_put, Z.eqb_sym. reflexivity. Qed.
Lemma lm_get_del m k k' : lm_get (lm_del m k) k' = if k' =? k then None else lm_get m k'.
Proof. unfold lm_get, lm_del. rewrite es_find_del, Z.eqb_sym. reflexivity. Qed.

(* the abstraction function: the keys, in insertion order *)
Definition pm_alpha (m : @programMap lmap) : pmap := map fst (programMap_p m).

Lemma pm_mem_keys (l : lmap) pid : pm_mem (map fst l) pid = es_mem pid l.
Proof.
  unfold pm_mem, es_mem. induction l as [|[k v] r IH]; [reflexivity|].
  cbn [map existsb fst]. rewrite IH, (Z.eqb_sym pid k). reflexivity.
Qed.

Lemma alpha_new : pm_alpha (newProgramMap lm_make) = [].
Proof. reflexivity. Qed.

Lemma alpha_exists m pid : programMap_existsUnlocked lm_get m pid = pm_mem (pm_alpha m) pid.
Proof.
  unfold programMap_existsUnlocked, pm_alpha, lm_get. rewrite pm_mem_keys, es_mem_find.
  destruct (es_find pid (programMap_p m)); reflexivity.
Qed.

Lemma alpha_set m pid n : pm_alpha (programMap_setUnlocked lm_set m pid n) = pm_add (pm_alpha m) pid.
Proof.
  unfold programMap_setUnlocked, pm_alpha, lm_set, pm_add, es_put. cbn [programMap_p].
  rewrite pm_mem_keys. destruct (es_mem pid (programMap_p m)).
  - rewrite map_map. apply map_ext_in. intros [k v] _. cbn [fst].
    destruct (k =? pid) eqn:E; [apply Z.eqb_eq in E; subst k|]; reflexivity.
  - rewrite map_app. reflexivity.
Qed.

Lemma alpha_unset m pid : pm_alpha (programMap_unsetUnlocked lm_del m pid) = filter (fun q => negb (q =? pid)) (pm_alpha m).
Proof.
  unfold programMap_unsetUnlocked, pm_alpha, lm_del, es_del. cbn [programMap_p].
  induction (programMap_p m) as [|[k v] r IH]; [reflexivity|].
  cbn [filter map fst]. destruct (negb (k =? pid)); cbn [map fst]; rewrite IH; reflexivity.
Qed.

Lemma alpha_history (regs : list (Z * Z)) :
  pm_alpha (fold_left (fun m e => programMap_setUnlocked lm_set m (fst e) (snd e)) regs (newProgramMap lm_make)) =
  fold_left pm_add (map fst regs) [].
Proof.
  rewrite <- alpha_new. generalize (newProgramMap lm_make).
  induction regs as [|e r IH]; intro m; [reflexivity|]. cbn [fold_left map]. rewrite IH, alpha_set. reflexivity.
Qed.

(* The Demuxer side in one statement: the set of PMT PIDs the model threads through isPSIPayload, the packet pool,
   parseData and updateData (pmap, pm_mem, pm_add, [] at NewDemuxer, untouched by Rewind) is the image under pm_alpha
   of the map the regenerated program_map.go maintains *)
Lemma program_map_demux_is_generated :
  pm_alpha (newProgramMap lm_make) = [] /\
  (forall m pid n, pm_alpha (programMap_setUnlocked lm_set m pid n) = pm_add (pm_alpha m) pid) /\
  (forall m pid, programMap_existsUnlocked lm_get m pid = pm_mem (pm_alpha m) pid) /\
  (forall m pid q, programMap_existsUnlocked lm_get (programMap_unsetUnlocked lm_del m pid) q =
                   negb (q =? pid) && programMap_existsUnlocked lm_get m q) /\
  (forall regs q,
     programMap_existsUnlocked lm_get
       (fold_left (fun m e => programMap_setUnlocked lm_set m (fst e) (snd e)) regs (newProgramMap lm_make)) q =
     pm_mem (fold_left pm_add (map fst regs) []) q).
Proof.
  split; [exact alpha_new|]. split; [exact alpha_set|]. split; [exact alpha_exists|].
  split; [intros; apply (exists_unset lm_get lm_del lm_get_del)|].
  intros regs q. rewrite alpha_exists, alpha_history. reflexivity.
Qed.

(* the same for every lawful implementation of the Go map (the relation pm_abs instead of the function pm_alpha) *)
Lemma program_map_demux_any_map :
  forall (M : Type) (mk : M) (get : M -> Z -> option Z) (set : M -> Z -> Z -> M) (del : M -> Z -> M),
  (forall k, get mk k = None) ->
  (forall m k v k', get (set m k v) k' = if k' =? k then Some v else get m k') ->
  (forall m k k', get (del m k) k' = if k' =? k then None else get m k') ->
  pm_abs get (newProgramMap mk) [] /\
  (forall m pm pid n, pm_abs get m pm -> pm_abs get (programMap_setUnlocked set m pid n) (pm_add pm pid)) /\
  (forall m pm pid, pm_abs get m pm ->
     pm_abs get (programMap_unsetUnlocked del m pid) (filter (fun q => negb (q =? pid)) pm)) /\
  (forall regs, pm_abs get (fold_left (fun m e => programMap_setUnlocked set m (fst e) (snd e)) regs (newProgramMap mk))
                       (fold_left pm_add (map fst regs) [])).
Proof.
  intros M mk get set del H1 H2 H3.
  split; [apply pm_abs_new, H1|]. split; [intros; apply pm_abs_set; assumption|].
  split; [intros; apply pm_abs_unset; assumption|]. intro regs. apply pm_abs_history; assumption.
Qed.

Example program_map_demux_example :
  let m := programMap_setUnlocked lm_set (programMap_setUnlocked lm_set (newProgramMap lm_make) 4096 1) 256 2 in
  pm_alpha m = [4096; 256] /\ programMap_existsUnlocked lm_get m 256 = true /\
  programMap_existsUnlocked lm_get m 257 = false /\
  programMap_existsUnlocked lm_get (programMap_unsetUnlocked lm_del m 4096) 4096 = false /\
  programMap_existsUnlocked lm_get (programMap_unsetUnlocked lm_del m 4096) 256 = true.
Proof. vm_compute. repeat split. Qed.

