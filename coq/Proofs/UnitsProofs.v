(* C02 at the level of packet groups, for a PID that is not treated as PSI: when a stream carries units
   u1 .. un (each starting with a payload_unit_start packet, counters consecutive, no loss), the accumulator
   flushes exactly u1 .. u(n-1), each once and in order, when the first packet of the next unit arrives, and
   keeps un for the end-of-stream drain.  Whatever the packetisation (any number of packets per unit). *)
From Coq Require Import ZArith List Lia Bool ZifyBool.
Require Import Base.Bits Base.Iter Gen.Consts Gen.Types Gen.Preds Model.Pool Model.PoolRun Proofs.LossProofs.
Import ListNotations.
Open Scope Z_scope.

(* the next packet of the loss-free stream: position + 1 *)
Lemma acc_add_a_next pm x c0 q' pe e :
  (Z.eqb x C_PIDPAT || pm_mem pm x) = false ->
  on_stream c0 e -> on_stream c0 pe -> fst e = fst pe + 1 ->
  acc_add_a pm x (q' ++ [pe]) e =
  if pusi (snd e) then ([e], q' ++ [pe]) else ((q' ++ [pe]) ++ [e], []).
Proof.
  intros Hn [Hcc [Hpay Hdi]] [Hcc' _] Hpos. unfold acc_add_a. rewrite Hn. cbn [andb].
  destruct (last_of_snoc q' pe) as [Hnth Hlen].
  assert (Hne : (PacketHeader_ContinuityCounter (Packet_Header (snd e)) =?
                 PacketHeader_ContinuityCounter (Packet_Header (snd pe))) = false).
  { unfold cc_of in *. rewrite Hcc, Hcc', Hpos. apply Z.eqb_neq.
    Ltac Zify.zify_post_hook ::= Z.div_mod_to_equations. lia. }
  assert (Hsame : isSameAsPrevious (map snd (q' ++ [pe])) (snd e) = false).
  { unfold isSameAsPrevious. rewrite Hnth, Hlen, Hne. rewrite !andb_false_r. reflexivity. }
  assert (Hcd : hasCounterDiscontinuity (map snd (q' ++ [pe])) (snd e) = false).
  { unfold hasCounterDiscontinuity. rewrite Hnth, Hlen.
    unfold has_payload in Hpay. rewrite Hpay. cbn [orb andb negb]. rewrite orb_false_r.
    apply negb_false_iff, Z.eqb_eq. unfold cc_of in *. rewrite Hcc, Hcc', Hpos.
    assert (0 <= (c0 + fst pe) mod 16 < 16) by (apply Z.mod_pos_bound; lia).
    rewrite (Z.mod_small ((c0 + fst pe) mod 16 + 1) 256) by lia.
    rewrite Zplus_mod_idemp_l. f_equal. lia. }
  assert (Hd : resets (map snd (q' ++ [pe])) (snd e) = false).
  { unfold resets, hasDiscontinuity. rewrite Hcd. rewrite orb_false_r.
    destruct Hdi as [Hdi|Hp].
    - unfold no_disc_flag in Hdi. rewrite Hdi. reflexivity.
    - rewrite Hp. cbn [negb]. apply andb_false_r. }
  rewrite Hsame, Hd. destruct (pusi (snd e)); reflexivity.
Qed.

Lemma acc_add_a_first pm x e :
  (Z.eqb x C_PIDPAT || pm_mem pm x) = false ->
  acc_add_a pm x [] e = ([e], []).
Proof.
  intros Hn. unfold acc_add_a. rewrite Hn. cbn [andb map].
  assert (isSameAsPrevious [] (snd e) = false) as -> by reflexivity.
  destruct (resets [] (snd e)); destruct (pusi (snd e)); reflexivity.
Qed.

(* a unit: a payload_unit_start packet followed by packets without the indicator *)
Definition unit_shaped (u : list apkt) : Prop :=
  match u with [] => False | h :: t => pusi (snd h) = true /\ Forall (fun e => pusi (snd e) = false) t end.

(* feeding the continuation packets of a unit appends them *)
Lemma feed_tail pm x c0 t : forall q' pe,
  (Z.eqb x C_PIDPAT || pm_mem pm x) = false ->
  Forall (on_stream c0) t -> on_stream c0 pe -> Forall (fun e => pusi (snd e) = false) t ->
  run (pe :: t) ->
  acc_run_a pm x (q' ++ [pe]) t = ((q' ++ [pe]) ++ t, []).
Proof.
  induction t as [|e t IH]; intros q' pe Hn Hall Hpe Hnp Hrun; [rewrite app_nil_r; reflexivity|].
  inversion Hall as [|? ? He Hall']; subst. inversion Hnp as [|? ? Hp Hnp']; subst.
  destruct Hrun as [Hpos Hrun]. cbn [acc_run_a].
  rewrite (acc_add_a_next pm x c0 q' pe e Hn He Hpe Hpos), Hp.
  rewrite (IH (q' ++ [pe]) e Hn Hall' He Hnp' Hrun). rewrite <- app_assoc. reflexivity.
Qed.

(* the flush events of a stream of whole units *)
Fixpoint unit_events (prev : list apkt) (us : list (list apkt)) : list (list apkt * apkt) :=
  match us with
  | [] => []
  | u :: r => match prev, u with
              | _ :: _, h :: _ => (prev, h) :: unit_events u r
              | _, _ => unit_events u r
              end
  end.

Lemma last_indep {A} (l : list A) d d' : l <> [] -> last l d = last l d'.
Proof. induction l as [|a l IH]; [contradiction|]. intros _. destruct l; [reflexivity|]. cbn [last] in *. apply IH. discriminate. Qed.

Definition last_unit (prev : list apkt) (us : list (list apkt)) : list apkt := last us prev.

Theorem units_exact pm x c0 us : forall prev,
  (Z.eqb x C_PIDPAT || pm_mem pm x) = false ->
  Forall unit_shaped us -> Forall (on_stream c0) (prev ++ concat us) -> run (prev ++ concat us) ->
  (prev = [] \/ exists q' pe, prev = q' ++ [pe]) ->
  acc_run_a pm x prev (concat us) = (last_unit prev us, unit_events prev us).
Proof.
  induction us as [|u r IH]; intros prev Hn Hsh Hall Hrun Hprev; [reflexivity|].
  inversion Hsh as [|? ? Hu Hr]; subst. destruct u as [|h t]; [contradiction|]. destruct Hu as [Hh Ht].
  cbn [concat]. cbn [app].
  (* the first packet of the unit flushes the previous one *)
  assert (Hstep : acc_add_a pm x prev h = ([h], prev)).
  { destruct Hprev as [->|[q' [pe ->]]].
    - rewrite acc_add_a_first; [reflexivity|exact Hn].
    - rewrite (acc_add_a_next pm x c0 q' pe h Hn).
      + rewrite Hh. reflexivity.
      + rewrite Forall_app in Hall. destruct Hall as [_ Hall]. cbn [concat app] in Hall. inversion Hall; assumption.
      + rewrite Forall_app in Hall. destruct Hall as [Hall _]. rewrite Forall_app in Hall. destruct Hall as [_ Hall]. inversion Hall; assumption.
      + clear - Hrun. rewrite <- app_assoc in Hrun. cbn [app concat] in Hrun.
        induction q' as [|a q' IHq]; cbn [app run] in Hrun; [destruct Hrun as [H _]; exact H|].
        destruct Hrun as [_ Hrun]. apply IHq. exact Hrun. }
  (* split the run: h, its tail, then the remaining units *)
  assert (Happ : forall (q : list apkt) es1 es2,
            acc_run_a pm x q (es1 ++ es2) =
            let '(q1, g1) := acc_run_a pm x q es1 in let '(q2, g2) := acc_run_a pm x q1 es2 in (q2, g1 ++ g2)).
  { clear. intros q es1. revert q. induction es1 as [|e es1 IHe]; intros q es2.
    - cbn [app acc_run_a]. destruct (acc_run_a pm x q es2). reflexivity.
    - cbn [app acc_run_a]. destruct (acc_add_a pm x q e) as [q1 g]. rewrite IHe.
      destruct (acc_run_a pm x q1 es1) as [q2 gs]. destruct (acc_run_a pm x q2 es2) as [q3 gs'].
      destruct g; reflexivity. }
  change (h :: t ++ concat r) with ([h] ++ (t ++ concat r)). rewrite Happ.
  cbn [acc_run_a]. rewrite Hstep. rewrite Happ.
  (* facts about the pieces *)
  assert (Hall2 : Forall (on_stream c0) (h :: t ++ concat r)).
  { rewrite Forall_app in Hall. destruct Hall as [_ H]. exact H. }
  assert (Hrun2 : run (h :: t ++ concat r)).
  { clear - Hrun. induction prev as [|a p IHp]; [exact Hrun|]. cbn [app run] in Hrun. destruct Hrun as [_ Hrun]. apply IHp. exact Hrun. }
  inversion Hall2 as [|? ? Hhs Hall3]; subst.
  rewrite Forall_app in Hall3. destruct Hall3 as [Hts Hrs].
  assert (Hrun_t : run (h :: t)).
  { clear - Hrun2. revert h Hrun2. induction t as [|e t IHt]; intros h Hrun2; [cbn; auto|].
    cbn [app run] in Hrun2. destruct Hrun2 as [Hp Hrun2]. cbn [run]. split; [exact Hp|]. apply IHt. exact Hrun2. }
  pose proof (feed_tail pm x c0 t [] h Hn Hts Hhs Ht Hrun_t) as Hft. cbn [app] in Hft. rewrite Hft. cbn [app].
  specialize (IH (h :: t) Hn Hr).
  rewrite IH.
  - unfold last_unit. destruct r as [|l r].
    + destruct prev; reflexivity.
    + rewrite (last_indep (l :: r) (h :: t) prev) by discriminate.
      destruct prev; reflexivity.
  - apply Forall_app. split; [constructor; assumption|exact Hrs].
  - clear - Hrun2. change ((h :: t) ++ concat r) with (h :: t ++ concat r). exact Hrun2.
  - right. destruct (exists_last (l := h :: t) ltac:(discriminate)) as [q' [pe E]]. exists q', pe. exact E.
Qed.
