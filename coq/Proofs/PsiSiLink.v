(* The time premises of Proofs/PsiParseSi.v discharged with C15's theorems (Proofs/DvbProofs.v), and the
   descriptor premises discharged for empty descriptor loops, so that the SDT/NIT/EIT/TOT decoding theorems
   have closed instances. *)
From Coq Require Import ZArith List Lia Bool ZifyBool.
Require Import Base.Bits Base.Iter Base.Wr Gen.Consts Gen.Types Gen.Preds Model.Packet Model.Desc Model.Dvb Model.Psi.
Require Import Spec.CrcSpec Spec.DvbSpec Spec.PsiSpec Proofs.CrcProofs Proofs.DvbProofs Proofs.PsiProofs Proofs.PsiParse
  Proofs.PsiParseSi.
Import ListNotations.
Open Scope Z_scope.

(* C15's encodings: MJD 1900-03-01 .. 2038-04-22 with two BCD digits per field; durations likewise *)
Definition c15_time (t : Z) (b : list Z) : Prop :=
  exists mjd h m s, 15079 <= mjd <= 65535 /\ 0 <= h <= 99 /\ 0 <= m <= 99 /\ 0 <= s <= 99 /\
    b = spec_time_bytes mjd h m s /\ t = spec_unix mjd h m s.
Definition c15_dur (d : Z) (b : list Z) : Prop :=
  exists h m s, 0 <= h <= 99 /\ 0 <= m <= 99 /\ 0 <= s <= 99 /\
    b = [bcd_byte h; bcd_byte m; bcd_byte s] /\ d = spec_duration_ns h m s.

Ltac Zify.zify_post_hook ::= Z.div_mod_to_equations.

Lemma bcd_byte_ok n : 0 <= n <= 99 -> Bits.byte_ok (bcd_byte n).
Proof. intros H. unfold Bits.byte_ok, bcd_byte. lia. Qed.

Lemma c15_time_ok t b : c15_time t b -> length b = 5%nat /\ bytes_ok b.
Proof.
  intros (mjd & h & m & s & Hm & Hh & Hmi & Hs & -> & _). split; [reflexivity|].
  unfold spec_time_bytes. repeat constructor; try (apply bcd_byte_ok; assumption); unfold Bits.byte_ok; lia.
Qed.

Lemma c15_time_inv t b i r : c15_time t b -> at_ i (b ++ r) ->
  parse_dvb_time i = Ok (t, mk_iter (ibs i) (ioff i + 5)).
Proof.
  intros (mjd & h & m & s & Hm & Hh & Hmi & Hs & -> & ->) Hat.
  rewrite (dvb_time_at i (spec_time_bytes mjd h m s) r [] eq_refl Hat). rewrite (thm_decode_joint mjd h m s [] Hm Hh Hmi Hs). reflexivity.
Qed.

Lemma c15_dur_ok d b : c15_dur d b -> length b = 3%nat /\ bytes_ok b.
Proof.
  intros (h & m & s & Hh & Hmi & Hs & -> & _). split; [reflexivity|].
  repeat constructor; apply bcd_byte_ok; assumption.
Qed.

Lemma c15_dur_inv d b i r : c15_dur d b -> at_ i (b ++ r) ->
  parse_dvb_duration_seconds i = Ok (d, mk_iter (ibs i) (ioff i + 3)).
Proof.
  intros (h & m & s & Hh & Hmi & Hs & -> & ->) Hat.
  rewrite (dvb_duration_at i [bcd_byte h; bcd_byte m; bcd_byte s] r [] eq_refl Hat). rewrite (proj1 thm_durations_decode h m s [] Hh Hmi Hs). reflexivity.
Qed.

(* ---------- SDT / NIT / EIT / TOT with C15's times, descriptor loops as a premise ---------- *)
Section Desc.
  Variable desc_enc : list Descriptor -> list Z -> Prop.
  Hypothesis desc_enc_ok : forall ds bytes, desc_enc ds bytes -> bytes_ok bytes /\ Z.of_nat (length bytes) < 4096.
  Hypothesis desc_inv : forall top4 ds bytes i r, 0 <= top4 < 16 -> desc_enc ds bytes ->
    at_ i (spec_loop16 top4 bytes ++ r) ->
    parse_descriptors i = Ok (ds, mk_iter (ibs i) (ioff i + 2 + Z.of_nat (length bytes))).

  Definition sdt_parses :=
    sdt_sec_parses desc_enc desc_enc_ok desc_inv c15_time c15_time_ok c15_time_inv c15_dur c15_dur_ok c15_dur_inv.
  Definition nit_parses :=
    nit_sec_parses desc_enc desc_enc_ok desc_inv c15_time c15_time_ok c15_time_inv c15_dur c15_dur_ok c15_dur_inv.
  Definition eit_parses :=
    eit_sec_parses desc_enc desc_enc_ok desc_inv c15_time c15_time_ok c15_time_inv c15_dur c15_dur_ok c15_dur_inv.
  Definition tot_parses :=
    tot_sec_parses desc_enc desc_enc_ok desc_inv c15_time c15_time_ok c15_time_inv c15_dur c15_dur_ok c15_dur_inv.
End Desc.

(* ---------- empty descriptor loops: nothing left as a premise ---------- *)
Definition no_desc16 (ds : list Descriptor) (bytes : list Z) : Prop := ds = [] /\ bytes = [].

Lemma no_desc16_ok ds bytes : no_desc16 ds bytes -> bytes_ok bytes /\ Z.of_nat (length bytes) < 4096.
Proof. intros [_ ->]. split; [constructor|cbn; lia]. Qed.

Lemma no_desc16_inv top4 ds bytes i r : 0 <= top4 < 16 -> no_desc16 ds bytes -> at_ i (spec_loop16 top4 bytes ++ r) ->
  parse_descriptors i = Ok (ds, mk_iter (ibs i) (ioff i + 2 + Z.of_nat (length bytes))).
Proof.
  intros Ht [-> ->] Hat. unfold spec_loop16 in Hat. rewrite app_nil_r in Hat.
  destruct (len12_field top4 (Z.of_nat (@length Z [])) ltac:(cbn; lia)) as [L2 F]. cbn zeta in L2, F.
  unfold parse_descriptors, parse_descriptors_with, ibind, next_bytes_nocopy.
  rewrite (read_bytes _ _ _ 2 Hat) by (rewrite ?L2; lia). rewrite F. cbn [length].
  change (Z.of_nat 0 >? 0) with false. cbv iota. unfold iret.
  replace (ioff i + 2 + Z.of_nat 0) with (ioff i + 2) by lia. reflexivity.
Qed.

(* ---------- the same with the two descriptor premises bundled ---------- *)
Definition desc_premises (desc_enc : list Descriptor -> list Z -> Prop) : Prop :=
  (forall ds bytes, desc_enc ds bytes -> bytes_ok bytes /\ Z.of_nat (length bytes) < 4096) /\
  (forall top4 ds bytes i r, 0 <= top4 < 16 -> desc_enc ds bytes -> at_ i (spec_loop16 top4 bytes ++ r) ->
     parse_descriptors i = Ok (ds, mk_iter (ibs i) (ioff i + 2 + Z.of_nat (length bytes)))).


Lemma no_desc_premises : desc_premises no_desc16.
Proof. exact (conj no_desc16_ok no_desc16_inv). Qed.

Lemma sdt_parses_p : forall desc_enc, desc_premises desc_enc ->
  forall tid ssi pb ext ver cni sn lsn onid xs, sdt_wf desc_enc tid ext ver sn lsn onid xs ->
  sec_parses (spec_section tid ssi pb (spec_sdt_body ext ver cni sn lsn onid (map sv_spec xs)))
             (sdt_section_value tid ssi pb ext ver cni sn lsn onid xs).
Proof. intros desc_enc [H1 H2]. exact (sdt_parses desc_enc H1 H2). Qed.

Lemma nit_parses_p : forall desc_enc, desc_premises desc_enc ->
  forall tid ssi pb ext ver cni sn lsn nds nbytes xs, nit_wf desc_enc tid ext ver sn lsn nds nbytes xs ->
  sec_parses (spec_section tid ssi pb (spec_nit_body ext ver cni sn lsn nbytes (map ts_spec xs)))
             (nit_section_value tid ssi pb ext ver cni sn lsn nds nbytes xs).
Proof. intros desc_enc [H1 H2]. exact (nit_parses desc_enc H1 H2). Qed.

Lemma eit_parses_p : forall desc_enc, desc_premises desc_enc ->
  forall tid ssi pb ext ver cni sn lsn tsid onid slsn ltid xs,
  eit_wf desc_enc c15_time c15_dur tid ext ver sn lsn tsid onid slsn ltid xs ->
  sec_parses (spec_section tid ssi pb (spec_eit_body ext ver cni sn lsn tsid onid slsn ltid (map ev_spec xs)))
             (eit_section_value tid ssi pb ext ver cni sn lsn tsid onid slsn ltid xs).
Proof. intros desc_enc [H1 H2]. exact (eit_parses desc_enc H1 H2). Qed.

Lemma tot_parses_p : forall desc_enc, desc_premises desc_enc ->
  forall ssi pb t tb ds bytes, c15_time t tb -> desc_enc ds bytes -> 7 + Z.of_nat (length bytes) + 4 < 4096 ->
  sec_parses (spec_section 115 ssi pb (spec_tot_body tb bytes)) (tot_section_value ssi pb t tb ds bytes).
Proof. intros desc_enc [H1 H2]. exact (tot_parses desc_enc H1 H2). Qed.
