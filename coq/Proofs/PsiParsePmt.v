(* parsePSIData on the reference encoding of a TS program map section, with descriptor loops abstracted:
   the inversion of a descriptor loop by parseDescriptors is a premise (it is C14's round-trip statement). *)
From Coq Require Import ZArith List Lia Bool ZifyBool.
Require Import Base.Bits Base.Iter Base.Wr Gen.Consts Gen.Types Gen.Preds Model.Packet Model.Desc Model.Dvb Model.Psi.
Require Import Spec.CrcSpec Spec.PsiSpec Proofs.CrcProofs Proofs.PsiProofs Proofs.PsiParse.
Import ListNotations.
Open Scope Z_scope.
Open Scope iter_scope.

Section PMTParse.
  (* desc_enc ds bytes: bytes is the encoding of the descriptor list ds (C14's reference encoder) *)
  Variable desc_enc : list Descriptor -> list Z -> Prop.
  Hypothesis desc_enc_ok : forall ds bytes, desc_enc ds bytes -> bytes_ok bytes /\ Z.of_nat (length bytes) < 4096.
  (* parseDescriptors inverts a descriptor loop (reserved(4) length(12) bytes) wherever it lies *)
  Hypothesis desc_inv : forall ds bytes i r, desc_enc ds bytes -> at_ i (spec_desc_loop bytes ++ r) ->
    parse_descriptors i = Ok (ds, mk_iter (ibs i) (ioff i + 2 + Z.of_nat (length bytes))).

  Definition stream : Type := (Z * Z * list Descriptor * list Z)%type.   (* stream_type, PID, descriptors, their bytes *)
  Definition st_type (x : stream) : Z := fst (fst (fst x)).
  Definition st_pid (x : stream) : Z := snd (fst (fst x)).
  Definition st_descs (x : stream) : list Descriptor := snd (fst x).
  Definition st_bytes (x : stream) : list Z := snd x.
  Definition stream_ok (x : stream) : Prop :=
    0 <= st_type x < 256 /\ 0 <= st_pid x < 2 ^ 13 /\ desc_enc (st_descs x) (st_bytes x).
  Definition stream_spec (x : stream) : Z * Z * list Z := (st_type x, st_pid x, st_bytes x).
  Definition stream_value (x : stream) : PMTElementaryStream :=
    {| PMTElementaryStream_ElementaryPID := st_pid x; PMTElementaryStream_ElementaryStreamDescriptors := st_descs x;
       PMTElementaryStream_StreamType := st_type x |}.
  Definition stream_bytes (x : stream) : list Z := spec_pmt_stream (st_type x) (st_pid x) (st_bytes x).

  Lemma desc_loop_length bytes : length (spec_desc_loop bytes) = (2 + length bytes)%nat.
  Proof. unfold spec_desc_loop. rewrite app_length. unfold bytes_of_fields. rewrite (bytes_of_bits_length 2) by reflexivity. reflexivity. Qed.

  Lemma stream_bytes_length x : length (stream_bytes x) = (5 + length (st_bytes x))%nat.
  Proof.
    unfold stream_bytes, spec_pmt_stream. rewrite app_length, desc_loop_length.
    unfold bytes_of_fields. rewrite (bytes_of_bits_length 3) by reflexivity. lia.
  Qed.

  Lemma pid_field_bytes pid : 0 <= pid < 2 ^ 13 ->
    let bs := bytes_of_bits (bits_of 3 7 ++ bits_of 13 pid) in length bs = 2%nat /\ bitsf bs 3 13 = pid.
  Proof.
    intros Hp bs. split; [apply bytes_of_bits_length; reflexivity|].
    unfold bitsf, bs. rewrite (bits_of_bytes_of_bits 2) by reflexivity.
    rewrite (field_skip 3) by lia. cbn [Nat.sub]. rewrite <- (app_nil_r (bits_of 13 pid)). apply field_here. exact Hp.
  Qed.

  Lemma parse_pmt_es_at i x r : stream_ok x -> at_ i (stream_bytes x ++ r) ->
    parse_pmt_es i = Ok (stream_value x, mk_iter (ibs i) (ioff i + Z.of_nat (length (stream_bytes x)))) /\
    at_ (mk_iter (ibs i) (ioff i + Z.of_nat (length (stream_bytes x)))) r.
  Proof.
    intros (Ht & Hp & Hd) Hat. split; [|apply at_move; exact Hat].
    rewrite stream_bytes_length. unfold stream_bytes, spec_pmt_stream in Hat.
    assert (E3 : bytes_of_fields [(8%nat, st_type x); (3%nat, 7); (13%nat, st_pid x)] =
                 st_type x :: bytes_of_bits (bits_of 3 7 ++ bits_of 13 (st_pid x))).
    { unfold bytes_of_fields, bits_of_fields, field_bits. cbn [flat_map fst snd]. rewrite app_nil_r.
      rewrite (bytes_of_bits_app 1) by apply bits_of_length. rewrite bytes_of_bits_bits_of_8, Z.mod_small by lia. reflexivity. }
    rewrite E3 in Hat. cbn [app] in Hat. rewrite <- app_assoc in Hat.
    destruct (pid_field_bytes (st_pid x) Hp) as [L2 F]. cbn zeta in L2, F.
    unfold parse_pmt_es, ibind, next_bytes_nocopy.
    rewrite (read_byte _ _ _ Hat). pose proof (at_move1 _ _ _ Hat) as Hat1.
    rewrite (read_bytes _ _ _ 2 Hat1) by (rewrite ?L2; lia).
    pose proof (at_move _ _ _ Hat1) as Hat2. rewrite L2 in Hat2. cbn [ibs ioff] in Hat2 |- *. change (Z.of_nat 2) with 2 in Hat2.
    rewrite (desc_inv _ _ _ _ Hd Hat2). cbn [ibs ioff]. unfold iret. rewrite F. unfold stream_value.
    replace (ioff i + 1 + 2 + 2 + Z.of_nat (length (st_bytes x))) with (ioff i + Z.of_nat (5 + length (st_bytes x))) by lia.
    reflexivity.
  Qed.

  Lemma pmt_loop_at xs : forall fuel i r, Forall stream_ok xs -> (length xs < fuel)%nat ->
    at_ i (flat_map stream_bytes xs ++ r) ->
    loop_until fuel (ioff i + Z.of_nat (length (flat_map stream_bytes xs))) parse_pmt_es i =
      Ok (map stream_value xs, mk_iter (ibs i) (ioff i + Z.of_nat (length (flat_map stream_bytes xs)))).
  Proof.
    induction xs as [|x xs IH]; intros fuel i r Hok Hf Hat.
    - destruct fuel as [|k]; [cbn in Hf; lia|]. cbn [loop_until flat_map length app map] in *. unfold ibind, ioffset.
      replace (ioff i + Z.of_nat 0) with (ioff i) by lia. rewrite Z.ltb_irrefl. unfold iret.
      destruct i as [B o]. reflexivity.
    - destruct fuel as [|k]; [cbn in Hf; lia|]. inversion Hok as [|? ? Hx Hxs]; subst.
      cbn [flat_map] in Hat |- *. rewrite <- app_assoc in Hat.
      destruct (parse_pmt_es_at i x _ Hx Hat) as [E1 Hat1].
      pose proof (stream_bytes_length x) as Lx.
      cbn [loop_until length map]. unfold ibind at 1, ioffset. rewrite app_length.
      destruct (ioff i <? ioff i + Z.of_nat (length (stream_bytes x) + length (flat_map stream_bytes xs))) eqn:El; [|lia].
      unfold ibind at 1. rewrite E1.
      specialize (IH k _ r Hxs ltac:(cbn [length] in Hf; lia) Hat1). cbn [ibs ioff] in IH.
      replace (ioff i + Z.of_nat (length (stream_bytes x) + length (flat_map stream_bytes xs)))
        with (ioff i + Z.of_nat (length (stream_bytes x)) + Z.of_nat (length (flat_map stream_bytes xs))) by lia.
      unfold ibind. rewrite IH. reflexivity.
  Qed.

  (* the content of a PMT section *)
  Definition pmt_section_value (ssi pb : bool) (ext ver : Z) (cni : bool) (sn lsn pcr : Z)
             (pds : list Descriptor) (pbytes : list Z) (xs : list stream) : PSISection :=
    let body := spec_pmt_body ext ver cni sn lsn pcr pbytes (map stream_spec xs) in
    {| PSISection_CRC32 := crc32_mpeg2 (spec_section_prefix 2 ssi pb body);
       PSISection_Header := Some {| PSISectionHeader_PrivateBit := pb;
                                    PSISectionHeader_SectionLength := Z.of_nat (length body) + 4;
                                    PSISectionHeader_SectionSyntaxIndicator := ssi; PSISectionHeader_TableID := 2;
                                    PSISectionHeader_TableType := tt_PMT |};
       PSISection_Syntax := Some {|
         PSISectionSyntax_Data := Some (syntax_data None None None
            (Some {| PMTData_ElementaryStreams := map stream_value xs; PMTData_PCRPID := pcr;
                     PMTData_ProgramDescriptors := pds; PMTData_ProgramNumber := ext |}) None None);
         PSISectionSyntax_Header := Some {| PSISectionSyntaxHeader_CurrentNextIndicator := cni;
                                            PSISectionSyntaxHeader_LastSectionNumber := lsn;
                                            PSISectionSyntaxHeader_SectionNumber := sn;
                                            PSISectionSyntaxHeader_TableIDExtension := ext;
                                            PSISectionSyntaxHeader_VersionNumber := ver |} |} |}.

  Definition pmt_wf (ext ver sn lsn pcr : Z) (pds : list Descriptor) (pbytes : list Z) (xs : list stream) : Prop :=
    0 <= ext < 2 ^ 16 /\ 0 <= ver < 32 /\ 0 <= sn < 256 /\ 0 <= lsn < 256 /\ 0 <= pcr < 2 ^ 13 /\
    desc_enc pds pbytes /\ Forall stream_ok xs /\
    9 + Z.of_nat (length pbytes) + Z.of_nat (length (flat_map stream_bytes xs)) + 4 < 4096.

  Lemma streams_flat xs :
    flat_map (fun s : Z * Z * list Z => spec_pmt_stream (fst (fst s)) (snd (fst s)) (snd s)) (map stream_spec xs) =
    flat_map stream_bytes xs.
  Proof. induction xs as [|x xs IH]; [reflexivity|]. cbn [map flat_map]. rewrite IH. reflexivity. Qed.

  Lemma pmt_body_eq ext ver cni sn lsn pcr pbytes xs :
    spec_pmt_body ext ver cni sn lsn pcr pbytes (map stream_spec xs) =
    bytes_of_fields (spec_syntax_header ext ver cni sn lsn) ++
    bytes_of_bits (bits_of 3 7 ++ bits_of 13 pcr) ++ spec_desc_loop pbytes ++ flat_map stream_bytes xs.
  Proof.
    unfold spec_pmt_body. rewrite streams_flat. reflexivity.
  Qed.

  Lemma pmt_body_length ext ver cni sn lsn pcr pbytes xs :
    Z.of_nat (length (spec_pmt_body ext ver cni sn lsn pcr pbytes (map stream_spec xs))) =
    9 + Z.of_nat (length pbytes) + Z.of_nat (length (flat_map stream_bytes xs)).
  Proof.
    rewrite pmt_body_eq, !app_length, desc_loop_length. unfold bytes_of_fields.
    rewrite (bytes_of_bits_length 5) by reflexivity. rewrite (bytes_of_bits_length 2) by reflexivity. lia.
  Qed.

  Lemma streams_bytes_ok xs : Forall stream_ok xs -> bytes_ok (flat_map stream_bytes xs).
  Proof.
    induction 1 as [|x xs (_ & _ & Hd) _ IH]; cbn [flat_map]; [constructor|]. apply Forall_app. split; [|exact IH].
    unfold stream_bytes, spec_pmt_stream, spec_desc_loop. apply Forall_app. split; [apply bytes_of_bits_ok|].
    apply Forall_app. split; [apply bytes_of_bits_ok|]. apply (proj1 (desc_enc_ok _ _ Hd)).
  Qed.

  Lemma parse_pmt_section_at B o T ssi pb ext ver cni sn lsn pcr pds pbytes xs :
    pmt_wf ext ver sn lsn pcr pds pbytes xs ->
    let sec := spec_pmt_section ssi pb ext ver cni sn lsn pcr pbytes (map stream_spec xs) in
    at_ (mk_iter B o) (sec ++ T) ->
    parse_psi_section (mk_iter B o) =
    Ok ((pmt_section_value ssi pb ext ver cni sn lsn pcr pds pbytes xs, false), mk_iter B (o + Z.of_nat (length sec))).
  Proof.
    intros (He & Hv & Hsn & Hlsn & Hpcr & Hpd & Hxs & Hfit) sec Hat. unfold sec, spec_pmt_section in *.
    set (body := spec_pmt_body ext ver cni sn lsn pcr pbytes (map stream_spec xs)) in *.
    pose proof (pmt_body_length ext ver cni sn lsn pcr pbytes xs) as Lb. fold body in Lb.
    assert (Hbody : bytes_ok body).
    { unfold body. rewrite pmt_body_eq.
      repeat first [ apply bytes_of_bits_ok | apply streams_bytes_ok; assumption
                   | apply (proj1 (desc_enc_ok _ _ Hpd)) | apply Forall_app; split ]. }
    assert (Hat3 : at_ (mk_iter B (o + 3)) (body ++ CrcSpec.be32 (crc32_mpeg2 (spec_section_prefix 2 ssi pb body)) ++ T)).
    { unfold spec_section, spec_section_prefix in Hat. cbn zeta in Hat. rewrite <- !app_assoc in Hat.
      pose proof (at_shift B o _ _ Hat) as X.
      replace (length (bytes_of_fields (spec_section_header 2 ssi pb (Z.of_nat (length body) + 4)))) with 3%nat in X
        by (symmetry; apply bytes_of_bits_length; reflexivity).
      exact X. }
    set (sh := {| PSISectionSyntaxHeader_CurrentNextIndicator := cni; PSISectionSyntaxHeader_LastSectionNumber := lsn;
                  PSISectionSyntaxHeader_SectionNumber := sn; PSISectionSyntaxHeader_TableIDExtension := ext;
                  PSISectionSyntaxHeader_VersionNumber := ver |}).
    set (syn := {| PSISectionSyntax_Data := Some (syntax_data None None None
                     (Some {| PMTData_ElementaryStreams := map stream_value xs; PMTData_PCRPID := pcr;
                              PMTData_ProgramDescriptors := pds; PMTData_ProgramNumber := ext |}) None None);
                   PSISectionSyntax_Header := Some sh |}).
    assert (Hsyn : parse_psi_section_syntax
              {| PSISectionHeader_PrivateBit := pb; PSISectionHeader_SectionLength := Z.of_nat (length body) + 4;
                 PSISectionHeader_SectionSyntaxIndicator := ssi; PSISectionHeader_TableID := 2;
                 PSISectionHeader_TableType := table_type 2 |}
              (o + 3 + Z.of_nat (length body)) (mk_iter B (o + 3)) =
            Ok (syn, mk_iter B (o + 3 + Z.of_nat (length body)))).
    { unfold parse_psi_section_syntax. cbn [PSISectionHeader_TableID].
      change (PSITableID_hasPSISyntaxHeader 2) with true. cbv iota.
      unfold body in Hat3. rewrite pmt_body_eq in Hat3. rewrite <- !app_assoc in Hat3.
      destruct (parse_syntax_header_at _ ext ver cni sn lsn _ He Hv Hsn Hlsn Hat3) as [E1 Hat8]. cbn [ibs ioff] in E1, Hat8.
      unfold ibind at 1. unfold ibind at 1. rewrite E1. fold sh. unfold iret at 1.
      unfold parse_psi_section_syntax_data. cbn [PSISectionHeader_TableID].
      change (is_nit_id 2) with false. change (2 =? C_PSITableIDPAT) with false. change (2 =? C_PSITableIDPMT) with true.
      change (is_eit_id 2) with false. cbv iota.
      destruct (pid_field_bytes pcr Hpcr) as [L2 F]. cbn zeta in L2, F.
      unfold sh_ext, ilift, need, res_map, parse_pmt_section, loop_fuel, ilength, ibind, iret, next_bytes_nocopy.
      cbn [ibs ioff].
      rewrite (read_bytes _ _ _ 2 Hat8) by (rewrite ?L2; lia).
      pose proof (at_move _ _ _ Hat8) as Hat10. rewrite L2 in Hat10. cbn [ibs ioff] in Hat10 |- *. change (Z.of_nat 2) with 2 in Hat10.
      rewrite (desc_inv _ _ _ _ Hpd Hat10). cbn [ibs ioff].
      pose proof (at_move _ _ _ Hat10) as Hat12. rewrite desc_loop_length in Hat12. cbn [ibs ioff] in Hat12.
      replace (o + 3 + 5 + 2 + Z.of_nat (2 + length pbytes)) with (o + 3 + 5 + 2 + 2 + Z.of_nat (length pbytes)) in Hat12 by lia.
      assert (Hfuel : (length xs < S (Z.to_nat (ilen (mk_iter B (o + 3 + 5 + 2 + 2 + Z.of_nat (length pbytes))))))%nat).
      { pose proof (at_bound _ _ _ Hat12) as X. destruct Hat as [Ho _]. unfold ilen in *. cbn [ibs ioff] in *.
        assert (length xs <= length (flat_map stream_bytes xs))%nat.
        { clear. induction xs as [|x xs IH]; [reflexivity|]. cbn [flat_map length]. rewrite app_length, stream_bytes_length. lia. }
        destruct xs as [|x0 xs0]; [cbn [length]; lia|].
        assert (0 < length (flat_map stream_bytes (x0 :: xs0)))%nat by (cbn [flat_map]; rewrite app_length, stream_bytes_length; lia).
        specialize (X ltac:(assumption)). lia. }
      pose proof (pmt_loop_at xs _ _ _ Hxs Hfuel Hat12) as E2. cbn [ibs ioff] in E2.
      replace (o + 3 + Z.of_nat (length body))
        with (o + 3 + 5 + 2 + 2 + Z.of_nat (length pbytes) + Z.of_nat (length (flat_map stream_bytes xs))) by lia.
      cbn [PSISectionSyntaxHeader_TableIDExtension sh]. rewrite F. rewrite E2. reflexivity. }
    assert (R0 : 0 <= 2 < 256) by lia.
    assert (RL : Z.of_nat (length body) + 4 < 4096) by lia.
    pose proof (parse_section_frame B o 2 ssi pb body T syn _ R0 eq_refl eq_refl Hbody RL Hat Hsyn) as F.
    rewrite F. unfold pmt_section_value. fold body. change (table_type 2) with tt_PMT. reflexivity.
  Qed.

  Theorem pmt_sec_parses ssi pb ext ver cni sn lsn pcr pds pbytes xs : pmt_wf ext ver sn lsn pcr pds pbytes xs ->
    sec_parses (spec_pmt_section ssi pb ext ver cni sn lsn pcr pbytes (map stream_spec xs))
               (pmt_section_value ssi pb ext ver cni sn lsn pcr pds pbytes xs).
  Proof.
    intros Hwf. split.
    - unfold spec_pmt_section, spec_section. rewrite app_length. cbn [CrcSpec.be32 length]. lia.
    - intros B o T Hat. apply (parse_pmt_section_at B o T); assumption.
  Qed.

  Theorem parse_pmt_unit p filler ssi pb ext ver cni sn lsn pcr pds pbytes xs :
    0 <= p < 256 -> Z.of_nat (length filler) = p -> pmt_wf ext ver sn lsn pcr pds pbytes xs ->
    parse_psi_data_bytes (p :: filler ++ spec_pmt_section ssi pb ext ver cni sn lsn pcr pbytes (map stream_spec xs)) =
    Ok {| PSIData_PointerField := p;
          PSIData_Sections := [pmt_section_value ssi pb ext ver cni sn lsn pcr pds pbytes xs] |}.
  Proof.
    intros Hp Hf Hwf.
    pose proof (parse_unit p filler [spec_pmt_section ssi pb ext ver cni sn lsn pcr pbytes (map stream_spec xs)]
                  [pmt_section_value ssi pb ext ver cni sn lsn pcr pds pbytes xs] [] [] Hp Hf
                  (Forall2_cons _ _ (pmt_sec_parses ssi pb ext ver cni sn lsn pcr pds pbytes xs Hwf) (Forall2_nil _)) tail_end) as H.
    cbn [concat app] in H. rewrite !app_nil_r in H. exact H.
  Qed.
End PMTParse.

(* ---------- the premises are satisfiable: empty descriptor loops, no premise left ---------- *)
Definition no_desc (ds : list Descriptor) (bytes : list Z) : Prop := ds = [] /\ bytes = [].

Lemma no_desc_ok ds bytes : no_desc ds bytes -> bytes_ok bytes /\ Z.of_nat (length bytes) < 4096.
Proof. intros [_ ->]. split; [constructor|cbn; lia]. Qed.

Lemma no_desc_inv ds bytes i r : no_desc ds bytes -> at_ i (spec_desc_loop bytes ++ r) ->
  parse_descriptors i = Ok (ds, mk_iter (ibs i) (ioff i + 2 + Z.of_nat (length bytes))).
Proof.
  intros [-> ->] Hat. unfold spec_desc_loop in Hat. rewrite app_nil_r in Hat.
  assert (L2 : length (bytes_of_fields [(4%nat, 15); (12%nat, Z.of_nat (@length Z []))]) = 2%nat)
    by (apply bytes_of_bits_length; reflexivity).
  unfold parse_descriptors, parse_descriptors_with, ibind, next_bytes_nocopy.
  rewrite (read_bytes _ _ _ 2 Hat) by (rewrite ?L2; lia).
  cbn [length]. change (bitsf (bytes_of_fields [(4%nat, 15); (12%nat, Z.of_nat 0)]) 4 12 >? 0) with false.
  cbv iota. unfold iret. replace (ioff i + 2 + Z.of_nat 0) with (ioff i + 2) by lia. reflexivity.
Qed.

Theorem parse_pmt_unit_nodesc p filler ssi pb ext ver cni sn lsn pcr (xs : list (Z * Z)) :
  0 <= p < 256 -> Z.of_nat (length filler) = p ->
  0 <= ext < 2 ^ 16 -> 0 <= ver < 32 -> 0 <= sn < 256 -> 0 <= lsn < 256 -> 0 <= pcr < 2 ^ 13 ->
  Forall (fun x => 0 <= fst x < 256 /\ 0 <= snd x < 2 ^ 13) xs -> (length xs <= 200)%nat ->
  let streams := map (fun x => (fst x, snd x, @nil Descriptor, @nil Z)) xs in
  parse_psi_data_bytes (p :: filler ++ spec_pmt_section ssi pb ext ver cni sn lsn pcr [] (map stream_spec streams)) =
  Ok {| PSIData_PointerField := p;
        PSIData_Sections := [pmt_section_value ssi pb ext ver cni sn lsn pcr [] [] streams] |}.
Proof.
  intros Hp Hf He Hv Hsn Hlsn Hpcr Hxs Hn streams.
  apply (parse_pmt_unit no_desc no_desc_ok no_desc_inv); try assumption.
  repeat split; try assumption; try lia.
  - unfold streams. clear -Hxs. induction Hxs as [|x l [H1 H2] _ IH]; cbn [map]; constructor; [|exact IH].
    repeat split; cbn; try lia.
  - assert (E : length (flat_map stream_bytes streams) = (5 * length xs)%nat).
    { unfold streams. clear. induction xs as [|x l IH]; [reflexivity|]. cbn [map flat_map]. rewrite app_length, IH.
      rewrite stream_bytes_length. cbn. lia. }
    rewrite E. cbn [length]. lia.
Qed.
