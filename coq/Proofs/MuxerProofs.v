(* Lemmas behind C04, C05 and C17 (the Muxer).  Part 1: how many bytes a list of writer items produces
   (no assumption on the byte values), and "every packet writePacket accepts is exactly 188 bytes". *)
From Coq Require Import ZArith List Lia Bool ZifyBool.
Require Import Base.Bits Base.Iter Base.Wr Gen.Consts Gen.Types Gen.Preds
  Model.Clock Model.Packet Model.Pes Model.Desc Model.Psi Model.Muxer.
Import ListNotations.
Open Scope Z_scope.

(* ---------------- byte count of an item list ---------------- *)

Lemma bytes_of_bits_length_div : forall n l, (length l < 8 * S n)%nat -> (8 * length (bytes_of_bits l) + length l mod 8 = length l)%nat.
Proof.
  induction n as [|n IH]; intros l Hl.
  - rewrite bytes_of_bits_short by lia. simpl length. rewrite Nat.mod_small by lia. lia.
  - destruct (Nat.lt_ge_cases (length l) 8) as [Hs|Hs].
    + rewrite bytes_of_bits_short by lia. simpl length. rewrite Nat.mod_small by lia. lia.
    + do 8 (destruct l as [|? l]; [simpl in Hs; lia|]).
      cbn [bytes_of_bits length]. specialize (IH l ltac:(simpl in Hl; lia)).
      replace (S (S (S (S (S (S (S (S (length l))))))))) with (length l + 1 * 8)%nat by lia.
      rewrite Nat.mod_add by lia. lia.
Qed.

Lemma bytes_of_bits_len l : (8 * length (bytes_of_bits l) + length l mod 8 = length l)%nat.
Proof. apply (bytes_of_bits_length_div (length l)). lia. Qed.

Definition st_total (st : wstate) : nat := (8 * length (concat (snd st)) + length (fst st))%nat.

Lemma leftover_length l : length (leftover l) = (length l mod 8)%nat.
Proof.
  unfold leftover. rewrite skipn_length.
  pose proof (Nat.div_mod (length l) 8 ltac:(lia)). lia.
Qed.

Lemma push_bits_total st bs : st_total (push_bits st bs) = (st_total st + length bs)%nat.
Proof.
  unfold st_total, push_bits. cbn [fst snd].
  rewrite concat_app, app_length, concat_map_single, leftover_length.
  pose proof (bytes_of_bits_len (fst st ++ bs)) as H. rewrite app_length in *. lia.
Qed.

Lemma run_item_total st it : st_total (run_item st it) = (st_total st + length (item_bits it))%nat.
Proof.
  destruct it as [w v|b|bs]; cbn [run_item]; try apply push_bits_total.
  destruct st as [cache chunks]. cbn [fst snd]. destruct cache as [|c0 cache].
  - unfold st_total. cbn [fst snd item_bits]. rewrite bits_of_bytes_length.
    assert (E : length (concat (match bs with [] => chunks | _ :: _ => chunks ++ [bs] end)) = (length (concat chunks) + length bs)%nat).
    { destruct bs as [|b0 bs]; [simpl; lia|]. rewrite concat_app, app_length. cbn [concat]. rewrite app_nil_r. reflexivity. }
    rewrite E. simpl length. lia.
  - apply push_bits_total.
Qed.

Lemma run_items_total l : forall st, st_total (run_items l st) = (st_total st + length (items_bits l))%nat.
Proof.
  induction l as [|it l IH]; intros st; unfold run_items in *; cbn [fold_left].
  - simpl. lia.
  - change (items_bits (it :: l)) with (item_bits it ++ items_bits l).
    rewrite IH, run_item_total, app_length. lia.
Qed.

Lemma run_item_cache st it : (length (fst st) < 8)%nat -> (length (fst (run_item st it)) < 8)%nat.
Proof.
  intros H. destruct it as [w v|b|bs]; cbn [run_item]; try (unfold push_bits; cbn [fst]; apply leftover_short).
  destruct (fst st); [simpl; lia|]. unfold push_bits; cbn [fst]; apply leftover_short.
Qed.

Lemma run_items_cache l : forall st, (length (fst st) < 8)%nat -> (length (fst (run_items l st)) < 8)%nat.
Proof.
  induction l as [|it l IH]; intros st H; unfold run_items in *; cbn [fold_left]; [exact H|].
  apply IH, run_item_cache, H.
Qed.

(* bits of an item list, as a Z *)
Definition ibz (l : list witem) : Z := Z.of_nat (length (items_bits l)).

(* a byte-aligned item list of 8n bits produces n bytes, whatever the values *)
Lemma items_len_bits l n : ibz l = 8 * n -> Z.of_nat (length (bytes_of_items l)) = n.
Proof.
  unfold ibz. intros H. unfold bytes_of_items, chunks_of.
  pose proof (run_items_total l ([], [])) as T. pose proof (run_items_cache l ([], []) ltac:(simpl; lia)) as C.
  change (st_total ([], [])) with 0%nat in T. unfold st_total in T.
  set (a := length (concat (snd (run_items l ([], []))))) in *.
  set (b := length (fst (run_items l ([], [])))) in *. lia.
Qed.

Lemma ibz_nil : ibz [] = 0. Proof. reflexivity. Qed.
Lemma ibz_app a b : ibz (a ++ b) = ibz a + ibz b.
Proof. unfold ibz. rewrite items_bits_app, app_length. lia. Qed.
Lemma ibz_cons x l : ibz (x :: l) = Z.of_nat (length (item_bits x)) + ibz l.
Proof. unfold ibz. change (items_bits (x :: l)) with (item_bits x ++ items_bits l). rewrite app_length. lia. Qed.
Lemma ibz_bits w v : Z.of_nat (length (item_bits (WBits w v))) = Z.of_nat w.
Proof. cbn [item_bits]. now rewrite bits_of_length. Qed.
Lemma ibz_bool b : Z.of_nat (length (item_bits (WBool b))) = 1. Proof. reflexivity. Qed.
Lemma ibz_bytes bs : Z.of_nat (length (item_bits (WBytes bs))) = 8 * Z.of_nat (length bs).
Proof. cbn [item_bits]. rewrite bits_of_bytes_length. lia. Qed.
Lemma ibz_repeat n v : ibz (repeat_item n (wu8 v)) = 8 * Z.max 0 n.
Proof.
  unfold repeat_item. assert (G : forall k, ibz (repeat (wu8 v) k) = 8 * Z.of_nat k).
  { induction k as [|k IH]; [reflexivity|]. cbn [repeat]. rewrite ibz_cons, IH. unfold wu8. rewrite ibz_bits. lia. }
  rewrite G. lia.
Qed.

Ltac ibz_simpl :=
  repeat (rewrite ?ibz_app, ?ibz_cons, ?ibz_nil, ?ibz_bits, ?ibz_bool, ?ibz_bytes, ?ibz_repeat; unfold wu8, wu16, wu32).

(* ---------------- adaptation field and packet ---------------- *)

(* injectivity without the reductions `injection` performs on the arithmetic *)
Lemma ok_pair_inj {A B} (a c : A) (b d : B) : @Ok (A * B) (a, b) = Ok (c, d) -> a = c /\ b = d.
Proof. intros H; inversion H; auto. Qed.
Lemma ok_inj {A} (a c : A) : Ok a = Ok c -> a = c.
Proof. intros H; inversion H; auto. Qed.
Ltac okinj H := first [apply ok_pair_inj in H; destruct H as [<- <-] | apply ok_inj in H; subst].

Lemma enc_pcr_bits c : ibz (enc_pcr c) = 48.
Proof. unfold enc_pcr. ibz_simpl. reflexivity. Qed.
Lemma enc_pts_or_dts_bits f c : ibz (enc_pts_or_dts f c) = 40.
Proof. unfold enc_pts_or_dts. ibz_simpl. reflexivity. Qed.
Lemma enc_escr_bits c : ibz (enc_escr c) = 48.
Proof. unfold enc_escr. ibz_simpl. reflexivity. Qed.

Lemma enc_af_extension_bits afe its n : enc_af_extension afe = Ok (its, n) -> ibz its = 8 * n.
Proof.
  unfold enc_af_extension.
  destruct (PacketAdaptationExtensionField_HasSeamlessSplice afe).
  - destruct (PacketAdaptationExtensionField_DTSNextAccessUnit afe); cbn [need res_bind]; [|discriminate].
    intros HH; okinj HH.
    destruct (PacketAdaptationExtensionField_HasLegalTimeWindow afe), (PacketAdaptationExtensionField_HasPiecewiseRate afe);
      ibz_simpl; rewrite enc_pts_or_dts_bits; unfold C_ptsOrDTSByteLength; lia.
  - intros HH; okinj HH.
    destruct (PacketAdaptationExtensionField_HasLegalTimeWindow afe), (PacketAdaptationExtensionField_HasPiecewiseRate afe);
      ibz_simpl; lia.
Qed.

Lemma enc_adaptation_field_bits af its n : enc_adaptation_field af = Ok (its, n) -> ibz its = 8 * n.
Proof.
  unfold enc_adaptation_field.
  destruct (PacketAdaptationField_IsOneByteStuffing af).
  { intros HH; okinj HH. reflexivity. }
  set (pcr := if PacketAdaptationField_HasPCR af then _ else _).
  set (opcr := if PacketAdaptationField_HasOPCR af then _ else _).
  assert (Hpcr : forall i k, pcr = Ok (i, k) -> ibz i = 8 * k).
  { subst pcr. destruct (PacketAdaptationField_HasPCR af).
    - destruct (PacketAdaptationField_PCR af); cbn [need res_map]; [|discriminate].
      intros i k HH; okinj HH. rewrite enc_pcr_bits. reflexivity.
    - intros i k HH; okinj HH. reflexivity. }
  assert (Hopcr : forall i k, opcr = Ok (i, k) -> ibz i = 8 * k).
  { subst opcr. destruct (PacketAdaptationField_HasOPCR af).
    - destruct (PacketAdaptationField_OPCR af); cbn [need res_map]; [|discriminate].
      intros i k HH; okinj HH. rewrite enc_pcr_bits. reflexivity.
    - intros i k HH; okinj HH. reflexivity. }
  destruct pcr as [[i1 n1]| |]; cbn [res_bind]; try discriminate.
  destruct opcr as [[i2 n2]| |]; cbn [res_bind]; try discriminate.
  set (ext := if PacketAdaptationField_HasAdaptationExtensionField af then _ else _).
  assert (Hext : forall i k, ext = Ok (i, k) -> ibz i = 8 * k).
  { subst ext. destruct (PacketAdaptationField_HasAdaptationExtensionField af).
    - destruct (PacketAdaptationField_AdaptationExtensionField af); cbn [need res_bind]; [|discriminate].
      intros i k. apply enc_af_extension_bits.
    - intros i k HH; okinj HH. reflexivity. }
  destruct ext as [[i5 n5]| |]; cbn [res_bind]; try discriminate.
  intros HH; okinj HH.
  specialize (Hpcr _ _ eq_refl). specialize (Hopcr _ _ eq_refl). specialize (Hext _ _ eq_refl).
  ibz_simpl. rewrite Hpcr, Hopcr, Hext.
  destruct (PacketAdaptationField_HasSplicingCountdown af), (PacketAdaptationField_HasTransportPrivateData af);
    ibz_simpl; try lia.
  all: destruct (Z.of_nat (length (PacketAdaptationField_TransportPrivateData af)) >? 0) eqn:E; ibz_simpl; lia.
Qed.

Lemma enc_packet_header_bits h : ibz (enc_packet_header h) = 24.
Proof. unfold enc_packet_header. ibz_simpl. reflexivity. Qed.

(* the core of "whole packets": whatever writePacket accepts is exactly the target size *)
Lemma enc_packet_size p target its : enc_packet p target = Ok its ->
  Z.of_nat (length (bytes_of_items its)) = target.
Proof.
  unfold enc_packet. intros H. apply items_len_bits.
  set (plen := Z.of_nat (length (Packet_Payload p))) in *.
  destruct (PacketHeader_HasAdaptationField (Packet_Header p)) eqn:Haf.
  - destruct (Packet_AdaptationField p) as [af|]; cbn [need res_bind] in H; [|discriminate].
    destruct (PacketAdaptationField_StuffingLength af <? 0); cbn [res_bind] in H; [discriminate|].
    destruct (_ <? plen) eqn:E1 in H; [discriminate|].
    destruct (enc_adaptation_field af) as [[afi afn]| |] eqn:Eaf; cbn [res_bind] in H; try discriminate.
    destruct (_ <? plen) eqn:E2 in H; [discriminate|].
    okinj H. apply enc_adaptation_field_bits in Eaf.
    ibz_simpl. rewrite enc_packet_header_bits, Eaf.
    destruct (PacketHeader_HasPayload (Packet_Header p)); ibz_simpl; fold plen; unfold C_mpegTsPacketHeaderSize in *; lia.
  - cbn [res_bind] in H.
    destruct (_ <? plen) eqn:E1 in H; [discriminate|]. cbn [res_bind] in H.
    destruct (_ <? plen) eqn:E2 in H; [discriminate|].
    okinj H.
    ibz_simpl. rewrite enc_packet_header_bits.
    destruct (PacketHeader_HasPayload (Packet_Header p)); ibz_simpl; fold plen; unfold C_mpegTsPacketHeaderSize in *; lia.
Qed.

Lemma write_packet_size p target bs : write_packet p target = Ok bs -> Z.of_nat (length bs) = target.
Proof.
  unfold write_packet. destruct (enc_packet p target) eqn:E; cbn [res_map]; try discriminate.
  intros H; inversion H; subst. eapply enc_packet_size; eauto.
Qed.

(* the first byte handed to the writer is the sync byte *)
Lemma enc_packet_sync p target its : enc_packet p target = Ok its ->
  exists rest, its = wu8 syncByte :: rest.
Proof.
  unfold enc_packet. intros H.
  destruct (PacketHeader_HasAdaptationField (Packet_Header p)).
  - destruct (Packet_AdaptationField p) as [af|]; cbn [need res_bind] in H; [|discriminate].
    destruct (PacketAdaptationField_StuffingLength af <? 0); cbn [res_bind] in H; [discriminate|].
    destruct (_ <? _) in H; [discriminate|].
    destruct (enc_adaptation_field af) as [[afi afn]| |]; cbn [res_bind] in H; try discriminate.
    destruct (_ <? _) in H; [discriminate|]. inversion H. eexists; reflexivity.
  - cbn [res_bind] in H. destruct (_ <? _) in H; [discriminate|]. cbn [res_bind] in H.
    destruct (_ <? _) in H; [discriminate|]. inversion H. eexists; reflexivity.
Qed.
