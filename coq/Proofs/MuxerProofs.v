(* Lemmas behind C04, C05 and C17 (the Muxer).  Part 1: how many bytes a list of writer items produces
   (no assumption on the byte values), and "every packet writePacket accepts is exactly 188 bytes". *)
From Coq Require Import ZArith List Lia Bool ZifyBool Sorted.
Require Import Base.Bits Base.Iter Base.Wr Gen.Consts Gen.Types Gen.Preds
  Model.Clock Model.Packet Model.Pes Model.Desc Model.Psi Model.Muxer.
Import ListNotations.
Open Scope Z_scope.

(* ---------------- byte count of an item list ---------------- *)

Lemma bytes_of_bits_length_div : forall n l, (length l < 8 * S n)%nat -> (8 * length (bytes_of_bits l) + length l mod 8 = length l)%nat.
Proof.
  induction n as [|n IH]; intros l Hl.
  - rewrite bytes_of_bits_short by lia. simpl length. rewrite Nat.mod_small by lia. lia.
  - destruct (Nat.lt_ge_cases (length l) 8) as [Hs|Hs].
    + rewrite bytes_of_bits_short by lia. simpl length. rewrite Nat.mod_small by lia. lia.
    + do 8 (destruct l as [|? l]; [simpl in Hs; lia|]).
      cbn [bytes_of_bits length]. specialize (IH l ltac:(simpl in Hl; lia)).
      replace (S (S (S (S (S (S (S (S (length l))))))))) with (length l + 1 * 8)%nat by lia.
      rewrite Nat.mod_add by lia. lia.
Qed.

Lemma bytes_of_bits_len l : (8 * length (bytes_of_bits l) + length l mod 8 = length l)%nat.
Proof. apply (bytes_of_bits_length_div (length l)). lia. Qed.

Definition st_total (st : wstate) : nat := (8 * length (concat (snd st)) + length (fst st))%nat.

Lemma leftover_length l : length (leftover l) = (length l mod 8)%nat.
Proof.
  unfold leftover. rewrite skipn_length.
  pose proof (Nat.div_mod (length l) 8 ltac:(lia)). lia.
Qed.

Lemma push_bits_total st bs : st_total (push_bits st bs) = (st_total st + length bs)%nat.
Proof.
  unfold st_total, push_bits. cbn [fst snd].
  rewrite concat_app, app_length, concat_map_single, leftover_length.
  pose proof (bytes_of_bits_len (fst st ++ bs)) as H. rewrite app_length in *. lia.
Qed.

Lemma run_item_total st it : st_total (run_item st it) = (st_total st + length (item_bits it))%nat.
Proof.
  destruct it as [w v|b|bs]; cbn [run_item]; try apply push_bits_total.
  destruct st as [cache chunks]. cbn [fst snd]. destruct cache as [|c0 cache].
  - unfold st_total. cbn [fst snd item_bits]. rewrite bits_of_bytes_length.
    assert (E : length (concat (match bs with [] => chunks | _ :: _ => chunks ++ [bs] end)) = (length (concat chunks) + length bs)%nat).
    { destruct bs as [|b0 bs]; [simpl; lia|]. rewrite concat_app, app_length. cbn [concat]. rewrite app_nil_r. reflexivity. }
    rewrite E. simpl length. lia.
  - apply push_bits_total.
Qed.

Lemma run_items_total l : forall st, st_total (run_items l st) = (st_total st + length (items_bits l))%nat.
Proof.
  induction l as [|it l IH]; intros st; unfold run_items in *; cbn [fold_left].
  - simpl. lia.
  - change (items_bits (it :: l)) with (item_bits it ++ items_bits l).
    rewrite IH, run_item_total, app_length. lia.
Qed.

Lemma run_item_cache st it : (length (fst st) < 8)%nat -> (length (fst (run_item st it)) < 8)%nat.
Proof.
  intros H. destruct it as [w v|b|bs]; cbn [run_item]; try (unfold push_bits; cbn [fst]; apply leftover_short).
  destruct (fst st); [simpl; lia|]. unfold push_bits; cbn [fst]; apply leftover_short.
Qed.

Lemma run_items_cache l : forall st, (length (fst st) < 8)%nat -> (length (fst (run_items l st)) < 8)%nat.
Proof.
  induction l as [|it l IH]; intros st H; unfold run_items in *; cbn [fold_left]; [exact H|].
  apply IH, run_item_cache, H.
Qed.

(* bits of an item list, as a Z *)
Definition ibz (l : list witem) : Z := Z.of_nat (length (items_bits l)).

(* a byte-aligned item list of 8n bits produces n bytes, whatever the values *)
Lemma items_len_bits l n : ibz l = 8 * n -> Z.of_nat (length (bytes_of_items l)) = n.
Proof.
  unfold ibz. intros H. unfold bytes_of_items, chunks_of.
  pose proof (run_items_total l ([], [])) as T. pose proof (run_items_cache l ([], []) ltac:(simpl; lia)) as C.
  change (st_total ([], [])) with 0%nat in T. unfold st_total in T.
  set (a := length (concat (snd (run_items l ([], []))))) in *.
  set (b := length (fst (run_items l ([], [])))) in *. lia.
Qed.

Lemma ibz_nil : ibz [] = 0. Proof. reflexivity. Qed.
Lemma ibz_app a b : ibz (a ++ b) = ibz a + ibz b.
Proof. unfold ibz. rewrite items_bits_app, app_length. lia. Qed.
Lemma ibz_cons x l : ibz (x :: l) = Z.of_nat (length (item_bits x)) + ibz l.
Proof. unfold ibz. change (items_bits (x :: l)) with (item_bits x ++ items_bits l). rewrite app_length. lia. Qed.
Lemma ibz_bits w v : Z.of_nat (length (item_bits (WBits w v))) = Z.of_nat w.
Proof. cbn [item_bits]. now rewrite bits_of_length. Qed.
Lemma ibz_bool b : Z.of_nat (length (item_bits (WBool b))) = 1. Proof. reflexivity. Qed.
Lemma ibz_bytes bs : Z.of_nat (length (item_bits (WBytes bs))) = 8 * Z.of_nat (length bs).
Proof. cbn [item_bits]. rewrite bits_of_bytes_length. lia. Qed.
Lemma ibz_repeat n v : ibz (repeat_item n (wu8 v)) = 8 * Z.max 0 n.
Proof.
  unfold repeat_item. assert (G : forall k, ibz (repeat (wu8 v) k) = 8 * Z.of_nat k).
  { induction k as [|k IH]; [reflexivity|]. cbn [repeat]. rewrite ibz_cons, IH. unfold wu8. rewrite ibz_bits. lia. }
  rewrite G. lia.
Qed.

Ltac ibz_simpl :=
  repeat (rewrite ?ibz_app, ?ibz_cons, ?ibz_nil, ?ibz_bits, ?ibz_bool, ?ibz_bytes, ?ibz_repeat; unfold wu8, wu16, wu32).

(* ---------------- adaptation field and packet ---------------- *)

(* injectivity without the reductions `injection` performs on the arithmetic *)
Lemma ok_pair_inj {A B} (a c : A) (b d : B) : @Ok (A * B) (a, b) = Ok (c, d) -> a = c /\ b = d.
Proof. intros H; inversion H; auto. Qed.
Lemma ok_inj {A} (a c : A) : Ok a = Ok c -> a = c.
Proof. intros H; inversion H; auto. Qed.
Lemma ok_some_inj {A} (a c : A) : Some a = Some c -> a = c.
Proof. intros H; inversion H; auto. Qed.
Ltac okinj H := first [apply ok_pair_inj in H; destruct H as [<- <-] | apply ok_inj in H; subst].

Lemma enc_pcr_bits c : ibz (enc_pcr c) = 48.
Proof. unfold enc_pcr. ibz_simpl. reflexivity. Qed.
Lemma enc_pts_or_dts_bits f c : ibz (enc_pts_or_dts f c) = 40.
Proof. unfold enc_pts_or_dts. ibz_simpl. reflexivity. Qed.
Lemma enc_escr_bits c : ibz (enc_escr c) = 48.
Proof. unfold enc_escr. ibz_simpl. reflexivity. Qed.

Lemma enc_af_extension_bits afe its n : enc_af_extension afe = Ok (its, n) -> ibz its = 8 * n.
Proof.
  unfold enc_af_extension.
  destruct (PacketAdaptationExtensionField_HasSeamlessSplice afe).
  - destruct (PacketAdaptationExtensionField_DTSNextAccessUnit afe); cbn [need res_bind]; [|discriminate].
    intros HH; okinj HH.
    destruct (PacketAdaptationExtensionField_HasLegalTimeWindow afe), (PacketAdaptationExtensionField_HasPiecewiseRate afe);
      ibz_simpl; rewrite enc_pts_or_dts_bits; unfold C_ptsOrDTSByteLength; lia.
  - intros HH; okinj HH.
    destruct (PacketAdaptationExtensionField_HasLegalTimeWindow afe), (PacketAdaptationExtensionField_HasPiecewiseRate afe);
      ibz_simpl; lia.
Qed.

Lemma enc_adaptation_field_bits af its n : enc_adaptation_field af = Ok (its, n) -> ibz its = 8 * n.
Proof.
  unfold enc_adaptation_field.
  destruct (PacketAdaptationField_IsOneByteStuffing af).
  { intros HH; okinj HH. reflexivity. }
  set (pcr := if PacketAdaptationField_HasPCR af then _ else _).
  set (opcr := if PacketAdaptationField_HasOPCR af then _ else _).
  assert (Hpcr : forall i k, pcr = Ok (i, k) -> ibz i = 8 * k).
  { subst pcr. destruct (PacketAdaptationField_HasPCR af).
    - destruct (PacketAdaptationField_PCR af); cbn [need res_map]; [|discriminate].
      intros i k HH; okinj HH. rewrite enc_pcr_bits. reflexivity.
    - intros i k HH; okinj HH. reflexivity. }
  assert (Hopcr : forall i k, opcr = Ok (i, k) -> ibz i = 8 * k).
  { subst opcr. destruct (PacketAdaptationField_HasOPCR af).
    - destruct (PacketAdaptationField_OPCR af); cbn [need res_map]; [|discriminate].
      intros i k HH; okinj HH. rewrite enc_pcr_bits. reflexivity.
    - intros i k HH; okinj HH. reflexivity. }
  destruct pcr as [[i1 n1]| |]; cbn [res_bind]; try discriminate.
  destruct opcr as [[i2 n2]| |]; cbn [res_bind]; try discriminate.
  set (ext := if PacketAdaptationField_HasAdaptationExtensionField af then _ else _).
  assert (Hext : forall i k, ext = Ok (i, k) -> ibz i = 8 * k).
  { subst ext. destruct (PacketAdaptationField_HasAdaptationExtensionField af).
    - destruct (PacketAdaptationField_AdaptationExtensionField af); cbn [need res_bind]; [|discriminate].
      intros i k. apply enc_af_extension_bits.
    - intros i k HH; okinj HH. reflexivity. }
  destruct ext as [[i5 n5]| |]; cbn [res_bind]; try discriminate.
  intros HH; okinj HH.
  specialize (Hpcr _ _ eq_refl). specialize (Hopcr _ _ eq_refl). specialize (Hext _ _ eq_refl).
  ibz_simpl. rewrite Hpcr, Hopcr, Hext.
  destruct (PacketAdaptationField_HasSplicingCountdown af), (PacketAdaptationField_HasTransportPrivateData af);
    ibz_simpl; try lia.
  all: destruct (Z.of_nat (length (PacketAdaptationField_TransportPrivateData af)) >? 0) eqn:E; ibz_simpl; lia.
Qed.

Lemma enc_packet_header_bits h : ibz (enc_packet_header h) = 24.
Proof. unfold enc_packet_header. ibz_simpl. reflexivity. Qed.

(* the core of "whole packets": whatever writePacket accepts is exactly the target size *)
Lemma enc_packet_size p target its : enc_packet p target = Ok its ->
  Z.of_nat (length (bytes_of_items its)) = target.
Proof.
  unfold enc_packet. intros H. apply items_len_bits.
  set (plen := Z.of_nat (length (Packet_Payload p))) in *.
  destruct (PacketHeader_HasAdaptationField (Packet_Header p)) eqn:Haf.
  - destruct (Packet_AdaptationField p) as [af|]; cbn [need res_bind] in H; [|discriminate].
    destruct (PacketAdaptationField_StuffingLength af <? 0); cbn [res_bind] in H; [discriminate|].
    destruct (_ <? plen) eqn:E1 in H; [discriminate|].
    destruct (enc_adaptation_field af) as [[afi afn]| |] eqn:Eaf; cbn [res_bind] in H; try discriminate.
    destruct (_ <? plen) eqn:E2 in H; [discriminate|].
    okinj H. apply enc_adaptation_field_bits in Eaf.
    ibz_simpl. rewrite enc_packet_header_bits, Eaf.
    destruct (PacketHeader_HasPayload (Packet_Header p)); ibz_simpl; fold plen; unfold C_mpegTsPacketHeaderSize in *; lia.
  - cbn [res_bind] in H.
    destruct (_ <? plen) eqn:E1 in H; [discriminate|]. cbn [res_bind] in H.
    destruct (_ <? plen) eqn:E2 in H; [discriminate|].
    okinj H.
    ibz_simpl. rewrite enc_packet_header_bits.
    destruct (PacketHeader_HasPayload (Packet_Header p)); ibz_simpl; fold plen; unfold C_mpegTsPacketHeaderSize in *; lia.
Qed.

Lemma write_packet_size p target bs : write_packet p target = Ok bs -> Z.of_nat (length bs) = target.
Proof.
  unfold write_packet. destruct (enc_packet p target) eqn:E; cbn [res_map]; try discriminate.
  intros H; inversion H; subst. eapply enc_packet_size; eauto.
Qed.

(* the first byte handed to the writer is the sync byte *)
Lemma enc_packet_sync p target its : enc_packet p target = Ok its ->
  exists rest, its = wu8 syncByte :: rest.
Proof.
  unfold enc_packet. intros H.
  destruct (PacketHeader_HasAdaptationField (Packet_Header p)).
  - destruct (Packet_AdaptationField p) as [af|]; cbn [need res_bind] in H; [|discriminate].
    destruct (PacketAdaptationField_StuffingLength af <? 0); cbn [res_bind] in H; [discriminate|].
    destruct (_ <? _) in H; [discriminate|].
    destruct (enc_adaptation_field af) as [[afi afn]| |]; cbn [res_bind] in H; try discriminate.
    destruct (_ <? _) in H; [discriminate|]. inversion H. eexists; reflexivity.
  - cbn [res_bind] in H. destruct (_ <? _) in H; [discriminate|]. cbn [res_bind] in H.
    destruct (_ <? _) in H; [discriminate|]. inversion H. eexists; reflexivity.
Qed.

(* ---------------- PES header and writePESData: bytes counted = bytes written ---------------- *)

Definition no_err {A} (r : res A) : Prop := forall c, r <> Err c.
Lemma no_err_ok {A} (a : A) : no_err (Ok a). Proof. intros c; discriminate. Qed.
Lemma no_err_panic {A} : no_err (@Panic A). Proof. intros c; discriminate. Qed.
Lemma no_err_bind {A B} (r : res A) (f : A -> res B) : no_err r -> (forall a, no_err (f a)) -> no_err (res_bind r f).
Proof. intros Hr Hf c. destruct r; cbn [res_bind]; [apply Hf|exfalso; eapply Hr; reflexivity|discriminate]. Qed.
Lemma no_err_map {A B} (r : res A) (f : A -> B) : no_err r -> no_err (res_map f r).
Proof. intros Hr c. destruct r; cbn [res_map]; try discriminate. intros H; inversion H; subst. eapply Hr; reflexivity. Qed.
Lemma no_err_pneed {A} (o : option A) : no_err (pneed o). Proof. destruct o; intros c; discriminate. Qed.
Lemma no_err_need {A} (o : option A) : no_err (need o). Proof. destruct o; intros c; discriminate. Qed.
#[global] Hint Resolve no_err_ok no_err_panic no_err_pneed no_err_need : noerr.

Lemma ibz_repeat_nat k v : ibz (repeat (wu8 v) k) = 8 * Z.of_nat k.
Proof. induction k as [|k IH]; [reflexivity|]. cbn [repeat]. rewrite ibz_cons, IH. unfold wu8. rewrite ibz_bits. lia. Qed.

Lemma enc_dsm_trick_mode_bits m : ibz (enc_dsm_trick_mode m) = 8.
Proof.
  unfold enc_dsm_trick_mode. rewrite ibz_cons, ibz_bits.
  destruct (orb _ _); [ibz_simpl; reflexivity|]. destruct (_ =? _); [ibz_simpl; reflexivity|].
  destruct (orb _ _); ibz_simpl; reflexivity.
Qed.

Lemma enc_opt_fixed_bits h : ibz (enc_opt_fixed h) = 24.
Proof. unfold enc_opt_fixed. ibz_simpl. reflexivity. Qed.

Lemma enc_ptsdts_bits h its n : enc_ptsdts h = Ok (its, n) -> ibz its = 8 * n.
Proof.
  unfold enc_ptsdts.
  destruct (PESOptionalHeader_PTSDTSIndicator h =? C_PTSDTSIndicatorOnlyPTS).
  - destruct (PESOptionalHeader_PTS h) as [p|]; cbn [pneed res_map res_bind]; [|discriminate].
    destruct (PESOptionalHeader_PTSDTSIndicator h =? C_PTSDTSIndicatorBothPresent).
    + destruct (PESOptionalHeader_DTS h) as [d|]; cbn [pneed res_bind]; [|discriminate].
      intros HH; okinj HH. ibz_simpl. rewrite !enc_pts_or_dts_bits. unfold C_ptsOrDTSByteLength. lia.
    + cbn [res_bind]. intros HH; okinj HH. ibz_simpl. rewrite !enc_pts_or_dts_bits. unfold C_ptsOrDTSByteLength. lia.
  - cbn [res_bind].
    destruct (PESOptionalHeader_PTSDTSIndicator h =? C_PTSDTSIndicatorBothPresent).
    + destruct (PESOptionalHeader_PTS h) as [p|]; cbn [pneed res_bind]; [|discriminate].
      destruct (PESOptionalHeader_DTS h) as [d|]; cbn [pneed res_bind]; [|discriminate].
      intros HH; okinj HH. ibz_simpl. rewrite !enc_pts_or_dts_bits. unfold C_ptsOrDTSByteLength. lia.
    + cbn [res_bind]. intros HH; okinj HH. reflexivity.
Qed.

Lemma enc_ptsdts_no_err h : no_err (enc_ptsdts h).
Proof.
  unfold enc_ptsdts. apply no_err_bind.
  - destruct (_ =? _); auto with noerr. apply no_err_map; auto with noerr.
  - intros [i1 n1]. apply no_err_bind.
    + destruct (_ =? _); auto with noerr. apply no_err_bind; auto with noerr. intros p. apply no_err_bind; auto with noerr.
    + intros [i2 n2]. auto with noerr.
Qed.

Lemma enc_escr_opt_bits h its n : enc_escr_opt h = Ok (its, n) -> ibz its = 8 * n.
Proof.
  unfold enc_escr_opt. destruct (PESOptionalHeader_HasESCR h).
  - destruct (PESOptionalHeader_ESCR h); cbn [pneed res_map]; [|discriminate].
    intros HH; okinj HH. rewrite enc_escr_bits. reflexivity.
  - intros HH; okinj HH. reflexivity.
Qed.
Lemma enc_escr_opt_no_err h : no_err (enc_escr_opt h).
Proof. unfold enc_escr_opt. destruct (_ : bool); auto with noerr. apply no_err_map; auto with noerr. Qed.

Lemma enc_es_rate_bits h : ibz (fst (enc_es_rate h)) = 8 * snd (enc_es_rate h).
Proof. unfold enc_es_rate. destruct (PESOptionalHeader_HasESRate h); cbn [fst snd]; ibz_simpl; reflexivity. Qed.

Lemma enc_dsm_opt_bits h its n : enc_dsm_opt h = Ok (its, n) -> ibz its = 8 * n.
Proof.
  unfold enc_dsm_opt. destruct (PESOptionalHeader_HasDSMTrickMode h).
  - destruct (PESOptionalHeader_DSMTrickMode h); cbn [pneed res_map]; [|discriminate].
    intros HH; okinj HH. rewrite enc_dsm_trick_mode_bits. reflexivity.
  - intros HH; okinj HH. reflexivity.
Qed.
Lemma enc_dsm_opt_no_err h : no_err (enc_dsm_opt h).
Proof. unfold enc_dsm_opt. destruct (_ : bool); auto with noerr. apply no_err_map; auto with noerr. Qed.

Lemma enc_aci_bits h : ibz (fst (enc_aci h)) = 8 * snd (enc_aci h).
Proof. unfold enc_aci. destruct (PESOptionalHeader_HasAdditionalCopyInfo h); cbn [fst snd]; ibz_simpl; reflexivity. Qed.

Lemma enc_private_data_bits pd : ibz (enc_private_data pd) = 128.
Proof.
  unfold enc_private_data. destruct (16 <=? Z.of_nat (length pd)) eqn:E.
  - ibz_simpl. rewrite firstn_length. lia.
  - rewrite ibz_cons, ibz_bytes, ibz_repeat_nat. lia.
Qed.

Lemma enc_pes_extension_bits h : ibz (fst (enc_pes_extension h)) = 8 * snd (enc_pes_extension h).
Proof.
  unfold enc_pes_extension. destruct (PESOptionalHeader_HasExtension h); [|reflexivity].
  cbn [fst snd].
  destruct (PESOptionalHeader_HasPrivateData h), (PESOptionalHeader_HasProgramPacketSequenceCounter h),
    (PESOptionalHeader_HasPSTDBuffer h), (PESOptionalHeader_HasExtension2 h); cbn [fst snd];
    ibz_simpl; rewrite ?enc_private_data_bits; lia.
Qed.

Lemma enc_pes_optional_header_bits h its n : enc_pes_optional_header h = Ok (its, n) -> ibz its = 8 * n.
Proof.
  unfold enc_pes_optional_header.
  destruct (enc_ptsdts h) as [[ts n1]| |] eqn:E1; cbn [res_bind]; try discriminate.
  destruct (enc_escr_opt h) as [[es n2]| |] eqn:E2; cbn [res_bind]; try discriminate.
  pose proof (enc_es_rate_bits h) as E3. destruct (enc_es_rate h) as [er n3]. cbn [fst snd] in E3.
  destruct (enc_dsm_opt h) as [[dsm n4]| |] eqn:E4; cbn [res_bind]; try discriminate.
  pose proof (enc_aci_bits h) as E5. destruct (enc_aci h) as [aci n5]. cbn [fst snd] in E5.
  pose proof (enc_pes_extension_bits h) as E6. destruct (enc_pes_extension h) as [ext n6]. cbn [fst snd] in E6.
  intros HH; okinj HH.
  apply enc_ptsdts_bits in E1. apply enc_escr_opt_bits in E2. apply enc_dsm_opt_bits in E4.
  rewrite !ibz_app, enc_opt_fixed_bits. lia.
Qed.

Lemma enc_pes_optional_header_no_err h : no_err (enc_pes_optional_header h).
Proof.
  unfold enc_pes_optional_header. apply no_err_bind; [apply enc_ptsdts_no_err|]. intros [ts n1].
  apply no_err_bind; [apply enc_escr_opt_no_err|]. intros [es n2].
  destruct (enc_es_rate h). apply no_err_bind; [apply enc_dsm_opt_no_err|]. intros [dsm n4].
  destruct (enc_aci h), (enc_pes_extension h). auto with noerr.
Qed.

Lemma enc_pes_header_bits h plen its n : enc_pes_header h plen = Ok (its, n) -> ibz its = 8 * n /\ C_pesHeaderLength <= n.
Proof.
  unfold enc_pes_header. destruct (hasPESOptionalHeader (PESHeader_StreamID h)).
  - destruct (PESHeader_OptionalHeader h) as [oh|].
    + destruct (enc_pes_optional_header oh) as [[oi k]| |] eqn:E; cbn [res_bind]; try discriminate.
      intros HH; okinj HH. apply enc_pes_optional_header_bits in E.
      assert (0 <= k) by (unfold ibz in E; lia).
      split; [|lia]. ibz_simpl. rewrite E. unfold C_pesHeaderLength. lia.
    + cbn [res_bind]. intros HH; okinj HH. split; [|lia]. ibz_simpl. unfold C_pesHeaderLength. lia.
  - intros HH; okinj HH. split; [|lia]. ibz_simpl. unfold C_pesHeaderLength. lia.
Qed.

Lemma enc_pes_header_no_err h plen : no_err (enc_pes_header h plen).
Proof.
  unfold enc_pes_header. destruct (hasPESOptionalHeader _); auto with noerr.
  apply no_err_bind.
  - destruct (PESHeader_OptionalHeader h); auto with noerr. apply enc_pes_optional_header_no_err.
  - intros [oi n]. auto with noerr.
Qed.

(* writePESData: what it reports is what it writes, it fits, and it never returns an error *)
Lemma write_pes_data_ok h left ps avail its ntot np : write_pes_data h left ps avail = Ok (its, ntot, np) ->
  ibz its = 8 * ntot /\ 0 <= np <= Z.of_nat (length left) /\ np <= ntot <= avail /\
  (ps = false -> ntot = np /\ (np = avail \/ np = Z.of_nat (length left))) /\
  (ps = true -> C_pesHeaderLength <= ntot - np) /\
  (ntot = avail \/ np = Z.of_nat (length left)).
Proof.
  unfold write_pes_data.
  set (hd := if ps then enc_pes_header h (Z.of_nat (length left)) else Ok ([], 0)).
  assert (Hhd : forall hi n, hd = Ok (hi, n) -> ibz hi = 8 * n /\ (ps = false -> n = 0) /\ (ps = true -> C_pesHeaderLength <= n) /\ 0 <= n).
  { subst hd. destruct ps.
    - intros hi n E. apply enc_pes_header_bits in E. destruct E as [E1 E2]. unfold C_pesHeaderLength in *. repeat split; try lia; discriminate.
    - intros hi n E. okinj E. repeat split; try reflexivity; try lia; discriminate. }
  destruct hd as [[hi n]| |]; cbn [res_bind]; try discriminate.
  destruct (Hhd _ _ eq_refl) as (Hb & Hf & Ht & Hn).
  set (plen := Z.of_nat (length left)).
  destruct (avail - n >? plen) eqn:E1.
  - destruct (plen <? 0) eqn:E2; [discriminate|]. intros HH. apply ok_inj in HH.
    inversion HH; subst; clear HH. rewrite ibz_app, Hb. ibz_simpl. rewrite firstn_length. fold plen.
    repeat split; try lia; intros ->; specialize (Hf eq_refl); lia.
  - destruct (avail - n <? 0) eqn:E2; [discriminate|]. intros HH. apply ok_inj in HH.
    inversion HH; subst; clear HH. rewrite ibz_app, Hb. ibz_simpl. rewrite firstn_length. fold plen.
    repeat split; try lia; intros ->; specialize (Hf eq_refl); lia.
Qed.

Lemma write_pes_data_no_err h left ps avail : no_err (write_pes_data h left ps avail).
Proof.
  unfold write_pes_data. apply no_err_bind.
  - destruct ps; auto with noerr. apply enc_pes_header_no_err.
  - intros [hi n]. cbv zeta. destruct (_ <? 0); auto with noerr.
Qed.

(* ================= Part 3: the Muxer ================= *)
Require Import Spec.MuxSpec.

(* ---------------- esContexts as an association list ---------------- *)

Lemma es_find_cons {A} q (c : A) l pid : es_find pid ((q, c) :: l) = if q =? pid then Some c else es_find pid l.
Proof. unfold es_find. cbn [find fst]. destruct (q =? pid); reflexivity. Qed.

Lemma es_mem_cons {A} q (c : A) l pid : es_mem pid ((q, c) :: l) = (q =? pid) || es_mem pid l.
Proof. reflexivity. Qed.

Lemma es_mem_find {A} pid (l : list (Z * A)) : es_mem pid l = match es_find pid l with Some _ => true | None => false end.
Proof.
  induction l as [|[q c] l IH]; [reflexivity|]. rewrite es_mem_cons, es_find_cons, IH.
  destruct (q =? pid); reflexivity.
Qed.

Lemma es_find_map {A} pid q (c : A) l :
  es_find pid (map (fun p : Z * A => if fst p =? q then (q, c) else p) l) =
  if q =? pid then (if es_mem q l then Some c else None) else es_find pid l.
Proof.
  induction l as [|[r d] l IH].
  - cbn. destruct (q =? pid); reflexivity.
  - cbn [map fst]. rewrite es_mem_cons. destruct (r =? q) eqn:Erq.
    + apply Z.eqb_eq in Erq. subst r. rewrite !es_find_cons, IH. cbn [orb]. destruct (q =? pid); reflexivity.
    + rewrite !es_find_cons, IH. cbn [orb]. destruct (q =? pid) eqn:Eqp; [|reflexivity].
      apply Z.eqb_eq in Eqp. subst pid. rewrite Erq. reflexivity.
Qed.

Lemma es_find_app_single {A} pid q (c : A) l :
  es_find pid (l ++ [(q, c)]) = match es_find pid l with Some x => Some x | None => if q =? pid then Some c else None end.
Proof.
  induction l as [|[r d] l IH].
  - cbn [app]. rewrite es_find_cons. destruct (q =? pid); reflexivity.
  - cbn [app]. rewrite !es_find_cons, IH. destruct (r =? pid); reflexivity.
Qed.

Lemma es_find_put {A} pid q (c : A) l : es_find pid (es_put q c l) = if q =? pid then Some c else es_find pid l.
Proof.
  unfold es_put. destruct (es_mem q l) eqn:E.
  - rewrite es_find_map, E. reflexivity.
  - rewrite es_find_app_single. destruct (q =? pid) eqn:Eqp.
    + apply Z.eqb_eq in Eqp. subst pid. rewrite es_mem_find in E. destruct (es_find q l); [discriminate|reflexivity].
    + destruct (es_find pid l); reflexivity.
Qed.

Lemma es_find_del {A} pid q (l : list (Z * A)) : es_find pid (es_del q l) = if q =? pid then None else es_find pid l.
Proof.
  induction l as [|[r d] l IH].
  - cbn. destruct (q =? pid); reflexivity.
  - unfold es_del in *. cbn [filter fst]. destruct (r =? q) eqn:Erq; cbn [negb].
    + rewrite IH, es_find_cons. apply Z.eqb_eq in Erq. subst r. destruct (q =? pid); reflexivity.
    + rewrite !es_find_cons, IH. destruct (r =? pid) eqn:Erp; [|reflexivity].
      destruct (q =? pid) eqn:Eqp; [|reflexivity]. apply Z.eqb_eq in Erp, Eqp. subst. rewrite Z.eqb_refl in Erq. discriminate.
Qed.

(* ---------------- wrapping counters ---------------- *)

Definition cc_val (c : wrappingCounter) : Z := wrappingCounter_value c.
(* a continuity counter: wraps at 15, holds 0..15 or the initial 16 *)
Definition cc_wf (c : wrappingCounter) : Prop := wrappingCounter_wrapAt c = 15 /\ 0 <= cc_val c <= 16.

Lemma inc_is_value c : wrappingCounter_inc c = cc_val (wrappingCounter_inc_st c).
Proof. unfold wrappingCounter_inc, wrappingCounter_inc_st, cc_val. cbn. destruct (_ >? _); reflexivity. Qed.

Lemma inc_st_spec c : cc_wf c ->
  cc_wf (wrappingCounter_inc_st c) /\ 0 <= cc_val (wrappingCounter_inc_st c) <= 15 /\
  (cc_val c <= 15 -> cc_val (wrappingCounter_inc_st c) = (cc_val c + 1) mod 16).
Proof.
  intros [Hw Hv]. unfold wrappingCounter_inc_st, cc_wf, cc_val in *. cbn. rewrite Hw.
  destruct (wrappingCounter_value c + 1 >? 15) eqn:E; cbn; rewrite ?Hw.
  - repeat split; try lia. intros H. assert (wrappingCounter_value c = 15) as -> by lia. reflexivity.
  - repeat split; try lia. intros H. rewrite Z.mod_small; lia.
Qed.

Lemma new_cc_wf : cc_wf (newWrappingCounter cc_wrap).
Proof. unfold cc_wf, newWrappingCounter, cc_wrap, cc_val. cbn. lia. Qed.

Fixpoint iter_inc (k : nat) (c : wrappingCounter) : wrappingCounter :=
  match k with O => c | S k' => iter_inc k' (wrappingCounter_inc_st c) end.

(* the values k successive increments produce *)
Fixpoint ccs_from (c : wrappingCounter) (k : nat) : list Z :=
  match k with O => [] | S k' => cc_val (wrappingCounter_inc_st c) :: ccs_from (wrappingCounter_inc_st c) k' end.

Lemma iter_inc_wf k : forall c, cc_wf c -> cc_wf (iter_inc k c).
Proof. induction k as [|k IH]; intros c H; cbn [iter_inc]; [exact H|]. apply IH, inc_st_spec, H. Qed.

(* successive increments form a chain, and continue one that ends at the counter's value *)
Lemma ccs_from_chain k : forall c, cc_wf c -> chain16 (ccs_from c k).
Proof.
  induction k as [|k IH]; intros c H; [exact I|]. cbn [ccs_from].
  destruct (inc_st_spec c H) as (Hwf & Hr & _). specialize (IH _ Hwf).
  destruct k as [|k]; [exact I|]. cbn [ccs_from chain16] in *. split; [|exact IH].
  destruct (inc_st_spec _ Hwf) as (_ & _ & E). apply E. lia.
Qed.

Lemma chain16_app_from (l : list Z) k c : cc_wf c -> chain16 l -> (l <> [] -> last l 0 = cc_val c /\ cc_val c <= 15) ->
  chain16 (l ++ ccs_from c k).
Proof.
  intros Hc. revert k. induction l as [|a l IH]; intros k Hl Hlast; [apply ccs_from_chain, Hc|].
  destruct l as [|b l].
  - cbn [app]. destruct k as [|k]; [exact I|]. cbn [ccs_from chain16]. split; [|apply (ccs_from_chain (S k) c Hc)].
    destruct (Hlast ltac:(discriminate)) as [Ha Hle]. cbn [last] in Ha. subst a.
    destruct (inc_st_spec c Hc) as (_ & Hr & E). apply E, Hle.
  - cbn [app chain16] in *. destruct Hl as [E Hl]. split; [exact E|]. apply IH; [exact Hl|].
    intros _. apply Hlast. discriminate.
Qed.

Lemma last_ccs_from k : forall c, k <> O -> last (ccs_from c k) 0 = cc_val (iter_inc k c).
Proof.
  induction k as [|k IH]; intros c Hk; [congruence|]. cbn [ccs_from iter_inc].
  destruct k as [|k]; [reflexivity|]. rewrite <- IH by discriminate. reflexivity.
Qed.

(* ---------------- adaptation field sizes ---------------- *)

Lemma enc_af_extension_n afe its n : enc_af_extension afe = Ok (its, n) ->
  n = 1 + calcPacketAdaptationFieldExtensionLength afe.
Proof.
  unfold enc_af_extension, calcPacketAdaptationFieldExtensionLength.
  destruct (PacketAdaptationExtensionField_HasSeamlessSplice afe).
  - destruct (PacketAdaptationExtensionField_DTSNextAccessUnit afe); cbn [need res_bind]; [|discriminate].
    intros HH; okinj HH.
    destruct (PacketAdaptationExtensionField_HasLegalTimeWindow afe), (PacketAdaptationExtensionField_HasPiecewiseRate afe); reflexivity.
  - intros HH; okinj HH.
    destruct (PacketAdaptationExtensionField_HasLegalTimeWindow afe), (PacketAdaptationExtensionField_HasPiecewiseRate afe); reflexivity.
Qed.

Lemma enc_af_extension_no_err afe : no_err (enc_af_extension afe).
Proof.
  unfold enc_af_extension. destruct (_ : bool); auto with noerr.
  apply no_err_bind; auto with noerr.
Qed.

Lemma enc_adaptation_field_no_err af : no_err (enc_adaptation_field af).
Proof.
  unfold enc_adaptation_field. destruct (_ : bool); auto with noerr.
  apply no_err_bind.
  { destruct (_ : bool); auto with noerr. apply no_err_map; auto with noerr. }
  intros [i1 n1]. apply no_err_bind.
  { destruct (_ : bool); auto with noerr. apply no_err_map; auto with noerr. }
  intros [i2 n2]. apply no_err_bind.
  { destruct (_ : bool); auto with noerr. apply no_err_bind; auto with noerr. intros a. apply enc_af_extension_no_err. }
  intros [i5 n5]. auto with noerr.
Qed.

Lemma enc_adaptation_field_n af its n : enc_adaptation_field af = Ok (its, n) ->
  0 <= PacketAdaptationField_StuffingLength af -> n = packetAdaptationFieldSize af.
Proof.
  unfold enc_adaptation_field, packetAdaptationFieldSize. intros H Hst.
  destruct (PacketAdaptationField_IsOneByteStuffing af); [okinj H; reflexivity|].
  set (pcr := if PacketAdaptationField_HasPCR af then _ else _) in H.
  assert (Hpcr : forall i k, pcr = Ok (i, k) -> k = if PacketAdaptationField_HasPCR af then C_pcrBytesSize else 0).
  { subst pcr. destruct (PacketAdaptationField_HasPCR af).
    - destruct (PacketAdaptationField_PCR af); cbn [need res_map]; [|discriminate]. intros i k HH; okinj HH. reflexivity.
    - intros i k HH; okinj HH. reflexivity. }
  destruct pcr as [[i1 n1]| |]; cbn [res_bind] in H; try discriminate.
  set (opcr := if PacketAdaptationField_HasOPCR af then _ else _) in H.
  assert (Hopcr : forall i k, opcr = Ok (i, k) -> k = if PacketAdaptationField_HasOPCR af then C_pcrBytesSize else 0).
  { subst opcr. destruct (PacketAdaptationField_HasOPCR af).
    - destruct (PacketAdaptationField_OPCR af); cbn [need res_map]; [|discriminate]. intros i k HH; okinj HH. reflexivity.
    - intros i k HH; okinj HH. reflexivity. }
  destruct opcr as [[i2 n2]| |]; cbn [res_bind] in H; try discriminate.
  set (ext := if PacketAdaptationField_HasAdaptationExtensionField af then _ else _) in H.
  assert (Hext : forall i k, ext = Ok (i, k) ->
            k = if PacketAdaptationField_HasAdaptationExtensionField af
                then 1 + calcPacketAdaptationFieldExtensionLength (odflt zero_PacketAdaptationExtensionField (PacketAdaptationField_AdaptationExtensionField af))
                else 0).
  { subst ext. destruct (PacketAdaptationField_HasAdaptationExtensionField af).
    - destruct (PacketAdaptationField_AdaptationExtensionField af); cbn [need res_bind odflt]; [|discriminate].
      intros i k. apply enc_af_extension_n.
    - intros i k HH; okinj HH. reflexivity. }
  destruct ext as [[i5 n5]| |]; cbn [res_bind] in H; try discriminate.
  okinj H. rewrite (Hpcr _ _ eq_refl), (Hopcr _ _ eq_refl), (Hext _ _ eq_refl).
  destruct (PacketAdaptationField_HasPCR af), (PacketAdaptationField_HasOPCR af), (PacketAdaptationField_HasSplicingCountdown af),
    (PacketAdaptationField_HasTransportPrivateData af), (PacketAdaptationField_HasAdaptationExtensionField af); lia.
Qed.

Lemma new_stuffing_size n : 1 <= n ->
  packetAdaptationFieldSize (newStuffingAdaptationField n) = n /\
  0 <= PacketAdaptationField_StuffingLength (newStuffingAdaptationField n).
Proof.
  intros H. unfold newStuffingAdaptationField. destruct (n =? 1) eqn:E.
  - apply Z.eqb_eq in E. subst. split; [reflexivity|cbn; lia].
  - unfold packetAdaptationFieldSize. cbn -[Z.add Z.sub]. split; lia.
Qed.

Lemma with_stuffing_size a n : PacketAdaptationField_IsOneByteStuffing a = false ->
  packetAdaptationFieldSize (with_stuffing a n) = packetAdaptationFieldSize a - PacketAdaptationField_StuffingLength a + n.
Proof.
  intros H. unfold packetAdaptationFieldSize, with_stuffing. cbn -[Z.add Z.sub calcPacketAdaptationFieldExtensionLength]. rewrite H. lia.
Qed.

(* ---------------- writePacket as WriteData uses it ---------------- *)

Lemma enc_packet_af_no_err h af payload :
  PacketHeader_HasAdaptationField h = true -> 0 <= PacketAdaptationField_StuffingLength af ->
  packetAdaptationFieldSize af + Z.of_nat (length payload) <= 184 ->
  no_err (enc_packet {| Packet_AdaptationField := Some af; Packet_Header := h; Packet_Payload := payload |} 188).
Proof.
  intros Hh Hst Hsz. unfold enc_packet. cbn [Packet_Header Packet_AdaptationField Packet_Payload]. rewrite Hh.
  cbn [need res_bind]. destruct (PacketAdaptationField_StuffingLength af <? 0) eqn:E0; [lia|]. cbn [res_bind].
  unfold C_mpegTsPacketHeaderSize.
  destruct (188 - 1 - 3 - packetAdaptationFieldSize af <? Z.of_nat (length payload)) eqn:E1; [lia|].
  destruct (enc_adaptation_field af) as [[afi afn]| |] eqn:Eaf; cbn [res_bind].
  - pose proof (enc_adaptation_field_n _ _ _ Eaf Hst) as ->.
    destruct (188 - (1 + 3 + packetAdaptationFieldSize af) <? Z.of_nat (length payload)) eqn:E2; [lia|]. apply no_err_ok.
  - exfalso. eapply enc_adaptation_field_no_err; eauto.
  - apply no_err_panic.
Qed.

Lemma enc_packet_noaf_no_err h af payload :
  PacketHeader_HasAdaptationField h = false -> Z.of_nat (length payload) <= 184 ->
  no_err (enc_packet {| Packet_AdaptationField := af; Packet_Header := h; Packet_Payload := payload |} 188).
Proof.
  intros Hh Hsz. unfold enc_packet. cbn [Packet_Header Packet_AdaptationField Packet_Payload]. rewrite Hh.
  cbn [res_bind]. unfold C_mpegTsPacketHeaderSize.
  destruct (188 - 1 - 3 <? Z.of_nat (length payload)) eqn:E1; [lia|]. cbn [res_bind].
  destruct (188 - (1 + 3 + 0) <? Z.of_nat (length payload)) eqn:E2; [lia|]. apply no_err_ok.
Qed.

Definition af_size_opt (af : option PacketAdaptationField) : Z :=
  match af with Some a => packetAdaptationFieldSize a | None => 0 end.
Definition has_af (af : option PacketAdaptationField) : bool :=
  match af with Some _ => true | None => false end.

(* the payload packet WriteData builds is never rejected (S1: writer-internal members zero on entry) *)
Lemma payload_packet_no_err pid ccv af ps payload rest :
  af_entry_ok af ->
  rest = 188 - (4 + af_size_opt af) - Z.of_nat (length payload) -> 0 <= rest ->
  no_err (enc_packet {| Packet_AdaptationField := if rest >? 0 then Some (stuffed af rest) else af;
                        Packet_Header := mk_header pid ccv (has_af af || (rest >? 0)) true ps;
                        Packet_Payload := payload |} 188).
Proof.
  intros Hen Hrest Hr. destruct af as [a|]; cbn [af_size_opt has_af af_entry_ok stuffed orb] in *.
  - destruct Hen as [Hs Hone]. destruct (rest >? 0) eqn:E.
    + apply enc_packet_af_no_err; [reflexivity| |].
      * unfold with_stuffing. cbn [PacketAdaptationField_StuffingLength]. lia.
      * rewrite with_stuffing_size by exact Hone. lia.
    + apply enc_packet_af_no_err; [reflexivity|lia|lia].
  - destruct (rest >? 0) eqn:E.
    + destruct (new_stuffing_size rest ltac:(lia)) as [Hsz Hst].
      apply enc_packet_af_no_err; [reflexivity|exact Hst|lia].
    + apply enc_packet_noaf_no_err; [reflexivity|lia].
Qed.

Lemma emit_packet_cases p :
  (exists its, enc_packet p 188 = Ok its /\ emit_packet p = mk_pkt_out (Ok 188) (chunks_of its) [p]) \/
  (exists c, enc_packet p 188 = Err c /\ emit_packet p = mk_pkt_out (Err c) [] []) \/
  (enc_packet p 188 = Panic /\ emit_packet p = mk_pkt_out Panic [] []).
Proof.
  unfold emit_packet, C_MpegTsPacketSize. destruct (enc_packet p 188) as [its|c|].
  - left. eexists; split; reflexivity.
  - right; left. eexists; split; reflexivity.
  - right; right. split; reflexivity.
Qed.

(* ---------------- the packetisation loop of WriteData ---------------- *)

Lemma payload_ccs_app pid a b : payload_ccs pid (a ++ b) = payload_ccs pid a ++ payload_ccs pid b.
Proof. unfold payload_ccs. rewrite filter_app, map_app. reflexivity. Qed.

Lemma payload_ccs_other pid q pkts : Forall (fun p => pkt_pid p = q) pkts -> pid <> q -> payload_ccs pid pkts = [].
Proof.
  intros H Hne. unfold payload_ccs. induction H as [|p l Hp _ IH]; [reflexivity|].
  cbn [filter]. rewrite Hp. destruct (q =? pid) eqn:E; [lia|]. rewrite andb_false_r. exact IH.
Qed.

Lemma wd_loop_spec fuel : forall pid h cc af ps left,
  cc_wf cc -> af_entry_ok af ->
  let r := wd_loop fuel pid h cc af ps left in
  pa_res (lo_part r) <> Panic ->
  exists k, payload_ccs pid (pa_pkts (lo_part r)) = ccs_from cc k /\ lo_cc r = iter_inc k cc /\
            Forall (fun p => pkt_pid p = pid) (pa_pkts (lo_part r)).
Proof.
  induction fuel as [|fuel IH]; intros pid h cc af ps left Hcc Haf; cbn zeta.
  - destruct left; cbn [wd_loop lo_stop lo_part pa_res pa_pkts lo_cc]; intros Hp; [|congruence].
    exists O. repeat split; constructor.
  - destruct left as [|b0 left']; [intros _; exists O; repeat split; constructor|].
    cbn [wd_loop]. set (left := b0 :: left') in *.
    set (avail := C_MpegTsPacketSize - _).
    destruct (ps && (avail <? _)) eqn:Ebranch.
    + (* adaptation field only *)
      match goal with |- context [emit_packet ?p] => destruct (emit_packet_cases p) as [(its & E & ->)|[(c & E & ->)|(E & ->)]] end;
        cbn [po_res po_group po_pkt].
      * intros Hp. destruct (IH pid h cc None ps left Hcc I) as (k & Hk1 & Hk2 & Hk3).
        { exact Hp. }
        exists k. cbn [lo_cons lo_part pa_pkts lo_cc] in *. repeat split.
        -- rewrite payload_ccs_app. unfold payload_ccs at 1. cbn [filter pkt_has_payload Packet_Header mk_header PacketHeader_HasPayload andb map app]. exact Hk1.
        -- exact Hk2.
        -- constructor; [reflexivity|exact Hk3].
      * intros _. exists O. cbn [lo_stop lo_part pa_pkts lo_cc]. repeat split; constructor.
      * cbn [lo_stop lo_part pa_res]. congruence.
    + (* payload packet *)
      destruct (write_pes_data h left ps avail) as [[[items ntot] npayload]|c|] eqn:Ew.
      * destruct (write_pes_data_ok _ _ _ _ _ _ _ Ew) as (Hbits & Hnp & Hnt & _ & _ & _).
        pose proof (items_len_bits _ _ Hbits) as Hlen.
        destruct (inc_st_spec cc Hcc) as (Hwf' & Hr' & _).
        match goal with |- context [emit_packet ?p] => destruct (emit_packet_cases p) as [(its & E & ->)|[(c & E & ->)|(E & ->)]] end;
          cbn [po_res po_group po_pkt].
        -- intros Hp. destruct (IH pid h (wrappingCounter_inc_st cc) None false (skipn (Z.to_nat npayload) left) Hwf' I) as (k & Hk1 & Hk2 & Hk3).
           { exact Hp. }
           exists (S k). cbn [lo_cons lo_part pa_pkts lo_cc ccs_from iter_inc] in *. repeat split.
           ++ rewrite payload_ccs_app. unfold payload_ccs at 1.
              cbn [filter pkt_has_payload pkt_pid Packet_Header mk_header PacketHeader_HasPayload PacketHeader_PID andb map app].
              rewrite Z.eqb_refl. cbn [map app]. rewrite Hk1. f_equal.
              unfold pkt_cc. cbn [Packet_Header mk_header PacketHeader_ContinuityCounter]. rewrite inc_is_value.
              rewrite (Z.mod_small _ 256) by lia. apply Z.mod_small. lia.
           ++ exact Hk2.
           ++ constructor; [reflexivity|exact Hk3].
        -- exfalso. revert E. subst avail.
           apply (payload_packet_no_err pid (wrappingCounter_inc cc) af ps (bytes_of_items items)); [exact Haf| |].
           ++ destruct af; cbn [af_size_opt]; unfold C_MpegTsPacketSize, C_mpegTsPacketHeaderSize; lia.
           ++ destruct af; cbn [af_size_opt]; unfold C_MpegTsPacketSize, C_mpegTsPacketHeaderSize in *; lia.
        -- cbn [lo_stop lo_part pa_res]. congruence.
      * exfalso. eapply write_pes_data_no_err; eauto.
      * cbn [lo_stop lo_part pa_res]. congruence.
Qed.

(* ---------------- WriteTables ---------------- *)

Lemma restore_set_tables s a b c d e f : restore_tables s (set_tables s a b c d e f) = s.
Proof. destruct s; reflexivity. Qed.

Lemma set_tables_twice s a b c d e f a' b' c' d' e' f' :
  set_tables (set_tables s a b c d e f) a' b' c' d' e' f' = set_tables s a' b' c' d' e' f'.
Proof. reflexivity. Qed.

(* what a successful WriteTables does *)
Definition pat_ver (s : mstate) : Z := snd (next_version (ms_pat_version s) (ms_pm_updated s)).
Definition pmt_ver (s : mstate) : Z := snd (next_version (ms_pmt_version s) (ms_pmt_updated s)).
Definition tables_state (s : mstate) : mstate :=
  set_tables s (fst (next_version (ms_pat_version s) (ms_pm_updated s)))
               (fst (next_version (ms_pmt_version s) (ms_pmt_updated s)))
               (wrappingCounter_inc_st (ms_pat_cc s)) (wrappingCounter_inc_st (ms_pmt_cc s)) false false.

Definition tables_ok (s s' : mstate) (p : part) : Prop :=
  exists ppay mpay bpat bpmt,
    pa_res p = Ok tt /\
    pa_pkts p = [table_packet C_PIDPAT (wrappingCounter_inc (ms_pat_cc s)) ppay;
                 table_packet C_pmtStartPID (wrappingCounter_inc (ms_pmt_cc s)) mpay] /\
    pa_groups p = [[bpat]; [bpmt]] /\
    pa_n p = blen bpat + blen bpmt /\
    write_packet (table_packet C_PIDPAT (wrappingCounter_inc (ms_pat_cc s)) ppay) C_MpegTsPacketSize = Ok bpat /\
    write_packet (table_packet C_pmtStartPID (wrappingCounter_inc (ms_pmt_cc s)) mpay) C_MpegTsPacketSize = Ok bpmt /\
    write_psi_data (psi_of_section (pat_section (pat_ver s))) = Ok ppay /\
    write_psi_data (psi_of_section (pmt_section s (pmt_ver s))) = Ok mpay /\
    stream_pid_in (ms_pcr_pid s) (ms_streams s) = true /\
    s' = tables_state s.

Lemma write_tables_spec s s' p : write_tables s = (s', p) -> pa_res p <> Panic ->
  (exists c, pa_res p = Err c /\ s' = s /\ pa_pkts p = [] /\ pa_groups p = [] /\ pa_n p = 0) \/ tables_ok s s' p.
Proof.
  unfold write_tables, generate_pat.
  destruct (next_version (ms_pat_version s) (ms_pm_updated s)) as [patv pver] eqn:Epv.
  destruct (write_psi_data (psi_of_section (pat_section pver))) as [ppay|c|] eqn:Epsi.
  2:{ intros H; inversion H; subst; clear H. intros _. left. exists c. rewrite restore_set_tables. repeat split; reflexivity. }
  2:{ intros H; inversion H; subst; clear H. cbn [pa_res]. congruence. }
  destruct (write_packet (table_packet C_PIDPAT (wrappingCounter_inc (ms_pat_cc s)) ppay) C_MpegTsPacketSize) as [bpat|c|] eqn:Ewp.
  2:{ intros H; inversion H; subst; clear H. intros _. left. exists c. rewrite set_tables_twice, restore_set_tables. repeat split; reflexivity. }
  2:{ intros H; inversion H; subst; clear H. cbn [pa_res]. congruence. }
  rewrite !set_tables_twice. cbn [ms_pat_cc set_tables].
  unfold generate_pmt. cbn [ms_pcr_pid ms_streams ms_pmt_version ms_pmt_updated ms_pat_version ms_pat_cc ms_pmt_cc ms_pm_updated set_tables].
  destruct (stream_pid_in (ms_pcr_pid s) (ms_streams s)) eqn:Epcr; cbn [negb].
  2:{ intros H; inversion H; subst; clear H. intros _. left. exists E_pcr_pid. rewrite restore_set_tables. repeat split; reflexivity. }
  destruct (pmt_size (ms_streams s) >? 1021 - 9) eqn:Esize.
  { intros H; inversion H; subst; clear H. intros _. left. exists E_generic. rewrite restore_set_tables. repeat split; reflexivity. }
  destruct (next_version (ms_pmt_version s) (ms_pmt_updated s)) as [pmtv mver] eqn:Emv.
  change (pmt_section (set_tables s patv (ms_pmt_version s) (wrappingCounter_inc_st (ms_pat_cc s)) (ms_pmt_cc s) false (ms_pmt_updated s)) mver)
    with (pmt_section s mver).
  destruct (write_psi_data (psi_of_section (pmt_section s mver))) as [mpay|c|] eqn:Empsi.
  2:{ intros H; inversion H; subst; clear H. intros _. left. exists c. rewrite !set_tables_twice, restore_set_tables. repeat split; reflexivity. }
  2:{ intros H; inversion H; subst; clear H. cbn [pa_res]. congruence. }
  destruct (write_packet (table_packet C_pmtStartPID (wrappingCounter_inc (ms_pmt_cc s)) mpay) C_MpegTsPacketSize) as [bpmt|c|] eqn:Ewm.
  2:{ intros H; inversion H; subst; clear H. intros _. left. exists c. rewrite !set_tables_twice, restore_set_tables. repeat split; reflexivity. }
  2:{ intros H; inversion H; subst; clear H. cbn [pa_res]. congruence. }
  intros H; inversion H; subst; clear H. intros _. right.
  exists ppay, mpay, bpat, bpmt. unfold pat_ver, pmt_ver, tables_state. rewrite Epv, Emv. cbn [fst snd pa_res pa_pkts pa_groups pa_n].
  repeat split; try reflexivity; assumption.
Qed.

(* retransmitTables *)
Lemma retransmit_spec s force s' p : retransmit_tables s force = (s', p) -> pa_res p <> Panic ->
  let s1 := set_retransmit s (ms_retransmit s + 1) in
  let due := negb (negb force && (ms_retransmit s + 1 <? ms_period s)) in
  (due = false /\ s' = s1 /\ p = mk_part (Ok tt) 0 [] []) \/
  (due = true /\ exists c, pa_res p = Err c /\ s' = s1 /\ pa_pkts p = [] /\ pa_groups p = [] /\ pa_n p = 0) \/
  (due = true /\ tables_ok s1 (tables_state s1) p /\ s' = set_retransmit (tables_state s1) 0).
Proof.
  unfold retransmit_tables. cbn [ms_retransmit ms_period set_retransmit]. cbn zeta.
  set (s1 := set_retransmit s (ms_retransmit s + 1)).
  destruct (negb force && (ms_retransmit s + 1 <? ms_period s)) eqn:Edue; cbn [negb].
  { intros H; inversion H; subst. intros _. left. repeat split; reflexivity. }
  destruct (write_tables s1) as [s2 pt] eqn:Ewt. destruct pt as [rt nt gt pkt]. destruct rt as [u|c|].
  - intros H; inversion H; subst; clear H. intros _. right; right. split; [reflexivity|].
    destruct (write_tables_spec _ _ _ Ewt ltac:(cbn; congruence)) as [(c & Hc & _)|Hok]; [cbn in Hc; discriminate|].
    destruct Hok as (ppay & mpay & bpat & bpmt & H1 & H2 & H3 & H4 & H5 & H6 & H7 & H8 & H9 & H10).
    cbn [pa_res pa_pkts pa_groups pa_n] in *. subst s2. split; [|reflexivity].
    exists ppay, mpay, bpat, bpmt. cbn [pa_res pa_pkts pa_groups pa_n]. repeat split; assumption.
  - intros H; inversion H; subst; clear H. intros _. right; left. split; [reflexivity|].
    destruct (write_tables_spec _ _ _ Ewt ltac:(cbn; congruence)) as [(c' & Hc & Hs & Hp & Hg & Hn)|Hok].
    + exists c. cbn [pa_res pa_pkts pa_groups pa_n] in *. repeat split; assumption.
    + destruct Hok as (? & ? & ? & ? & H1 & _). cbn in H1. discriminate.
  - intros H; inversion H; subst; clear H. cbn [pa_res]. congruence.
Qed.

Ltac pinj H := apply pair_equal_spec in H; let H1 := fresh in let H2 := fresh in destruct H as [H1 H2]; subst.

(* everything but the contexts *)
Definition same_but_es (a b : mstate) : Prop :=
  ms_period a = ms_period b /\ ms_streams a = ms_streams b /\ ms_pcr_pid a = ms_pcr_pid b /\
  ms_pm_updated a = ms_pm_updated b /\ ms_pmt_updated a = ms_pmt_updated b /\ ms_next_pid a = ms_next_pid b /\
  ms_pat_version a = ms_pat_version b /\ ms_pmt_version a = ms_pmt_version b /\
  ms_pat_cc a = ms_pat_cc b /\ ms_pmt_cc a = ms_pmt_cc b /\ ms_retransmit a = ms_retransmit b.

Lemma same_but_es_refl a : same_but_es a a.
Proof. unfold same_but_es. repeat split. Qed.

Lemma part_app_res a b : pa_res (part_app a b) = pa_res b. Proof. reflexivity. Qed.

(* WriteData *)
Lemma write_data_spec s d s' p : write_data s d = (s', p) -> pa_res p <> Panic ->
  af_entry_ok (MuxerData_AdaptationField d) ->
  (forall ctx, es_find (MuxerData_PID d) (ms_es s) = Some ctx -> cc_wf (ec_cc ctx)) ->
  let pid := MuxerData_PID d in
  (es_find pid (ms_es s) = None /\ s' = s /\ p = mk_part (Err E_pid_not_found) 0 [] []) \/
  (exists ctx sr pt, es_find pid (ms_es s) = Some ctx /\
     retransmit_tables s (data_forced s d) = (sr, pt) /\ pa_res pt <> Panic /\
     ((exists c, pa_res pt = Err c /\ s' = sr /\ p = pt) \/
      (pa_res pt = Ok tt /\ exists k unit_pkts unit_groups unit_n,
         pa_pkts p = pa_pkts pt ++ unit_pkts /\ pa_groups p = pa_groups pt ++ unit_groups /\ pa_n p = pa_n pt + unit_n /\
         Forall (fun q => pkt_pid q = pid) unit_pkts /\
         payload_ccs pid unit_pkts = ccs_from (ec_cc ctx) k /\
         same_but_es s' sr /\
         forall q, es_find q (ms_es s') =
                   if pid =? q then Some (mk_esctx (iter_inc k (ec_cc ctx)) (ec_es ctx)) else es_find q (ms_es sr)))).
Proof.
  intros Hwd Hnp Haf Hwfall pid. unfold write_data in Hwd. fold pid in Hwd, Hwfall.
  destruct (es_find pid (ms_es s)) as [ctx|] eqn:Efind.
  2:{ left. pinj Hwd. repeat split; reflexivity. }
  pose proof (Hwfall ctx eq_refl) as Hwf.
  right.
  change (af_rai (MuxerData_AdaptationField d) && (pid =? ms_pcr_pid s)) with (data_forced s d) in Hwd.
  destruct (retransmit_tables s (data_forced s d)) as [sr pt] eqn:Ert.
  exists ctx, sr, pt. split; [reflexivity|]. split; [reflexivity|].
  destruct pt as [rt nt gt pkt]. destruct rt as [u|c|].
  - destruct u.
    assert (Hpt : pa_res (mk_part (Ok tt) nt gt pkt) <> Panic) by (cbn; congruence). split; [exact Hpt|].
    right. split; [reflexivity|].
    destruct (MuxerData_PES d) as [pes|]; [|pinj Hwd; cbn in Hnp; congruence].
    destruct (PESData_Data pes) as [|b0 data'] eqn:Edata.
    + pinj Hwd. exists O, [], [], 0. cbn [pa_pkts pa_groups pa_n iter_inc ccs_from].
      rewrite !app_nil_r, Z.add_0_r. repeat split; try reflexivity; try constructor.
      intros q. destruct (pid =? q) eqn:E; [|reflexivity]. apply Z.eqb_eq in E. subst q.
      assert (Hes : ms_es s' = ms_es s).
      { destruct (retransmit_spec _ _ _ _ Ert Hpt) as [(_ & -> & _)|[(_ & c & _ & -> & _)|(_ & _ & ->)]]; reflexivity. }
      rewrite Hes, Efind. destruct ctx; reflexivity.
    + destruct (PESData_Header pes) as [h0|]; [|pinj Hwd; cbn in Hnp; congruence].
      pinj Hwd.
      set (r := wd_loop _ _ _ _ _ _ _) in *.
      rewrite part_app_res in Hnp.
      destruct (wd_loop_spec _ pid (filled_header h0 (ec_es ctx)) (ec_cc ctx) (MuxerData_AdaptationField d) true (b0 :: data') Hwf Haf Hnp)
        as (k & Hk1 & Hk2 & Hk3). fold r in Hk1, Hk2, Hk3.
      exists k, (pa_pkts (lo_part r)), (pa_groups (lo_part r)), (pa_n (lo_part r)).
      cbn [part_app pa_pkts pa_groups pa_n]. repeat split; try reflexivity; try assumption.
      intros q. cbn [set_es ms_es]. rewrite es_find_put, Hk2. reflexivity.
  - assert (Hpt : pa_res (mk_part (Err c) nt gt pkt) <> Panic) by (cbn; congruence). split; [exact Hpt|].
    left. exists c. pinj Hwd. repeat split; reflexivity.
  - pinj Hwd. cbn in Hnp. congruence.
Qed.

(* ---------------- the state invariant ---------------- *)

Definition spid (e : PMTElementaryStream) : Z := PMTElementaryStream_ElementaryPID e.

Record ms_inv (s : mstate) : Prop := {
  inv_keys : forall pid, es_mem pid (ms_es s) = stream_pid_in pid (ms_streams s);
  inv_nodup : NoDup (map spid (ms_streams s));
  inv_es_wf : forall pid ctx, es_find pid (ms_es s) = Some ctx -> cc_wf (ec_cc ctx);
  inv_pat_wf : cc_wf (ms_pat_cc s);
  inv_pmt_wf : cc_wf (ms_pmt_cc s);
  inv_rm_wf : forall pid c, es_find pid (ms_removed s) = Some c -> cc_wf c
}.

Lemma es_mem_put {A} pid q (c : A) l : es_mem pid (es_put q c l) = (q =? pid) || es_mem pid l.
Proof. rewrite !es_mem_find, es_find_put. destruct (q =? pid); reflexivity. Qed.

Lemma es_mem_del {A} pid q (l : list (Z * A)) : es_mem pid (es_del q l) = negb (q =? pid) && es_mem pid l.
Proof. rewrite !es_mem_find, es_find_del. destruct (q =? pid); reflexivity. Qed.

Lemma stream_pid_in_app p l e : stream_pid_in p (l ++ [e]) = stream_pid_in p l || (spid e =? p).
Proof. unfold stream_pid_in. rewrite existsb_app. cbn [existsb]. rewrite orb_false_r. reflexivity. Qed.

Lemma stream_pid_in_In p l : stream_pid_in p l = true <-> In p (map spid l).
Proof.
  unfold stream_pid_in. rewrite existsb_exists, in_map_iff. split.
  - intros (e & Hin & E). exists e. split; [apply Z.eqb_eq, E|exact Hin].
  - intros (e & E & Hin). exists e. split; [exact Hin|apply Z.eqb_eq, E].
Qed.

Lemma stream_pid_in_cons p e l : stream_pid_in p (e :: l) = (spid e =? p) || stream_pid_in p l.
Proof. reflexivity. Qed.

Lemma stream_pid_in_remove p q l : NoDup (map spid l) ->
  stream_pid_in p (remove_first_pid q l) = negb (q =? p) && stream_pid_in p l.
Proof.
  induction l as [|e l IH]; intros Hnd; [cbn; now rewrite andb_false_r|].
  cbn [map] in Hnd. inversion Hnd as [|x xs Hnotin Hnd']; subst x xs.
  cbn [remove_first_pid]. change (PMTElementaryStream_ElementaryPID e) with (spid e).
  rewrite stream_pid_in_cons. destruct (spid e =? q) eqn:Eq.
  - apply Z.eqb_eq in Eq. destruct (q =? p) eqn:Eqp; cbn [negb andb].
    + apply Z.eqb_eq in Eqp. destruct (stream_pid_in p l) eqn:E; [|reflexivity].
      apply stream_pid_in_In in E. exfalso. apply Hnotin. rewrite Eq, Eqp. exact E.
    + rewrite Eq, Eqp. reflexivity.
  - rewrite stream_pid_in_cons, IH by exact Hnd'. destruct (q =? p) eqn:Eqp; cbn [negb andb]; [|reflexivity].
    apply Z.eqb_eq in Eqp. rewrite <- Eqp, Eq. reflexivity.
Qed.

Lemma remove_first_incl q l x : In x (map spid (remove_first_pid q l)) -> In x (map spid l).
Proof.
  induction l as [|e l IH]; [tauto|]. cbn [remove_first_pid]. destruct (_ =? q).
  - intros H. right. exact H.
  - cbn [map In]. intros [H|H]; [left; exact H|right; apply IH, H].
Qed.

Lemma NoDup_remove_first q l : NoDup (map spid l) -> NoDup (map spid (remove_first_pid q l)).
Proof.
  induction l as [|e l IH]; intros Hnd; [constructor|].
  cbn [map] in Hnd. inversion Hnd as [|x xs Hnotin Hnd']; subst.
  cbn [remove_first_pid]. destruct (_ =? q); [exact Hnd'|].
  cbn [map]. constructor; [|apply IH, Hnd']. intros H. apply Hnotin. eapply remove_first_incl, H.
Qed.

Lemma NoDup_app_single_aux {A} (l : list A) (x : A) : NoDup l -> ~ In x l -> NoDup (l ++ [x]).
Proof.
  induction l as [|a l IH]; intros Hnd Hx; [cbn; constructor; [tauto|constructor]|].
  inversion Hnd as [|y ys Hy Hnd']; subst. cbn [app]. constructor.
  - rewrite in_app_iff. cbn [In]. intros [H|[H|[]]]; [contradiction|]. subst. apply Hx. left. reflexivity.
  - apply IH; [exact Hnd'|]. intros H. apply Hx. right. exact H.
Qed.

Lemma NoDup_app_single l e : NoDup (map spid l) -> stream_pid_in (spid e) l = false -> NoDup (map spid (l ++ [e])).
Proof.
  intros Hnd Hnot. rewrite map_app. cbn [map]. apply NoDup_app_single_aux; [exact Hnd|].
  intros H. apply stream_pid_in_In in H. congruence.
Qed.

Lemma next_free_pid_spec fuel : forall es n p, next_free_pid fuel es n = Some p ->
  es_mem p es = false /\ p <> C_pmtStartPID.
Proof.
  induction fuel as [|fuel IH]; intros es n p; cbn [next_free_pid]; [discriminate|].
  destruct (es_mem n es || (n =? C_pmtStartPID)) eqn:E.
  - apply IH.
  - intros H; inversion H; subst. apply orb_false_iff in E. destruct E as [E1 E2]. split; [exact E1|]. lia.
Qed.

Lemma retransmit_frame s f sr pt : retransmit_tables s f = (sr, pt) -> pa_res pt <> Panic ->
  ms_es sr = ms_es s /\ ms_streams sr = ms_streams s /\ ms_pcr_pid sr = ms_pcr_pid s /\
  ms_next_pid sr = ms_next_pid s /\ ms_period sr = ms_period s /\
  (cc_wf (ms_pat_cc s) -> cc_wf (ms_pat_cc sr)) /\ (cc_wf (ms_pmt_cc s) -> cc_wf (ms_pmt_cc sr)).
Proof.
  intros H Hnp. destruct (retransmit_spec _ _ _ _ H Hnp) as [(_ & -> & _)|[(_ & c & _ & -> & _)|(_ & _ & ->)]];
    repeat match goal with |- _ /\ _ => split end; try reflexivity; try tauto.
  - intros Hw. apply (inc_st_spec _ Hw).
  - intros Hw. apply (inc_st_spec _ Hw).
Qed.

Lemma retransmit_removed s f sr pt : retransmit_tables s f = (sr, pt) -> pa_res pt <> Panic -> ms_removed sr = ms_removed s.
Proof.
  intros H Hnp. destruct (retransmit_spec _ _ _ _ H Hnp) as [(_ & -> & _)|[(_ & c & _ & -> & _)|(_ & _ & ->)]]; reflexivity.
Qed.

Lemma write_data_frame s d s' p : write_data s d = (s', p) -> pa_res p <> Panic ->
  ms_streams s' = ms_streams s /\ ms_next_pid s' = ms_next_pid s /\ ms_pcr_pid s' = ms_pcr_pid s /\ ms_period s' = ms_period s /\
  ms_removed s' = ms_removed s.
Proof.
  intros Hstep Hnp. unfold write_data in Hstep. destruct (es_find _ _) as [ctx|]; [|pinj Hstep; repeat split; reflexivity].
  destruct (retransmit_tables s _) as [sr pt] eqn:Ert. destruct pt as [rt nt gt pkt]. destruct rt as [u|c|].
  - assert (Hpt : pa_res (mk_part (Ok u) nt gt pkt) <> Panic) by (cbn; congruence).
    destruct (retransmit_frame _ _ _ _ Ert Hpt) as (_ & F1 & F3 & F2 & F4 & _). pose proof (retransmit_removed _ _ _ _ Ert Hpt) as F5.
    destruct (MuxerData_PES d) as [pes|]; [|pinj Hstep; repeat split; assumption].
    destruct (PESData_Data pes); [pinj Hstep; repeat split; assumption|].
    destruct (PESData_Header pes); pinj Hstep; repeat split; assumption.
  - assert (Hpt : pa_res (mk_part (Err c) nt gt pkt) <> Panic) by (cbn; congruence).
    destruct (retransmit_frame _ _ _ _ Ert Hpt) as (_ & F1 & F3 & F2 & F4 & _). pose proof (retransmit_removed _ _ _ _ Ert Hpt) as F5.
    pinj Hstep. repeat split; assumption.
  - pinj Hstep. cbn in Hnp. congruence.
Qed.

Lemma readded_wf es pid rm : (forall q c, es_find q rm = Some c -> cc_wf c) -> cc_wf (ec_cc (readded_context es pid rm)).
Proof.
  intros H. unfold readded_context. destruct (es_find pid rm) as [c|] eqn:E; cbn [ec_cc new_es_context]; [eapply H; eauto|apply new_cc_wf].
Qed.

Lemma step_inv s o s' p : ms_inv s -> mux_step_part s o = (s', p) -> pa_res p <> Panic -> op_entry_ok o -> ms_inv s'.
Proof.
  intros Hinv Hstep Hnp Hen. destruct Hinv as [Hkeys Hnd Hwf Hpat Hpmt Hrm].
  destruct o as [es|pid|pid| |d|pk]; cbn [mux_step_part] in Hstep.
  - (* Add *)
    unfold add_es in Hstep. fold (spid es) in Hstep.
    destruct (negb (spid es =? 0)) eqn:Ezero.
    + destruct (stream_pid_in (spid es) (ms_streams s)) eqn:Edup; pinj Hstep; [constructor; assumption|].
      constructor; cbn [set_streams_es ms_es ms_streams ms_pat_cc ms_pmt_cc ms_removed]; try assumption.
      * intros q. rewrite es_mem_put, stream_pid_in_app, Hkeys. apply orb_comm.
      * apply NoDup_app_single; assumption.
      * intros q ctx. rewrite es_find_put. destruct (spid es =? q); [|apply Hwf].
        intros H; inversion H; subst. apply readded_wf, Hrm.
      * intros q c. rewrite es_find_del. destruct (spid es =? q); [discriminate|apply Hrm].
    + destruct (next_free_pid _ _ _) as [np|] eqn:Enf; pinj Hstep; [|cbn in Hnp; congruence].
      destruct (next_free_pid_spec _ _ _ _ Enf) as [Hfree _].
      constructor; cbn [set_streams_es ms_es ms_streams ms_pat_cc ms_pmt_cc ms_removed]; try assumption.
      * intros q. rewrite es_mem_put, stream_pid_in_app, Hkeys. apply orb_comm.
      * apply NoDup_app_single; [assumption|]. unfold spid, with_pid. cbn. rewrite <- Hkeys. exact Hfree.
      * intros q ctx. rewrite es_find_put. destruct (np =? q); [|apply Hwf].
        intros H; inversion H; subst. apply readded_wf, Hrm.
      * intros q c. rewrite es_find_del. destruct (np =? q); [discriminate|apply Hrm].
  - (* Remove *)
    unfold remove_es in Hstep. destruct (stream_pid_in pid (ms_streams s)) eqn:Ein; pinj Hstep; [|constructor; assumption].
    constructor; cbn [set_streams_es ms_es ms_streams ms_pat_cc ms_pmt_cc ms_removed]; try assumption.
    + intros q. rewrite es_mem_del, stream_pid_in_remove, Hkeys by assumption. reflexivity.
    + apply NoDup_remove_first, Hnd.
    + intros q ctx. rewrite es_find_del. destruct (pid =? q); [discriminate|apply Hwf].
    + intros q c. destruct (es_find pid (ms_es s)) as [ctx|] eqn:Ectx; [|apply Hrm].
      rewrite es_find_put. destruct (pid =? q); [|apply Hrm]. intros H; inversion H; subst. eapply Hwf; eauto.
  - (* SetPCR *)
    pinj Hstep. constructor; assumption.
  - (* WriteTables *)
    destruct (write_tables_spec _ _ _ Hstep Hnp) as [(c & _ & -> & _)|(? & ? & ? & ? & _ & _ & _ & _ & _ & _ & _ & _ & _ & ->)];
      [constructor; assumption|].
    constructor; cbn [tables_state set_tables ms_es ms_streams ms_pat_cc ms_pmt_cc ms_removed]; try assumption.
    + apply (inc_st_spec _ Hpat).
    + apply (inc_st_spec _ Hpmt).
  - (* WriteData *)
    pose proof (write_data_frame _ _ _ _ Hstep Hnp) as (_ & _ & _ & _ & Frm).
    destruct (write_data_spec _ _ _ _ Hstep Hnp Hen (Hwf _)) as [(_ & -> & _)|(ctx & sr & pt & Hf & Hrt & Hnpt & Hcases)];
      [constructor; assumption|].
    destruct (retransmit_frame _ _ _ _ Hrt Hnpt) as (Fes & Fst & _ & _ & _ & Fpat & Fpmt).
    destruct Hcases as [(c & _ & -> & _)|(_ & k & up & ug & un & _ & _ & _ & _ & _ & Hsame & Hfind)].
    + constructor; rewrite ?Fes, ?Fst, ?Frm; auto.
    + destruct Hsame as (_ & Sst & _ & _ & _ & _ & _ & _ & Spat & Spmt & _).
      constructor; rewrite ?Sst, ?Spat, ?Spmt, ?Fst, ?Frm; auto.
      * intros q. rewrite es_mem_find, Hfind, Fes. destruct (MuxerData_PID d =? q) eqn:E.
        -- apply Z.eqb_eq in E. subst q. rewrite <- Hkeys, es_mem_find, Hf. reflexivity.
        -- rewrite <- Hkeys, es_mem_find. reflexivity.
      * intros q c. rewrite Hfind, Fes. destruct (MuxerData_PID d =? q); [|apply Hwf].
        intros H; inversion H; subst. cbn [ec_cc]. apply iter_inc_wf. eapply Hwf, Hf.
  - (* WritePacket *)
    pinj Hstep. constructor; assumption.
Qed.

Lemma new_muxer_inv period : ms_inv (new_muxer period).
Proof.
  constructor; cbn [new_muxer ms_es ms_streams ms_pat_cc ms_pmt_cc ms_removed].
  - reflexivity.
  - constructor.
  - intros pid ctx H. discriminate.
  - apply new_cc_wf.
  - apply new_cc_wf.
  - intros pid c H. discriminate.
Qed.

(* ---------------- what one call does to the counters (C05) ---------------- *)

Lemma table_packet_cc pid cc payload : cc_wf cc ->
  pkt_cc (table_packet pid (wrappingCounter_inc cc) payload) = cc_val (wrappingCounter_inc_st cc).
Proof.
  intros H. destruct (inc_st_spec cc H) as (_ & Hr & _).
  unfold pkt_cc, table_packet. cbn [Packet_Header mk_header PacketHeader_ContinuityCounter]. rewrite inc_is_value.
  rewrite (Z.mod_small _ 256) by lia. apply Z.mod_small. lia.
Qed.

Lemma pmt_pid_not_pat : (C_pmtStartPID =? C_PIDPAT) = false. Proof. reflexivity. Qed.
Lemma pat_pid_not_pmt : (C_PIDPAT =? C_pmtStartPID) = false. Proof. reflexivity. Qed.

(* the payload counters the table pair contributes on a PID *)
Lemma payload_ccs_tables pid s ppay mpay : cc_wf (ms_pat_cc s) -> cc_wf (ms_pmt_cc s) ->
  payload_ccs pid [table_packet C_PIDPAT (wrappingCounter_inc (ms_pat_cc s)) ppay;
                   table_packet C_pmtStartPID (wrappingCounter_inc (ms_pmt_cc s)) mpay] =
  (if C_PIDPAT =? pid then [cc_val (wrappingCounter_inc_st (ms_pat_cc s))] else []) ++
  (if C_pmtStartPID =? pid then [cc_val (wrappingCounter_inc_st (ms_pmt_cc s))] else []).
Proof.
  intros Hpat Hpmt. unfold payload_ccs.
  cbn [filter pkt_has_payload pkt_pid table_packet Packet_Header mk_header PacketHeader_HasPayload PacketHeader_PID andb].
  destruct (C_PIDPAT =? pid), (C_pmtStartPID =? pid); cbn [map app];
    rewrite ?(table_packet_cc C_PIDPAT _ ppay Hpat), ?(table_packet_cc C_pmtStartPID _ mpay Hpmt); reflexivity.
Qed.

(* effect of a call's table emission on the PAT / PMT counters and on the packets of any PID *)
Definition tables_effect (s sr : mstate) (pkts : list Packet) : Prop :=
  (pkts = [] /\ ms_pat_cc sr = ms_pat_cc s /\ ms_pmt_cc sr = ms_pmt_cc s) \/
  (exists ppay mpay, pkts = [table_packet C_PIDPAT (wrappingCounter_inc (ms_pat_cc s)) ppay;
                             table_packet C_pmtStartPID (wrappingCounter_inc (ms_pmt_cc s)) mpay] /\
     ms_pat_cc sr = wrappingCounter_inc_st (ms_pat_cc s) /\ ms_pmt_cc sr = wrappingCounter_inc_st (ms_pmt_cc s)).

Lemma retransmit_effect s f sr pt : retransmit_tables s f = (sr, pt) -> pa_res pt <> Panic -> tables_effect s sr (pa_pkts pt).
Proof.
  intros H Hnp. destruct (retransmit_spec _ _ _ _ H Hnp) as [(_ & -> & ->)|[(_ & c & _ & -> & -> & _)|(_ & Hok & ->)]].
  - left. repeat split; reflexivity.
  - left. repeat split; reflexivity.
  - right. destruct Hok as (ppay & mpay & bpat & bpmt & _ & Hp & _). exists ppay, mpay. split; [exact Hp|]. split; reflexivity.
Qed.

Lemma write_tables_effect s s' p : write_tables s = (s', p) -> pa_res p <> Panic -> tables_effect s s' (pa_pkts p).
Proof.
  intros H Hnp. destruct (write_tables_spec _ _ _ H Hnp) as [(c & _ & -> & -> & _)|Hok].
  - left. repeat split; reflexivity.
  - right. destruct Hok as (ppay & mpay & bpat & bpmt & _ & Hp & _ & _ & _ & _ & _ & _ & _ & ->). exists ppay, mpay. split; [exact Hp|]. split; reflexivity.
Qed.

Lemma tables_effect_other s sr pkts pid : tables_effect s sr pkts -> cc_wf (ms_pat_cc s) -> cc_wf (ms_pmt_cc s) ->
  pid <> C_PIDPAT -> pid <> C_pmtStartPID -> payload_ccs pid pkts = [].
Proof.
  intros [(-> & _)|(ppay & mpay & -> & _)] Hpat Hpmt H1 H2; [reflexivity|].
  rewrite payload_ccs_tables by assumption.
  destruct (C_PIDPAT =? pid) eqn:E1; [lia|]. destruct (C_pmtStartPID =? pid) eqn:E2; [lia|]. reflexivity.
Qed.

Lemma ccs_from_nil c k : ccs_from c k = [] -> k = O.
Proof. destruct k; [reflexivity|discriminate]. Qed.

Definition rm_cc (pid : Z) (s : mstate) : option wrappingCounter := es_find pid (ms_removed s).

(* an elementary stream's counter: a call either removes the stream (the counter is kept for when the PID is added
   again), or emits k payload packets on its PID carrying the next k counter values and leaves the counter k steps further *)
Lemma step_es_effect s o s' p pid c : ms_inv s -> mux_step_part s o = (s', p) -> pa_res p <> Panic -> op_entry_ok o ->
  pid <> C_PIDPAT -> pid <> C_pmtStartPID -> es_cc pid s = Some c ->
  (removes pid o p = true /\ payload_ccs pid (muxer_pkts o p) = [] /\ es_cc pid s' = None /\ rm_cc pid s' = Some c) \/
  (removes pid o p = false /\ exists k, payload_ccs pid (muxer_pkts o p) = ccs_from c k /\ es_cc pid s' = Some (iter_inc k c)).
Proof.
  intros Hinv Hstep Hnp Hen Hn1 Hn2 Hc. pose proof Hinv as [Hkeys Hnd Hwf Hpat Hpmt Hrm].
  unfold es_cc, rm_cc in *. destruct (es_find pid (ms_es s)) as [ctx0|] eqn:Ef0; [|discriminate].
  cbn [option_map] in Hc. apply ok_some_inj in Hc. subst c.
  assert (Hmem : es_mem pid (ms_es s) = true) by (rewrite es_mem_find, Ef0; reflexivity).
  destruct o as [es|q|q| |d|pk]; cbn [mux_step_part muxer_pkts removes] in *.
  - (* Add *)
    right. split; [reflexivity|]. exists O. cbn [ccs_from iter_inc].
    unfold add_es in Hstep. fold (spid es) in Hstep.
    destruct (negb (spid es =? 0)) eqn:Ezero.
    + destruct (stream_pid_in (spid es) (ms_streams s)) eqn:Edup; pinj Hstep; cbn [pa_pkts part_of_res]; [rewrite Ef0; split; reflexivity|].
      split; [reflexivity|]. cbn [set_streams_es ms_es]. rewrite es_find_put.
      destruct (spid es =? pid) eqn:E; [|rewrite Ef0; reflexivity].
      apply Z.eqb_eq in E. rewrite E, <- Hkeys, Hmem in Edup. discriminate.
    + destruct (next_free_pid _ _ _) as [np|] eqn:Enf; pinj Hstep; [|cbn in Hnp; congruence].
      destruct (next_free_pid_spec _ _ _ _ Enf) as [Hfree _]. cbn [pa_pkts part_of_res].
      split; [reflexivity|]. cbn [set_streams_es ms_es]. rewrite es_find_put.
      destruct (np =? pid) eqn:E; [|rewrite Ef0; reflexivity].
      apply Z.eqb_eq in E. subst np. congruence.
  - (* Remove *)
    unfold remove_es in Hstep. destruct (stream_pid_in q (ms_streams s)) eqn:Ein; pinj Hstep; cbn [pa_pkts pa_res part_of_res is_ok].
    + destruct (q =? pid) eqn:E; cbn [andb].
      * left. apply Z.eqb_eq in E. subst q. cbn [set_streams_es ms_es ms_removed]. rewrite Ef0, es_find_del, es_find_put, !Z.eqb_refl.
        repeat split; reflexivity.
      * right. split; [reflexivity|]. exists O. split; [reflexivity|]. cbn [set_streams_es ms_es ccs_from iter_inc]. rewrite es_find_del, E, Ef0. reflexivity.
    + right. rewrite andb_false_r. split; [reflexivity|]. exists O. rewrite Ef0. split; reflexivity.
  - (* SetPCR *)
    pinj Hstep. right. split; [reflexivity|]. exists O. cbn [set_pcr ms_es pa_pkts part_of_res]. rewrite Ef0. split; reflexivity.
  - (* WriteTables *)
    right. split; [reflexivity|]. exists O. cbn [ccs_from iter_inc].
    pose proof (write_tables_effect _ _ _ Hstep Hnp) as Heff.
    rewrite (tables_effect_other _ _ _ pid Heff) by assumption. split; [reflexivity|].
    destruct (write_tables_spec _ _ _ Hstep Hnp) as [(c & _ & -> & _)|(? & ? & ? & ? & _ & _ & _ & _ & _ & _ & _ & _ & _ & ->)];
      cbn [tables_state set_tables ms_es]; rewrite Ef0; reflexivity.
  - (* WriteData *)
    right. split; [reflexivity|].
    destruct (write_data_spec _ _ _ _ Hstep Hnp Hen (Hwf _)) as [(_ & -> & ->)|(ctx & sr & pt & Hf & Hrt & Hnpt & Hcases)].
    { exists O. cbn [pa_pkts]. rewrite Ef0. split; reflexivity. }
    destruct (retransmit_frame _ _ _ _ Hrt Hnpt) as (Fes & _).
    pose proof (retransmit_effect _ _ _ _ Hrt Hnpt) as Heff.
    pose proof (tables_effect_other _ _ _ pid Heff Hpat Hpmt Hn1 Hn2) as Htab.
    destruct Hcases as [(c & _ & -> & ->)|(_ & k & up & ug & un & Hpk & _ & _ & Hall & Hccs & _ & Hfind)].
    + exists O. rewrite Htab, Fes, Ef0. split; reflexivity.
    + rewrite Hpk, payload_ccs_app, Htab, Hfind, Fes. cbn [app].
      destruct (MuxerData_PID d =? pid) eqn:E.
      * apply Z.eqb_eq in E. rewrite E in *. rewrite Ef0 in Hf. apply ok_some_inj in Hf. subst ctx.
        exists k. split; [exact Hccs|reflexivity].
      * exists O. rewrite (payload_ccs_other pid _ _ Hall) by lia. rewrite Ef0. split; reflexivity.
  - (* WritePacket *)
    pinj Hstep. right. split; [reflexivity|]. exists O. rewrite Ef0. split; reflexivity.
Qed.

(* a PID without a context: nothing is emitted on it; a context appears only through an addition, and then with the
   counter the PID had when it was removed (or a fresh one) *)
Lemma step_es_none s o s' p pid : ms_inv s -> mux_step_part s o = (s', p) -> pa_res p <> Panic -> op_entry_ok o ->
  pid <> C_PIDPAT -> pid <> C_pmtStartPID -> es_cc pid s = None ->
  payload_ccs pid (muxer_pkts o p) = [] /\ removes pid o p = false /\
  ((es_cc pid s' = None /\ rm_cc pid s' = rm_cc pid s) \/
   es_cc pid s' = Some (match rm_cc pid s with Some c => c | None => newWrappingCounter cc_wrap end)).
Proof.
  intros Hinv Hstep Hnp Hen Hn1 Hn2 Hc. pose proof Hinv as [Hkeys Hnd Hwf Hpat Hpmt Hrm].
  unfold es_cc, rm_cc in *. destruct (es_find pid (ms_es s)) as [ctx0|] eqn:Ef0; [discriminate|]. clear Hc.
  assert (Hmem : es_mem pid (ms_es s) = false) by (rewrite es_mem_find, Ef0; reflexivity).
  assert (Hctx : forall es, option_map ec_cc (Some (readded_context es pid (ms_removed s))) =
                            Some (match es_find pid (ms_removed s) with Some c => c | None => newWrappingCounter cc_wrap end)).
  { intros es. unfold readded_context. destruct (es_find pid (ms_removed s)); reflexivity. }
  destruct o as [es|q|q| |d|pk]; cbn [mux_step_part muxer_pkts removes] in *.
  - (* Add *)
    unfold add_es in Hstep. fold (spid es) in Hstep.
    destruct (negb (spid es =? 0)) eqn:Ezero.
    + destruct (stream_pid_in (spid es) (ms_streams s)) eqn:Edup; pinj Hstep; cbn [pa_pkts part_of_res];
        [rewrite Ef0; repeat split; left; split; reflexivity|].
      repeat split. cbn [set_streams_es ms_es ms_removed]. rewrite es_find_put, es_find_del.
      destruct (spid es =? pid) eqn:E; [right; apply Z.eqb_eq in E; rewrite E; apply Hctx|left; rewrite Ef0; split; reflexivity].
    + destruct (next_free_pid _ _ _) as [np|] eqn:Enf; pinj Hstep; [|cbn in Hnp; congruence].
      cbn [pa_pkts part_of_res]. repeat split. cbn [set_streams_es ms_es ms_removed]. rewrite es_find_put, es_find_del.
      destruct (np =? pid) eqn:E; [right; apply Z.eqb_eq in E; rewrite E; apply Hctx|left; rewrite Ef0; split; reflexivity].
  - (* Remove *)
    unfold remove_es in Hstep. destruct (stream_pid_in q (ms_streams s)) eqn:Ein; pinj Hstep; cbn [pa_pkts pa_res part_of_res is_ok].
    + destruct (q =? pid) eqn:E; cbn [andb].
      * apply Z.eqb_eq in E. subst q. rewrite <- Hkeys, Hmem in Ein. discriminate.
      * repeat split. left. cbn [set_streams_es ms_es ms_removed]. rewrite es_find_del, E, Ef0. split; [reflexivity|].
        destruct (es_find q (ms_es s)); [rewrite es_find_put, E|]; reflexivity.
    + rewrite andb_false_r. repeat split. left. rewrite Ef0. split; reflexivity.
  - pinj Hstep. repeat split. left. cbn [set_pcr ms_es ms_removed]. rewrite Ef0. split; reflexivity.
  - pose proof (write_tables_effect _ _ _ Hstep Hnp) as Heff.
    rewrite (tables_effect_other _ _ _ pid Heff) by assumption. repeat split. left.
    destruct (write_tables_spec _ _ _ Hstep Hnp) as [(c & _ & -> & _)|(? & ? & ? & ? & _ & _ & _ & _ & _ & _ & _ & _ & _ & ->)];
      cbn [tables_state set_tables ms_es ms_removed]; rewrite Ef0; split; reflexivity.
  - pose proof (write_data_frame _ _ _ _ Hstep Hnp) as (_ & _ & _ & _ & Frm).
    destruct (write_data_spec _ _ _ _ Hstep Hnp Hen (Hwf _)) as [(_ & -> & ->)|(ctx & sr & pt & Hf & Hrt & Hnpt & Hcases)].
    { cbn [pa_pkts]. rewrite Ef0. repeat split. left; split; reflexivity. }
    destruct (retransmit_frame _ _ _ _ Hrt Hnpt) as (Fes & _).
    pose proof (retransmit_effect _ _ _ _ Hrt Hnpt) as Heff.
    pose proof (tables_effect_other _ _ _ pid Heff Hpat Hpmt Hn1 Hn2) as Htab.
    assert (Hne : MuxerData_PID d <> pid) by (intros E; rewrite E in Hf; congruence).
    destruct Hcases as [(c & _ & Hs & ->)|(_ & k & up & ug & un & Hpk & _ & _ & Hall & Hccs & _ & Hfind)].
    + subst s'. rewrite Htab, Fes, Ef0, Frm. repeat split. left; split; reflexivity.
    + rewrite Hpk, payload_ccs_app, Htab, Hfind, Fes, Frm. cbn [app].
      destruct (MuxerData_PID d =? pid) eqn:E; [lia|].
      rewrite (payload_ccs_other pid _ _ Hall) by lia. rewrite Ef0. repeat split. left; split; reflexivity.
  - pinj Hstep. rewrite Ef0. repeat split. left; split; reflexivity.
Qed.

(* the PAT and PMT counters *)
Lemma tables_effect_counts s sr pkts : tables_effect s sr pkts -> cc_wf (ms_pat_cc s) -> cc_wf (ms_pmt_cc s) ->
  exists k, (k <= 1)%nat /\
    payload_ccs C_PIDPAT pkts = ccs_from (ms_pat_cc s) k /\ ms_pat_cc sr = iter_inc k (ms_pat_cc s) /\
    payload_ccs C_pmtStartPID pkts = ccs_from (ms_pmt_cc s) k /\ ms_pmt_cc sr = iter_inc k (ms_pmt_cc s).
Proof.
  intros [(-> & E1 & E2)|(ppay & mpay & -> & E1 & E2)] Hpat Hpmt.
  - exists O. rewrite E1, E2. repeat split; try reflexivity; try lia.
  - exists 1%nat. rewrite !payload_ccs_tables, E1, E2 by assumption.
    rewrite !Z.eqb_refl, pmt_pid_not_pat, pat_pid_not_pmt. repeat split; try reflexivity; try lia.
Qed.

(* the table counters: a call emits k (0 or 1) table pairs; what else it emits on the two table PIDs comes from an
   elementary stream configured on that PID (outside the domain, S2) *)
Lemma step_tables_effect s o s' p : ms_inv s -> mux_step_part s o = (s', p) -> pa_res p <> Panic -> op_entry_ok o ->
  exists k rpat rpmt,
    payload_ccs C_PIDPAT (muxer_pkts o p) = ccs_from (ms_pat_cc s) k ++ rpat /\
    (es_mem C_PIDPAT (ms_es s) = false -> rpat = []) /\ ms_pat_cc s' = iter_inc k (ms_pat_cc s) /\
    payload_ccs C_pmtStartPID (muxer_pkts o p) = ccs_from (ms_pmt_cc s) k ++ rpmt /\
    (es_mem C_pmtStartPID (ms_es s) = false -> rpmt = []) /\ ms_pmt_cc s' = iter_inc k (ms_pmt_cc s).
Proof.
  intros Hinv Hstep Hnp Hen. pose proof Hinv as [Hkeys Hnd Hwf Hpat Hpmt Hrm].
  destruct o as [es|q|q| |d|pk]; cbn [mux_step_part muxer_pkts] in *.
  - exists O, [], []. unfold add_es in Hstep. destruct (negb _).
    + destruct (stream_pid_in _ _); pinj Hstep; repeat split; reflexivity.
    + destruct (next_free_pid _ _ _); pinj Hstep; repeat split; reflexivity.
  - exists O, [], []. unfold remove_es in Hstep. destruct (stream_pid_in _ _); pinj Hstep; repeat split; reflexivity.
  - exists O, [], []. pinj Hstep. repeat split; reflexivity.
  - pose proof (write_tables_effect _ _ _ Hstep Hnp) as Heff.
    destruct (tables_effect_counts _ _ _ Heff Hpat Hpmt) as (k & _ & H1 & H2 & H3 & H4).
    exists k, [], []. rewrite !app_nil_r. repeat split; auto.
  - destruct (write_data_spec _ _ _ _ Hstep Hnp Hen (Hwf _)) as [(_ & -> & ->)|(ctx & sr & pt & Hf & Hrt & Hnpt & Hcases)].
    { exists O, [], []. repeat split; reflexivity. }
    pose proof (retransmit_effect _ _ _ _ Hrt Hnpt) as Heff.
    destruct (tables_effect_counts _ _ _ Heff Hpat Hpmt) as (k & _ & H1 & H2 & H3 & H4).
    destruct Hcases as [(c & _ & -> & ->)|(_ & k' & up & ug & un & Hpk & _ & _ & Hall & Hccs & Hsame & Hfind)].
    + exists k, [], []. rewrite !app_nil_r. repeat split; auto.
    + destruct Hsame as (_ & _ & _ & _ & _ & _ & _ & _ & Spat & Spmt & _).
      exists k, (payload_ccs C_PIDPAT up), (payload_ccs C_pmtStartPID up).
      rewrite Spat, Spmt, Hpk, !payload_ccs_app, H1, H3.
      assert (Hmem : es_mem (MuxerData_PID d) (ms_es s) = true) by (rewrite es_mem_find, Hf; reflexivity).
      repeat split; auto.
      * intros Hno. apply (payload_ccs_other C_PIDPAT _ _ Hall). intros E. rewrite <- E in Hmem. congruence.
      * intros Hno. apply (payload_ccs_other C_pmtStartPID _ _ Hall). intros E. rewrite <- E in Hmem. congruence.
  - exists O, [], []. pinj Hstep. repeat split; reflexivity.
Qed.

(* ---------------- runs ---------------- *)

(* the states a run goes through: the one each operation starts from *)
Fixpoint mux_states (s : mstate) (ops : list mop) : list mstate :=
  match ops with
  | [] => []
  | o :: r => s :: mux_states (fst (mux_step_part s o)) r
  end.

Lemma mux_run_parts_cons s o r :
  mux_run_parts s (o :: r) =
  (fst (mux_run_parts (fst (mux_step_part s o)) r), snd (mux_step_part s o) :: snd (mux_run_parts (fst (mux_step_part s o)) r)).
Proof.
  cbn [mux_run_parts]. destruct (mux_step_part s o) as [s1 p]. cbn [fst snd].
  destruct (mux_run_parts s1 r) as [s2 ps]. reflexivity.
Qed.

Lemma run_inv ops : forall s, ms_inv s -> no_panic (snd (mux_run_parts s ops)) -> Forall op_entry_ok ops ->
  ms_inv (fst (mux_run_parts s ops)).
Proof.
  induction ops as [|o r IH]; intros s Hinv Hnp Hen; [exact Hinv|].
  rewrite mux_run_parts_cons in *. cbn [fst snd] in *.
  inversion Hnp as [|x xs Hp Hnp']; subst. inversion Hen as [|y ys Ho Hen']; subst.
  apply IH; try assumption. destruct (mux_step_part s o) as [s1 p] eqn:E. cbn [fst snd] in *.
  eapply step_inv; eauto.
Qed.

Lemma iter_inc_range k c : cc_wf c -> k <> O -> 0 <= cc_val (iter_inc k c) <= 15.
Proof.
  revert c. induction k as [|k IH]; intros c Hc Hk; [congruence|]. cbn [iter_inc].
  destruct (inc_st_spec c Hc) as (Hwf & Hr & _). destruct k as [|k]; [exact Hr|]. apply IH; [exact Hwf|discriminate].
Qed.

Lemma last_app_nonempty {A} (a b : list A) d : b <> [] -> last (a ++ b) d = last b d.
Proof.
  induction a as [|x a IH]; intros Hb; [reflexivity|]. cbn [app].
  destruct (a ++ b) as [|y l] eqn:E; [apply app_eq_nil in E; destruct E; contradiction|]. exact (IH Hb).
Qed.

(* invariant tying a counter to the counters emitted so far in the current lifetime *)
Definition tracks (c : wrappingCounter) (cur : list Z) : Prop :=
  cur <> [] -> last cur 0 = cc_val c /\ cc_val c <= 15.

Lemma tracks_extend c cur k : cc_wf c -> chain16 cur -> tracks c cur ->
  chain16 (cur ++ ccs_from c k) /\ tracks (iter_inc k c) (cur ++ ccs_from c k).
Proof.
  intros Hc Hch Htr. split; [apply chain16_app_from; assumption|].
  destruct k as [|k]; [cbn [ccs_from iter_inc]; rewrite app_nil_r; exact Htr|].
  intros _. rewrite last_app_nonempty by (cbn [ccs_from]; discriminate).
  rewrite last_ccs_from by discriminate. split; [reflexivity|]. apply iter_inc_range; [exact Hc|discriminate].
Qed.

(* a PID's counter: in its context while the stream is added, kept in removedCCs after a removal *)
Definition pid_tracks (pid : Z) (s : mstate) (cur : list Z) : Prop :=
  match es_cc pid s with
  | Some c => tracks c cur
  | None => match rm_cc pid s with Some c => tracks c cur | None => cur = [] end
  end.

Lemma es_cc_wf pid s c : ms_inv s -> es_cc pid s = Some c -> cc_wf c.
Proof.
  intros Hinv. unfold es_cc. destruct (es_find pid (ms_es s)) as [ctx|] eqn:E; [|discriminate].
  cbn. intros H. apply ok_some_inj in H. subst. eapply inv_es_wf; eauto.
Qed.

Lemma es_chain pid : pid <> C_PIDPAT -> pid <> C_pmtStartPID ->
  forall ops s cur, ms_inv s -> chain16 cur -> pid_tracks pid s cur ->
  no_panic (snd (mux_run_parts s ops)) -> Forall op_entry_ok ops ->
  chain16 (cur ++ emitted_ccs pid (combine ops (snd (mux_run_parts s ops)))).
Proof.
  intros Hn1 Hn2. induction ops as [|o r IH]; intros s cur Hinv Hch Htr Hnp Hen.
  - cbn. rewrite app_nil_r. exact Hch.
  - rewrite mux_run_parts_cons in *. cbn [fst snd combine] in *. unfold emitted_ccs. cbn [map concat fst snd].
    fold (emitted_ccs pid (combine r (snd (mux_run_parts (fst (mux_step_part s o)) r)))).
    inversion Hnp as [|x xs Hp Hnp']; subst. inversion Hen as [|y ys Ho Hen']; subst.
    destruct (mux_step_part s o) as [s1 p] eqn:E. cbn [fst snd] in *.
    pose proof (step_inv _ _ _ _ Hinv E Hp Ho) as Hinv1. rewrite app_assoc.
    unfold pid_tracks in Htr. destruct (es_cc pid s) as [c|] eqn:Ec.
    + pose proof (es_cc_wf _ _ _ Hinv Ec) as Hc.
      destruct (step_es_effect _ _ _ _ pid c Hinv E Hp Ho Hn1 Hn2 Ec) as [(Hrm & HL & Hs1 & Hr1)|(Hrm & k & HL & Hs1)]; rewrite HL.
      * rewrite app_nil_r. apply IH; try assumption. unfold pid_tracks. rewrite Hs1, Hr1. exact Htr.
      * destruct (tracks_extend c cur k Hc Hch Htr) as [Hch' Htr']. apply IH; try assumption. unfold pid_tracks. rewrite Hs1. exact Htr'.
    + destruct (step_es_none _ _ _ _ pid Hinv E Hp Ho Hn1 Hn2 Ec) as (HL & Hrm & Hs1). rewrite HL, app_nil_r.
      apply IH; try assumption. unfold pid_tracks. destruct Hs1 as [[Hs1 Hr1]|Hs1].
      * rewrite Hs1, Hr1. exact Htr.
      * rewrite Hs1. destruct (rm_cc pid s); [exact Htr|]. subst cur. intros H; congruence.
Qed.

(* C05_cc for elementary streams: over the whole history the payload packets of a PID form one chain; a PID that is
   removed and added again carries on *)
Theorem cc_chain_es period ops pid : pid <> C_PIDPAT -> pid <> C_pmtStartPID ->
  no_panic (snd (mux_run_parts (new_muxer period) ops)) -> Forall op_entry_ok ops ->
  chain16 (emitted_ccs pid (combine ops (snd (mux_run_parts (new_muxer period) ops)))).
Proof.
  intros H1 H2 Hnp Hen. apply (es_chain pid H1 H2 ops (new_muxer period) []); try assumption; [apply new_muxer_inv|exact I|reflexivity].
Qed.

(* ---------------- PAT and PMT counters over a run ---------------- *)

Definition table_cc (pat : bool) (s : mstate) : wrappingCounter := if pat then ms_pat_cc s else ms_pmt_cc s.
Definition table_pid (pat : bool) : Z := if pat then C_PIDPAT else C_pmtStartPID.

Lemma step_table_effect pat s o s' p : ms_inv s -> mux_step_part s o = (s', p) -> pa_res p <> Panic -> op_entry_ok o ->
  exists k rest, payload_ccs (table_pid pat) (muxer_pkts o p) = ccs_from (table_cc pat s) k ++ rest /\
                 (es_mem (table_pid pat) (ms_es s) = false -> rest = []) /\ table_cc pat s' = iter_inc k (table_cc pat s).
Proof.
  intros Hinv Hstep Hnp Hen.
  destruct (step_tables_effect _ _ _ _ Hinv Hstep Hnp Hen) as (k & rpat & rpmt & H1 & H2 & H3 & H4 & H5 & H6).
  destruct pat; cbn [table_pid table_cc]; [exists k, rpat|exists k, rpmt]; auto.
Qed.

Lemma table_cc_wf pat s : ms_inv s -> cc_wf (table_cc pat s).
Proof. intros H. destruct pat; [apply (inv_pat_wf _ H)|apply (inv_pmt_wf _ H)]. Qed.

Lemma tables_chain pat : forall ops s cur, ms_inv s -> chain16 cur -> tracks (table_cc pat s) cur ->
  no_panic (snd (mux_run_parts s ops)) -> Forall op_entry_ok ops ->
  Forall (fun st => es_mem (table_pid pat) (ms_es st) = false) (mux_states s ops) ->
  chain16 (cur ++ emitted_ccs (table_pid pat) (combine ops (snd (mux_run_parts s ops)))).
Proof.
  induction ops as [|o r IH]; intros s cur Hinv Hch Htr Hnp Hen Hno.
  - cbn. rewrite app_nil_r. exact Hch.
  - rewrite mux_run_parts_cons in *. cbn [fst snd combine mux_states] in *. unfold emitted_ccs. cbn [map concat fst snd].
    inversion Hnp as [|x xs Hp Hnp']; subst. inversion Hen as [|y ys Ho Hen']; subst. inversion Hno as [|z zs Hz Hno']; subst.
    destruct (mux_step_part s o) as [s1 p] eqn:E. cbn [fst snd] in *.
    pose proof (step_inv _ _ _ _ Hinv E Hp Ho) as Hinv1.
    destruct (step_table_effect pat _ _ _ _ Hinv E Hp Ho) as (k & rest & HL & Hrest & Hs1).
    rewrite (Hrest Hz), app_nil_r in HL. rewrite HL, app_assoc.
    destruct (tracks_extend _ cur k (table_cc_wf pat s Hinv) Hch Htr) as [Hch' Htr'].
    apply IH; try assumption. rewrite Hs1. exact Htr'.
Qed.

(* C05_cc for the tables: over a whole run the PAT (PMT) packets form one chain, provided no elementary stream was
   ever configured on that PID *)
Theorem cc_chain_tables pat period ops :
  no_panic (snd (mux_run_parts (new_muxer period) ops)) -> Forall op_entry_ok ops ->
  Forall (fun st => es_mem (table_pid pat) (ms_es st) = false) (mux_states (new_muxer period) ops) ->
  chain16 (emitted_ccs (table_pid pat) (combine ops (snd (mux_run_parts (new_muxer period) ops)))).
Proof.
  intros Hnp Hen Hno. apply (tables_chain pat ops (new_muxer period) []); try assumption; [apply new_muxer_inv|exact I|].
  intros H; congruence.
Qed.

(* C05_no_burn: from any state a run reaches, a call that emits no payload packet on a PID leaves that PID's
   counter where it was *)
Theorem no_burn period ops o s' p :
  let s := fst (mux_run_parts (new_muxer period) ops) in
  no_panic (snd (mux_run_parts (new_muxer period) ops)) -> Forall op_entry_ok ops -> op_entry_ok o ->
  mux_step_part s o = (s', p) -> pa_res p <> Panic ->
  (forall pid c, pid <> C_PIDPAT -> pid <> C_pmtStartPID -> es_cc pid s = Some c ->
     payload_ccs pid (muxer_pkts o p) = [] -> removes pid o p = false -> es_cc pid s' = Some c) /\
  (payload_ccs C_PIDPAT (muxer_pkts o p) = [] -> ms_pat_cc s' = ms_pat_cc s) /\
  (payload_ccs C_pmtStartPID (muxer_pkts o p) = [] -> ms_pmt_cc s' = ms_pmt_cc s).
Proof.
  intros s Hnp Hen Ho Hstep Hp.
  assert (Hinv : ms_inv s) by (apply run_inv; [apply new_muxer_inv|assumption|assumption]).
  split; [|split].
  - intros pid c H1 H2 Hc HL Hrm.
    destruct (step_es_effect _ _ _ _ pid c Hinv Hstep Hp Ho H1 H2 Hc) as [(Hrm' & _)|(_ & k & HL' & Hs')]; [congruence|].
    rewrite HL in HL'. symmetry in HL'. apply ccs_from_nil in HL'. subst k. exact Hs'.
  - intros HL. destruct (step_table_effect true _ _ _ _ Hinv Hstep Hp Ho) as (k & rest & HL' & _ & Hs'). cbn [table_pid table_cc] in *.
    rewrite HL in HL'. symmetry in HL'. apply app_eq_nil in HL'. destruct HL' as [HL' _]. apply ccs_from_nil in HL'. subst k. exact Hs'.
  - intros HL. destruct (step_table_effect false _ _ _ _ Hinv Hstep Hp Ho) as (k & rest & HL' & _ & Hs'). cbn [table_pid table_cc] in *.
    rewrite HL in HL'. symmetry in HL'. apply app_eq_nil in HL'. destruct HL' as [HL' _]. apply ccs_from_nil in HL'. subst k. exact Hs'.
Qed.

(* ================= Part 4: C17 ================= *)

(* ---------------- automatic PIDs ---------------- *)

Definition count_ge (n : Z) (l : list PMTElementaryStream) : Z :=
  Z.of_nat (length (filter (fun e => n <=? spid e) l)).

Lemma count_ge_nonneg n l : 0 <= count_ge n l. Proof. unfold count_ge. lia. Qed.

Lemma count_ge_cons n e l : count_ge n (e :: l) = (if n <=? spid e then 1 else 0) + count_ge n l.
Proof. unfold count_ge. cbn [filter]. destruct (n <=? spid e); cbn [length]; lia. Qed.

Lemma count_ge_succ_le n l : count_ge (n + 1) l <= count_ge n l.
Proof.
  induction l as [|e l IH]; [reflexivity|]. rewrite !count_ge_cons.
  destruct (n + 1 <=? spid e) eqn:E1, (n <=? spid e) eqn:E2; lia.
Qed.

Lemma count_ge_notin n l : stream_pid_in n l = false -> count_ge (n + 1) l = count_ge n l.
Proof.
  induction l as [|e l IH]; [reflexivity|]. rewrite stream_pid_in_cons, !count_ge_cons.
  intros H. apply orb_false_iff in H. destruct H as [H1 H2]. rewrite (IH H2).
  destruct (n + 1 <=? spid e) eqn:E1, (n <=? spid e) eqn:E2; lia.
Qed.

Lemma count_ge_succ_mem n l : NoDup (map spid l) -> stream_pid_in n l = true -> count_ge (n + 1) l = count_ge n l - 1.
Proof.
  induction l as [|e l IH]; intros Hnd Hin; [discriminate|].
  cbn [map] in Hnd. inversion Hnd as [|x xs Hnotin Hnd']; subst x xs.
  rewrite stream_pid_in_cons in Hin. rewrite !count_ge_cons.
  destruct (spid e =? n) eqn:E.
  - apply Z.eqb_eq in E. rewrite count_ge_notin.
    + destruct (n + 1 <=? spid e) eqn:E1, (n <=? spid e) eqn:E2; lia.
    + destruct (stream_pid_in n l) eqn:Es; [|reflexivity]. apply stream_pid_in_In in Es. rewrite <- E in Es. contradiction.
  - cbn [orb] in Hin. rewrite (IH Hnd' Hin).
    destruct (n + 1 <=? spid e) eqn:E1, (n <=? spid e) eqn:E2; lia.
Qed.

Lemma count_ge_app n l e : count_ge n (l ++ [e]) = count_ge n l + (if n <=? spid e then 1 else 0).
Proof.
  induction l as [|x l IH]; cbn [app]; rewrite ?count_ge_cons.
  - unfold count_ge. cbn. lia.
  - rewrite IH. lia.
Qed.

Lemma count_ge_remove n q l : count_ge n (remove_first_pid q l) <= count_ge n l.
Proof.
  induction l as [|e l IH]; [reflexivity|]. cbn [remove_first_pid]. destruct (_ =? q).
  - rewrite count_ge_cons. destruct (n <=? spid e); lia.
  - rewrite !count_ge_cons. lia.
Qed.

(* the potential that bounds nextPID: the PIDs still ahead of it that automatic assignment will have to skip *)
Definition pid_potential (l : list PMTElementaryStream) (n : Z) : Z :=
  n + count_ge n l + (if n <=? C_pmtStartPID then 1 else 0).

Lemma nfp_bound fuel : forall es streams n p B,
  (forall q, es_mem q es = stream_pid_in q streams) -> NoDup (map spid streams) ->
  next_free_pid fuel es n = Some p -> pid_potential streams n <= B -> B < 65535 -> 0 <= n ->
  n <= p /\ pid_potential streams p <= pid_potential streams n /\ es_mem p es = false /\ p <> C_pmtStartPID.
Proof.
  induction fuel as [|fuel IH]; intros es streams n p B Hkeys Hnd Hnf HB HB2 Hn; cbn [next_free_pid] in Hnf; [discriminate|].
  destruct (es_mem n es || (n =? C_pmtStartPID)) eqn:E.
  - assert (Hn1 : n <= B) by (unfold pid_potential in HB; pose proof (count_ge_nonneg n streams); destruct (n <=? C_pmtStartPID); lia).
    rewrite Z.mod_small in Hnf by lia.
    assert (Hpot : pid_potential streams (n + 1) <= pid_potential streams n).
    { unfold pid_potential. apply orb_true_iff in E. destruct E as [E|E].
      - rewrite Hkeys in E. rewrite (count_ge_succ_mem n streams Hnd E).
        destruct (n + 1 <=? C_pmtStartPID) eqn:E1, (n <=? C_pmtStartPID) eqn:E2; lia.
      - apply Z.eqb_eq in E. pose proof (count_ge_succ_le n streams).
        destruct (n + 1 <=? C_pmtStartPID) eqn:E1, (n <=? C_pmtStartPID) eqn:E2; lia. }
    destruct (IH es streams (n + 1) p B Hkeys Hnd Hnf ltac:(lia) HB2 ltac:(lia)) as (H1 & H2 & H3 & H4).
    repeat split; try assumption; lia.
  - inversion Hnf; subst. apply orb_false_iff in E. destruct E as [E1 E2]. repeat split; try lia; try exact E1.
Qed.

(* nextPID never falls below startPID and, with a additions so far, is at most startPID + a (+1 once past pmtStartPID) *)
Definition pid_inv (s : mstate) (a : Z) : Prop :=
  C_startPID <= ms_next_pid s /\ pid_potential (ms_streams s) (ms_next_pid s) <= C_startPID + 1 + a.

Lemma step_pid_inv s o s' p a : ms_inv s -> pid_inv s a -> mux_step_part s o = (s', p) -> pa_res p <> Panic ->
  0 <= a -> a + is_add o <= max_adds -> pid_inv s' (a + is_add o).
Proof.
  intros Hinv [Hlo Hpot] Hstep Hnp Ha Hmax. pose proof Hinv as [Hkeys Hnd _ _ _ _]. unfold max_adds in Hmax.
  destruct o as [es|q|q| |d|pk]; cbn [mux_step_part is_add] in *.
  - unfold add_es in Hstep. fold (spid es) in Hstep. destruct (negb (spid es =? 0)) eqn:Ezero.
    + destruct (stream_pid_in (spid es) (ms_streams s)) eqn:Edup; pinj Hstep; [split; [exact Hlo|lia]|].
      split; [exact Hlo|]. cbn [set_streams_es ms_streams ms_next_pid]. unfold pid_potential in *. rewrite count_ge_app.
      destruct (ms_next_pid s <=? spid es); lia.
    + destruct (next_free_pid _ _ _) as [np|] eqn:Enf; pinj Hstep; [|cbn in Hnp; congruence].
      destruct (nfp_bound _ _ _ _ _ (C_startPID + 1 + a) Hkeys Hnd Enf Hpot ltac:(unfold C_startPID; lia) ltac:(unfold C_startPID in *; lia))
        as (H1 & H2 & H3 & H4).
      assert (Hnp1 : np <= C_startPID + 1 + a).
      { unfold pid_potential in H2, Hpot. pose proof (count_ge_nonneg np (ms_streams s)). destruct (np <=? C_pmtStartPID); lia. }
      unfold pid_inv. cbn [set_streams_es ms_streams ms_next_pid]. rewrite Z.mod_small by (unfold C_startPID in *; lia).
      split; [lia|]. unfold pid_potential in *. rewrite count_ge_app. change (spid (with_pid es np)) with np.
      rewrite Hkeys in H3. rewrite (count_ge_notin np _ H3).
      destruct (np + 1 <=? np) eqn:E0; [lia|].
      destruct (np + 1 <=? C_pmtStartPID) eqn:E1, (np <=? C_pmtStartPID) eqn:E2; lia.
  - unfold remove_es in Hstep. destruct (stream_pid_in q (ms_streams s)); pinj Hstep; [|split; [exact Hlo|lia]].
    split; [exact Hlo|]. cbn [set_streams_es ms_streams ms_next_pid]. unfold pid_potential in *.
    pose proof (count_ge_remove (ms_next_pid s) q (ms_streams s)). lia.
  - pinj Hstep. split; [exact Hlo|]. cbn [set_pcr ms_streams ms_next_pid]. lia.
  - destruct (write_tables_spec _ _ _ Hstep Hnp) as [(c & _ & -> & _)|(? & ? & ? & ? & _ & _ & _ & _ & _ & _ & _ & _ & _ & ->)];
      (split; [exact Hlo|cbn [tables_state set_tables ms_streams ms_next_pid]; lia]).
  - destruct (write_data_frame _ _ _ _ Hstep Hnp) as (Hf1 & Hf2 & _).
    unfold pid_inv. rewrite Hf1, Hf2. split; [exact Hlo|lia].
  - pinj Hstep. split; [exact Hlo|lia].
Qed.

Lemma new_muxer_pid_inv period : pid_inv (new_muxer period) 0.
Proof. split; [cbn; lia|]. reflexivity. Qed.

(* what an automatic addition does, in a state that satisfies the two invariants *)
Lemma auto_add_spec s es s' p a : ms_inv s -> pid_inv s a -> 0 <= a -> a + 1 <= max_adds ->
  spid es = 0 -> mux_step_part s (MAdd es) = (s', p) -> pa_res p = Ok tt ->
  exists pid, ms_streams s' = ms_streams s ++ [with_pid es pid] /\ ms_next_pid s' = pid + 1 /\
    ms_next_pid s <= pid /\ C_startPID <= pid <= 8190 /\ pid <> C_pmtStartPID /\
    stream_pid_in pid (ms_streams s) = false /\ es_mem pid (ms_es s) = false.
Proof.
  intros Hinv [Hlo Hpot] Ha Hmax Hz Hstep Hok. pose proof Hinv as [Hkeys Hnd _ _ _ _]. unfold max_adds in Hmax.
  cbn [mux_step_part] in Hstep. unfold add_es in Hstep. fold (spid es) in Hstep. rewrite Hz in Hstep. cbn [Z.eqb negb] in Hstep.
  destruct (next_free_pid _ _ _) as [np|] eqn:Enf; pinj Hstep; [|cbn in Hok; discriminate].
  destruct (nfp_bound _ _ _ _ _ (C_startPID + 1 + a) Hkeys Hnd Enf Hpot ltac:(unfold C_startPID; lia) ltac:(unfold C_startPID in *; lia))
    as (H1 & H2 & H3 & H4).
  assert (Hnp1 : np <= C_startPID + 1 + a).
  { unfold pid_potential in H2, Hpot. pose proof (count_ge_nonneg np (ms_streams s)). destruct (np <=? C_pmtStartPID); lia. }
  exists np. cbn [set_streams_es ms_streams ms_next_pid]. rewrite Z.mod_small by (unfold C_startPID in *; lia).
  repeat split; try assumption; try lia.
  - (* np <= 8190: past pmtStartPID the potential has already paid for the skip *)
    unfold pid_potential in H2, Hpot. pose proof (count_ge_nonneg np (ms_streams s)). unfold C_startPID, C_pmtStartPID in *.
    destruct (np <=? 4096) eqn:E; lia.
  - rewrite <- Hkeys. exact H3.
Qed.

Lemma step_next_pid s o s' p : mux_step_part s o = (s', p) -> pa_res p <> Panic ->
  ms_next_pid s' = ms_next_pid s \/ (exists es, o = MAdd es /\ spid es = 0 /\ pa_res p = Ok tt).
Proof.
  intros Hstep Hnp. destruct o as [es|q|q| |d|pk]; cbn [mux_step_part] in Hstep.
  - unfold add_es in Hstep. fold (spid es) in Hstep. destruct (negb (spid es =? 0)) eqn:Ez.
    + left. destruct (stream_pid_in _ _); pinj Hstep; reflexivity.
    + destruct (next_free_pid _ _ _); pinj Hstep; [|cbn in Hnp; congruence].
      right. exists es. repeat split. apply negb_false_iff, Z.eqb_eq in Ez. exact Ez.
  - left. unfold remove_es in Hstep. destruct (stream_pid_in _ _); pinj Hstep; reflexivity.
  - left. pinj Hstep. reflexivity.
  - left. destruct (write_tables_spec _ _ _ Hstep Hnp) as [(c & _ & -> & _)|(? & ? & ? & ? & _ & _ & _ & _ & _ & _ & _ & _ & _ & ->)]; reflexivity.
  - left. apply (write_data_frame _ _ _ _ Hstep Hnp).
  - left. pinj Hstep. reflexivity.
Qed.

Lemma last_app_single {A} (l : list A) x d : last (l ++ [x]) d = x.
Proof. rewrite last_app_nonempty by discriminate. reflexivity. Qed.

Lemma adds_nonneg ops : 0 <= adds ops.
Proof. induction ops as [|o r IH]; [cbn; lia|]. cbn [adds fold_right]. fold (adds r). destruct o; cbn [is_add]; lia. Qed.

(* the PIDs automatic assignment hands out over a run: increasing (hence pairwise distinct), inside
   [startPID, 0x1FFE] and never pmtStartPID *)
Lemma auto_pids_spec : forall ops s a, ms_inv s -> pid_inv s a -> 0 <= a -> a + adds ops <= max_adds ->
  no_panic (snd (mux_run_parts s ops)) -> Forall op_entry_ok ops ->
  Forall (fun x => ms_next_pid s <= x /\ auto_pid_ok x) (auto_pids s ops) /\ StronglySorted Z.lt (auto_pids s ops).
Proof.
  induction ops as [|o r IH]; intros s a Hinv Hpid Ha Hmax Hnp Hen; [split; constructor|].
  rewrite mux_run_parts_cons in Hnp. cbn [snd] in Hnp. cbn [auto_pids adds fold_right] in *. fold (adds r) in Hmax.
  inversion Hnp as [|x xs Hp Hnp']; subst. inversion Hen as [|y ys Ho Hen']; subst.
  destruct (mux_step_part s o) as [s1 p] eqn:E. cbn [fst snd] in *.
  pose proof (adds_nonneg r) as Hr.
  assert (His : 0 <= is_add o <= 1) by (destruct o; cbn; lia).
  pose proof (step_inv _ _ _ _ Hinv E Hp Ho) as Hinv1.
  pose proof (step_pid_inv _ _ _ _ a Hinv Hpid E Hp Ha ltac:(lia)) as Hpid1.
  destruct (IH s1 (a + is_add o) Hinv1 Hpid1 ltac:(lia) ltac:(lia) Hnp' Hen') as [IH1 IH2].
  destruct (step_next_pid _ _ _ _ E Hp) as [Hsame|(es & -> & Hz & Hok)].
  - assert (Hnil : match o with
                   | MAdd es => if (PMTElementaryStream_ElementaryPID es =? 0) && is_ok (pa_res p)
                                then [PMTElementaryStream_ElementaryPID (last (ms_streams s1) zero_PMTElementaryStream)] else []
                   | _ => [] end = [] \/ exists es, o = MAdd es /\ spid es = 0 /\ pa_res p = Ok tt).
    { destruct o as [es| | | | |]; try (left; reflexivity). fold (spid es).
      destruct (spid es =? 0) eqn:Ez; [|left; reflexivity]. destruct (pa_res p) as [[]| |] eqn:Er; cbn [is_ok andb]; try (left; reflexivity).
      right. exists es. repeat split. apply Z.eqb_eq, Ez. }
    destruct Hnil as [-> |(es & -> & Hz & Hok)].
    + cbn [app]. rewrite <- Hsame. split; assumption.
    + (* an automatic addition always moves nextPID; this case is covered below *)
      cbn [is_add] in *.
      destruct (auto_add_spec _ _ _ _ a Hinv Hpid Ha ltac:(lia) Hz E Hok) as (pid & _ & Hnext & Hle & _). lia.
  - cbn [is_add] in *.
    destruct (auto_add_spec _ _ _ _ a Hinv Hpid Ha ltac:(lia) Hz E Hok) as (pid & Hst & Hnext & Hle & Hrange & Hnpmt & _).
    fold (spid es). rewrite Hz, Hok. cbn [Z.eqb is_ok andb]. rewrite Hst, last_app_single.
    change (PMTElementaryStream_ElementaryPID (with_pid es pid)) with pid. cbn [app]. split.
    + constructor; [split; [exact Hle|split; assumption]|].
      eapply Forall_impl; [|exact IH1]. cbn. intros x [Hx1 Hx2]. split; [lia|exact Hx2].
    + constructor; [exact IH2|]. eapply Forall_impl; [|exact IH1]. cbn. intros x [Hx1 _]. lia.
Qed.

Theorem auto_pid_sorted period ops : adds ops <= max_adds ->
  no_panic (snd (mux_run_parts (new_muxer period) ops)) -> Forall op_entry_ok ops ->
  Forall auto_pid_ok (auto_pids (new_muxer period) ops) /\ StronglySorted Z.lt (auto_pids (new_muxer period) ops).
Proof.
  intros Hmax Hnp Hen.
  destruct (auto_pids_spec ops (new_muxer period) 0 (new_muxer_inv period) (new_muxer_pid_inv period) ltac:(lia) ltac:(lia) Hnp Hen) as [H1 H2].
  split; [|exact H2]. eapply Forall_impl; [|exact H1]. cbn. tauto.
Qed.

Lemma run_pid_inv : forall ops s a, ms_inv s -> pid_inv s a -> 0 <= a -> a + adds ops <= max_adds ->
  no_panic (snd (mux_run_parts s ops)) -> Forall op_entry_ok ops ->
  pid_inv (fst (mux_run_parts s ops)) (a + adds ops).
Proof.
  induction ops as [|o r IH]; intros s a Hinv Hpid Ha Hmax Hnp Hen; [cbn; rewrite Z.add_0_r; exact Hpid|].
  rewrite mux_run_parts_cons in *. cbn [fst snd adds fold_right] in *. fold (adds r) in *.
  inversion Hnp as [|x xs Hp Hnp']; subst. inversion Hen as [|y ys Ho Hen']; subst.
  destruct (mux_step_part s o) as [s1 p] eqn:E. cbn [fst snd] in *.
  pose proof (adds_nonneg r) as Hr.
  assert (His : 0 <= is_add o <= 1) by (destruct o; cbn; lia).
  rewrite Z.add_assoc. apply IH; try assumption; try lia.
  - eapply step_inv; eauto.
  - eapply step_pid_inv; eauto. lia.
Qed.

(* an automatic addition in a state a run reaches: the PID it assigns is not in use *)
Theorem auto_pid_fresh period ops es s' p :
  let s := fst (mux_run_parts (new_muxer period) ops) in
  adds ops + 1 <= max_adds -> no_panic (snd (mux_run_parts (new_muxer period) ops)) -> Forall op_entry_ok ops ->
  PMTElementaryStream_ElementaryPID es = 0 -> mux_step_part s (MAdd es) = (s', p) -> pa_res p = Ok tt ->
  exists pid, ms_streams s' = ms_streams s ++ [with_pid es pid] /\ auto_pid_ok pid /\
              stream_pid_in pid (ms_streams s) = false /\ es_mem pid (ms_es s) = false.
Proof.
  intros s Hmax Hnp Hen Hz Hstep Hok. pose proof (adds_nonneg ops) as Hr.
  assert (Hinv : ms_inv s) by (apply run_inv; [apply new_muxer_inv|assumption|assumption]).
  assert (Hpid : pid_inv s (0 + adds ops)).
  { apply run_pid_inv; try assumption; try lia; [apply new_muxer_inv|apply new_muxer_pid_inv]. }
  destruct (auto_add_spec _ _ _ _ _ Hinv Hpid ltac:(lia) ltac:(lia) Hz Hstep Hok) as (pid & H1 & _ & _ & H3 & H4 & H5 & H6).
  exists pid. unfold auto_pid_ok. repeat split; try assumption; lia.
Qed.

(* ---------------- table emissions ---------------- *)

Lemma starts_with_tables_unit pid pkts : Forall (fun q => pkt_pid q = pid) pkts -> starts_with_tables pkts = false.
Proof.
  intros H. destruct pkts as [|a [|b r]]; try reflexivity.
  inversion H as [|x xs Ha H']; subst x xs. inversion H' as [|y ys Hb _]; subst y ys.
  unfold starts_with_tables, is_pat, is_pmt. rewrite Ha, Hb.
  destruct (pid =? C_PIDPAT) eqn:E1; [|reflexivity]. apply Z.eqb_eq in E1. rewrite E1. reflexivity.
Qed.

(* what an emission is, for the state s it starts from (the retransmit counter aside) *)
Definition emission (s s' : mstate) (pkts : list Packet) : Prop :=
  exists ppay mpay rest,
    pkts = table_packet C_PIDPAT (wrappingCounter_inc (ms_pat_cc s)) ppay ::
           table_packet C_pmtStartPID (wrappingCounter_inc (ms_pmt_cc s)) mpay :: rest /\
    write_psi_data (psi_of_section (pat_section (pat_ver s))) = Ok ppay /\
    write_psi_data (psi_of_section (pmt_section s (pmt_ver s))) = Ok mpay /\
    stream_pid_in (ms_pcr_pid s) (ms_streams s) = true /\
    ms_pat_version s' = fst (next_version (ms_pat_version s) (ms_pm_updated s)) /\
    ms_pmt_version s' = fst (next_version (ms_pmt_version s) (ms_pmt_updated s)) /\
    ms_pm_updated s' = false /\ ms_pmt_updated s' = false /\
    ms_streams s' = ms_streams s /\ ms_pcr_pid s' = ms_pcr_pid s.

Definition no_emission (s s' : mstate) (o : mop) (p : part) : Prop :=
  starts_with_tables (muxer_pkts o p) = false /\
  ms_pat_version s' = ms_pat_version s /\ ms_pmt_version s' = ms_pmt_version s /\
  ms_pm_updated s' = ms_pm_updated s /\ ms_pmt_updated s' = ms_pmt_updated s || content_change o p.

Lemma tables_ok_emission s1 p : tables_ok s1 (tables_state s1) p -> emission s1 (tables_state s1) (pa_pkts p).
Proof.
  intros (ppay & mpay & bpat & bpmt & _ & Hp & _ & _ & _ & _ & H7 & H8 & H9 & _).
  exists ppay, mpay, []. rewrite Hp. repeat split; assumption.
Qed.

(* WriteData on a known PID: the three outcomes with respect to the tables *)
Lemma write_data_tables s d s' p ctx : ms_inv s -> write_data s d = (s', p) -> pa_res p <> Panic ->
  af_entry_ok (MuxerData_AdaptationField d) -> es_find (MuxerData_PID d) (ms_es s) = Some ctx ->
  let due := data_forced s d || (ms_period s <=? ms_retransmit s + 1) in
  ms_period s' = ms_period s /\
  ((due = false /\ no_emission s s' (MWriteData d) p /\ ms_retransmit s' = ms_retransmit s + 1) \/
   (due = true /\ (exists c, pa_res p = Err c) /\ pa_pkts p = [] /\ no_emission s s' (MWriteData d) p /\
    ms_retransmit s' = ms_retransmit s + 1) \/
   (due = true /\ emission s s' (pa_pkts p) /\ ms_retransmit s' = 0)).
Proof.
  intros Hinv Hstep Hnp Hen Hfind due.
  destruct (write_data_spec _ _ _ _ Hstep Hnp Hen (inv_es_wf _ Hinv _)) as [(Hnone & _)|(ctx' & sr & pt & _ & Hrt & Hnpt & Hcases)];
    [congruence|].
  assert (Hdue : due = negb (negb (data_forced s d) && (ms_retransmit s + 1 <? ms_period s))).
  { subst due. destruct (data_forced s d); cbn [negb andb orb]; [reflexivity|]. lia. }
  destruct (retransmit_spec _ _ _ _ Hrt Hnpt) as [(Hd & Hsr & Hpt)|[(Hd & c & Hc & Hsr & Hp0 & _)|(Hd & Hok & Hsr)]];
    cbn zeta in Hd; rewrite <- Hdue in Hd.
  - (* not due *)
    destruct Hcases as [(c & Hc & _)|(_ & k & up & ug & un & Hpk & _ & _ & Hall & _ & Hsame & _)]; [subst pt; cbn in Hc; discriminate|].
    destruct Hsame as (S1 & S2 & S3 & S4 & S5 & S6 & S7 & S8 & S9 & S10 & S11). subst sr pt. cbn [pa_pkts app] in Hpk.
    split; [exact S1|]. left. split; [exact Hd|]. split; [|exact S11].
    unfold no_emission. cbn [muxer_pkts content_change]. rewrite Hpk, orb_false_r. repeat split; try assumption.
    eapply starts_with_tables_unit; eauto.
  - (* due, tables cannot be generated *)
    destruct Hcases as [(c' & _ & -> & ->)|(Hokpt & _)]; [|rewrite Hc in Hokpt; discriminate].
    subst sr. split; [reflexivity|]. right; left. split; [exact Hd|]. split; [exists c; exact Hc|]. split; [exact Hp0|].
    split; [|reflexivity]. unfold no_emission. cbn [muxer_pkts content_change]. rewrite Hp0, orb_false_r. repeat split; reflexivity.
  - (* due, tables emitted *)
    destruct Hcases as [(c & Hc & _)|(_ & k & up & ug & un & Hpk & _ & _ & Hall & _ & Hsame & _)].
    { destruct Hok as (? & ? & ? & ? & Hr & _). rewrite Hr in Hc. discriminate. }
    destruct Hsame as (S1 & S2 & S3 & S4 & S5 & S6 & S7 & S8 & S9 & S10 & S11). subst sr.
    split; [exact S1|]. right; right. split; [exact Hd|]. split; [|exact S11].
    destruct (tables_ok_emission _ _ Hok) as (ppay & mpay & rest & Hp & E1 & E2 & E3 & _).
    exists ppay, mpay, (rest ++ up). rewrite Hpk, Hp. cbn [app]. repeat split; try assumption.
Qed.

Lemma table_packet_pids a b pp mp rest :
  starts_with_tables (table_packet C_PIDPAT a pp :: table_packet C_pmtStartPID b mp :: rest) = true.
Proof. reflexivity. Qed.

(* every call: either an emission (WriteTables, or WriteData when due) or none *)
Lemma step_emission s o s' p : ms_inv s -> mux_step_part s o = (s', p) -> pa_res p <> Panic -> op_entry_ok o ->
  ms_period s' = ms_period s /\
  ((emission s s' (muxer_pkts o p) /\ content_change o p = false /\
    match o with MWriteData _ => ms_retransmit s' = 0 | _ => ms_retransmit s' = ms_retransmit s end) \/
   (no_emission s s' o p /\
    match o with
    | MWriteData d => match es_find (MuxerData_PID d) (ms_es s) with
                      | Some _ => ms_retransmit s' = ms_retransmit s + 1 /\
                                  ((data_forced s d || (ms_period s <=? ms_retransmit s + 1)) = true -> pa_pkts p = [])
                      | None => s' = s /\ pa_pkts p = []
                      end
    | _ => ms_retransmit s' = ms_retransmit s /\ muxer_pkts o p = []
    end)).
Proof.
  intros Hinv Hstep Hnp Hen.
  destruct o as [es|q|q| |d|pk]; cbn [mux_step_part] in Hstep.
  - split; [|right].
    + unfold add_es in Hstep. destruct (negb _); [destruct (stream_pid_in _ _)|destruct (next_free_pid _ _ _)]; pinj Hstep; reflexivity.
    + unfold add_es in Hstep. unfold no_emission. cbn [muxer_pkts content_change].
      destruct (negb _); [destruct (stream_pid_in _ _)|destruct (next_free_pid _ _ _)]; pinj Hstep;
        cbn [part_of_res pa_pkts pa_res is_ok set_streams_es ms_pat_version ms_pmt_version ms_pm_updated ms_pmt_updated ms_retransmit starts_with_tables];
        rewrite ?orb_false_r, ?orb_true_r; repeat split; reflexivity.
  - split; [|right].
    + unfold remove_es in Hstep. destruct (stream_pid_in _ _); pinj Hstep; reflexivity.
    + unfold remove_es in Hstep. unfold no_emission. cbn [muxer_pkts content_change].
      destruct (stream_pid_in _ _); pinj Hstep;
        cbn [part_of_res pa_pkts pa_res is_ok set_streams_es ms_pat_version ms_pmt_version ms_pm_updated ms_pmt_updated ms_retransmit starts_with_tables];
        rewrite ?orb_false_r, ?orb_true_r; repeat split; reflexivity.
  - pinj Hstep. split; [reflexivity|right]. unfold no_emission. cbn. rewrite orb_true_r. repeat split; reflexivity.
  - destruct (write_tables_spec _ _ _ Hstep Hnp) as [(c & _ & -> & Hp & _)|Hok].
    + split; [reflexivity|right]. unfold no_emission. cbn [muxer_pkts content_change]. rewrite Hp, orb_false_r. repeat split; reflexivity.
    + assert (Hs : s' = tables_state s) by (destruct Hok as (? & ? & ? & ? & _ & _ & _ & _ & _ & _ & _ & _ & _ & Hs); exact Hs).
      subst s'. split; [reflexivity|left]. split; [apply tables_ok_emission, Hok|]. split; reflexivity.
  - destruct (es_find (MuxerData_PID d) (ms_es s)) as [ctx|] eqn:Ef.
    + destruct (write_data_tables _ _ _ _ ctx Hinv Hstep Hnp Hen Ef) as (Hper & [(Hd & Hne & Hr)|[(Hd & _ & Hp0 & Hne & Hr)|(Hd & Hem & Hr)]]).
      * split; [exact Hper|right]. split; [exact Hne|]. split; [exact Hr|]. intros Hd'. rewrite Hd' in Hd. discriminate.
      * split; [exact Hper|right]. split; [exact Hne|]. split; [exact Hr|]. intros _. exact Hp0.
      * split; [exact Hper|left]. repeat split; assumption.
    + unfold write_data in Hstep. rewrite Ef in Hstep. pinj Hstep. split; [reflexivity|right].
      unfold no_emission. cbn. rewrite orb_false_r. repeat split; reflexivity.
  - pinj Hstep. split; [reflexivity|right]. unfold no_emission. cbn. rewrite orb_false_r. repeat split; reflexivity.
Qed.

(* ---------------- C17 over runs ---------------- *)

Lemma next_version_snd v u : snd (next_version v u) = wrappingCounter_value (fst (next_version v u)).
Proof. unfold next_version. destruct u; cbn [fst snd]; [apply inc_is_value|reflexivity]. Qed.

Lemma step_starts_with_tables s o s' p : ms_inv s -> mux_step_part s o = (s', p) -> pa_res p <> Panic -> op_entry_ok o ->
  starts_with_tables (muxer_pkts o p) = true -> emission s s' (muxer_pkts o p).
Proof.
  intros Hinv Hstep Hnp Hen Hst.
  destruct (step_emission _ _ _ _ Hinv Hstep Hnp Hen) as (_ & [(Hem & _)|((Hno & _) & _)]); [exact Hem|congruence].
Qed.

(* C17_content *)
Theorem emission_content period ops o s' p :
  let s := fst (mux_run_parts (new_muxer period) ops) in
  no_panic (snd (mux_run_parts (new_muxer period) ops)) -> Forall op_entry_ok ops -> op_entry_ok o ->
  mux_step_part s o = (s', p) -> pa_res p <> Panic -> starts_with_tables (muxer_pkts o p) = true ->
  exists ppay mpay rest,
    muxer_pkts o p = table_packet C_PIDPAT (wrappingCounter_inc (ms_pat_cc s)) ppay ::
                     table_packet C_pmtStartPID (wrappingCounter_inc (ms_pmt_cc s)) mpay :: rest /\
    write_psi_data (psi_of_section (pat_section (wrappingCounter_value (ms_pat_version s')))) = Ok ppay /\
    write_psi_data (pmt_psi (ms_streams s) (ms_pcr_pid s) (wrappingCounter_value (ms_pmt_version s'))) = Ok mpay /\
    stream_pid_in (ms_pcr_pid s) (ms_streams s) = true.
Proof.
  intros s Hnp Hen Ho Hstep Hp Hst.
  assert (Hinv : ms_inv s) by (apply run_inv; [apply new_muxer_inv|assumption|assumption]).
  destruct (step_starts_with_tables _ _ _ _ Hinv Hstep Hp Ho Hst) as (ppay & mpay & rest & H1 & H2 & H3 & H4 & H5 & H6 & _).
  exists ppay, mpay, rest. rewrite H5, H6, <- !next_version_snd. repeat split; assumption.
Qed.

(* C17_period: WriteData on an added PID *)
Theorem period_rule period ops d s' p :
  let s := fst (mux_run_parts (new_muxer period) ops) in
  no_panic (snd (mux_run_parts (new_muxer period) ops)) -> Forall op_entry_ok ops -> op_entry_ok (MWriteData d) ->
  mux_step_part s (MWriteData d) = (s', p) -> pa_res p <> Panic -> es_mem (MuxerData_PID d) (ms_es s) = true ->
  let due := data_forced s d || (ms_period s <=? ms_retransmit s + 1) in
  ms_period s' = ms_period s /\
  (due = false -> starts_with_tables (pa_pkts p) = false /\ ms_retransmit s' = ms_retransmit s + 1) /\
  (due = true -> (starts_with_tables (pa_pkts p) = true /\ ms_retransmit s' = 0) \/
                 ((exists c, pa_res p = Err c) /\ pa_pkts p = [] /\ ms_retransmit s' = ms_retransmit s + 1)).
Proof.
  intros s Hnp Hen Ho Hstep Hp Hmem due.
  assert (Hinv : ms_inv s) by (apply run_inv; [apply new_muxer_inv|assumption|assumption]).
  rewrite es_mem_find in Hmem. destruct (es_find (MuxerData_PID d) (ms_es s)) as [ctx|] eqn:Ef; [|discriminate].
  cbn [mux_step_part] in Hstep. cbn [op_entry_ok] in Ho.
  destruct (write_data_tables _ _ _ _ ctx Hinv Hstep Hp Ho Ef) as (Hper & [(Hd & Hne & Hr)|[(Hd & Hc & Hp0 & Hne & Hr)|(Hd & Hem & Hr)]]);
    fold due in Hd; split; try exact Hper; rewrite Hd; split; intros Hx; try discriminate.
  - destruct Hne as (Hst & _). cbn [muxer_pkts] in Hst. split; assumption.
  - right. repeat split; assumption.
  - left. destruct Hem as (ppay & mpay & rest & -> & _). split; [reflexivity|exact Hr].
Qed.

(* ... and no other call touches the retransmit counter or the period *)
Theorem period_counter period ops o s' p :
  let s := fst (mux_run_parts (new_muxer period) ops) in
  no_panic (snd (mux_run_parts (new_muxer period) ops)) -> Forall op_entry_ok ops -> op_entry_ok o ->
  mux_step_part s o = (s', p) -> pa_res p <> Panic ->
  ms_period s' = ms_period s /\
  match o with
  | MWriteData d => es_mem (MuxerData_PID d) (ms_es s) = false -> ms_retransmit s' = ms_retransmit s
  | _ => ms_retransmit s' = ms_retransmit s
  end.
Proof.
  intros s Hnp Hen Ho Hstep Hp.
  assert (Hinv : ms_inv s) by (apply run_inv; [apply new_muxer_inv|assumption|assumption]).
  destruct (step_emission _ _ _ _ Hinv Hstep Hp Ho) as (Hper & Hcases). split; [exact Hper|].
  destruct o as [es|q|q| |d|pk]; try (destruct Hcases as [(_ & _ & H)|(_ & H & _)]; exact H).
  intros Hmem. rewrite es_mem_find in Hmem. destruct (es_find (MuxerData_PID d) (ms_es s)) eqn:Ef; [discriminate|].
  cbn [mux_step_part] in Hstep. unfold write_data in Hstep. rewrite Ef in Hstep. pinj Hstep. reflexivity.
Qed.

(* C17_first *)
Lemma tables_first_run : forall ops s, ms_inv s -> ms_period s <= ms_retransmit s ->
  no_panic (snd (mux_run_parts s ops)) -> Forall op_entry_ok ops ->
  tables_first (combine ops (snd (mux_run_parts s ops))).
Proof.
  induction ops as [|o r IH]; intros s Hinv Hret Hnp Hen; [exact I|].
  rewrite mux_run_parts_cons in *. cbn [fst snd combine tables_first] in *.
  inversion Hnp as [|x xs Hp Hnp']; subst. inversion Hen as [|y ys Ho Hen']; subst.
  destruct (mux_step_part s o) as [s1 p] eqn:E. cbn [fst snd] in *.
  pose proof (step_inv _ _ _ _ Hinv E Hp Ho) as Hinv1.
  destruct (step_emission _ _ _ _ Hinv E Hp Ho) as (Hper & [(Hem & _)|(Hne & Hrest)]).
  - destruct Hem as (ppay & mpay & rest & -> & _). reflexivity.
  - assert (Hnil : muxer_pkts o p = [] /\ ms_period s1 <= ms_retransmit s1).
    { destruct o as [es|q|q| |d|pk]; try (destruct Hrest as [Hr Hn]; split; [exact Hn|lia]).
      cbn [muxer_pkts]. destruct (es_find (MuxerData_PID d) (ms_es s)).
      - destruct Hrest as [Hr Hn]. split; [|lia]. apply Hn. apply orb_true_iff. right. lia.
      - destruct Hrest as [-> Hn]. split; [exact Hn|lia]. }
    destruct Hnil as [-> Hret1]. apply IH; assumption.
Qed.

Theorem tables_first_thm period ops :
  no_panic (snd (mux_run_parts (new_muxer period) ops)) -> Forall op_entry_ok ops ->
  tables_first (combine ops (snd (mux_run_parts (new_muxer period) ops))).
Proof. intros Hnp Hen. apply tables_first_run; try assumption; [apply new_muxer_inv|cbn; lia]. Qed.

(* C17_version *)
Definition ver_wf (c : wrappingCounter) : Prop := wrappingCounter_wrapAt c = 31 /\ 0 <= wrappingCounter_value c <= 32.

Lemma ver_next v u : ver_wf v -> ver_wf (fst (next_version v u)) /\
  (wrappingCounter_value v <= 31 ->
   wrappingCounter_value (fst (next_version v u)) = if u then (wrappingCounter_value v + 1) mod 32 else wrappingCounter_value v) /\
  (u = true -> wrappingCounter_value (fst (next_version v u)) <= 31).
Proof.
  intros [Hw Hv]. unfold next_version. destruct u; cbn [fst]; [|split; [split; assumption|split; [reflexivity|discriminate]]].
  unfold wrappingCounter_inc_st, ver_wf. cbn. rewrite Hw.
  destruct (wrappingCounter_value v + 1 >? 31) eqn:E; cbn; rewrite ?Hw.
  - repeat split; try lia. intros H. assert (wrappingCounter_value v = 31) as -> by lia. reflexivity.
  - repeat split; try lia. intros H. rewrite Z.mod_small; lia.
Qed.

Definition ver_inv (s : mstate) : Prop := ver_wf (ms_pat_version s) /\ ver_wf (ms_pmt_version s).

Lemma step_ver_inv s o s' p : ms_inv s -> ver_inv s -> mux_step_part s o = (s', p) -> pa_res p <> Panic -> op_entry_ok o -> ver_inv s'.
Proof.
  intros Hinv [H1 H2] Hstep Hnp Hen.
  destruct (step_emission _ _ _ _ Hinv Hstep Hnp Hen) as (_ & [(Hem & _)|((_ & E1 & E2 & _) & _)]).
  - destruct Hem as (? & ? & ? & _ & _ & _ & _ & E1 & E2 & _). split; [rewrite E1|rewrite E2]; apply ver_next; assumption.
  - split; [rewrite E1|rewrite E2]; assumption.
Qed.

(* once tables have been emitted: PAT version fixed, PMT version = last emitted, flags = "content changed since" *)
Lemma emissions_rule : forall ops s ch c0 lastpat lastpmt, ms_inv s -> ver_inv s ->
  ms_pm_updated s = false -> ms_pmt_updated s = ch ->
  wrappingCounter_value (ms_pat_version s) = lastpat -> wrappingCounter_value (ms_pmt_version s) = lastpmt -> lastpmt <= 31 ->
  no_panic (snd (mux_run_parts s ops)) -> Forall op_entry_ok ops ->
  version_rule ((c0, lastpat, lastpmt) :: emissions s ops ch).
Proof.
  induction ops as [|o r IH]; intros s ch c0 lastpat lastpmt Hinv Hver Hpm Hpmt Hpat Hpv Hle Hnp Hen; [exact I|].
  rewrite mux_run_parts_cons in Hnp. cbn [snd] in Hnp. cbn [emissions].
  inversion Hnp as [|x xs Hp Hnp']; subst x xs. inversion Hen as [|y ys Ho Hen']; subst y ys.
  destruct (mux_step_part s o) as [s1 p] eqn:E. cbn [fst snd] in *.
  pose proof (step_inv _ _ _ _ Hinv E Hp Ho) as Hinv1. pose proof (step_ver_inv _ _ _ _ Hinv Hver E Hp Ho) as Hver1.
  destruct Hver as [Hv1 Hv2].
  destruct (step_emission _ _ _ _ Hinv E Hp Ho) as (_ & [(Hem & Hcc & _)|((Hst & E1 & E2 & E3 & E4) & _)]).
  - destruct Hem as (ppay & mpay & rest & Hpk & _ & _ & _ & E1 & E2 & E3 & E4 & _).
    rewrite Hpk, table_packet_pids, Hcc, orb_false_r. cbn [version_rule].
    destruct (ver_next (ms_pmt_version s) (ms_pmt_updated s) Hv2) as (_ & Hnv & Hnle).
    rewrite E1, E2, Hpm, Hpmt. cbn [next_version fst]. split; [exact Hpat|]. split.
    + rewrite Hpmt in Hnv. rewrite Hnv by lia. rewrite Hpv. reflexivity.
    + apply IH; try assumption; try reflexivity.
      * rewrite E1, Hpm. reflexivity.
      * rewrite E2, Hpmt. reflexivity.
      * rewrite Hpmt in Hnle. destruct ch; [apply Hnle; reflexivity|]. cbn [next_version fst]. lia.
  - rewrite Hst. apply IH; try assumption; try congruence.
Qed.

(* before the first emission: the PMT version is still the initial 32 only while the flag is set or no stream exists *)
Definition ver_fresh (s : mstate) : Prop :=
  ms_pmt_updated s = true \/ wrappingCounter_value (ms_pmt_version s) <= 31 \/ ms_streams s = [].

Lemma step_streams s o s' p : mux_step_part s o = (s', p) -> pa_res p <> Panic ->
  ms_streams s' = ms_streams s \/ ms_pmt_updated s' = true.
Proof.
  intros Hstep Hnp. destruct o as [es|q|q| |d|pk]; cbn [mux_step_part] in Hstep.
  - unfold add_es in Hstep. destruct (negb _); [destruct (stream_pid_in _ _)|destruct (next_free_pid _ _ _)]; pinj Hstep;
      first [left; reflexivity|right; reflexivity].
  - unfold remove_es in Hstep. destruct (stream_pid_in _ _); pinj Hstep; first [left; reflexivity|right; reflexivity].
  - pinj Hstep. left; reflexivity.
  - left. destruct (write_tables_spec _ _ _ Hstep Hnp) as [(c & _ & -> & _)|(? & ? & ? & ? & _ & _ & _ & _ & _ & _ & _ & _ & _ & ->)]; reflexivity.
  - left. apply (write_data_frame _ _ _ _ Hstep Hnp).
  - pinj Hstep. left; reflexivity.
Qed.

Lemma emission_version_le s s' pkts : ver_fresh s -> ver_wf (ms_pmt_version s) -> emission s s' pkts ->
  wrappingCounter_value (ms_pmt_version s') <= 31.
Proof.
  intros Hf Hv (ppay & mpay & rest & _ & _ & _ & Hpcr & _ & E2 & _).
  destruct (ver_next (ms_pmt_version s) (ms_pmt_updated s) Hv) as (_ & Hnv & Hnle). rewrite E2.
  destruct (ms_pmt_updated s) eqn:Eu; [apply Hnle; reflexivity|].
  cbn [next_version fst]. destruct Hf as [Hf|[Hf|Hf]]; [congruence|exact Hf|]. rewrite Hf in Hpcr. discriminate Hpcr.
Qed.

Lemma step_ver_fresh s o s' p : ms_inv s -> ver_inv s -> ver_fresh s -> mux_step_part s o = (s', p) -> pa_res p <> Panic ->
  op_entry_ok o -> ver_fresh s'.
Proof.
  intros Hinv [_ Hv] Hf Hstep Hnp Hen.
  destruct (step_emission _ _ _ _ Hinv Hstep Hnp Hen) as (_ & [(Hem & _)|((_ & _ & E2 & _ & E4) & _)]).
  - right; left. eapply emission_version_le; eauto.
  - destruct (step_streams _ _ _ _ Hstep Hnp) as [Hs|Hs]; [|left; exact Hs].
    destruct Hf as [Hf|[Hf|Hf]].
    + left. rewrite E4, Hf. reflexivity.
    + right; left. rewrite E2. exact Hf.
    + right; right. rewrite Hs. exact Hf.
Qed.

Lemma emissions_rule0 : forall ops s ch, ms_inv s -> ver_inv s -> ver_fresh s ->
  no_panic (snd (mux_run_parts s ops)) -> Forall op_entry_ok ops -> version_rule (emissions s ops ch).
Proof.
  induction ops as [|o r IH]; intros s ch Hinv Hver Hfr Hnp Hen; [exact I|].
  rewrite mux_run_parts_cons in Hnp. cbn [snd] in Hnp. cbn [emissions].
  inversion Hnp as [|x xs Hp Hnp']; subst x xs. inversion Hen as [|y ys Ho Hen']; subst y ys.
  destruct (mux_step_part s o) as [s1 p] eqn:E. cbn [fst snd] in *.
  pose proof (step_inv _ _ _ _ Hinv E Hp Ho) as Hinv1. pose proof (step_ver_inv _ _ _ _ Hinv Hver E Hp Ho) as Hver1.
  pose proof (step_ver_fresh _ _ _ _ Hinv Hver Hfr E Hp Ho) as Hfr1.
  destruct (step_emission _ _ _ _ Hinv E Hp Ho) as (_ & [(Hem & Hcc & _)|((Hst & _) & _)]).
  - pose proof (emission_version_le _ _ _ Hfr (proj2 Hver) Hem) as Hle.
    destruct Hem as (ppay & mpay & rest & Hpk & _ & _ & _ & E1 & E2 & E3 & E4 & _).
    rewrite Hpk, table_packet_pids. apply emissions_rule; try assumption; reflexivity.
  - rewrite Hst. apply IH; assumption.
Qed.

Theorem version_rule_thm period ops :
  no_panic (snd (mux_run_parts (new_muxer period) ops)) -> Forall op_entry_ok ops ->
  version_rule (emissions (new_muxer period) ops false).
Proof.
  intros Hnp Hen. apply emissions_rule0; try assumption.
  - apply new_muxer_inv.
  - split; cbn; unfold ver_wf, version_wrap; cbn; lia.
  - right; right. reflexivity.
Qed.

(* ================= Part 5: C04 ================= *)

(* ---------------- splitting the bytes of an item list at a byte boundary ---------------- *)

Lemma run_item_prefix cache c it :
  run_item (cache, c) it = (fst (run_item (cache, []) it), c ++ snd (run_item (cache, []) it)).
Proof.
  destruct it as [w v|b|bs]; cbn [run_item fst snd]; try (unfold push_bits; cbn [fst snd app]; reflexivity).
  destruct cache as [|c0 cache].
  - destruct bs; cbn [fst snd app]; [rewrite app_nil_r|]; reflexivity.
  - unfold push_bits; cbn [fst snd app]; reflexivity.
Qed.

Lemma run_items_prefix l : forall cache c,
  run_items l (cache, c) = (fst (run_items l (cache, [])), c ++ snd (run_items l (cache, []))).
Proof.
  induction l as [|it l IH]; intros cache c; unfold run_items in *; cbn [fold_left].
  - cbn [fst snd]. rewrite app_nil_r. reflexivity.
  - rewrite (run_item_prefix cache c it). destruct (run_item (cache, []) it) as [cache' new] eqn:E. cbn [fst snd].
    rewrite (IH cache' (c ++ new)), (IH cache' new). cbn [fst snd]. rewrite app_assoc. reflexivity.
Qed.

Lemma bytes_of_items_app a b n : ibz a = 8 * n -> bytes_of_items (a ++ b) = bytes_of_items a ++ bytes_of_items b.
Proof.
  intros H. unfold bytes_of_items, chunks_of, run_items. rewrite fold_left_app. fold (run_items a ([], [])).
  pose proof (run_items_total a ([], [])) as T. pose proof (run_items_cache a ([], []) ltac:(simpl; lia)) as C.
  change (st_total ([], [])) with 0%nat in T. unfold st_total in T. unfold ibz in H.
  destruct (run_items a ([], [])) as [ca cha] eqn:E. cbn [fst snd] in *.
  assert (Hca : ca = []) by (apply length_zero_iff_nil; lia). subst ca.
  fold (run_items b ([], cha)). rewrite (run_items_prefix b [] cha). cbn [snd]. rewrite concat_app. reflexivity.
Qed.

(* ---------------- whole packets ---------------- *)

Definition group_ok (g : list (list Z)) : Prop :=
  Z.of_nat (length (concat g)) = C_MpegTsPacketSize /\ nth 0 (concat g) 0 = syncByte.

Definition part_wf (p : part) : Prop :=
  pa_n p = C_MpegTsPacketSize * Z.of_nat (length (pa_groups p)) /\ Forall group_ok (pa_groups p).

Lemma enc_packet_group p its : enc_packet p C_MpegTsPacketSize = Ok its -> group_ok (chunks_of its).
Proof.
  intros H. unfold group_ok. change (concat (chunks_of its)) with (bytes_of_items its). split.
  - eapply enc_packet_size; eauto.
  - destruct (enc_packet_sync _ _ _ H) as [rest ->].
    change (wu8 syncByte :: rest) with ([wu8 syncByte] ++ rest). rewrite (bytes_of_items_app _ _ 1) by reflexivity. reflexivity.
Qed.

Lemma write_packet_group p bs : write_packet p C_MpegTsPacketSize = Ok bs -> group_ok [bs].
Proof.
  unfold write_packet. destruct (enc_packet p C_MpegTsPacketSize) as [its|c|] eqn:E; cbn [res_map]; try discriminate.
  intros H. apply ok_inj in H. subst bs. pose proof (enc_packet_group _ _ E) as G. unfold group_ok in *.
  cbn [concat]. rewrite app_nil_r. exact G.
Qed.

Lemma part_wf_nil r : part_wf (mk_part r 0 [] []).
Proof. split; [reflexivity|constructor]. Qed.

Lemma part_wf_app a b : part_wf a -> part_wf b -> part_wf (part_app a b).
Proof.
  intros [Ha1 Ha2] [Hb1 Hb2]. split; cbn [part_app pa_n pa_groups].
  - rewrite app_length, Ha1, Hb1. lia.
  - apply Forall_app. split; assumption.
Qed.

Lemma emit_packet_wf p : match po_res (emit_packet p) with
                         | Ok n => n = C_MpegTsPacketSize /\ group_ok (po_group (emit_packet p))
                         | _ => po_group (emit_packet p) = []
                         end.
Proof.
  unfold emit_packet. destruct (enc_packet p C_MpegTsPacketSize) as [its|c|] eqn:E; cbn [po_res po_group]; try reflexivity.
  split; [reflexivity|]. eapply enc_packet_group; eauto.
Qed.

Lemma write_tables_wf s : part_wf (snd (write_tables s)).
Proof.
  unfold write_tables, generate_pat, generate_pmt.
  destruct (next_version (ms_pat_version s) (ms_pm_updated s)) as [patv pver].
  destruct (write_psi_data (psi_of_section (pat_section pver))) as [ppay|c|]; cbn [snd]; try apply part_wf_nil.
  destruct (write_packet _ _) as [bpat|c|] eqn:Ewp; cbn [snd]; try apply part_wf_nil.
  destruct (negb _); cbn [snd]; try apply part_wf_nil.
  destruct (_ >? _); cbn [snd]; try apply part_wf_nil.
  destruct (next_version _ _) as [pmtv mver].
  destruct (write_psi_data _) as [mpay|c|]; cbn [snd]; try apply part_wf_nil.
  destruct (write_packet (table_packet C_pmtStartPID _ _) _) as [bpmt|c|] eqn:Ewm; cbn [snd]; try apply part_wf_nil.
  pose proof (write_packet_group _ _ Ewp) as G1. pose proof (write_packet_group _ _ Ewm) as G2.
  split; cbn [pa_n pa_groups].
  - destruct G1 as [G1 _], G2 as [G2 _]. cbn [concat] in G1, G2. rewrite app_nil_r in G1, G2. unfold blen. cbn [length]. lia.
  - constructor; [exact G1|constructor; [exact G2|constructor]].
Qed.

Lemma retransmit_wf s f : part_wf (snd (retransmit_tables s f)).
Proof.
  unfold retransmit_tables. destruct (negb f && _); cbn [snd]; [apply part_wf_nil|].
  pose proof (write_tables_wf (set_retransmit s (ms_retransmit s + 1))) as W.
  destruct (write_tables _) as [s2 pt]. cbn [snd] in *. destruct pt as [rt nt gt pkt]. destruct rt; cbn [snd]; exact W.
Qed.

Lemma wd_loop_wf fuel : forall pid h cc af ps left, part_wf (lo_part (wd_loop fuel pid h cc af ps left)).
Proof.
  induction fuel as [|fuel IH]; intros pid h cc af ps left; cbn [wd_loop].
  - destruct left; apply part_wf_nil.
  - destruct left as [|b0 left']; [apply part_wf_nil|].
    destruct (ps && _).
    + match goal with |- context [emit_packet ?p] => pose proof (emit_packet_wf p) as W; destruct (po_res (emit_packet p)) end;
        try apply part_wf_nil.
      destruct W as [-> G]. cbn [lo_cons lo_part]. destruct (IH pid h cc None ps (b0 :: left')) as [I1 I2].
      split; cbn [pa_n pa_groups length]; [lia|constructor; assumption].
    + destruct (write_pes_data _ _ _ _) as [[[items ntot] npayload]|c|]; try apply part_wf_nil.
      match goal with |- context [emit_packet ?p] => pose proof (emit_packet_wf p) as W; destruct (po_res (emit_packet p)) end;
        try apply part_wf_nil.
      destruct W as [-> G]. cbn [lo_cons lo_part].
      destruct (IH pid h (wrappingCounter_inc_st cc) None false (skipn (Z.to_nat npayload) (b0 :: left'))) as [I1 I2].
      split; cbn [pa_n pa_groups length]; [lia|constructor; assumption].
Qed.

Lemma write_data_wf s d : part_wf (snd (write_data s d)).
Proof.
  unfold write_data. destruct (es_find _ _) as [ctx|]; cbn [snd]; [|apply part_wf_nil].
  pose proof (retransmit_wf s (af_rai (MuxerData_AdaptationField d) && (MuxerData_PID d =? ms_pcr_pid s))) as W.
  destruct (retransmit_tables _ _) as [s1 pt]. cbn [snd] in W. destruct pt as [rt nt gt pkt]. destruct rt as [u|c|]; cbn [snd]; try exact W.
  destruct u.
  destruct (MuxerData_PES d) as [pes|]; cbn [snd]; [|apply part_wf_app; [exact W|apply part_wf_nil]].
  destruct (PESData_Data pes) as [|b0 data']; cbn [snd]; [exact W|].
  destruct (PESData_Header pes) as [h0|]; cbn [snd]; [|apply part_wf_app; [exact W|apply part_wf_nil]].
  apply part_wf_app; [exact W|apply wd_loop_wf].
Qed.

(* every call: the bytes it hands to the writer are whole packets, counted exactly *)
Lemma step_part_wf s o : part_wf (snd (mux_step_part s o)).
Proof.
  destruct o as [es|q|q| |d|pk]; cbn [mux_step_part].
  - destruct (add_es s es). apply part_wf_nil.
  - destruct (remove_es s q). apply part_wf_nil.
  - apply part_wf_nil.
  - apply write_tables_wf.
  - apply write_data_wf.
  - cbn [snd]. unfold write_packet_op. pose proof (emit_packet_wf pk) as W. destruct (po_res (emit_packet pk)); try apply part_wf_nil.
    destruct W as [-> G]. split; cbn [pa_n pa_groups length]; [lia|constructor; [exact G|constructor]].
Qed.

Lemma concat_groups_length (gs : list (list (list Z))) : Forall group_ok gs ->
  Z.of_nat (length (concat (concat gs))) = C_MpegTsPacketSize * Z.of_nat (length gs).
Proof.
  induction 1 as [|g gs [Hg _] _ IH]; [reflexivity|]. cbn [concat length]. rewrite concat_app, app_length. lia.
Qed.

(* the k-th 188-byte block of a sequence of whole packets starts with the sync byte *)
Lemma blocks_sync (gs : list (list (list Z))) : Forall group_ok gs -> forall k, (k < length gs)%nat ->
  nth (188 * k) (concat (concat gs)) 0 = syncByte.
Proof.
  induction 1 as [|g gs [Hg Hs] _ IH]; intros k Hk; [cbn in Hk; lia|].
  cbn [concat]. rewrite concat_app. unfold C_MpegTsPacketSize in Hg. destruct k as [|k].
  - rewrite Nat.mul_0_r, app_nth1 by lia. exact Hs.
  - rewrite app_nth2 by lia. replace (188 * S k - length (concat g))%nat with (188 * k)%nat by lia.
    apply IH. cbn [length] in Hk. lia.
Qed.

Lemma mux_run_parts_out ops : forall s,
  fst (mux_run s ops) = fst (mux_run_parts s ops) /\ snd (mux_run s ops) = map mout_of_part (snd (mux_run_parts s ops)).
Proof.
  induction ops as [|o r IH]; intros s; [split; reflexivity|].
  cbn [mux_run mux_run_parts]. unfold mux_step. destruct (mux_step_part s o) as [s1 p].
  destruct (IH s1) as [I1 I2]. destruct (mux_run s1 r) as [s2 outs]. destruct (mux_run_parts s1 r) as [s2' ps]. cbn [fst snd] in *.
  subst. split; reflexivity.
Qed.

Lemma run_parts_wf ops : forall s, Forall part_wf (snd (mux_run_parts s ops)).
Proof.
  induction ops as [|o r IH]; intros s; [constructor|].
  rewrite mux_run_parts_cons. cbn [snd]. constructor; [apply step_part_wf|apply IH].
Qed.

(* C04_aligned *)
Theorem aligned s ops : Forall (fun o => Z.of_nat (length (mout_bytes o)) = mo_n o /\ (C_MpegTsPacketSize | mo_n o) /\
                                        Forall group_ok (mo_groups o)) (snd (mux_run s ops)).
Proof.
  destruct (mux_run_parts_out ops s) as [_ ->]. apply Forall_map.
  eapply Forall_impl; [|apply run_parts_wf]. intros p [H1 H2]. cbn [mout_of_part mo_n mo_groups mout_bytes].
  change (mout_bytes (mout_of_part p)) with (concat (concat (pa_groups p))). rewrite (concat_groups_length _ H2), H1.
  split; [reflexivity|]. split; [|exact H2]. exists (Z.of_nat (length (pa_groups p))). lia.
Qed.

(* C04_sync, per call and over the whole output of a run *)
Theorem sync_blocks s ops :
  Forall (fun o => forall k, (k < length (mo_groups o))%nat -> nth (188 * k) (mout_bytes o) 0 = syncByte) (snd (mux_run s ops)).
Proof.
  eapply Forall_impl; [|apply aligned]. cbn beta. intros o (_ & _ & H) k Hk. apply blocks_sync; assumption.
Qed.

Theorem sync_blocks_run s ops :
  let gs := concat (map mo_groups (snd (mux_run s ops))) in
  Z.of_nat (length (concat (concat gs))) = C_MpegTsPacketSize * Z.of_nat (length gs) /\
  forall k, (k < length gs)%nat -> nth (188 * k) (concat (concat gs)) 0 = syncByte.
Proof.
  intros gs. assert (H : Forall group_ok gs).
  { subst gs. pose proof (aligned s ops) as A. induction A as [|o l (_ & _ & Ho) _ IH]; [constructor|].
    cbn [map concat]. apply Forall_app. split; assumption. }
  split; [apply concat_groups_length, H|]. intros k Hk. apply blocks_sync; assumption.
Qed.

(* rejected calls: exactly what the code does *)
Lemma write_tables_rejected s s2 pt : write_tables s = (s2, pt) -> pa_res pt <> Ok tt -> pa_groups pt = [] /\ pa_n pt = 0.
Proof.
  unfold write_tables, generate_pat, generate_pmt.
  destruct (next_version (ms_pat_version s) (ms_pm_updated s)) as [patv pver].
  destruct (write_psi_data (psi_of_section (pat_section pver))) as [ppay|c|]; try (intros H; pinj H; split; reflexivity).
  destruct (write_packet (table_packet C_PIDPAT (wrappingCounter_inc (ms_pat_cc s)) ppay) C_MpegTsPacketSize) as [bpat|c|];
    try (intros H; pinj H; split; reflexivity).
  match goal with |- context [if negb ?b then _ else _] => destruct (negb b) end; try (intros H; pinj H; split; reflexivity).
  match goal with |- context [if ?a >? ?b then _ else _] => destruct (a >? b) end; try (intros H; pinj H; split; reflexivity).
  match goal with |- context [next_version ?a ?b] => destruct (next_version a b) as [pmtv mver] end.
  match goal with |- context [write_psi_data ?a] => destruct (write_psi_data a) as [mpay|c|] end; try (intros H; pinj H; split; reflexivity).
  match goal with |- context [write_packet ?a ?b] => destruct (write_packet a b) as [bpmt|c|] end; try (intros H; pinj H; split; reflexivity).
  intros H; pinj H. cbn [pa_res]. congruence.
Qed.

Lemma retransmit_rejected s f sr pt : retransmit_tables s f = (sr, pt) -> pa_res pt <> Ok tt -> pa_groups pt = [] /\ pa_n pt = 0.
Proof.
  unfold retransmit_tables. destruct (negb f && _); [intros H; pinj H; cbn; congruence|].
  destruct (write_tables _) as [s2 pt'] eqn:Ewt. destruct pt' as [rt nt gt pkt]. destruct rt as [u|c|].
  - intros H; pinj H. cbn. congruence.
  - intros H; pinj H. intros _. apply (write_tables_rejected _ _ _ Ewt). cbn. congruence.
  - intros H; pinj H. intros _. apply (write_tables_rejected _ _ _ Ewt). cbn. congruence.
Qed.

Theorem rejected s o s' p : mux_step_part s o = (s', p) ->
  match o with
  | MAdd _ | MRemove _ | MSetPCR _ => pa_groups p = [] /\ pa_n p = 0
  | MWriteTables | MWritePacket _ => pa_res p <> Ok tt -> pa_groups p = [] /\ pa_n p = 0
  | MWriteData d =>
      (es_find (MuxerData_PID d) (ms_es s) = None -> pa_res p = Err E_pid_not_found /\ pa_groups p = [] /\ pa_n p = 0 /\ s' = s) /\
      (forall sr pt, retransmit_tables s (data_forced s d) = (sr, pt) -> pa_res pt <> Ok tt ->
         es_find (MuxerData_PID d) (ms_es s) <> None -> p = pt /\ pa_groups p = [] /\ pa_n p = 0)
  end.
Proof.
  intros Hstep. destruct o as [es|q|q| |d|pk]; cbn [mux_step_part] in Hstep.
  - destruct (add_es s es). pinj Hstep. split; reflexivity.
  - destruct (remove_es s q). pinj Hstep. split; reflexivity.
  - pinj Hstep. split; reflexivity.
  - apply (write_tables_rejected _ _ _ Hstep).
  - unfold write_data in Hstep. split.
    + intros Hnone. rewrite Hnone in Hstep. pinj Hstep. repeat split; reflexivity.
    + intros sr pt Hrt Hne Hsome. destruct (es_find _ _) as [ctx|]; [|congruence].
      change (af_rai (MuxerData_AdaptationField d) && (MuxerData_PID d =? ms_pcr_pid s)) with (data_forced s d) in Hstep.
      rewrite Hrt in Hstep. destruct (retransmit_rejected _ _ _ _ Hrt Hne) as [G1 G2].
      destruct pt as [rt nt gt pkt]. destruct rt as [u|c|].
      * destruct u. cbn in Hne. congruence.
      * pinj Hstep. repeat split; assumption.
      * pinj Hstep. repeat split; assumption.
  - pinj Hstep. intros Hne. unfold write_packet_op in *. destruct (po_res (emit_packet pk)); cbn in *; [congruence|split; reflexivity|split; reflexivity].
Qed.

(* ================= Part 6: the ghost packets and the bytes ================= *)

(* the four header bytes of a serialised packet, read back: sync byte, PID (13 bits), payload_unit_start_indicator,
   adaptation_field_control, continuity_counter (4 bits) *)
Lemma b2z_01 b : 0 <= Z.b2z b <= 1. Proof. destruct b; cbn; lia. Qed.

Lemma header_bytes h rest :
  exists b1 b2 b3,
    bytes_of_items ([wu8 syncByte] ++ enc_packet_header h ++ rest) = syncByte :: b1 :: b2 :: b3 :: bytes_of_items rest /\
    (b1 mod 32) * 256 + b2 = PacketHeader_PID h mod 8192 /\
    (b1 / 64) mod 2 = Z.b2z (PacketHeader_PayloadUnitStartIndicator h) /\
    (b3 / 32) mod 2 = Z.b2z (PacketHeader_HasAdaptationField h) /\
    (b3 / 16) mod 2 = Z.b2z (PacketHeader_HasPayload h) /\
    b3 mod 16 = PacketHeader_ContinuityCounter h mod 16.
Proof.
  rewrite app_assoc. rewrite (bytes_of_items_app ([wu8 syncByte] ++ enc_packet_header h) rest 4)
    by (rewrite ibz_app, enc_packet_header_bits; reflexivity).
  rewrite chunks_concat by (unfold enc_packet_header, wu8; repeat constructor).
  unfold enc_packet_header, wu8, syncByte.
  cbn [app items_bits flat_map item_bits].
  set (pid := PacketHeader_PID h). set (cc := PacketHeader_ContinuityCounter h). set (tsc := PacketHeader_TransportScramblingControl h).
  cbn [bits_of Z.of_nat Pos.of_succ_nat Pos.succ app].
  cbn [bytes_of_bits].
  pose proof (Z_of_bits_of_mod 13 pid) as Hpid. pose proof (Z_of_bits_of_mod 4 cc) as Hcc.
  cbn [bits_of Z.of_nat Pos.of_succ_nat Pos.succ] in Hpid, Hcc.
  unfold Z_of_bits in *. cbn [Z_of_bits_acc] in *.
  change (2 ^ Z.of_nat 13) with 8192 in Hpid. change (2 ^ Z.of_nat 4) with 16 in Hcc.
  eexists _, _, _. split; [reflexivity|].
  repeat match goal with |- context [Z.b2z ?b] => let H := fresh "Hb" in pose proof (b2z_01 b) as H; generalize dependent (Z.b2z b); intros end.
  Ltac Zify.zify_post_hook ::= Z.div_mod_to_equations.
  repeat split; lia.
Qed.

Lemma enc_packet_shape p target its : enc_packet p target = Ok its ->
  exists rest, its = [wu8 syncByte] ++ enc_packet_header (Packet_Header p) ++ rest.
Proof.
  unfold enc_packet. intros H.
  destruct (PacketHeader_HasAdaptationField (Packet_Header p)).
  - destruct (Packet_AdaptationField p) as [af|]; cbn [need res_bind] in H; [|discriminate].
    destruct (PacketAdaptationField_StuffingLength af <? 0); cbn [res_bind] in H; [discriminate|].
    destruct (_ <? _) in H; [discriminate|].
    destruct (enc_adaptation_field af) as [[afi afn]| |]; cbn [res_bind] in H; try discriminate.
    destruct (_ <? _) in H; [discriminate|]. okinj H. eexists; reflexivity.
  - cbn [res_bind] in H. destruct (_ <? _) in H; [discriminate|]. cbn [res_bind] in H.
    destruct (_ <? _) in H; [discriminate|]. okinj H. eexists; reflexivity.
Qed.

(* every packet the model emits: its first four bytes are the sync byte and the header fields of the Packet record
   (PID in 13 bits, continuity_counter in 4 bits) *)
Theorem packet_header_readback p target its : enc_packet p target = Ok its ->
  exists b1 b2 b3 tail,
    bytes_of_items its = syncByte :: b1 :: b2 :: b3 :: tail /\
    (b1 mod 32) * 256 + b2 = pkt_pid p mod 8192 /\
    (b1 / 64) mod 2 = Z.b2z (PacketHeader_PayloadUnitStartIndicator (Packet_Header p)) /\
    (b3 / 16) mod 2 = Z.b2z (pkt_has_payload p) /\
    b3 mod 16 = pkt_cc p.
Proof.
  intros H. destruct (enc_packet_shape _ _ _ H) as [rest ->].
  destruct (header_bytes (Packet_Header p) rest) as (b1 & b2 & b3 & E & H1 & H2 & _ & H4 & H5).
  exists b1, b2, b3, (bytes_of_items rest). repeat split; assumption.
Qed.

(* ... and the groups a call hands to the writer are the serialisations of its ghost packets, in order *)
Definition pkt_bytes (p : Packet) : list Z :=
  match enc_packet p C_MpegTsPacketSize with Ok its => bytes_of_items its | _ => [] end.

Definition part_tied (p : part) : Prop :=
  map (@concat Z) (pa_groups p) = map pkt_bytes (pa_pkts p) /\
  Forall (fun q => exists its, enc_packet q C_MpegTsPacketSize = Ok its) (pa_pkts p).

Lemma part_tied_nil r n : part_tied (mk_part r n [] []).
Proof. split; [reflexivity|constructor]. Qed.

Lemma part_tied_app a b : part_tied a -> part_tied b -> part_tied (part_app a b).
Proof.
  intros [A1 A2] [B1 B2]. split; cbn [part_app pa_groups pa_pkts].
  - rewrite !map_app, A1, B1. reflexivity.
  - apply Forall_app. split; assumption.
Qed.

Lemma emit_packet_tied p : match po_res (emit_packet p) with
                           | Ok _ => po_pkt (emit_packet p) = [p] /\ concat (po_group (emit_packet p)) = pkt_bytes p /\
                                     exists its, enc_packet p C_MpegTsPacketSize = Ok its
                           | _ => po_pkt (emit_packet p) = [] /\ po_group (emit_packet p) = []
                           end.
Proof.
  unfold emit_packet, pkt_bytes. destruct (enc_packet p C_MpegTsPacketSize) as [its|c|] eqn:E; cbn [po_res po_group po_pkt];
    try (split; reflexivity).
  split; [reflexivity|]. split; [reflexivity|]. exists its. reflexivity.
Qed.

Lemma write_packet_tied p bs : write_packet p C_MpegTsPacketSize = Ok bs ->
  bs = pkt_bytes p /\ exists its, enc_packet p C_MpegTsPacketSize = Ok its.
Proof.
  unfold write_packet, pkt_bytes. destruct (enc_packet p C_MpegTsPacketSize) as [its|c|]; cbn [res_map]; try discriminate.
  intros H. apply ok_inj in H. subst. split; [reflexivity|]. exists its. reflexivity.
Qed.

Lemma write_tables_tied s : part_tied (snd (write_tables s)).
Proof.
  unfold write_tables, generate_pat, generate_pmt.
  destruct (next_version (ms_pat_version s) (ms_pm_updated s)) as [patv pver].
  destruct (write_psi_data (psi_of_section (pat_section pver))) as [ppay|c|]; cbn [snd]; try apply part_tied_nil.
  destruct (write_packet _ _) as [bpat|c|] eqn:Ewp; cbn [snd]; try apply part_tied_nil.
  destruct (negb _); cbn [snd]; try apply part_tied_nil.
  destruct (_ >? _); cbn [snd]; try apply part_tied_nil.
  destruct (next_version _ _) as [pmtv mver].
  destruct (write_psi_data _) as [mpay|c|]; cbn [snd]; try apply part_tied_nil.
  destruct (write_packet (table_packet C_pmtStartPID _ _) _) as [bpmt|c|] eqn:Ewm; cbn [snd]; try apply part_tied_nil.
  destruct (write_packet_tied _ _ Ewp) as [E1 X1]. destruct (write_packet_tied _ _ Ewm) as [E2 X2].
  split; cbn [pa_groups pa_pkts map concat].
  - rewrite !app_nil_r, E1, E2. reflexivity.
  - constructor; [exact X1|constructor; [exact X2|constructor]].
Qed.

Lemma retransmit_tied s f : part_tied (snd (retransmit_tables s f)).
Proof.
  unfold retransmit_tables. destruct (negb f && _); cbn [snd]; [apply part_tied_nil|].
  pose proof (write_tables_tied (set_retransmit s (ms_retransmit s + 1))) as W.
  destruct (write_tables _) as [s2 pt]. cbn [snd] in *. destruct pt as [rt nt gt pkt]. destruct rt; cbn [snd]; exact W.
Qed.

Lemma wd_loop_tied fuel : forall pid h cc af ps left, part_tied (lo_part (wd_loop fuel pid h cc af ps left)).
Proof.
  induction fuel as [|fuel IH]; intros pid h cc af ps left; cbn [wd_loop].
  - destruct left; apply part_tied_nil.
  - destruct left as [|b0 left']; [apply part_tied_nil|].
    destruct (ps && _).
    + match goal with |- context [emit_packet ?p] => pose proof (emit_packet_tied p) as W; destruct (po_res (emit_packet p)) end;
        try apply part_tied_nil.
      destruct W as (Wp & Wg & Wx). cbn [lo_cons lo_part]. destruct (IH pid h cc None ps (b0 :: left')) as [I1 I2].
      split; cbn [pa_groups pa_pkts map]; rewrite Wp; cbn [app map].
      * rewrite Wg, I1. reflexivity.
      * constructor; assumption.
    + destruct (write_pes_data _ _ _ _) as [[[items ntot] npayload]|c|]; try apply part_tied_nil.
      match goal with |- context [emit_packet ?p] => pose proof (emit_packet_tied p) as W; destruct (po_res (emit_packet p)) end;
        try apply part_tied_nil.
      destruct W as (Wp & Wg & Wx). cbn [lo_cons lo_part].
      destruct (IH pid h (wrappingCounter_inc_st cc) None false (skipn (Z.to_nat npayload) (b0 :: left'))) as [I1 I2].
      split; cbn [pa_groups pa_pkts map]; rewrite Wp; cbn [app map].
      * rewrite Wg, I1. reflexivity.
      * constructor; assumption.
Qed.

Lemma write_data_tied s d : part_tied (snd (write_data s d)).
Proof.
  unfold write_data. destruct (es_find _ _) as [ctx|]; cbn [snd]; [|apply part_tied_nil].
  pose proof (retransmit_tied s (af_rai (MuxerData_AdaptationField d) && (MuxerData_PID d =? ms_pcr_pid s))) as W.
  destruct (retransmit_tables _ _) as [s1 pt]. cbn [snd] in W. destruct pt as [rt nt gt pkt]. destruct rt as [u|c|]; cbn [snd]; try exact W.
  destruct u.
  destruct (MuxerData_PES d) as [pes|]; cbn [snd]; [|apply part_tied_app; [exact W|apply part_tied_nil]].
  destruct (PESData_Data pes) as [|b0 data']; cbn [snd]; [exact W|].
  destruct (PESData_Header pes) as [h0|]; cbn [snd]; [|apply part_tied_app; [exact W|apply part_tied_nil]].
  apply part_tied_app; [exact W|apply wd_loop_tied].
Qed.

(* every call: what it hands to the writer, group by group, is the serialisation of its ghost packets *)
Theorem step_part_tied s o : part_tied (snd (mux_step_part s o)).
Proof.
  destruct o as [es|q|q| |d|pk]; cbn [mux_step_part].
  - destruct (add_es s es). apply part_tied_nil.
  - destruct (remove_es s q). apply part_tied_nil.
  - apply part_tied_nil.
  - apply write_tables_tied.
  - apply write_data_tied.
  - cbn [snd]. unfold write_packet_op. pose proof (emit_packet_tied pk) as W. destruct (po_res (emit_packet pk)); try apply part_tied_nil.
    destruct W as (Wp & Wg & Wx). split; cbn [pa_groups pa_pkts map]; rewrite Wp; cbn [map].
    + rewrite Wg. reflexivity.
    + constructor; [exact Wx|constructor].
Qed.
