(* Lemmas behind C04, C05 and C17 (the Muxer).  Part 1: how many bytes a list of writer items produces
   (no assumption on the byte values), and "every packet writePacket accepts is exactly 188 bytes". *)
From Coq Require Import ZArith List Lia Bool ZifyBool.
Require Import Base.Bits Base.Iter Base.Wr Gen.Consts Gen.Types Gen.Preds
  Model.Clock Model.Packet Model.Pes Model.Desc Model.Psi Model.Muxer.
Import ListNotations.
Open Scope Z_scope.

(* ---------------- byte count of an item list ---------------- *)

Lemma bytes_of_bits_length_div : forall n l, (length l < 8 * S n)%nat -> (8 * length (bytes_of_bits l) + length l mod 8 = length l)%nat.
Proof.
  induction n as [|n IH]; intros l Hl.
  - rewrite bytes_of_bits_short by lia. simpl length. rewrite Nat.mod_small by lia. lia.
  - destruct (Nat.lt_ge_cases (length l) 8) as [Hs|Hs].
    + rewrite bytes_of_bits_short by lia. simpl length. rewrite Nat.mod_small by lia. lia.
    + do 8 (destruct l as [|? l]; [simpl in Hs; lia|]).
      cbn [bytes_of_bits length]. specialize (IH l ltac:(simpl in Hl; lia)).
      replace (S (S (S (S (S (S (S (S (length l))))))))) with (length l + 1 * 8)%nat by lia.
      rewrite Nat.mod_add by lia. lia.
Qed.

Lemma bytes_of_bits_len l : (8 * length (bytes_of_bits l) + length l mod 8 = length l)%nat.
Proof. apply (bytes_of_bits_length_div (length l)). lia. Qed.

Definition st_total (st : wstate) : nat := (8 * length (concat (snd st)) + length (fst st))%nat.

Lemma leftover_length l : length (leftover l) = (length l mod 8)%nat.
Proof.
  unfold leftover. rewrite skipn_length.
  pose proof (Nat.div_mod (length l) 8 ltac:(lia)). lia.
Qed.

Lemma push_bits_total st bs : st_total (push_bits st bs) = (st_total st + length bs)%nat.
Proof.
  unfold st_total, push_bits. cbn [fst snd].
  rewrite concat_app, app_length, concat_map_single, leftover_length.
  pose proof (bytes_of_bits_len (fst st ++ bs)) as H. rewrite app_length in *. lia.
Qed.

Lemma run_item_total st it : st_total (run_item st it) = (st_total st + length (item_bits it))%nat.
Proof.
  destruct it as [w v|b|bs]; cbn [run_item]; try apply push_bits_total.
  destruct st as [cache chunks]. cbn [fst snd]. destruct cache as [|c0 cache].
  - unfold st_total. cbn [fst snd item_bits]. rewrite bits_of_bytes_length.
    assert (E : length (concat (match bs with [] => chunks | _ :: _ => chunks ++ [bs] end)) = (length (concat chunks) + length bs)%nat).
    { destruct bs as [|b0 bs]; [simpl; lia|]. rewrite concat_app, app_length. cbn [concat]. rewrite app_nil_r. reflexivity. }
    rewrite E. simpl length. lia.
  - apply push_bits_total.
Qed.

Lemma run_items_total l : forall st, st_total (run_items l st) = (st_total st + length (items_bits l))%nat.
Proof.
  induction l as [|it l IH]; intros st; unfold run_items in *; cbn [fold_left].
  - simpl. lia.
  - change (items_bits (it :: l)) with (item_bits it ++ items_bits l).
    rewrite IH, run_item_total, app_length. lia.
Qed.

Lemma run_item_cache st it : (length (fst st) < 8)%nat -> (length (fst (run_item st it)) < 8)%nat.
Proof.
  intros H. destruct it as [w v|b|bs]; cbn [run_item]; try (unfold push_bits; cbn [fst]; apply leftover_short).
  destruct (fst st); [simpl; lia|]. unfold push_bits; cbn [fst]; apply leftover_short.
Qed.

Lemma run_items_cache l : forall st, (length (fst st) < 8)%nat -> (length (fst (run_items l st)) < 8)%nat.
Proof.
  induction l as [|it l IH]; intros st H; unfold run_items in *; cbn [fold_left]; [exact H|].
  apply IH, run_item_cache, H.
Qed.

(* bits of an item list, as a Z *)
Definition ibz (l : list witem) : Z := Z.of_nat (length (items_bits l)).

(* a byte-aligned item list of 8n bits produces n bytes, whatever the values *)
Lemma items_len_bits l n : ibz l = 8 * n -> Z.of_nat (length (bytes_of_items l)) = n.
Proof.
  unfold ibz. intros H. unfold bytes_of_items, chunks_of.
  pose proof (run_items_total l ([], [])) as T. pose proof (run_items_cache l ([], []) ltac:(simpl; lia)) as C.
  change (st_total ([], [])) with 0%nat in T. unfold st_total in T.
  set (a := length (concat (snd (run_items l ([], []))))) in *.
  set (b := length (fst (run_items l ([], [])))) in *. lia.
Qed.

Lemma ibz_nil : ibz [] = 0. Proof. reflexivity. Qed.
Lemma ibz_app a b : ibz (a ++ b) = ibz a + ibz b.
Proof. unfold ibz. rewrite items_bits_app, app_length. lia. Qed.
Lemma ibz_cons x l : ibz (x :: l) = Z.of_nat (length (item_bits x)) + ibz l.
Proof. unfold ibz. change (items_bits (x :: l)) with (item_bits x ++ items_bits l). rewrite app_length. lia. Qed.
Lemma ibz_bits w v : Z.of_nat (length (item_bits (WBits w v))) = Z.of_nat w.
Proof. cbn [item_bits]. now rewrite bits_of_length. Qed.
Lemma ibz_bool b : Z.of_nat (length (item_bits (WBool b))) = 1. Proof. reflexivity. Qed.
Lemma ibz_bytes bs : Z.of_nat (length (item_bits (WBytes bs))) = 8 * Z.of_nat (length bs).
Proof. cbn [item_bits]. rewrite bits_of_bytes_length. lia. Qed.
Lemma ibz_repeat n v : ibz (repeat_item n (wu8 v)) = 8 * Z.max 0 n.
Proof.
  unfold repeat_item. assert (G : forall k, ibz (repeat (wu8 v) k) = 8 * Z.of_nat k).
  { induction k as [|k IH]; [reflexivity|]. cbn [repeat]. rewrite ibz_cons, IH. unfold wu8. rewrite ibz_bits. lia. }
  rewrite G. lia.
Qed.

Ltac ibz_simpl :=
  repeat (rewrite ?ibz_app, ?ibz_cons, ?ibz_nil, ?ibz_bits, ?ibz_bool, ?ibz_bytes, ?ibz_repeat; unfold wu8, wu16, wu32).

(* ---------------- adaptation field and packet ---------------- *)

(* injectivity without the reductions `injection` performs on the arithmetic *)
Lemma ok_pair_inj {A B} (a c : A) (b d : B) : @Ok (A * B) (a, b) = Ok (c, d) -> a = c /\ b = d.
Proof. intros H; inversion H; auto. Qed.
Lemma ok_inj {A} (a c : A) : Ok a = Ok c -> a = c.
Proof. intros H; inversion H; auto. Qed.
Ltac okinj H := first [apply ok_pair_inj in H; destruct H as [<- <-] | apply ok_inj in H; subst].

Lemma enc_pcr_bits c : ibz (enc_pcr c) = 48.
Proof. unfold enc_pcr. ibz_simpl. reflexivity. Qed.
Lemma enc_pts_or_dts_bits f c : ibz (enc_pts_or_dts f c) = 40.
Proof. unfold enc_pts_or_dts. ibz_simpl. reflexivity. Qed.
Lemma enc_escr_bits c : ibz (enc_escr c) = 48.
Proof. unfold enc_escr. ibz_simpl. reflexivity. Qed.

Lemma enc_af_extension_bits afe its n : enc_af_extension afe = Ok (its, n) -> ibz its = 8 * n.
Proof.
  unfold enc_af_extension.
  destruct (PacketAdaptationExtensionField_HasSeamlessSplice afe).
  - destruct (PacketAdaptationExtensionField_DTSNextAccessUnit afe); cbn [need res_bind]; [|discriminate].
    intros HH; okinj HH.
    destruct (PacketAdaptationExtensionField_HasLegalTimeWindow afe), (PacketAdaptationExtensionField_HasPiecewiseRate afe);
      ibz_simpl; rewrite enc_pts_or_dts_bits; unfold C_ptsOrDTSByteLength; lia.
  - intros HH; okinj HH.
    destruct (PacketAdaptationExtensionField_HasLegalTimeWindow afe), (PacketAdaptationExtensionField_HasPiecewiseRate afe);
      ibz_simpl; lia.
Qed.

Lemma enc_adaptation_field_bits af its n : enc_adaptation_field af = Ok (its, n) -> ibz its = 8 * n.
Proof.
  unfold enc_adaptation_field.
  destruct (PacketAdaptationField_IsOneByteStuffing af).
  { intros HH; okinj HH. reflexivity. }
  set (pcr := if PacketAdaptationField_HasPCR af then _ else _).
  set (opcr := if PacketAdaptationField_HasOPCR af then _ else _).
  assert (Hpcr : forall i k, pcr = Ok (i, k) -> ibz i = 8 * k).
  { subst pcr. destruct (PacketAdaptationField_HasPCR af).
    - destruct (PacketAdaptationField_PCR af); cbn [need res_map]; [|discriminate].
      intros i k HH; okinj HH. rewrite enc_pcr_bits. reflexivity.
    - intros i k HH; okinj HH. reflexivity. }
  assert (Hopcr : forall i k, opcr = Ok (i, k) -> ibz i = 8 * k).
  { subst opcr. destruct (PacketAdaptationField_HasOPCR af).
    - destruct (PacketAdaptationField_OPCR af); cbn [need res_map]; [|discriminate].
      intros i k HH; okinj HH. rewrite enc_pcr_bits. reflexivity.
    - intros i k HH; okinj HH. reflexivity. }
  destruct pcr as [[i1 n1]| |]; cbn [res_bind]; try discriminate.
  destruct opcr as [[i2 n2]| |]; cbn [res_bind]; try discriminate.
  set (ext := if PacketAdaptationField_HasAdaptationExtensionField af then _ else _).
  assert (Hext : forall i k, ext = Ok (i, k) -> ibz i = 8 * k).
  { subst ext. destruct (PacketAdaptationField_HasAdaptationExtensionField af).
    - destruct (PacketAdaptationField_AdaptationExtensionField af); cbn [need res_bind]; [|discriminate].
      intros i k. apply enc_af_extension_bits.
    - intros i k HH; okinj HH. reflexivity. }
  destruct ext as [[i5 n5]| |]; cbn [res_bind]; try discriminate.
  intros HH; okinj HH.
  specialize (Hpcr _ _ eq_refl). specialize (Hopcr _ _ eq_refl). specialize (Hext _ _ eq_refl).
  ibz_simpl. rewrite Hpcr, Hopcr, Hext.
  destruct (PacketAdaptationField_HasSplicingCountdown af), (PacketAdaptationField_HasTransportPrivateData af);
    ibz_simpl; try lia.
  all: destruct (Z.of_nat (length (PacketAdaptationField_TransportPrivateData af)) >? 0) eqn:E; ibz_simpl; lia.
Qed.

Lemma enc_packet_header_bits h : ibz (enc_packet_header h) = 24.
Proof. unfold enc_packet_header. ibz_simpl. reflexivity. Qed.

(* the core of "whole packets": whatever writePacket accepts is exactly the target size *)
Lemma enc_packet_size p target its : enc_packet p target = Ok its ->
  Z.of_nat (length (bytes_of_items its)) = target.
Proof.
  unfold enc_packet. intros H. apply items_len_bits.
  set (plen := Z.of_nat (length (Packet_Payload p))) in *.
  destruct (PacketHeader_HasAdaptationField (Packet_Header p)) eqn:Haf.
  - destruct (Packet_AdaptationField p) as [af|]; cbn [need res_bind] in H; [|discriminate].
    destruct (PacketAdaptationField_StuffingLength af <? 0); cbn [res_bind] in H; [discriminate|].
    destruct (_ <? plen) eqn:E1 in H; [discriminate|].
    destruct (enc_adaptation_field af) as [[afi afn]| |] eqn:Eaf; cbn [res_bind] in H; try discriminate.
    destruct (_ <? plen) eqn:E2 in H; [discriminate|].
    okinj H. apply enc_adaptation_field_bits in Eaf.
    ibz_simpl. rewrite enc_packet_header_bits, Eaf.
    destruct (PacketHeader_HasPayload (Packet_Header p)); ibz_simpl; fold plen; unfold C_mpegTsPacketHeaderSize in *; lia.
  - cbn [res_bind] in H.
    destruct (_ <? plen) eqn:E1 in H; [discriminate|]. cbn [res_bind] in H.
    destruct (_ <? plen) eqn:E2 in H; [discriminate|].
    okinj H.
    ibz_simpl. rewrite enc_packet_header_bits.
    destruct (PacketHeader_HasPayload (Packet_Header p)); ibz_simpl; fold plen; unfold C_mpegTsPacketHeaderSize in *; lia.
Qed.

Lemma write_packet_size p target bs : write_packet p target = Ok bs -> Z.of_nat (length bs) = target.
Proof.
  unfold write_packet. destruct (enc_packet p target) eqn:E; cbn [res_map]; try discriminate.
  intros H; inversion H; subst. eapply enc_packet_size; eauto.
Qed.

(* the first byte handed to the writer is the sync byte *)
Lemma enc_packet_sync p target its : enc_packet p target = Ok its ->
  exists rest, its = wu8 syncByte :: rest.
Proof.
  unfold enc_packet. intros H.
  destruct (PacketHeader_HasAdaptationField (Packet_Header p)).
  - destruct (Packet_AdaptationField p) as [af|]; cbn [need res_bind] in H; [|discriminate].
    destruct (PacketAdaptationField_StuffingLength af <? 0); cbn [res_bind] in H; [discriminate|].
    destruct (_ <? _) in H; [discriminate|].
    destruct (enc_adaptation_field af) as [[afi afn]| |]; cbn [res_bind] in H; try discriminate.
    destruct (_ <? _) in H; [discriminate|]. inversion H. eexists; reflexivity.
  - cbn [res_bind] in H. destruct (_ <? _) in H; [discriminate|]. cbn [res_bind] in H.
    destruct (_ <? _) in H; [discriminate|]. inversion H. eexists; reflexivity.
Qed.

(* ---------------- PES header and writePESData: bytes counted = bytes written ---------------- *)

Definition no_err {A} (r : res A) : Prop := forall c, r <> Err c.
Lemma no_err_ok {A} (a : A) : no_err (Ok a). Proof. intros c; discriminate. Qed.
Lemma no_err_panic {A} : no_err (@Panic A). Proof. intros c; discriminate. Qed.
Lemma no_err_bind {A B} (r : res A) (f : A -> res B) : no_err r -> (forall a, no_err (f a)) -> no_err (res_bind r f).
Proof. intros Hr Hf c. destruct r; cbn [res_bind]; [apply Hf|exfalso; eapply Hr; reflexivity|discriminate]. Qed.
Lemma no_err_map {A B} (r : res A) (f : A -> B) : no_err r -> no_err (res_map f r).
Proof. intros Hr c. destruct r; cbn [res_map]; try discriminate. intros H; inversion H; subst. eapply Hr; reflexivity. Qed.
Lemma no_err_pneed {A} (o : option A) : no_err (pneed o). Proof. destruct o; intros c; discriminate. Qed.
Lemma no_err_need {A} (o : option A) : no_err (need o). Proof. destruct o; intros c; discriminate. Qed.
#[global] Hint Resolve no_err_ok no_err_panic no_err_pneed no_err_need : noerr.

Lemma ibz_repeat_nat k v : ibz (repeat (wu8 v) k) = 8 * Z.of_nat k.
Proof. induction k as [|k IH]; [reflexivity|]. cbn [repeat]. rewrite ibz_cons, IH. unfold wu8. rewrite ibz_bits. lia. Qed.

Lemma enc_dsm_trick_mode_bits m : ibz (enc_dsm_trick_mode m) = 8.
Proof.
  unfold enc_dsm_trick_mode. rewrite ibz_cons, ibz_bits.
  destruct (orb _ _); [ibz_simpl; reflexivity|]. destruct (_ =? _); [ibz_simpl; reflexivity|].
  destruct (orb _ _); ibz_simpl; reflexivity.
Qed.

Lemma enc_opt_fixed_bits h : ibz (enc_opt_fixed h) = 24.
Proof. unfold enc_opt_fixed. ibz_simpl. reflexivity. Qed.

Lemma enc_ptsdts_bits h its n : enc_ptsdts h = Ok (its, n) -> ibz its = 8 * n.
Proof.
  unfold enc_ptsdts.
  destruct (PESOptionalHeader_PTSDTSIndicator h =? C_PTSDTSIndicatorOnlyPTS).
  - destruct (PESOptionalHeader_PTS h) as [p|]; cbn [pneed res_map res_bind]; [|discriminate].
    destruct (PESOptionalHeader_PTSDTSIndicator h =? C_PTSDTSIndicatorBothPresent).
    + destruct (PESOptionalHeader_DTS h) as [d|]; cbn [pneed res_bind]; [|discriminate].
      intros HH; okinj HH. ibz_simpl. rewrite !enc_pts_or_dts_bits. unfold C_ptsOrDTSByteLength. lia.
    + cbn [res_bind]. intros HH; okinj HH. ibz_simpl. rewrite !enc_pts_or_dts_bits. unfold C_ptsOrDTSByteLength. lia.
  - cbn [res_bind].
    destruct (PESOptionalHeader_PTSDTSIndicator h =? C_PTSDTSIndicatorBothPresent).
    + destruct (PESOptionalHeader_PTS h) as [p|]; cbn [pneed res_bind]; [|discriminate].
      destruct (PESOptionalHeader_DTS h) as [d|]; cbn [pneed res_bind]; [|discriminate].
      intros HH; okinj HH. ibz_simpl. rewrite !enc_pts_or_dts_bits. unfold C_ptsOrDTSByteLength. lia.
    + cbn [res_bind]. intros HH; okinj HH. reflexivity.
Qed.

Lemma enc_ptsdts_no_err h : no_err (enc_ptsdts h).
Proof.
  unfold enc_ptsdts. apply no_err_bind.
  - destruct (_ =? _); auto with noerr. apply no_err_map; auto with noerr.
  - intros [i1 n1]. apply no_err_bind.
    + destruct (_ =? _); auto with noerr. apply no_err_bind; auto with noerr. intros p. apply no_err_bind; auto with noerr.
    + intros [i2 n2]. auto with noerr.
Qed.

Lemma enc_escr_opt_bits h its n : enc_escr_opt h = Ok (its, n) -> ibz its = 8 * n.
Proof.
  unfold enc_escr_opt. destruct (PESOptionalHeader_HasESCR h).
  - destruct (PESOptionalHeader_ESCR h); cbn [pneed res_map]; [|discriminate].
    intros HH; okinj HH. rewrite enc_escr_bits. reflexivity.
  - intros HH; okinj HH. reflexivity.
Qed.
Lemma enc_escr_opt_no_err h : no_err (enc_escr_opt h).
Proof. unfold enc_escr_opt. destruct (_ : bool); auto with noerr. apply no_err_map; auto with noerr. Qed.

Lemma enc_es_rate_bits h : ibz (fst (enc_es_rate h)) = 8 * snd (enc_es_rate h).
Proof. unfold enc_es_rate. destruct (PESOptionalHeader_HasESRate h); cbn [fst snd]; ibz_simpl; reflexivity. Qed.

Lemma enc_dsm_opt_bits h its n : enc_dsm_opt h = Ok (its, n) -> ibz its = 8 * n.
Proof.
  unfold enc_dsm_opt. destruct (PESOptionalHeader_HasDSMTrickMode h).
  - destruct (PESOptionalHeader_DSMTrickMode h); cbn [pneed res_map]; [|discriminate].
    intros HH; okinj HH. rewrite enc_dsm_trick_mode_bits. reflexivity.
  - intros HH; okinj HH. reflexivity.
Qed.
Lemma enc_dsm_opt_no_err h : no_err (enc_dsm_opt h).
Proof. unfold enc_dsm_opt. destruct (_ : bool); auto with noerr. apply no_err_map; auto with noerr. Qed.

Lemma enc_aci_bits h : ibz (fst (enc_aci h)) = 8 * snd (enc_aci h).
Proof. unfold enc_aci. destruct (PESOptionalHeader_HasAdditionalCopyInfo h); cbn [fst snd]; ibz_simpl; reflexivity. Qed.

Lemma enc_private_data_bits pd : ibz (enc_private_data pd) = 128.
Proof.
  unfold enc_private_data. destruct (16 <=? Z.of_nat (length pd)) eqn:E.
  - ibz_simpl. rewrite firstn_length. lia.
  - rewrite ibz_cons, ibz_bytes, ibz_repeat_nat. lia.
Qed.

Lemma enc_pes_extension_bits h : ibz (fst (enc_pes_extension h)) = 8 * snd (enc_pes_extension h).
Proof.
  unfold enc_pes_extension. destruct (PESOptionalHeader_HasExtension h); [|reflexivity].
  cbn [fst snd].
  destruct (PESOptionalHeader_HasPrivateData h), (PESOptionalHeader_HasProgramPacketSequenceCounter h),
    (PESOptionalHeader_HasPSTDBuffer h), (PESOptionalHeader_HasExtension2 h); cbn [fst snd];
    ibz_simpl; rewrite ?enc_private_data_bits; lia.
Qed.

Lemma enc_pes_optional_header_bits h its n : enc_pes_optional_header h = Ok (its, n) -> ibz its = 8 * n.
Proof.
  unfold enc_pes_optional_header.
  destruct (enc_ptsdts h) as [[ts n1]| |] eqn:E1; cbn [res_bind]; try discriminate.
  destruct (enc_escr_opt h) as [[es n2]| |] eqn:E2; cbn [res_bind]; try discriminate.
  pose proof (enc_es_rate_bits h) as E3. destruct (enc_es_rate h) as [er n3]. cbn [fst snd] in E3.
  destruct (enc_dsm_opt h) as [[dsm n4]| |] eqn:E4; cbn [res_bind]; try discriminate.
  pose proof (enc_aci_bits h) as E5. destruct (enc_aci h) as [aci n5]. cbn [fst snd] in E5.
  pose proof (enc_pes_extension_bits h) as E6. destruct (enc_pes_extension h) as [ext n6]. cbn [fst snd] in E6.
  intros HH; okinj HH.
  apply enc_ptsdts_bits in E1. apply enc_escr_opt_bits in E2. apply enc_dsm_opt_bits in E4.
  rewrite !ibz_app, enc_opt_fixed_bits. lia.
Qed.

Lemma enc_pes_optional_header_no_err h : no_err (enc_pes_optional_header h).
Proof.
  unfold enc_pes_optional_header. apply no_err_bind; [apply enc_ptsdts_no_err|]. intros [ts n1].
  apply no_err_bind; [apply enc_escr_opt_no_err|]. intros [es n2].
  destruct (enc_es_rate h). apply no_err_bind; [apply enc_dsm_opt_no_err|]. intros [dsm n4].
  destruct (enc_aci h), (enc_pes_extension h). auto with noerr.
Qed.

Lemma enc_pes_header_bits h plen its n : enc_pes_header h plen = Ok (its, n) -> ibz its = 8 * n /\ C_pesHeaderLength <= n.
Proof.
  unfold enc_pes_header. destruct (hasPESOptionalHeader (PESHeader_StreamID h)).
  - destruct (PESHeader_OptionalHeader h) as [oh|].
    + destruct (enc_pes_optional_header oh) as [[oi k]| |] eqn:E; cbn [res_bind]; try discriminate.
      intros HH; okinj HH. apply enc_pes_optional_header_bits in E.
      assert (0 <= k) by (unfold ibz in E; lia).
      split; [|lia]. ibz_simpl. rewrite E. unfold C_pesHeaderLength. lia.
    + cbn [res_bind]. intros HH; okinj HH. split; [|lia]. ibz_simpl. unfold C_pesHeaderLength. lia.
  - intros HH; okinj HH. split; [|lia]. ibz_simpl. unfold C_pesHeaderLength. lia.
Qed.

Lemma enc_pes_header_no_err h plen : no_err (enc_pes_header h plen).
Proof.
  unfold enc_pes_header. destruct (hasPESOptionalHeader _); auto with noerr.
  apply no_err_bind.
  - destruct (PESHeader_OptionalHeader h); auto with noerr. apply enc_pes_optional_header_no_err.
  - intros [oi n]. auto with noerr.
Qed.

(* writePESData: what it reports is what it writes, it fits, and it never returns an error *)
Lemma write_pes_data_ok h left ps avail its ntot np : write_pes_data h left ps avail = Ok (its, ntot, np) ->
  ibz its = 8 * ntot /\ 0 <= np <= Z.of_nat (length left) /\ np <= ntot <= avail /\
  (ps = false -> ntot = np /\ (np = avail \/ np = Z.of_nat (length left))) /\
  (ps = true -> C_pesHeaderLength <= ntot - np) /\
  (ntot = avail \/ np = Z.of_nat (length left)).
Proof.
  unfold write_pes_data.
  set (hd := if ps then enc_pes_header h (Z.of_nat (length left)) else Ok ([], 0)).
  assert (Hhd : forall hi n, hd = Ok (hi, n) -> ibz hi = 8 * n /\ (ps = false -> n = 0) /\ (ps = true -> C_pesHeaderLength <= n) /\ 0 <= n).
  { subst hd. destruct ps.
    - intros hi n E. apply enc_pes_header_bits in E. destruct E as [E1 E2]. unfold C_pesHeaderLength in *. repeat split; try lia; discriminate.
    - intros hi n E. okinj E. repeat split; try reflexivity; try lia; discriminate. }
  destruct hd as [[hi n]| |]; cbn [res_bind]; try discriminate.
  destruct (Hhd _ _ eq_refl) as (Hb & Hf & Ht & Hn).
  set (plen := Z.of_nat (length left)).
  destruct (avail - n >? plen) eqn:E1.
  - destruct (plen <? 0) eqn:E2; [discriminate|]. intros HH. apply ok_inj in HH.
    inversion HH; subst; clear HH. rewrite ibz_app, Hb. ibz_simpl. rewrite firstn_length. fold plen.
    repeat split; try lia; intros ->; specialize (Hf eq_refl); lia.
  - destruct (avail - n <? 0) eqn:E2; [discriminate|]. intros HH. apply ok_inj in HH.
    inversion HH; subst; clear HH. rewrite ibz_app, Hb. ibz_simpl. rewrite firstn_length. fold plen.
    repeat split; try lia; intros ->; specialize (Hf eq_refl); lia.
Qed.

Lemma write_pes_data_no_err h left ps avail : no_err (write_pes_data h left ps avail).
Proof.
  unfold write_pes_data. apply no_err_bind.
  - destruct ps; auto with noerr. apply enc_pes_header_no_err.
  - intros [hi n]. cbv zeta. destruct (_ <? 0); auto with noerr.
Qed.
