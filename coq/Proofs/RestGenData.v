(* PSIData.toData as regenerated (Gen/RestData.v: go/gen/restgen.go through the statement translator of
   demuxgen.go) against psi_to_data of Model/Psi.v.

   The regenerated function is in the outcome monad: it is Panicked where the Go code would dereference nil — a
   section that has syntax data but no header (s.Header.TableID).  The model skips such a section (the parser never
   builds one).  The lemma states both: on a PSIData all of whose sections are "safe" the regenerated toData returns
   exactly psi_to_data (same DemuxerData, same order, the first packet and the PID stored in each); otherwise it panics.
   A loop that skips a section, a case of the switch that stores another table, a changed EIT range or a changed
   order of the appends breaks this proof. *)
From Coq Require Import ZArith List Bool.
Require Import Base.Iter Gen.Consts Gen.Types Gen.Preds Gen.DemuxGen Gen.RestData Model.Psi.
Import ListNotations.
Open Scope Z_scope.

(* no nil dereference: syntax data implies a header *)
Definition section_safe (s : PSISection) : bool :=
  match PSISection_Syntax s with
  | None => true
  | Some syn => match PSISectionSyntax_Data syn with None => true | Some _ => is_some (PSISection_Header s) end
  end.

Lemma to_data_step (W : Type) s rest_ pf secs ds fp pid (w : W) :
  PSIData_toData_loop1 W (s :: rest_) pf secs w (Some fp) pid ds =
  if section_safe s then PSIData_toData_loop1 W rest_ pf secs w (Some fp) pid (ds ++ section_to_data s fp pid)
  else Panicked.
Proof.
  cbn [PSIData_toData_loop1]. unfold section_safe, section_to_data.
  destruct (PSISection_Syntax s) as [syn|]; cbn [is_some negb orb andb odflt];
    [|rewrite app_nil_r; reflexivity].
  destruct (PSISectionSyntax_Data syn) as [dat|]; cbn [is_some negb orb andb odflt];
    [|rewrite app_nil_r; reflexivity].
  destruct (PSISection_Header s) as [h|]; cbn [is_some negb orb andb odflt]; [|reflexivity].
  rewrite !orb_true_r. cbn [andb].
  unfold is_nit_id, is_sdt_id, is_eit_id, demuxer_data.
  set (tid := PSISectionHeader_TableID h).
  destruct (tid =? C_PSITableIDNITVariant1); destruct (tid =? C_PSITableIDNITVariant2);
  destruct (tid =? C_PSITableIDPAT); destruct (tid =? C_PSITableIDPMT);
  destruct (tid =? C_PSITableIDSDTVariant1); destruct (tid =? C_PSITableIDSDTVariant2);
  destruct (tid =? C_PSITableIDTOT);
  destruct (tid >=? C_PSITableIDEITStart); destruct (tid <=? C_PSITableIDEITEnd);
  cbn [orb andb negb obind]; rewrite ?app_nil_r, <- ?app_assoc; reflexivity.
Qed.

Lemma to_data_loop (W : Type) l : forall pf secs ds fp pid (w : W),
  PSIData_toData_loop1 W l pf secs w (Some fp) pid ds =
  if forallb section_safe l then Done (ds ++ flat_map (fun s => section_to_data s fp pid) l, w) else Panicked.
Proof.
  induction l as [|s r IH]; intros.
  - cbn [PSIData_toData_loop1 forallb flat_map]. rewrite app_nil_r. reflexivity.
  - rewrite to_data_step. cbn [forallb flat_map]. destruct (section_safe s); cbn [andb]; [|reflexivity].
    rewrite IH, app_assoc. reflexivity.
Qed.

Lemma to_data_is_generated (W : Type) d fp pid (w : W) :
  PSIData_toData W (PSIData_PointerField d) (PSIData_Sections d) (Some fp) pid w =
  if forallb section_safe (PSIData_Sections d) then Done (psi_to_data d fp pid, w) else Panicked.
Proof.
  unfold PSIData_toData, psi_to_data.
  assert (H : (0 <=? 0) && (0 <=? Z.of_nat (length (PSIData_Sections d))) = true).
  { rewrite andb_true_iff. split; apply Z.leb_le; [apply Z.le_refl | apply Nat2Z.is_nonneg]. }
  rewrite H. apply to_data_loop.
Qed.

(* a section the parser builds (header always present) is safe *)
Lemma section_safe_header s h : PSISection_Header s = Some h -> section_safe s = true.
Proof.
  intro H. unfold section_safe. rewrite H.
  destruct (PSISection_Syntax s) as [syn|]; [|reflexivity]. destruct (PSISectionSyntax_Data syn); reflexivity.
Qed.

(* a PAT section followed by a headerless section with syntax data: the first alone yields one DemuxerData, the pair panics *)
Definition ex_td_section (tid : Z) : PSISection :=
  {| PSISection_CRC32 := 0;
     PSISection_Header := Some {| PSISectionHeader_PrivateBit := false; PSISectionHeader_SectionLength := 13;
                                  PSISectionHeader_SectionSyntaxIndicator := true; PSISectionHeader_TableID := tid;
                                  PSISectionHeader_TableType := [] |};
     PSISection_Syntax := Some {| PSISectionSyntax_Data := Some {| PSISectionSyntaxData_EIT := None; PSISectionSyntaxData_NIT := None;
                                     PSISectionSyntaxData_PAT := Some {| PATData_Programs := []; PATData_TransportStreamID := 7 |};
                                     PSISectionSyntaxData_PMT := None; PSISectionSyntaxData_SDT := None; PSISectionSyntaxData_TOT := None |};
                                  PSISectionSyntax_Header := None |} |}.
Definition ex_td_headerless : PSISection :=
  {| PSISection_CRC32 := 0; PSISection_Header := None; PSISection_Syntax := PSISection_Syntax (ex_td_section 0) |}.

Example to_data_runs :
  PSIData_toData unit 0 [ex_td_section 0; ex_td_section 1] (Some zero_Packet) 32 tt =
    Done ([demuxer_data zero_Packet 32 None None (Some {| PATData_Programs := []; PATData_TransportStreamID := 7 |}) None None None], tt) /\
  PSIData_toData unit 0 [ex_td_section 0; ex_td_headerless] (Some zero_Packet) 32 tt = Panicked.
Proof. vm_compute. split; reflexivity. Qed.
