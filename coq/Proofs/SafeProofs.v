(* C03 at the packet level: parsePacket never panics on a buffer of at least 188 bytes, whatever the bytes are,
   and the only errors it reports are the generic one and "must start with a sync byte" (so "skipped" can only
   come from the skipper).  The predicate [safe] is compositional: it holds of every iterator primitive called
   with a non-negative count and is preserved by bind. *)
From Coq Require Import ZArith List Lia Bool ZifyBool.
Require Import Base.Bits Base.Iter Gen.Consts Gen.Types Gen.Preds Model.Clock Model.Packet.
Import ListNotations.
Open Scope Z_scope.

Definition ok_code (c : Z) : Prop := c = E_generic \/ c = E_sync.

Definition safe {A} (m : IM A) (Q : A -> Prop) : Prop :=
  forall i, 0 <= ioff i -> bytes_ok (ibs i) ->
  match m i with
  | Panic => False
  | Err c => ok_code c
  | Ok (a, i') => Q a /\ 0 <= ioff i' /\ ibs i' = ibs i
  end.

Definition any {A} (_ : A) : Prop := True.
Definition is_byte (b : Z) : Prop := 0 <= b < 256.

Lemma safe_weaken {A} (m : IM A) (Q R : A -> Prop) : safe m Q -> (forall a, Q a -> R a) -> safe m R.
Proof.
  intros H HQ i Hi Hb. specialize (H i Hi Hb). destruct (m i) as [[a i']|c|]; auto.
  destruct H as [H1 H2]. split; auto.
Qed.

Lemma safe_bind {A B} (m : IM A) (f : A -> IM B) Q R :
  safe m Q -> (forall a, Q a -> safe (f a) R) -> safe (ibind m f) R.
Proof.
  intros Hm Hf i Hi Hb. unfold ibind. specialize (Hm i Hi Hb).
  destruct (m i) as [[a i']|c|]; auto. destruct Hm as [Ha [Hi' Hbs]].
  specialize (Hf a Ha i' Hi' ltac:(rewrite Hbs; exact Hb)).
  destruct (f a i') as [[b i'']|c|]; auto. destruct Hf as [H1 [H2 H3]]. repeat split; auto. congruence.
Qed.

Lemma safe_iret {A} (a : A) (Q : A -> Prop) : Q a -> safe (iret a) Q.
Proof. intros H i Hi Hb. cbn. auto. Qed.

Lemma safe_ierr {A} c (Q : A -> Prop) : ok_code c -> safe (ierr c) Q.
Proof. intros H i Hi Hb. cbn. auto. Qed.

Lemma nth_bytes_ok bs k : bytes_ok bs -> is_byte (nth k bs 0).
Proof.
  intros H. revert k. induction H as [|b bs Hb _ IH]; intros k; destruct k; cbn; try (unfold is_byte; lia).
  - exact Hb.
  - apply IH.
Qed.

Lemma safe_next_byte : safe next_byte is_byte.
Proof.
  intros i Hi Hb. unfold next_byte. destruct (ilen i <? ioff i + 1); [left; reflexivity|].
  destruct (ioff i <? 0) eqn:E; [lia|]. cbn [ibs ioff]. split; [apply nth_bytes_ok; exact Hb|split; [lia|reflexivity]].
Qed.

Lemma In_firstn {A} (x : A) n l : In x (firstn n l) -> In x l.
Proof. revert l. induction n as [|n IH]; intros l H; [contradiction|]. destruct l; [contradiction|]. destruct H; [left; assumption|right; auto]. Qed.
Lemma In_skipn {A} (x : A) n l : In x (skipn n l) -> In x l.
Proof. revert l. induction n as [|n IH]; intros l H; [exact H|]. destruct l; [contradiction|]. right; auto. Qed.

Lemma bytes_ok_slice bs a b : bytes_ok bs -> bytes_ok (slice bs a b).
Proof.
  intros H. unfold slice, bytes_ok in *. apply Forall_forall. intros x Hx.
  apply In_firstn, In_skipn in Hx. rewrite Forall_forall in H. auto.
Qed.

Lemma safe_next_bytes n : 0 <= n -> safe (next_bytes n) bytes_ok.
Proof.
  intros Hn i Hi Hb. unfold next_bytes. destruct (ilen i <? ioff i + n); [left; reflexivity|].
  destruct (n <? 0) eqn:E; [lia|]. destruct (ioff i <? 0) eqn:E2; [lia|]. cbn [ibs ioff].
  split; [apply bytes_ok_slice; exact Hb|split; [lia|reflexivity]].
Qed.

Lemma safe_next_bytes_nocopy n : 0 <= n -> safe (next_bytes_nocopy n) bytes_ok.
Proof. exact (safe_next_bytes n). Qed.

Lemma safe_iseek n : 0 <= n -> safe (iseek n) any.
Proof. intros Hn i Hi Hb. cbn. unfold any. auto. Qed.

Lemma safe_iskip n : 0 <= n -> safe (iskip n) any.
Proof. intros Hn i Hi Hb. cbn. unfold any. repeat split; auto; lia. Qed.

Lemma safe_ioffset : safe ioffset (fun o => 0 <= o).
Proof. intros i Hi Hb. cbn. auto. Qed.

Lemma safe_ilength : safe ilength (fun l => 0 <= l).
Proof. intros i Hi Hb. cbn. unfold ilen. repeat split; auto; lia. Qed.

Lemma safe_idump : safe idump bytes_ok.
Proof.
  intros i Hi Hb. unfold idump. destruct (negb (ioff i <? ilen i)); [cbn; repeat split; auto; constructor|].
  destruct (ioff i <? 0) eqn:E; [lia|]. cbn [ibs ioff]. unfold ilen.
  split; [|split; [lia|reflexivity]]. unfold bytes_ok in *. apply Forall_forall. intros x Hx. apply In_skipn in Hx. rewrite Forall_forall in Hb. auto.
Qed.

(* a byte is read and given back: `b <- next_byte ;; iskip (-1) ;;; k b` *)
Lemma safe_peek {A} (k : Z -> IM A) Q : (forall b, is_byte b -> safe (k b) Q) ->
  safe (ibind next_byte (fun b => ibind (iskip (-1)) (fun _ => k b))) Q.
Proof.
  intros Hk i Hi Hb. unfold ibind at 1. pose proof (safe_next_byte i Hi Hb) as H.
  destruct (next_byte i) as [[b i1]|c|] eqn:E; auto. destruct H as [Hbyte [Hi1 Hbs]].
  unfold ibind, iskip. cbn [ibs ioff].
  apply next_byte_ok in E. destruct E as [_ [E1 [E2 _]]].
  specialize (Hk b Hbyte (mk_iter (ibs i1) (ioff i1 + -1)) ltac:(cbn; lia) ltac:(cbn; rewrite E1; exact Hb)).
  destruct (k b (mk_iter (ibs i1) (ioff i1 + -1))) as [[a i2]|c|]; auto.
  destruct Hk as [H1 [H2 H3]]. cbn [ibs] in H3. repeat split; auto. congruence.
Qed.

Lemma safe_when {A} (c : bool) (m : IM A) (d : A) Q : safe m Q -> Q d -> safe (when c m d) Q.
Proof. intros. unfold when. destruct c; [assumption|apply safe_iret; assumption]. Qed.

Ltac safe_step :=
  first
    [ apply safe_iret; try exact I; try (unfold any; exact I)
    | apply safe_next_byte
    | apply safe_ioffset
    | apply safe_ilength
    | apply safe_idump
    | apply safe_ierr; (left; reflexivity) || (right; reflexivity)
    | eapply safe_bind; [|intros ? ?] ].

(* ---- the packet parser ---- *)

Lemma safe_parse_pcr : safe parse_pcr any.
Proof.
  unfold parse_pcr. eapply safe_bind; [apply safe_next_bytes_nocopy; lia|]. intros bs _. apply safe_iret. exact I.
Qed.

Lemma safe_parse_pts_or_dts : safe parse_pts_or_dts any.
Proof.
  unfold parse_pts_or_dts. eapply safe_bind; [apply safe_next_bytes_nocopy; lia|]. intros bs _. apply safe_iret. exact I.
Qed.

Lemma safe_parse_packet_header : safe parse_packet_header any.
Proof.
  unfold parse_packet_header. eapply safe_bind; [apply safe_next_bytes_nocopy; lia|]. intros bs _. apply safe_iret. exact I.
Qed.

Lemma safe_parse_af_extension : safe parse_af_extension any.
Proof.
  unfold parse_af_extension. eapply safe_bind; [apply safe_next_byte|]. intros len Hlen.
  destruct (len >? 0); [|apply safe_iret; exact I].
  eapply safe_bind; [apply safe_next_byte|]. intros fl _.
  eapply safe_bind; [apply (safe_when _ _ _ any); [eapply safe_weaken; [apply safe_next_bytes_nocopy; lia|intros; exact I]|exact I]|]. intros ltw _.
  eapply safe_bind; [apply (safe_when _ _ _ any); [eapply safe_weaken; [apply safe_next_bytes_nocopy; lia|intros; exact I]|exact I]|]. intros pr _.
  eapply (safe_bind _ _ any).
  - destruct (bitb [fl] 2).
    + apply safe_peek. intros b2 _. eapply safe_bind; [apply safe_parse_pts_or_dts|]. intros d _. apply safe_iret. exact I.
    + apply safe_iret. exact I.
  - intros [st dts] _. apply safe_iret. exact I.
Qed.

Lemma safe_parse_af : safe parse_packet_adaptation_field (fun a => 0 <= PacketAdaptationField_Length a).
Proof.
  unfold parse_packet_adaptation_field. eapply safe_bind; [apply safe_next_byte|]. intros len Hlen.
  eapply safe_bind; [apply safe_ioffset|]. intros afStart _.
  destruct (len >? 0); [|apply safe_iret; cbn; lia].
  eapply safe_bind; [apply safe_next_byte|]. intros fl _.
  eapply (safe_bind _ _ any).
  { destruct (bitb [fl] 3); [eapply safe_bind; [apply safe_parse_pcr|intros; apply safe_iret; exact I]|apply safe_iret; exact I]. }
  intros pcr _. eapply (safe_bind _ _ any).
  { destruct (bitb [fl] 4); [eapply safe_bind; [apply safe_parse_pcr|intros; apply safe_iret; exact I]|apply safe_iret; exact I]. }
  intros opcr _. eapply (safe_bind _ _ any).
  { apply safe_when; [eapply safe_weaken; [apply safe_next_byte|intros; exact I]|exact I]. }
  intros sc _. eapply (safe_bind _ _ any).
  { destruct (bitb [fl] 6); [|apply safe_iret; exact I].
    eapply safe_bind; [apply safe_next_byte|]. intros l Hl.
    eapply (safe_bind _ _ any).
    - apply safe_when; [eapply safe_weaken; [apply safe_next_bytes; unfold is_byte in Hl; lia|intros; exact I]|exact I].
    - intros d _. apply safe_iret. exact I. }
  intros [tpdl tpd] _. eapply (safe_bind _ _ any).
  { destruct (bitb [fl] 7); [eapply safe_bind; [apply safe_parse_af_extension|intros; apply safe_iret; exact I]|apply safe_iret; exact I]. }
  intros ext _. eapply safe_bind; [apply safe_ioffset|]. intros off _. apply safe_iret. cbn. unfold is_byte in Hlen. lia.
Qed.

(* the buffer holds at least 188 bytes (the Demuxer's packet size is 188 or more) *)
Definition long_enough (i : iter) : Prop := C_MpegTsPacketSize <= ilen i.

Lemma parse_packet_head_safe i : ioff i = 0 -> bytes_ok (ibs i) -> long_enough i ->
  match parse_packet_head i with
  | Panic => False
  | Err c => ok_code c
  | Ok ((p0, off), i') => 0 <= off /\ 0 <= ioff i' /\ ibs i' = ibs i /\
                          (match Packet_AdaptationField p0 with Some a => 0 <= PacketAdaptationField_Length a | None => True end)
  end.
Proof.
  intros Hoff Hb Hlen.
  assert (S : safe (b <- next_byte ;;
                    (if negb (b =? syncByte) then ierr E_sync else
                     len <- ilength ;;
                     (if C_MpegTsPacketSize <=? len then
                     iseek (len - C_MpegTsPacketSize + 1) ;;;
                     offsetStart <- ioffset ;;
                     h <- parse_packet_header ;;
                     af <- (if PacketHeader_HasAdaptationField h then a <- parse_packet_adaptation_field ;; iret (Some a) else iret None) ;;
                     iret ({| Packet_AdaptationField := af; Packet_Header := h; Packet_Payload := [] |}, offsetStart)
                     else ierr E_generic)))%iter
                  (fun x => 0 <= snd x /\ match Packet_AdaptationField (fst x) with Some a => 0 <= PacketAdaptationField_Length a | None => True end)).
  { eapply safe_bind; [apply safe_next_byte|]. intros b _.
    destruct (negb (b =? syncByte)); [apply safe_ierr; right; reflexivity|].
    eapply safe_bind; [apply safe_ilength|]. intros len Hl.
    destruct (C_MpegTsPacketSize <=? len) eqn:E; [|apply safe_ierr; left; reflexivity].
    eapply safe_bind; [apply safe_iseek; lia|]. intros _ _.
    eapply safe_bind; [apply safe_ioffset|]. intros off Ho.
    eapply safe_bind; [apply safe_parse_packet_header|]. intros h _.
    eapply (safe_bind _ _ (fun af => match af with Some a => 0 <= PacketAdaptationField_Length a | None => True end)).
    - destruct (PacketHeader_HasAdaptationField h).
      + eapply safe_bind; [apply safe_parse_af|]. intros a Ha. apply safe_iret. exact Ha.
      + apply safe_iret. exact I.
    - intros af Haf. apply safe_iret. cbn. auto. }
  specialize (S i ltac:(lia) Hb).
  (* the model's parse_packet_head has no length test: with long_enough it takes the same branch *)
  match type of S with match ?M i with _ => _ end => assert (Heq : parse_packet_head i = M i) end.
  { unfold parse_packet_head, ibind. destruct (next_byte i) as [[b i1]|c|] eqn:E1; try reflexivity.
    destruct (negb (b =? syncByte)); [reflexivity|].
    apply next_byte_ok in E1. destruct E1 as [_ [Ebs [Eoff _]]].
    unfold ilength. 
    assert (Hl : (C_MpegTsPacketSize <=? ilen i1) = true).
    { unfold long_enough, ilen in *. rewrite Ebs. lia. }
    rewrite Hl. reflexivity. }
  rewrite Heq.
  match type of S with match ?X with _ => _ end => destruct X as [[[p0 off] i']|c|] end; auto.
  cbn [fst snd] in S. destruct S as [[S1 S2] [S3 S4]]. auto.
Qed.

(* C03 (packet level): parsePacket never panics, with or without a skipper, and reports only generic / sync /
   skipped errors *)
Theorem parse_packet_no_panic skip bs : bytes_ok bs -> C_MpegTsPacketSize <= Z.of_nat (length bs) ->
  match run_iter (parse_packet skip) bs with
  | Panic => False
  | Err c => ok_code c \/ c = E_skipped
  | Ok _ => True
  end.
Proof.
  intros Hb Hlen. unfold run_iter, parse_packet, ibind.
  pose proof (parse_packet_head_safe (new_iter bs) eq_refl Hb Hlen) as H.
  destruct (parse_packet_head (new_iter bs)) as [[[p0 off] i']|c|]; cbn [res_map]; auto.
  destruct H as [Hoff [Hi' [Hbs Haf]]].
  destruct (skip p0); [cbn; right; reflexivity|].
  unfold parse_packet_tail. destruct (PacketHeader_HasPayload (Packet_Header p0)); [|cbn; exact I].
  unfold ibind, iseek. cbn [ibs ioff].
  assert (Hpo : 0 <= payloadOffset off (Packet_Header p0) (odflt zero_PacketAdaptationField (Packet_AdaptationField p0))).
  { unfold payloadOffset. destruct (PacketHeader_HasAdaptationField (Packet_Header p0)); [|lia].
    destruct (Packet_AdaptationField p0); cbn [odflt]; [lia|cbn; lia]. }
  pose proof (idump_no_panic (mk_iter (ibs i') (payloadOffset off (Packet_Header p0) (odflt zero_PacketAdaptationField (Packet_AdaptationField p0)))) Hpo) as Hd.
  destruct (idump _) as [[pl i'']|c|] eqn:Ed; cbn; auto.
  unfold idump in Ed. destruct (negb _); [discriminate|]. destruct (_ <? 0); discriminate.
Qed.

(* without a skipper the "skipped" error never appears *)
Corollary parse_packet_no_skip_codes bs c : bytes_ok bs -> C_MpegTsPacketSize <= Z.of_nat (length bs) ->
  run_iter (parse_packet no_skip) bs = Err c -> ok_code c.
Proof.
  intros Hb Hlen E. unfold run_iter, parse_packet, ibind in E.
  pose proof (parse_packet_head_safe (new_iter bs) eq_refl Hb Hlen) as H.
  destruct (parse_packet_head (new_iter bs)) as [[[p0 off] i']|c'|]; cbn [res_map] in E; try discriminate.
  - unfold no_skip in E. unfold parse_packet_tail in E.
    destruct (PacketHeader_HasPayload (Packet_Header p0)); [|discriminate].
    unfold ibind, iseek in E. cbn [ibs ioff] in E.
    destruct (idump _) as [[pl i'']|c''|] eqn:Ed; cbn in E; try discriminate.
    unfold idump in Ed. destruct (negb _); [discriminate|]. destruct (_ <? 0); discriminate.
  - inversion E; subst. exact H.
Qed.
