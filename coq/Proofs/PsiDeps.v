(* Facts about Model/Desc.v and Model/Dvb.v that the PSI proofs take as premises, discharged here for the
   models currently in the tree, so that the theorems of Props/C09.v and Props/C13.v are closed.
   If one of these models is replaced and a proof below no longer goes through, the premise versions in
   Proofs/PsiProofs.v (Section variables) remain valid; only this file needs a new proof. *)
From Coq Require Import ZArith List Lia Bool ZifyBool.
Require Import Base.Bits Base.Iter Base.Wr Gen.Consts Gen.Types Gen.Preds Model.Packet Model.Desc Model.Dvb Model.Psi.
Require Import Proofs.PsiProofs.
Import ListNotations.
Open Scope Z_scope.
Open Scope iter_scope.

Lemma keeps_ipanic {A} : keeps (@ipanic A).
Proof. intros i a i' H. discriminate. Qed.

Lemma keeps_iloop_fuel {A} (item : IM A) : keeps item -> forall fuel e, keeps (iloop_fuel fuel e item).
Proof. intros Hi. induction fuel as [|k IH]; intros e; cbn [iloop_fuel]; keeps_tac. apply IH. Qed.

Lemma keeps_iloop {A} (item : IM A) e : keeps item -> keeps (iloop e item).
Proof. intros Hi. unfold iloop. keeps_tac. apply keeps_iloop_fuel. exact Hi. Qed.

Ltac keeps_desc := repeat first [ apply keeps_iloop | apply keeps_iloop_fuel | apply keeps_ipanic | keeps_step ].

Lemma keeps_dvb_duration_seconds : keeps parse_dvb_duration_seconds.
Proof. unfold parse_dvb_duration_seconds. keeps_tac. Qed.
Lemma keeps_dvb_duration_minutes : keeps parse_dvb_duration_minutes.
Proof. unfold parse_dvb_duration_minutes. keeps_tac. Qed.
Lemma keeps_dvb_time : keeps parse_dvb_time.
Proof. unfold parse_dvb_time. keeps_tac. Qed.

Lemma keeps_parse_descriptors : keeps parse_descriptors.
Proof.
  unfold parse_descriptors, parse_descriptors_with. Time keeps_desc.
Qed.

(* ---------- the CRC gate, closed, against the bitwise CRC-32/MPEG-2 of Spec/CrcSpec.v ---------- *)
Require Import Spec.CrcSpec Proofs.CrcProofs.

Theorem gate_data_closed bs d : parse_psi_data_bytes bs = Ok d -> Forall (gated bs) (PSIData_Sections d).
Proof. apply gate_data; [exact keeps_parse_descriptors | exact keeps_dvb_time | exact keeps_dvb_duration_seconds]. Qed.

Theorem gate_spec bs d s h : bytes_ok bs -> parse_psi_data_bytes bs = Ok d -> In s (PSIData_Sections d) ->
  PSISection_Header s = Some h -> PSITableID_hasCRC32 (PSISectionHeader_TableID h) = true ->
  PSISection_Syntax s <> None ->
  exists a, let e := a + 3 + PSISectionHeader_SectionLength h - 4 in
    0 <= a /\ a <= e /\ e + 4 <= Z.of_nat (length bs) /\ nth (Z.to_nat a) bs 0 = PSISectionHeader_TableID h /\
    crc32_mpeg2 (slice bs a e) = Iter.be32 (slice bs e (e + 4)) /\
    PSISection_CRC32 s = crc32_mpeg2 (slice bs a e).
Proof.
  intros Hb Hp Hin Hh Hc Hs. pose proof (gate_data_closed bs d Hp) as F. rewrite Forall_forall in F.
  destruct (F s Hin h Hh Hc Hs) as (a & A1 & A2 & A3 & A4 & A5 & A6). exists a. cbn zeta in *.
  assert (E : computeCRC32 (slice bs a (a + 3 + PSISectionHeader_SectionLength h - 4)) =
              crc32_mpeg2 (slice bs a (a + 3 + PSISectionHeader_SectionLength h - 4))).
  { apply compute_eq. apply Forall_slice. exact Hb. }
  rewrite <- E. repeat split; try assumption. congruence.
Qed.

(* every table toData hands on comes from a section that passed the gate *)
Theorem delivered_implies_crc bs d fp pid dd : bytes_ok bs -> parse_psi_data_bytes bs = Ok d ->
  In dd (psi_to_data d fp pid) ->
  exists s h a, In s (PSIData_Sections d) /\ In dd (section_to_data s fp pid) /\ PSISection_Header s = Some h /\
    let e := a + 3 + PSISectionHeader_SectionLength h - 4 in
    0 <= a /\ a <= e /\ e + 4 <= Z.of_nat (length bs) /\ nth (Z.to_nat a) bs 0 = PSISectionHeader_TableID h /\
    crc32_mpeg2 (slice bs a e) = Iter.be32 (slice bs e (e + 4)).
Proof.
  intros Hb Hp Hin. destruct (psi_to_data_origin _ _ _ _ Hin) as (s & h & H1 & H2 & H3 & H4 & H5).
  destruct (gate_spec bs d s h Hb Hp H1 H3 H5 H4) as (a & A). exists s, h, a. cbn zeta in *. tauto.
Qed.
