(* C06, packet loss: on one PID (not treated as PSI) whose loss-free packet sequence has consecutive continuity
   counters, deleting runs of fewer than 16 packets never makes the accumulator flush a group that skips a
   position of the loss-free stream: every flushed group is a run of consecutive positions, continued by the
   (PUSI) packet that flushed it.  Packets are annotated with their position in the loss-free stream. *)
From Coq Require Import ZArith List Lia Bool ZifyBool.
Require Import Base.Bits Base.Iter Gen.Consts Gen.Types Gen.Preds Model.Pool Model.PoolRun.
Import ListNotations.
Open Scope Z_scope.

Notation apkt := (Z * Packet)%type (only parsing).   (* position in the loss-free stream, packet *)

(* packetAccumulator.add on annotated packets: the same decisions, taken on the packets alone *)
Definition acc_add_a (pm : pmap) (x : Z) (q : list apkt) (e : apkt) : list apkt * list apkt :=
  let p := snd e in
  let qs := map snd q in
  if isSameAsPrevious qs p then (q, []) else
  let q1 := if resets qs p then [] else q in
  let '(ps, q2) := if pusi p then (q1, []) else ([], q1) in
  let q3 := q2 ++ [e] in
  if (Z.eqb x C_PIDPAT || pm_mem pm x) && is_psi_complete (map snd q3) then ([], q3) else (q3, ps).

Lemma acc_add_a_erase pm x q e :
  (map snd (fst (acc_add_a pm x q e)), map snd (snd (acc_add_a pm x q e))) = acc_add pm x (map snd q) (snd e).
Proof.
  unfold acc_add_a, acc_add. destruct (isSameAsPrevious (map snd q) (snd e)); [reflexivity|].
  assert (G : forall q2 ps : list apkt,
    (map snd (fst (if ((x =? C_PIDPAT) || pm_mem pm x) && is_psi_complete (map snd (q2 ++ [e])) then ([], q2 ++ [e]) else (q2 ++ [e], ps))),
     map snd (snd (if ((x =? C_PIDPAT) || pm_mem pm x) && is_psi_complete (map snd (q2 ++ [e])) then ([], q2 ++ [e]) else (q2 ++ [e], ps)))) =
    (if ((x =? C_PIDPAT) || pm_mem pm x) && is_psi_complete (map snd q2 ++ [snd e]) then ([], map snd q2 ++ [snd e]) else (map snd q2 ++ [snd e], map snd ps))).
  { intros q2 ps. rewrite map_app. cbn [map].
    destruct (((x =? C_PIDPAT) || pm_mem pm x) && is_psi_complete (map snd q2 ++ [snd e])); cbn [fst snd map]; rewrite ?map_app; reflexivity. }
  destruct (resets (map snd q) (snd e)); destruct (pusi (snd e)); apply G.
Qed.

(* a flush event: the group and the annotated packet that caused it *)
Fixpoint acc_run_a (pm : pmap) (x : Z) (q : list apkt) (es : list apkt) : list apkt * list (list apkt * apkt) :=
  match es with
  | [] => (q, [])
  | e :: r =>
      let '(q1, g) := acc_add_a pm x q e in
      let '(q2, gs) := acc_run_a pm x q1 r in
      (q2, match g with [] => gs | _ => (g, e) :: gs end)
  end.

(* erasing the annotations gives the accumulator run of Model/PoolRun.v *)
Lemma acc_run_a_erase pm x es : forall q, Forall (fun e => relevant x (snd e) = true) es ->
  map (fun ev => (x, map snd (fst ev))) (snd (acc_run_a pm x q es)) =
  snd (acc_run x (map snd q) (map (fun e => (pm, snd e)) es)) /\
  map snd (fst (acc_run_a pm x q es)) = fst (acc_run x (map snd q) (map (fun e => (pm, snd e)) es)).
Proof.
  induction es as [|e r IH]; intros q Hrel; [split; reflexivity|].
  inversion Hrel as [|? ? He Hr]; subst. cbn [acc_run_a acc_run map snd]. rewrite He.
  pose proof (acc_add_a_erase pm x q e) as E.
  destruct (acc_add_a pm x q e) as [q1 g]. cbn [fst snd] in E.
  destruct (acc_add pm x (map snd q) (snd e)) as [q1' g']. inversion E; subst.
  specialize (IH q1 Hr). destruct (acc_run_a pm x q1 r) as [q2 gs].
  destruct (acc_run x (map snd q1) (map (fun e0 => (pm, snd e0)) r)) as [q2' gs']. cbn [fst snd] in *.
  destruct IH as [IH1 IH2]. split; [|exact IH2].
  destruct g as [|a g]; cbn [map cons_group]; [exact IH1|]. cbn [map fst]. f_equal. exact IH1.
Qed.

(* ---- the loss-free stream and what is received of it ---- *)

Definition no_disc_flag (p : Packet) : Prop :=
  andb (PacketHeader_HasAdaptationField (Packet_Header p))
       (PacketAdaptationField_DiscontinuityIndicator (odflt zero_PacketAdaptationField (Packet_AdaptationField p))) = false.

(* a received packet sits at its position of a stream whose counters are consecutive: cc = (c0 + position) mod 16 *)
Definition on_stream (c0 : Z) (e : apkt) : Prop :=
  cc_of (snd e) = (c0 + fst e) mod 16 /\ has_payload (snd e) = true /\ (no_disc_flag (snd e) \/ pusi (snd e) = true).

(* positions increase; fewer than 16 packets are lost in a row (the next position is at most 16 further); and a packet
   that follows a loss of exactly 15 is not byte-identical to the last packet received before the loss
   (otherwise it IS a duplicate in the sense of ISO 13818-1 2.4.3.3 and no receiver can tell) *)
Definition follows (pe e : apkt) : Prop :=
  fst pe < fst e <= fst pe + 16 /\ (fst e = fst pe + 16 -> isSameAsPrevious [snd pe] (snd e) = false).

Fixpoint received_ok (prev : option apkt) (es : list apkt) : Prop :=
  match es with
  | [] => True
  | e :: r => match prev with None => True | Some pe => follows pe e end /\ received_ok (Some e) r
  end.

(* a run: consecutive positions *)
Fixpoint run (l : list apkt) : Prop :=
  match l with
  | [] => True
  | e :: r => match r with [] => True | e' :: _ => fst e' = fst e + 1 end /\ run r
  end.
(* every packet but the first has payload_unit_start_indicator = 0 *)
Definition inner_non_pusi (l : list apkt) : Prop := Forall (fun e => pusi (snd e) = false) (tl l).

Lemma run_snoc l pe e : run (l ++ [pe]) -> fst e = fst pe + 1 -> run ((l ++ [pe]) ++ [e]).
Proof.
  induction l as [|a l IH]; intros Hr He.
  - cbn [app run]. auto.
  - cbn [app] in *. destruct (l ++ [pe]) as [|b l'] eqn:El; [destruct l; discriminate|].
    cbn [run] in Hr. destruct Hr as [Hab Hr]. cbn [app run]. split; [exact Hab|]. exact (IH Hr He).
Qed.

Lemma inner_non_pusi_snoc l e : l <> [] -> inner_non_pusi l -> pusi (snd e) = false -> inner_non_pusi (l ++ [e]).
Proof.
  intros Hl H He. unfold inner_non_pusi in *. destruct l as [|a l]; [contradiction|].
  cbn [app tl] in *. apply Forall_app. split; [exact H|]. constructor; [exact He|constructor].
Qed.

Lemma mod16_step a b : 0 < b - a <= 16 -> ((a mod 16 + 1) mod 256) mod 16 = b mod 16 -> b = a + 1.
Proof.
  intros H E.
  assert (0 <= a mod 16 < 16) by (apply Z.mod_pos_bound; lia).
  rewrite (Z.mod_small (a mod 16 + 1) 256) in E by lia.
  rewrite Zplus_mod_idemp_l in E.
  assert (E2 : (b - (a + 1)) mod 16 = 0).
  { rewrite Zminus_mod, <- E, Z.sub_diag. reflexivity. }
  apply Z.mod_divide in E2; [|lia]. destruct E2 as [k Hk]. lia.
Qed.

Lemma mod16_same a b : 0 < b - a <= 16 -> a mod 16 = b mod 16 -> b = a + 16.
Proof.
  intros H E.
  assert (E2 : (b - a) mod 16 = 0) by (rewrite Zminus_mod, E, Z.sub_diag; reflexivity).
  apply Z.mod_divide in E2; [|lia]. destruct E2 as [k Hk]. lia.
Qed.

Lemma last_of_snoc (q' : list apkt) (pe : apkt) :
  nth (Z.to_nat (Z.of_nat (length (map snd (q' ++ [pe]))) - 1)) (map snd (q' ++ [pe])) zero_Packet = snd pe /\
  (Z.of_nat (length (map snd (q' ++ [pe]))) >? 0) = true.
Proof.
  rewrite map_app, app_length. cbn [map length].
  replace (Z.to_nat (Z.of_nat (length (map snd q') + 1) - 1)) with (length (map snd q')) by lia.
  rewrite app_nth2 by lia. rewrite Nat.sub_diag. split; [reflexivity|lia].
Qed.

(* the state kept along a run of received packets: the queue is empty, or a run of consecutive positions
   ending with the packet received last *)
Definition acc_inv (c0 : Z) (q : list apkt) (prev : option apkt) : Prop :=
  Forall (on_stream c0) q /\ run q /\ inner_non_pusi q /\
  (q = [] \/ exists pe q', prev = Some pe /\ q = q' ++ [pe]).

Lemma acc_add_a_step pm x c0 q e prev :
  (Z.eqb x C_PIDPAT || pm_mem pm x) = false ->
  on_stream c0 e -> acc_inv c0 q prev ->
  match prev with None => True | Some pe => follows pe e end ->
  let '(q1, g) := acc_add_a pm x q e in
  acc_inv c0 q1 (Some e) /\
  (g <> [] -> run (g ++ [e]) /\ inner_non_pusi g /\ pusi (snd e) = true /\ Forall (on_stream c0) g).
Proof.
  intros Hn He [Hall [Hrun [Hinner Hq]]] Hprev. unfold acc_add_a. rewrite Hn. cbn [andb].
  pose proof He as [Hcc [Hpay Hdi]].
  assert (Hsingle : acc_inv c0 [e] (Some e)).
  { repeat split; [constructor; [exact He|constructor] | constructor | right; exists e, []; auto]. }
  (* the duplicate test never fires: an equal counter means a distance of 16, where the packets differ *)
  assert (Hsame : isSameAsPrevious (map snd q) (snd e) = false).
  { destruct Hq as [->|[pe [q' [-> ->]]]]; [reflexivity|].
    destruct Hprev as [Hrange H16]. destruct (last_of_snoc q' pe) as [Hnth Hlen].
    unfold isSameAsPrevious in *. rewrite Hnth, Hlen.
    cbn [length] in H16. change (Z.to_nat (Z.of_nat 1 - 1)) with 0%nat in H16. cbn [nth] in H16.
    change (Z.of_nat 1 >? 0) with true in H16.
    destruct (PacketHeader_ContinuityCounter (Packet_Header (snd e)) =? PacketHeader_ContinuityCounter (Packet_Header (snd pe))) eqn:Ecc.
    - assert (Hpe : on_stream c0 pe) by (rewrite Forall_app in Hall; destruct Hall as [_ Hl]; inversion Hl; assumption).
      destruct Hpe as [Hcc' _]. unfold cc_of in *. pose proof Ecc as Ecc2. apply Z.eqb_eq in Ecc2. rewrite Hcc, Hcc' in Ecc2.
      assert (fst e = fst pe + 16).
      { pose proof (mod16_same (c0 + fst pe) (c0 + fst e) ltac:(lia) (eq_sym Ecc2)). lia. }
      specialize (H16 H). exact H16.
    - rewrite !andb_false_r. reflexivity. }
  rewrite Hsame.
  (* no reset means the packet is at the next position *)
  assert (Hdisc : resets (map snd q) (snd e) = false ->
                  q = [] \/ exists pe q', q = q' ++ [pe] /\ fst e = fst pe + 1).
  { intros Hd. destruct Hq as [->|[pe [q' [-> ->]]]]; [left; reflexivity|]. right. exists pe, q'. split; [reflexivity|].
    destruct Hprev as [Hrange _]. destruct (last_of_snoc q' pe) as [Hnth Hlen].
    assert (Hcd : hasCounterDiscontinuity (map snd (q' ++ [pe])) (snd e) = false).
    { destruct (hasCounterDiscontinuity (map snd (q' ++ [pe])) (snd e)) eqn:Ec; [|reflexivity].
      unfold resets, hasDiscontinuity in Hd. rewrite Ec in Hd. rewrite !orb_true_r in Hd. discriminate. }
    unfold hasCounterDiscontinuity in Hcd. rewrite Hnth, Hlen in Hcd.
    unfold has_payload in Hpay. rewrite Hpay in Hcd. cbn [andb negb orb] in Hcd.
    rewrite orb_false_r in Hcd. apply negb_false_iff, Z.eqb_eq in Hcd.
    assert (Hpe : on_stream c0 pe) by (rewrite Forall_app in Hall; destruct Hall as [_ Hl]; inversion Hl; assumption).
    destruct Hpe as [Hcc' _]. unfold cc_of in *. rewrite Hcc, Hcc' in Hcd.
    pose proof (mod16_step (c0 + fst pe) (c0 + fst e) ltac:(lia) (eq_sym Hcd)). lia. }
  destruct (resets (map snd q) (snd e)) eqn:Ed.
  - (* discontinuity: the queue is dropped, nothing is flushed *)
    destruct (pusi (snd e)); cbn [app]; (split; [exact Hsingle | intros H; contradiction]).
  - destruct (Hdisc eq_refl) as [->|[pe [q' [-> Hnext]]]].
    + destruct (pusi (snd e)); cbn [app]; (split; [exact Hsingle | intros H; contradiction]).
    + destruct (pusi (snd e)) eqn:Ep; cbn [app].
      * (* the packet starts a unit: the queue is flushed *)
        split; [exact Hsingle|]. intros _. repeat split.
        -- apply run_snoc; assumption.
        -- exact Hinner.
        -- exact Hall.
      * split; [|intros H; contradiction].
        repeat split.
        -- apply Forall_app. split; [exact Hall|constructor; [exact He|constructor]].
        -- apply run_snoc; assumption.
        -- apply inner_non_pusi_snoc; [destruct q'; discriminate|exact Hinner|exact Ep].
        -- right. exists e, (q' ++ [pe]). auto.
Qed.

(* every flush event of a whole run *)
Theorem loss_no_splice pm x c0 es : forall q prev,
  (Z.eqb x C_PIDPAT || pm_mem pm x) = false ->
  Forall (on_stream c0) es -> acc_inv c0 q prev -> received_ok prev es ->
  Forall (fun ev => run (fst ev ++ [snd ev]) /\ inner_non_pusi (fst ev) /\ pusi (snd (snd ev)) = true /\
                    Forall (on_stream c0) (fst ev))
         (snd (acc_run_a pm x q es)) /\
  acc_inv c0 (fst (acc_run_a pm x q es)) (match rev es with [] => prev | e :: _ => Some e end).
Proof.
  induction es as [|e r IH]; intros q prev Hn Hall Hinv Hrec; [split; [constructor|exact Hinv]|].
  inversion Hall as [|? ? He Hr]; subst. destruct Hrec as [Hf Hrec].
  cbn [acc_run_a]. pose proof (acc_add_a_step pm x c0 q e prev Hn He Hinv Hf) as Hs.
  destruct (acc_add_a pm x q e) as [q1 g]. destruct Hs as [Hinv1 Hg].
  specialize (IH q1 (Some e) Hn Hr Hinv1 Hrec).
  destruct (acc_run_a pm x q1 r) as [q2 gs]. cbn [fst snd] in *. destruct IH as [IH1 IH2].
  split.
  - destruct g as [|a g]; [exact IH1|]. constructor; [|exact IH1]. cbn [fst snd].
    destruct (Hg ltac:(discriminate)) as [H1 [H2 [H3 H4]]]. auto.
  - cbn [rev]. destruct (rev r) as [|e' r'] eqn:Er; cbn [app]; exact IH2.
Qed.

(* a run whose positions are consecutive and that starts at position a is exactly positions a, a+1, ..., a+n-1 *)
Lemma run_positions l : run l -> forall a, (match l with [] => True | e :: _ => fst e = a end) ->
  map fst l = map (fun k => a + Z.of_nat k) (seq 0 (length l)).
Proof.
  induction l as [|e r IH]; intros Hr a Ha; [reflexivity|].
  cbn [map length seq]. f_equal; [lia|].
  destruct Hr as [Hn Hr]. rewrite <- seq_shift, map_map.
  rewrite (IH Hr (a + 1)).
  - apply map_ext. intros k. lia.
  - destruct r as [|e' r']; [exact I|]. lia.
Qed.

Theorem loss_no_splice_from_start pm x c0 es :
  (Z.eqb x C_PIDPAT || pm_mem pm x) = false ->
  Forall (on_stream c0) es -> received_ok None es ->
  Forall (fun ev => run (fst ev ++ [snd ev]) /\ inner_non_pusi (fst ev) /\ pusi (snd (snd ev)) = true /\
                    Forall (on_stream c0) (fst ev))
         (snd (acc_run_a pm x [] es)).
Proof.
  intros Hn Hall Hrec.
  refine (proj1 (loss_no_splice pm x c0 es [] None Hn Hall _ Hrec)).
  unfold acc_inv, inner_non_pusi. cbn [tl run]. repeat split; auto.
Qed.

Lemma gap_arith c k : 0 <= c < 16 -> 1 <= k < 16 ->
  (c + k + 1) mod 16 <> (c + 1) mod 16 /\ ((c + k + 1) mod 16 = c <-> k = 15).
Proof.
  intros Hc Hk. Ltac Zify.zify_post_hook ::= Z.div_mod_to_equations. lia.
Qed.
