(* demuxer.go NewDemuxer and the DemuxerOpt* options as regenerated (Gen/RestGen.v, Section NewDemuxer) against
   init_dstate of Model/Demux.v.

   The regenerated constructor is parametric in everything outside the models (context, logger, the types of the two
   callbacks) and in the callees newProgramMap / newPacketPool / astikit.AdaptStdLogger.  Instantiated with the model's
   types — io.Reader := reader, *packetBuffer := pbuf, *packetPool := pool, *programMap := the regenerated programMap
   over the association list (Proofs/RestGenPm.v), newProgramMap := the regenerated newProgramMap, newPacketPool := the
   empty pool (new_pool_m of Proofs/DemuxGenEq.v) — the state it builds is, for EVERY option list,
   init_dstate r size where size is what the last DemuxerOptPacketSize set (0 = auto-detection when there is none), its
   packets parser / packet skipper are what the last such option set (none by default), and no option touches the
   data buffer, the packet buffer, the pool, the program map or the reader.  A constructor that ignores the packet size
   option, applies the options before creating the pool or the map, or an option that writes another field breaks this
   proof. *)
From Coq Require Import ZArith List Bool.
Require Import Gen.Consts Gen.Types Gen.Preds Gen.RestGen Model.Pool Model.Reader Model.Demux Proofs.RestGenPm.
Import ListNotations.
Open Scope Z_scope.

Section NewDemuxerEq.
Variables PP PS : Type.   (* the Go types PacketsParser and PacketSkipper *)

Definition gdemuxer := @Demuxer unit unit PP PS pbuf pool (@programMap lmap) reader.
Definition gopt := @DemuxerOpt PP PS unit.

Definition g_adapt (_ : option unit) : unit := tt.
Definition g_new_pm : option (@programMap lmap) := Some (newProgramMap lm_make).
Definition g_new_pool (_ : option (@programMap lmap)) : option pool := Some [].

Definition new_demuxer (r : reader) (opts : list gopt) : gdemuxer :=
  NewDemuxer g_adapt g_new_pm g_new_pool tt r opts.

(* for _, opt := range opts { opt(d) }: what the last option of each kind set *)
Definition opts_packet_size (opts : list gopt) (d : Z) : Z :=
  fold_left (fun sz o => match o with DemuxerOptPacketSize n => n | _ => sz end) opts d.
Definition opts_parser (opts : list gopt) (d : option PP) : option PP :=
  fold_left (fun v o => match o with DemuxerOptPacketsParser p => p | _ => v end) opts d.
Definition opts_skipper (opts : list gopt) (d : option PS) : option PS :=
  fold_left (fun v o => match o with DemuxerOptPacketSkipper s => s | _ => v end) opts d.

(* the model state a regenerated Demuxer value stands for (the two ghost logs start empty) *)
Definition dstate_of (d : gdemuxer) : dstate :=
  mk_dstate (Demuxer_dataBuffer d) (Demuxer_packetBuffer d)
            (match Demuxer_packetPool d with Some pl => pl | None => [] end)
            (match Demuxer_programMap d with Some m => pm_alpha m | None => [] end)
            (Demuxer_r d) (Demuxer_optPacketSize d) [] [].

Lemma apply_opts (opts : list gopt) : forall d0 : gdemuxer,
  let d := fold_left (fun d_ o_ => DemuxerOpt_apply g_adapt o_ d_) opts d0 in
  Demuxer_dataBuffer d = Demuxer_dataBuffer d0 /\ Demuxer_packetBuffer d = Demuxer_packetBuffer d0 /\
  Demuxer_packetPool d = Demuxer_packetPool d0 /\ Demuxer_programMap d = Demuxer_programMap d0 /\
  Demuxer_r d = Demuxer_r d0 /\
  Demuxer_optPacketSize d = opts_packet_size opts (Demuxer_optPacketSize d0) /\
  Demuxer_optPacketsParser d = opts_parser opts (Demuxer_optPacketsParser d0) /\
  Demuxer_optPacketSkipper d = opts_skipper opts (Demuxer_optPacketSkipper d0).
Proof.
  induction opts as [|o r IH]; intro d0; [cbn; repeat split|].
  cbn [fold_left opts_packet_size opts_parser opts_skipper].
  specialize (IH (DemuxerOpt_apply g_adapt o d0)). cbn zeta in IH.
  destruct IH as (H1 & H2 & H3 & H4 & H5 & H6 & H7 & H8).
  unfold opts_packet_size, opts_parser, opts_skipper in *.
  rewrite H1, H2, H3, H4, H5, H6, H7, H8. destruct o; cbn; repeat split.
Qed.

Lemma new_demuxer_is_generated (r : reader) (opts : list gopt) :
  let d := new_demuxer r opts in
  dstate_of d = init_dstate r (opts_packet_size opts 0) /\
  Demuxer_optPacketSize d = opts_packet_size opts 0 /\
  Demuxer_optPacketsParser d = opts_parser opts None /\
  Demuxer_optPacketSkipper d = opts_skipper opts None /\
  Demuxer_dataBuffer d = [] /\ Demuxer_packetBuffer d = None /\ Demuxer_packetPool d = Some [] /\
  Demuxer_programMap d = Some (newProgramMap lm_make) /\ Demuxer_r d = r.
Proof.
  cbn zeta. unfold new_demuxer, NewDemuxer.
  match goal with |- context [fold_left _ opts ?d0] => pose proof (apply_opts opts d0) as H end.
  cbn zeta in H. destruct H as (H1 & H2 & H3 & H4 & H5 & H6 & H7 & H8).
  unfold dstate_of, init_dstate. rewrite H1, H2, H3, H4, H5, H6, H7, H8.
  cbn. repeat split.
Qed.

End NewDemuxerEq.

(* the packet size option alone, and the default *)
Lemma new_demuxer_packet_size (PP PS : Type) r n :
  dstate_of PP PS (new_demuxer PP PS r [DemuxerOptPacketSize n]) = init_dstate r n /\
  dstate_of PP PS (new_demuxer PP PS r []) = init_dstate r 0.
Proof. split; reflexivity. Qed.

(* options of every kind, the later one of a kind wins *)
Example new_demuxer_example (r : reader) :
  let d := new_demuxer nat nat r [DemuxerOptPacketSize 192; DemuxerOptPacketSkipper (Some 1%nat); DemuxerOptLogger tt;
                                  DemuxerOptPacketsParser (Some 2%nat); DemuxerOptPacketSize 204;
                                  DemuxerOptPacketSkipper None] in
  dstate_of nat nat d = init_dstate r 204 /\ Demuxer_optPacketsParser d = Some 2%nat /\ Demuxer_optPacketSkipper d = None.
Proof. cbn. repeat split. Qed.
