(* C01, muxer side of the history-level theorem: what a call's table emission looks like to the demuxer (payloads in the
   reference form of C13, the PMT size the Muxer checked), generic association lists for the pending data. *)
From Coq Require Import ZArith List Lia Bool ZifyBool Sorted.
Require Import Base.Bits Base.Iter Base.Wr Gen.Consts Gen.Types Gen.Preds Model.Packet Model.Desc Model.Psi Model.Pes Model.Muxer.
Require Import Spec.CrcSpec Spec.PsiSpec Spec.MuxSpec
  Proofs.PsiProofs Proofs.PsiParse Proofs.PsiParsePmt Proofs.PsiDescLink Proofs.PsiSiLink Proofs.MuxerProofs
  Proofs.RoundTripPkt Proofs.RoundTripUnit Proofs.RoundTripTables.
Import ListNotations.
Open Scope Z_scope.

(* ---------------- the version number is written in 5 bits ---------------- *)

Lemma syntax_header_mod ext v cni sn lsn :
  bytes_of_fields (spec_syntax_header ext v cni sn lsn) = bytes_of_fields (spec_syntax_header ext (v mod 32) cni sn lsn).
Proof.
  unfold bytes_of_fields, spec_syntax_header, bits_of_fields, field_bits. cbn [flat_map fst snd].
  change 32 with (2 ^ Z.of_nat 5). rewrite (bits_of_mod 5 v 5) by lia. reflexivity.
Qed.

Lemma pat_sec_mod v : pat_sec v = pat_sec (v mod 32).
Proof. unfold pat_sec, spec_pat_section, spec_pat_body. rewrite syntax_header_mod. reflexivity. Qed.

Lemma pmt_sec_mod pcr v xs : pmt_sec pcr v xs = pmt_sec pcr (v mod 32) xs.
Proof. unfold pmt_sec, spec_pmt_section, spec_pmt_body. rewrite syntax_header_mod. reflexivity. Qed.

(* ---------------- the PMT size check ---------------- *)

Lemma generate_pat_streams s : ms_streams (fst (generate_pat s)) = ms_streams s /\ ms_pcr_pid (fst (generate_pat s)) = ms_pcr_pid s.
Proof.
  unfold generate_pat. destruct (next_version _ _) as [patv version].
  destruct (write_psi_data _); cbn [fst]; try (split; reflexivity).
  destruct (write_packet _ _); cbn [fst]; split; reflexivity.
Qed.

Lemma generate_pmt_size s s2 x : generate_pmt s = (s2, Ok x) -> pmt_size (ms_streams s) <= 1012.
Proof.
  unfold generate_pmt. destruct (negb _); [intros H; inversion H|].
  destruct (pmt_size (ms_streams s) >? 1021 - 9) eqn:E; [intros H; inversion H|]. intros _. lia.
Qed.

Lemma write_tables_size s s' p : write_tables s = (s', p) -> pa_res p = Ok tt -> pmt_size (ms_streams s) <= 1012.
Proof.
  unfold write_tables. pose proof (generate_pat_streams s) as [Hst _].
  destruct (generate_pat s) as [s1 r1]. cbn [fst] in Hst.
  destruct r1 as [[ppat bpat]|c|]; try (intros H; inversion H; subst; cbn; discriminate).
  destruct (generate_pmt s1) as [s2 r2] eqn:E2.
  destruct r2 as [[ppmt bpmt]|c|]; try (intros H; inversion H; subst; cbn; discriminate).
  intros _ _. rewrite <- Hst. apply (generate_pmt_size _ _ _ E2).
Qed.

Lemma retransmit_size s f sr pt : retransmit_tables s f = (sr, pt) -> pa_res pt = Ok tt -> pa_pkts pt <> [] ->
  pmt_size (ms_streams s) <= 1012.
Proof.
  unfold retransmit_tables. cbn zeta. destruct (negb f && _).
  - intros H; inversion H; subst. cbn. congruence.
  - destruct (write_tables (set_retransmit s (ms_retransmit s + 1))) as [s2 p2] eqn:Ew.
    destruct p2 as [r2 n2 g2 k2]. destruct r2 as [u|c|]; intros H; inversion H; subst; cbn [pa_res pa_pkts]; try discriminate.
    intros _ _. apply (write_tables_size _ _ _ Ew). destruct u. reflexivity.
Qed.

Lemma step_tables_size s o s' p : ms_inv s -> op_entry_ok o -> mux_step_part s o = (s', p) -> pa_res p = Ok tt ->
  starts_with_tables (muxer_pkts o p) = true -> pmt_size (ms_streams s) <= 1012.
Proof.
  intros Hinv Hen Hstep Hok Hst.
  assert (Hnp : pa_res p <> Panic) by (rewrite Hok; discriminate).
  destruct o as [es|q|q| |d|pk]; cbn [mux_step_part muxer_pkts] in *.
  - unfold add_es in Hstep. destruct (negb _); [destruct (stream_pid_in _ _)|destruct (next_free_pid _ _ _)]; pinj Hstep; discriminate Hst.
  - unfold remove_es in Hstep. destruct (stream_pid_in _ _); pinj Hstep; discriminate Hst.
  - pinj Hstep. discriminate Hst.
  - apply (write_tables_size _ _ _ Hstep Hok).
  - destruct (write_data_spec _ _ _ _ Hstep Hnp Hen (inv_es_wf _ Hinv _)) as [(_ & _ & ->)|(ctx & sr & pt & _ & Hrt & Hnpt & Hcases)];
      [discriminate Hst|].
    destruct Hcases as [(c & Hc & _ & ->)|(Hokpt & k & up & ug & un & Hpk & _ & _ & Hall & _)]; [rewrite Hc in Hok; discriminate|].
    apply (retransmit_size _ _ _ _ Hrt Hokpt). intros Hnil. rewrite Hpk, Hnil in Hst. cbn [app] in Hst.
    rewrite (starts_with_tables_unit _ _ Hall) in Hst. discriminate.
  - discriminate Hst.
Qed.

(* ---------------- the emission as the demuxer-side lemmas take it ---------------- *)

Section Dom.
Variable D : list Descriptor -> list Z -> Prop.
Hypothesis D_parse : desc_premises D.
Hypothesis D_write : forall ds bytes, D ds bytes -> desc_bytes ds bytes.
Hypothesis D_nil : D [] [].
Hypothesis D_size : forall ds bytes, D ds bytes ->
  fold_left (fun k d => k + (2 + calc_descriptor_length d)) ds 0 = Z.of_nat (length bytes).

Lemma ok_eq {A} (a b : A) : Ok a = Ok b -> a = b.
Proof. intros H; inversion H; reflexivity. Qed.

Theorem emission_seen s s' pkts :
  Forall (stream_in_dom D) (ms_streams s) -> pmt_size (ms_streams s) <= 1012 -> emission s s' pkts ->
  exists xs cca ccb va vb rest,
    map stream_value xs = ms_streams s /\ Forall (stream_ok D) xs /\
    9 + Z.of_nat (length (flat_map stream_bytes xs)) + 4 < 4096 /\
    0 <= va < 32 /\ 0 <= vb < 32 /\ 0 <= ms_pcr_pid s < 2 ^ 13 /\
    pkts = table_packet C_PIDPAT cca (0 :: pat_sec va) ::
           table_packet C_pmtStartPID ccb (0 :: pmt_sec (ms_pcr_pid s) vb xs) :: rest.
Proof using D_write D_nil D_size.
  intros Hdom Hsize (ppay & mpay & rest & Hp & Hpat & Hpmt & Hpcr & _).
  destruct (streams_xs D _ Hdom) as (xs & Hxs & Hok).
  assert (Hfit : 9 + Z.of_nat (length (flat_map stream_bytes xs)) + 4 < 4096).
  { rewrite <- Hxs, (pmt_size_eq D D_size xs Hok) in Hsize. lia. }
  rewrite write_pat_payload in Hpat. apply ok_eq in Hpat.
  unfold pmt_section in Hpmt. rewrite <- Hxs, (write_pmt_payload D D_write D_nil _ _ xs Hok Hfit) in Hpmt. apply ok_eq in Hpmt.
  rewrite pat_sec_mod in Hpat. rewrite pmt_sec_mod in Hpmt.
  exists xs, (wrappingCounter_inc (ms_pat_cc s)), (wrappingCounter_inc (ms_pmt_cc s)),
         ((pat_ver s mod 256) mod 32), ((pmt_ver s mod 256) mod 32), rest.
  split; [exact Hxs|]. split; [exact Hok|]. split; [exact Hfit|].
  split; [apply Z.mod_pos_bound; lia|]. split; [apply Z.mod_pos_bound; lia|]. split.
  - apply stream_pid_in_In in Hpcr. apply in_map_iff in Hpcr. destruct Hpcr as (e & He & Hin).
    rewrite <- He. apply (proj1 (Forall_forall _ _) Hdom e Hin).
  - rewrite Hp, Hpat, Hpmt. reflexivity.
Qed.

End Dom.

(* ---------------- association lists keyed by PID, kept sorted ---------------- *)

Section Assoc.
Context {A : Type}.

Fixpoint aget (l : list (Z * A)) (x : Z) : option A :=
  match l with
  | [] => None
  | (k, a) :: r => if k =? x then Some a else aget r x
  end.

Fixpoint aset (l : list (Z * A)) (x : Z) (a : A) : list (Z * A) :=
  match l with
  | [] => [(x, a)]
  | (k, b) :: r => if k =? x then (k, a) :: r else if x <? k then (x, a) :: (k, b) :: r else (k, b) :: aset r x a
  end.

Lemma aget_aset_same l x a : aget (aset l x a) x = Some a.
Proof.
  induction l as [|[k b] r IH]; cbn [aset aget]; [rewrite Z.eqb_refl; reflexivity|].
  destruct (k =? x) eqn:E; [cbn [aget]; rewrite E; reflexivity|].
  destruct (x <? k) eqn:E2; cbn [aget]; [rewrite Z.eqb_refl; reflexivity|]. rewrite E. exact IH.
Qed.

Lemma aget_aset_other l x a y : y <> x -> aget (aset l x a) y = aget l y.
Proof.
  intros Hy. induction l as [|[k b] r IH]; cbn [aset aget].
  - destruct (x =? y) eqn:E; [lia|reflexivity].
  - destruct (k =? x) eqn:E.
    + cbn [aget]. destruct (k =? y) eqn:E3; [lia|reflexivity].
    + destruct (x <? k) eqn:E2; cbn [aget].
      * destruct (x =? y) eqn:E3; [lia|reflexivity].
      * destruct (k =? y); [reflexivity|exact IH].
Qed.

Lemma aset_keys_in l x a y : In y (map fst (aset l x a)) <-> y = x \/ In y (map fst l).
Proof.
  induction l as [|[k b] r IH]; cbn [aset map fst In]; [intuition|].
  destruct (k =? x) eqn:E; [cbn [map fst In]; assert (k = x) by lia; intuition|].
  destruct (x <? k) eqn:E2; cbn [map fst In]; [intuition|]. rewrite IH. intuition.
Qed.

Lemma aset_sorted l x a : StronglySorted Z.lt (map fst l) -> StronglySorted Z.lt (map fst (aset l x a)).
Proof.
  induction l as [|[k b] r IH]; intros Hs; cbn [aset map fst]; [repeat constructor|].
  cbn [map fst] in Hs. inversion Hs as [|? ? Hr Hall]; subst.
  destruct (k =? x) eqn:E; [cbn [map fst]; exact Hs|].
  destruct (x <? k) eqn:E2; cbn [map fst].
  - constructor; [exact Hs|]. constructor; [lia|]. apply Forall_forall. intros y Hy.
    pose proof (proj1 (Forall_forall _ _) Hall y Hy). lia.
  - constructor; [apply IH, Hr|]. apply Forall_forall. intros y Hy. apply aset_keys_in in Hy.
    destruct Hy as [->|Hy]; [lia|apply (proj1 (Forall_forall _ _) Hall y Hy)].
Qed.

Lemma aget_in l x : aget l x <> None <-> In x (map fst l).
Proof.
  induction l as [|[k b] r IH]; cbn [aget map fst In]; [intuition|].
  destruct (k =? x) eqn:E; [split; [intros _; left; lia|discriminate]|].
  rewrite IH. split; [intros H; right; exact H|intros [H|H]; [lia|exact H]].
Qed.

Lemma aget_map_snd l : StronglySorted Z.lt (map fst l) -> map (aget l) (map fst l) = map (fun e => Some (snd e)) l.
Proof.
  induction l as [|[k b] r IH]; intros Hs; [reflexivity|]. cbn [map fst snd aget]. rewrite Z.eqb_refl.
  cbn [map fst] in Hs. inversion Hs as [|? ? Hr Hall]; subst. f_equal. rewrite <- (IH Hr).
  apply map_ext_in. intros y Hy. pose proof (proj1 (Forall_forall _ _) Hall y Hy). destruct (k =? y) eqn:E; [lia|reflexivity].
Qed.

End Assoc.

(* two strictly increasing lists with the same members are equal *)
Lemma sorted_same_members (l1 l2 : list Z) : StronglySorted Z.lt l1 -> StronglySorted Z.lt l2 ->
  (forall y, In y l1 <-> In y l2) -> l1 = l2.
Proof.
  revert l2. induction l1 as [|a l1 IH]; intros l2 H1 H2 Hm.
  - destruct l2 as [|b l2]; [reflexivity|]. exfalso. apply (proj2 (Hm b)). left. reflexivity.
  - destruct l2 as [|b l2]; [exfalso; apply (proj1 (Hm a)); left; reflexivity|].
    inversion H1 as [|? ? H1r H1a]; subst. inversion H2 as [|? ? H2r H2b]; subst.
    assert (a = b).
    { destruct (proj1 (Hm a) (or_introl eq_refl)) as [E|Hin]; [congruence|].
      destruct (proj2 (Hm b) (or_introl eq_refl)) as [E|Hin']; [congruence|].
      pose proof (proj1 (Forall_forall _ _) H2b a Hin). pose proof (proj1 (Forall_forall _ _) H1a b Hin'). lia. }
    subst b. f_equal. apply IH; try assumption. intros y. split; intros Hy.
    + destruct (proj1 (Hm y) (or_intror Hy)) as [E|Hin]; [|exact Hin]. subst y.
      pose proof (proj1 (Forall_forall _ _) H1a a Hy). lia.
    + destruct (proj2 (Hm y) (or_intror Hy)) as [E|Hin]; [|exact Hin]. subst y.
      pose proof (proj1 (Forall_forall _ _) H2b a Hy). lia.
Qed.
