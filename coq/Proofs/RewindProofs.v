(* C20: the program map that survives Rewind cannot change what the demuxer delivers.

   After Rewind the state is the initial state of the same reader, except that d_pm is kept (rewind_clean).  The
   program map is consulted in exactly two places: packetAccumulator.add (is this PID a PSI PID whose sections may be
   flushed early?) for the PID of the packet being added, and parseData (isPSIPayload) for the PID of the group being
   parsed.  [calls_pf pm0 cs s] ("PAT first") says of the run of the FRESH demuxer that at each of these
   consultations the PID, if it is in the retained map pm0, is already in the fresh run's own map.  Under it a
   simulation (states equal except d_pm and the ghost logs; the rewound map = pm0 + the fresh map, as sets) shows that
   every call returns the same result.  [calls_pk] is the hypothesis at the packet level only (no packet of a PID in
   pm0 that the fresh run has not registered yet reaches the pool); a pool invariant turns it into [calls_pf]. *)
From Coq Require Import ZArith List Lia Bool ZifyBool.
Require Import Base.Bits Base.Iter Gen.Consts Gen.Types Gen.Preds Model.Packet Model.Pool Model.Reader Model.Demux
  Proofs.ReaderProofs Proofs.PoolProofs Proofs.DemuxProofs.
Import ListNotations.
Open Scope Z_scope.

(* ================= program maps as sets ================= *)

Lemma pm_mem_app pm pm2 x : pm_mem (pm ++ pm2) x = pm_mem pm x || pm_mem pm2 x.
Proof. unfold pm_mem. apply existsb_app. Qed.

Lemma pm_mem_add pm y x : pm_mem (pm_add pm y) x = pm_mem pm x || (x =? y).
Proof.
  unfold pm_add. destruct (pm_mem pm y) eqn:E.
  - destruct (x =? y) eqn:Exy; [|rewrite orb_false_r; reflexivity].
    apply Z.eqb_eq in Exy. subst. rewrite E. reflexivity.
  - rewrite pm_mem_app. cbn [pm_mem existsb]. rewrite orb_false_r. reflexivity.
Qed.

(* the map of the rewound run is the retained map plus the map of the fresh run *)
Definition pm_rel (pm0 pm pm' : pmap) : Prop := forall x, pm_mem pm' x = pm_mem pm x || pm_mem pm0 x.

Lemma pm_rel_init pm0 : pm_rel pm0 [] pm0.
Proof. intros x. reflexivity. Qed.

Lemma pm_rel_add pm0 pm pm' y : pm_rel pm0 pm pm' -> pm_rel pm0 (pm_add pm y) (pm_add pm' y).
Proof. intros H x. rewrite !pm_mem_add, H. destruct (pm_mem pm x), (pm_mem pm0 x), (x =? y); reflexivity. Qed.

Lemma pm_rel_fold pm0 l : forall pm pm', pm_rel pm0 pm pm' -> pm_rel pm0 (fold_left pm_add l pm) (fold_left pm_add l pm').
Proof. induction l as [|y l IH]; intros pm pm' H; [exact H|]. cbn [fold_left]. apply IH, pm_rel_add, H. Qed.

Lemma pm_mem_fold_mono l : forall pm x, pm_mem pm x = true -> pm_mem (fold_left pm_add l pm) x = true.
Proof.
  induction l as [|y l IH]; intros pm x H; [exact H|]. cbn [fold_left]. apply IH. rewrite pm_mem_add, H. reflexivity.
Qed.

(* PID x is not in pm0 \ pm: a consultation of the map for x gives the same answer with and without pm0 *)
Definition agree (pm0 pm : pmap) (x : Z) : Prop := pm_mem pm0 x = true -> pm_mem pm x = true.

Lemma agree_mem pm0 pm pm' x : pm_rel pm0 pm pm' -> agree pm0 pm x -> pm_mem pm' x = pm_mem pm x.
Proof.
  intros H Ha. rewrite H. destruct (pm_mem pm0 x) eqn:E; [|apply orb_false_r].
  rewrite (Ha E). reflexivity.
Qed.

Lemma agree_fold_mono pm0 pm l x : agree pm0 pm x -> agree pm0 (fold_left pm_add l pm) x.
Proof. intros H E. apply pm_mem_fold_mono, H, E. Qed.

(* ================= the two consultations ================= *)

Lemma acc_add_pm pm pm' pid q p : pm_mem pm' pid = pm_mem pm pid -> acc_add pm' pid q p = acc_add pm pid q p.
Proof. intros H. unfold acc_add. rewrite H. reflexivity. Qed.

Lemma pool_add_pm pm pm' pl p :
  (tei p = false -> has_payload p = true -> pm_mem pm' (pid_of p) = pm_mem pm (pid_of p)) ->
  pool_add pm' pl p = pool_add pm pl p.
Proof.
  intros H. unfold pool_add. destruct (tei p); [reflexivity|]. destruct (has_payload p); [|reflexivity]. cbn [negb].
  rewrite (acc_add_pm pm pm') by (apply H; reflexivity). reflexivity.
Qed.

Lemma parse_data_pm P prs pm pm' ps :
  match ps with [] => True | p0 :: _ => pm_mem pm' (pid_of p0) = pm_mem pm (pid_of p0) end ->
  parse_data P prs pm' ps = parse_data P prs pm ps.
Proof.
  intros H. unfold parse_data. destruct ps as [|p0 t]; [reflexivity|].
  unfold isPSIPayload. rewrite H. reflexivity.
Qed.

(* ================= the simulation relation ================= *)

(* everything but the program map (and the ghost logs, which influence nothing) is equal *)
Definition st_rel (pm0 : pmap) (s s' : dstate) : Prop :=
  d_buffer s' = d_buffer s /\ d_pb s' = d_pb s /\ d_pool s' = d_pool s /\ d_reader s' = d_reader s /\
  d_opt_size s' = d_opt_size s /\ pm_rel pm0 (d_pm s) (d_pm s').

Lemma st_rel_set_pool pm0 s s' pl : st_rel pm0 s s' -> st_rel pm0 (set_pool s pl) (set_pool s' pl).
Proof. intros (Hb & Hpb & Hpl & Hr & Ho & Hpm). unfold st_rel, set_pool. cbn. auto 10. Qed.

Lemma st_rel_log_group pm0 s s' g g' : st_rel pm0 s s' -> st_rel pm0 (log_group s g) (log_group s' g').
Proof. intros (Hb & Hpb & Hpl & Hr & Ho & Hpm). unfold st_rel, log_group. cbn. auto 10. Qed.

Lemma next_packet_rel pm0 skip s s' : st_rel pm0 s s' ->
  fst (next_packet skip s') = fst (next_packet skip s) /\
  st_rel pm0 (snd (next_packet skip s)) (snd (next_packet skip s')).
Proof.
  intros (Hb & Hpb & Hpl & Hr & Ho & Hpm). unfold next_packet. rewrite Hpb, Hr, Ho.
  destruct (d_pb s) as [pb|] eqn:Epb.
  - destruct (packet_buffer_next skip pb (d_reader s)) as [[rp r'] l]. cbn [fst snd]. split; [reflexivity|].
    unfold st_rel, log_consulted, set_reader. cbn. repeat split; auto; congruence.
  - destruct (new_packet_buffer (d_reader s) (d_opt_size s)) as [[pb|c|] r1]; cbn [fst snd].
    + cbn [set_pb set_reader d_reader]. destruct (packet_buffer_next skip pb r1) as [[rp r'] l]. cbn [fst snd].
      split; [reflexivity|]. unfold st_rel, log_consulted, set_reader. cbn. repeat split; auto; congruence.
    + split; [reflexivity|]. unfold st_rel, set_reader. cbn. repeat split; auto; congruence.
    + split; [reflexivity|]. unfold st_rel, set_reader. cbn. repeat split; auto; congruence.
Qed.

Lemma update_data_rel pm0 s s' ds : st_rel pm0 s s' ->
  fst (update_data s' ds) = fst (update_data s ds) /\ st_rel pm0 (snd (update_data s ds)) (snd (update_data s' ds)).
Proof.
  intros H. destruct ds as [|d rest]; [split; [reflexivity|exact H]|].
  destruct H as (Hb & Hpb & Hpl & Hr & Ho & Hpm). cbn [update_data fst snd]. split; [reflexivity|].
  unfold st_rel. cbn. rewrite Hb. repeat split; auto. apply pm_rel_fold, Hpm.
Qed.

(* ================= "PAT first", at every consultation of the fresh run ================= *)

(* the packet handed to the pool: its PID is looked up unless the pool ignores the packet *)
Definition add_ok (pm0 pm : pmap) (p : Packet) : Prop :=
  tei p = false -> has_payload p = true -> agree pm0 pm (pid_of p).
(* the group handed to parseData: isPSIPayload is asked about the PID of its first packet *)
Definition group_ok (pm0 pm : pmap) (ps : list Packet) : Prop :=
  match ps with [] => True | p0 :: _ => agree pm0 pm (pid_of p0) end.

Section Run.
Variables (pm0 : pmap) (P : dparsers) (prs : option custom_parser) (skip : Packet -> bool).

Fixpoint drain_pf (fuel : nat) (s : dstate) : Prop :=
  match fuel with
  | O => True
  | S k =>
      let '(pl', ps) := pool_dump (d_pool s) in
      let s0 := set_pool s pl' in
      match ps with
      | [] => True
      | _ =>
          let s1 := log_group s0 ps in
          group_ok pm0 (d_pm s1) ps /\
          match parse_data P prs (d_pm s1) ps with
          | Err _ => drain_pf k s1
          | Panic => True
          | Ok ds => match update_data s1 ds with (Some _, _) => True | (None, s2) => drain_pf k s2 end
          end
      end
  end.

Fixpoint loop_pf (fuel : nat) (s : dstate) : Prop :=
  match fuel with
  | O => True
  | S k =>
      match next_packet skip s with
      | (Err c, s1) => if c =? E_nomore then drain_pf (S (length (d_pool s1))) s1 else True
      | (Panic, _) => True
      | (Ok p, s1) =>
          add_ok pm0 (d_pm s1) p /\
          let '(pl', ps) := pool_add (d_pm s1) (d_pool s1) p in
          let s2' := set_pool s1 pl' in
          match ps with
          | [] => loop_pf k s2'
          | _ =>
              let s2 := log_group s2' ps in
              group_ok pm0 (d_pm s2) ps /\
              match parse_data P prs (d_pm s2) ps with
              | Err _ => True
              | Panic => True
              | Ok ds => match update_data s2 ds with (Some _, _) => True | (None, s3) => loop_pf k s3 end
              end
          end
      end
  end.

Definition next_data_pf (s : dstate) : Prop :=
  match d_buffer s with [] => loop_pf (nd_fuel s) s | _ => True end.

Definition call_pf (c : dcall) (s : dstate) : Prop :=
  match c with CallPacket => True | CallData => next_data_pf s end.

Fixpoint calls_pf (cs : list dcall) (s : dstate) : Prop :=
  match cs with
  | [] => True
  | c :: r => call_pf c s /\ calls_pf r (snd (call P prs skip c s))
  end.

(* ---- the simulation ---- *)

Lemma drain_sim fuel : forall s s', st_rel pm0 s s' -> drain_pf fuel s ->
  fst (drain P prs fuel s') = fst (drain P prs fuel s) /\
  st_rel pm0 (snd (drain P prs fuel s)) (snd (drain P prs fuel s')).
Proof.
  induction fuel as [|k IH]; intros s s' H Hpf; [split; [reflexivity|exact H]|].
  cbn [drain drain_pf] in *.
  assert (Hpl : d_pool s' = d_pool s) by apply H. rewrite Hpl.
  destruct (pool_dump (d_pool s)) as [pl1 ps].
  pose proof (st_rel_set_pool pm0 s s' pl1 H) as H0.
  destruct ps as [|p0 t]; [split; [reflexivity|exact H0]|].
  pose proof (st_rel_log_group pm0 _ _ (p0 :: t) (p0 :: t) H0) as H1.
  set (s1 := log_group (set_pool s pl1) (p0 :: t)) in *.
  set (s1' := log_group (set_pool s' pl1) (p0 :: t)) in *.
  destruct Hpf as [Hg Hpf].
  assert (Hpm : pm_rel pm0 (d_pm s1) (d_pm s1')) by apply H1.
  rewrite (parse_data_pm P prs (d_pm s1) (d_pm s1') (p0 :: t)) by (apply (agree_mem pm0); [exact Hpm|exact Hg]).
  destruct (parse_data P prs (d_pm s1) (p0 :: t)) as [ds|c|].
  - destruct (update_data_rel pm0 s1 s1' ds H1) as [U1 U2].
    destruct (update_data s1 ds) as [[dd|] s2], (update_data s1' ds) as [[dd'|] s2']; cbn [fst snd] in *; try discriminate.
    + inversion U1; subst. split; [reflexivity|exact U2].
    + apply IH; assumption.
  - apply IH; assumption.
  - split; [reflexivity|exact H1].
Qed.

Lemma loop_sim fuel : forall s s', st_rel pm0 s s' -> loop_pf fuel s ->
  fst (next_data_loop P prs skip fuel s') = fst (next_data_loop P prs skip fuel s) /\
  st_rel pm0 (snd (next_data_loop P prs skip fuel s)) (snd (next_data_loop P prs skip fuel s')).
Proof.
  induction fuel as [|k IH]; intros s s' H Hpf; [split; [reflexivity|exact H]|].
  cbn [next_data_loop loop_pf] in *.
  destruct (next_packet_rel pm0 skip s s' H) as [N1 N2].
  destruct (next_packet skip s) as [rp s1], (next_packet skip s') as [rp' s1']. cbn [fst snd] in *. subst rp'.
  destruct rp as [p|c|].
  - destruct Hpf as [Ha Hpf].
    assert (Hpm : pm_rel pm0 (d_pm s1) (d_pm s1')) by apply N2.
    assert (Hpl : d_pool s1' = d_pool s1) by apply N2. rewrite Hpl.
    rewrite (pool_add_pm (d_pm s1) (d_pm s1')) by (intros Ht Hp; apply (agree_mem pm0); [exact Hpm|exact (Ha Ht Hp)]).
    destruct (pool_add (d_pm s1) (d_pool s1) p) as [pl1 ps].
    pose proof (st_rel_set_pool pm0 s1 s1' pl1 N2) as H0.
    destruct ps as [|p0 t]; [apply IH; assumption|].
    pose proof (st_rel_log_group pm0 _ _ (p0 :: t) (p0 :: t) H0) as H1.
    set (s2 := log_group (set_pool s1 pl1) (p0 :: t)) in *.
    set (s2' := log_group (set_pool s1' pl1) (p0 :: t)) in *.
    destruct Hpf as [Hg Hpf].
    assert (Hpm2 : pm_rel pm0 (d_pm s2) (d_pm s2')) by apply H1.
    rewrite (parse_data_pm P prs (d_pm s2) (d_pm s2') (p0 :: t)) by (apply (agree_mem pm0); [exact Hpm2|exact Hg]).
    destruct (parse_data P prs (d_pm s2) (p0 :: t)) as [ds|c|]; try (split; [reflexivity|exact H1]).
    destruct (update_data_rel pm0 s2 s2' ds H1) as [U1 U2].
    destruct (update_data s2 ds) as [[dd|] s3], (update_data s2' ds) as [[dd'|] s3']; cbn [fst snd] in *; try discriminate.
    + inversion U1; subst. split; [reflexivity|exact U2].
    + apply IH; assumption.
  - destruct (c =? E_nomore); [|split; [reflexivity|exact N2]].
    assert (Hpl : d_pool s1' = d_pool s1) by apply N2. rewrite Hpl. apply drain_sim; assumption.
  - split; [reflexivity|exact N2].
Qed.

Lemma next_data_sim s s' : st_rel pm0 s s' -> next_data_pf s ->
  fst (next_data P prs skip s') = fst (next_data P prs skip s) /\
  st_rel pm0 (snd (next_data P prs skip s)) (snd (next_data P prs skip s')).
Proof.
  intros H Hpf. unfold next_data, next_data_pf in *.
  assert (Hb : d_buffer s' = d_buffer s) by apply H. rewrite Hb.
  destruct (d_buffer s) as [|dd rest] eqn:E.
  - assert (Hf : nd_fuel s' = nd_fuel s). { unfold nd_fuel. destruct H as (_ & _ & _ & Hr & _). rewrite Hr. reflexivity. }
    rewrite Hf. apply loop_sim; assumption.
  - cbn [fst snd]. split; [reflexivity|]. destruct H as (_ & Hpb & Hpl & Hr & Ho & Hpm). unfold st_rel. cbn. auto 10.
Qed.

Lemma call_sim c s s' : st_rel pm0 s s' -> call_pf c s ->
  fst (call P prs skip c s') = fst (call P prs skip c s) /\
  st_rel pm0 (snd (call P prs skip c s)) (snd (call P prs skip c s')).
Proof.
  intros H Hpf. destruct c; cbn [call call_pf] in *.
  - destruct (next_packet_rel pm0 skip s s' H) as [N1 N2].
    destruct (next_packet skip s) as [rp s1], (next_packet skip s') as [rp' s1']. cbn [fst snd] in *. subst. auto.
  - destruct (next_data_sim s s' H Hpf) as [N1 N2].
    destruct (next_data P prs skip s) as [rp s1], (next_data P prs skip s') as [rp' s1']. cbn [fst snd] in *. subst. auto.
Qed.

Theorem calls_sim cs : forall s s', st_rel pm0 s s' -> calls_pf cs s ->
  calls P prs skip cs s' = calls P prs skip cs s.
Proof.
  induction cs as [|c r IH]; intros s s' H Hpf; [reflexivity|].
  cbn [calls calls_pf] in *. destruct Hpf as [Hc Hr].
  destruct (call_sim c s s' H Hc) as [C1 C2].
  destruct (call P prs skip c s) as [x s1], (call P prs skip c s') as [x' s1']. cbn [fst snd] in *. subst x'.
  f_equal. apply IH; assumption.
Qed.

(* ================= the hypothesis at the packet level ================= *)

(* only the packets reaching the pool are constrained *)
Fixpoint loop_pk (fuel : nat) (s : dstate) : Prop :=
  match fuel with
  | O => True
  | S k =>
      match next_packet skip s with
      | (Ok p, s1) =>
          add_ok pm0 (d_pm s1) p /\
          let '(pl', ps) := pool_add (d_pm s1) (d_pool s1) p in
          let s2' := set_pool s1 pl' in
          match ps with
          | [] => loop_pk k s2'
          | _ =>
              let s2 := log_group s2' ps in
              match parse_data P prs (d_pm s2) ps with
              | Ok ds => match update_data s2 ds with (Some _, _) => True | (None, s3) => loop_pk k s3 end
              | _ => True
              end
          end
      | _ => True
      end
  end.

Definition call_pk (c : dcall) (s : dstate) : Prop :=
  match c with
  | CallPacket => True
  | CallData => match d_buffer s with [] => loop_pk (nd_fuel s) s | _ => True end
  end.

Fixpoint calls_pk (cs : list dcall) (s : dstate) : Prop :=
  match cs with
  | [] => True
  | c :: r => call_pk c s /\ calls_pk r (snd (call P prs skip c s))
  end.

(* pool invariant: a queue holds packets of its own PID only, and every PID that has a queue passed add_ok *)
Definition entry_ok (pm : pmap) (e : Z * queue) : Prop :=
  agree pm0 pm (fst e) /\ Forall (fun p => pid_of p = fst e) (snd e).
Definition pinv (s : dstate) : Prop := Forall (entry_ok (d_pm s)) (d_pool s).

Lemma pool_lookup_in pl pid q : pool_lookup pl pid = Some q -> In (pid, q) pl.
Proof.
  induction pl as [|[k q0] r IH]; cbn [pool_lookup]; [discriminate|].
  destruct (k =? pid) eqn:E; [|intros H; right; exact (IH H)].
  apply Z.eqb_eq in E. intros H; inversion H; subst. left. reflexivity.
Qed.

Lemma pool_set_forall (Q : Z * queue -> Prop) pl pid q : Forall Q pl -> Q (pid, q) -> Forall Q (pool_set pl pid q).
Proof.
  intros H Hq. induction H as [|[k q0] r Hk Hr IH]; cbn [pool_set]; [constructor; [exact Hq|constructor]|].
  destruct (k =? pid) eqn:E.
  - apply Z.eqb_eq in E. subst. constructor; assumption.
  - destruct (pid <? k); constructor; auto.
Qed.

Lemma pool_dump_forall (Q : Z * queue -> Prop) pl : Forall Q pl ->
  Forall Q (fst (pool_dump pl)) /\
  (snd (pool_dump pl) <> [] -> exists k, Q (k, snd (pool_dump pl))).
Proof.
  induction 1 as [|[k q] r Hk Hr IH]; cbn [pool_dump]; [split; [constructor|intros H; contradiction]|].
  destruct q as [|p q]; [exact IH|]. cbn [fst snd]. split; [exact Hr|]. intros _. exists k. exact Hk.
Qed.

Lemma acc_add_pids pm k q p : Forall (fun x => pid_of x = k) q -> pid_of p = k ->
  Forall (fun x => pid_of x = k) (fst (acc_add pm k q p)) /\ Forall (fun x => pid_of x = k) (snd (acc_add pm k q p)).
Proof.
  intros Hq Hp. unfold acc_add.
  assert (Hp1 : Forall (fun x => pid_of x = k) [p]) by (constructor; [exact Hp|constructor]).
  destruct (isSameAsPrevious q p); [cbn; auto|].
  destruct (resets q p), (pusi p); cbn [app];
    match goal with |- context [if ?c then _ else _] => destruct c end; cbn [fst snd];
    repeat split; try constructor; try apply Forall_app; auto.
Qed.

Lemma entry_ok_mono pm l e : entry_ok pm e -> entry_ok (fold_left pm_add l pm) e.
Proof. intros [H1 H2]. split; [apply agree_fold_mono; exact H1|exact H2]. Qed.

Lemma group_ok_of_pids pm k ps : agree pm0 pm k -> Forall (fun x => pid_of x = k) ps -> group_ok pm0 pm ps.
Proof. intros Ha H. destruct ps as [|p0 t]; [exact I|]. inversion H as [|? ? Hk _]. cbn [group_ok]. rewrite Hk. exact Ha. Qed.

(* adding a packet that passed add_ok keeps the invariant, and the flushed group is a group of that PID *)
Lemma pool_add_inv pm pl p : Forall (entry_ok pm) pl -> add_ok pm0 pm p ->
  Forall (entry_ok pm) (fst (pool_add pm pl p)) /\ group_ok pm0 pm (snd (pool_add pm pl p)).
Proof.
  intros Hinv Ha. unfold pool_add. destruct (tei p) eqn:Et; [split; [exact Hinv|exact I]|].
  destruct (has_payload p) eqn:Eh; [|split; [exact Hinv|exact I]]. cbn [negb].
  specialize (Ha Et Eh).
  assert (Hq : Forall (fun x => pid_of x = pid_of p)
                 match pool_lookup pl (pid_of p) with Some q => q | None => [] end).
  { destruct (pool_lookup pl (pid_of p)) as [q|] eqn:E; [|constructor].
    apply pool_lookup_in in E. rewrite Forall_forall in Hinv. exact (proj2 (Hinv _ E)). }
  destruct (acc_add_pids pm (pid_of p) _ p Hq eq_refl) as [A1 A2].
  destruct (acc_add pm (pid_of p) _ p) as [q' ps]. cbn [fst snd] in *.
  split; [apply pool_set_forall; [exact Hinv|split; assumption]|].
  apply (group_ok_of_pids pm (pid_of p)); assumption.
Qed.

Lemma next_packet_pool_pm s : d_pool (snd (next_packet skip s)) = d_pool s /\ d_pm (snd (next_packet skip s)) = d_pm s.
Proof.
  unfold next_packet. destruct (d_pb s) as [pb|].
  - destruct (packet_buffer_next skip pb (d_reader s)) as [[rp r'] l]. split; reflexivity.
  - destruct (new_packet_buffer (d_reader s) (d_opt_size s)) as [[pb|c|] r']; try (split; reflexivity).
    cbn [set_pb set_reader d_reader]. destruct (packet_buffer_next skip pb r') as [[rp r''] l]. split; reflexivity.
Qed.

Lemma update_data_inv s ds : pinv s -> pinv (snd (update_data s ds)).
Proof.
  intros H. destruct ds as [|d rest]; [exact H|]. unfold pinv in *. cbn [update_data snd d_pm d_pool].
  eapply Forall_impl; [|exact H]. intros e. apply entry_ok_mono.
Qed.

Lemma drain_of_inv fuel : forall s, pinv s -> drain_pf fuel s /\ pinv (snd (drain P prs fuel s)).
Proof.
  induction fuel as [|k IH]; intros s H; [split; [exact I|exact H]|].
  cbn [drain drain_pf]. destruct (pool_dump_forall _ _ H) as [D1 D2].
  destruct (pool_dump (d_pool s)) as [pl1 ps]. cbn [fst snd] in *.
  assert (H0 : pinv (set_pool s pl1)) by exact D1.
  destruct ps as [|p0 t]; [split; [exact I|exact H0]|].
  assert (H1 : pinv (log_group (set_pool s pl1) (p0 :: t))) by exact D1.
  set (s1 := log_group (set_pool s pl1) (p0 :: t)) in *.
  assert (Hg : group_ok pm0 (d_pm s1) (p0 :: t)).
  { destruct (D2 ltac:(discriminate)) as [k0 [G1 G2]]. exact (group_ok_of_pids _ k0 _ G1 G2). }
  destruct (parse_data P prs (d_pm s1) (p0 :: t)) as [ds|c|].
  - pose proof (update_data_inv s1 ds H1) as U.
    destruct (update_data s1 ds) as [[dd|] s2]; cbn [snd] in *.
    + split; [split; [exact Hg|exact I]|exact U].
    + destruct (IH s2 U) as [I1 I2]. split; [split; assumption|exact I2].
  - destruct (IH s1 H1) as [I1 I2]. split; [split; assumption|exact I2].
  - split; [split; [exact Hg|exact I]|exact H1].
Qed.

Lemma loop_of_pk fuel : forall s, pinv s -> loop_pk fuel s ->
  loop_pf fuel s /\ pinv (snd (next_data_loop P prs skip fuel s)).
Proof.
  induction fuel as [|k IH]; intros s H Hpk; [split; [exact I|exact H]|].
  cbn [next_data_loop loop_pf loop_pk] in *.
  destruct (next_packet_pool_pm s) as [Npl Npm].
  destruct (next_packet skip s) as [rp s1]. cbn [snd] in *.
  assert (H1 : pinv s1) by (unfold pinv; rewrite Npl, Npm; exact H).
  destruct rp as [p|c|].
  - destruct Hpk as [Ha Hpk].
    destruct (pool_add_inv (d_pm s1) (d_pool s1) p H1 Ha) as [A1 A2].
    destruct (pool_add (d_pm s1) (d_pool s1) p) as [pl1 ps]. cbn [fst snd] in *.
    assert (H2' : pinv (set_pool s1 pl1)) by exact A1.
    destruct ps as [|p0 t].
    + destruct (IH _ H2' Hpk) as [I1 I2]. split; [split; assumption|exact I2].
    + assert (H2 : pinv (log_group (set_pool s1 pl1) (p0 :: t))) by exact A1.
      set (s2 := log_group (set_pool s1 pl1) (p0 :: t)) in *.
      assert (Hg : group_ok pm0 (d_pm s2) (p0 :: t)) by exact A2.
      destruct (parse_data P prs (d_pm s2) (p0 :: t)) as [ds|c|]; try (split; [repeat split; assumption|exact H2]).
      pose proof (update_data_inv s2 ds H2) as U.
      destruct (update_data s2 ds) as [[dd|] s3]; cbn [snd] in *.
      * split; [repeat split; assumption|exact U].
      * destruct (IH s3 U Hpk) as [I1 I2]. split; [repeat split; assumption|exact I2].
  - destruct (c =? E_nomore); [apply drain_of_inv; exact H1|split; [exact I|exact H1]].
  - split; [exact I|exact H1].
Qed.

Lemma call_of_pk c s : pinv s -> call_pk c s -> call_pf c s /\ pinv (snd (call P prs skip c s)).
Proof.
  intros H Hpk. destruct c; cbn [call call_pf call_pk] in *.
  - destruct (next_packet_pool_pm s) as [Npl Npm].
    destruct (next_packet skip s) as [rp s1]. cbn [snd] in *. split; [exact I|]. unfold pinv. rewrite Npl, Npm. exact H.
  - unfold next_data_pf, next_data. destruct (d_buffer s) as [|dd rest].
    + destruct (loop_of_pk (nd_fuel s) s H Hpk) as [L1 L2].
      destruct (next_data_loop P prs skip (nd_fuel s) s) as [rp s1]. cbn [snd] in *. split; assumption.
    + cbn [snd]. split; [exact I|exact H].
Qed.

Theorem calls_of_pk cs : forall s, pinv s -> calls_pk cs s -> calls_pf cs s.
Proof.
  induction cs as [|c r IH]; intros s H Hpk; [exact I|].
  cbn [calls_pf calls_pk] in *. destruct Hpk as [Hc Hr].
  destruct (call_of_pk c s H Hc) as [C1 C2]. split; [exact C1|]. apply IH; assumption.
Qed.

End Run.

(* ================= the hypothesis is monotone in the retained map ================= *)

(* a smaller retained map asks less: PAT-first with respect to pm1 implies PAT-first with respect to every subset *)
Definition pm_sub (pm0 pm1 : pmap) : Prop := forall x, pm_mem pm0 x = true -> pm_mem pm1 x = true.

Lemma agree_sub pm0 pm1 pm x : pm_sub pm0 pm1 -> agree pm1 pm x -> agree pm0 pm x.
Proof. intros Hs Ha E. apply Ha, Hs, E. Qed.

Lemma add_ok_sub pm0 pm1 pm p : pm_sub pm0 pm1 -> add_ok pm1 pm p -> add_ok pm0 pm p.
Proof. intros Hs Ha Ht Hp. exact (agree_sub _ _ _ _ Hs (Ha Ht Hp)). Qed.

Lemma loop_pk_sub pm0 pm1 P prs skip fuel : pm_sub pm0 pm1 -> forall s,
  loop_pk pm1 P prs skip fuel s -> loop_pk pm0 P prs skip fuel s.
Proof.
  intros Hs. induction fuel as [|k IH]; intros s H; [exact I|].
  cbn [loop_pk] in *. destruct (next_packet skip s) as [[p|c|] s1]; try exact I.
  destruct H as [Ha H]. split; [exact (add_ok_sub _ _ _ _ Hs Ha)|].
  destruct (pool_add (d_pm s1) (d_pool s1) p) as [pl1 ps]. destruct ps as [|p0 t]; [apply IH; exact H|].
  destruct (parse_data P prs _ (p0 :: t)) as [ds|c|]; try exact I.
  destruct (update_data _ ds) as [[dd|] s3]; [exact I|apply IH; exact H].
Qed.

Theorem calls_pk_sub pm0 pm1 P prs skip cs : pm_sub pm0 pm1 -> forall s,
  calls_pk pm1 P prs skip cs s -> calls_pk pm0 P prs skip cs s.
Proof.
  intros Hs. induction cs as [|c r IH]; intros s H; [exact I|].
  cbn [calls_pk] in *. destruct H as [Hc Hr]. split; [|apply IH; exact Hr].
  destruct c; cbn [call_pk] in *; [exact I|]. destruct (d_buffer s); [|exact I].
  exact (loop_pk_sub _ _ _ _ _ _ Hs _ Hc).
Qed.

(* ================= the retained program map ================= *)

Lemma st_rel_with_pm r opt pm0 : st_rel pm0 (init_dstate r opt) (with_pm (init_dstate r opt) pm0).
Proof. unfold st_rel, with_pm, init_dstate. cbn. repeat split; auto; try apply pm_rel_init. Qed.

(* C20 (b): the full statement kept so far as Definition C20_pm_monotone_full, with its hypothesis made precise *)
Theorem pm_monotone P prs skip r opt pm0 cs :
  calls_pf pm0 P prs skip cs (init_dstate r opt) ->
  calls P prs skip cs (with_pm (init_dstate r opt) pm0) = calls P prs skip cs (init_dstate r opt).
Proof. intros H. apply (calls_sim pm0); [apply st_rel_with_pm|exact H]. Qed.

Lemma pinv_init pm0 r opt : pinv pm0 (init_dstate r opt).
Proof. constructor. Qed.

Theorem pm_monotone_packets P prs skip r opt pm0 cs :
  calls_pk pm0 P prs skip cs (init_dstate r opt) ->
  calls P prs skip cs (with_pm (init_dstate r opt) pm0) = calls P prs skip cs (init_dstate r opt).
Proof. intros H. apply pm_monotone, calls_of_pk; [apply pinv_init|exact H]. Qed.

(* the state after Rewind is related to the fresh demuxer's initial state *)
Lemma st_rel_rewind s : r_kind (d_reader s) = Seekable ->
  st_rel (d_pm s) (init_dstate (r_seek0 (d_reader s)) (d_opt_size s)) (snd (rewind s)).
Proof.
  intros H. unfold rewind, rewind_reader. rewrite H. unfold st_rel, init_dstate. cbn. repeat split; auto; try apply pm_rel_init.
Qed.

(* the reader a fresh demuxer is created on: the same stream from its first byte *)
Lemma seek0_is_new r : r_total r = Z.of_nat (length (r_all r)) -> r_seek0 r = new_reader (r_all r) (r_fault r) (r_kind r).
Proof. intros H. unfold r_seek0, new_reader. rewrite H. reflexivity. Qed.

(* C20: Rewind at ANY state s of a demuxer on a seekable reader (any history before it: mid-unit, sections still
   buffered, earlier rewinds, explicit or detected size) reports offset 0, and every sequence of calls after it
   returns exactly what it returns on a freshly created demuxer on the same stream *)
Theorem rewind_equals_fresh P prs skip s cs : r_kind (d_reader s) = Seekable ->
  calls_pf (d_pm s) P prs skip cs (init_dstate (r_seek0 (d_reader s)) (d_opt_size s)) ->
  fst (rewind s) = 0 /\
  calls P prs skip cs (snd (rewind s)) = calls P prs skip cs (init_dstate (r_seek0 (d_reader s)) (d_opt_size s)).
Proof.
  intros Hk Hpf. split; [apply rewind_clean; exact Hk|].
  apply (calls_sim (d_pm s)); [apply st_rel_rewind; exact Hk|exact Hpf].
Qed.

Theorem rewind_equals_fresh_packets P prs skip s cs : r_kind (d_reader s) = Seekable ->
  calls_pk (d_pm s) P prs skip cs (init_dstate (r_seek0 (d_reader s)) (d_opt_size s)) ->
  fst (rewind s) = 0 /\
  calls P prs skip cs (snd (rewind s)) = calls P prs skip cs (init_dstate (r_seek0 (d_reader s)) (d_opt_size s)).
Proof.
  intros Hk Hpk. apply rewind_equals_fresh; [exact Hk|]. apply calls_of_pk; [apply pinv_init|exact Hpk].
Qed.

(* ================= the form of the property text: any history, then Rewind ================= *)

(* the demuxer never replaces its reader by one over another stream, of another kind or with another fault *)
Definition same_stream (r r' : reader) : Prop :=
  r_all r' = r_all r /\ r_total r' = r_total r /\ r_fault r' = r_fault r /\ r_kind r' = r_kind r.

Lemma same_refl r : same_stream r r.
Proof. repeat split. Qed.
Lemma same_trans r1 r2 r3 : same_stream r1 r2 -> same_stream r2 r3 -> same_stream r1 r3.
Proof. intros (A1 & A2 & A3 & A4) (B1 & B2 & B3 & B4). repeat split; congruence. Qed.
Lemma same_advance r n : same_stream r (r_advance r n).
Proof. repeat split. Qed.
Lemma same_seek0 r : same_stream r (r_seek0 r).
Proof. repeat split. Qed.
Lemma same_seek0_eq r r' : same_stream r r' -> r_seek0 r' = r_seek0 r.
Proof. intros (A1 & A2 & A3 & A4). unfold r_seek0. congruence. Qed.

Lemma read_full_same r n : same_stream r (snd (read_full r n)).
Proof. unfold read_full. destruct (r_stop r) as [stop inj]. destruct (n <=? _); apply same_advance. Qed.

Lemma auto_detect_same r : same_stream r (snd (auto_detect r)).
Proof.
  unfold auto_detect.
  pose proof (read_full_same r detect_window) as H1.
  destruct (r_kind r); destruct (read_full r detect_window) as [[bs e] r1]; cbn [snd] in H1.
  - (* Plain *)
    destruct e as [[| |]|]; cbn [snd]; try exact H1;
      (destruct (negb _); [exact H1|]; destruct (find_sync _ 0) as [ps|]; [|exact H1]);
      pose proof (read_full_same r1 (ps - (detect_window - ps))) as H2;
      destruct (read_full r1 (ps - (detect_window - ps))) as [[bs2 e2] r2]; cbn [snd] in H2;
      (destruct e2 as [[| |]|]; cbn [snd]; exact (same_trans _ _ _ H1 H2)).
  - (* Seekable *)
    destruct e as [[| |]|]; cbn [snd]; try exact H1;
      (destruct (negb _); [exact H1|]; destruct (find_sync _ 0) as [ps|]; [|exact H1]);
      cbn [snd]; exact (same_trans _ _ _ H1 (same_seek0 r1)).
  - (* Bufio *)
    destruct e as [[| |]|]; cbn [snd]; try apply same_refl;
      (destruct (negb _); [exact H1|]; destruct (find_sync _ 0) as [ps|]; [apply same_refl|exact H1]).
Qed.

Lemma new_packet_buffer_same r opt : same_stream r (snd (new_packet_buffer r opt)).
Proof.
  unfold new_packet_buffer. destruct (opt =? 0); [|apply same_refl].
  pose proof (auto_detect_same r) as H. destruct (auto_detect r) as [[ps|c|] r']; exact H.
Qed.

Lemma pb_next_same skip size fuel : forall r, same_stream r (snd (fst (pb_next fuel skip size r))).
Proof.
  induction fuel as [|k IH]; intros r; [apply same_refl|].
  cbn [pb_next]. pose proof (read_full_same r size) as H1.
  destruct (read_full r size) as [[bs e] r1]. cbn [snd] in H1.
  destruct e as [[| |]|]; cbn [fst snd]; try exact H1.
  destruct (run_iter (parse_packet skip) bs) as [p|c|]; cbn [fst snd]; try exact H1.
  destruct (c =? E_skipped); [|exact H1].
  specialize (IH r1). destruct (pb_next k skip size r1) as [[x r2] l]. cbn [fst snd] in *. exact (same_trans _ _ _ H1 IH).
Qed.

Lemma packet_buffer_next_same skip pb r : same_stream r (snd (fst (packet_buffer_next skip pb r))).
Proof.
  unfold packet_buffer_next. destruct (pb_size pb <? 0); [apply same_refl|]. destruct (pb_size pb =? 0); [apply same_refl|].
  apply pb_next_same.
Qed.

(* reader and size option of a state are those of a demuxer created on reader r with option opt *)
Definition on_stream (r : reader) (opt : Z) (s : dstate) : Prop := same_stream r (d_reader s) /\ d_opt_size s = opt.

Lemma next_packet_on r opt skip s : on_stream r opt s -> on_stream r opt (snd (next_packet skip s)).
Proof.
  intros [H1 H2]. unfold next_packet. destruct (d_pb s) as [pb|].
  - pose proof (packet_buffer_next_same skip pb (d_reader s)) as H.
    destruct (packet_buffer_next skip pb (d_reader s)) as [[rp r'] l]. cbn [fst snd] in *.
    split; [exact (same_trans _ _ _ H1 H)|exact H2].
  - pose proof (new_packet_buffer_same (d_reader s) (d_opt_size s)) as H.
    destruct (new_packet_buffer (d_reader s) (d_opt_size s)) as [[pb|c|] r1]; cbn [snd] in *;
      try (split; [exact (same_trans _ _ _ H1 H)|exact H2]).
    cbn [set_pb set_reader d_reader]. pose proof (packet_buffer_next_same skip pb r1) as H'.
    destruct (packet_buffer_next skip pb r1) as [[rp r'] l]. cbn [fst snd] in *.
    split; [exact (same_trans _ _ _ H1 (same_trans _ _ _ H H'))|exact H2].
Qed.

Lemma update_data_on r opt s ds : on_stream r opt s -> on_stream r opt (snd (update_data s ds)).
Proof. intros H. destruct ds; exact H. Qed.

Lemma drain_on r opt P prs fuel : forall s, on_stream r opt s -> on_stream r opt (snd (drain P prs fuel s)).
Proof.
  induction fuel as [|k IH]; intros s H; [exact H|].
  cbn [drain]. destruct (pool_dump (d_pool s)) as [pl1 ps]. destruct ps as [|p0 t]; [exact H|].
  set (s1 := log_group (set_pool s pl1) (p0 :: t)). assert (H1 : on_stream r opt s1) by exact H.
  destruct (parse_data P prs (d_pm s1) (p0 :: t)) as [ds|c|]; [|apply IH; exact H1|exact H1].
  pose proof (update_data_on r opt s1 ds H1) as U. destruct (update_data s1 ds) as [[dd|] s2]; cbn [snd] in *; [exact U|apply IH; exact U].
Qed.

Lemma loop_on r opt P prs skip fuel : forall s, on_stream r opt s -> on_stream r opt (snd (next_data_loop P prs skip fuel s)).
Proof.
  induction fuel as [|k IH]; intros s H; [exact H|].
  cbn [next_data_loop]. pose proof (next_packet_on r opt skip s H) as N.
  destruct (next_packet skip s) as [[p|c|] s1]; cbn [snd] in N.
  - destruct (pool_add (d_pm s1) (d_pool s1) p) as [pl1 ps]. destruct ps as [|p0 t]; [apply IH; exact N|].
    set (s2 := log_group (set_pool s1 pl1) (p0 :: t)). assert (H2 : on_stream r opt s2) by exact N.
    destruct (parse_data P prs (d_pm s2) (p0 :: t)) as [ds|c|]; try exact H2.
    pose proof (update_data_on r opt s2 ds H2) as U. destruct (update_data s2 ds) as [[dd|] s3]; cbn [snd] in *; [exact U|apply IH; exact U].
  - destruct (c =? E_nomore); [apply drain_on; exact N|exact N].
  - exact N.
Qed.

Lemma call_on r opt P prs skip c s : on_stream r opt s -> on_stream r opt (snd (call P prs skip c s)).
Proof.
  intros H. destruct c; cbn [call].
  - pose proof (next_packet_on r opt skip s H) as N. destruct (next_packet skip s) as [rp s1]. exact N.
  - unfold next_data. destruct (d_buffer s) as [|dd rest].
    + pose proof (loop_on r opt P prs skip (nd_fuel s) s H) as N.
      destruct (next_data_loop P prs skip (nd_fuel s) s) as [rp s1]. exact N.
    + exact H.
Qed.

Lemma rewind_on r opt s : on_stream r opt s -> on_stream r opt (snd (rewind s)).
Proof.
  intros [H1 H2]. unfold rewind, rewind_reader. destruct (r_kind (d_reader s)); cbn [snd d_reader d_opt_size]; split; auto;
  try exact (same_trans _ _ _ H1 (same_seek0 _)).
Qed.

(* a history: NextPacket / NextData calls and Rewinds in any order *)
Inductive dop := OpCall (c : dcall) | OpRewind.

Fixpoint run_ops (P : dparsers) (prs : option custom_parser) (skip : Packet -> bool) (ops : list dop) (s : dstate) : dstate :=
  match ops with
  | [] => s
  | OpCall c :: r => run_ops P prs skip r (snd (call P prs skip c s))
  | OpRewind :: r => run_ops P prs skip r (snd (rewind s))
  end.

Lemma run_ops_on r opt P prs skip ops : forall s, on_stream r opt s -> on_stream r opt (run_ops P prs skip ops s).
Proof.
  induction ops as [|[c|] rest IH]; intros s H; [exact H| |]; cbn [run_ops]; apply IH.
  - apply call_on. exact H.
  - apply rewind_on. exact H.
Qed.

Lemma fresh_seek0 r : fresh r -> r_seek0 r = r.
Proof. destruct r. unfold fresh, r_seek0. cbn. intros (-> & -> & _). reflexivity. Qed.

(* C20: a demuxer created on a seekable reader r (at the start of its stream), after ANY history of NextPacket /
   NextData calls and earlier Rewinds (so: mid-unit, with parsed sections still buffered, at end of stream, ...),
   answers Rewind with offset 0 and then returns, for every sequence of calls, exactly what a freshly created demuxer
   on r returns -- provided the fresh run is "PAT first" with respect to the program map retained at that point *)
Theorem rewind_any_history P prs skip r opt ops cs : fresh r -> r_kind r = Seekable ->
  let s := run_ops P prs skip ops (init_dstate r opt) in
  calls_pf (d_pm s) P prs skip cs (init_dstate r opt) ->
  fst (rewind s) = 0 /\ calls P prs skip cs (snd (rewind s)) = calls P prs skip cs (init_dstate r opt).
Proof.
  intros Hf Hk s Hpf.
  assert (Hon : on_stream r opt s) by (apply run_ops_on; split; [apply same_refl|reflexivity]).
  destruct Hon as [Hs Ho].
  assert (Hk' : r_kind (d_reader s) = Seekable) by (destruct Hs as (_ & _ & _ & E); congruence).
  assert (Hinit : init_dstate (r_seek0 (d_reader s)) (d_opt_size s) = init_dstate r opt).
  { rewrite (same_seek0_eq r _ Hs), Ho, (fresh_seek0 r Hf). reflexivity. }
  pose proof (rewind_equals_fresh P prs skip s cs Hk') as H. rewrite Hinit in H. apply H. exact Hpf.
Qed.

Theorem rewind_any_history_packets P prs skip r opt ops cs : fresh r -> r_kind r = Seekable ->
  let s := run_ops P prs skip ops (init_dstate r opt) in
  calls_pk (d_pm s) P prs skip cs (init_dstate r opt) ->
  fst (rewind s) = 0 /\ calls P prs skip cs (snd (rewind s)) = calls P prs skip cs (init_dstate r opt).
Proof.
  intros Hf Hk s Hpk. apply rewind_any_history; [exact Hf|exact Hk|]. apply calls_of_pk; [apply pinv_init|exact Hpk].
Qed.

(* one hypothesis for all rewind points: the fresh run is PAT-first with respect to a set pm1 of PIDs; then Rewind is
   clean at every point of every history at which the retained map is within pm1 *)
Theorem rewind_any_history_within P prs skip r opt ops cs pm1 : fresh r -> r_kind r = Seekable ->
  let s := run_ops P prs skip ops (init_dstate r opt) in
  pm_sub (d_pm s) pm1 -> calls_pk pm1 P prs skip cs (init_dstate r opt) ->
  fst (rewind s) = 0 /\ calls P prs skip cs (snd (rewind s)) = calls P prs skip cs (init_dstate r opt).
Proof.
  intros Hf Hk s Hsub Hpk. apply rewind_any_history_packets; [exact Hf|exact Hk|].
  exact (calls_pk_sub _ _ _ _ _ _ Hsub _ Hpk).
Qed.
