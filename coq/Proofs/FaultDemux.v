(* C18 at the level of Demuxer calls: a reader that fails (with an error other than end of file) at byte offset f.

   Two runs of the same call sequence are compared: over a reader r that does not fail, and over the same reader with
   r_fault = Some f (same bytes, same kind, same position), 0 <= f <= length of the stream.

   Part 1 (simulation, no hypothesis on the bytes, the parsers, the skipper or the size option): as long as the reader
   has not been asked for a byte at or beyond f the two runs are in lock step — equal results, states equal except the
   fault field — and the first call that asks for such a byte returns the injected error.
   Part 2 (the failing run alone, bytes_ok input, size option 0 or >= 188, non-panicking PacketsParser): no call ever
   returns ErrNoMorePackets or panics; a call that returned the injected error leaves the Demuxer stuck: every later
   NextPacket returns the injected error again, NextData first hands out what an earlier call had left in the data
   buffer (the remaining data of a unit that was parsed completely before the failure) and then returns the error.
   Part 3: the two together, call by call. *)
From Coq Require Import ZArith List Lia Bool ZifyBool.
Require Import Base.Bits Base.Iter Gen.Consts Gen.Types Gen.Preds Model.Packet Model.Pool Model.Reader Model.Demux
  Model.Pes Model.Psi Model.DemuxFull.
Require Import Proofs.SafeProofs Proofs.SafeUnits Proofs.SafePsi Proofs.ReaderProofs Proofs.DemuxProofs Proofs.SafeDemux
  Proofs.FaultProofs.
Import ListNotations.
Open Scope Z_scope.

(* the same reader, failing at offset f *)
Definition flt (f : Z) (r : reader) : reader :=
  mk_reader (r_all r) (r_rest r) (r_pos r) (r_total r) (Some f) (r_kind r).
Definition dflt (f : Z) (s : dstate) : dstate := set_reader s (flt f (d_reader s)).

Lemma flt_new_reader f data k : flt f (new_reader data None k) = new_reader data (Some f) k.
Proof. reflexivity. Qed.
Lemma dflt_init f data k opt :
  dflt f (init_dstate (new_reader data None k) opt) = init_dstate (new_reader data (Some f) k) opt.
Proof. reflexivity. Qed.

(* the reader that does not fail, not yet beyond f *)
Definition gr (f : Z) (r : reader) : Prop := r_fault r = None /\ 0 <= f <= r_total r /\ r_pos r <= f.

Lemma gr_new_reader f data k : 0 <= f <= Z.of_nat (length data) -> gr f (new_reader data None k).
Proof. intros H. unfold gr, new_reader. cbn. repeat split; lia. Qed.

(* ================= Part 1: the simulation ================= *)

(* io.ReadFull: either the same bytes in both runs (and f is still ahead), or the failing reader reports the fault *)
Lemma read_full_sim f r n : gr f r ->
  (read_full (flt f r) n = (fst (read_full r n), flt f (snd (read_full r n))) /\
   gr f (snd (read_full r n)) /\ snd (fst (read_full r n)) = None)
  \/ (exists bs, read_full (flt f r) n = ((bs, Some RInjected), flt f (r_advance r (f - r_pos r)))).
Proof.
  intros (Hf & Hle & Hpos).
  assert (Hs : r_stop (flt f r) = (f, true)).
  { unfold r_stop, r_len. cbn [flt r_fault r_total]. destruct (f <=? r_total r) eqn:E; [reflexivity|lia]. }
  assert (Hs0 : r_stop r = (r_total r, false)) by (unfold r_stop; rewrite Hf; reflexivity).
  unfold read_full. rewrite Hs, Hs0. change (r_pos (flt f r)) with (r_pos r). change (r_rest (flt f r)) with (r_rest r).
  replace (Z.max 0 (f - r_pos r)) with (f - r_pos r) by lia.
  destruct (n <=? f - r_pos r) eqn:E1.
  - left. destruct (n <=? Z.max 0 (r_total r - r_pos r)) eqn:E2; [|lia]. cbn [fst snd].
    split; [reflexivity|]. split; [|reflexivity]. unfold gr. cbn [r_advance r_fault r_total r_pos]. repeat split; auto; lia.
  - right. eexists. reflexivity.
Qed.

Lemma flt_seek0 f r : r_seek0 (flt f r) = flt f (r_seek0 r).
Proof. reflexivity. Qed.

Lemma gr_seek0 f r : gr f r -> gr f (r_seek0 r).
Proof. intros (H1 & H2 & H3). unfold gr. cbn [r_seek0 r_fault r_total r_pos]. repeat split; auto; lia. Qed.

(* autoDetectPacketSize, the three reader kinds *)
Lemma auto_detect_sim f r : gr f r ->
  (auto_detect (flt f r) = (fst (auto_detect r), flt f (snd (auto_detect r))) /\ gr f (snd (auto_detect r)))
  \/ fst (auto_detect (flt f r)) = Err E_injected.
Proof.
  intros Hg. unfold auto_detect. change (r_kind (flt f r)) with (r_kind r).
  destruct (read_full_sim f r detect_window Hg) as [(E1 & G1 & N1)|[bs0 E1]].
  2:{ right. rewrite E1. destruct (r_kind r); reflexivity. }
  rewrite E1. destruct (read_full r detect_window) as [[bs e] r1]. cbn [fst snd] in *. subst e.
  destruct (r_kind r) eqn:Ek.
  - (* Plain *)
    destruct (negb (nth 0 (pad_to bs detect_window) 0 =? syncByte)); [left; cbn [fst snd]; auto|].
    destruct (find_sync (pad_to bs detect_window) 0) as [ps|]; [|left; cbn [fst snd]; auto].
    destruct (read_full_sim f r1 (ps - (detect_window - ps)) G1) as [(E2 & G2 & N2)|[bs2 E2]].
    + rewrite E2. destruct (read_full r1 (ps - (detect_window - ps))) as [[b2 e2] r2]. cbn [fst snd] in *. subst e2.
      left. cbn [fst snd]. auto.
    + right. rewrite E2. reflexivity.
  - (* Seekable *)
    destruct (negb (nth 0 (pad_to bs detect_window) 0 =? syncByte)); [left; cbn [fst snd]; auto|].
    destruct (find_sync (pad_to bs detect_window) 0) as [ps|]; [|left; cbn [fst snd]; auto].
    left. cbn [fst snd]. rewrite flt_seek0. split; [reflexivity|apply gr_seek0; exact G1].
  - (* Bufio *)
    destruct (negb (nth 0 (pad_to bs detect_window) 0 =? syncByte)); [left; cbn [fst snd]; auto|].
    destruct (find_sync (pad_to bs detect_window) 0) as [ps|]; left; cbn [fst snd]; auto.
Qed.

(* packetBuffer.next with its loop over skipped packets *)
Lemma pb_next_sim f skip size : forall fuel r, gr f r ->
  (pb_next fuel skip size (flt f r) =
     (fst (fst (pb_next fuel skip size r)), flt f (snd (fst (pb_next fuel skip size r))), snd (pb_next fuel skip size r)) /\
   gr f (snd (fst (pb_next fuel skip size r))))
  \/ fst (fst (pb_next fuel skip size (flt f r))) = Err E_injected.
Proof.
  induction fuel as [|k IH]; intros r Hg; [left; cbn; auto|].
  cbn [pb_next]. destruct (read_full_sim f r size Hg) as [(E1 & G1 & N1)|[bs0 E1]].
  2:{ right. rewrite E1. reflexivity. }
  rewrite E1. destruct (read_full r size) as [[bs e] r1]. cbn [fst snd] in *. subst e.
  destruct (run_iter (parse_packet skip) bs) as [p|c|]; [left; cbn [fst snd]; auto| |left; cbn [fst snd]; auto].
  destruct (c =? E_skipped); [|left; cbn [fst snd]; auto].
  destruct (IH r1 G1) as [(E2 & G2)|E2].
  - left. rewrite E2. destruct (pb_next k skip size r1) as [[x r''] l]. cbn [fst snd] in *. auto.
  - right. destruct (pb_next k skip size (flt f r1)) as [[x r''] l]. cbn [fst snd] in *. exact E2.
Qed.

Lemma packet_buffer_next_sim f skip pb r : gr f r ->
  (packet_buffer_next skip pb (flt f r) =
     (fst (fst (packet_buffer_next skip pb r)), flt f (snd (fst (packet_buffer_next skip pb r))), snd (packet_buffer_next skip pb r)) /\
   gr f (snd (fst (packet_buffer_next skip pb r))))
  \/ fst (fst (packet_buffer_next skip pb (flt f r))) = Err E_injected.
Proof.
  intros Hg. unfold packet_buffer_next.
  destruct (pb_size pb <? 0); [left; cbn [fst snd]; auto|].
  destruct (pb_size pb =? 0); [left; cbn [fst snd]; auto|].
  change (packets_left (flt f r) (pb_size pb)) with (packets_left r (pb_size pb)).
  apply pb_next_sim; exact Hg.
Qed.

(* NextPacket *)
Lemma next_packet_sim f skip s : gr f (d_reader s) ->
  (next_packet skip (dflt f s) = (fst (next_packet skip s), dflt f (snd (next_packet skip s))) /\
   gr f (d_reader (snd (next_packet skip s))))
  \/ fst (next_packet skip (dflt f s)) = Err E_injected.
Proof.
  intros Hg. unfold next_packet. cbn [dflt set_reader d_pb d_reader d_opt_size].
  assert (Hwith : forall pb r s0, gr f r ->
    (let '(rp, r', l) := packet_buffer_next skip pb (flt f r) in (rp, log_consulted (set_reader (dflt f s0) r') l)) =
      (fst (let '(rp, r', l) := packet_buffer_next skip pb r in (rp, log_consulted (set_reader s0 r') l)),
       dflt f (snd (let '(rp, r', l) := packet_buffer_next skip pb r in (rp, log_consulted (set_reader s0 r') l)))) /\
      gr f (d_reader (snd (let '(rp, r', l) := packet_buffer_next skip pb r in (rp, log_consulted (set_reader s0 r') l))))
    \/ fst (let '(rp, r', l) := packet_buffer_next skip pb (flt f r) in (rp, log_consulted (set_reader (dflt f s0) r') l)) = Err E_injected).
  { intros pb r s0 G. destruct (packet_buffer_next_sim f skip pb r G) as [(E & G')|E].
    - left. rewrite E. destruct (packet_buffer_next skip pb r) as [[rp r'] l]. cbn [fst snd] in *. split; [reflexivity|exact G'].
    - right. destruct (packet_buffer_next skip pb (flt f r)) as [[rp r'] l]. cbn [fst snd] in *. exact E. }
  destruct (d_pb s) as [pb|].
  - exact (Hwith pb (d_reader s) s Hg).
  - unfold new_packet_buffer. destruct (d_opt_size s =? 0).
    + destruct (auto_detect_sim f (d_reader s) Hg) as [(E & G')|E].
      * rewrite E. destruct (auto_detect (d_reader s)) as [[ps|c|] r']; cbn [fst snd] in *.
        -- exact (Hwith (mk_pbuf ps) r' (set_pb (set_reader s r') (Some (mk_pbuf ps))) G').
        -- left. split; [reflexivity|exact G'].
        -- left. split; [reflexivity|exact G'].
      * right. destruct (auto_detect (flt f (d_reader s))) as [[ps|c|] r']; cbn [fst] in E; try discriminate.
        inversion E; subst. reflexivity.
    + exact (Hwith (mk_pbuf (d_opt_size s)) (d_reader s) (set_pb (set_reader s (d_reader s)) (Some (mk_pbuf (d_opt_size s)))) Hg).
Qed.

(* everything after the NextPacket call of a NextData iteration looks at the reader not at all *)
Lemma update_data_flt f s ds :
  update_data (dflt f s) ds = (fst (update_data s ds), dflt f (snd (update_data s ds))).
Proof. destruct ds; reflexivity. Qed.

Lemma update_data_reader s ds : d_reader (snd (update_data s ds)) = d_reader s.
Proof. destruct ds; reflexivity. Qed.

Lemma drain_flt f P prs fuel : forall s,
  drain P prs fuel (dflt f s) = (fst (drain P prs fuel s), dflt f (snd (drain P prs fuel s))) /\
  d_reader (snd (drain P prs fuel s)) = d_reader s.
Proof.
  induction fuel as [|k IH]; intros s; [split; reflexivity|].
  cbn [drain]. change (d_pool (dflt f s)) with (d_pool s).
  destruct (pool_dump (d_pool s)) as [pl' ps].
  change (set_pool (dflt f s) pl') with (dflt f (set_pool s pl')).
  destruct ps as [|p ps]; [split; reflexivity|].
  change (log_group (dflt f (set_pool s pl')) (p :: ps)) with (dflt f (log_group (set_pool s pl') (p :: ps))).
  set (s1 := log_group (set_pool s pl') (p :: ps)).
  assert (Hr1 : d_reader s1 = d_reader s) by reflexivity.
  change (d_pm (dflt f s1)) with (d_pm s1).
  destruct (parse_data P prs (d_pm s1) (p :: ps)) as [ds|c|].
  - rewrite update_data_flt. pose proof (update_data_reader s1 ds) as Hu.
    destruct (update_data s1 ds) as [[d|] s2]; cbn [fst snd] in *.
    + split; [reflexivity|congruence].
    + destruct (IH s2) as [I1 I2]. split; [exact I1|congruence].
  - destruct (IH s1) as [I1 I2]. split; [exact I1|congruence].
  - split; [reflexivity|exact Hr1].
Qed.

Definition loop_sim_stmt f P prs skip (k : nat) : Prop := forall s, gr f (d_reader s) ->
  (next_data_loop P prs skip k (dflt f s) =
     (fst (next_data_loop P prs skip k s), dflt f (snd (next_data_loop P prs skip k s))) /\
   gr f (d_reader (snd (next_data_loop P prs skip k s))))
  \/ fst (next_data_loop P prs skip k (dflt f s)) = Err E_injected.

Lemma after_packet_sim f P prs skip k : loop_sim_stmt f P prs skip k -> forall rp s1, gr f (d_reader s1) ->
  (after_packet P prs skip k (rp, dflt f s1) =
     (fst (after_packet P prs skip k (rp, s1)), dflt f (snd (after_packet P prs skip k (rp, s1)))) /\
   gr f (d_reader (snd (after_packet P prs skip k (rp, s1)))))
  \/ fst (after_packet P prs skip k (rp, dflt f s1)) = Err E_injected.
Proof.
  intros IH rp s1 Hg. unfold after_packet. destruct rp as [p|c|].
  - change (d_pm (dflt f s1)) with (d_pm s1). change (d_pool (dflt f s1)) with (d_pool s1).
    destruct (pool_add (d_pm s1) (d_pool s1) p) as [pl' ps].
    change (set_pool (dflt f s1) pl') with (dflt f (set_pool s1 pl')).
    destruct ps as [|p0 ps]; [apply IH; exact Hg|].
    change (log_group (dflt f (set_pool s1 pl')) (p0 :: ps)) with (dflt f (log_group (set_pool s1 pl') (p0 :: ps))).
    set (s2 := log_group (set_pool s1 pl') (p0 :: ps)).
    assert (Hg2 : gr f (d_reader s2)) by exact Hg.
    change (d_pm (dflt f s2)) with (d_pm s2).
    destruct (parse_data P prs (d_pm s2) (p0 :: ps)) as [ds|c|]; try (left; split; [reflexivity|exact Hg2]).
    rewrite update_data_flt. pose proof (update_data_reader s2 ds) as Hu.
    destruct (update_data s2 ds) as [[d|] s3]; cbn [fst snd] in *.
    + left. split; [reflexivity|]. rewrite Hu. exact Hg2.
    + apply IH. rewrite Hu. exact Hg2.
  - destruct (c =? E_nomore).
    + change (d_pool (dflt f s1)) with (d_pool s1). destruct (drain_flt f P prs (S (length (d_pool s1))) s1) as [D1 D2].
      left. rewrite D1. split; [reflexivity|]. rewrite D2. exact Hg.
    + left. split; [reflexivity|exact Hg].
  - left. split; [reflexivity|exact Hg].
Qed.

Lemma next_data_loop_sim f P prs skip fuel : loop_sim_stmt f P prs skip fuel.
Proof.
  induction fuel as [|k IH]; intros s Hg; [left; split; [reflexivity|exact Hg]|].
  rewrite !loop_unfold. destruct (next_packet_sim f skip s Hg) as [(E & G)|E].
  - rewrite E. destruct (next_packet skip s) as [rp s1]. cbn [fst snd] in *.
    apply (after_packet_sim f P prs skip k IH); exact G.
  - right. destruct (next_packet skip (dflt f s)) as [rp s1]. cbn [fst] in E. subst rp. reflexivity.
Qed.

(* NextData *)
Lemma next_data_sim f P prs skip s : gr f (d_reader s) ->
  (next_data P prs skip (dflt f s) = (fst (next_data P prs skip s), dflt f (snd (next_data P prs skip s))) /\
   gr f (d_reader (snd (next_data P prs skip s))))
  \/ fst (next_data P prs skip (dflt f s)) = Err E_injected.
Proof.
  intros Hg. unfold next_data. change (d_buffer (dflt f s)) with (d_buffer s).
  destruct (d_buffer s) as [|d rest].
  - change (nd_fuel (dflt f s)) with (nd_fuel s). apply next_data_loop_sim. exact Hg.
  - left. split; [reflexivity|exact Hg].
Qed.

(* one call of either kind: lock step, or the injected error *)
Lemma call_sim f P prs skip c s : gr f (d_reader s) ->
  (call P prs skip c (dflt f s) = (fst (call P prs skip c s), dflt f (snd (call P prs skip c s))) /\
   gr f (d_reader (snd (call P prs skip c s))))
  \/ fst (call P prs skip c (dflt f s)) = Err E_injected.
Proof.
  intros Hg. destruct c; cbn [call].
  - destruct (next_packet_sim f skip s Hg) as [(E & G)|E].
    + left. rewrite E. destruct (next_packet skip s) as [r s']. cbn [fst snd] in *. auto.
    + right. destruct (next_packet skip (dflt f s)) as [r s']. cbn [fst] in *. subst r. reflexivity.
  - destruct (next_data_sim f P prs skip s Hg) as [(E & G)|E].
    + left. rewrite E. destruct (next_data P prs skip s) as [r s']. cbn [fst snd] in *. auto.
    + right. destruct (next_data P prs skip (dflt f s)) as [r s']. cbn [fst] in *. subst r. reflexivity.
Qed.

(* C18 (reader), prefix: for every sequence of NextPacket / NextData calls the results of the failing run agree with
   the fault-free run's up to the first call that returns the injected error — whatever the bytes, the reader kind,
   the size option, the skipper and the parsers are *)
Theorem demux_prefix_state f P prs skip : forall cs s, gr f (d_reader s) ->
  exists k, (k <= length cs)%nat /\
    firstn k (calls P prs skip cs (dflt f s)) = firstn k (calls P prs skip cs s) /\
    ((k < length cs)%nat -> nth_error (calls P prs skip cs (dflt f s)) k = Some (Err E_injected)).
Proof.
  induction cs as [|c cs IH]; intros s Hg.
  - exists O. cbn. repeat split; auto. lia.
  - cbn [calls]. destruct (call_sim f P prs skip c s Hg) as [(E & G)|E].
    + rewrite E. destruct (call P prs skip c s) as [x s']. cbn [fst snd] in *.
      destruct (IH s' G) as (k & Hk & Hpre & Hinj). exists (S k). cbn [length firstn nth_error].
      split; [lia|]. split; [f_equal; exact Hpre|]. intros Hlt. apply Hinj. lia.
    + exists O. destruct (call P prs skip c (dflt f s)) as [x s']. cbn [fst] in E. subst x.
      cbn [length firstn nth_error]. split; [lia|]. split; [reflexivity|]. intros _. reflexivity.
Qed.

Theorem demux_prefix P prs skip data k opt f cs : 0 <= f <= Z.of_nat (length data) ->
  let outs_f := calls P prs skip cs (init_dstate (new_reader data (Some f) k) opt) in
  let outs := calls P prs skip cs (init_dstate (new_reader data None k) opt) in
  exists n, (n <= length cs)%nat /\ firstn n outs_f = firstn n outs /\
    ((n < length cs)%nat -> nth_error outs_f n = Some (Err E_injected)).
Proof.
  intros Hf. cbv zeta. rewrite <- dflt_init. apply demux_prefix_state. apply gr_new_reader. exact Hf.
Qed.

(* ================= Part 2: the failing run by itself ================= *)

(* a reader that fails at f, not yet beyond f *)
Definition fr (f : Z) (r : reader) : Prop := r_fault r = Some f /\ 0 <= f <= r_total r /\ r_pos r <= f.

Lemma fr_new_reader f data k : 0 <= f <= Z.of_nat (length data) -> fr f (new_reader data (Some f) k).
Proof. intros H. unfold fr, new_reader. cbn. repeat split; lia. Qed.

Ltac codes := unfold E_sync, E_generic, E_injected, E_skipped, E_nomore in *; try discriminate; try congruence; try lia.

(* io.ReadFull on it: all n bytes, or the injected error with the reader left exactly at f *)
Lemma read_full_fr f r n : fr f r ->
  fr f (snd (read_full r n)) /\
  ((snd (fst (read_full r n)) = None /\ n <= f - r_pos r) \/
   (snd (fst (read_full r n)) = Some RInjected /\ f - r_pos r < n /\ r_pos (snd (read_full r n)) = f)).
Proof.
  intros (Hf & Hle & Hpos).
  assert (Hs : r_stop r = (f, true)).
  { unfold r_stop, r_len. rewrite Hf. destruct (f <=? r_total r) eqn:E; [reflexivity|lia]. }
  unfold read_full. rewrite Hs. replace (Z.max 0 (f - r_pos r)) with (f - r_pos r) by lia.
  destruct (n <=? f - r_pos r) eqn:E1; cbn [fst snd]; unfold fr; cbn [r_advance r_fault r_total r_pos].
  - split; [repeat split; auto; lia|]. left. split; [reflexivity|lia].
  - split; [repeat split; auto; lia|]. right. split; [reflexivity|]. split; lia.
Qed.

Lemma fr_seek0 f r : fr f r -> fr f (r_seek0 r).
Proof. intros (H1 & H2 & H3). unfold fr. cbn [r_seek0 r_fault r_total r_pos]. repeat split; auto; lia. Qed.

(* autoDetectPacketSize on it: never ErrNoMorePackets; after the injected error a further 193-byte read fails too *)
Lemma auto_detect_fr f r : fr f r ->
  fr f (snd (auto_detect r)) /\ fst (auto_detect r) <> Err E_nomore /\
  (fst (auto_detect r) = Err E_injected -> f - r_pos (snd (auto_detect r)) < detect_window).
Proof.
  intros Hg. unfold auto_detect.
  destruct (read_full_fr f r detect_window Hg) as [F1 R1].
  destruct (r_kind r) eqn:Ek.
  - (* Plain *)
    destruct (read_full r detect_window) as [[bs e] r1]. cbn [fst snd] in *.
    destruct R1 as [[-> Hn]|(-> & Hn & Hp)]; [|cbn [fst snd]; split; [exact F1|split; [codes|intros _; unfold detect_window; lia]]].
    destruct (negb (nth 0 (pad_to bs detect_window) 0 =? syncByte)); [cbn [fst snd]; split; [exact F1|split; codes]|].
    destruct (find_sync (pad_to bs detect_window) 0) as [ps|]; [|cbn [fst snd]; split; [exact F1|split; codes]].
    destruct (read_full_fr f r1 (ps - (detect_window - ps)) F1) as [F2 R2].
    destruct (read_full r1 (ps - (detect_window - ps))) as [[b2 e2] r2]. cbn [fst snd] in *.
    destruct R2 as [[-> Hn2]|(-> & Hn2 & Hp2)]; cbn [fst snd]; (split; [exact F2|split; [codes|]]).
    + codes.
    + intros _. unfold detect_window. lia.
  - (* Seekable *)
    destruct (read_full r detect_window) as [[bs e] r1]. cbn [fst snd] in *.
    destruct R1 as [[-> Hn]|(-> & Hn & Hp)]; [|cbn [fst snd]; split; [exact F1|split; [codes|intros _; unfold detect_window; lia]]].
    destruct (negb (nth 0 (pad_to bs detect_window) 0 =? syncByte)); [cbn [fst snd]; split; [exact F1|split; codes]|].
    destruct (find_sync (pad_to bs detect_window) 0) as [ps|]; cbn [fst snd]; [|split; [exact F1|split; codes]].
    split; [apply fr_seek0; exact F1|split; codes].
  - (* Bufio: Peek consumes nothing *)
    destruct (read_full r detect_window) as [[bs e] r1] eqn:Er. cbn [fst snd] in *.
    destruct R1 as [[-> Hn]|(-> & Hn & Hp)]; [|cbn [fst snd]; split; [exact Hg|split; [codes|intros _; exact Hn]]].
    destruct (negb (nth 0 (pad_to bs detect_window) 0 =? syncByte)); [cbn [fst snd]; split; [exact F1|split; codes]|].
    destruct (find_sync (pad_to bs detect_window) 0) as [ps|]; cbn [fst snd]; [split; [exact Hg|split; codes]|split; [exact F1|split; codes]].
Qed.

Lemma reader_wf_rest_ok r : reader_wf r -> rest_ok r.
Proof. intros (H1 & H2 & _). split; [lia|exact H2]. Qed.

(* packetBuffer.next on it *)
Lemma pb_next_fr f skip size : C_MpegTsPacketSize <= size -> forall fuel r, fr f r -> reader_wf r ->
  fr f (snd (fst (pb_next fuel skip size r))) /\
  (fst (fst (pb_next fuel skip size r)) = Err E_injected -> r_pos (snd (fst (pb_next fuel skip size r))) = f).
Proof.
  intros Hsz. induction fuel as [|k IH]; intros r Hg Hwf; cbn [pb_next]; [cbn [fst snd]; split; [exact Hg|codes]|].
  destruct (read_full_fr f r size Hg) as [F1 R1].
  pose proof (read_full_wf r size Hwf ltac:(unfold C_MpegTsPacketSize in *; lia)) as (W1 & Wb & Wl).
  destruct (read_full r size) as [[bs e] r1]. cbn [fst snd] in *.
  destruct R1 as [[-> Hn]|(-> & Hn & Hp)]; [|cbn [fst snd]; auto].
  pose proof (parse_packet_no_panic skip bs Wb ltac:(rewrite (Wl eq_refl); exact Hsz)) as Hpp.
  destruct (run_iter (parse_packet skip) bs) as [p|c|]; cbn [fst snd]; [split; [exact F1|codes]| |contradiction].
  destruct (c =? E_skipped) eqn:Ec.
  - specialize (IH r1 F1 W1). destruct (pb_next k skip size r1) as [[x r''] l]. cbn [fst snd] in *. exact IH.
  - cbn [fst snd]. split; [exact F1|]. intros E. inversion E; subst. destruct Hpp as [[Hc|Hc]|Hc]; codes.
Qed.

Lemma packet_buffer_next_fr f skip pb r : C_MpegTsPacketSize <= pb_size pb -> fr f r -> reader_wf r ->
  fr f (snd (fst (packet_buffer_next skip pb r))) /\
  fst (fst (packet_buffer_next skip pb r)) <> Err E_nomore /\
  (fst (fst (packet_buffer_next skip pb r)) = Err E_injected -> r_pos (snd (fst (packet_buffer_next skip pb r))) = f).
Proof.
  intros Hsz Hg Hwf. unfold packet_buffer_next. unfold C_MpegTsPacketSize in Hsz.
  destruct (pb_size pb <? 0) eqn:E1; [lia|]. destruct (pb_size pb =? 0) eqn:E2; [lia|].
  destruct (pb_next_fr f skip (pb_size pb) ltac:(unfold C_MpegTsPacketSize; lia) (packets_left r (pb_size pb)) r Hg Hwf) as [A B].
  split; [exact A|]. split; [|exact B].
  destruct Hg as (Hf & Hle & Hpos). pose proof Hwf as (L1 & _ & _ & _ & L5).
  apply (pb_next_fuel_enough skip (pb_size pb) ltac:(unfold C_MpegTsPacketSize; lia) _ r f Hf ltac:(lia) Hpos (reader_wf_rest_ok r Hwf)).
  unfold packets_left, r_len. replace (Z.max 1 (pb_size pb)) with (pb_size pb) by lia.
  set (q := (r_total r - r_pos r) / pb_size pb).
  assert (Hq : 0 <= q) by (apply Z.div_pos; lia).
  pose proof (Z.mod_pos_bound (r_total r - r_pos r) (pb_size pb) ltac:(lia)) as Hm.
  pose proof (Z.div_mod (r_total r - r_pos r) (pb_size pb) ltac:(lia)) as Hd. fold q in Hd.
  rewrite Nat2Z.inj_succ, Z2Nat.id by lia. nia.
Qed.

(* the number of bytes the next read of the Demuxer asks for *)
Definition need (s : dstate) : Z :=
  match d_pb s with
  | Some pb => pb_size pb
  | None => if d_opt_size s =? 0 then detect_window else d_opt_size s
  end.

(* the invariant of the failing run, and the state after the failure has been reported: the next read fails *)
Definition finv (f : Z) (s : dstate) : Prop := dinv s /\ fr f (d_reader s).
Definition stuck (f : Z) (s : dstate) : Prop := finv f s /\ f - r_pos (d_reader s) < need s.

Lemma init_finv f data k opt : bytes_ok data -> (opt = 0 \/ C_MpegTsPacketSize <= opt) ->
  0 <= f <= Z.of_nat (length data) -> finv f (init_dstate (new_reader data (Some f) k) opt).
Proof. intros Hb Ho Hf. split; [apply init_inv; assumption|apply fr_new_reader; exact Hf]. Qed.

Lemma next_packet_buffer skip s : d_buffer (snd (next_packet skip s)) = d_buffer s.
Proof.
  unfold next_packet. destruct (d_pb s) as [pb|].
  - destruct (packet_buffer_next skip pb (d_reader s)) as [[rp r'] l]. reflexivity.
  - destruct (new_packet_buffer (d_reader s) (d_opt_size s)) as [[pb|c|] r']; try reflexivity.
    cbn. destruct (packet_buffer_next skip pb r') as [[rp r''] l]. reflexivity.
Qed.

(* NextPacket in the failing run *)
Lemma next_packet_finv f skip s : finv f s ->
  finv f (snd (next_packet skip s)) /\ fst (next_packet skip s) <> Err E_nomore /\
  (fst (next_packet skip s) = Err E_injected -> stuck f (snd (next_packet skip s))).
Proof.
  intros [Hinv Hfr]. pose proof (next_packet_inv skip s Hinv) as [Hinv' _].
  pose proof Hinv as (Hr & Hpb & Hpl & Hopt).
  assert (Hmain : fr f (d_reader (snd (next_packet skip s))) /\ fst (next_packet skip s) <> Err E_nomore /\
                  (fst (next_packet skip s) = Err E_injected -> f - r_pos (d_reader (snd (next_packet skip s))) < need (snd (next_packet skip s)))).
  { unfold next_packet. destruct (d_pb s) as [pb|] eqn:Epb.
    - destruct (packet_buffer_next_fr f skip pb (d_reader s) Hpb Hfr Hr) as (A & B & C).
      destruct (packet_buffer_next skip pb (d_reader s)) as [[rp r'] l]. cbn [fst snd] in *.
      unfold need. cbn [log_consulted set_reader d_reader d_pb]. rewrite Epb.
      split; [exact A|]. split; [exact B|]. intros E. rewrite (C E). unfold C_MpegTsPacketSize in Hpb. lia.
    - unfold new_packet_buffer. destruct (d_opt_size s =? 0) eqn:E0.
      + destruct (auto_detect_fr f (d_reader s) Hfr) as (A & B & C).
        pose proof (auto_detect_wf (d_reader s) Hr) as [W A0].
        destruct (auto_detect (d_reader s)) as [[ps|c|] r']; cbn [fst snd] in *; [| |contradiction].
        * destruct (packet_buffer_next_fr f skip (mk_pbuf ps) r' A0 A W) as (A' & B' & C').
          cbn [set_pb set_reader d_reader].
          destruct (packet_buffer_next skip (mk_pbuf ps) r') as [[rp r''] l]. cbn [fst snd] in *.
          unfold need. cbn [log_consulted set_reader set_pb d_reader d_pb pb_size].
          split; [exact A'|]. split; [exact B'|]. intros E. rewrite (C' E). unfold C_MpegTsPacketSize in A0. lia.
        * unfold need. cbn [set_reader d_reader d_pb d_opt_size]. rewrite Epb, E0.
          split; [exact A|]. split; [intros E; apply B; inversion E; reflexivity|].
          intros E. apply C. inversion E; reflexivity.
      + assert (Hsz : C_MpegTsPacketSize <= d_opt_size s) by (destruct Hopt; [lia|assumption]).
        destruct (packet_buffer_next_fr f skip (mk_pbuf (d_opt_size s)) (d_reader s) Hsz Hfr Hr) as (A' & B' & C').
        cbn [set_pb set_reader d_reader].
        destruct (packet_buffer_next skip (mk_pbuf (d_opt_size s)) (d_reader s)) as [[rp r''] l]. cbn [fst snd] in *.
        unfold need. cbn [log_consulted set_reader set_pb d_reader d_pb pb_size].
        split; [exact A'|]. split; [exact B'|]. intros E. rewrite (C' E). unfold C_MpegTsPacketSize in Hsz. lia. }
  destruct Hmain as (M1 & M2 & M3). split; [split; assumption|]. split; [exact M2|].
  intros E. split; [split; assumption|exact (M3 E)].
Qed.

(* parseData reports only the generic error or "no sync byte" (the unit parsers' codes; a failing PacketsParser is
   mapped to the generic error) *)
Lemma parse_data_codes prs pm ps c : queue_ok ps -> parse_data full_parsers prs pm ps = Err c -> ok_code c.
Proof.
  intros Hok. unfold parse_data.
  assert (Hdef : forall ds0,
    match ps with
    | [] => Panic
    | p0 :: _ =>
        if pid_of p0 =? C_PIDCAT then Ok ds0
        else if isPSIPayload (pid_of p0) (pm_mem pm)
             then dp_psi full_parsers (concat_payload ps)
                    {| Packet_AdaptationField := Packet_AdaptationField p0; Packet_Header := Packet_Header p0; Packet_Payload := [] |}
                    (pid_of p0)
             else if isPESPayload (concat_payload ps)
                  then res_map (fun pes => [pes_data {| Packet_AdaptationField := Packet_AdaptationField p0; Packet_Header := Packet_Header p0; Packet_Payload := [] |} pes (pid_of p0)])
                         (dp_pes full_parsers (concat_payload ps))
                  else Ok ds0
    end = Err c -> ok_code c).
  { intros ds0. destruct ps as [|p0 r]; [discriminate|].
    pose proof (concat_payload_ok _ Hok) as Hb.
    destruct (pid_of p0 =? C_PIDCAT); [discriminate|].
    destruct (isPSIPayload (pid_of p0) (pm_mem pm)).
    - cbn [full_parsers dp_psi]. pose proof (parse_psi_data_no_panic _ Hb) as H.
      destruct (parse_psi_data_bytes (concat_payload (p0 :: r))); cbn [res_map]; try discriminate.
      intros E; inversion E; subst. exact H.
    - destruct (isPESPayload (concat_payload (p0 :: r))); [|discriminate].
      cbn [full_parsers dp_pes]. pose proof (parse_pes_data_no_panic _ Hb) as H.
      destruct (parse_pes_data_bytes (concat_payload (p0 :: r))); cbn [res_map]; try discriminate.
      intros E; inversion E; subst. exact H. }
  destruct prs as [g|]; [|apply Hdef].
  destruct (g ps) as [[ds [|]]|c'|]; try discriminate; [apply Hdef|]. intros E; inversion E; subst. left; reflexivity.
Qed.

Lemma set_pool_finv f s pl : finv f s -> pool_ok pl -> finv f (set_pool s pl).
Proof. intros [H1 H2] Hpl. split; [apply set_pool_inv; assumption|exact H2]. Qed.

Lemma update_data_finv f s ds : finv f s -> finv f (snd (update_data s ds)).
Proof. intros [H1 H2]. split; [apply update_data_inv; exact H1|rewrite update_data_reader; exact H2]. Qed.

Lemma stuck_same f s s' : stuck f s -> finv f s' -> d_reader s' = d_reader s -> need s' = need s -> stuck f s'.
Proof. intros [_ H] Hf Hr Hn. split; [exact Hf|]. rewrite Hr, Hn. exact H. Qed.

(* the NextData loop in the failing run: no ErrNoMorePackets (so the end-of-stream drain is never entered), no panic;
   the injected error leaves the Demuxer stuck, and an error leaves the data buffer as it was *)
Lemma next_data_loop_finv f prs skip : parser_no_panic prs -> forall fuel s, finv f s ->
  let x := next_data_loop full_parsers prs skip fuel s in
  finv f (snd x) /\ fst x <> Err E_nomore /\ fst x <> Panic /\
  (fst x = Err E_injected -> stuck f (snd x)) /\
  (forall c, fst x = Err c -> d_buffer (snd x) = d_buffer s).
Proof.
  intros Hprs. induction fuel as [|k IH]; intros s Hs; cbv zeta.
  - cbn [next_data_loop fst snd]. split; [exact Hs|]. repeat split; try codes.
  - cbn [next_data_loop].
    destruct (next_packet_finv f skip s Hs) as (Hs1 & Hnm & Hst).
    pose proof (next_packet_inv skip s (proj1 Hs)) as [_ Hpk].
    pose proof (next_packet_buffer skip s) as Hbuf.
    destruct (next_packet skip s) as [[p|c|] s1]; cbn [fst snd] in *; [| |contradiction].
    + pose proof Hs1 as ((_ & _ & Hpl & _) & _).
      pose proof (pool_add_ok (d_pm s1) (d_pool s1) p Hpl Hpk) as [A1 A2].
      destruct (pool_add (d_pm s1) (d_pool s1) p) as [pl' ps]. cbn [fst snd] in A1, A2.
      pose proof (set_pool_finv f s1 pl' Hs1 A1) as Hs2.
      destruct ps as [|q ps].
      { destruct (IH (set_pool s1 pl') Hs2) as (I1 & I2 & I3 & I4 & I5).
        split; [exact I1|]. split; [exact I2|]. split; [exact I3|]. split; [exact I4|].
        intros c Hc. rewrite (I5 c Hc). cbn [set_pool d_buffer]. exact Hbuf. }
      set (s2 := log_group (set_pool s1 pl') (q :: ps)).
      assert (Hs2' : finv f s2) by exact Hs2.
      assert (Hb2 : d_buffer s2 = d_buffer s) by exact Hbuf.
      pose proof (parse_data_no_panic prs (d_pm s2) (q :: ps) Hprs ltac:(discriminate) A2) as Hpd.
      pose proof (parse_data_codes prs (d_pm s2) (q :: ps)) as Hcodes.
      destruct (parse_data full_parsers prs (d_pm s2) (q :: ps)) as [ds|c|]; [| |contradiction].
      * pose proof (update_data_finv f s2 ds Hs2') as Hu.
        assert (Hub : forall s3, update_data s2 ds = (None, s3) -> d_buffer s3 = d_buffer s2).
        { destruct ds; cbn [update_data]; intros s3 E; inversion E; reflexivity. }
        destruct (update_data s2 ds) as [[d|] s3]; cbn [fst snd] in *.
        -- split; [exact Hu|]. repeat split; try codes.
        -- destruct (IH s3 Hu) as (I1 & I2 & I3 & I4 & I5).
           split; [exact I1|]. split; [exact I2|]. split; [exact I3|]. split; [exact I4|].
           intros c Hc. rewrite (I5 c Hc), (Hub s3 eq_refl). exact Hb2.
      * cbn [fst snd]. specialize (Hcodes c A2 eq_refl). split; [exact Hs2'|].
        split; [intros E; inversion E; subst; destruct Hcodes; codes|]. split; [discriminate|].
        split; [intros E; inversion E; subst; destruct Hcodes; codes|]. intros _ _. exact Hb2.
    + destruct (c =? E_nomore) eqn:Ec.
      { exfalso. apply Hnm. f_equal. lia. }
      cbn [fst snd]. split; [exact Hs1|]. split; [intros E; inversion E; subst; rewrite Z.eqb_refl in Ec; discriminate|].
      split; [discriminate|]. split; [intros E; inversion E; subst; apply Hst; reflexivity|]. intros _ _. exact Hbuf.
Qed.

(* NextData in the failing run *)
Lemma next_data_finv f prs skip s : parser_no_panic prs -> finv f s ->
  let x := next_data full_parsers prs skip s in
  finv f (snd x) /\ fst x <> Err E_nomore /\ fst x <> Panic /\
  (fst x = Err E_injected -> stuck f (snd x) /\ d_buffer (snd x) = []).
Proof.
  intros Hprs Hs. cbv zeta. unfold next_data. destruct (d_buffer s) as [|d rest] eqn:Eb.
  - destruct (next_data_loop_finv f prs skip Hprs (nd_fuel s) s Hs) as (I1 & I2 & I3 & I4 & I5).
    split; [exact I1|]. split; [exact I2|]. split; [exact I3|]. intros E. split; [exact (I4 E)|].
    rewrite (I5 _ E). exact Eb.
  - cbn [fst snd]. split; [exact Hs|]. repeat split; discriminate.
Qed.

(* C18 (reader), never ErrNoMorePackets, never a panic: every call of the failing run *)
Lemma calls_finv f prs skip : parser_no_panic prs -> forall cs s, finv f s ->
  Forall (fun x => x <> Err E_nomore /\ x <> Panic) (calls full_parsers prs skip cs s).
Proof.
  intros Hprs. induction cs as [|c cs IH]; intros s Hs; [constructor|].
  cbn [calls]. destruct c; cbn [call].
  - destruct (next_packet_finv f skip s Hs) as (H1 & H2 & _).
    pose proof (next_packet_inv skip s (proj1 Hs)) as [_ Hp].
    destruct (next_packet skip s) as [r s']. cbn [fst snd] in *. constructor; [|apply IH; exact H1].
    destruct r as [p|c|]; cbn [res_map]; [split; discriminate|split; [intros E; apply H2; inversion E; reflexivity|discriminate]|contradiction].
  - destruct (next_data_finv f prs skip s Hprs Hs) as (H1 & H2 & H3 & _).
    destruct (next_data full_parsers prs skip s) as [r s']. cbn [fst snd] in *. constructor; [|apply IH; exact H1].
    destruct r as [p|c|]; cbn [res_map]; [split; discriminate|split; [intros E; apply H2; inversion E; reflexivity|discriminate]|contradiction].
Qed.

Theorem demux_never_nomore prs skip data k opt f cs : bytes_ok data -> (opt = 0 \/ C_MpegTsPacketSize <= opt) ->
  parser_no_panic prs -> 0 <= f <= Z.of_nat (length data) ->
  Forall (fun x => x <> Err E_nomore /\ x <> Panic)
         (calls full_parsers prs skip cs (init_dstate (new_reader data (Some f) k) opt)).
Proof. intros Hb Ho Hp Hf. apply (calls_finv f prs skip Hp). apply init_finv; assumption. Qed.

(* ---- after the failure: the Demuxer is stuck ---- *)

Lemma read_full_stuck f r n : fr f r -> f - r_pos r < n -> snd (fst (read_full r n)) = Some RInjected.
Proof. intros Hg Hn. destruct (read_full_fr f r n Hg) as [_ [[_ H]|[H _]]]; [lia|exact H]. Qed.

Lemma auto_detect_stuck f r : fr f r -> f - r_pos r < detect_window -> fst (auto_detect r) = Err E_injected.
Proof.
  intros Hg Hn. pose proof (read_full_stuck f r detect_window Hg Hn) as H. unfold auto_detect.
  destruct (r_kind r); destruct (read_full r detect_window) as [[bs e] r1]; cbn [fst snd] in H; subst e; reflexivity.
Qed.

Lemma packet_buffer_next_stuck f skip pb r : 0 < pb_size pb -> fr f r -> f - r_pos r < pb_size pb ->
  fst (fst (packet_buffer_next skip pb r)) = Err E_injected.
Proof.
  intros Hsz Hg Hn. unfold packet_buffer_next.
  destruct (pb_size pb <? 0) eqn:E1; [lia|]. destruct (pb_size pb =? 0) eqn:E2; [lia|].
  unfold packets_left. cbn [pb_next]. pose proof (read_full_stuck f r (pb_size pb) Hg Hn) as H.
  destruct (read_full r (pb_size pb)) as [[bs e] r1]. cbn [fst snd] in H. subst e. reflexivity.
Qed.

(* NextPacket on a stuck Demuxer returns the injected error again and leaves it stuck *)
Lemma stuck_next_packet f skip s : stuck f s ->
  fst (next_packet skip s) = Err E_injected /\ stuck f (snd (next_packet skip s)).
Proof.
  intros [Hs Hn]. destruct (next_packet_finv f skip s Hs) as (_ & _ & Hst).
  assert (E : fst (next_packet skip s) = Err E_injected).
  { destruct Hs as [(Hr & Hpb & Hpl & Hopt) Hfr]. unfold need in Hn. unfold next_packet.
    destruct (d_pb s) as [pb|].
    - pose proof (packet_buffer_next_stuck f skip pb (d_reader s) ltac:(unfold C_MpegTsPacketSize in Hpb; lia) Hfr Hn) as H.
      destruct (packet_buffer_next skip pb (d_reader s)) as [[rp r'] l]. cbn [fst] in *. exact H.
    - unfold new_packet_buffer. destruct (d_opt_size s =? 0) eqn:E0.
      + pose proof (auto_detect_stuck f (d_reader s) Hfr Hn) as H.
        destruct (auto_detect (d_reader s)) as [x r']. cbn [fst] in H. subst x. reflexivity.
      + assert (Hsz : C_MpegTsPacketSize <= d_opt_size s) by (destruct Hopt; [lia|assumption]).
        pose proof (packet_buffer_next_stuck f skip (mk_pbuf (d_opt_size s)) (d_reader s)
                      ltac:(cbn [pb_size]; unfold C_MpegTsPacketSize in Hsz; lia) Hfr Hn) as H.
        cbn [set_pb set_reader d_reader].
        destruct (packet_buffer_next skip (mk_pbuf (d_opt_size s)) (d_reader s)) as [[rp r'] l]. cbn [fst] in *. exact H. }
  split; [exact E|exact (Hst E)].
Qed.

(* NextData on a stuck Demuxer: the data buffer first, then the injected error *)
Lemma stuck_next_data f prs skip s : stuck f s ->
  match d_buffer s with
  | d :: rest => fst (next_data full_parsers prs skip s) = Ok d /\ d_buffer (snd (next_data full_parsers prs skip s)) = rest
  | [] => fst (next_data full_parsers prs skip s) = Err E_injected /\ d_buffer (snd (next_data full_parsers prs skip s)) = []
  end /\ stuck f (snd (next_data full_parsers prs skip s)).
Proof.
  intros Hst. unfold next_data. destruct (d_buffer s) as [|d rest] eqn:Eb.
  - unfold nd_fuel. cbn [next_data_loop]. destruct (stuck_next_packet f skip s Hst) as [E S1].
    pose proof (next_packet_buffer skip s) as Hbuf.
    destruct (next_packet skip s) as [rp s1]. cbn [fst snd] in *. subst rp.
    change (E_injected =? E_nomore) with false. cbn [fst snd]. split; [split; [reflexivity|congruence]|exact S1].
  - cbn [fst snd]. split; [split; reflexivity|]. destruct Hst as [[(Hr & Hpb & Hpl & Hopt) Hfr] Hn].
    split; [split; [split; [exact Hr|split; [exact Hpb|split; [exact Hpl|exact Hopt]]]|exact Hfr]|exact Hn].
Qed.

(* from a stuck Demuxer with an empty data buffer every call returns the injected error *)
Lemma stuck_forever f prs skip : forall cs s, stuck f s -> d_buffer s = [] ->
  Forall (fun x => x = Err E_injected) (calls full_parsers prs skip cs s).
Proof.
  induction cs as [|c cs IH]; intros s Hst Hb; [constructor|]. cbn [calls]. destruct c; cbn [call].
  - destruct (stuck_next_packet f skip s Hst) as [E S1]. pose proof (next_packet_buffer skip s) as Hbuf.
    destruct (next_packet skip s) as [r s']. cbn [fst snd] in *. subst r. constructor; [reflexivity|].
    apply IH; [exact S1|congruence].
  - destruct (stuck_next_data f prs skip s Hst) as [H S1]. rewrite Hb in H. destruct H as [E Hb'].
    destruct (next_data full_parsers prs skip s) as [r s']. cbn [fst snd] in *. subst r. constructor; [reflexivity|].
    apply IH; assumption.
Qed.

(* from a stuck Demuxer in general: NextPacket returns the injected error; NextData returns it or a buffered datum *)
Definition after_fault (c : dcall) (x : dres) : Prop :=
  match c with
  | CallPacket => x = Err E_injected
  | CallData => x = Err E_injected \/ exists d, x = Ok (inr d)
  end.

Lemma stuck_calls f prs skip : forall cs s, stuck f s ->
  Forall2 after_fault cs (calls full_parsers prs skip cs s).
Proof.
  induction cs as [|c cs IH]; intros s Hst; [constructor|]. cbn [calls]. destruct c; cbn [call].
  - destruct (stuck_next_packet f skip s Hst) as [E S1].
    destruct (next_packet skip s) as [r s']. cbn [fst snd] in *. subst r. constructor; [reflexivity|apply IH; exact S1].
  - destruct (stuck_next_data f prs skip s Hst) as [H S1].
    destruct (next_data full_parsers prs skip s) as [r s']. cbn [fst snd] in *.
    constructor; [|apply IH; exact S1]. cbn [after_fault].
    destruct (d_buffer s) as [|d rest]; destruct H as [E _]; subst r; [left; reflexivity|right; exists d; reflexivity].
Qed.

(* the state after a sequence of calls *)
Fixpoint after (P : dparsers) (prs : option custom_parser) (skip : Packet -> bool) (cs : list dcall) (s : dstate) : dstate :=
  match cs with
  | [] => s
  | c :: r => after P prs skip r (snd (call P prs skip c s))
  end.

Lemma calls_app P prs skip a : forall b s,
  calls P prs skip (a ++ b) s = calls P prs skip a s ++ calls P prs skip b (after P prs skip a s).
Proof.
  induction a as [|c a IH]; intros b s; [reflexivity|].
  cbn [app calls after]. destruct (call P prs skip c s) as [x s']. cbn [snd]. rewrite IH. reflexivity.
Qed.

Lemma calls_length P prs skip cs : forall s, length (calls P prs skip cs s) = length cs.
Proof.
  induction cs as [|c cs IH]; intros s; [reflexivity|]. cbn [calls].
  destruct (call P prs skip c s) as [x s']. cbn [length]. rewrite IH. reflexivity.
Qed.

Lemma after_finv f prs skip : parser_no_panic prs -> forall cs s, finv f s -> finv f (after full_parsers prs skip cs s).
Proof.
  intros Hprs. induction cs as [|c cs IH]; intros s Hs; [exact Hs|]. cbn [after]. apply IH. destruct c; cbn [call].
  - destruct (next_packet_finv f skip s Hs) as (H1 & _). destruct (next_packet skip s) as [r s']. exact H1.
  - destruct (next_data_finv f prs skip s Hprs Hs) as (H1 & _). destruct (next_data full_parsers prs skip s) as [r s']. exact H1.
Qed.

(* a call of the failing run that returns the injected error leaves a stuck Demuxer (NextData: with an empty buffer) *)
Lemma call_injected_stuck f prs skip c s : parser_no_panic prs -> finv f s ->
  fst (call full_parsers prs skip c s) = Err E_injected ->
  stuck f (snd (call full_parsers prs skip c s)) /\ (c = CallData -> d_buffer (snd (call full_parsers prs skip c s)) = []).
Proof.
  intros Hprs Hs. destruct c; cbn [call].
  - destruct (next_packet_finv f skip s Hs) as (_ & _ & H3).
    destruct (next_packet skip s) as [r s']. cbn [fst snd] in *. intros E. split; [|discriminate].
    apply H3. destruct r; cbn [res_map] in E; try discriminate. inversion E; reflexivity.
  - destruct (next_data_finv f prs skip s Hprs Hs) as (_ & _ & _ & H4).
    destruct (next_data full_parsers prs skip s) as [r s']. cbn [fst snd] in *. intros E.
    assert (E' : r = Err E_injected) by (destruct r; cbn [res_map] in E; try discriminate; inversion E; reflexivity).
    destruct (H4 E') as [A B]. split; [exact A|intros _; exact B].
Qed.

(* C18 (reader), persistence: once a call has returned the injected error, every later NextPacket returns it again;
   every later NextData returns it again or hands out a datum that was waiting in the data buffer (only possible when
   the failing call was a NextPacket); after a failing NextData every later call of either kind returns the error *)
Theorem demux_fault_persistent prs skip data k opt f cs c cs' : bytes_ok data -> (opt = 0 \/ C_MpegTsPacketSize <= opt) ->
  parser_no_panic prs -> 0 <= f <= Z.of_nat (length data) ->
  let outs := calls full_parsers prs skip (cs ++ c :: cs') (init_dstate (new_reader data (Some f) k) opt) in
  nth_error outs (length cs) = Some (Err E_injected) ->
  let later := skipn (S (length cs)) outs in
  Forall2 after_fault cs' later /\ (c = CallData -> Forall (fun x => x = Err E_injected) later).
Proof.
  intros Hb Ho Hp Hf. cbv zeta. set (s0 := init_dstate (new_reader data (Some f) k) opt).
  rewrite calls_app. cbn [calls].
  pose proof (after_finv f prs skip Hp cs s0 (init_finv f data k opt Hb Ho Hf)) as Hs.
  set (s := after full_parsers prs skip cs s0) in *.
  pose proof (call_injected_stuck f prs skip c s Hp Hs) as Hc.
  destruct (call full_parsers prs skip c s) as [x s']. cbn [fst snd] in Hc.
  rewrite nth_error_app2 by (rewrite calls_length; lia). rewrite calls_length, Nat.sub_diag. cbn [nth_error].
  intros E. inversion E; subst x. destruct (Hc eq_refl) as [Hst Hbuf].
  replace (S (length cs)) with (length (calls full_parsers prs skip cs s0 ++ [Err E_injected])) by (rewrite app_length, calls_length; cbn; lia).
  change (calls full_parsers prs skip cs s0 ++ Err E_injected :: calls full_parsers prs skip cs' s')
    with (calls full_parsers prs skip cs s0 ++ [Err E_injected] ++ calls full_parsers prs skip cs' s').
  rewrite app_assoc, skipn_app, Nat.sub_diag, skipn_all. cbn [skipn app].
  split; [apply (stuck_calls f); exact Hst|]. intros ->. apply (stuck_forever f); [exact Hst|apply Hbuf; reflexivity].
Qed.

(* ================= Part 3: the two runs call by call ================= *)

Lemma call_finv f prs skip c s : parser_no_panic prs -> finv f s -> finv f (snd (call full_parsers prs skip c s)).
Proof. intros Hprs Hs. exact (after_finv f prs skip Hprs [c] s Hs). Qed.

Lemma call_packet_buffer P prs skip s : d_buffer (snd (call P prs skip CallPacket s)) = d_buffer s.
Proof. cbn [call]. pose proof (next_packet_buffer skip s). destruct (next_packet skip s) as [r s']. exact H. Qed.

(* either still in lock step, or the failing run is stuck and its data buffer is the fault-free run's or empty *)
Definition frel (f : Z) (sf s : dstate) : Prop :=
  finv f sf /\
  ((sf = dflt f s /\ gr f (d_reader s)) \/ (stuck f sf /\ (d_buffer sf = d_buffer s \/ d_buffer sf = []))).

Lemma frel_step f prs skip c sf s : parser_no_panic prs -> frel f sf s ->
  (fst (call full_parsers prs skip c sf) = fst (call full_parsers prs skip c s) \/
   fst (call full_parsers prs skip c sf) = Err E_injected) /\
  frel f (snd (call full_parsers prs skip c sf)) (snd (call full_parsers prs skip c s)).
Proof.
  intros Hprs [Hfin [[-> Hg]|[Hst Hbuf]]].
  - pose proof (call_finv f prs skip c _ Hprs Hfin) as Hfin'.
    destruct (call_sim f full_parsers prs skip c s Hg) as [(E & G)|E].
    + rewrite E in *. cbn [fst snd] in *. split; [left; reflexivity|]. split; [exact Hfin'|]. left. auto.
    + split; [right; exact E|]. split; [exact Hfin'|]. right.
      destruct (call_injected_stuck f prs skip c _ Hprs Hfin E) as [S1 B1]. split; [exact S1|].
      destruct c.
      * left. rewrite !call_packet_buffer. reflexivity.
      * right. apply B1. reflexivity.
  - pose proof (call_finv f prs skip c _ Hprs Hfin) as Hfin'. destruct c.
    + destruct (stuck_next_packet f skip sf Hst) as [E S1].
      pose proof (call_packet_buffer full_parsers prs skip sf) as B1. pose proof (call_packet_buffer full_parsers prs skip s) as B2.
      cbn [call] in *. destruct (next_packet skip sf) as [xf sf']. destruct (next_packet skip s) as [x s'].
      cbn [fst snd] in *. subst xf. split; [right; reflexivity|]. split; [exact Hfin'|]. right. split; [exact S1|].
      rewrite B1, B2. exact Hbuf.
    + destruct (stuck_next_data f prs skip sf Hst) as [H S1].
      destruct (d_buffer sf) as [|d rest] eqn:Eb.
      * destruct H as [E Hb']. cbn [call] in *. destruct (next_data full_parsers prs skip sf) as [xf sf'].
        cbn [fst snd] in *. subst xf. split; [right; reflexivity|]. split; [exact Hfin'|]. right. split; [exact S1|].
        right. exact Hb'.
      * destruct Hbuf as [Hbuf|Hbuf]; [|discriminate]. destruct H as [E Hb'].
        pose proof (buffered_first full_parsers prs skip s d rest (eq_sym Hbuf)) as Hgood.
        cbn [call] in *. rewrite Hgood. destruct (next_data full_parsers prs skip sf) as [xf sf'].
        cbn [fst snd] in *. subst xf. split; [left; reflexivity|]. split; [exact Hfin'|]. right. split; [exact S1|].
        left. exact Hb'.
Qed.

(* C18 (reader), call by call: every result of the failing run is the fault-free run's result of the same call, or
   the injected error *)
Lemma demux_pointwise_state f prs skip : parser_no_panic prs -> forall cs sf s, frel f sf s ->
  Forall2 (fun xf x => xf = x \/ xf = Err E_injected) (calls full_parsers prs skip cs sf) (calls full_parsers prs skip cs s).
Proof.
  intros Hprs. induction cs as [|c cs IH]; intros sf s Hrel; [constructor|].
  cbn [calls]. destruct (frel_step f prs skip c sf s Hprs Hrel) as [H1 H2].
  destruct (call full_parsers prs skip c sf) as [xf sf']. destruct (call full_parsers prs skip c s) as [x s'].
  cbn [fst snd] in *. constructor; [exact H1|apply IH; exact H2].
Qed.

Theorem demux_pointwise prs skip data k opt f cs : bytes_ok data -> (opt = 0 \/ C_MpegTsPacketSize <= opt) ->
  parser_no_panic prs -> 0 <= f <= Z.of_nat (length data) ->
  Forall2 (fun xf x => xf = x \/ xf = Err E_injected)
    (calls full_parsers prs skip cs (init_dstate (new_reader data (Some f) k) opt))
    (calls full_parsers prs skip cs (init_dstate (new_reader data None k) opt)).
Proof.
  intros Hb Ho Hp Hf. apply (demux_pointwise_state f prs skip Hp). split; [apply init_finv; assumption|].
  left. split; [symmetry; apply dflt_init|apply gr_new_reader; exact Hf].
Qed.

(* the failure is reported: a call that asks the reader for a byte at or beyond f cannot succeed, so a run whose
   fault-free twin reads the whole stream does return the injected error (stated for the simplest driver: the
   fault-free run reaches ErrNoMorePackets within cs) *)
Theorem demux_fault_reported prs skip data k opt f cs : bytes_ok data -> (opt = 0 \/ C_MpegTsPacketSize <= opt) ->
  parser_no_panic prs -> 0 <= f <= Z.of_nat (length data) ->
  In (Err E_nomore) (calls full_parsers prs skip cs (init_dstate (new_reader data None k) opt)) ->
  In (Err E_injected) (calls full_parsers prs skip cs (init_dstate (new_reader data (Some f) k) opt)).
Proof.
  intros Hb Ho Hp Hf Hin.
  pose proof (demux_pointwise prs skip data k opt f cs Hb Ho Hp Hf) as Hpw.
  pose proof (demux_never_nomore prs skip data k opt f cs Hb Ho Hp Hf) as Hnn.
  induction Hpw as [|xf x lf l H _ IH]; [contradiction|].
  inversion Hnn as [|? ? [Hx _] Hnn']; subst. destruct Hin as [->|Hin].
  - destruct H as [H|H]; subst xf; [contradiction|left; reflexivity].
  - right. apply IH; assumption.
Qed.

(* ================= a concrete stream for the Examples beside the theorems ================= *)

(* six 188-byte packets on PID 256, units of two packets (PUSI on every other one) *)
Definition ex18_pkt (start : bool) (cc : Z) : list Z :=
  [71; (if start then 65 else 1); 0; 16 + cc] ++ [0; 0; 1; 224; 0; 0; 128; 0; 0] ++ repeat 170 175%nat.
Definition ex18_stream : list Z :=
  ex18_pkt true 0 ++ ex18_pkt false 1 ++ ex18_pkt true 2 ++ ex18_pkt false 3 ++ ex18_pkt true 4 ++ ex18_pkt false 5.

(* a PacketsParser that turns every group into two data (so that NextData leaves one in the data buffer) *)
Definition ex18_marker (pid : Z) : DemuxerData :=
  {| DemuxerData_EIT := None; DemuxerData_FirstPacket := None; DemuxerData_NIT := None; DemuxerData_PAT := None;
     DemuxerData_PES := None; DemuxerData_PID := pid; DemuxerData_PMT := None; DemuxerData_SDT := None;
     DemuxerData_TOT := None |}.
Definition ex18_prs : option custom_parser := Some (fun ps => Ok ([ex18_marker 1; ex18_marker 2], true)).

(* class of a result: 100 packet, 200 + PID datum, error code, -2 panic *)
Definition dres_class (x : dres) : Z :=
  match x with Ok (inl _) => 100 | Ok (inr d) => 200 + DemuxerData_PID d | Err c => c | Panic => -2 end.

Definition ex18_run (k : rkind) (opt : Z) (fault : option Z) (cs : list dcall) : list Z :=
  map dres_class (calls full_parsers ex18_prs no_skip cs (init_dstate (new_reader ex18_stream fault k) opt)).

Lemma ex18_stream_ok : bytes_ok ex18_stream.
Proof. apply bytes_okb_ok. vm_compute. reflexivity. Qed.
Lemma ex18_prs_no_panic : parser_no_panic ex18_prs.
Proof. intros ps. discriminate. Qed.
