(* Lemmas for property C11, part 2: what writePacket emits — exactly the target size, sync byte first —
   for every packet it accepts (no assumption on the field values). *)
From Coq Require Import ZArith List Lia Bool ZifyBool.
Require Import Base.Bits Base.Iter Base.Wr Gen.Consts Gen.Types Gen.Preds Model.Clock Model.Packet
  Proofs.MuxerProofs.
Import ListNotations.
Open Scope Z_scope.

(* calls already made do not influence later ones *)
Lemma run_item_prefix c chunks it :
  run_item (c, chunks) it = (fst (run_item (c, []) it), chunks ++ snd (run_item (c, []) it)).
Proof.
  destruct it as [w v|b|bs]; cbn [run_item fst snd]; unfold push_bits; cbn [fst snd app]; try reflexivity.
  destruct c as [|c0 c]; cbn [fst snd app]; [|reflexivity].
  destruct bs; cbn [fst snd app]; [rewrite app_nil_r|]; reflexivity.
Qed.

Lemma run_items_prefix l : forall c chunks,
  run_items l (c, chunks) = (fst (run_items l (c, [])), chunks ++ snd (run_items l (c, []))).
Proof.
  induction l as [|it l IH]; intros c chunks; unfold run_items in *; cbn [fold_left fst snd].
  - rewrite app_nil_r. reflexivity.
  - rewrite (run_item_prefix c chunks it). destruct (run_item (c, []) it) as [c1 ch1] eqn:E. cbn [fst snd].
    rewrite (IH c1 (chunks ++ ch1)), (IH c1 ch1). cbn [fst snd]. rewrite app_assoc. reflexivity.
Qed.

(* a whole byte written to an empty cache is the first byte of the output *)
Lemma bytes_of_items_wu8_cons v r : bytes_of_items (wu8 v :: r) = (v mod 256) :: bytes_of_items r.
Proof.
  unfold bytes_of_items, chunks_of, run_items. cbn [fold_left].
  assert (E : run_item ([], []) (wu8 v) = ([], [[v mod 256]])).
  { unfold wu8. cbn [run_item]. unfold push_bits. cbn [fst snd app item_bits].
    rewrite bytes_of_bits_bits_of_8. unfold leftover. rewrite bits_of_length.
    change (8 * (8 / 8))%nat with 8%nat. rewrite skipn_all2 by (rewrite bits_of_length; lia). reflexivity. }
  rewrite E. fold (run_items r ([], [[v mod 256]])). rewrite run_items_prefix. cbn [snd].
  rewrite concat_app. reflexivity.
Qed.

Theorem write_packet_188 p bs : write_packet p 188 = Ok bs ->
  length bs = 188%nat /\ exists rest, bs = 71 :: rest.
Proof.
  intros H. pose proof (write_packet_size p 188 bs H) as Hs. split; [lia|].
  unfold write_packet in H. destruct (enc_packet p 188) as [its| |] eqn:E; cbn [res_map] in H; try discriminate.
  apply ok_inj in H. subst bs. destruct (enc_packet_sync p 188 its E) as (r & ->).
  rewrite bytes_of_items_wu8_cons. eexists. reflexivity.
Qed.
