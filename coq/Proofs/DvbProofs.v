(* C15, part 2: the model of dvb.go (Model/Dvb.v: parsers, writers, the byte functions re-translated from
   the source) against the calendar and BCD reference (Spec/DvbSpec.v), on top of Proofs/DvbDateProofs.v.
   Statements about arbitrary byte strings / arbitrary durations are proved, not enumerated. *)
From Coq Require Import ZArith List Lia Bool ZifyBool.
Require Import Base.Bits Base.Iter Base.Wr Gen.Preds Model.Dvb Spec.DvbSpec.
Require Export Proofs.DvbDateProofs.
Import ListNotations.
Open Scope Z_scope.

(* lia decides goals with / mod quot rem by literals *)
Ltac Zify.zify_post_hook ::= Z.to_euclidean_division_equations.

(* ================= BCD bytes ================= *)

Lemma byte_sweep :
  all_range (fun b => parse_dvb_duration_byte b =? bcd_value b) 0 255 = true.
Proof. vm_cast_no_check (eq_refl true). Qed.

(* parseDVBDurationByte (re-translated from dvb.go) is the digit-wise value, all 256 bytes *)
Lemma parse_byte_digits b : 0 <= b <= 255 -> parse_dvb_duration_byte b = bcd_value b.
Proof. intros H. apply Z.eqb_eq, (all_range_spec _ _ _ byte_sweep b H). Qed.

Lemma repr_sweep :
  all_range (fun n => andb (dvbDurationByteRepresentation n =? bcd_byte n)
                           (andb (parse_dvb_duration_byte (bcd_byte n) =? n) (bcd_valid (bcd_byte n)))) 0 99 = true.
Proof. vm_cast_no_check (eq_refl true). Qed.

(* dvbDurationByteRepresentation (re-translated) is the BCD byte for all two-digit numbers, and the
   two byte functions are inverse there *)
Lemma repr_bcd n : 0 <= n <= 99 ->
  dvbDurationByteRepresentation n = bcd_byte n /\ parse_dvb_duration_byte (bcd_byte n) = n /\
  bcd_valid (bcd_byte n) = true.
Proof.
  intros H. pose proof (all_range_spec _ _ _ repr_sweep n H) as E. cbv beta in E.
  apply andb_prop in E as [E1 E2]. apply andb_prop in E2 as [E2 E3].
  apply Z.eqb_eq in E1, E2. auto.
Qed.

Lemma bcd_valid_sweep :
  all_range (fun b => implb (bcd_valid b) (andb (bcd_value b <=? 99) (bcd_byte (bcd_value b) =? b))) 0 255 = true.
Proof. vm_cast_no_check (eq_refl true). Qed.

(* every byte with two decimal digits is the BCD byte of its value *)
Lemma bcd_valid_inv b : 0 <= b <= 255 -> bcd_valid b = true -> 0 <= bcd_value b <= 99 /\ bcd_byte (bcd_value b) = b.
Proof.
  intros H Hv. pose proof (all_range_spec _ _ _ bcd_valid_sweep b H) as E. cbv beta in E.
  rewrite Hv in E. cbn [implb] in E. apply andb_prop in E as [E1 E2].
  apply Z.eqb_eq in E2. split; [|exact E2]. unfold bcd_value in *. lia.
Qed.

Lemma repr_range_sweep :
  all_range (fun n => andb (0 <=? dvbDurationByteRepresentation n) (dvbDurationByteRepresentation n <=? 255)) 0 255 = true.
Proof. vm_cast_no_check (eq_refl true). Qed.

Lemma repr_byte_ok n : 0 <= n <= 255 -> 0 <= dvbDurationByteRepresentation n <= 255.
Proof. intros H. pose proof (all_range_spec _ _ _ repr_range_sweep n H) as E. cbv beta in E. lia. Qed.

(* ================= durations: float64 writers = integer writers ================= *)

Lemma dur_float_int sec : 0 <= sec <= 86399 ->
  enc_dvb_duration_seconds_float (sec * ns_second) = enc_dvb_duration_seconds (sec * ns_second) /\
  enc_dvb_duration_minutes_float (sec * ns_second) = enc_dvb_duration_minutes (sec * ns_second).
Proof.
  intros H. destruct (dur_float_parts sec H) as (E1 & E2 & E3).
  unfold enc_dvb_duration_seconds_float, enc_dvb_duration_minutes_float,
    enc_dvb_duration_seconds, enc_dvb_duration_minutes.
  rewrite E1, E2, E3. split; reflexivity.
Qed.

(* ================= writers: the bytes of the item lists ================= *)

Lemma bits_of_16_split a : bits_of 16 a = bits_of 8 (Z.shiftr a 8) ++ bits_of 8 a.
Proof.
  change 16%nat with (8 + 8)%nat. cbn [bits_of Nat.add app Z.of_nat Pos.of_succ_nat Pos.succ].
  rewrite !Z.shiftr_spec by lia. reflexivity.
Qed.

Lemma no_wbytes_ok (l : list witem) :
  Forall (fun it => match it with WBytes _ => False | _ => True end) l -> items_bytes_ok l.
Proof. unfold items_bytes_ok. apply Forall_impl. intros [w v|b|bs]; tauto. Qed.

Lemma bytes_of_wu8s (l : list Z) : bytes_of_items (map wu8 l) = map (fun v => v mod 256) l.
Proof.
  rewrite chunks_concat.
  - induction l as [|v l IH]; [reflexivity|].
    cbn [map items_bits flat_map item_bits wu8]. fold (items_bits (map wu8 l)).
    rewrite bytes_of_bits_8 by apply bits_of_length. rewrite Z_of_bits_of_mod. f_equal. exact IH.
  - apply no_wbytes_ok. induction l; constructor; [exact I|assumption].
Qed.

Lemma bytes_of_wu16_wu8s a (l : list Z) :
  bytes_of_items (wu16 a :: map wu8 l) = (a / 256) mod 256 :: a mod 256 :: map (fun v => v mod 256) l.
Proof.
  rewrite chunks_concat.
  - cbn [items_bits flat_map item_bits wu16]. fold (items_bits (map wu8 l)).
    rewrite bits_of_16_split, <- app_assoc.
    rewrite bytes_of_bits_8 by apply bits_of_length. rewrite Z_of_bits_of_mod.
    rewrite bytes_of_bits_8 by apply bits_of_length. rewrite Z_of_bits_of_mod.
    rewrite Z.shiftr_div_pow2 by lia. f_equal. f_equal.
    rewrite <- bytes_of_wu8s. symmetry. apply chunks_concat.
    apply no_wbytes_ok. induction l; constructor; [exact I|assumption].
  - apply no_wbytes_ok. constructor; [exact I|]. induction l; constructor; [exact I|assumption].
Qed.

(* writeDVBDurationSeconds / Minutes always produce 3 / 2 bytes, whatever the duration *)
Lemma enc_duration_lengths ns :
  length (bytes_of_items (enc_dvb_duration_seconds ns)) = 3%nat /\
  length (bytes_of_items (enc_dvb_duration_minutes ns)) = 2%nat.
Proof.
  unfold enc_dvb_duration_seconds, enc_dvb_duration_minutes.
  split.
  - change [wu8 ?a; wu8 ?b; wu8 ?c] with (map wu8 [a; b; c]). rewrite bytes_of_wu8s. reflexivity.
  - change [wu8 ?a; wu8 ?b] with (map wu8 [a; b]). rewrite bytes_of_wu8s. reflexivity.
Qed.

(* all whole-second durations below 100 h: hh mm ss in BCD *)
Lemma enc_duration_seconds_bytes h m s : 0 <= h <= 99 -> 0 <= m <= 59 -> 0 <= s <= 59 ->
  bytes_of_items (enc_dvb_duration_seconds (spec_duration_ns h m s)) = [bcd_byte h; bcd_byte m; bcd_byte s].
Proof.
  intros Hh Hm Hs. unfold spec_duration_ns. change ns_per_second with ns_second.
  unfold enc_dvb_duration_seconds.
  destruct (dur_whole (tod_seconds h m s)) as (E1 & E2 & E3); [unfold tod_seconds; lia|].
  destruct (tod_split h m s) as (F1 & F2 & F3); [lia|lia|lia|]. cbv zeta in F1, F2, F3.
  rewrite E1, E2, E3, F1, F2, F3. rewrite (Z.mod_small h 256) by lia.
  destruct (repr_bcd h) as (R1 & _); [lia|]. destruct (repr_bcd m) as (R2 & _); [lia|]. destruct (repr_bcd s) as (R3 & _); [lia|].
  rewrite R1, R2, R3.
  change [wu8 ?a; wu8 ?b; wu8 ?c] with (map wu8 [a; b; c]). rewrite bytes_of_wu8s. cbn [map].
  unfold bcd_byte. f_equal; [|f_equal; [|f_equal]]; apply Z.mod_small; lia.
Qed.

Lemma enc_duration_minutes_bytes h m s : 0 <= h <= 99 -> 0 <= m <= 59 -> 0 <= s <= 59 ->
  bytes_of_items (enc_dvb_duration_minutes (spec_duration_ns h m s)) = [bcd_byte h; bcd_byte m].
Proof.
  intros Hh Hm Hs. unfold spec_duration_ns. change ns_per_second with ns_second.
  unfold enc_dvb_duration_minutes.
  destruct (dur_whole (tod_seconds h m s)) as (E1 & E2 & E3); [unfold tod_seconds; lia|].
  destruct (tod_split h m s) as (F1 & F2 & F3); [lia|lia|lia|]. cbv zeta in F1, F2, F3.
  rewrite E1, E2, F1, F2. rewrite (Z.mod_small h 256) by lia.
  destruct (repr_bcd h) as (R1 & _); [lia|]. destruct (repr_bcd m) as (R2 & _); [lia|].
  rewrite R1, R2.
  change [wu8 ?a; wu8 ?b] with (map wu8 [a; b]). rewrite bytes_of_wu8s. cbn [map].
  unfold bcd_byte. f_equal; [|f_equal]; apply Z.mod_small; lia.
Qed.

Lemma spec_duration_range h m s : 0 <= h <= 23 -> 0 <= m <= 59 -> 0 <= s <= 59 ->
  0 <= tod_seconds h m s <= 86399.
Proof. unfold tod_seconds. lia. Qed.

(* the same for the float64 model of the two writers, for the 86400 seconds of a day (for all durations
   below 100 h the float64 expressions are shown equal to the integer ones in DvbSupplementProofs.v) *)
Lemma enc_duration_float_bytes h m s : 0 <= h <= 23 -> 0 <= m <= 59 -> 0 <= s <= 59 ->
  bytes_of_items (enc_dvb_duration_seconds_float (spec_duration_ns h m s)) = [bcd_byte h; bcd_byte m; bcd_byte s] /\
  bytes_of_items (enc_dvb_duration_minutes_float (spec_duration_ns h m s)) = [bcd_byte h; bcd_byte m].
Proof.
  intros Hh Hm Hs. pose proof (spec_duration_range h m s Hh Hm Hs) as Hr.
  destruct (dur_float_int (tod_seconds h m s) Hr) as [E1 E2].
  unfold spec_duration_ns. change ns_per_second with ns_second. rewrite E1, E2.
  split; [apply (enc_duration_seconds_bytes h m s)|apply (enc_duration_minutes_bytes h m s)]; (assumption || lia).
Qed.

Example enc_duration_example :
  bytes_of_items (enc_dvb_duration_seconds (spec_duration_ns 12 34 56)) = [18; 52; 86] (* 0x12 0x34 0x56 *).
Proof. vm_compute. reflexivity. Qed.

(* ================= parsers on concrete byte strings ================= *)

Lemma next_bytes_at (pre a rest : list Z) n : Z.of_nat (length a) = n ->
  next_bytes n (mk_iter (pre ++ a ++ rest) (Z.of_nat (length pre))) =
  Ok (a, mk_iter (pre ++ a ++ rest) (Z.of_nat (length pre) + n)).
Proof.
  intros H. unfold next_bytes, ilen; cbn [ibs ioff]. rewrite !app_length.
  destruct (Z.of_nat (length pre + (length a + length rest)) <? Z.of_nat (length pre) + n) eqn:E1; [lia|].
  destruct (n <? 0) eqn:E2; [lia|]. destruct (Z.of_nat (length pre) <? 0) eqn:E3; [lia|].
  f_equal. f_equal. unfold slice.
  replace (Z.of_nat (length pre) + n - Z.of_nat (length pre)) with n by lia.
  rewrite Nat2Z.id, skipn_app, skipn_all, Nat.sub_diag. cbn [skipn app].
  rewrite <- H, Nat2Z.id, firstn_app, Nat.sub_diag, firstn_O, app_nil_r. apply firstn_all.
Qed.

Definition dur3_ns (b2 b3 b4 : Z) : Z :=
  parse_dvb_duration_byte b2 * ns_hour + parse_dvb_duration_byte b3 * ns_minute + parse_dvb_duration_byte b4 * ns_second.

Lemma parse_duration_seconds_bytes b0 b1 b2 rest :
  parse_dvb_duration_seconds (new_iter (b0 :: b1 :: b2 :: rest)) =
  Ok (dur3_ns b0 b1 b2, mk_iter (b0 :: b1 :: b2 :: rest) 3).
Proof.
  unfold parse_dvb_duration_seconds, ibind, next_bytes_nocopy, new_iter.
  pose proof (next_bytes_at [] [b0; b1; b2] rest 3 eq_refl) as H. cbn [app length Z.of_nat Z.add] in H.
  rewrite H. reflexivity.
Qed.

Lemma parse_duration_minutes_bytes b0 b1 rest :
  parse_dvb_duration_minutes (new_iter (b0 :: b1 :: rest)) =
  Ok (parse_dvb_duration_byte b0 * ns_hour + parse_dvb_duration_byte b1 * ns_minute, mk_iter (b0 :: b1 :: rest) 2).
Proof.
  unfold parse_dvb_duration_minutes, ibind, next_bytes_nocopy, new_iter.
  pose proof (next_bytes_at [] [b0; b1] rest 2 eq_refl) as H. cbn [app length Z.of_nat Z.add] in H.
  rewrite H. reflexivity.
Qed.

Lemma parse_time_bytes b0 b1 b2 b3 b4 rest :
  parse_dvb_time (new_iter (b0 :: b1 :: b2 :: b3 :: b4 :: rest)) =
  Ok (dvb_date_unix (b0 * 256 + b1) + dur3_ns b2 b3 b4 / ns_second, mk_iter (b0 :: b1 :: b2 :: b3 :: b4 :: rest) 5).
Proof.
  unfold parse_dvb_time, parse_dvb_duration_seconds, ibind, next_bytes_nocopy, new_iter.
  pose proof (next_bytes_at [] [b0; b1] (b2 :: b3 :: b4 :: rest) 2 eq_refl) as H. cbn [app length Z.of_nat Z.add] in H.
  rewrite H.
  pose proof (next_bytes_at [b0; b1] [b2; b3; b4] rest 3 eq_refl) as H'.
  cbn [app length Z.of_nat Z.add Pos.of_succ_nat Pos.succ Pos.add] in H'.
  rewrite H'. reflexivity.
Qed.

(* digit-wise reading of the three time bytes: (hh*3600 + mm*60 + ss) seconds, every byte value *)
Lemma dur3_digits b2 b3 b4 : 0 <= b2 <= 255 -> 0 <= b3 <= 255 -> 0 <= b4 <= 255 ->
  dur3_ns b2 b3 b4 = spec_duration_ns (bcd_value b2) (bcd_value b3) (bcd_value b4) /\
  dur3_ns b2 b3 b4 / ns_second = tod_seconds (bcd_value b2) (bcd_value b3) (bcd_value b4).
Proof.
  intros H2 H3 H4. unfold dur3_ns. rewrite !parse_byte_digits by assumption.
  unfold spec_duration_ns, tod_seconds, ns_hour, ns_minute, ns_second, ns_per_second. split; lia.
Qed.

(* ---- no panic, on every iterator state the callers can be in ---- *)

Lemma parse_duration_seconds_no_panic i : 0 <= ioff i -> parse_dvb_duration_seconds i <> Panic.
Proof.
  intros H. unfold parse_dvb_duration_seconds, ibind, next_bytes_nocopy.
  destruct (next_bytes 3 i) as [[bs i']|c|] eqn:E; [discriminate|discriminate|].
  exfalso. revert E. apply next_bytes_no_panic; lia.
Qed.

Lemma parse_duration_minutes_no_panic i : 0 <= ioff i -> parse_dvb_duration_minutes i <> Panic.
Proof.
  intros H. unfold parse_dvb_duration_minutes, ibind, next_bytes_nocopy.
  destruct (next_bytes 2 i) as [[bs i']|c|] eqn:E; [discriminate|discriminate|].
  exfalso. revert E. apply next_bytes_no_panic; lia.
Qed.

Lemma parse_time_no_panic i : 0 <= ioff i -> parse_dvb_time i <> Panic.
Proof.
  intros H. unfold parse_dvb_time, ibind, next_bytes_nocopy.
  destruct (next_bytes 2 i) as [[bs i']|c|] eqn:E.
  - apply next_bytes_ok in E as (_ & _ & _ & _ & Ho & _).
    pose proof (parse_duration_seconds_no_panic i' ltac:(lia)) as Hn.
    unfold parse_dvb_duration_seconds, ibind, next_bytes_nocopy in Hn |- *.
    destruct (next_bytes 3 i') as [[bs' i'']|c|]; [discriminate|discriminate|]. exact Hn.
  - discriminate.
  - exfalso. revert E. apply next_bytes_no_panic; lia.
Qed.

(* too short an input is an error, never a panic and never a value *)
Lemma parse_time_short bs : (length bs < 5)%nat -> run_iter parse_dvb_time bs = Err E_generic.
Proof.
  intros H. do 5 (destruct bs as [|? bs]; [vm_compute; reflexivity|]). cbn [length] in H. lia.
Qed.

(* ================= the 40-bit field, decode ================= *)

Lemma spec_unix_eq mjd h m s : mjd_lo <= mjd <= mjd_hi ->
  spec_unix mjd h m s = 86400 * (mjd - 40587) + tod_seconds h m s.
Proof.
  intros H. destruct (decode_date mjd H) as (_ & _ & E). unfold spec_unix.
  destruct (civil_of_mjd mjd) as [[y mo] d]. rewrite E. reflexivity.
Qed.

Lemma mjd_bytes mjd : 0 <= mjd <= 65535 -> (mjd / 256) * 256 + mjd mod 256 = mjd /\ 0 <= mjd / 256 <= 255 /\ 0 <= mjd mod 256 <= 255.
Proof. intros H. repeat split; lia. Qed.

Lemma bcd_byte_range n : 0 <= n <= 99 -> 0 <= bcd_byte n <= 255.
Proof. intros H. unfold bcd_byte. lia. Qed.

(* every day of the range x every BCD-coded hh mm ss (digits 00..99 each): the decoded time is the
   calendar date of the MJD plus hh*3600 + mm*60 + ss seconds *)
Lemma decode_joint mjd h m s rest : mjd_lo <= mjd <= mjd_hi -> 0 <= h <= 99 -> 0 <= m <= 99 -> 0 <= s <= 99 ->
  parse_dvb_time (new_iter (spec_time_bytes mjd h m s ++ rest)) =
  Ok (spec_unix mjd h m s, mk_iter (spec_time_bytes mjd h m s ++ rest) 5).
Proof.
  intros Hmjd Hh Hm Hs. unfold spec_time_bytes. cbn [app]. rewrite parse_time_bytes.
  destruct (mjd_bytes mjd) as (E & _ & _); [unfold mjd_lo, mjd_hi in Hmjd; lia|]. rewrite E.
  destruct (decode_date mjd Hmjd) as (_ & Ed & _). rewrite Ed.
  pose proof (bcd_byte_range h Hh). pose proof (bcd_byte_range m Hm). pose proof (bcd_byte_range s Hs).
  destruct (dur3_digits (bcd_byte h) (bcd_byte m) (bcd_byte s)) as [_ E3]; [lia|lia|lia|]. rewrite E3.
  rewrite <- !parse_byte_digits by lia.
  destruct (repr_bcd h Hh) as (_ & Ph & _). destruct (repr_bcd m Hm) as (_ & Pm & _). destruct (repr_bcd s Hs) as (_ & Ps & _).
  rewrite Ph, Pm, Ps. rewrite spec_unix_eq by exact Hmjd. reflexivity.
Qed.

(* all 2^40 raw words: date of the MJD word as the (integer model of the) code computes it, time digit-wise *)
Lemma decode_raw b0 b1 b2 b3 b4 rest :
  0 <= b0 <= 255 -> 0 <= b1 <= 255 -> 0 <= b2 <= 255 -> 0 <= b3 <= 255 -> 0 <= b4 <= 255 ->
  parse_dvb_time (new_iter (b0 :: b1 :: b2 :: b3 :: b4 :: rest)) =
  Ok (dvb_date_unix (b0 * 256 + b1) + tod_seconds (bcd_value b2) (bcd_value b3) (bcd_value b4),
      mk_iter (b0 :: b1 :: b2 :: b3 :: b4 :: rest) 5).
Proof.
  intros H0 H1 H2 H3 H4. rewrite parse_time_bytes.
  destruct (dur3_digits b2 b3 b4 H2 H3 H4) as [_ E]. rewrite E. reflexivity.
Qed.

(* ================= the 40-bit field, encode ================= *)

Lemma enc_time_bytes_gen (encd : Z -> list witem) (mjdf : Z -> Z -> Z -> Z) mjd h m s :
  mjd_lo <= mjd <= mjd_hi -> 0 <= h <= 23 -> 0 <= m <= 59 -> 0 <= s <= 59 ->
  (let '(y, mo, d) := go_civil_of_days (mjd - 40587) in mjdf y mo d = mjd) ->
  encd (spec_duration_ns h m s) = enc_dvb_duration_seconds (spec_duration_ns h m s) ->
  bytes_of_items (let unix := spec_unix mjd h m s in
                  let days := unix / 86400 in let sod := unix mod 86400 in
                  let '(y, mo, d) := go_civil_of_days days in
                  wu16 (mjdf y mo d mod 65536) :: encd (sod * ns_second)) = spec_time_bytes mjd h m s.
Proof.
  intros Hmjd Hh Hm Hs Hd He. cbv zeta. rewrite spec_unix_eq by exact Hmjd.
  assert (Ht : 0 <= tod_seconds h m s < 86400) by (unfold tod_seconds; lia).
  replace ((86400 * (mjd - 40587) + tod_seconds h m s) / 86400) with (mjd - 40587) by lia.
  replace ((86400 * (mjd - 40587) + tod_seconds h m s) mod 86400) with (tod_seconds h m s) by lia.
  destruct (go_civil_of_days (mjd - 40587)) as [[y mo] d]. rewrite Hd.
  change (tod_seconds h m s * ns_second) with (spec_duration_ns h m s). rewrite He.
  unfold enc_dvb_duration_seconds.
  change [wu8 ?a; wu8 ?b; wu8 ?c] with (map wu8 [a; b; c]). rewrite bytes_of_wu16_wu8s.
  change (map wu8 [?a; ?b; ?c]) with [wu8 a; wu8 b; wu8 c] in *.
  pose proof (enc_duration_seconds_bytes h m s ltac:(lia) Hm Hs) as Eb.
  unfold enc_dvb_duration_seconds in Eb.
  change [wu8 ?a; wu8 ?b; wu8 ?c] with (map wu8 [a; b; c]) in Eb. rewrite bytes_of_wu8s in Eb.
  rewrite Eb. unfold spec_time_bytes, mjd_lo, mjd_hi in *. f_equal; [|f_equal]; lia.
Qed.

(* writeDVBTime on every second of every day of the range: the five bytes of the Spec *)
Lemma encode_joint mjd h m s : mjd_lo <= mjd <= mjd_hi -> 0 <= h <= 23 -> 0 <= m <= 59 -> 0 <= s <= 59 ->
  bytes_of_items (enc_dvb_time (spec_unix mjd h m s)) = spec_time_bytes mjd h m s /\
  bytes_of_items (enc_dvb_time_float (spec_unix mjd h m s)) = spec_time_bytes mjd h m s.
Proof.
  intros Hmjd Hh Hm Hs.
  destruct (encode_date mjd Hmjd) as [_ Hd].
  split.
  - apply (enc_time_bytes_gen enc_dvb_duration_seconds dvb_mjd_of_ymd mjd h m s Hmjd Hh Hm Hs); [|reflexivity].
    destruct (go_civil_of_days (mjd - 40587)) as [[y mo] d]. tauto.
  - apply (enc_time_bytes_gen enc_dvb_duration_seconds_float DvbFloat.ymd_to_mjd_float mjd h m s Hmjd Hh Hm Hs).
    + destruct (go_civil_of_days (mjd - 40587)) as [[y mo] d]. tauto.
    + apply (dur_float_int (tod_seconds h m s)). unfold tod_seconds. lia.
Qed.

Example encode_example :
  bytes_of_items (enc_dvb_time (spec_unix 58849 12 34 56)) = [229; 225; 18; 52; 86] (* e5e1 12 34 56: 2020-01-01 12:34:56 *).
Proof. vm_compute. reflexivity. Qed.

(* every second from 1900-03-01 00:00:00 to 2038-04-22 23:59:59 is a spec_unix *)
Lemma unix_in_range u : 86400 * (mjd_lo - 40587) <= u <= 86400 * (mjd_hi - 40587) + 86399 ->
  exists mjd h m s, mjd_lo <= mjd <= mjd_hi /\ 0 <= h <= 23 /\ 0 <= m <= 59 /\ 0 <= s <= 59 /\ u = spec_unix mjd h m s.
Proof.
  intros H. unfold mjd_lo, mjd_hi in H.
  exists (u / 86400 + 40587), (u mod 86400 / 3600), (u mod 86400 / 60 mod 60), (u mod 60).
  assert (Hm : mjd_lo <= u / 86400 + 40587 <= mjd_hi) by (unfold mjd_lo, mjd_hi; lia).
  repeat (split; [lia|]). rewrite spec_unix_eq by exact Hm. unfold tod_seconds. lia.
Qed.

(* decode (encode t) = t for every second of the range *)
Lemma roundtrip_unix u rest : 86400 * (mjd_lo - 40587) <= u <= 86400 * (mjd_hi - 40587) + 86399 ->
  parse_dvb_time (new_iter (bytes_of_items (enc_dvb_time u) ++ rest)) =
  Ok (u, mk_iter (bytes_of_items (enc_dvb_time u) ++ rest) 5).
Proof.
  intros H. destruct (unix_in_range u H) as (mjd & h & m & s & Hmjd & Hh & Hm & Hs & ->).
  destruct (encode_joint mjd h m s Hmjd Hh Hm Hs) as [E _]. rewrite E.
  apply decode_joint; [exact Hmjd|lia|lia|lia].
Qed.

Example roundtrip_example :
  run_iter parse_dvb_time (bytes_of_items (enc_dvb_time 1577882096)) = Ok 1577882096 (* 2020-01-01 12:34:56 UTC *).
Proof. vm_compute. reflexivity. Qed.

Example decode_joint_example :
  run_iter parse_dvb_time [192; 121; 18; 69; 0] = Ok 750516300 (* EN 300 468 example: MJD 0xC079 = 1993-10-13, 12:45:00 *)
  /\ civil_of_mjd 49273 = (1993, 10, 13) /\ spec_unix 49273 12 45 0 = 750516300.
Proof. vm_compute. repeat split. Qed.

(* ================= durations, decode ================= *)

(* all 10^6 BCD digit strings hh mm ss (each 00..99) *)
Lemma decode_duration_seconds h m s rest : 0 <= h <= 99 -> 0 <= m <= 99 -> 0 <= s <= 99 ->
  parse_dvb_duration_seconds (new_iter ([bcd_byte h; bcd_byte m; bcd_byte s] ++ rest)) =
  Ok (spec_duration_ns h m s, mk_iter ([bcd_byte h; bcd_byte m; bcd_byte s] ++ rest) 3).
Proof.
  intros Hh Hm Hs. cbn [app]. rewrite parse_duration_seconds_bytes. unfold dur3_ns.
  destruct (repr_bcd h Hh) as (_ & Ph & _). destruct (repr_bcd m Hm) as (_ & Pm & _). destruct (repr_bcd s Hs) as (_ & Ps & _).
  rewrite Ph, Pm, Ps. unfold spec_duration_ns, tod_seconds, ns_hour, ns_minute, ns_second, ns_per_second.
  f_equal. f_equal. lia.
Qed.

(* all 10^4 BCD digit strings hh mm *)
Lemma decode_duration_minutes h m rest : 0 <= h <= 99 -> 0 <= m <= 99 ->
  parse_dvb_duration_minutes (new_iter ([bcd_byte h; bcd_byte m] ++ rest)) =
  Ok (spec_duration_ns h m 0, mk_iter ([bcd_byte h; bcd_byte m] ++ rest) 2).
Proof.
  intros Hh Hm. cbn [app]. rewrite parse_duration_minutes_bytes.
  destruct (repr_bcd h Hh) as (_ & Ph & _). destruct (repr_bcd m Hm) as (_ & Pm & _).
  rewrite Ph, Pm. unfold spec_duration_ns, tod_seconds, ns_hour, ns_minute, ns_per_second.
  f_equal. f_equal. lia.
Qed.

(* all 2^24 / 2^16 raw words: the digit-wise value *)
Lemma decode_duration_raw b0 b1 b2 rest : 0 <= b0 <= 255 -> 0 <= b1 <= 255 -> 0 <= b2 <= 255 ->
  parse_dvb_duration_seconds (new_iter (b0 :: b1 :: b2 :: rest)) =
    Ok (spec_duration_ns (bcd_value b0) (bcd_value b1) (bcd_value b2), mk_iter (b0 :: b1 :: b2 :: rest) 3) /\
  parse_dvb_duration_minutes (new_iter (b0 :: b1 :: rest)) =
    Ok (spec_duration_ns (bcd_value b0) (bcd_value b1) 0, mk_iter (b0 :: b1 :: rest) 2).
Proof.
  intros H0 H1 H2. split.
  - rewrite parse_duration_seconds_bytes. destruct (dur3_digits b0 b1 b2 H0 H1 H2) as [E _]. rewrite E. reflexivity.
  - rewrite parse_duration_minutes_bytes. rewrite !parse_byte_digits by assumption.
    unfold spec_duration_ns, tod_seconds, ns_hour, ns_minute, ns_per_second. f_equal. f_equal. lia.
Qed.

(* decode (encode d) = d for every whole-second duration below 100 h, and for whole minutes *)
Lemma roundtrip_duration h m s rest : 0 <= h <= 99 -> 0 <= m <= 59 -> 0 <= s <= 59 ->
  parse_dvb_duration_seconds (new_iter (bytes_of_items (enc_dvb_duration_seconds (spec_duration_ns h m s)) ++ rest)) =
    Ok (spec_duration_ns h m s, mk_iter (bytes_of_items (enc_dvb_duration_seconds (spec_duration_ns h m s)) ++ rest) 3) /\
  parse_dvb_duration_minutes (new_iter (bytes_of_items (enc_dvb_duration_minutes (spec_duration_ns h m s)) ++ rest)) =
    Ok (spec_duration_ns h m 0, mk_iter (bytes_of_items (enc_dvb_duration_minutes (spec_duration_ns h m s)) ++ rest) 2).
Proof.
  intros Hh Hm Hs. rewrite enc_duration_seconds_bytes, enc_duration_minutes_bytes by assumption. split.
  - apply decode_duration_seconds; lia.
  - apply decode_duration_minutes; lia.
Qed.

(* ================= the statements of Props/C15.v ================= *)

Lemma thm_float_model_decode : forall mjd, 15079 <= mjd <= 65535 ->
  DvbFloat.mjd_to_ymd_float mjd = dvb_ymd mjd /\ DvbFloat.dvb_date_unix_float mjd = dvb_date_unix mjd.
Proof. intros mjd H. split; [apply decode_float_int|apply decode_unix_float_int]; exact H. Qed.

Lemma thm_calendar : forall mjd, 15079 <= mjd <= 65535 ->
  civil_of_mjd (mjd + 1) = next_day (civil_of_mjd mjd) /\ valid_date (civil_of_mjd mjd) = true /\
  mjd_of_civil (civil_of_mjd mjd) = mjd /\
  annex_c_ymd mjd = civil_of_mjd mjd /\ annex_c_mjd (civil_of_mjd mjd) = mjd.
Proof.
  intros mjd H. destruct (calendar_step mjd H) as (A & B & C). destruct (annex_c_calendar mjd H) as (D & E).
  repeat split; assumption.
Qed.

Lemma thm_calendar_anchor :
  civil_of_mjd 0 = (1858, 11, 17) /\ civil_of_mjd 15079 = (1900, 3, 1) /\ civil_of_mjd 40587 = (1970, 1, 1) /\
  civil_of_mjd 65535 = (2038, 4, 22) /\ civil_of_mjd 88127 = (2100, 2, 28).
Proof. destruct calendar_anchor as (_ & A & B & C & D & E). repeat split; assumption. Qed.

Lemma thm_decode_date : forall mjd, 15079 <= mjd <= 65535 ->
  DvbFloat.mjd_to_ymd_float mjd = civil_of_mjd mjd /\
  DvbFloat.dvb_date_unix_float mjd = 86400 * (let '(y, m, d) := civil_of_mjd mjd in days_of_civil y m d) /\
  dvb_date_unix mjd = 86400 * (mjd - 40587).
Proof.
  intros mjd H. destruct (decode_date mjd H) as (A & B & C).
  rewrite decode_float_int, decode_unix_float_int by (unfold mjd_lo, mjd_hi in *; lia).
  rewrite C. repeat split; assumption.
Qed.

Lemma thm_encode_date : forall mjd, 15079 <= mjd <= 65535 ->
  go_civil_of_days (mjd - 40587) = civil_of_mjd mjd /\
  (let '(y, m, d) := civil_of_mjd mjd in
   DvbFloat.ymd_to_mjd_float y m d = mjd /\ dvb_mjd_of_ymd y m d = mjd).
Proof.
  intros mjd H. destruct (encode_date mjd H) as (A & B). split; [exact A|].
  rewrite <- A. destruct (go_civil_of_days (mjd - 40587)) as [[y m] d]. tauto.
Qed.

Lemma thm_float_model_encoder : forall y m d, -3000 <= y <= 12000 -> 1 <= m <= 12 ->
  DvbFloat.ymd_to_mjd_float y m d = dvb_mjd_of_ymd y m d.
Proof. exact encode_float_int. Qed.

Lemma thm_time_of_day :
  (forall h m s rest, 0 <= h <= 99 -> 0 <= m <= 99 -> 0 <= s <= 99 ->
     parse_dvb_duration_seconds (new_iter ([bcd_byte h; bcd_byte m; bcd_byte s] ++ rest)) =
     Ok (tod_seconds h m s * 1000000000, mk_iter ([bcd_byte h; bcd_byte m; bcd_byte s] ++ rest) 3)) /\
  (forall h m s, 0 <= h <= 23 -> 0 <= m <= 59 -> 0 <= s <= 59 ->
     bytes_of_items (enc_dvb_duration_seconds (tod_seconds h m s * 1000000000)) = [bcd_byte h; bcd_byte m; bcd_byte s] /\
     bytes_of_items (enc_dvb_duration_seconds_float (tod_seconds h m s * 1000000000)) = [bcd_byte h; bcd_byte m; bcd_byte s]).
Proof.
  split.
  - intros. apply decode_duration_seconds; assumption.
  - intros h m s Hh Hm Hs. split.
    + apply (enc_duration_seconds_bytes h m s); [lia|assumption|assumption].
    + apply (enc_duration_float_bytes h m s); [lia|assumption|assumption].
Qed.

Lemma thm_decode_joint : forall mjd h m s rest,
  15079 <= mjd <= 65535 -> 0 <= h <= 99 -> 0 <= m <= 99 -> 0 <= s <= 99 ->
  parse_dvb_time (new_iter (spec_time_bytes mjd h m s ++ rest)) =
  Ok (spec_unix mjd h m s, mk_iter (spec_time_bytes mjd h m s ++ rest) 5).
Proof. exact decode_joint. Qed.

Lemma thm_encode_joint : forall mjd h m s,
  15079 <= mjd <= 65535 -> 0 <= h <= 23 -> 0 <= m <= 59 -> 0 <= s <= 59 ->
  bytes_of_items (enc_dvb_time (spec_unix mjd h m s)) = spec_time_bytes mjd h m s /\
  bytes_of_items (enc_dvb_time_float (spec_unix mjd h m s)) = spec_time_bytes mjd h m s.
Proof. exact encode_joint. Qed.

Lemma thm_roundtrip : forall u rest, 86400 * (15079 - 40587) <= u <= 86400 * (65535 - 40587) + 86399 ->
  parse_dvb_time (new_iter (bytes_of_items (enc_dvb_time u) ++ rest)) =
  Ok (u, mk_iter (bytes_of_items (enc_dvb_time u) ++ rest) 5).
Proof. exact roundtrip_unix. Qed.

Lemma thm_durations_decode :
  (forall h m s rest, 0 <= h <= 99 -> 0 <= m <= 99 -> 0 <= s <= 99 ->
     parse_dvb_duration_seconds (new_iter ([bcd_byte h; bcd_byte m; bcd_byte s] ++ rest)) =
     Ok (spec_duration_ns h m s, mk_iter ([bcd_byte h; bcd_byte m; bcd_byte s] ++ rest) 3)) /\
  (forall h m rest, 0 <= h <= 99 -> 0 <= m <= 99 ->
     parse_dvb_duration_minutes (new_iter ([bcd_byte h; bcd_byte m] ++ rest)) =
     Ok (spec_duration_ns h m 0, mk_iter ([bcd_byte h; bcd_byte m] ++ rest) 2)).
Proof. split; [exact decode_duration_seconds|exact decode_duration_minutes]. Qed.

Lemma thm_durations_encode : forall h m s, 0 <= h <= 99 -> 0 <= m <= 59 -> 0 <= s <= 59 ->
  bytes_of_items (enc_dvb_duration_seconds (spec_duration_ns h m s)) = [bcd_byte h; bcd_byte m; bcd_byte s] /\
  bytes_of_items (enc_dvb_duration_minutes (spec_duration_ns h m s)) = [bcd_byte h; bcd_byte m] /\
  (h <= 23 ->
   bytes_of_items (enc_dvb_duration_seconds_float (spec_duration_ns h m s)) = [bcd_byte h; bcd_byte m; bcd_byte s] /\
   bytes_of_items (enc_dvb_duration_minutes_float (spec_duration_ns h m s)) = [bcd_byte h; bcd_byte m]).
Proof.
  intros h m s Hh Hm Hs.
  split; [apply enc_duration_seconds_bytes; assumption|].
  split; [apply (enc_duration_minutes_bytes h m s); assumption|].
  intros H23. apply (enc_duration_float_bytes h m s); (assumption || lia).
Qed.

Lemma thm_durations_roundtrip : forall h m s rest, 0 <= h <= 99 -> 0 <= m <= 59 -> 0 <= s <= 59 ->
  parse_dvb_duration_seconds (new_iter (bytes_of_items (enc_dvb_duration_seconds (spec_duration_ns h m s)) ++ rest)) =
    Ok (spec_duration_ns h m s, mk_iter (bytes_of_items (enc_dvb_duration_seconds (spec_duration_ns h m s)) ++ rest) 3) /\
  parse_dvb_duration_minutes (new_iter (bytes_of_items (enc_dvb_duration_minutes (spec_duration_ns h m s)) ++ rest)) =
    Ok (spec_duration_ns h m 0, mk_iter (bytes_of_items (enc_dvb_duration_minutes (spec_duration_ns h m s)) ++ rest) 2).
Proof. exact roundtrip_duration. Qed.

Lemma thm_bcd_bytes :
  (forall b, 0 <= b <= 255 -> parseDVBDurationByte b = (b / 16) * 10 + b mod 16) /\
  (forall n, 0 <= n <= 99 -> dvbDurationByteRepresentation n = (n / 10) * 16 + n mod 10 /\
                             parseDVBDurationByte (dvbDurationByteRepresentation n) = n).
Proof.
  split.
  - exact parse_byte_digits.
  - intros n H. destruct (repr_bcd n H) as (A & B & _). rewrite A. split; [reflexivity|exact B].
Qed.

Lemma thm_raw_words :
  (forall b0 b1 b2 b3 b4 rest,
     0 <= b0 <= 255 -> 0 <= b1 <= 255 -> 0 <= b2 <= 255 -> 0 <= b3 <= 255 -> 0 <= b4 <= 255 ->
     parse_dvb_time (new_iter (b0 :: b1 :: b2 :: b3 :: b4 :: rest)) =
     Ok (dvb_date_unix (b0 * 256 + b1) + tod_seconds (bcd_value b2) (bcd_value b3) (bcd_value b4),
         mk_iter (b0 :: b1 :: b2 :: b3 :: b4 :: rest) 5)) /\
  (forall b0 b1 b2 rest, 0 <= b0 <= 255 -> 0 <= b1 <= 255 -> 0 <= b2 <= 255 ->
     parse_dvb_duration_seconds (new_iter (b0 :: b1 :: b2 :: rest)) =
       Ok (spec_duration_ns (bcd_value b0) (bcd_value b1) (bcd_value b2), mk_iter (b0 :: b1 :: b2 :: rest) 3) /\
     parse_dvb_duration_minutes (new_iter (b0 :: b1 :: rest)) =
       Ok (spec_duration_ns (bcd_value b0) (bcd_value b1) 0, mk_iter (b0 :: b1 :: rest) 2)).
Proof. split; [exact decode_raw|exact decode_duration_raw]. Qed.

Lemma thm_no_panic : forall i, 0 <= ioff i ->
  parse_dvb_time i <> Panic /\ parse_dvb_duration_seconds i <> Panic /\ parse_dvb_duration_minutes i <> Panic.
Proof.
  intros i H. repeat split;
    [apply parse_time_no_panic|apply parse_duration_seconds_no_panic|apply parse_duration_minutes_no_panic]; exact H.
Qed.

Lemma thm_short_input : forall bs, (length bs < 5)%nat -> run_iter parse_dvb_time bs = Err E_generic.
Proof. exact parse_time_short. Qed.

Lemma thm_writer_lengths : forall ns,
  length (bytes_of_items (enc_dvb_duration_seconds ns)) = 3%nat /\
  length (bytes_of_items (enc_dvb_duration_minutes ns)) = 2%nat.
Proof. exact enc_duration_lengths. Qed.
