(* The hand-written PSI WRITERS of Model/Psi.v ARE what go/gen/psiwritegen.go regenerates from the current /repo/data_psi.go,
   data_pat.go, data_pmt.go (Gen/PsiWriteGen.v, section PsiWriters): calcPMTSectionLength, calcPSISectionLength (with its
   nil dereferences), writePATSection, writePMTSection (ES loop), writePSISectionSyntaxHeader / SyntaxData / Syntax,
   writePSISection (header, section_length, the CRC_32 the write callback accumulates over exactly the bytes handed over
   since its registration) and writePSIData (pointer field, filler loop, section loop, count).

   The two callees outside the section are hypotheses here: calcDescriptorsLength is pointwise calc_descriptors_length and
   writeDescriptorsWithLength simulates enc_descriptors_with_length; Proofs/PsiWriteGenDesc.v discharges them with the
   functions regenerated from descriptor.go.  Statement: wfn_sim (Proofs/PsiWriteGenBase.v) with the byte counts below. *)
From Coq Require Import ZArith List Lia Bool ZifyBool.
Require Import Base.Bits Base.Iter Base.Wr Gen.Consts Gen.Types Gen.Preds Gen.MuxGen Gen.WriteGen Gen.PsiWriteGen
  Model.Packet Model.Desc Model.Psi Proofs.WriteGenBase Proofs.PsiWriteGenBase.
Import ListNotations.
Open Scope Z_scope.

(* ---- the counts the Go functions return ---- *)

Definition pat_written (d : PATData) : Z := Z.of_nat (length (PATData_Programs d)) * C_patSectionEntryBytesSize.
Definition pmt_es_written (es : PMTElementaryStream) : Z :=
  3 + (descriptors_written (PMTElementaryStream_ElementaryStreamDescriptors es) + 2).
Definition pmt_written (d : PMTData) : Z :=
  fold_left (fun n es => n + pmt_es_written es) (PMTData_ElementaryStreams d)
            (2 + (descriptors_written (PMTData_ProgramDescriptors d) + 2)).
Definition syntax_data_written (d : PSISectionSyntaxData) (tid : Z) : Z :=
  if tid =? C_PSITableIDPAT then pat_written (odflt zero_PATData (PSISectionSyntaxData_PAT d))
  else if tid =? C_PSITableIDPMT then pmt_written (odflt zero_PMTData (PSISectionSyntaxData_PMT d))
  else 0.
Definition syntax_written (s : PSISection) (tid : Z) : Z :=
  (if PSITableID_hasPSISyntaxHeader tid then 5 else 0) +
  syntax_data_written (odflt zero_PSISectionSyntaxData (PSISectionSyntax_Data (odflt zero_PSISectionSyntax (PSISection_Syntax s)))) tid.
Definition section_written (s : PSISection) : Z :=
  let h := odflt zero_PSISectionHeader (PSISection_Header s) in
  let tid := PSISectionHeader_TableID h in
  if PSISectionHeader_SectionLength h >? 0
  then 3 + syntax_written s tid + (if PSITableID_hasCRC32 tid then 4 else 0) else 3.
Definition psi_written (d : PSIData) : Z :=
  fold_left (fun n s => n + section_written s) (PSIData_Sections d) (1 + PSIData_PointerField d).

(* ---- calling a writer that is known through its simulation ---- *)

Ltac wmodel_cbn ::= cbn [need res_map res_bind].

Ltac wfn_call H :=
  let HX := fresh "HX" in pose proof H as HX;
  match type of HX with wfn_sim _ ?r _ =>
    let E := fresh "ER" in
    revert HX; destruct r as [?|?|] eqn:E; intros HX;
    [ let l := fresh "l" in let El := fresh "El" in let Hn := fresh "Hn" in let Hd := fresh "Hd" in
      destruct (wfn_ok_inv _ _ _ HX) as (l & El & Hn & Hd); rewrite El; clear El HX; wsimpl; wmodel_cbn
    | let l := fresh "l" in let a := fresh "a" in let e := fresh "e" in let El := fresh "El" in let He := fresh "He" in
      destruct (wfn_err_inv _ _ _ HX) as (l & a & e & El & He); rewrite El; clear El HX; wsimpl;
      rewrite ?(werr_not_nil _ _ He); wsimpl; wmodel_cbn
    | let l := fresh "l" in let El := fresh "El" in
      destruct (wfn_panic_inv _ _ HX) as (l & El); rewrite El; clear El HX; wsimpl; wmodel_cbn ]
  end.

(* the callee cannot fail *)
Ltac wfn_call_ok H :=
  let l := fresh "l" in let El := fresh "El" in let Hn := fresh "Hn" in let Hd := fresh "Hd" in
  destruct (wfn_ok_inv _ _ _ H) as (l & El & Hn & Hd); rewrite El; clear El; wsimpl; wmodel_cbn.

Ltac wm_call H :=
  let HX := fresh "HX" in pose proof H as HX;
  match type of HX with wm_sim ?ef _ ?r _ =>
    let E := fresh "ER" in
    revert HX; destruct r as [?|?|] eqn:E; intros HX;
    [ let l := fresh "l" in let a := fresh "va" in let El := fresh "El" in let Pa := fresh "Pa" in
      let Hn := fresh "Hn" in let Hd := fresh "Hd" in
      destruct (wm_ok_inv _ _ _ _ HX) as (l & a & El & Pa & Hn & Hd); rewrite El; clear El HX; wsimpl; wmodel_cbn
    | let l := fresh "l" in let x := fresh "x" in let El := fresh "El" in let He := fresh "He" in
      destruct (wm_err_inv _ _ _ _ HX) as (l & x & El & He); rewrite El; clear El HX; wsimpl; wmodel_cbn
    | let l := fresh "l" in let El := fresh "El" in
      destruct (wm_panic_inv _ _ _ HX) as (l & El); rewrite El; clear El HX; wsimpl; wmodel_cbn ]
  end.

(* goals of the error / panic cases *)
Ltac wfail :=
  unfold wfn_sim; cbn [res_map wf_sim wm_sim wfe_sim fst snd];
  repeat match goal with x : (Z * merror)%type |- _ => destruct x end; cbn [fst snd] in *;
  first [ reflexivity | solve [eauto] | eexists; split; [reflexivity|]; cbn [snd]; solve [eauto] ].

Ltac wieq :=
  rewrite <- ?app_assoc; cbn [app];
  repeat first
    [ assumption
    | apply ieq_nil
    | apply ieq_cons; [ whead_eq | ]
    | apply ieq_app; [ assumption | ]
    | apply ieq_app ].

Section Psi.

Variable cdl : list Descriptor -> Z.
Variable wdl : list Descriptor -> WF (Z * merror).
Hypothesis Hcdl : forall ds, cdl ds = calc_descriptors_length ds.
Hypothesis Hwdl : forall ds, wfn_sim (wdl ds) (enc_descriptors_with_length ds) (descriptors_written ds + 2).

(* ---- the length calculators ---- *)

Lemma calcPMTSectionLength_step a es :
  calcPMTSectionLength_loop1 cdl a es =
  ((a + 5) mod 65536 + calc_descriptors_length (PMTElementaryStream_ElementaryStreamDescriptors es)) mod 65536.
Proof. unfold calcPMTSectionLength_loop1. rewrite ?Hcdl. zmod_eq. Qed.

Lemma calcPMTSectionLength_is_model d : calcPMTSectionLength cdl d = calc_pmt_section_length d.
Proof.
  unfold calcPMTSectionLength, calc_pmt_section_length. rewrite ?Hcdl. try change (4 mod 65536) with 4.
  match goal with |- fold_left _ _ ?x = fold_left _ _ ?y => replace x with y by zmod_eq; generalize y end.
  induction (PMTData_ElementaryStreams d) as [|es l IH]; intros a; [reflexivity|].
  cbn [fold_left]. rewrite calcPMTSectionLength_step. apply IH.
Qed.

(* calcPMTProgramInfoLength (data_pmt.go; no caller in the package): the same walk as calcPMTSectionLength started from 2
   instead of 4, so the section length is the program info length plus the two bytes of pcr_pid, in uint16 arithmetic. *)
Lemma calcPMTProgramInfoLength_fold l : forall a b, a = (b + 2) mod 65536 ->
  fold_left (calcPMTSectionLength_loop1 cdl) l a = (fold_left (calcPMTProgramInfoLength_loop1 cdl) l b + 2) mod 65536.
Proof.
  induction l as [|es l IH]; intros a b Hab; cbn [fold_left]; [exact Hab|].
  apply IH. unfold calcPMTSectionLength_loop1, calcPMTProgramInfoLength_loop1. cbv zeta. subst a. rewrite Zplus_mod_idemp_l. rewrite <- !Z.add_assoc. rewrite Zplus_mod_idemp_l. symmetry. rewrite Zplus_mod_idemp_l. rewrite <- !Z.add_assoc. rewrite Zplus_mod_idemp_l. f_equal; ring.
Qed.

Lemma calcPMTProgramInfoLength_section d :
  calcPMTSectionLength cdl d = (calcPMTProgramInfoLength cdl d + 2) mod 65536.
Proof.
  unfold calcPMTSectionLength, calcPMTProgramInfoLength. apply calcPMTProgramInfoLength_fold.
  change (4 mod 65536) with 4. change (2 mod 65536) with 2. zmod_eq.
Qed.

Definition res_opt {A} (r : res A) : option A := match r with Ok a => Some a | _ => None end.

Lemma calcPSISectionLength_is_model s :
  calcPSISectionLength cdl s = ([], res_opt (calc_psi_section_length_res s)).
Proof.
  unfold calcPSISectionLength, calc_psi_section_length_res.
  destruct (PSISection_Header s) as [h|]; [|reflexivity]. cbn [need res_bind]. wsimpl.
  change (0 mod 65536) with 0.
  destruct (PSITableID_hasPSISyntaxHeader (PSISectionHeader_TableID h)); wsimpl;
  (destruct (PSISectionHeader_TableID h =? C_PSITableIDPAT);
   [ destruct (PSISection_Syntax s) as [syn|]; [|reflexivity]; cbn [need res_bind]; wsimpl;
     destruct (PSISectionSyntax_Data syn) as [dd|]; [|reflexivity]; cbn [need res_bind]; wsimpl;
     destruct (PSISectionSyntaxData_PAT dd) as [pat|]; [|reflexivity]; cbn [need res_bind]; wsimpl
   | destruct (PSISectionHeader_TableID h =? C_PSITableIDPMT);
     [ destruct (PSISection_Syntax s) as [syn|]; [|reflexivity]; cbn [need res_bind]; wsimpl;
       destruct (PSISectionSyntax_Data syn) as [dd|]; [|reflexivity]; cbn [need res_bind]; wsimpl;
       destruct (PSISectionSyntaxData_PMT dd) as [pmt|]; [|reflexivity]; cbn [need res_bind]; wsimpl;
       rewrite calcPMTSectionLength_is_model
     | cbn [res_bind]; wsimpl ] ]);
  destruct (PSITableID_hasCRC32 (PSISectionHeader_TableID h)); wsimpl; cbn [res_opt]; reflexivity.
Qed.

Lemma calc_psi_section_length_no_err s c : calc_psi_section_length_res s <> Err c.
Proof.
  unfold calc_psi_section_length_res.
  destruct (PSISection_Header s) as [h|]; cbn [need res_bind]; [|discriminate].
  destruct (PSISectionHeader_TableID h =? C_PSITableIDPAT), (PSISectionHeader_TableID h =? C_PSITableIDPMT);
    destruct (PSISection_Syntax s) as [syn|]; cbn [need res_bind]; try discriminate;
    destruct (PSISectionSyntax_Data syn) as [dd|]; cbn [need res_bind]; try discriminate;
    destruct (PSISectionSyntaxData_PAT dd), (PSISectionSyntaxData_PMT dd); cbn [need res_bind]; discriminate.
Qed.

(* ---- PAT ---- *)

Lemma pat_loop_is l : exists its,
  writePATSection_loop1 l = (its, WVal tt) /\ ieq its (flat_map enc_pat_program l) /\ nd its = true.
Proof.
  induction l as [|p l (its & E & H1 & H2)].
  - exists []. repeat split.
  - cbn [writePATSection_loop1]. rewrite E. wsimpl. eexists. split; [reflexivity|]. split.
    + cbn [flat_map]. unfold enc_pat_program, wu16. wieq.
    + wnd.
Qed.

Lemma writePATSection_is_model d : wfn_sim (writePATSection d) (Ok (enc_pat_section d)) (pat_written d).
Proof.
  unfold writePATSection, wfn_sim. destruct (pat_loop_is (PATData_Programs d)) as (its & E & H1 & H2).
  rewrite E. wsimpl. cbn [res_map]. unfold wf_sim, wf_ok. cbn [fst snd]. rewrite app_nil_r. repeat split; assumption.
Qed.

(* ---- PMT ---- *)

Lemma pmt_loop_is l : forall bw n err,
  wm_sim snd (writePMTSection_loop1 wdl l bw n err) (enc_pmt_ess l)
         (fun a => fst (fst a) = fold_left (fun x es => x + pmt_es_written es) l bw).
Proof.
  induction l as [|es l IH]; intros bw n err.
  - cbn. exists (bw, n, err). repeat split.
  - cbn [writePMTSection_loop1 enc_pmt_ess]. unfold enc_pmt_es. wsimpl.
    wfn_call (Hwdl (PMTElementaryStream_ElementaryStreamDescriptors es)); try wfail.
    wm_call (IH (bw + 3 + (descriptors_written (PMTElementaryStream_ElementaryStreamDescriptors es) + 2))
                (descriptors_written (PMTElementaryStream_ElementaryStreamDescriptors es) + 2) ENil); try wfail.
    cbn [wm_sim fst snd]. exists va. split; [reflexivity|]. split.
    { cbn [fold_left]. rewrite Pa. f_equal. unfold pmt_es_written. lia. }
    split; [unfold wu8; wieq | wnd].
Qed.

Lemma writePMTSection_is_model d : wfn_sim (writePMTSection wdl d) (enc_pmt_section d) (pmt_written d).
Proof.
  unfold writePMTSection, enc_pmt_section. wsimpl.
  wfn_call (Hwdl (PMTData_ProgramDescriptors d)); try wfail.
  wm_call (pmt_loop_is (PMTData_ElementaryStreams d) (2 + (descriptors_written (PMTData_ProgramDescriptors d) + 2))
             (descriptors_written (PMTData_ProgramDescriptors d) + 2) ENil); try wfail.
  destruct va as [[bw' n'] e']. wsimpl. cbn [fst] in Pa.
  unfold wfn_sim. cbn [res_map wf_sim]. unfold wf_ok. cbn [fst snd]. rewrite app_nil_r. split.
  { unfold pmt_written. rewrite Pa. reflexivity. }
  split; [wieq | wnd].
Qed.

(* ---- section syntax ---- *)

Lemma writeSyntaxHeader_is_model h :
  wfn_sim (writePSISectionSyntaxHeader h) (Ok (enc_psi_section_syntax_header h)) 5.
Proof.
  unfold writePSISectionSyntaxHeader, enc_psi_section_syntax_header, wfn_sim. wsimpl. cbn [res_map].
  unfold wf_sim, wf_ok. cbn [fst snd]. split; [reflexivity|]. split; [|reflexivity].
  unfold wu16, wu8. apply ieq_map_nsnd. wieq.
Qed.

Lemma writeSyntaxData_is_model d tid :
  wfn_sim (writePSISectionSyntaxData wdl d tid) (enc_psi_section_syntax_data d tid) (syntax_data_written d tid).
Proof.
  unfold writePSISectionSyntaxData, enc_psi_section_syntax_data, syntax_data_written.
  destruct (tid =? C_PSITableIDPAT).
  - destruct (PSISectionSyntaxData_PAT d) as [pat|]; [|reflexivity]. wsimpl. cbn [need res_map odflt].
    wfn_call_ok (writePATSection_is_model pat).
    unfold wfn_sim. cbn [res_map wf_sim]. unfold wf_ok. cbn [fst snd]. rewrite !app_nil_r. repeat split; assumption.
  - destruct (tid =? C_PSITableIDPMT).
    + destruct (PSISectionSyntaxData_PMT d) as [pmt|]; [|reflexivity]. wsimpl. cbn [need res_bind odflt].
      wfn_call (writePMTSection_is_model pmt); try wfail.
      unfold wfn_sim. cbn [res_map wf_sim]. unfold wf_ok. cbn [fst snd]. rewrite !app_nil_r. repeat split; assumption.
    + wsimpl. unfold wfn_sim. cbn [res_map wf_sim]. unfold wf_ok. cbn [fst snd]. repeat split.
Qed.

(* the table id comes from the section header *)
Definition enc_syntax_of (s : PSISection) : res (list witem) :=
  res_bind (need (PSISection_Header s)) (fun h => enc_psi_section_syntax s (PSISectionHeader_TableID h)).

Lemma writeSyntax_is_model s h : PSISection_Header s = Some h ->
  wfn_sim (writePSISectionSyntax wdl s) (enc_psi_section_syntax s (PSISectionHeader_TableID h))
          (syntax_written s (PSISectionHeader_TableID h)).
Proof.
  intros EH. unfold writePSISectionSyntax, enc_psi_section_syntax, syntax_written. rewrite EH. wsimpl.
  destruct (PSISection_Syntax s) as [syn|].
  2: { destruct (PSITableID_hasPSISyntaxHeader _); wsimpl; reflexivity. }
  cbn [need res_bind odflt].
  destruct (PSITableID_hasPSISyntaxHeader (PSISectionHeader_TableID h)).
  - wsimpl. destruct (PSISectionSyntax_Header syn) as [sh|]; [|reflexivity]. wsimpl. cbn [need res_map res_bind].
    wfn_call_ok (writeSyntaxHeader_is_model sh).
    destruct (PSISectionSyntax_Data syn) as [dd|]; [|reflexivity]. wsimpl. cbn [need res_bind odflt].
    wfn_call (writeSyntaxData_is_model dd (PSISectionHeader_TableID h)); try wfail.
    unfold wfn_sim. cbn [res_map wf_sim]. unfold wf_ok. cbn [fst snd]. rewrite !app_nil_r. split; [reflexivity|].
    split; [apply ieq_app; assumption | wnd].
  - wsimpl. cbn [res_bind].
    destruct (PSISectionSyntax_Data syn) as [dd|]; [|reflexivity]. wsimpl. cbn [need res_bind odflt].
    wfn_call (writeSyntaxData_is_model dd (PSISectionHeader_TableID h)); try wfail.
    unfold wfn_sim. cbn [res_map wf_sim]. unfold wf_ok. cbn [fst snd]. rewrite !app_nil_r. split; [reflexivity|].
    split; assumption.
Qed.

(* ---- a whole section: header, section_length, syntax, CRC_32 ---- *)

Lemma writePSISection_is_model s : wfn_sim (writePSISection cdl wdl s) (enc_psi_section s) (section_written s).
Proof.
  unfold writePSISection, enc_psi_section, section_written.
  destruct (PSISection_Header s) as [h|] eqn:EH; [|reflexivity]. cbn [need res_bind odflt]. wsimpl.
  destruct (negb (PSISectionHeader_TableID h =? C_PSITableIDPAT) && negb (PSISectionHeader_TableID h =? C_PSITableIDPMT)) eqn:ET.
  { wsimpl. unfold wfn_sim. cbn [res_map wf_sim snd]. eauto. }
  wsimpl. rewrite calcPSISectionLength_is_model.
  destruct (calc_psi_section_length_res s) as [sl|c|] eqn:ESL; cbn [res_opt res_bind]; wsimpl;
    [ | exfalso; exact (calc_psi_section_length_no_err s c ESL) | reflexivity ].
  destruct (PSISectionHeader_SectionLength h >? 0); wsimpl.
  - wfn_call (writeSyntax_is_model s h EH); try wfail.
    destruct (PSITableID_hasCRC32 (PSISectionHeader_TableID h)) eqn:EC; wsimpl.
    + unfold wfn_sim. cbn [res_map wf_sim]. unfold wf_ok. cbn [fst snd]. rewrite !app_nil_r. split; [f_equal; f_equal; lia|].
      split; [|wnd]. unfold wu8, wu32. apply ieq_map_nsnd. rewrite <- ?app_assoc. cbn [app].
      repeat (apply ieq_cons; [whead_eq|]). apply ieq_app; [assumption|]. apply ieq_cons; [|apply ieq_nil].
      (* the CRC_32 item: the callback has seen exactly the bytes of the items in front of it *)
      cbn [nsnd norm snd]. f_equal. f_equal. rewrite wcb_crc. f_equal. apply ieq_bytes.
      repeat (apply ieq_cons; [whead_eq|]). assumption.
    + unfold wfn_sim. cbn [res_map wf_sim]. unfold wf_ok. cbn [fst snd]. rewrite !app_nil_r. split; [f_equal; f_equal; lia|].
      split; [|wnd]. unfold wu8. apply ieq_map_nsnd. rewrite <- ?app_assoc. cbn [app].
      repeat (apply ieq_cons; [whead_eq|]). assumption.
  - unfold wfn_sim. cbn [res_map wf_sim]. unfold wf_ok. cbn [fst snd]. split; [reflexivity|]. split; [|reflexivity].
    unfold wu8. apply ieq_map_nsnd. repeat (apply ieq_cons; [whead_eq|]). apply ieq_nil.
Qed.

(* ---- writePSIData ---- *)

Lemma psi_fill_loop_is n : forall d i,
  writePSIData_loop1 n d i = (repeat (WBatch, WBits 8 (0 mod 256)) n, WVal (i + Z.of_nat n)).
Proof.
  induction n as [|n IH]; intros.
  - cbn [writePSIData_loop1 wret repeat Z.of_nat]. rewrite Z.add_0_r. reflexivity.
  - cbn [writePSIData_loop1]. rewrite IH. wsimpl. cbn [repeat].
    apply f_equal2; [reflexivity|]. apply f_equal. lia.
Qed.

Lemma psi_sections_loop_is l : forall bw,
  wm_sim snd (writePSIData_loop2 cdl wdl l bw) (enc_psi_sections l)
         (fun bw' => bw' = fold_left (fun x s => x + section_written s) l bw).
Proof.
  induction l as [|s l IH]; intros bw.
  - cbn. exists bw. repeat split.
  - cbn [writePSIData_loop2 enc_psi_sections].
    wfn_call (writePSISection_is_model s); try wfail.
    wm_call (IH (bw + section_written s)); try wfail.
    cbn [wm_sim fst snd]. exists va. split; [reflexivity|]. split; [exact Pa|].
    split; [apply ieq_app; assumption | wnd].
Qed.

Theorem writePSIData_is_model d : wfn_sim (writePSIData cdl wdl d) (enc_psi_data d) (psi_written d).
Proof.
  unfold writePSIData, enc_psi_data. wsimpl. rewrite psi_fill_loop_is. wsimpl.
  wm_call (psi_sections_loop_is (PSIData_Sections d) (1 + PSIData_PointerField d)); try wfail.
  unfold wfn_sim. cbn [res_map wf_sim]. unfold wf_ok. cbn [fst snd]. rewrite !app_nil_r. split.
  { unfold psi_written. rewrite Pa. reflexivity. }
  split.
  - unfold wu8, repeat_item. apply ieq_map_nsnd. cbn [app]. apply ieq_cons; [whead_eq|].
    apply ieq_app; [|assumption]. apply ieq_repeat; [reflexivity|]. rewrite Z.sub_0_r. reflexivity.
  - apply nd_cons; [reflexivity|]. apply nd_app'; [apply nd_repeat; reflexivity|assumption].
Qed.

End Psi.
