(* The descriptor LOOP writers of Model/Desc.v ARE what go/gen/psiwritegen.go regenerates from the current
   /repo/descriptor.go (Gen/PsiWriteGen.v, section DescriptorLoop): calcDescriptorLength (the tag switch),
   calcDescriptorsLength (the uint16 accumulation), writeDescriptor (tag, the uint8 length, the dispatch on the tag with
   its nil dereferences, the count), writeDescriptors and writeDescriptorsWithLength.

   The callees outside the section are hypotheses here: the two length calculators the translator leaves abstract
   (calcDescriptorUserDefinedLength: nil comparison of a slice; calcDescriptorExtensionLength: *[]byte) are pointwise the
   model's, and each of the 24 body writers simulates its model (wfe_sim); Proofs/PsiWriteGenBodies.v discharges the
   latter with the functions regenerated from the same file. *)
From Coq Require Import ZArith List Lia Bool ZifyBool.
Require Import Base.Bits Base.Iter Base.Wr Gen.Consts Gen.Types Gen.Preds Gen.MuxGen Gen.WriteGen Gen.PsiWriteGen
  Model.Packet Model.Desc Proofs.WriteGenBase Proofs.PsiWriteGenBase Proofs.PsiWriteGenPsi.
Import ListNotations.
Open Scope Z_scope.

Ltac wmodel_cbn ::= cbn [need dneed res_map res_bind].

Ltac wfe_call H :=
  let HX := fresh "HX" in pose proof H as HX;
  match type of HX with wfe_sim _ ?r =>
    let E := fresh "ER" in
    revert HX; destruct r as [?|?|] eqn:E; intros HX;
    [ let l := fresh "l" in let El := fresh "El" in let Hn := fresh "Hn" in let Hd := fresh "Hd" in
      destruct (wfe_ok_inv _ _ HX) as (l & El & Hn & Hd); rewrite El; clear El HX; wsimpl; wmodel_cbn
    | let l := fresh "l" in let e := fresh "e" in let El := fresh "El" in let He := fresh "He" in
      destruct (wfe_err_inv _ _ HX) as (l & e & El & He); rewrite El; clear El HX; wsimpl;
      rewrite ?(werr_not_nil _ _ He); wsimpl; wmodel_cbn
    | let l := fresh "l" in let El := fresh "El" in
      destruct (wfe_panic_inv _ HX) as (l & El); rewrite El; clear El HX; wsimpl; wmodel_cbn ]
  end.

Ltac wfe_call_ok H :=
  let l := fresh "l" in let El := fresh "El" in let Hn := fresh "Hn" in let Hd := fresh "Hd" in
  destruct (wfe_ok_inv _ _ H) as (l & El & Hn & Hd); rewrite El; clear El; wsimpl; wmodel_cbn.

Section Loop.

Variable cudl : list Z -> Z.
Variable cel : option DescriptorExtension -> Z.
Variable wUserDefined : list Z -> WF merror.
Variable wAC3 : DescriptorAC3 -> WF merror.
Variable wAVCVideo : DescriptorAVCVideo -> WF merror.
Variable wComponent : DescriptorComponent -> WF merror.
Variable wContent : DescriptorContent -> WF merror.
Variable wDataStreamAlignment : DescriptorDataStreamAlignment -> WF merror.
Variable wEnhancedAC3 : DescriptorEnhancedAC3 -> WF merror.
Variable wExtendedEvent : DescriptorExtendedEvent -> WF merror.
Variable wExtension : DescriptorExtension -> WF merror.
Variable wISO639 : DescriptorISO639LanguageAndAudioType -> WF merror.
Variable wLocalTimeOffset : DescriptorLocalTimeOffset -> WF merror.
Variable wMaximumBitrate : DescriptorMaximumBitrate -> WF merror.
Variable wNetworkName : DescriptorNetworkName -> WF merror.
Variable wParentalRating : DescriptorParentalRating -> WF merror.
Variable wPrivateDataIndicator : DescriptorPrivateDataIndicator -> WF merror.
Variable wPrivateDataSpecifier : DescriptorPrivateDataSpecifier -> WF merror.
Variable wRegistration : DescriptorRegistration -> WF merror.
Variable wService : DescriptorService -> WF merror.
Variable wShortEvent : DescriptorShortEvent -> WF merror.
Variable wStreamIdentifier : DescriptorStreamIdentifier -> WF merror.
Variable wSubtitling : DescriptorSubtitling -> WF merror.
Variable wTeletext : DescriptorTeletext -> WF merror.
Variable wVBIData : DescriptorVBIData -> WF merror.
Variable wUnknown : DescriptorUnknown -> WF merror.

Hypothesis Hcudl : forall d, cudl d = calc_user_defined_length d.
Hypothesis Hcel : forall d, cel d = calc_extension_length d.
Hypothesis HUserDefined : forall d, wfe_sim (wUserDefined d) (Ok [WBytes d]).
Hypothesis HAC3 : forall d, wfe_sim (wAC3 d) (Ok (enc_ac3 d)).
Hypothesis HAVCVideo : forall d, wfe_sim (wAVCVideo d) (Ok (enc_avc_video d)).
Hypothesis HComponent : forall d, wfe_sim (wComponent d) (Ok (enc_component d)).
Hypothesis HContent : forall d, wfe_sim (wContent d) (Ok (enc_content d)).
Hypothesis HDataStreamAlignment : forall d, wfe_sim (wDataStreamAlignment d) (Ok (enc_data_stream_alignment d)).
Hypothesis HEnhancedAC3 : forall d, wfe_sim (wEnhancedAC3 d) (Ok (enc_enhanced_ac3 d)).
Hypothesis HExtendedEvent : forall d, wfe_sim (wExtendedEvent d) (Ok (enc_extended_event d)).
Hypothesis HExtension : forall d, wfe_sim (wExtension d) (enc_extension d).
Hypothesis HISO639 : forall d, wfe_sim (wISO639 d) (Ok (enc_iso639 d)).
Hypothesis HLocalTimeOffset : forall d, wfe_sim (wLocalTimeOffset d) (Ok (enc_local_time_offset d)).
Hypothesis HMaximumBitrate : forall d, wfe_sim (wMaximumBitrate d) (Ok (enc_maximum_bitrate d)).
Hypothesis HNetworkName : forall d, wfe_sim (wNetworkName d) (Ok (enc_network_name d)).
Hypothesis HParentalRating : forall d, wfe_sim (wParentalRating d) (Ok (enc_parental_rating d)).
Hypothesis HPrivateDataIndicator : forall d, wfe_sim (wPrivateDataIndicator d) (Ok (enc_private_data_indicator d)).
Hypothesis HPrivateDataSpecifier : forall d, wfe_sim (wPrivateDataSpecifier d) (Ok (enc_private_data_specifier d)).
Hypothesis HRegistration : forall d, wfe_sim (wRegistration d) (Ok (enc_registration d)).
Hypothesis HService : forall d, wfe_sim (wService d) (Ok (enc_service d)).
Hypothesis HShortEvent : forall d, wfe_sim (wShortEvent d) (Ok (enc_short_event d)).
Hypothesis HStreamIdentifier : forall d, wfe_sim (wStreamIdentifier d) (Ok (enc_stream_identifier d)).
Hypothesis HSubtitling : forall d, wfe_sim (wSubtitling d) (Ok (enc_subtitling d)).
Hypothesis HTeletext : forall d, wfe_sim (wTeletext d) (Ok (enc_teletext d)).
Hypothesis HVBIData : forall d, wfe_sim (wVBIData d) (Ok (enc_vbi_data d)).
Hypothesis HUnknown : forall d, wfe_sim (wUnknown d) (Ok (enc_unknown d)).

(* f applied to the section's variables (the notation names no generated function: a function that is missing from
   Gen/PsiWriteGen.v makes the LEMMA about it fail, by name) *)
Notation gen_calc f := (f cudl cel).
Notation gen_desc f :=
  (f cudl cel wUserDefined wAC3 wAVCVideo wComponent wContent wDataStreamAlignment wEnhancedAC3 wExtendedEvent
     wExtension wISO639 wLocalTimeOffset wMaximumBitrate wNetworkName wParentalRating wPrivateDataIndicator
     wPrivateDataSpecifier wRegistration wService wShortEvent wStreamIdentifier wSubtitling wTeletext wVBIData wUnknown).

(* ---- the length calculators ---- *)

Lemma calcDescriptorLength_is_model d : gen_calc calcDescriptorLength d = calc_descriptor_length d.
Proof.
  unfold calcDescriptorLength, calc_descriptor_length, is_user_defined.
  rewrite Z.geb_leb, Hcudl, Hcel.
  destruct (calcDescriptorExtendedEventLength (Descriptor_ExtendedEvent d)) as [a b]. cbn [fst].
  reflexivity.
Qed.

Lemma calcDescriptorsLength_step a d :
  gen_calc calcDescriptorsLength_loop1 a d = ((a + 2) mod 65536 + calc_descriptor_length d) mod 65536.
Proof. unfold calcDescriptorsLength_loop1. rewrite ?calcDescriptorLength_is_model. zmod_eq. Qed.

Lemma calcDescriptorsLength_is_model ds : gen_calc calcDescriptorsLength ds = calc_descriptors_length ds.
Proof.
  unfold calcDescriptorsLength, calc_descriptors_length. try change (0 mod 65536) with 0. generalize 0.
  induction ds as [|d ds IH]; intros a; [reflexivity|].
  cbn [fold_left]. rewrite calcDescriptorsLength_step. apply IH.
Qed.

(* ---- writeDescriptor ---- *)

Ltac wbody_ok :=
  unfold wfn_sim; cbn [res_map wf_sim]; unfold wf_ok; cbn [fst snd]; rewrite ?app_nil_r;
  split; [reflexivity|]; split;
  [ unfold wu8; apply ieq_map_nsnd; cbn [app]; repeat (apply ieq_cons; [whead_eq|]); assumption
  | wnd ].

(* one case of the dispatch: the pointer is dereferenced, the body writer called *)
Ltac wdispatch o H :=
  destruct o as [x|]; [|wsimpl; reflexivity]; wsimpl; wmodel_cbn; wfe_call_ok (H x); wbody_ok.

Lemma writeDescriptor_is_model d : wfn_sim (gen_desc writeDescriptor d) (enc_descriptor d) (descriptor_written d).
Proof.
  unfold writeDescriptor, enc_descriptor, descriptor_written. rewrite calcDescriptorLength_is_model. wsimpl.
  destruct (calc_descriptor_length d =? 0).
  { wsimpl. unfold wfn_sim. cbn [res_map wf_sim]. unfold wf_ok. cbn [fst snd]. split; [reflexivity|]. split; [|reflexivity].
    unfold wu8. apply ieq_map_nsnd. repeat (apply ieq_cons; [whead_eq|]). apply ieq_nil. }
  wsimpl. unfold enc_descriptor_body, is_user_defined. rewrite Z.geb_leb.
  destruct ((128 <=? Descriptor_Tag d) && (Descriptor_Tag d <=? 254)).
  { wsimpl. wmodel_cbn. wfe_call_ok (HUserDefined (Descriptor_UserDefined d)). wbody_ok. }
  wsimpl.
  destruct (Descriptor_Tag d =? C_DescriptorTagAC3); [wdispatch (Descriptor_AC3 d) HAC3|].
  destruct (Descriptor_Tag d =? C_DescriptorTagAVCVideo); [wdispatch (Descriptor_AVCVideo d) HAVCVideo|].
  destruct (Descriptor_Tag d =? C_DescriptorTagComponent); [wdispatch (Descriptor_Component d) HComponent|].
  destruct (Descriptor_Tag d =? C_DescriptorTagContent); [wdispatch (Descriptor_Content d) HContent|].
  destruct (Descriptor_Tag d =? C_DescriptorTagDataStreamAlignment); [wdispatch (Descriptor_DataStreamAlignment d) HDataStreamAlignment|].
  destruct (Descriptor_Tag d =? C_DescriptorTagEnhancedAC3); [wdispatch (Descriptor_EnhancedAC3 d) HEnhancedAC3|].
  destruct (Descriptor_Tag d =? C_DescriptorTagExtendedEvent); [wdispatch (Descriptor_ExtendedEvent d) HExtendedEvent|].
  destruct (Descriptor_Tag d =? C_DescriptorTagExtension).
  { destruct (Descriptor_Extension d) as [x|]; [|wsimpl; reflexivity]. wsimpl. wmodel_cbn.
    wfe_call (HExtension x); [wbody_ok | wfail | wfail]. }
  destruct (Descriptor_Tag d =? C_DescriptorTagISO639LanguageAndAudioType); [wdispatch (Descriptor_ISO639LanguageAndAudioType d) HISO639|].
  destruct (Descriptor_Tag d =? C_DescriptorTagLocalTimeOffset); [wdispatch (Descriptor_LocalTimeOffset d) HLocalTimeOffset|].
  destruct (Descriptor_Tag d =? C_DescriptorTagMaximumBitrate); [wdispatch (Descriptor_MaximumBitrate d) HMaximumBitrate|].
  destruct (Descriptor_Tag d =? C_DescriptorTagNetworkName); [wdispatch (Descriptor_NetworkName d) HNetworkName|].
  destruct (Descriptor_Tag d =? C_DescriptorTagParentalRating); [wdispatch (Descriptor_ParentalRating d) HParentalRating|].
  destruct (Descriptor_Tag d =? C_DescriptorTagPrivateDataIndicator); [wdispatch (Descriptor_PrivateDataIndicator d) HPrivateDataIndicator|].
  destruct (Descriptor_Tag d =? C_DescriptorTagPrivateDataSpecifier); [wdispatch (Descriptor_PrivateDataSpecifier d) HPrivateDataSpecifier|].
  destruct (Descriptor_Tag d =? C_DescriptorTagRegistration); [wdispatch (Descriptor_Registration d) HRegistration|].
  destruct (Descriptor_Tag d =? C_DescriptorTagService); [wdispatch (Descriptor_Service d) HService|].
  destruct (Descriptor_Tag d =? C_DescriptorTagShortEvent); [wdispatch (Descriptor_ShortEvent d) HShortEvent|].
  destruct (Descriptor_Tag d =? C_DescriptorTagStreamIdentifier); [wdispatch (Descriptor_StreamIdentifier d) HStreamIdentifier|].
  destruct (Descriptor_Tag d =? C_DescriptorTagSubtitling); [wdispatch (Descriptor_Subtitling d) HSubtitling|].
  destruct (Descriptor_Tag d =? C_DescriptorTagTeletext); [wdispatch (Descriptor_Teletext d) HTeletext|].
  destruct (Descriptor_Tag d =? C_DescriptorTagVBIData); [wdispatch (Descriptor_VBIData d) HVBIData|].
  destruct (Descriptor_Tag d =? C_DescriptorTagVBITeletext); [wdispatch (Descriptor_VBITeletext d) HTeletext|].
  wdispatch (Descriptor_Unknown d) HUnknown.
Qed.

(* ---- the loop and the 12-bit loop length ---- *)

Lemma descriptors_loop_is l : forall written,
  wm_sim snd (gen_desc writeDescriptors_loop1 l written) (enc_descriptors l)
         (fun w' => w' = fold_left (fun n d => n + descriptor_written d) l written).
Proof.
  induction l as [|d l IH]; intros written.
  - cbn. exists written. repeat split.
  - cbn [writeDescriptors_loop1 enc_descriptors].
    wfn_call (writeDescriptor_is_model d); try wfail.
    wm_call (IH (written + descriptor_written d)); try wfail.
    cbn [wm_sim fst snd]. exists va. split; [reflexivity|]. split; [exact Pa|].
    split; [apply ieq_app; assumption | wnd].
Qed.

Lemma writeDescriptors_is_model ds : wfn_sim (gen_desc writeDescriptors ds) (enc_descriptors ds) (descriptors_written ds).
Proof.
  unfold writeDescriptors. wsimpl.
  wm_call (descriptors_loop_is ds 0); try wfail.
  unfold wfn_sim. cbn [res_map wf_sim]. unfold wf_ok. cbn [fst snd]. rewrite !app_nil_r. split.
  { unfold descriptors_written. rewrite Pa. reflexivity. }
  split; assumption.
Qed.

Theorem writeDescriptorsWithLength_is_model ds :
  wfn_sim (gen_desc writeDescriptorsWithLength ds) (enc_descriptors_with_length ds) (descriptors_written ds + 2).
Proof.
  unfold writeDescriptorsWithLength, enc_descriptors_with_length. rewrite calcDescriptorsLength_is_model. wsimpl.
  wfn_call (writeDescriptors_is_model ds); try wfail.
  unfold wfn_sim. cbn [res_map wf_sim]. unfold wf_ok. cbn [fst snd]. rewrite !app_nil_r. split; [reflexivity|].
  split; [|wnd]. apply ieq_map_nsnd. cbn [app]. repeat (apply ieq_cons; [whead_eq|]). assumption.
Qed.

End Loop.
