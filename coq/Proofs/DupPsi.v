(* C06, duplicates on PSI PIDs (PID 0 or a PID registered in the program map): the accumulator flushes a unit as soon as
   its sections are complete, so when the duplicated packet p completed a unit, the queue is EMPTY when the duplicate
   arrives and isSameAsPrevious cannot recognise it.  What happens then:
     - p has payload_unit_start (a one-packet unit) or is by itself "complete": the duplicate is flushed at once as
       the group [p] (the table is delivered a second time), the state is that of the stream without the duplicate;
     - otherwise (p = last packet of a multi-packet unit) it stays queued as [p] and the next packet of the PID, which
       starts a unit, flushes it as the orphan group [p] (or drops it: discontinuity / one-packet unit); if no such
       packet comes, the end-of-stream drain delivers [p].
   In every case the groups of the stream with the duplicate are the groups of the stream without it, with at most
   ONE extra group, [p], inserted: nothing delivered is removed or altered (dup_psi).  The hypothesis that the next
   packet of the PID starts a unit cannot be dropped (dup_psi_needs_next_start). *)
From Coq Require Import ZArith List Lia Bool ZifyBool.
Require Import Base.Bits Base.Iter Gen.Consts Gen.Types Gen.Preds Model.Pool Model.PoolRun.
Require Import Proofs.PoolProofs.
Import ListNotations.
Open Scope Z_scope.

Definition psi_pid (pm : pmap) (x : Z) : bool := Z.eqb x C_PIDPAT || pm_mem pm x.

(* l' is l, or l with one more element g somewhere *)
Definition one_more {A} (g : A) (l l' : list A) : Prop :=
  l' = l \/ exists a b, l = a ++ b /\ l' = a ++ g :: b.

Lemma one_more_refl {A} (g : A) l : one_more g l l.
Proof. left. reflexivity. Qed.

Lemma one_more_here {A} (g : A) l : one_more g l (g :: l).
Proof. right. exists [], l. auto. Qed.

Lemma one_more_app_l {A} (g : A) c l l' : one_more g l l' -> one_more g (c ++ l) (c ++ l').
Proof.
  intros [->|[a [b [-> ->]]]]; [left; reflexivity|].
  right. exists (c ++ a), b. rewrite <- !app_assoc. auto.
Qed.

Lemma one_more_app_r {A} (g : A) c l l' : one_more g l l' -> one_more g (l ++ c) (l' ++ c).
Proof.
  intros [->|[a [b [-> ->]]]]; [left; reflexivity|].
  right. exists a, (b ++ c). rewrite <- !app_assoc. auto.
Qed.

Lemma one_more_cons {A} (g h : A) l l' : one_more g l l' -> one_more g (h :: l) (h :: l').
Proof. apply (one_more_app_l g [h]). Qed.

Lemma one_more_cons_group g pid ps l l' :
  one_more g l l' -> one_more g (cons_group pid ps l) (cons_group pid ps l').
Proof. intros H. destruct ps; [exact H|]. cbn [cons_group]. apply one_more_cons. exact H. Qed.

(* ---- the accumulator ---- *)

Lemma acc_add_nil pm x p :
  acc_add pm x [] p = if psi_pid pm x && is_psi_complete [p] then ([], [p]) else ([p], []).
Proof.
  unfold acc_add, psi_pid. change (isSameAsPrevious [] p) with false. cbv iota.
  destruct (resets [] p); destruct (pusi p); reflexivity.
Qed.

(* the packet arrives a second time: it is dropped, or the first copy had emptied the queue *)
Lemma acc_add_twice pm pm' x q p : has_payload p = true ->
  acc_add pm' x (fst (acc_add pm x q p)) p = (fst (acc_add pm x q p), []) \/
  (fst (acc_add pm x q p) = [] /\ (pusi p = true -> is_psi_complete [p] = true)).
Proof.
  intros Hp. unfold acc_add at 2 3 4.
  assert (Hs0 : isSameAsPrevious [p] p = true) by exact (isSameAsPrevious_after_push [] p Hp).
  destruct (isSameAsPrevious q p) eqn:E1.
  - left. cbn [fst]. unfold acc_add. rewrite E1. reflexivity.
  - destruct (pusi p) eqn:Ep.
    + destruct ((x =? C_PIDPAT) || pm_mem pm x) ; cbn [andb app].
      * destruct (is_psi_complete [p]) eqn:Ec.
        -- right. split; [reflexivity|auto].
        -- left. cbn [fst]. unfold acc_add. rewrite Hs0. reflexivity.
      * left. cbn [fst]. unfold acc_add. rewrite Hs0. reflexivity.
    + set (q1 := if resets q p then [] else q).
      destruct (((x =? C_PIDPAT) || pm_mem pm x) && is_psi_complete (q1 ++ [p])).
      * right. split; [reflexivity|discriminate].
      * left. cbn [fst]. unfold acc_add. rewrite (isSameAsPrevious_after_push q1 p Hp). reflexivity.
Qed.

(* a unit start arriving on the queue [p] (p without unit start) and on the empty queue: same new queue, and the
   flushed packets are the same or [p] more *)
Lemma acc_add_orphan pm x p n : pusi p = false -> pusi n = true ->
  fst (acc_add pm x [p] n) = fst (acc_add pm x [] n) /\
  (snd (acc_add pm x [p] n) = snd (acc_add pm x [] n) \/
   (snd (acc_add pm x [p] n) = [p] /\ snd (acc_add pm x [] n) = [])).
Proof.
  intros Hp Hn. rewrite acc_add_nil. unfold acc_add, psi_pid.
  assert (Hs : isSameAsPrevious [p] n = false).
  { unfold isSameAsPrevious. cbn [length]. change (Z.to_nat (Z.of_nat 1 - 1)) with 0%nat. cbn [nth].
    unfold pusi in *. rewrite Hp, Hn. cbn [Bool.eqb]. rewrite andb_false_r. reflexivity. }
  rewrite Hs, Hn. cbn [app].
  destruct (((x =? C_PIDPAT) || pm_mem pm x) && is_psi_complete [n]); cbn [fst snd].
  - auto.
  - split; [reflexivity|]. destruct (resets [p] n); auto.
Qed.

(* ---- the pool: two pools that differ only in the queue of PID x ---- *)

Definition below (x : Z) (l : list (Z * list Packet)) : Prop := Forall (fun e => fst e < x) l.

Lemma pool_set_shape (pl : list (Z * list Packet)) x : exists l1 l2 : list (Z * list Packet), below x l1 /\ forall q : list Packet, pool_set pl x q = l1 ++ (x, q) :: l2.
Proof.
  induction pl as [|[k q0] r IH].
  - exists [], []. split; [constructor|reflexivity].
  - cbn [pool_set]. destruct (k =? x) eqn:E1.
    + apply Z.eqb_eq in E1. subst k. exists [], r. split; [constructor|reflexivity].
    + destruct (x <? k) eqn:E2.
      * exists [], ((k, q0) :: r). split; [constructor|reflexivity].
      * destruct IH as [l1 [l2 [Hb Hs]]]. exists ((k, q0) :: l1), l2. split.
        -- constructor; [cbn [fst]; lia|exact Hb].
        -- intros q. rewrite Hs. reflexivity.
Qed.

Lemma pool_lookup_at (l1 : list (Z * list Packet)) x (q : list Packet) (l2 : list (Z * list Packet)) : below x l1 -> pool_lookup (l1 ++ (x, q) :: l2) x = Some q.
Proof.
  induction l1 as [|[k q0] l1 IH]; intros Hb.
  - cbn [app pool_lookup]. rewrite Z.eqb_refl. reflexivity.
  - inversion Hb as [|? ? Hk Hb']; subst. cbn [fst] in Hk. cbn [app pool_lookup].
    destruct (k =? x) eqn:E; [lia|]. exact (IH Hb').
Qed.

Lemma pool_set_at (l1 : list (Z * list Packet)) x (q : list Packet) (l2 : list (Z * list Packet)) (q' : list Packet) : below x l1 -> pool_set (l1 ++ (x, q) :: l2) x q' = l1 ++ (x, q') :: l2.
Proof.
  induction l1 as [|[k q0] l1 IH]; intros Hb.
  - cbn [app pool_set]. rewrite Z.eqb_refl. reflexivity.
  - inversion Hb as [|? ? Hk Hb']; subst. cbn [fst] in Hk. cbn [app pool_set].
    destruct (k =? x) eqn:E; [lia|]. destruct (x <? k) eqn:E2; [lia|]. rewrite (IH Hb'). reflexivity.
Qed.

Lemma pool_lookup_other (l1 : list (Z * list Packet)) x (q q' : list Packet) (l2 : list (Z * list Packet)) y : y <> x ->
  pool_lookup (l1 ++ (x, q) :: l2) y = pool_lookup (l1 ++ (x, q') :: l2) y.
Proof.
  intros Hy. induction l1 as [|[k q0] l1 IH].
  - cbn [app pool_lookup]. destruct (x =? y) eqn:E; [lia|reflexivity].
  - cbn [app pool_lookup]. destruct (k =? y); [reflexivity|exact IH].
Qed.

Lemma pool_set_other (l1 : list (Z * list Packet)) x (l2 : list (Z * list Packet)) y (b : list Packet) : y <> x -> below x l1 ->
  exists l1' l2' : list (Z * list Packet), below x l1' /\ forall q : list Packet, pool_set (l1 ++ (x, q) :: l2) y b = l1' ++ (x, q) :: l2'.
Proof.
  intros Hy. induction l1 as [|[k q0] l1 IH]; intros Hb.
  - cbn [app pool_set]. destruct (x =? y) eqn:E; [lia|]. destruct (y <? x) eqn:E2.
    + exists [(y, b)], l2. split; [constructor; [cbn [fst]; lia|constructor]|reflexivity].
    + exists [], (pool_set l2 y b). split; [constructor|reflexivity].
  - inversion Hb as [|? ? Hk Hb']; subst. cbn [fst] in Hk. cbn [app pool_set].
    destruct (k =? y) eqn:E1.
    + exists ((k, b) :: l1), l2. split; [constructor; [exact Hk|exact Hb']|reflexivity].
    + destruct (y <? k) eqn:E2.
      * exists ((y, b) :: (k, q0) :: l1), l2. split; [|reflexivity].
        constructor; [cbn [fst]; lia|]. constructor; [exact Hk|exact Hb'].
      * destruct (IH Hb') as [l1' [l2' [Hb1 Hs]]]. exists ((k, q0) :: l1'), l2'. split.
        -- constructor; [exact Hk|exact Hb1].
        -- intros q. rewrite Hs. reflexivity.
Qed.

Lemma drain_groups_app (l1 l2 : list (Z * list Packet)) : drain_groups (l1 ++ l2) = drain_groups l1 ++ drain_groups l2.
Proof. unfold drain_groups. rewrite filter_app, map_app. reflexivity. Qed.

Lemma drain_one_more (l1 : list (Z * list Packet)) x (p : Packet) (l2 : list (Z * list Packet)) :
  one_more (x, [p]) (drain_groups (l1 ++ (x, @nil Packet) :: l2)) (drain_groups (l1 ++ (x, [p]) :: l2)).
Proof.
  rewrite !drain_groups_app. apply one_more_app_l.
  change ((x, @nil Packet) :: l2) with ([(x, @nil Packet)] ++ l2). change ((x, [p]) :: l2) with ([(x, [p])] ++ l2).
  rewrite !drain_groups_app. apply one_more_app_r. unfold drain_groups. cbn [filter map fst snd]. apply one_more_here.
Qed.

(* the next packet of PID x that the pool does not ignore, if there is one, starts a unit *)
Fixpoint next_start (x : Z) (s : list step) : Prop :=
  match s with
  | [] => True
  | (_, n) :: r => if relevant x n then pusi n = true else next_start x r
  end.

(* the rest of the stream, run from two pools that differ in the queue of PID x only: [] and the orphan [p] *)
Lemma pool_run_orphan x p : pusi p = false -> forall s (l1 l2 : list (Z * list Packet)), below x l1 -> next_start x s ->
  one_more (x, [p])
    (snd (pool_run (l1 ++ (x, @nil Packet) :: l2) s) ++ drain_groups (fst (pool_run (l1 ++ (x, @nil Packet) :: l2) s)))
    (snd (pool_run (l1 ++ (x, [p]) :: l2) s) ++ drain_groups (fst (pool_run (l1 ++ (x, [p]) :: l2) s))).
Proof.
  intros Hp. induction s as [|[pm n] r IH]; intros l1 l2 Hb Hns.
  - cbn [pool_run fst snd app]. apply drain_one_more.
  - cbn [pool_run]. cbn [next_start] in Hns. unfold relevant in Hns. unfold pool_add.
    destruct (tei n) eqn:Et.
    { (* ignored *)
      rewrite andb_false_r in Hns. cbn [andb] in Hns. specialize (IH l1 l2 Hb Hns).
      destruct (pool_run (l1 ++ (x, @nil Packet) :: l2) r) as [plA gA]. destruct (pool_run (l1 ++ (x, [p]) :: l2) r) as [plB gB].
      cbn [fst snd cons_group] in *. exact IH. }
    destruct (has_payload n) eqn:Eh; cbn [negb].
    2:{ rewrite andb_false_r in Hns. specialize (IH l1 l2 Hb Hns).
        destruct (pool_run (l1 ++ (x, @nil Packet) :: l2) r) as [plA gA]. destruct (pool_run (l1 ++ (x, [p]) :: l2) r) as [plB gB].
        cbn [fst snd cons_group] in *. exact IH. }
    destruct (pid_of n =? x) eqn:Ex.
    + (* the next packet of PID x: it starts a unit *)
      apply Z.eqb_eq in Ex. cbn [negb andb] in Hns. rewrite Ex.
      rewrite !(pool_lookup_at l1 x _ l2 Hb).
      destruct (acc_add_orphan pm x p n Hp Hns) as [Hq Hg].
      destruct (acc_add pm x [p] n) as [qB psB]. destruct (acc_add pm x [] n) as [qA psA].
      cbn [fst snd] in Hq, Hg. subst qB. rewrite !(pool_set_at l1 x _ l2 qA Hb).
      destruct (pool_run _ r) as [pl gs]. cbn [fst snd].
      destruct Hg as [->|[-> ->]]; [apply one_more_refl|].
      cbn [cons_group app]. apply one_more_here.
    + (* a packet of another PID *)
      cbn [andb] in Hns.
      assert (Hy : pid_of n <> x) by (intro E; rewrite E, Z.eqb_refl in Ex; discriminate).
      rewrite (pool_lookup_other l1 x [] [p] l2 (pid_of n) Hy).
      set (qy := match pool_lookup (l1 ++ (x, [p]) :: l2) (pid_of n) with Some q => q | None => [] end).
      destruct (acc_add pm (pid_of n) qy n) as [q' ps].
      destruct (pool_set_other l1 x l2 (pid_of n) q' Hy Hb) as [l1' [l2' [Hb' Hs]]].
      rewrite !Hs. specialize (IH l1' l2' Hb' Hns).
      destruct (pool_run (l1' ++ (x, @nil Packet) :: l2') r) as [plA gA]. destruct (pool_run (l1' ++ (x, [p]) :: l2') r) as [plB gB].
      cbn [fst snd] in *. destruct ps as [|a ps]; [exact IH|]. cbn [cons_group app]. apply one_more_cons. exact IH.
Qed.

Lemma all_groups_app s1 s2 :
  all_groups (s1 ++ s2) =
  snd (pool_run [] s1) ++ snd (pool_run (fst (pool_run [] s1)) s2) ++
  drain_groups (fst (pool_run (fst (pool_run [] s1)) s2)).
Proof.
  unfold all_groups. rewrite pool_run_app. destruct (pool_run [] s1) as [pl1 g1]. cbn [fst snd].
  destruct (pool_run pl1 s2) as [pl2 g2]. cbn [fst snd]. rewrite app_assoc. reflexivity.
Qed.

(* what the rest of the stream must look like when the duplicate was not recognised *)
Definition dup_psi_ok (pm' : pmap) (p : Packet) (s2 : list step) : Prop :=
  (psi_pid pm' (pid_of p) = true /\ (pusi p = true \/ is_psi_complete [p] = true)) \/
  (pusi p = false /\ next_start (pid_of p) s2).

(* (B) the general statement: either the queue of the PID is not empty after the first copy (then the duplicate is
   dropped and nothing changes at all), or the rest of the stream satisfies dup_psi_ok *)
Theorem dup_psi_general s1 pm pm' p s2 : tei p = false -> has_payload p = true ->
  qof (fst (pool_run [] (s1 ++ [(pm, p)]))) (pid_of p) <> [] \/ dup_psi_ok pm' p s2 ->
  one_more (pid_of p, [p]) (all_groups (s1 ++ (pm, p) :: s2)) (all_groups (s1 ++ (pm, p) :: (pm', p) :: s2)).
Proof.
  intros Ht Hp Hok.
  change (s1 ++ (pm, p) :: s2) with (s1 ++ [(pm, p)] ++ s2).
  change (s1 ++ (pm, p) :: (pm', p) :: s2) with (s1 ++ [(pm, p)] ++ (pm', p) :: s2).
  rewrite !app_assoc. rewrite !(all_groups_app (s1 ++ [(pm, p)])).
  apply one_more_app_l.
  assert (Hq : qof (fst (pool_run [] (s1 ++ [(pm, p)]))) (pid_of p) <> [] \/ dup_psi_ok pm' p s2) by exact Hok.
  clear Hok. rewrite pool_run_app in *. destruct (pool_run [] s1) as [pl1 g1].
  cbn [pool_run] in *. destruct (pool_add_own pm pl1 p Ht Hp) as [Hown _].
  set (x := pid_of p) in *.
  assert (Eadd : fst (pool_add pm pl1 p) = pool_set pl1 x (fst (acc_add pm x (qof pl1 x) p))).
  { unfold pool_add. rewrite Ht, Hp. cbn [negb]. fold x. fold (qof pl1 x).
    destruct (acc_add pm x (qof pl1 x) p) as [q' ps]. reflexivity. }
  destruct (pool_add pm pl1 p) as [pl2 g]. cbn [fst snd] in *. subst pl2.
  set (q1 := fst (acc_add pm x (qof pl1 x) p)) in *.
  (* the duplicate *)
  unfold pool_add. rewrite Ht, Hp. cbn [negb]. fold x. rewrite pool_lookup_set_same.
  destruct (acc_add_twice pm pm' x (qof pl1 x) p Hp) as [Hdrop|[Hnil Hone]]; fold q1 in Hdrop || fold q1 in Hnil.
  - (* dropped as a duplicate *)
    rewrite Hdrop. rewrite pool_set_set. cbn [cons_group].
    destruct (pool_run (pool_set pl1 x q1) s2) as [pl3 gs]. apply one_more_refl.
  - (* the first copy completed the unit and emptied the queue *)
    destruct Hq as [Hq|Hok]; [rewrite Hown, Hnil in Hq; contradiction|].
    rewrite Hnil in *. rewrite acc_add_nil.
    destruct (psi_pid pm' x && is_psi_complete [p]) eqn:Ec; rewrite pool_set_set.
    + (* flushed again at once *)
      cbn [cons_group]. destruct (pool_run (pool_set pl1 x []) s2) as [pl3 gs]. cbn [fst snd app].
      apply one_more_here.
    + cbn [cons_group].
      assert (Hns : pusi p = false /\ next_start x s2).
      { destruct Hok as [[Hpsi Hc]|H]; [|exact H]. fold x in Hpsi. rewrite Hpsi in Ec. cbn [andb] in Ec.
        destruct Hc as [Hc|Hc]; [rewrite (Hone Hc) in Ec|rewrite Hc in Ec]; discriminate. }
      destruct Hns as [Hpu Hns].
      destruct (pool_set_shape pl1 x) as [l1 [l2 [Hb Hs]]]. rewrite !Hs.
      pose proof (pool_run_orphan x p Hpu s2 l1 l2 Hb Hns) as Ho.
      destruct (pool_run (l1 ++ (x, [p]) :: l2) s2) as [plB gB]. exact Ho.
Qed.

Corollary dup_psi s1 pm pm' p s2 : tei p = false -> has_payload p = true -> dup_psi_ok pm' p s2 ->
  one_more (pid_of p, [p]) (all_groups (s1 ++ (pm, p) :: s2)) (all_groups (s1 ++ (pm, p) :: (pm', p) :: s2)).
Proof. intros Ht Hp Hok. apply dup_psi_general; auto. Qed.

(* while a unit is pending on the PID after the first copy, the duplicate changes nothing (as on PES PIDs) *)
Corollary dup_psi_pending s1 pm pm' p s2 : tei p = false -> has_payload p = true ->
  qof (fst (pool_run [] (s1 ++ [(pm, p)]))) (pid_of p) <> [] ->
  all_groups (s1 ++ (pm, p) :: (pm', p) :: s2) = all_groups (s1 ++ (pm, p) :: s2).
Proof.
  intros Ht Hp Hq.
  change (s1 ++ (pm, p) :: s2) with (s1 ++ [(pm, p)] ++ s2).
  change (s1 ++ (pm, p) :: (pm', p) :: s2) with (s1 ++ [(pm, p)] ++ (pm', p) :: s2).
  rewrite !app_assoc. rewrite !(all_groups_app (s1 ++ [(pm, p)])). f_equal.
  rewrite pool_run_app in *. destruct (pool_run [] s1) as [pl1 g1].
  cbn [pool_run] in *. set (x := pid_of p) in *.
  assert (Eadd : fst (pool_add pm pl1 p) = pool_set pl1 x (fst (acc_add pm x (qof pl1 x) p))).
  { unfold pool_add. rewrite Ht, Hp. cbn [negb]. fold x. fold (qof pl1 x).
    destruct (acc_add pm x (qof pl1 x) p) as [q' ps]. reflexivity. }
  destruct (pool_add_own pm pl1 p Ht Hp) as [Hown _]. fold x in Hown.
  destruct (pool_add pm pl1 p) as [pl2 g]. cbn [fst snd] in *. subst pl2.
  set (q1 := fst (acc_add pm x (qof pl1 x) p)) in *.
  unfold pool_add. rewrite Ht, Hp. cbn [negb]. fold x. rewrite pool_lookup_set_same.
  destruct (acc_add_twice pm pm' x (qof pl1 x) p Hp) as [Hdrop|[Hnil _]]; fold q1 in Hdrop || fold q1 in Hnil.
  - rewrite Hdrop, pool_set_set. cbn [cons_group].
    destruct (pool_run (pool_set pl1 x q1) s2) as [pl3 gs]. reflexivity.
  - rewrite Hown in Hq. contradiction.
Qed.

(* ---- examples on PID 0: a PAT-like unit of two packets A (pointer_field 0, table_id 0, section_length 5, two bytes)
   and B (the remaining three bytes), repeated as A' B' ---- *)
Definition psi_pkt (cc : Z) (start : bool) (payload : list Z) : Packet :=
  {| Packet_AdaptationField := None;
     Packet_Header := {| PacketHeader_ContinuityCounter := cc; PacketHeader_HasAdaptationField := false;
                         PacketHeader_HasPayload := true; PacketHeader_PayloadUnitStartIndicator := start;
                         PacketHeader_PID := 0; PacketHeader_TransportErrorIndicator := false;
                         PacketHeader_TransportPriority := false; PacketHeader_TransportScramblingControl := 0 |};
     Packet_Payload := payload |}.
Definition exA := psi_pkt 0 true [0; 0; 176; 5; 1; 2].
Definition exB := psi_pkt 1 false [3; 4; 5].
Definition exA' := psi_pkt 2 true [0; 0; 176; 5; 1; 2].
Definition exB' := psi_pkt 3 false [3; 4; 5].
(* a one-packet unit: pointer_field 0, table_id 0, section_length 2 *)
Definition exP := psi_pkt 4 true [0; 0; 176; 2; 8; 9].

(* the hypothesis is satisfiable and the extra group really occurs: the duplicate of B, the last packet of a
   two-packet unit, is delivered as an orphan group when the next unit starts; the duplicate of the one-packet unit P
   is delivered a second time *)
Example dup_psi_example :
  dup_psi_ok [] exB [([], exA'); ([], exB'); ([], exP)] /\
  all_groups [([], exA); ([], exB); ([], exA'); ([], exB'); ([], exP)] =
    [(0, [exA; exB]); (0, [exA'; exB']); (0, [exP])] /\
  all_groups [([], exA); ([], exB); ([], exB); ([], exA'); ([], exB'); ([], exP)] =
    [(0, [exA; exB]); (0, [exB]); (0, [exA'; exB']); (0, [exP])] /\
  dup_psi_ok [] exP [] /\
  all_groups [([], exA); ([], exB); ([], exA'); ([], exB'); ([], exP); ([], exP)] =
    [(0, [exA; exB]); (0, [exA'; exB']); (0, [exP]); (0, [exP])].
Proof.
  repeat split; try (vm_compute; reflexivity).
  - right. split; reflexivity.
  - left. split; [reflexivity|left; reflexivity].
Qed.

(* without "the next packet of the PID starts a unit" the statement is false: C continues nothing (no unit start, the
   previous unit was complete); alone it is delivered as the group [C], after the duplicate of B it is delivered
   glued to that duplicate, as [B; C], which the accumulator moreover takes for a complete unit *)
Definition exC := psi_pkt 2 false [9].

Lemma one_more_in {A} (g : A) l l' : one_more g l l' -> forall h, In h l' -> h = g \/ In h l.
Proof.
  intros [->|[a [b [-> ->]]]] h Hin; [right; exact Hin|].
  apply in_app_or in Hin. destruct Hin as [Hin|[<-|Hin]]; [right|left; reflexivity|right]; apply in_or_app; auto.
Qed.

Theorem dup_psi_needs_next_start :
  exists s1 pm pm' p s2, tei p = false /\ has_payload p = true /\ psi_pid pm (pid_of p) = true /\
    psi_pid pm' (pid_of p) = true /\
    ~ one_more (pid_of p, [p]) (all_groups (s1 ++ (pm, p) :: s2)) (all_groups (s1 ++ (pm, p) :: (pm', p) :: s2)).
Proof.
  exists [([], exA)], [], [], exB, [([], exC)]. repeat split; try reflexivity.
  intros H. apply one_more_in with (h := (0, [exB; exC])) in H.
  - destruct H as [H|H]; [discriminate|].
    vm_compute in H. destruct H as [H|[H|[]]]; discriminate.
  - vm_compute. right. left. reflexivity.
Qed.
