(* C06, packet loss, COMPLETENESS: on one PID (not treated as PSI) whose loss-free packet sequence has consecutive
   continuity counters, after deleting runs of fewer than 16 packets the accumulator behaves EXACTLY like a reference
   that looks only at the positions of the received packets in the loss-free stream and at their
   payload_unit_start indicators (pos_run below: no counters, no payload bytes).  From that:
     - every unit of which no packet was lost and whose successor packet (the start of the next unit) was received
       as well is flushed, as one group, by that successor (loss_complete), exactly once and in stream order
       (loss_events_sorted); the unit received last is what remains queued for the end-of-stream drain;
     - conversely every flushed group is a block of consecutive received packets, immediately followed by the packet
       that flushed it, and begins with a unit start, or with the first packet received at all, or right after a gap
       (loss_blocks): groups that do not begin with a unit start are tails of units that lost an earlier packet. *)
From Coq Require Import ZArith List Lia Bool ZifyBool Sorted.
Require Import Base.Bits Base.Iter Gen.Consts Gen.Types Gen.Preds Model.Pool Model.PoolRun.
Require Import Proofs.PoolProofs Proofs.LossProofs Proofs.UnitsProofs.
Import ListNotations.
Open Scope Z_scope.

(* ---- what the accumulator does with the packet received after a gap ---- *)

Lemma acc_add_a_gap pm x c0 q' pe e :
  (Z.eqb x C_PIDPAT || pm_mem pm x) = false ->
  on_stream c0 e -> on_stream c0 pe -> follows pe e -> fst e <> fst pe + 1 ->
  acc_add_a pm x (q' ++ [pe]) e = ([e], []).
Proof.
  intros Hn [Hcc [Hpay Hdi]] [Hcc' _] [Hrange H16] Hgap. unfold acc_add_a. rewrite Hn. cbn [andb].
  destruct (last_of_snoc q' pe) as [Hnth Hlen].
  assert (Hsame : isSameAsPrevious (map snd (q' ++ [pe])) (snd e) = false).
  { unfold isSameAsPrevious in *. rewrite Hnth, Hlen.
    cbn [length] in H16. change (Z.to_nat (Z.of_nat 1 - 1)) with 0%nat in H16. cbn [nth] in H16.
    change (Z.of_nat 1 >? 0) with true in H16.
    destruct (PacketHeader_ContinuityCounter (Packet_Header (snd e)) =? PacketHeader_ContinuityCounter (Packet_Header (snd pe))) eqn:Ecc.
    - pose proof Ecc as Ecc2. apply Z.eqb_eq in Ecc2. unfold cc_of in *. rewrite Hcc, Hcc' in Ecc2.
      assert (fst e = fst pe + 16).
      { pose proof (mod16_same (c0 + fst pe) (c0 + fst e) ltac:(lia) (eq_sym Ecc2)). lia. }
      exact (H16 H).
    - rewrite !andb_false_r. reflexivity. }
  assert (Hcd : hasCounterDiscontinuity (map snd (q' ++ [pe])) (snd e) = true).
  { unfold hasCounterDiscontinuity. rewrite Hnth, Hlen.
    unfold has_payload in Hpay. rewrite Hpay. cbn [orb andb negb]. rewrite orb_false_r.
    apply negb_true_iff, Z.eqb_neq. unfold cc_of in *. rewrite Hcc, Hcc'. intros E.
    pose proof (mod16_step (c0 + fst pe) (c0 + fst e) ltac:(lia) (eq_sym E)). lia. }
  assert (Hd : resets (map snd (q' ++ [pe])) (snd e) = true).
  { unfold resets, hasDiscontinuity. rewrite Hcd. rewrite !orb_true_r. reflexivity. }
  rewrite Hsame, Hd. destruct (pusi (snd e)); reflexivity.
Qed.

(* ---- the reference: positions and unit starts only ---- *)

(* e is the packet that follows the last packet of q in the loss-free stream *)
Definition contiguous (q : list apkt) (e : apkt) : bool :=
  match rev q with pe :: _ => fst e =? fst pe + 1 | [] => false end.

(* the next packet of the stream continues the queue, or (unit start) flushes it; a packet after a gap, and the first
   packet received, start a new queue and whatever was queued is dropped *)
Definition pos_add (q : list apkt) (e : apkt) : list apkt * list apkt :=
  if contiguous q e then (if pusi (snd e) then ([e], q) else (q ++ [e], [])) else ([e], []).

Fixpoint pos_run (q : list apkt) (es : list apkt) : list apkt * list (list apkt * apkt) :=
  match es with
  | [] => (q, [])
  | e :: r =>
      let '(q1, g) := pos_add q e in
      let '(q2, gs) := pos_run q1 r in
      (q2, match g with [] => gs | _ => (g, e) :: gs end)
  end.

Lemma contiguous_snoc q' pe e : contiguous (q' ++ [pe]) e = (fst e =? fst pe + 1).
Proof. unfold contiguous. rewrite rev_unit. reflexivity. Qed.

Lemma contiguous_app pre q e : q <> [] -> contiguous (pre ++ q) e = contiguous q e.
Proof.
  intros Hq. destruct (exists_last Hq) as [q' [pe ->]]. rewrite app_assoc, !contiguous_snoc. reflexivity.
Qed.

(* the state along a reception: the queue is empty (nothing received yet) or ends with the packet received last *)
Definition ends_with (c0 : Z) (q : list apkt) (prev : option apkt) : Prop :=
  Forall (on_stream c0) q /\ (q = [] \/ exists pe q', prev = Some pe /\ q = q' ++ [pe]).

Lemma acc_add_a_pos pm x c0 q e prev :
  (Z.eqb x C_PIDPAT || pm_mem pm x) = false ->
  on_stream c0 e -> ends_with c0 q prev ->
  match prev with None => True | Some pe => follows pe e end ->
  acc_add_a pm x q e = pos_add q e /\ ends_with c0 (fst (pos_add q e)) (Some e).
Proof.
  intros Hn He [Hall Hq] Hprev.
  assert (Hsingle : ends_with c0 [e] (Some e)).
  { split; [constructor; [exact He|constructor] | right; exists e, []; auto]. }
  unfold pos_add. destruct Hq as [->|[pe [q' [-> ->]]]].
  - cbn [contiguous rev]. rewrite acc_add_a_first by exact Hn. split; [reflexivity|exact Hsingle].
  - assert (Hpe : on_stream c0 pe) by (rewrite Forall_app in Hall; destruct Hall as [_ Hl]; inversion Hl; assumption).
    rewrite contiguous_snoc. destruct (fst e =? fst pe + 1) eqn:Ec.
    + apply Z.eqb_eq in Ec. rewrite (acc_add_a_next pm x c0 q' pe e Hn He Hpe Ec).
      destruct (pusi (snd e)); cbn [fst]; (split; [reflexivity|]); [exact Hsingle|].
      split; [apply Forall_app; split; [exact Hall|constructor; [exact He|constructor]] | right; exists e, (q' ++ [pe]); auto].
    + apply Z.eqb_neq in Ec. rewrite (acc_add_a_gap pm x c0 q' pe e Hn He Hpe Hprev Ec).
      split; [reflexivity|exact Hsingle].
Qed.

(* EXACTNESS: under the hypotheses of C06_loss_no_splice the accumulator is the position-only reference *)
Theorem loss_run_exact pm x c0 es : forall q prev,
  (Z.eqb x C_PIDPAT || pm_mem pm x) = false ->
  Forall (on_stream c0) es -> ends_with c0 q prev -> received_ok prev es ->
  acc_run_a pm x q es = pos_run q es.
Proof.
  induction es as [|e r IH]; intros q prev Hn Hall Hinv Hrec; [reflexivity|].
  inversion Hall as [|? ? He Hr]; subst. destruct Hrec as [Hf Hrec].
  cbn [acc_run_a pos_run]. destruct (acc_add_a_pos pm x c0 q e prev Hn He Hinv Hf) as [E Hinv1].
  rewrite E. destruct (pos_add q e) as [q1 g]. cbn [fst] in Hinv1.
  rewrite (IH q1 (Some e) Hn Hr Hinv1 Hrec). reflexivity.
Qed.

Lemma ends_with_nil c0 : ends_with c0 [] None.
Proof. split; [constructor|left; reflexivity]. Qed.

Corollary loss_run_exact_from_start pm x c0 es :
  (Z.eqb x C_PIDPAT || pm_mem pm x) = false ->
  Forall (on_stream c0) es -> received_ok None es ->
  acc_run_a pm x [] es = pos_run [] es.
Proof. intros Hn Hall Hrec. exact (loss_run_exact pm x c0 es [] None Hn Hall (ends_with_nil c0) Hrec). Qed.

(* ---- facts about the reference (pure list reasoning) ---- *)

Lemma pos_run_app es1 : forall q es2,
  pos_run q (es1 ++ es2) =
  let '(q1, g1) := pos_run q es1 in let '(q2, g2) := pos_run q1 es2 in (q2, g1 ++ g2).
Proof.
  induction es1 as [|e es1 IH]; intros q es2.
  - cbn [app pos_run]. destruct (pos_run q es2). reflexivity.
  - cbn [app pos_run]. destruct (pos_add q e) as [q1 g]. rewrite IH.
    destruct (pos_run q1 es1) as [q2 gs]. destruct (pos_run q2 es2) as [q3 gs'].
    destruct g; reflexivity.
Qed.

(* a unit start always leaves the queue holding exactly that packet *)
Lemma pos_add_pusi q h : pusi (snd h) = true -> fst (pos_add q h) = [h].
Proof. intros Hh. unfold pos_add. rewrite Hh. destruct (contiguous q h); reflexivity. Qed.

Lemma pos_run_snoc_pusi pre h : forall q, pusi (snd h) = true -> fst (pos_run q (pre ++ [h])) = [h].
Proof.
  intros q Hh. rewrite pos_run_app. destruct (pos_run q pre) as [q1 g1]. cbn [pos_run].
  pose proof (pos_add_pusi q1 h Hh) as E. destruct (pos_add q1 h) as [q2 g]. cbn [fst] in *. subst. reflexivity.
Qed.

(* the continuation packets of a unit are appended *)
Lemma pos_feed_tail t : forall q' pe,
  Forall (fun e => pusi (snd e) = false) t -> run (pe :: t) ->
  pos_run (q' ++ [pe]) t = ((q' ++ [pe]) ++ t, []).
Proof.
  induction t as [|e t IH]; intros q' pe Hnp Hrun; [rewrite app_nil_r; reflexivity|].
  inversion Hnp as [|? ? Hp Hnp']; subst. destruct Hrun as [Hpos Hrun].
  cbn [pos_run]. unfold pos_add. rewrite contiguous_snoc, Hpos, Z.eqb_refl, Hp.
  rewrite (IH (q' ++ [pe]) e Hnp' Hrun). rewrite <- app_assoc. reflexivity.
Qed.

Lemma run_app_l (l1 l2 : list apkt) : run (l1 ++ l2) -> run l1.
Proof.
  induction l1 as [|a l1 IH]; intros H; [exact I|].
  cbn [app run] in *. destruct H as [H1 H2]. split; [|exact (IH H2)].
  destruct l1 as [|b l1]; [exact I|exact H1].
Qed.

Lemma run_app_r (l1 l2 : list apkt) : run (l1 ++ l2) -> run l2.
Proof. induction l1 as [|a l1 IH]; intros H; [exact H|]. cbn [app run] in H. exact (IH (proj2 H)). Qed.

Lemma run_last_next (l : list apkt) pe e : run ((l ++ [pe]) ++ [e]) -> fst e = fst pe + 1.
Proof. rewrite <- app_assoc. intros H. apply run_app_r in H. cbn [app run] in H. exact (proj1 H). Qed.

(* COMPLETENESS on the reference: a whole unit u followed at once by the next unit start h' is flushed by h';
   what comes before does not matter except through its own events, what comes after starts from the queue [h'] *)
Lemma pos_run_unit pre u h' post : forall q,
  unit_shaped u -> run (u ++ [h']) -> pusi (snd h') = true ->
  pos_run q (pre ++ u ++ h' :: post) =
  (fst (pos_run [h'] post),
   snd (pos_run q (pre ++ firstn 1 u)) ++ (u, h') :: snd (pos_run [h'] post)).
Proof.
  intros q Hu Hrun Hh'. destruct u as [|h t]; [contradiction|]. destruct Hu as [Hh Ht].
  cbn [firstn].
  replace (pre ++ (h :: t) ++ h' :: post) with ((pre ++ [h]) ++ t ++ [h'] ++ post)
    by (rewrite <- app_assoc; reflexivity).
  rewrite pos_run_app. pose proof (pos_run_snoc_pusi pre h q Hh) as Eq.
  destruct (pos_run q (pre ++ [h])) as [q1 g1]. cbn [fst snd] in *. subst q1.
  rewrite pos_run_app.
  assert (Hrun_t : run (h :: t)) by (apply (run_app_l (h :: t) [h']); exact Hrun).
  pose proof (pos_feed_tail t [] h Ht Hrun_t) as Hft. cbn [app] in Hft. rewrite Hft.
  rewrite pos_run_app. cbn [pos_run]. unfold pos_add.
  destruct (exists_last (l := h :: t) ltac:(discriminate)) as [q' [pe E]].
  rewrite E in *. rewrite contiguous_snoc, (run_last_next q' pe h' Hrun), Z.eqb_refl, Hh'.
  destruct (pos_run [h'] post) as [q3 g3]. cbn [fst snd app].
  destruct (q' ++ [pe]) eqn:El; [destruct q'; discriminate|]. reflexivity.
Qed.

(* the unit received last stays queued (for the end-of-stream drain) *)
Lemma pos_run_last_unit pre u : forall q,
  unit_shaped u -> run u -> fst (pos_run q (pre ++ u)) = u.
Proof.
  intros q Hu Hrun. destruct u as [|h t]; [contradiction|]. destruct Hu as [Hh Ht].
  replace (pre ++ h :: t) with ((pre ++ [h]) ++ t) by (rewrite <- app_assoc; reflexivity).
  rewrite pos_run_app. pose proof (pos_run_snoc_pusi pre h q Hh) as Eq.
  destruct (pos_run q (pre ++ [h])) as [q1 g1]. cbn [fst] in Eq. subst q1.
  pose proof (pos_feed_tail t [] h Ht Hrun) as Hft. cbn [app] in Hft. rewrite Hft. reflexivity.
Qed.

(* ---- every flushed group is a block of the received list ---- *)

(* the first packet of g is a unit start, or nothing was received before it, or it does not continue what was
   received before it (it follows a gap) *)
Definition start_ok (pre g : list apkt) : Prop :=
  match g with [] => True | a :: _ => pusi (snd a) = true \/ contiguous pre a = false end.

Lemma start_ok_snoc pre q e : q <> [] -> start_ok pre q -> start_ok pre (q ++ [e]).
Proof. destruct q; [contradiction|]. intros _ H. exact H. Qed.

Definition block_of (es : list apkt) (ev : list apkt * apkt) : Prop :=
  exists pre post, es = pre ++ fst ev ++ snd ev :: post /\ fst ev <> [] /\ start_ok pre (fst ev) /\
                   pusi (snd (snd ev)) = true /\ contiguous (fst ev) (snd ev) = true.

Lemma pos_run_blocks es : forall pre0 q,
  start_ok pre0 q -> (q = [] -> pre0 = []) ->
  Forall (block_of (pre0 ++ q ++ es)) (snd (pos_run q es)) /\
  (let q' := fst (pos_run q es) in exists pre', pre0 ++ q ++ es = pre' ++ q' /\ start_ok pre' q').
Proof.
  induction es as [|e r IH]; intros pre0 q Hs Hq.
  - cbn [pos_run fst snd]. split; [constructor|]. exists pre0. rewrite app_nil_r. auto.
  - cbn [pos_run]. unfold pos_add. destruct (contiguous q e) eqn:Ec.
    + assert (Hne : q <> []) by (intros ->; discriminate).
      destruct (pusi (snd e)) eqn:Ep.
      * (* flush *)
        destruct (IH (pre0 ++ q) [e]) as [IH1 IH2].
        { cbn [start_ok]. left. exact Ep. }
        { discriminate. }
        destruct (pos_run [e] r) as [q2 gs]. cbn [fst snd] in *.
        assert (Eq : (pre0 ++ q) ++ [e] ++ r = pre0 ++ q ++ e :: r) by (rewrite <- app_assoc; reflexivity).
        rewrite Eq in *. split; [|exact IH2].
        destruct q as [|a q]; [contradiction|]. constructor; [|exact IH1].
        exists pre0, r. cbn [fst snd]. repeat split; auto.
      * destruct (IH pre0 (q ++ [e])) as [IH1 IH2].
        { apply start_ok_snoc; assumption. }
        { intros E. destruct q; discriminate. }
        destruct (pos_run (q ++ [e]) r) as [q2 gs]. cbn [fst snd] in *.
        assert (Eq : pre0 ++ (q ++ [e]) ++ r = pre0 ++ q ++ e :: r) by (rewrite <- !app_assoc; reflexivity).
        rewrite Eq in *. split; assumption.
    + destruct (IH (pre0 ++ q) [e]) as [IH1 IH2].
      { cbn [start_ok]. right. destruct q as [|a q].
        - rewrite (Hq eq_refl). reflexivity.
        - rewrite contiguous_app by discriminate. exact Ec. }
      { discriminate. }
      destruct (pos_run [e] r) as [q2 gs]. cbn [fst snd] in *.
      assert (Eq : (pre0 ++ q) ++ [e] ++ r = pre0 ++ q ++ e :: r) by (rewrite <- app_assoc; reflexivity).
      rewrite Eq in *. split; assumption.
Qed.

(* the events are ordered by the position of the packet that flushed them, strictly: no group is flushed twice *)
Definition ev_lt (a b : list apkt * apkt) : Prop := fst (snd a) < fst (snd b).

Fixpoint above (lo : option apkt) (es : list apkt) : Prop :=
  match es with
  | [] => True
  | e :: r => match lo with None => True | Some pe => fst pe < fst e end /\ above (Some e) r
  end.

Lemma received_ok_above prev es : received_ok prev es -> above prev es.
Proof.
  revert prev. induction es as [|e r IH]; intros prev H; [exact I|].
  destruct H as [H1 H2]. split; [|exact (IH _ H2)].
  destruct prev as [pe|]; [|exact I]. destruct H1 as [H1 _]. lia.
Qed.

Lemma above_lower e r : above (Some e) r -> Forall (fun e' => fst e < fst e') r.
Proof.
  revert e. induction r as [|a r IH]; intros e H; [constructor|].
  destruct H as [H1 H2]. constructor; [exact H1|].
  specialize (IH a H2). eapply Forall_impl; [|exact IH]. cbn. intros; lia.
Qed.

Lemma pos_run_flushers es : forall q, Forall (fun ev => In (snd ev) es) (snd (pos_run q es)).
Proof.
  induction es as [|e r IH]; intros q; [constructor|].
  cbn [pos_run]. destruct (pos_add q e) as [q1 g]. specialize (IH q1).
  destruct (pos_run q1 r) as [q2 gs]. cbn [snd] in *.
  assert (H : Forall (fun ev => In (snd ev) (e :: r)) gs).
  { eapply Forall_impl; [|exact IH]. cbn. intros; auto. }
  destruct g; [exact H|]. constructor; [left; reflexivity|exact H].
Qed.

Lemma pos_run_sorted es : forall q lo, above lo es -> StronglySorted ev_lt (snd (pos_run q es)).
Proof.
  induction es as [|e r IH]; intros q lo Hab; [constructor|].
  destruct Hab as [_ Hab]. cbn [pos_run]. destruct (pos_add q e) as [q1 g].
  pose proof (IH q1 (Some e) Hab) as IH1. pose proof (pos_run_flushers r q1) as Hfl.
  destruct (pos_run q1 r) as [q2 gs]. cbn [snd] in *.
  destruct g; [exact IH1|]. constructor; [exact IH1|].
  pose proof (above_lower e r Hab) as Hlow. rewrite Forall_forall in Hlow.
  eapply Forall_impl; [|exact Hfl]. intros ev Hin. unfold ev_lt. cbn [snd fst]. exact (Hlow _ Hin).
Qed.

Lemma above_adjacent pre : forall lo b a l, above lo (pre ++ b :: a :: l) -> fst b < fst a.
Proof.
  induction pre as [|c pre IH]; intros lo b a l H.
  - cbn [app above] in H. exact (proj1 (proj2 H)).
  - cbn [app above] in H. exact (IH _ _ _ _ (proj2 H)).
Qed.

(* ---- the statements about the accumulator ---- *)

Section Loss.
Variables (pm : pmap) (x c0 : Z).
Hypothesis Hn : (Z.eqb x C_PIDPAT || pm_mem pm x) = false.

Lemma received_ok_app_r pre : forall prev es, received_ok prev (pre ++ es) ->
  received_ok (match rev pre with [] => prev | e :: _ => Some e end) es.
Proof.
  induction pre as [|a pre IH]; intros prev es H; [exact H|].
  cbn [app received_ok] in H. destruct H as [_ H]. specialize (IH (Some a) es H).
  cbn [rev]. destruct (rev pre) as [|b l]; cbn [app]; exact IH.
Qed.

(* (A) COMPLETENESS.  The received packets es contain a whole unit u (a unit start followed by continuation
   packets, consecutive positions: none of its packets was lost) followed at once by the start h' of the next
   unit (so u does not immediately precede a gap).  Then u is flushed as one group, by h'; before it come exactly
   the events of the packets up to the first packet of u, after it the events of the rest of the reception run
   from the queue [h']. *)
Theorem loss_complete pre u h' post :
  Forall (on_stream c0) (pre ++ u ++ h' :: post) -> received_ok None (pre ++ u ++ h' :: post) ->
  unit_shaped u -> run (u ++ [h']) -> pusi (snd h') = true ->
  snd (acc_run_a pm x [] (pre ++ u ++ h' :: post)) =
  snd (acc_run_a pm x [] (pre ++ firstn 1 u)) ++ (u, h') :: snd (acc_run_a pm x [h'] post).
Proof.
  intros Hall Hrec Hu Hrun Hh'.
  rewrite (loss_run_exact_from_start pm x c0 _ Hn Hall Hrec).
  rewrite (pos_run_unit pre u h' post [] Hu Hrun Hh'). cbn [snd].
  (* the two sub-runs are accumulator runs as well *)
  assert (E1 : acc_run_a pm x [] (pre ++ firstn 1 u) = pos_run [] (pre ++ firstn 1 u)).
  { destruct u as [|h t]; [contradiction|]. cbn [firstn].
    apply (loss_run_exact_from_start pm x c0); [exact Hn| |].
    - rewrite !Forall_app in *. destruct Hall as [H1 H2]. split; [exact H1|].
      cbn [app] in H2. destruct H2 as [H2 _]. inversion H2; subst. constructor; [assumption|constructor].
    - clear - Hrec. revert Hrec. generalize (@None (Z * Packet)).
      induction pre as [|a pre IH]; intros prev H.
      + cbn [app received_ok] in *. split; [exact (proj1 H)|exact I].
      + cbn [app received_ok] in *. split; [exact (proj1 H)|]. exact (IH _ (proj2 H)). }
  assert (E2 : acc_run_a pm x [h'] post = pos_run [h'] post).
  { apply (loss_run_exact pm x c0 post [h'] (Some h')); [exact Hn| | |].
    - rewrite !Forall_app in Hall. destruct Hall as [_ [_ H]]. inversion H; assumption.
    - rewrite !Forall_app in Hall. destruct Hall as [_ [_ H]]. inversion H; subst.
      split; [constructor; [assumption|constructor]|right; exists h', []; auto].
    - replace (pre ++ u ++ h' :: post) with ((pre ++ u ++ [h']) ++ post) in Hrec
        by (rewrite <- !app_assoc; reflexivity).
      apply received_ok_app_r in Hrec. rewrite !app_assoc, rev_unit in Hrec. exact Hrec. }
  rewrite E1, E2. reflexivity.
Qed.

Corollary loss_complete_in pre u h' post :
  Forall (on_stream c0) (pre ++ u ++ h' :: post) -> received_ok None (pre ++ u ++ h' :: post) ->
  unit_shaped u -> run (u ++ [h']) -> pusi (snd h') = true ->
  In (u, h') (snd (acc_run_a pm x [] (pre ++ u ++ h' :: post))).
Proof. intros. rewrite loss_complete by assumption. apply in_or_app. right. left. reflexivity. Qed.

(* the unit received last remains queued; the end-of-stream drain delivers it *)
Theorem loss_last_unit pre u :
  Forall (on_stream c0) (pre ++ u) -> received_ok None (pre ++ u) -> unit_shaped u -> run u ->
  fst (acc_run_a pm x [] (pre ++ u)) = u.
Proof.
  intros Hall Hrec Hu Hrun. rewrite (loss_run_exact_from_start pm x c0 _ Hn Hall Hrec).
  apply pos_run_last_unit; assumption.
Qed.

(* each group is flushed once, the events are in stream order *)
Theorem loss_events_sorted es :
  Forall (on_stream c0) es -> received_ok None es ->
  StronglySorted ev_lt (snd (acc_run_a pm x [] es)).
Proof.
  intros Hall Hrec. rewrite (loss_run_exact_from_start pm x c0 _ Hn Hall Hrec).
  apply (pos_run_sorted es [] None). apply received_ok_above. exact Hrec.
Qed.

(* (A, converse) every flushed group is a block of consecutive received packets followed at once by its flusher,
   and starts with a unit start, or at the very beginning of the reception, or right after a gap *)
Theorem loss_blocks es :
  Forall (on_stream c0) es -> received_ok None es ->
  Forall (block_of es) (snd (acc_run_a pm x [] es)) /\
  exists pre, es = pre ++ fst (acc_run_a pm x [] es) /\ start_ok pre (fst (acc_run_a pm x [] es)).
Proof.
  intros Hall Hrec. rewrite (loss_run_exact_from_start pm x c0 _ Hn Hall Hrec).
  destruct (pos_run_blocks es [] [] I (fun _ => eq_refl)) as [H1 H2]. cbn [app] in *. split; assumption.
Qed.

(* the groups that begin with a unit start are EXACTLY the whole units of which every packet, and the packet after
   the last one, was received *)
Theorem loss_unit_groups_iff es g e :
  Forall (on_stream c0) es -> received_ok None es -> unit_shaped g ->
  (In (g, e) (snd (acc_run_a pm x [] es)) <->
   (exists pre post, es = pre ++ g ++ e :: post) /\ run (g ++ [e]) /\ pusi (snd e) = true).
Proof.
  intros Hall Hrec Hu. split.
  - intros Hin. destruct (loss_blocks es Hall Hrec) as [Hb _].
    pose proof (loss_no_splice_from_start pm x c0 es Hn Hall Hrec) as Hs.
    rewrite Forall_forall in Hb, Hs. destruct (Hb _ Hin) as [pre [post [E [_ [_ [Hp _]]]]]].
    destruct (Hs _ Hin) as [Hr _]. cbn [fst snd] in *. split; [exists pre, post; exact E|]. split; assumption.
  - intros [[pre [post ->]] [Hr Hp]]. apply loss_complete_in; assumption.
Qed.

(* the other groups (no unit start at the front) are tails of damaged units: a block of consecutive received
   continuation packets, followed at once by the unit start that flushed it, such that the packet just before the
   block in the loss-free stream was NOT received (every packet received earlier is at least two positions back) *)
Lemma above_app_l pre : forall lo l, above lo (pre ++ l) -> above lo pre.
Proof.
  induction pre as [|a pre IH]; intros lo l H; [exact I|].
  cbn [app above] in *. split; [exact (proj1 H)|exact (IH _ _ (proj2 H))].
Qed.

Lemma above_last_max pre pe : forall lo, above lo (pre ++ [pe]) -> Forall (fun e => fst e <= fst pe) (pre ++ [pe]).
Proof.
  induction pre as [|a pre IH]; intros lo H.
  - constructor; [lia|constructor].
  - cbn [app above] in H. destruct H as [_ H]. cbn [app]. constructor; [|exact (IH _ H)].
    pose proof (above_lower a (pre ++ [pe]) H) as Hl. rewrite Forall_forall in Hl.
    specialize (Hl pe ltac:(apply in_or_app; right; left; reflexivity)). lia.
Qed.

Theorem loss_orphans es :
  Forall (on_stream c0) es -> received_ok None es ->
  Forall (fun ev : list apkt * apkt => forall (a : apkt) (g' : list apkt), fst ev = a :: g' -> pusi (snd a) = false ->
            exists pre post : list apkt, es = pre ++ fst ev ++ snd ev :: post /\
              Forall (fun e => pusi (snd e) = false) (fst ev) /\ run (fst ev ++ [snd ev]) /\
              pusi (snd (snd ev)) = true /\ Forall (fun pe => fst pe + 1 < fst a) pre)
         (snd (acc_run_a pm x [] es)).
Proof.
  intros Hall Hrec. destruct (loss_blocks es Hall Hrec) as [Hb _].
  pose proof (loss_no_splice_from_start pm x c0 es Hn Hall Hrec) as Hs.
  rewrite Forall_forall in *. intros [g e] Hin a g' Eg Ha. cbn [fst snd] in *. subst g.
  destruct (Hb _ Hin) as [pre [post [E [_ [Hst [Hp _]]]]]]. destruct (Hs _ Hin) as [Hr [Hi _]].
  cbn [fst snd] in *. exists pre, post. split; [exact E|]. split; [|split; [exact Hr|split; [exact Hp|]]].
  - constructor; [exact Ha|exact Hi].
  - cbn [start_ok] in Hst. destruct Hst as [Hst|Hst]; [congruence|].
    destruct pre as [|b pre] using rev_ind; [constructor|]. clear IHpre.
    rewrite contiguous_snoc in Hst. apply Z.eqb_neq in Hst.
    pose proof (received_ok_above _ _ Hrec) as Hab. rewrite E in Hab.
    assert (Hlt : fst b < fst a).
    { rewrite <- app_assoc in Hab. apply (above_adjacent pre) in Hab. exact Hab. }
    apply above_app_l in Hab. apply above_last_max in Hab.
    eapply Forall_impl; [|exact Hab]. cbn. intros; lia.
Qed.

End Loss.

(* ---- the whole pool: a stream xs (all PIDs interleaved, ignored packets included) whose packets of PID x are the
   received packets es ---- *)

Lemma pool_lookup_in (pl : pool) x q : pool_lookup pl x = Some q -> In (x, q) pl.
Proof.
  induction pl as [|[k q0] r IH]; cbn [pool_lookup]; [discriminate|].
  destruct (k =? x) eqn:E.
  - intros H. inversion H; subst. apply Z.eqb_eq in E. subst. left. reflexivity.
  - intros H. right. exact (IH H).
Qed.

Section LossPool.
Variables (pm : pmap) (x c0 : Z).
Hypothesis Hn : (Z.eqb x C_PIDPAT || pm_mem pm x) = false.

Lemma own_packets_relevant xs (es : list apkt) :
  filter (fun s => relevant x (snd s)) xs = map (fun e => (pm, snd e)) es ->
  Forall (fun e => relevant x (snd e) = true) es.
Proof.
  intros E. rewrite Forall_forall. intros e He.
  assert (H : In (pm, snd e) (filter (fun s => relevant x (snd s)) xs)).
  { rewrite E. apply (in_map (fun e0 : apkt => (pm, snd e0))). exact He. }
  apply filter_In in H. exact (proj2 H).
Qed.

Lemma pool_acc_a xs (es : list apkt) :
  filter (fun s => relevant x (snd s)) xs = map (fun e => (pm, snd e)) es ->
  groups_of x (snd (pool_run [] xs)) = map (fun ev => (x, map snd (fst ev))) (snd (acc_run_a pm x [] es)) /\
  qof (fst (pool_run [] xs)) x = map snd (fst (acc_run_a pm x [] es)).
Proof.
  intros E. destruct (per_pid x xs []) as [H1 H2]. change (qof [] x) with (@nil Packet) in *.
  rewrite acc_run_filter, E in H1, H2.
  destruct (acc_run_a_erase pm x es [] (own_packets_relevant xs es E)) as [E1 E2]. cbn [map] in E1, E2.
  rewrite H1, H2, E1, E2. auto.
Qed.

(* (A) at the level of the pool: the unit is among the groups the demultiplexer hands to the parser *)
Theorem loss_complete_pool xs pre u h' post :
  filter (fun s => relevant x (snd s)) xs = map (fun e => (pm, snd e)) (pre ++ u ++ h' :: post) ->
  Forall (on_stream c0) (pre ++ u ++ h' :: post) -> received_ok None (pre ++ u ++ h' :: post) ->
  unit_shaped u -> run (u ++ [h']) -> pusi (snd h') = true ->
  In (x, map snd u) (all_groups xs).
Proof.
  intros E Hall Hrec Hu Hrun Hh'. destruct (pool_acc_a xs _ E) as [Hg _].
  pose proof (loss_complete_in pm x c0 Hn pre u h' post Hall Hrec Hu Hrun Hh') as Hin.
  apply (in_map (fun ev : list apkt * apkt => (x, map snd (fst ev)))) in Hin. cbn [fst] in Hin.
  rewrite <- Hg in Hin. unfold groups_of in Hin. apply filter_In in Hin.
  unfold all_groups. destruct (pool_run [] xs) as [pl gs]. cbn [snd] in Hin. apply in_or_app. left. exact (proj1 Hin).
Qed.

(* the unit received last is delivered by the end-of-stream drain *)
Theorem loss_last_unit_pool xs pre u :
  filter (fun s => relevant x (snd s)) xs = map (fun e => (pm, snd e)) (pre ++ u) ->
  Forall (on_stream c0) (pre ++ u) -> received_ok None (pre ++ u) -> unit_shaped u -> run u ->
  In (x, map snd u) (all_groups xs).
Proof.
  intros E Hall Hrec Hu Hrun. destruct (pool_acc_a xs _ E) as [_ Hq].
  rewrite (loss_last_unit pm x c0 Hn pre u Hall Hrec Hu Hrun) in Hq.
  unfold all_groups. destruct (pool_run [] xs) as [pl gs]. cbn [fst] in Hq. apply in_or_app. right.
  unfold qof in Hq. destruct (pool_lookup pl x) as [q|] eqn:El.
  - subst q. apply pool_lookup_in in El. unfold drain_groups.
    apply in_map_iff. exists (x, map snd u). split; [reflexivity|].
    apply filter_In. split; [exact El|]. cbn [snd]. destruct u; [contradiction|reflexivity].
  - destruct u; [contradiction|discriminate].
Qed.

End LossPool.

(* ---- the hypotheses are satisfiable: a stream of four units at positions 0-2, 3-4, 5-7, 8-9 of a PID whose counter
   starts at 14 (it wraps inside the first unit); the packet at position 4 is lost.  The units 0-2 and 5-7 are whole and
   followed by the next unit start: they are flushed; unit 3-4 lost a packet; unit 8-9 stays queued for the drain.
   When the packet at position 5 (a unit start) is lost instead, the continuation packets 6-7 form an orphan group. ---- *)
Definition ex_pkt (cc : Z) (start : bool) (payload : list Z) : Packet :=
  {| Packet_AdaptationField := None;
     Packet_Header := {| PacketHeader_ContinuityCounter := cc; PacketHeader_HasAdaptationField := false;
                         PacketHeader_HasPayload := true; PacketHeader_PayloadUnitStartIndicator := start;
                         PacketHeader_PID := 256; PacketHeader_TransportErrorIndicator := false;
                         PacketHeader_TransportPriority := false; PacketHeader_TransportScramblingControl := 0 |};
     Packet_Payload := payload |}.

Definition ex_sent : list apkt :=
  [(0, ex_pkt 14 true [0;0;1;224]); (1, ex_pkt 15 false [11]); (2, ex_pkt 0 false [12]);
   (3, ex_pkt 1 true [0;0;1;224]);  (4, ex_pkt 2 false [21]);
   (5, ex_pkt 3 true [0;0;1;224]);  (6, ex_pkt 4 false [31]); (7, ex_pkt 5 false [32]);
   (8, ex_pkt 6 true [0;0;1;224]);  (9, ex_pkt 7 false [41])].

Definition ex_without (k : Z) : list apkt := filter (fun e => negb (fst e =? k)) ex_sent.

Example loss_complete_example :
  let es := ex_without 4 in
  let u := firstn 3 (skipn 4 es) in
  Forall (on_stream 14) es /\ received_ok None es /\
  es = firstn 4 es ++ u ++ nth 7 es (0, zero_Packet) :: skipn 8 es /\
  unit_shaped u /\ run (u ++ [nth 7 es (0, zero_Packet)]) /\ pusi (snd (nth 7 es (0, zero_Packet))) = true /\
  map (fun ev => (map fst (fst ev), fst (snd ev))) (snd (acc_run_a [] 256 [] es)) = [([0; 1; 2], 3); ([5; 6; 7], 8)] /\
  map fst (fst (acc_run_a [] 256 [] es)) = [8; 9].
Proof.
  cbv zeta. repeat split; try reflexivity; try (vm_compute; intros; discriminate).
  - repeat constructor.
  - repeat constructor.
Qed.

Example loss_orphan_example :
  let es := ex_without 5 in
  Forall (on_stream 14) es /\ received_ok None es /\
  map (fun ev => (map fst (fst ev), fst (snd ev))) (snd (acc_run_a [] 256 [] es)) = [([0; 1; 2], 3); ([6; 7], 8)].
Proof.
  cbv zeta. repeat split; try reflexivity; try (vm_compute; intros; discriminate).
  repeat constructor.
Qed.
