(* C03 for the unit parsers: a state-indexed refinement of the predicate [safe] of Proofs/SafeProofs.v.

   [osafe m L o Q]: on every iterator over bytes_ok bytes of length L standing at offset o, the parser m does not
   panic, reports only the generic / sync error (in particular never the models' "out of fuel" code 99), and on
   success the value a and the new offset o' satisfy Q a o'; the byte slice is unchanged.

   Unlike [safe], the postcondition of a primitive names the new offset exactly (o' = o + n, o' <= L), so the
   arithmetic the Go code relies on (NextBytes(offsetEnd - Offset) is non-negative because the descriptor length is
   positive and only one byte has been read, a loop that consumes a byte per round ends before its fuel does, ...)
   can be discharged by lia.

   This file: the framework, the loops, and the PES parser (data_pes.go).  Descriptors: SafeDesc.v, PSI: SafePsi.v. *)
From Coq Require Import ZArith List Lia Bool ZifyBool.
Require Import Base.Bits Base.Iter Gen.Consts Gen.Types Gen.Preds Model.Clock Model.Packet Model.Pes.
Require Import Proofs.SafeProofs.
Import ListNotations.
Open Scope Z_scope.
Open Scope iter_scope.

Definition osafe {A} (m : IM A) (L o : Z) (Q : A -> Z -> Prop) : Prop :=
  forall i, ioff i = o -> ilen i = L -> bytes_ok (ibs i) ->
  match m i with
  | Panic => False
  | Err c => ok_code c
  | Ok (a, i') => Q a (ioff i') /\ ibs i' = ibs i
  end.

Lemma osafe_weaken {A} (m : IM A) L o (Q R : A -> Z -> Prop) :
  osafe m L o Q -> (forall a o', Q a o' -> R a o') -> osafe m L o R.
Proof.
  intros H HQ i Ho Hl Hb. specialize (H i Ho Hl Hb). destruct (m i) as [[a i']|c|]; auto.
  destruct H as [H1 H2]. split; auto.
Qed.

Lemma osafe_bind {A B} (m : IM A) (f : A -> IM B) L o Q R :
  osafe m L o Q -> (forall a o', Q a o' -> osafe (f a) L o' R) -> osafe (ibind m f) L o R.
Proof.
  intros Hm Hf i Ho Hl Hb. unfold ibind. specialize (Hm i Ho Hl Hb).
  destruct (m i) as [[a i']|c|]; auto. destruct Hm as [Ha Hbs].
  assert (Hl' : ilen i' = L) by (unfold ilen in *; rewrite Hbs; exact Hl).
  specialize (Hf a (ioff i') Ha i' eq_refl Hl' ltac:(rewrite Hbs; exact Hb)).
  destruct (f a i') as [[b i'']|c|]; auto. destruct Hf as [H1 H2]. split; auto. congruence.
Qed.

Lemma osafe_iret {A} (a : A) L o (Q : A -> Z -> Prop) : Q a o -> osafe (iret a) L o Q.
Proof. intros H i Ho Hl Hb. cbn. subst o. auto. Qed.

Lemma osafe_iret_eq {A} (a : A) L o : osafe (iret a) L o (fun v o' => v = a /\ o' = o).
Proof. apply osafe_iret. auto. Qed.

(* monad laws, pointwise: lets a proof walk through a parser whose first component is itself a sequence *)
Lemma osafe_assoc {A B C} (m : IM A) (f : A -> IM B) (g : B -> IM C) L o Q :
  osafe (ibind m (fun a => ibind (f a) g)) L o Q -> osafe (ibind (ibind m f) g) L o Q.
Proof.
  intros H i Ho Hl Hb. specialize (H i Ho Hl Hb). unfold ibind in *. destruct (m i) as [[a i']|c|]; auto.
Qed.

Lemma osafe_ret_bind {A B} (a : A) (f : A -> IM B) L o Q : osafe (f a) L o Q -> osafe (ibind (iret a) f) L o Q.
Proof. intros H i Ho Hl Hb. specialize (H i Ho Hl Hb). unfold ibind, iret. exact H. Qed.

Lemma osafe_ierr {A} c L o (Q : A -> Z -> Prop) : ok_code c -> osafe (ierr c) L o Q.
Proof. intros H i Ho Hl Hb. cbn. auto. Qed.

Lemma osafe_next_byte L o : 0 <= o -> osafe next_byte L o (fun b o' => is_byte b /\ o' = o + 1 /\ o' <= L).
Proof.
  intros H0 i Ho Hl Hb. unfold next_byte. destruct (ilen i <? ioff i + 1) eqn:E1; [left; reflexivity|].
  destruct (ioff i <? 0) eqn:E; [lia|]. cbn [ibs ioff]. split; [|reflexivity].
  split; [apply nth_bytes_ok; exact Hb|lia].
Qed.

Lemma osafe_next_bytes n L o : 0 <= o -> 0 <= n ->
  osafe (next_bytes n) L o (fun bs o' => bytes_ok bs /\ Z.of_nat (length bs) = n /\ o' = o + n /\ o' <= L).
Proof.
  intros H0 Hn i Ho Hl Hb. unfold next_bytes. destruct (ilen i <? ioff i + n) eqn:E1; [left; reflexivity|].
  destruct (n <? 0) eqn:E; [lia|]. destruct (ioff i <? 0) eqn:E2; [lia|]. cbn [ibs ioff].
  split; [|reflexivity]. split; [apply bytes_ok_slice; exact Hb|].
  split; [rewrite slice_length; unfold ilen in *; lia|lia].
Qed.

Lemma osafe_next_bytes_nocopy n L o : 0 <= o -> 0 <= n ->
  osafe (next_bytes_nocopy n) L o (fun bs o' => bytes_ok bs /\ Z.of_nat (length bs) = n /\ o' = o + n /\ o' <= L).
Proof. exact (osafe_next_bytes n L o). Qed.

Lemma osafe_iseek n L o : osafe (iseek n) L o (fun _ o' => o' = n).
Proof. intros i Ho Hl Hb. cbn. auto. Qed.

Lemma osafe_iskip n L o : osafe (iskip n) L o (fun _ o' => o' = o + n).
Proof. intros i Ho Hl Hb. cbn. subst o. auto. Qed.

Lemma osafe_ioffset L o : osafe ioffset L o (fun v o' => v = o /\ o' = o).
Proof. intros i Ho Hl Hb. cbn. auto. Qed.

Lemma osafe_ilength L o : osafe ilength L o (fun v o' => v = L /\ o' = o).
Proof. intros i Ho Hl Hb. cbn. auto. Qed.

Lemma osafe_has_bytes_left L o : osafe has_bytes_left L o (fun v o' => v = (o <? L) /\ o' = o).
Proof. intros i Ho Hl Hb. cbn. subst. auto. Qed.

Lemma osafe_idump L o : 0 <= o -> osafe idump L o (fun bs o' => bytes_ok bs /\ 0 <= o').
Proof.
  intros H0 i Ho Hl Hb. unfold idump. destruct (negb (ioff i <? ilen i)); [cbn; repeat split; auto; try lia; constructor|].
  destruct (ioff i <? 0) eqn:E; [lia|]. cbn [ibs ioff]. unfold ilen.
  repeat split; try lia. unfold bytes_ok in *. apply Forall_forall. intros x Hx. apply In_skipn in Hx. rewrite Forall_forall in Hb. auto.
Qed.

(* the two predicates carry the same information about a parser that is safe from every non-negative offset *)
Lemma osafe_of_safe {A} (m : IM A) (Q : A -> Prop) L o : safe m Q -> 0 <= o ->
  osafe m L o (fun a o' => Q a /\ 0 <= o').
Proof.
  intros H H0 i Ho Hl Hb. specialize (H i ltac:(lia) Hb). destruct (m i) as [[a i']|c|]; auto. tauto.
Qed.

Lemma safe_of_osafe {A} (m : IM A) (Q : A -> Prop) :
  (forall L o, 0 <= o -> osafe m L o (fun a o' => Q a /\ 0 <= o')) -> safe m Q.
Proof.
  intros H i Hi Hb. specialize (H (ilen i) (ioff i) Hi i eq_refl eq_refl Hb). destruct (m i) as [[a i']|c|]; auto. tauto.
Qed.

(* no panic and no fuel error on whole inputs *)
Lemma osafe_run {A} (m : IM A) Q bs : bytes_ok bs -> osafe m (Z.of_nat (length bs)) 0 Q ->
  match run_iter m bs with Panic => False | Err c => ok_code c | Ok a => True end.
Proof.
  intros Hb H. unfold run_iter. specialize (H (new_iter bs) eq_refl eq_refl Hb).
  destruct (m (new_iter bs)) as [[a i']|c|]; cbn; auto.
Qed.

(* what a successful run on a whole input satisfies *)
Lemma osafe_run_post {A} (m : IM A) Q bs a : bytes_ok bs -> osafe m (Z.of_nat (length bs)) 0 Q ->
  run_iter m bs = Ok a -> exists o', Q a o'.
Proof.
  intros Hb H E. unfold run_iter in E. specialize (H (new_iter bs) eq_refl eq_refl Hb).
  destruct (m (new_iter bs)) as [[a' i']|c|]; cbn in E; try discriminate. inversion E; subst.
  exists (ioff i'). tauto.
Qed.

(* ---------------- value facts ---------------- *)

Lemma bitsf_nonneg bs off w : 0 <= bitsf bs off w.
Proof. unfold bitsf, field. apply Z_of_bits_range. Qed.

Lemma byte_at_ok bs k : bytes_ok bs -> 0 <= byte_at bs k < 256.
Proof. intros H. apply (nth_bytes_ok bs k H). Qed.

(* ---------------- tactics ---------------- *)

Ltac osafe_facts :=
  unfold is_byte in *;
  repeat match goal with
  | |- context [bitsf ?b ?o ?w] =>
      lazymatch goal with H : 0 <= bitsf b o w |- _ => fail | _ => pose proof (bitsf_nonneg b o w) end
  | H : bytes_ok ?b |- context [byte_at ?b ?k] =>
      lazymatch goal with H' : 0 <= byte_at b k < 256 |- _ => fail | _ => pose proof (byte_at_ok b k H) end
  end.

Ltac osafe_split H :=
  repeat match type of H with
  | _ /\ _ => let H1 := fresh "H" in let H2 := fresh "H" in destruct H as [H1 H2]; osafe_split H1; osafe_split H2
  end.

Ltac osafe_destr :=
  repeat match goal with
  | H : _ /\ _ |- _ => destruct H
  | x : (_ * _)%type |- _ => destruct x
  end; cbn [fst snd] in *; subst.

(* one primitive (or an already proved parser found by the hint tactic [tac]) *)
Ltac osafe_prim tac :=
  first
    [ apply osafe_next_byte; lia
    | apply osafe_next_bytes_nocopy; osafe_facts; lia
    | apply osafe_next_bytes; osafe_facts; lia
    | apply osafe_ioffset
    | apply osafe_ilength
    | apply osafe_has_bytes_left
    | apply osafe_iseek
    | apply osafe_iskip
    | apply osafe_idump; lia
    | apply osafe_iret_eq
    | tac ].

Ltac osafe_done :=
  cbv beta; cbn [fst snd];
  first [ exact I | osafe_facts; repeat split; first [ lia | assumption | exact I ] ].

(* run through a straight-line parser: binds, ifs on booleans, pattern-matching lets *)
Ltac osafe_go tac :=
  cbv zeta;
  lazymatch goal with
  | |- osafe (ibind (if ?c then _ else _) _) _ _ _ => let E := fresh "E" in destruct c eqn:E; osafe_go tac
  | |- osafe (ibind (ibind _ _) _) _ _ _ => apply osafe_assoc; osafe_go tac
  | |- osafe (ibind (iret _) _) _ _ _ => apply osafe_ret_bind; cbv beta; osafe_go tac
  | |- osafe (ibind _ _) _ _ _ =>
      eapply osafe_bind; [ osafe_prim tac | let a := fresh "a" in let o' := fresh "o" in let H := fresh "H" in
                                         intros a o' H; cbv beta in H; osafe_destr; osafe_go tac ]
  | |- osafe (iret _) _ _ _ => apply osafe_iret; osafe_done
  | |- osafe (ierr _) _ _ _ => apply osafe_ierr; first [ left; reflexivity | right; reflexivity ]
  | |- osafe (if ?c then _ else _) _ _ _ => let E := fresh "E" in destruct c eqn:E; osafe_go tac
  | |- osafe _ _ _ _ =>
      eapply osafe_weaken; [ osafe_prim tac | let a := fresh "a" in let o' := fresh "o" in let H := fresh "H" in
                                           cbv beta; intros a o' H; osafe_destr; osafe_done ]
  end.

(* one step of osafe_go (for debugging a proof) *)
Ltac osafe_go1 tac :=
  cbv zeta;
  lazymatch goal with
  | |- osafe (ibind (if ?c then _ else _) _) _ _ _ => let E := fresh "E" in destruct c eqn:E
  | |- osafe (ibind (ibind _ _) _) _ _ _ => apply osafe_assoc
  | |- osafe (ibind (iret _) _) _ _ _ => apply osafe_ret_bind; cbv beta
  | |- osafe (ibind _ _) _ _ _ =>
      eapply osafe_bind; [ osafe_prim tac | let a := fresh "a" in let o' := fresh "o" in let H := fresh "H" in
                                         intros a o' H; cbv beta in H; osafe_destr ]
  | |- osafe (iret _) _ _ _ => apply osafe_iret; osafe_done
  | |- osafe (ierr _) _ _ _ => apply osafe_ierr; first [ left; reflexivity | right; reflexivity ]
  | |- osafe (if ?c then _ else _) _ _ _ => let E := fresh "E" in destruct c eqn:E
  | |- osafe _ _ _ _ =>
      eapply osafe_weaken; [ osafe_prim tac | let a := fresh "a" in let o' := fresh "o" in let H := fresh "H" in
                                           cbv beta; intros a o' H; osafe_destr; osafe_done ]
  end.

(* ---------------- parsers of Model/Clock.v and Model/Packet.v reused by the units ---------------- *)

Lemma osafe_parse_pts_or_dts L o : 0 <= o -> osafe parse_pts_or_dts L o (fun _ o' => o' = o + 5 /\ o' <= L).
Proof. intros. unfold parse_pts_or_dts. osafe_go fail. Qed.

Lemma osafe_parse_escr L o : 0 <= o -> osafe parse_escr L o (fun _ o' => o' = o + 6 /\ o' <= L).
Proof. intros. unfold parse_escr. osafe_go fail. Qed.

(* ---------------- data_pes.go ---------------- *)

Ltac pes_hint :=
  first [ apply osafe_parse_pts_or_dts; lia | apply osafe_parse_escr; lia ].

Lemma osafe_parse_ptsdts ind L o : 0 <= o -> osafe (parse_ptsdts ind) L o (fun _ o' => o <= o').
Proof. intros. unfold parse_ptsdts. osafe_go pes_hint. Qed.

Lemma osafe_parse_escr_opt c L o : 0 <= o -> osafe (parse_escr_opt c) L o (fun _ o' => o <= o').
Proof. intros. unfold parse_escr_opt. osafe_go pes_hint. Qed.

Lemma osafe_parse_es_rate c L o : 0 <= o -> osafe (parse_es_rate c) L o (fun _ o' => o <= o').
Proof. intros. unfold parse_es_rate. osafe_go fail. Qed.

Lemma osafe_parse_dsm_opt c L o : 0 <= o -> osafe (parse_dsm_opt c) L o (fun _ o' => o <= o').
Proof. intros. unfold parse_dsm_opt. osafe_go fail. Qed.

Lemma osafe_parse_aci c L o : 0 <= o -> osafe (parse_aci c) L o (fun _ o' => o <= o').
Proof. intros. unfold parse_aci. osafe_go fail. Qed.

Lemma osafe_parse_crc c L o : 0 <= o -> osafe (parse_crc c) L o (fun _ o' => o <= o').
Proof. intros. unfold parse_crc. osafe_go fail. Qed.

Lemma osafe_parse_private_data c L o : 0 <= o -> osafe (parse_private_data c) L o (fun _ o' => o <= o').
Proof. intros. unfold parse_private_data. destruct c; [|osafe_go fail]. eapply osafe_weaken; [apply osafe_next_bytes; lia|]. cbv beta. intros; lia. Qed.

(* pack_field_length is a byte: Skip(int(b)) moves forward *)
Lemma osafe_parse_pack_field c L o : 0 <= o -> osafe (parse_pack_field c) L o (fun _ o' => o <= o').
Proof. intros. unfold parse_pack_field. osafe_go fail. Qed.

Lemma osafe_parse_psc c L o : 0 <= o -> osafe (parse_psc c) L o (fun _ o' => o <= o').
Proof. intros. unfold parse_psc. osafe_go fail. Qed.

Lemma osafe_parse_pstd c L o : 0 <= o -> osafe (parse_pstd c) L o (fun _ o' => o <= o').
Proof. intros. unfold parse_pstd. osafe_go fail. Qed.

(* PES_extension_field_length is 7 bits of a byte: NextBytes of a non-negative count *)
Lemma osafe_parse_ext2 c L o : 0 <= o -> osafe (parse_ext2 c) L o (fun _ o' => o <= o').
Proof. intros. unfold parse_ext2. osafe_go fail. Qed.

Ltac pes_hint2 :=
  first [ apply osafe_parse_ptsdts; lia | apply osafe_parse_escr_opt; lia | apply osafe_parse_es_rate; lia
        | apply osafe_parse_dsm_opt; lia | apply osafe_parse_aci; lia | apply osafe_parse_crc; lia
        | apply osafe_parse_private_data; lia | apply osafe_parse_pack_field; lia | apply osafe_parse_psc; lia
        | apply osafe_parse_pstd; lia | apply osafe_parse_ext2; lia ].

Lemma osafe_parse_pes_extension c L o : 0 <= o -> osafe (parse_pes_extension c) L o (fun _ o' => o <= o').
Proof. intros. unfold parse_pes_extension. osafe_go pes_hint2. Qed.

Ltac pes_hint3 := first [ pes_hint2 | apply osafe_parse_pes_extension; lia ].

(* dataStart = offset after the three fixed bytes + PES_header_data_length: non-negative *)
Lemma osafe_parse_pes_optional_header L o : 0 <= o ->
  osafe parse_pes_optional_header L o (fun x o' => 0 <= snd x /\ 0 <= o').
Proof.
  intros. unfold parse_pes_optional_header.
  osafe_go pes_hint3.
Qed.

Ltac pes_hint4 := apply osafe_parse_pes_optional_header; lia.

Lemma osafe_parse_pes_header L o : 0 <= o ->
  osafe parse_pes_header L o (fun x o' => 0 <= snd (fst x) /\ 0 <= o').
Proof.
  intros. unfold parse_pes_header.
  osafe_go pes_hint4.
Qed.

Ltac pes_hint5 := apply osafe_parse_pes_header; lia.

(* parsePESData: Seek(3), header, Seek(dataStart) with dataStart >= 0, NextBytes(dataEnd - dataStart) behind the
   dataEnd < dataStart test *)
Theorem osafe_parse_pes_data L o : osafe parse_pes_data L o (fun _ o' => 0 <= o').
Proof.
  unfold parse_pes_data.
  osafe_go pes_hint5.
Qed.

Theorem safe_parse_pes_data : safe parse_pes_data any.
Proof.
  apply safe_of_osafe. intros L o Ho. eapply osafe_weaken; [apply osafe_parse_pes_data|]. cbv beta. unfold any. auto.
Qed.

(* parsePESData on any byte string: no panic, only the generic error *)
Theorem parse_pes_data_no_panic bs : bytes_ok bs ->
  match parse_pes_data_bytes bs with Panic => False | Err c => ok_code c | Ok _ => True end.
Proof. intros Hb. unfold parse_pes_data_bytes. eapply osafe_run; [exact Hb|apply osafe_parse_pes_data]. Qed.
