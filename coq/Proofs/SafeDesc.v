(* C03 for descriptor.go: parseDescriptors and the 23 newDescriptor* parsers never panic, on any bytes, from any
   non-negative offset; the "out of fuel" error of the model's loops is never produced.

   What the proofs rest on (the guards the Go code has):
   - descriptor_length > 0 before the typed body is parsed, so offsetEnd = offset + length > offset;
   - NextBytes(offsetEnd - Offset) in newDescriptorExtension comes after exactly one byte has been read, in
     newDescriptorISO639LanguageAndAudioType / newDescriptorNetworkName at the start of the body: the count is >= 0,
     and > 0 for ISO 639, so bs[len(bs)-1] is in range;
   - the `if i.Offset() < offsetEnd` test in front of the other NextBytes(offsetEnd - Offset);
   - every length that is read is a byte or a bit field (non-negative);
   - every round of a `for i.Offset() < offsetEnd` loop reads at least one byte. *)
From Coq Require Import ZArith List Lia Bool ZifyBool.
Require Import Base.Bits Base.Iter Gen.Consts Gen.Types Gen.Preds Model.Packet Model.Dvb Model.Desc.
Require Import Proofs.SafeProofs Proofs.SafeUnits.
Import ListNotations.
Open Scope Z_scope.
Open Scope iter_scope.

(* ---------------- the loop: enough fuel, never E_fuel ---------------- *)

Lemma osafe_iloop_fuel {A} (item : IM A) L :
  (forall o1, 0 <= o1 -> osafe item L o1 (fun _ o' => o1 < o')) ->
  forall fuel e o, 0 <= o -> (Z.to_nat (e - o) < fuel)%nat ->
  osafe (iloop_fuel fuel e item) L o (fun _ o' => o <= o').
Proof.
  intros Hitem. induction fuel as [|k IH]; intros e o Ho Hf; [lia|].
  cbn [iloop_fuel]. eapply osafe_bind; [apply osafe_ioffset|]. intros off o' [-> ->].
  destruct (o <? e) eqn:E; [|apply osafe_iret; lia].
  eapply osafe_bind; [apply Hitem; lia|]. cbv beta. intros a o1 Ho1.
  eapply osafe_bind; [apply IH; lia|]. cbv beta. intros r o2 Ho2. apply osafe_iret. lia.
Qed.

Lemma osafe_iloop {A} (item : IM A) L e o :
  (forall o1, 0 <= o1 -> osafe item L o1 (fun _ o' => o1 < o')) -> 0 <= o ->
  osafe (iloop e item) L o (fun _ o' => o <= o').
Proof.
  intros Hitem Ho. unfold iloop. eapply osafe_bind; [apply osafe_ioffset|]. intros off o' [-> ->].
  apply osafe_iloop_fuel; [exact Hitem|lia|lia].
Qed.

(* ---------------- helpers ---------------- *)

Lemma osafe_rest_bytes e L o : 0 <= o -> osafe (rest_bytes e) L o (fun _ o' => o <= o').
Proof. intros. unfold rest_bytes. osafe_go fail. Qed.

Lemma osafe_bytes_to e L o : 0 <= o -> o <= e ->
  osafe (bytes_to e) L o (fun bs o' => Z.of_nat (length bs) = e - o /\ o <= o').
Proof. intros. unfold bytes_to. osafe_go fail. Qed.

Lemma osafe_opt_byte c L o : 0 <= o -> osafe (opt_byte c) L o (fun _ o' => o <= o').
Proof. intros. unfold opt_byte. destruct c; [|osafe_go fail]. eapply osafe_weaken; [apply osafe_next_byte; lia|]. cbv beta. intros; lia. Qed.

Lemma osafe_next_byte_item L o : 0 <= o -> osafe next_byte L o (fun _ o' => o < o').
Proof. intros. eapply osafe_weaken; [apply osafe_next_byte; lia|]. cbv beta. intros; lia. Qed.

Lemma osafe_dvb_duration_seconds L o : 0 <= o -> osafe parse_dvb_duration_seconds L o (fun _ o' => o' = o + 3 /\ o' <= L).
Proof. intros. unfold parse_dvb_duration_seconds. osafe_go fail. Qed.

Lemma osafe_dvb_duration_minutes L o : 0 <= o -> osafe parse_dvb_duration_minutes L o (fun _ o' => o' = o + 2 /\ o' <= L).
Proof. intros. unfold parse_dvb_duration_minutes. osafe_go fail. Qed.

Ltac dvb_hint0 := apply osafe_dvb_duration_seconds; lia.

Lemma osafe_dvb_time L o : 0 <= o -> osafe parse_dvb_time L o (fun _ o' => o' = o + 5 /\ o' <= L).
Proof. intros. unfold parse_dvb_time. osafe_go dvb_hint0. Qed.

Ltac desc_hint0 :=
  first [ apply osafe_rest_bytes; lia | apply osafe_opt_byte; lia
        | apply osafe_dvb_duration_seconds; lia | apply osafe_dvb_duration_minutes; lia | apply osafe_dvb_time; lia ].

(* ---------------- the items of the list-valued descriptors: each consumes at least one byte ---------------- *)

Lemma osafe_content_item L o : 0 <= o -> osafe content_item L o (fun _ o' => o < o').
Proof. intros. unfold content_item. osafe_go fail. Qed.

Lemma osafe_extended_event_item L o : 0 <= o -> osafe new_descriptor_extended_event_item L o (fun _ o' => o < o').
Proof. intros. unfold new_descriptor_extended_event_item. osafe_go fail. Qed.

Lemma osafe_local_time_offset_item L o : 0 <= o -> osafe local_time_offset_item L o (fun _ o' => o < o').
Proof. intros. unfold local_time_offset_item. osafe_go desc_hint0. Qed.

Lemma osafe_parental_rating_item L o : 0 <= o -> osafe parental_rating_item L o (fun _ o' => o < o').
Proof. intros. unfold parental_rating_item. osafe_go fail. Qed.

Lemma osafe_subtitling_item L o : 0 <= o -> osafe subtitling_item L o (fun _ o' => o < o').
Proof. intros. unfold subtitling_item. osafe_go fail. Qed.

Lemma osafe_teletext_item L o : 0 <= o -> osafe teletext_item L o (fun _ o' => o < o').
Proof. intros. unfold teletext_item. osafe_go fail. Qed.

Ltac desc_hint1 :=
  first [ desc_hint0
        | apply osafe_iloop; [ first [ exact (osafe_content_item _) | exact (osafe_extended_event_item _)
                                     | exact (osafe_local_time_offset_item _) | exact (osafe_parental_rating_item _)
                                     | exact (osafe_subtitling_item _) | exact (osafe_teletext_item _)
                                     | exact (osafe_next_byte_item _) ] | lia ] ].

Lemma osafe_vbi_data_service L o : 0 <= o -> osafe vbi_data_service L o (fun _ o' => o < o').
Proof. intros. unfold vbi_data_service. osafe_go desc_hint1. Qed.

(* ---------------- newDescriptor<X> ---------------- *)

Lemma osafe_new_descriptor_ac3 e L o : 0 <= o -> osafe (new_descriptor_ac3 e) L o (fun _ o' => 0 <= o').
Proof. intros. unfold new_descriptor_ac3. osafe_go desc_hint1. Qed.

Lemma osafe_new_descriptor_avc_video L o : 0 <= o -> osafe new_descriptor_avc_video L o (fun _ o' => 0 <= o').
Proof. intros. unfold new_descriptor_avc_video. osafe_go desc_hint1. Qed.

Lemma osafe_new_descriptor_component e L o : 0 <= o -> osafe (new_descriptor_component e) L o (fun _ o' => 0 <= o').
Proof. intros. unfold new_descriptor_component. osafe_go desc_hint1. Qed.

Lemma osafe_new_descriptor_content e L o : 0 <= o -> osafe (new_descriptor_content e) L o (fun _ o' => 0 <= o').
Proof. intros. unfold new_descriptor_content. osafe_go desc_hint1. Qed.

Lemma osafe_new_descriptor_data_stream_alignment L o : 0 <= o ->
  osafe new_descriptor_data_stream_alignment L o (fun _ o' => 0 <= o').
Proof. intros. unfold new_descriptor_data_stream_alignment. osafe_go desc_hint1. Qed.

Lemma osafe_new_descriptor_enhanced_ac3 e L o : 0 <= o -> osafe (new_descriptor_enhanced_ac3 e) L o (fun _ o' => 0 <= o').
Proof. intros. unfold new_descriptor_enhanced_ac3. osafe_go desc_hint1. Qed.

Lemma osafe_new_descriptor_extended_event L o : 0 <= o -> osafe new_descriptor_extended_event L o (fun _ o' => 0 <= o').
Proof. intros. unfold new_descriptor_extended_event. osafe_go desc_hint1. Qed.

Lemma osafe_new_descriptor_extension_supplementary_audio e L o : 0 <= o ->
  osafe (new_descriptor_extension_supplementary_audio e) L o (fun _ o' => 0 <= o').
Proof. intros. unfold new_descriptor_extension_supplementary_audio. osafe_go desc_hint1. Qed.

Ltac desc_hint2 :=
  first [ desc_hint1 | apply osafe_new_descriptor_extension_supplementary_audio; lia | apply osafe_bytes_to; lia ].

(* one byte (the extension tag) has been read when NextBytes(offsetEnd - Offset) is evaluated: needs offsetEnd > o,
   which is descriptor_length > 0 *)
Lemma osafe_new_descriptor_extension e L o : 0 <= o -> o < e ->
  osafe (new_descriptor_extension e) L o (fun _ o' => 0 <= o').
Proof. intros. unfold new_descriptor_extension. osafe_go desc_hint2. Qed.

(* bs[len(bs)-1] and bs[:len(bs)-1]: the slice has offsetEnd - o = descriptor_length > 0 bytes *)
Lemma osafe_new_descriptor_iso639 e L o : 0 <= o -> o < e ->
  osafe (new_descriptor_iso639 e) L o (fun _ o' => 0 <= o').
Proof.
  intros. unfold new_descriptor_iso639. eapply osafe_bind; [apply osafe_bytes_to; lia|].
  cbv beta. intros bs o' [Hl Ho']. destruct bs as [|b bs]; [cbn [length] in Hl; lia|].
  apply osafe_iret. lia.
Qed.

Lemma osafe_new_descriptor_local_time_offset e L o : 0 <= o ->
  osafe (new_descriptor_local_time_offset e) L o (fun _ o' => 0 <= o').
Proof. intros. unfold new_descriptor_local_time_offset. osafe_go desc_hint1. Qed.

Lemma osafe_new_descriptor_maximum_bitrate L o : 0 <= o -> osafe new_descriptor_maximum_bitrate L o (fun _ o' => 0 <= o').
Proof. intros. unfold new_descriptor_maximum_bitrate. osafe_go desc_hint1. Qed.

Lemma osafe_new_descriptor_network_name e L o : 0 <= o -> o <= e ->
  osafe (new_descriptor_network_name e) L o (fun _ o' => 0 <= o').
Proof. intros. unfold new_descriptor_network_name. osafe_go desc_hint2. Qed.

Lemma osafe_new_descriptor_parental_rating e L o : 0 <= o ->
  osafe (new_descriptor_parental_rating e) L o (fun _ o' => 0 <= o').
Proof. intros. unfold new_descriptor_parental_rating. osafe_go desc_hint1. Qed.

Lemma osafe_new_descriptor_private_data_indicator L o : 0 <= o ->
  osafe new_descriptor_private_data_indicator L o (fun _ o' => 0 <= o').
Proof. intros. unfold new_descriptor_private_data_indicator. osafe_go desc_hint1. Qed.

Lemma osafe_new_descriptor_private_data_specifier L o : 0 <= o ->
  osafe new_descriptor_private_data_specifier L o (fun _ o' => 0 <= o').
Proof. intros. unfold new_descriptor_private_data_specifier. osafe_go desc_hint1. Qed.

Lemma osafe_new_descriptor_registration e L o : 0 <= o -> osafe (new_descriptor_registration e) L o (fun _ o' => 0 <= o').
Proof. intros. unfold new_descriptor_registration. osafe_go desc_hint1. Qed.

Lemma osafe_new_descriptor_service L o : 0 <= o -> osafe new_descriptor_service L o (fun _ o' => 0 <= o').
Proof. intros. unfold new_descriptor_service. osafe_go desc_hint1. Qed.

Lemma osafe_new_descriptor_short_event L o : 0 <= o -> osafe new_descriptor_short_event L o (fun _ o' => 0 <= o').
Proof. intros. unfold new_descriptor_short_event. osafe_go desc_hint1. Qed.

Lemma osafe_new_descriptor_stream_identifier L o : 0 <= o ->
  osafe new_descriptor_stream_identifier L o (fun _ o' => 0 <= o').
Proof. intros. unfold new_descriptor_stream_identifier. osafe_go desc_hint1. Qed.

Lemma osafe_new_descriptor_subtitling e L o : 0 <= o -> osafe (new_descriptor_subtitling e) L o (fun _ o' => 0 <= o').
Proof. intros. unfold new_descriptor_subtitling. osafe_go desc_hint1. Qed.

Lemma osafe_new_descriptor_teletext e L o : 0 <= o -> osafe (new_descriptor_teletext e) L o (fun _ o' => 0 <= o').
Proof. intros. unfold new_descriptor_teletext. osafe_go desc_hint1. Qed.

Lemma osafe_new_descriptor_unknown tag len L o : 0 <= o -> 0 <= len ->
  osafe (new_descriptor_unknown tag len) L o (fun _ o' => 0 <= o').
Proof. intros. unfold new_descriptor_unknown. osafe_go desc_hint1. Qed.

Lemma osafe_new_descriptor_vbi_data e L o : 0 <= o -> osafe (new_descriptor_vbi_data e) L o (fun _ o' => 0 <= o').
Proof.
  intros. unfold new_descriptor_vbi_data.
  eapply osafe_bind; [apply osafe_iloop; [exact (osafe_vbi_data_service _)|lia]|].
  cbv beta. intros. apply osafe_iret. lia.
Qed.

(* ---------------- parseDescriptors ---------------- *)

Ltac desc_hint3 :=
  first [ apply osafe_new_descriptor_ac3; lia | apply osafe_new_descriptor_avc_video; lia
        | apply osafe_new_descriptor_component; lia | apply osafe_new_descriptor_content; lia
        | apply osafe_new_descriptor_data_stream_alignment; lia | apply osafe_new_descriptor_enhanced_ac3; lia
        | apply osafe_new_descriptor_extended_event; lia | apply osafe_new_descriptor_extension; lia
        | apply osafe_new_descriptor_iso639; lia | apply osafe_new_descriptor_local_time_offset; lia
        | apply osafe_new_descriptor_maximum_bitrate; lia | apply osafe_new_descriptor_network_name; lia
        | apply osafe_new_descriptor_parental_rating; lia | apply osafe_new_descriptor_private_data_indicator; lia
        | apply osafe_new_descriptor_private_data_specifier; lia | apply osafe_new_descriptor_registration; lia
        | apply osafe_new_descriptor_service; lia | apply osafe_new_descriptor_short_event; lia
        | apply osafe_new_descriptor_stream_identifier; lia | apply osafe_new_descriptor_subtitling; lia
        | apply osafe_new_descriptor_teletext; lia | apply osafe_new_descriptor_unknown; lia
        | apply osafe_new_descriptor_vbi_data; lia ].

(* the tag switch, entered with offsetEnd = offset + descriptor_length and descriptor_length > 0 *)
Lemma osafe_parse_descriptor_body tag len L o : 0 <= o -> 0 < len ->
  osafe (parse_descriptor_body tag len (o + len)) L o (fun _ o' => 0 <= o').
Proof.
  intros. unfold parse_descriptor_body. cbv zeta.
  repeat match goal with |- osafe (if ?c then _ else _) _ _ _ => destruct c end;
    (eapply osafe_bind; [ first [ apply osafe_next_bytes; lia | desc_hint3 ]
                        | cbv beta; intros; apply osafe_iret; lia ]).
Qed.

Ltac desc_hint4 := apply osafe_parse_descriptor_body; osafe_facts; lia.

(* one descriptor: two header bytes, the body when length > 0, Seek(offsetDescriptorEnd) *)
Lemma osafe_parse_descriptor L o : 0 <= o ->
  osafe (parse_descriptor_with parse_descriptor_body) L o (fun _ o' => o < o').
Proof. intros. unfold parse_descriptor_with. osafe_go desc_hint4. Qed.

(* descriptors loop: the 12-bit length, then descriptors until offsetEnd *)
Theorem osafe_parse_descriptors L o : 0 <= o ->
  osafe parse_descriptors L o (fun _ o' => o + 2 <= o' /\ o + 2 <= L).
Proof.
  intros. unfold parse_descriptors, parse_descriptors_with.
  eapply osafe_bind; [apply osafe_next_bytes_nocopy; lia|]. cbv beta. intros bs o' (Hb & Hl & -> & HL).
  destruct (bitsf bs 4 12 >? 0); [|apply osafe_iret; lia].
  eapply osafe_bind; [apply osafe_ioffset|]. cbv beta. intros off o' [-> ->].
  eapply osafe_weaken; [apply osafe_iloop; [exact (osafe_parse_descriptor _)|lia]|]. cbv beta. intros; lia.
Qed.

Theorem safe_parse_descriptors : safe parse_descriptors any.
Proof.
  apply safe_of_osafe. intros L o Ho. eapply osafe_weaken; [apply osafe_parse_descriptors; exact Ho|].
  cbv beta. unfold any. intros; split; [exact I|lia].
Qed.

(* parseDescriptors on any byte string (the hook astits.VerifParseDescriptors): no panic, only the generic error *)
Theorem parse_descriptors_no_panic bs : bytes_ok bs ->
  match run_iter parse_descriptors bs with Panic => False | Err c => ok_code c | Ok _ => True end.
Proof. intros Hb. eapply osafe_run; [exact Hb|apply osafe_parse_descriptors; lia]. Qed.
