(* C15, supplement: two enumerations that extend theorems of Props/C15.v beyond what the property text
   needs.  This file is compiled by coqc with the rest of the development (setup.sh, make) but is
   deliberately not a dependency of Props/C15.v: coqchk (thorough tier) re-evaluates vm_compute casts
   without the VM, about 25 times slower, and these two would add some twenty minutes.

   1. The float64 date computation of parseDVBTime equals the integer model also on the MJD words below
      the property's range, 0..15078 (Props/C15.v: 15079..65535), hence on all 65536 words.
   2. The float64 expressions uint8(d.Hours()), uint8(int(d.Minutes()) % 60), uint8(int(d.Seconds()) % 60)
      of the duration writers equal their integer reading for every whole-second duration below 100 h
      (Props/C15.v: below 24 h, what writeDVBTime uses). *)
From Coq Require Import ZArith Lia.
Require Import Model.DvbDate Spec.DvbSpec Proofs.DvbDateProofs.
Open Scope Z_scope.

Lemma decode_float_sweep_below : decode_float_sweep_on 0 (mjd_lo - 1) = true.
Proof. vm_cast_no_check (eq_refl true). Qed.

Theorem C15_float_model_all_words : forall mjd, 0 <= mjd <= 65535 ->
  DvbFloat.mjd_to_ymd_float mjd = dvb_ymd mjd /\ DvbFloat.dvb_date_unix_float mjd = dvb_date_unix mjd.
Proof.
  intros mjd H.
  assert (E : DvbFloat.mjd_to_ymd_float mjd = dvb_ymd mjd).
  { destruct (Z_lt_le_dec mjd mjd_lo) as [Hlt|Hge].
    - apply (decode_float_sweep_spec _ _ decode_float_sweep_below mjd). lia.
    - apply decode_float_int. unfold mjd_hi. lia. }
  split; [exact E|]. unfold DvbFloat.dvb_date_unix_float, dvb_date_unix. rewrite E. reflexivity.
Qed.
Print Assumptions C15_float_model_all_words.

Lemma dur_float_hours_sweep_100h : split_sweep ns_hour 3599 99 = true.
Proof. vm_cast_no_check (eq_refl true). Qed.
Lemma dur_float_minutes_sweep_100h : split_sweep ns_minute 59 5999 = true.
Proof. vm_cast_no_check (eq_refl true). Qed.
Lemma dur_float_seconds_sweep_100h : split_sweep ns_second 0 359999 = true.
Proof. vm_cast_no_check (eq_refl true). Qed.

Theorem C15_durations_float_100h : forall sec, 0 <= sec <= 359999 ->
  DvbFloat.dur_hours_float (sec * ns_second) = dur_hours (sec * ns_second) /\
  DvbFloat.dur_minutes_float (sec * ns_second) = dur_minutes (sec * ns_second) /\
  DvbFloat.dur_seconds_float (sec * ns_second) = dur_seconds (sec * ns_second).
Proof.
  intros sec H.
  apply (dur_float_parts_from 99 ltac:(lia) dur_float_hours_sweep_100h dur_float_minutes_sweep_100h dur_float_seconds_sweep_100h).
  lia.
Qed.
Print Assumptions C15_durations_float_100h.
