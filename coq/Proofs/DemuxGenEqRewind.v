(* Demuxer.Rewind as regenerated from the current /repo/demuxer.go (Gen/DemuxGen.v, Section Demuxer) IS the
   hand-written rewind of Model/Demux.v: the data buffer is emptied, the packet buffer dropped, the pool replaced by
   what newPacketPool returns (a fresh, empty one: new_pool_m), the program map kept, the reader rewound by
   rewind(dmx.r) (rewind_m: rewind_reader of Model/Reader.v, itself tied to the source in Proofs/DemuxGenEqDetect.v),
   whose offset is returned.  A Rewind that no longer recreates the pool, resets the data buffer or the packet buffer,
   or that touches the program map, changes the generated definition (or its type: a new callee is a new argument) and
   this proof stops checking. *)
From Coq Require Import ZArith List Lia Bool.
Require Import Base.Iter Gen.Consts Gen.Types Gen.Preds Gen.DemuxGen
  Model.Packet Model.Pool Model.Reader Model.Demux Proofs.DemuxGenEq.
Import ListNotations.
Open Scope Z_scope.

Definition rewind_is_generated_subject (s : dstate) (pb : option gpb) (prs : option go_parser) (sk : option go_skipper) :=
  Demuxer_Rewind mworld unit unit gpb pool unit unit new_pool_m rewind_m
    tt (d_buffer s) tt (d_opt_size s) prs sk pb (d_pool s) tt tt (world_of s).

Theorem rewind_is_generated s pb prs sk :
  rewind_is_generated_subject s pb prs sk =
  Done (d_buffer (snd (rewind s)), @None gpb, d_pool (snd (rewind s)), fst (rewind s), @None gerr,
        world_of (snd (rewind s))) /\
  d_pb (snd (rewind s)) = None /\ d_opt_size (snd (rewind s)) = d_opt_size s.
Proof.
  unfold rewind_is_generated_subject, Demuxer_Rewind, new_pool_m, rewind_m, Demux.rewind, world_of, mw_set_reader.
  cbn [obind mw_reader mw_pm mw_groups mw_consulted].
  destruct (rewind_reader (d_reader s)) as [n r']. cbn [obind is_some fst snd d_buffer d_pb d_pool d_pm d_reader d_groups d_consulted d_opt_size].
  repeat split.
Qed.
