(* C15, supplement: the float64 expressions uint8(d.Hours()), uint8(int(d.Minutes()) % 60),
   uint8(int(d.Seconds()) % 60) of writeDVBDurationSeconds / writeDVBDurationMinutes equal their integer
   reading (Model/DvbDate.v: dur_hours, dur_minutes, dur_seconds) for EVERY whole-second duration below
   100 h (3 x 360000 evaluations).  Props/C15.v states this for the 86400 seconds of a day only; this file
   is compiled by coqc with the rest of the development (setup.sh, make) but is deliberately not a
   dependency of Props/C15.v: coqchk re-evaluates vm_compute casts without the VM, about 25 times slower. *)
From Coq Require Import ZArith Lia.
Require Import Model.DvbDate Proofs.DvbDateProofs.
Open Scope Z_scope.

Lemma dur_float_hours_sweep_100h : split_sweep ns_hour 3599 99 = true.
Proof. vm_cast_no_check (eq_refl true). Qed.
Lemma dur_float_minutes_sweep_100h : split_sweep ns_minute 59 5999 = true.
Proof. vm_cast_no_check (eq_refl true). Qed.
Lemma dur_float_seconds_sweep_100h : split_sweep ns_second 0 359999 = true.
Proof. vm_cast_no_check (eq_refl true). Qed.

Theorem C15_durations_float_100h : forall sec, 0 <= sec <= 359999 ->
  DvbFloat.dur_hours_float (sec * ns_second) = dur_hours (sec * ns_second) /\
  DvbFloat.dur_minutes_float (sec * ns_second) = dur_minutes (sec * ns_second) /\
  DvbFloat.dur_seconds_float (sec * ns_second) = dur_seconds (sec * ns_second).
Proof.
  intros sec H.
  apply (dur_float_parts_from 99 ltac:(lia) dur_float_hours_sweep_100h dur_float_minutes_sweep_100h dur_float_seconds_sweep_100h).
  lia.
Qed.
Print Assumptions C15_durations_float_100h.
