From Coq Require Import ZArith List Lia Bool ZifyBool.
Require Import Base.Bits Base.Iter Base.Wr Gen.Consts Gen.Types Gen.Preds Model.Packet Model.Desc Model.Dvb Model.Psi.
Import ListNotations.
Open Scope Z_scope.
Open Scope iter_scope.

(* ---------- buffer preservation ---------- *)
Definition keeps {A} (m : IM A) : Prop := forall i a i', m i = Ok (a, i') -> ibs i' = ibs i.

Lemma keeps_ret {A} (a : A) : keeps (iret a).
Proof. intros i x i' H. inversion H; reflexivity. Qed.
Lemma keeps_err {A} c : keeps (@ierr A c).
Proof. intros i x i' H. discriminate. Qed.
Lemma keeps_bind {A B} (m : IM A) (f : A -> IM B) : keeps m -> (forall a, keeps (f a)) -> keeps (ibind m f).
Proof.
  intros Hm Hf i b i' H. unfold ibind in H. destruct (m i) as [[a i1]| |] eqn:E; try discriminate.
  rewrite (Hf a _ _ _ H). eapply Hm; eauto.
Qed.
Lemma keeps_lift {A} (r : res A) : keeps (ilift r).
Proof. intros i a i' H. unfold ilift, res_map in H. destruct r; inversion H; reflexivity. Qed.
Lemma keeps_next_byte : keeps next_byte.
Proof. intros i a i' H. apply next_byte_ok in H. tauto. Qed.
Lemma keeps_next_bytes n : keeps (next_bytes n).
Proof. intros i a i' H. apply next_bytes_ok in H. tauto. Qed.
Lemma keeps_next_bytes_nocopy n : keeps (next_bytes_nocopy n).
Proof. apply keeps_next_bytes. Qed.
Lemma keeps_seek n : keeps (iseek n).
Proof. intros i a i' H. inversion H; reflexivity. Qed.
Lemma keeps_skip n : keeps (iskip n).
Proof. intros i a i' H. inversion H; reflexivity. Qed.
Lemma keeps_offset : keeps ioffset.
Proof. intros i a i' H. inversion H; reflexivity. Qed.
Lemma keeps_length : keeps ilength.
Proof. intros i a i' H. inversion H; reflexivity. Qed.
Lemma keeps_has_bytes_left : keeps has_bytes_left.
Proof. intros i a i' H. inversion H; reflexivity. Qed.
Lemma keeps_if {A} (c : bool) (m1 m2 : IM A) : keeps m1 -> keeps m2 -> keeps (if c then m1 else m2).
Proof. destruct c; auto. Qed.

Ltac keeps_step :=
  first
    [ apply keeps_ret | apply keeps_err | apply keeps_lift | apply keeps_next_byte | apply keeps_next_bytes_nocopy
    | apply keeps_next_bytes | apply keeps_seek | apply keeps_skip | apply keeps_offset | apply keeps_length
    | apply keeps_has_bytes_left | assumption
    | apply keeps_bind; [| intros ]
    | apply keeps_if
    | match goal with |- keeps (match ?x with _ => _ end) => destruct x end
    | match goal with |- keeps (let '(_, _) := ?x in _) => destruct x end ].
Ltac keeps_tac := repeat keeps_step.

Lemma keeps_loop_until {A} (item : IM A) : keeps item -> forall fuel e, keeps (loop_until fuel e item).
Proof.
  intros Hi. induction fuel as [|k IH]; intros e; cbn [loop_until]; keeps_tac. apply IH.
Qed.

Ltac keeps_all := repeat first [ apply keeps_loop_until | keeps_step ].

Section Keeps.
  Hypothesis keeps_descriptors : keeps parse_descriptors.
  Hypothesis keeps_dvb_time : keeps parse_dvb_time.
  Hypothesis keeps_dvb_duration : keeps parse_dvb_duration_seconds.

  Lemma keeps_syntax h off : keeps (parse_psi_section_syntax h off).
  Proof. unfold parse_psi_section_syntax. keeps_all. Qed.
End Keeps.

(* ---------- the CRC gate ---------- *)

Lemma header_ok i h offs i' : parse_psi_section_header i = Ok ((h, offs), i') ->
  ibs i' = ibs i /\ po_start offs = ioff i /\ 0 <= ioff i /\
  PSISectionHeader_TableID h = nth (Z.to_nat (ioff i)) (ibs i) 0 /\
  (shouldStopPSIParsing (PSISectionHeader_TableID h) = false ->
     po_end offs = ioff i + 3 + PSISectionHeader_SectionLength h /\
     po_sections_end offs = (if PSITableID_hasCRC32 (PSISectionHeader_TableID h) then po_end offs - 4 else po_end offs)).
Proof.
  unfold parse_psi_section_header, ibind, ioffset. 
  destruct (next_byte i) as [[b i1]| |] eqn:E1; try discriminate.
  apply next_byte_ok in E1. destruct E1 as (R1 & B1 & O1 & V1).
  destruct (shouldStopPSIParsing b) eqn:Es.
  - unfold iret. intros H; inversion H; subst; cbn. repeat split; try lia; try congruence.
  - destruct (next_bytes_nocopy 2 i1) as [[bs i2]| |] eqn:E2; try discriminate.
    apply next_bytes_ok in E2. destruct E2 as (_ & _ & _ & B2 & O2 & V2).
    unfold iret. intros H; inversion H; subst; cbn. repeat split; try lia; try congruence.
Qed.

Lemma check_crc32_ok offs i c i' : check_crc32 offs i = Ok (c, i') ->
  let a := po_start offs in let e := po_sections_end offs in
  ibs i' = ibs i /\ 0 <= a /\ a <= e /\ e + 4 <= ilen i /\
  c = be32 (slice (ibs i) e (e + 4)) /\ computeCRC32 (slice (ibs i) a e) = c.
Proof.
  unfold check_crc32, parse_crc32, ibind, iseek.
  destruct (next_bytes_nocopy 4 _) as [[cb i1]| |] eqn:E1; try discriminate.
  apply next_bytes_ok in E1. cbn [ibs ioff] in E1. destruct E1 as (_ & P1 & L1 & B1 & O1 & V1).
  unfold iret. rewrite B1.
  destruct (next_bytes_nocopy _ _) as [[db i2]| |] eqn:E2; try discriminate.
  apply next_bytes_ok in E2. cbn [ibs ioff] in E2. destruct E2 as (N2 & P2 & L2 & B2 & O2 & V2).
  destruct (computeCRC32 db =? be32 cb) eqn:Ec; [|discriminate].
  intros H; inversion H; subst. cbn zeta. unfold ilen in *. cbn [ibs] in *.
  apply Z.eqb_eq in Ec.
  replace (po_start offs + (po_sections_end offs - po_start offs)) with (po_sections_end offs) in * by lia.
  repeat split; try lia; try congruence.
Qed.

Section Gate.
  Hypothesis keeps_descriptors : keeps parse_descriptors.
  Hypothesis keeps_dvb_time : keeps parse_dvb_time.
  Hypothesis keeps_dvb_duration : keeps parse_dvb_duration_seconds.

  Lemma keeps_check_crc32 offs : keeps (check_crc32 offs).
  Proof. intros i c i' H. apply check_crc32_ok in H. tauto. Qed.

  Lemma keeps_header : keeps parse_psi_section_header.
  Proof. intros i [h offs] i' H. apply header_ok in H. tauto. Qed.

  Lemma keeps_section : keeps parse_psi_section.
  Proof.
    unfold parse_psi_section. apply keeps_bind; [apply keeps_header|]. intros [h offs].
    keeps_all; first [apply keeps_syntax; assumption | apply keeps_check_crc32].
  Qed.

  (* a section of a table id with CRC_32 that comes out of parsePSISection with a syntax part has passed
     the comparison of the recomputed checksum with the CRC_32 field *)
  Lemma gate_section i s i' : parse_psi_section i = Ok ((s, false), i') ->
    forall h, PSISection_Header s = Some h ->
    PSITableID_hasCRC32 (PSISectionHeader_TableID h) = true -> PSISection_Syntax s <> None ->
    let a := ioff i in let e := a + 3 + PSISectionHeader_SectionLength h - 4 in
    0 <= a /\ a <= e /\ e + 4 <= ilen i /\ nth (Z.to_nat a) (ibs i) 0 = PSISectionHeader_TableID h /\
    computeCRC32 (slice (ibs i) a e) = be32 (slice (ibs i) e (e + 4)) /\
    PSISection_CRC32 s = be32 (slice (ibs i) e (e + 4)).
  Proof.
    unfold parse_psi_section, ibind.
    destruct (parse_psi_section_header i) as [[[h0 offs] i1]| |] eqn:Eh; try discriminate.
    apply header_ok in Eh. destruct Eh as (B1 & S1 & P1 & T1 & Hoff).
    destruct (shouldStopPSIParsing (PSISectionHeader_TableID h0)) eqn:Es.
    { unfold iret. intros H; inversion H. }
    destruct (Hoff eq_refl) as (Oe & Ose). clear Hoff.
    destruct (PSISectionHeader_SectionLength h0 >? 0) eqn:El.
    2:{ unfold iret, iseek. intros H; inversion H; subst. cbn. intros h Hh _ Hs. congruence. }
    destruct (parse_psi_section_syntax h0 (po_sections_end offs) i1) as [[syn i2]| |] eqn:Esyn; try discriminate.
    pose proof (keeps_syntax keeps_descriptors keeps_dvb_time keeps_dvb_duration _ _ _ _ _ Esyn) as B2.
    destruct (PSITableID_hasCRC32 (PSISectionHeader_TableID h0)) eqn:Ecrc.
    2:{ unfold iret, iseek. intros H; inversion H; subst. cbn. intros h Hh Hc _. inversion Hh; subst. congruence. }
    destruct (check_crc32 offs i2) as [[c i3]| |] eqn:Ec; try discriminate.
    apply check_crc32_ok in Ec. cbn zeta in Ec. destruct Ec as (B3 & A3 & AE & EL & Cv & Cc).
    unfold iret, iseek. intros H; inversion H; subst. cbn. intros h Hh _ _. inversion Hh; subst h.
    unfold ilen in *. rewrite B2, B1 in *. rewrite S1, Ose, Oe in *.
    repeat split; try lia; try congruence.
  Qed.

  (* what the gate guarantees about a section, relative to the buffer it was parsed from *)
  Definition gated (bs : list Z) (s : PSISection) : Prop :=
    forall h, PSISection_Header s = Some h ->
    PSITableID_hasCRC32 (PSISectionHeader_TableID h) = true -> PSISection_Syntax s <> None ->
    exists a, let e := a + 3 + PSISectionHeader_SectionLength h - 4 in
      0 <= a /\ a <= e /\ e + 4 <= Z.of_nat (length bs) /\ nth (Z.to_nat a) bs 0 = PSISectionHeader_TableID h /\
      computeCRC32 (slice bs a e) = be32 (slice bs e (e + 4)) /\
      PSISection_CRC32 s = be32 (slice bs e (e + 4)).

  Lemma stop_section_ungated i s i' : parse_psi_section i = Ok ((s, true), i') -> PSISection_Syntax s = None.
  Proof.
    unfold parse_psi_section, ibind.
    destruct (parse_psi_section_header i) as [[[h0 offs] i1]| |]; try discriminate.
    destruct (shouldStopPSIParsing _).
    - unfold iret. intros H; inversion H; reflexivity.
    - destruct (if PSISectionHeader_SectionLength h0 >? 0 then _ else _) as [[[c syn] i2]| |]; try discriminate.
      all: try (unfold iret, iseek; intros H; inversion H).
  Qed.

  Lemma gate_sections fuel : forall i ss i', psi_sections fuel i = Ok (ss, i') ->
    ibs i' = ibs i /\ Forall (gated (ibs i)) ss.
  Proof.
    induction fuel as [|k IH]; intros i ss i'; cbn [psi_sections]; [discriminate|].
    unfold ibind, has_bytes_left.
    destruct (ioff i <? ilen i).
    2:{ unfold iret. intros H; inversion H; subst. split; [reflexivity|constructor]. }
    destruct (parse_psi_section i) as [[[s stop] i1]| |] eqn:Es; try discriminate.
    pose proof (keeps_section _ _ _ Es) as B1.
    destruct stop.
    - unfold iret. intros H; inversion H; subst. split; [exact B1|]. constructor; [|constructor].
      intros h _ _ Hs. apply stop_section_ungated in Es. congruence.
    - destruct (psi_sections k i1) as [[r i2]| |] eqn:Er; try discriminate.
      unfold iret. intros H; inversion H; subst. destruct (IH _ _ _ Er) as [B2 F2].
      split; [congruence|]. constructor.
      + intros h Hh Hc Hs. exists (ioff i). exact (gate_section _ _ _ Es h Hh Hc Hs).
      + rewrite B1 in F2. exact F2.
  Qed.

  Theorem gate_data bs d : parse_psi_data_bytes bs = Ok d -> Forall (gated bs) (PSIData_Sections d).
  Proof.
    unfold parse_psi_data_bytes, run_iter, parse_psi_data, ibind, res_map.
    destruct (next_byte (new_iter bs)) as [[b i1]| |] eqn:E1; try discriminate.
    apply next_byte_ok in E1. destruct E1 as (_ & B1 & _).
    unfold iskip, loop_fuel, ibind, ilength, iret.
    destruct (psi_sections _ _) as [[ss i2]| |] eqn:E2; try discriminate.
    apply gate_sections in E2. cbn [ibs] in E2. rewrite B1 in E2. cbn [ibs new_iter] in E2.
    intros H; inversion H; subst. cbn. tauto.
  Qed.
End Gate.

(* ---------- what toData delivers comes from gated sections ---------- *)

Lemma decoded_has_crc tid :
  (is_nit_id tid || (tid =? C_PSITableIDPAT) || (tid =? C_PSITableIDPMT) || is_sdt_id tid
   || (tid =? C_PSITableIDTOT) || is_eit_id tid) = true ->
  PSITableID_hasCRC32 tid = true.
Proof.
  unfold is_nit_id, is_sdt_id, is_eit_id, PSITableID_hasCRC32,
    C_PSITableIDPAT, C_PSITableIDPMT, C_PSITableIDTOT, C_PSITableIDNITVariant1, C_PSITableIDNITVariant2,
    C_PSITableIDSDTVariant1, C_PSITableIDSDTVariant2, C_PSITableIDEITStart, C_PSITableIDEITEnd.
  lia.
Qed.

Lemma section_to_data_origin s fp pid dd : In dd (section_to_data s fp pid) ->
  exists h, PSISection_Header s = Some h /\ PSISection_Syntax s <> None /\
            PSITableID_hasCRC32 (PSISectionHeader_TableID h) = true.
Proof.
  unfold section_to_data. destruct (PSISection_Syntax s) as [syn|] eqn:Es; [|intros []].
  destruct (PSISectionSyntax_Data syn) as [d|]; [|intros []].
  destruct (PSISection_Header s) as [h|]; [|intros []].
  intros Hin. exists h. split; [reflexivity|]. split; [discriminate|].
  apply decoded_has_crc.
  destruct (is_nit_id _), (_ =? C_PSITableIDPAT), (_ =? C_PSITableIDPMT), (is_sdt_id _), (_ =? C_PSITableIDTOT),
    (is_eit_id _); try reflexivity; destruct Hin.
Qed.

Lemma psi_to_data_origin d fp pid dd : In dd (psi_to_data d fp pid) ->
  exists s h, In s (PSIData_Sections d) /\ In dd (section_to_data s fp pid) /\
              PSISection_Header s = Some h /\ PSISection_Syntax s <> None /\
              PSITableID_hasCRC32 (PSISectionHeader_TableID h) = true.
Proof.
  unfold psi_to_data. rewrite in_flat_map. intros (s & Hs & Hd).
  destruct (section_to_data_origin _ _ _ _ Hd) as (h & H1 & H2 & H3). exists s, h. auto.
Qed.

Lemma Forall_slice {P : Z -> Prop} bs a e : Forall P bs -> Forall P (slice bs a e).
Proof.
  intros H. unfold slice.
  assert (Hs : Forall P (skipn (Z.to_nat a) bs)).
  { rewrite <- (firstn_skipn (Z.to_nat a) bs) in H. apply Forall_app in H. tauto. }
  rewrite <- (firstn_skipn (Z.to_nat (e - a)) (skipn (Z.to_nat a) bs)) in Hs. apply Forall_app in Hs. tauto.
Qed.

(* ---------- writers: items, bits, bytes ---------- *)
Require Import Spec.CrcSpec Spec.PsiSpec Proofs.CrcProofs.

Lemma bytes_of_items_app a b (n : nat) : items_bytes_ok a -> items_bytes_ok b ->
  length (items_bits a) = (8 * n)%nat ->
  bytes_of_items (a ++ b) = bytes_of_items a ++ bytes_of_items b.
Proof.
  intros Ha Hb Hl. rewrite !chunks_concat by (try apply items_bytes_ok_app; assumption).
  rewrite items_bits_app. apply (bytes_of_bits_app n). exact Hl.
Qed.

Lemma bytes_of_items_length a (n : nat) : items_bytes_ok a -> length (items_bits a) = (8 * n)%nat ->
  length (bytes_of_items a) = n.
Proof. intros Ha Hl. rewrite chunks_concat by exact Ha. apply bytes_of_bits_length. exact Hl. Qed.

(* big-endian rendering of a 32-bit value by the BitsWriter = be32 of the CRC spec *)
Lemma bytes_of_bits_32 v : 0 <= v < 2 ^ 32 -> bytes_of_bits (bits_of 32 v) = CrcSpec.be32 v.
Proof.
  intros Hv.
  assert (E : bits_of 32 v = bits_of 8 (v / 2 ^ 24) ++ bits_of 8 (v / 2 ^ 16) ++ bits_of 8 (v / 2 ^ 8) ++ bits_of 8 v).
  { cbn [bits_of app]. rewrite !Z.div_pow2_bits by lia. reflexivity. }
  rewrite E.
  rewrite (bytes_of_bits_app 1) by reflexivity. rewrite (bytes_of_bits_app 1 (bits_of 8 (v / 2 ^ 16))) by reflexivity.
  rewrite (bytes_of_bits_app 1 (bits_of 8 (v / 2 ^ 8))) by reflexivity.
  rewrite !bytes_of_bits_bits_of_8. reflexivity.
Qed.

Lemma updateCRC32_range c bs : 0 <= c < 2 ^ 32 -> Forall Bits.byte_ok bs -> 0 <= updateCRC32 c bs < 2 ^ 32.
Proof.
  intros Hc Hb. rewrite update_eq by assumption. apply crc_update_range. exact Hc.
Qed.

Lemma items_bytes_ok_wu32 v : items_bytes_ok [wu32 v].
Proof. repeat constructor. Qed.

(* a byte-aligned item list followed by the 32-bit checksum of its bytes: the bytes are the list's bytes
   followed by the big-endian CRC-32/MPEG-2 of those bytes *)
Lemma with_crc_bytes pre (n : nat) : items_bytes_ok pre -> length (items_bits pre) = (8 * n)%nat ->
  bytes_of_items (pre ++ [wu32 (updateCRC32 C_crc32Polynomial (bytes_of_items pre))]) =
  bytes_of_items pre ++ CrcSpec.be32 (crc32_mpeg2 (bytes_of_items pre)).
Proof.
  intros Hok Hl. rewrite (bytes_of_items_app pre _ n Hok (items_bytes_ok_wu32 _) Hl). f_equal.
  assert (Hb : Forall Bits.byte_ok (bytes_of_items pre)).
  { rewrite chunks_concat by exact Hok. apply bytes_of_bits_ok. }
  rewrite (chunks_concat _ (items_bytes_ok_wu32 _)). cbn [items_bits flat_map item_bits wu32 app]. rewrite app_nil_r.
  rewrite bytes_of_bits_32.
  - f_equal. change (updateCRC32 C_crc32Polynomial (bytes_of_items pre)) with (computeCRC32 (bytes_of_items pre)).
    apply compute_eq. exact Hb.
  - apply updateCRC32_range; [vm_compute; split; [discriminate|reflexivity]|exact Hb].
Qed.

(* ---------- writePSIData on a PAT = the reference encoding ---------- *)

Definition mk_section (c : Z) (h : PSISectionHeader) (sh : PSISectionSyntaxHeader) (d : PSISectionSyntaxData) : PSISection :=
  {| PSISection_CRC32 := c; PSISection_Header := Some h;
     PSISection_Syntax := Some {| PSISectionSyntax_Data := Some d; PSISectionSyntax_Header := Some sh |} |}.

Definition pat_data_of (d : PSISectionSyntaxData) (pat : PATData) : Prop := PSISectionSyntaxData_PAT d = Some pat.

Definition section_head (h : PSISectionHeader) (sectionLength : Z) : list witem :=
  [wu8 (PSISectionHeader_TableID h); WBool (PSISectionHeader_SectionSyntaxIndicator h);
   WBool (PSISectionHeader_PrivateBit h); WBits 2 255; WBits 12 sectionLength].

Lemma enc_psi_section_pat c h sh d pat : PSISectionHeader_TableID h = 0 -> PSISectionHeader_SectionLength h > 0 ->
  PSISectionSyntaxData_PAT d = Some pat ->
  let L := ((5 + calcPATSectionLength pat) mod 65536 + 4) mod 65536 in
  let pre := section_head h L ++ enc_psi_section_syntax_header sh ++ enc_pat_section pat in
  enc_psi_section (mk_section c h sh d) =
  Ok (pre ++ [wu32 (updateCRC32 C_crc32Polynomial (bytes_of_items pre))]).
Proof.
  intros Ht Hl Hp. unfold enc_psi_section, calc_psi_section_length_res, enc_psi_section_syntax,
    enc_psi_section_syntax_data, mk_section, section_head.
  cbn [PSISection_Header PSISection_Syntax PSISectionSyntax_Data PSISectionSyntax_Header need res_bind res_map].
  rewrite Ht, Hp. change (0 =? C_PSITableIDPAT) with true. change (PSITableID_hasPSISyntaxHeader 0) with true.
  change (PSITableID_hasCRC32 0) with true.
  cbn [negb andb need res_bind res_map].
  destruct (PSISectionHeader_SectionLength h >? 0) eqn:E; [|lia].
  cbn [res_bind]. rewrite <- !app_assoc. reflexivity.
Qed.

Lemma bits_of_fields_app a b : bits_of_fields (a ++ b) = bits_of_fields a ++ bits_of_fields b.
Proof. unfold bits_of_fields. apply flat_map_app. Qed.

Lemma bits_of_fields_length fs : length (bits_of_fields fs) = fields_width fs.
Proof.
  induction fs as [|[w v] fs IH]; [reflexivity|]. unfold bits_of_fields in *. cbn [flat_map fields_width fold_right fst].
  rewrite app_length, IH. unfold field_bits. cbn [fst snd]. rewrite bits_of_length. reflexivity.
Qed.

Lemma bytes_of_fields_app (n : nat) a b : fields_width a = (8 * n)%nat ->
  bytes_of_fields (a ++ b) = bytes_of_fields a ++ bytes_of_fields b.
Proof.
  intros H. unfold bytes_of_fields. rewrite bits_of_fields_app. apply (bytes_of_bits_app n).
  rewrite bits_of_fields_length. exact H.
Qed.

Lemma bytes_of_bits_flat_map {A} (f : A -> list bool) (k : nat) (l : list A) :
  (forall x, length (f x) = (8 * k)%nat) ->
  bytes_of_bits (flat_map f l) = flat_map (fun x => bytes_of_bits (f x)) l /\
  length (flat_map f l) = (8 * (k * length l))%nat.
Proof.
  intros Hf. induction l as [|x l [IH1 IH2]]; [split; [reflexivity|cbn [flat_map length]; lia]|]. cbn [flat_map length]. split.
  - rewrite (bytes_of_bits_app k) by apply Hf. rewrite IH1. reflexivity.
  - rewrite app_length, Hf, IH2. lia.
Qed.

Lemma head_bits h L : items_bits (section_head h L) =
  bits_of_fields (spec_section_header (PSISectionHeader_TableID h) (PSISectionHeader_SectionSyntaxIndicator h)
                    (PSISectionHeader_PrivateBit h) L).
Proof.
  unfold section_head, spec_section_header, items_bits, bits_of_fields, flag, field_bits.
  cbn [flat_map item_bits wu8 fst snd app]. rewrite !bits_of_1_b2z. reflexivity.
Qed.

Lemma syntax_header_bits sh : items_bits (enc_psi_section_syntax_header sh) =
  bits_of_fields (spec_syntax_header (PSISectionSyntaxHeader_TableIDExtension sh) (PSISectionSyntaxHeader_VersionNumber sh)
                    (PSISectionSyntaxHeader_CurrentNextIndicator sh) (PSISectionSyntaxHeader_SectionNumber sh)
                    (PSISectionSyntaxHeader_LastSectionNumber sh)).
Proof.
  unfold enc_psi_section_syntax_header, spec_syntax_header, items_bits, bits_of_fields, flag, field_bits.
  cbn [flat_map item_bits wu8 wu16 fst snd app]. rewrite !bits_of_1_b2z. reflexivity.
Qed.

Definition pat_entries (pat : PATData) : list (Z * Z) :=
  map (fun p => (PATProgram_ProgramNumber p, PATProgram_ProgramMapID p)) (PATData_Programs pat).

Lemma pat_bits pat : items_bits (enc_pat_section pat) =
  flat_map (fun p => bits_of_fields (spec_pat_entry (fst p) (snd p))) (pat_entries pat).
Proof.
  unfold enc_pat_section, pat_entries, items_bits. induction (PATData_Programs pat) as [|p l IH]; [reflexivity|].
  cbn [flat_map map]. rewrite flat_map_app, IH. cbn [fst snd]. f_equal.
Qed.

Lemma pat_items_ok pat : items_bytes_ok (enc_pat_section pat).
Proof.
  unfold enc_pat_section, items_bytes_ok. induction (PATData_Programs pat); cbn [flat_map]; [constructor|].
  apply Forall_app. split; [repeat constructor|assumption].
Qed.

Lemma pat_entries_bytes_length (l : list (Z * Z)) :
  length (flat_map (fun p : Z * Z => bytes_of_fields (spec_pat_entry (fst p) (snd p))) l) = (4 * length l)%nat.
Proof.
  induction l as [|x l IH]; [reflexivity|]. cbn [flat_map length]. rewrite app_length, IH.
  unfold bytes_of_fields. rewrite (bytes_of_bits_length 4) by reflexivity. lia.
Qed.

(* the bytes before the CRC_32 of a written PAT section are the reference prefix *)
Lemma pat_prefix_bytes h sh pat : PSISectionHeader_TableID h = 0 ->
  (length (PATData_Programs pat) <= 253)%nat ->
  let L := ((5 + calcPATSectionLength pat) mod 65536 + 4) mod 65536 in
  let pre := section_head h L ++ enc_psi_section_syntax_header sh ++ enc_pat_section pat in
  items_bytes_ok pre /\
  length (items_bits pre) = (8 * (8 + 4 * length (PATData_Programs pat)))%nat /\
  bytes_of_items pre =
  spec_section_prefix 0 (PSISectionHeader_SectionSyntaxIndicator h) (PSISectionHeader_PrivateBit h)
    (spec_pat_body (PSISectionSyntaxHeader_TableIDExtension sh) (PSISectionSyntaxHeader_VersionNumber sh)
       (PSISectionSyntaxHeader_CurrentNextIndicator sh) (PSISectionSyntaxHeader_SectionNumber sh)
       (PSISectionSyntaxHeader_LastSectionNumber sh) (pat_entries pat)).
Proof.
  intros Ht Hn L pre.
  assert (Hok : items_bytes_ok pre).
  { unfold pre. apply items_bytes_ok_app; [repeat constructor|]. apply items_bytes_ok_app; [repeat constructor|apply pat_items_ok]. }
  destruct (bytes_of_bits_flat_map (fun p : Z * Z => bits_of_fields (spec_pat_entry (fst p) (snd p))) 4 (pat_entries pat))
    as [FM1 FM2]; [intros x; reflexivity|].
  assert (Hlen : length (pat_entries pat) = length (PATData_Programs pat)) by (unfold pat_entries; apply map_length).
  split; [exact Hok|]. split.
  - unfold pre. rewrite !items_bits_app, !app_length, head_bits, syntax_header_bits, pat_bits, FM2, Hlen.
    rewrite !bits_of_fields_length. cbn [fields_width fold_right fst spec_section_header spec_syntax_header flag]. lia.
  - rewrite chunks_concat by exact Hok. unfold pre. rewrite !items_bits_app, head_bits, syntax_header_bits, pat_bits.
    rewrite (bytes_of_bits_app 3) by (rewrite bits_of_fields_length; reflexivity).
    rewrite (bytes_of_bits_app 5) by (rewrite bits_of_fields_length; reflexivity).
    rewrite FM1. unfold spec_section_prefix, spec_pat_body. rewrite Ht.
    assert (EL : L = Z.of_nat (length
       (bytes_of_fields (spec_syntax_header (PSISectionSyntaxHeader_TableIDExtension sh) (PSISectionSyntaxHeader_VersionNumber sh)
          (PSISectionSyntaxHeader_CurrentNextIndicator sh) (PSISectionSyntaxHeader_SectionNumber sh)
          (PSISectionSyntaxHeader_LastSectionNumber sh)) ++
        flat_map (fun p : Z * Z => bytes_of_fields (spec_pat_entry (fst p) (snd p))) (pat_entries pat))) + 4).
    { rewrite app_length. unfold bytes_of_fields at 1.
      rewrite (bytes_of_bits_length 5) by (rewrite bits_of_fields_length; reflexivity).
      rewrite pat_entries_bytes_length, Hlen. unfold L, calcPATSectionLength.
      rewrite (Z.mod_small (4 * _)) by lia. rewrite (Z.mod_small (5 + _)) by lia. rewrite Z.mod_small by lia. lia. }
    rewrite <- EL. reflexivity.
Qed.

Lemma repeat_wu8_bits (k : nat) v : items_bytes_ok (repeat (wu8 v) k) /\
  length (items_bits (repeat (wu8 v) k)) = (8 * k)%nat /\
  bytes_of_items (repeat (wu8 v) k) = repeat (v mod 256) k.
Proof.
  induction k as [|k (IH1 & IH2 & IH3)]; [repeat split; constructor|].
  change (repeat (wu8 v) (S k)) with ([wu8 v] ++ repeat (wu8 v) k).
  assert (H1 : items_bytes_ok [wu8 v]) by repeat constructor.
  split; [apply items_bytes_ok_app; assumption|]. split.
  - rewrite items_bits_app, app_length, IH2. cbn [items_bits flat_map item_bits wu8 app]. rewrite app_nil_r, bits_of_length. lia.
  - rewrite (bytes_of_items_app [wu8 v] _ 1 H1 IH1) by reflexivity. rewrite IH3.
    rewrite (chunks_concat _ H1). cbn [items_bits flat_map item_bits wu8 app]. rewrite app_nil_r, bytes_of_bits_bits_of_8.
    reflexivity.
Qed.

(* writePSIData on one PAT section (any pointer_field 0..255, any header flags, any identifier values,
   up to 253 programs = the 1021-byte limit): byte for byte the reference encoding *)
Theorem write_pat p c h sh d pat : 0 <= p < 256 ->
  PSISectionHeader_TableID h = 0 -> PSISectionHeader_SectionLength h > 0 ->
  PSISectionSyntaxData_PAT d = Some pat -> (length (PATData_Programs pat) <= 253)%nat ->
  write_psi_data {| PSIData_PointerField := p; PSIData_Sections := [mk_section c h sh d] |} =
  Ok (p :: repeat 0 (Z.to_nat p) ++
      spec_pat_section (PSISectionHeader_SectionSyntaxIndicator h) (PSISectionHeader_PrivateBit h)
        (PSISectionSyntaxHeader_TableIDExtension sh) (PSISectionSyntaxHeader_VersionNumber sh)
        (PSISectionSyntaxHeader_CurrentNextIndicator sh) (PSISectionSyntaxHeader_SectionNumber sh)
        (PSISectionSyntaxHeader_LastSectionNumber sh) (pat_entries pat)).
Proof.
  intros Hp Ht Hl Hd Hn. unfold write_psi_data, enc_psi_data. cbn [PSIData_Sections PSIData_PointerField enc_psi_sections].
  rewrite (enc_psi_section_pat c h sh d pat Ht Hl Hd). cbn zeta. cbn [res_bind res_map]. rewrite app_nil_r. f_equal.
  destruct (pat_prefix_bytes h sh pat Ht Hn) as (Hok & Hlen & Hbytes). cbn zeta in Hok, Hlen, Hbytes.
  set (pre := section_head h _ ++ enc_psi_section_syntax_header sh ++ enc_pat_section pat) in *.
  destruct (repeat_wu8_bits (Z.to_nat p) 0) as (Rok & Rlen & Rbytes).
  assert (Cok : items_bytes_ok (pre ++ [wu32 (updateCRC32 C_crc32Polynomial (bytes_of_items pre))])).
  { apply items_bytes_ok_app; [exact Hok|repeat constructor]. }
  rewrite (bytes_of_items_app [wu8 p] _ 1); [| repeat constructor | apply items_bytes_ok_app; assumption | reflexivity].
  unfold repeat_item. rewrite (bytes_of_items_app _ _ (Z.to_nat p) Rok Cok Rlen).
  rewrite Rbytes. rewrite (with_crc_bytes pre _ Hok Hlen). rewrite Hbytes.
  rewrite (chunks_concat [wu8 p]) by repeat constructor. cbn [items_bits flat_map item_bits wu8 app].
  rewrite app_nil_r, bytes_of_bits_bits_of_8. rewrite (Z.mod_small p) by lia. reflexivity.
Qed.

(* C09, muxer side, PAT: the written section ends with the big-endian CRC-32/MPEG-2 of everything before it,
   and its section_length field equals the number of bytes after the field *)
Theorem mux_pat c h sh d pat : PSISectionHeader_TableID h = 0 -> PSISectionHeader_SectionLength h > 0 ->
  PSISectionSyntaxData_PAT d = Some pat -> (length (PATData_Programs pat) <= 253)%nat ->
  exists its pre, enc_psi_section (mk_section c h sh d) = Ok its /\
    bytes_of_items its = pre ++ CrcSpec.be32 (crc32_mpeg2 pre) /\
    spec_crc_ok (bytes_of_items its) /\
    (3 <= length pre)%nat /\ nth 0 pre 0 = 0 /\
    bitsf (firstn 3 pre) 12 12 = Z.of_nat (length (bytes_of_items its)) - 3.
Proof.
  intros Ht Hl Hd Hn. pose proof (enc_psi_section_pat c h sh d pat Ht Hl Hd) as E. cbn zeta in E.
  destruct (pat_prefix_bytes h sh pat Ht Hn) as (Hok & Hlen & Hbytes). cbn zeta in Hok, Hlen, Hbytes.
  set (L := ((5 + calcPATSectionLength pat) mod 65536 + 4) mod 65536) in *.
  set (pre := section_head h L ++ enc_psi_section_syntax_header sh ++ enc_pat_section pat) in *.
  exists (pre ++ [wu32 (updateCRC32 C_crc32Polynomial (bytes_of_items pre))]), (bytes_of_items pre).
  pose proof (with_crc_bytes pre _ Hok Hlen) as W.
  pose proof (bytes_of_items_length pre _ Hok Hlen) as PL.
  split; [exact E|]. split; [exact W|]. split; [eexists; exact W|]. split; [lia|].
  assert (Hsplit : bytes_of_items pre = bytes_of_bits (items_bits (section_head h L)) ++
                   bytes_of_bits (items_bits (enc_psi_section_syntax_header sh ++ enc_pat_section pat))).
  { rewrite chunks_concat by exact Hok. unfold pre. rewrite items_bits_app. apply (bytes_of_bits_app 3). reflexivity. }
  assert (H3 : length (bytes_of_bits (items_bits (section_head h L))) = 3%nat) by (apply bytes_of_bits_length; reflexivity).
  assert (Hbits : bits_of_bytes (bytes_of_bits (items_bits (section_head h L))) = items_bits (section_head h L))
    by (apply (bits_of_bytes_of_bits 3); reflexivity).
  split.
  - rewrite Hsplit. rewrite app_nth1 by lia.
    rewrite head_bits. unfold spec_section_header, bits_of_fields. cbn [flat_map field_bits fst snd]. rewrite Ht.
    reflexivity.
  - rewrite W, app_length, PL. cbn [CrcSpec.be32 length].
    rewrite Hsplit, firstn_app, H3, Nat.sub_diag, firstn_O, app_nil_r, firstn_all2 by lia.
    unfold bitsf. rewrite Hbits. unfold section_head, items_bits. cbn [flat_map item_bits wu8 app].
    rewrite (field_skip 8) by lia. cbn [Nat.sub]. rewrite field_bit_skip, field_bit_skip.
    rewrite (field_skip 2) by lia. cbn [Nat.sub]. rewrite app_nil_r.
    unfold field. cbn [skipn]. rewrite firstn_all2 by (rewrite bits_of_length; lia).
    rewrite Z_of_bits_of.
    + unfold L, calcPATSectionLength.
      rewrite (Z.mod_small (4 * _)) by lia. rewrite (Z.mod_small (5 + _)) by lia. rewrite Z.mod_small by lia. lia.
    + unfold L, calcPATSectionLength.
      rewrite (Z.mod_small (4 * _)) by lia. rewrite (Z.mod_small (5 + _)) by lia. rewrite Z.mod_small by lia.
      change (2 ^ Z.of_nat 12) with 4096. lia.
Qed.

(* ---------- C09, muxer side, PMT: relative to the descriptor length lemma (C14) ---------- *)

Definition pmt_streams_len (l : list PMTElementaryStream) : Z :=
  fold_right (fun es n => 5 + calc_descriptors_length (PMTElementaryStream_ElementaryStreamDescriptors es) + n) 0 l.
Definition pmt_body_len (pmt : PMTData) : Z :=
  4 + calc_descriptors_length (PMTData_ProgramDescriptors pmt) + pmt_streams_len (PMTData_ElementaryStreams pmt).

Lemma res_bind_ok {A B} (r : res A) (f : A -> res B) b : res_bind r f = Ok b -> exists a, r = Ok a /\ f a = Ok b.
Proof. destruct r; cbn; intros H; try discriminate. eauto. Qed.

Section MuxPMT.
  (* the premise is C14's statement "the declared length of a descriptor loop equals the bytes emitted for it":
     for descriptor lists in its domain, whatever writeDescriptorsWithLength emits is whole bytes, 2 + the
     calculated loop length of them *)
  Variable desc_ok : list Descriptor -> Prop.
  Hypothesis desc_len : forall ds its, desc_ok ds -> enc_descriptors_with_length ds = Ok its ->
    items_bytes_ok its /\ 0 <= calc_descriptors_length ds /\
    length (items_bits its) = (8 * Z.to_nat (2 + calc_descriptors_length ds))%nat.

  Lemma enc_pmt_ess_len l : forall its,
    Forall (fun es => desc_ok (PMTElementaryStream_ElementaryStreamDescriptors es)) l ->
    enc_pmt_ess l = Ok its ->
    items_bytes_ok its /\ 0 <= pmt_streams_len l /\ length (items_bits its) = (8 * Z.to_nat (pmt_streams_len l))%nat.
  Proof.
    induction l as [|es l IH]; intros its Hok; cbn [enc_pmt_ess pmt_streams_len fold_right].
    - intros H; inversion H; subst. repeat split; [constructor|lia].
    - inversion Hok as [|? ? Hes Hl]; subst. intros H.
      apply res_bind_ok in H. destruct H as (a & Ha & H). apply res_bind_ok in H. destruct H as (b & Hb & H).
      inversion H; subst. unfold enc_pmt_es in Ha. apply res_bind_ok in Ha. destruct Ha as (ds & Hds & Ha).
      inversion Ha; subst. destruct (desc_len _ _ Hes Hds) as (D1 & D2 & D3). destruct (IH _ Hl Hb) as (I1 & I2 & I3).
      fold (pmt_streams_len l).
      set (x := wu8 (PMTElementaryStream_StreamType es)). set (y := WBits 13 (PMTElementaryStream_ElementaryPID es)).
      change (x :: WBits 3 255 :: y :: ds) with ([x; WBits 3 255; y] ++ ds).
      split; [|split; [lia|]].
      + apply items_bytes_ok_app; [|exact I1]. apply items_bytes_ok_app; [repeat constructor|exact D1].
      + rewrite !items_bits_app, !app_length, D3, I3. unfold x, y. cbn [items_bits flat_map item_bits wu8 app].
        rewrite !app_length, !bits_of_length. cbn [length]. lia.
  Qed.

  Lemma calc_pmt_no_wrap pmt : desc_ok (PMTData_ProgramDescriptors pmt) ->
    Forall (fun es => 0 <= calc_descriptors_length (PMTElementaryStream_ElementaryStreamDescriptors es)) (PMTData_ElementaryStreams pmt) ->
    0 <= calc_descriptors_length (PMTData_ProgramDescriptors pmt) ->
    pmt_body_len pmt < 65536 -> calc_pmt_section_length pmt = pmt_body_len pmt.
  Proof.
    intros _ Hes Hp. unfold calc_pmt_section_length, pmt_body_len.
    generalize (calc_descriptors_length (PMTData_ProgramDescriptors pmt)) Hp. clear Hp.
    induction Hes as [|es l He Hes' IH]; intros p Hp Hb; cbn [fold_left pmt_streams_len fold_right] in *.
    - rewrite Z.mod_small by lia. lia.
    - assert (0 <= pmt_streams_len l).
      { clear -Hes'. induction Hes' as [|? ? ? ? I]; cbn [pmt_streams_len fold_right]; [lia|]. fold (pmt_streams_len l). lia. }
      fold (pmt_streams_len l) in *.
      rewrite (Z.mod_small (4 + p)) by lia.
      replace ((4 + p + 5) mod 65536) with (4 + p + 5) by (symmetry; apply Z.mod_small; lia).
      rewrite (Z.mod_small (4 + p + 5 + _)) by lia.
      specialize (IH (p + 5 + calc_descriptors_length (PMTElementaryStream_ElementaryStreamDescriptors es)) ltac:(lia) ltac:(lia)).
      rewrite (Z.mod_small (4 + _)) in IH by lia.
      replace (4 + p + 5 + calc_descriptors_length (PMTElementaryStream_ElementaryStreamDescriptors es))
        with (4 + (p + 5 + calc_descriptors_length (PMTElementaryStream_ElementaryStreamDescriptors es))) by lia.
      rewrite IH. lia.
  Qed.
End MuxPMT.

(* a section header followed by m whole bytes and the checksum item: CRC_32 and section_length are right
   whenever the length written is m + 4 *)
Lemma framed_section h L rest (m : nat) : items_bytes_ok rest -> length (items_bits rest) = (8 * m)%nat ->
  L = Z.of_nat m + 4 -> L < 4096 ->
  let pre := section_head h L ++ rest in
  let its := pre ++ [wu32 (updateCRC32 C_crc32Polynomial (bytes_of_items pre))] in
  bytes_of_items its = bytes_of_items pre ++ CrcSpec.be32 (crc32_mpeg2 (bytes_of_items pre)) /\
  length (bytes_of_items pre) = (3 + m)%nat /\
  nth 0 (bytes_of_items pre) 0 = PSISectionHeader_TableID h mod 256 /\
  bitsf (firstn 3 (bytes_of_items pre)) 12 12 = Z.of_nat (length (bytes_of_items its)) - 3.
Proof.
  intros Hok Hlen HL HL2 pre its.
  assert (Pok : items_bytes_ok pre) by (apply items_bytes_ok_app; [repeat constructor|exact Hok]).
  assert (Plen : length (items_bits pre) = (8 * (3 + m))%nat).
  { unfold pre. rewrite items_bits_app, app_length, Hlen.
    change (length (items_bits (section_head h L))) with 24%nat. lia. }
  pose proof (with_crc_bytes pre _ Pok Plen) as W. pose proof (bytes_of_items_length pre _ Pok Plen) as PL.
  assert (Hsplit : bytes_of_items pre = bytes_of_bits (items_bits (section_head h L)) ++ bytes_of_bits (items_bits rest)).
  { rewrite chunks_concat by exact Pok. unfold pre. rewrite items_bits_app. apply (bytes_of_bits_app 3). reflexivity. }
  assert (H3 : length (bytes_of_bits (items_bits (section_head h L))) = 3%nat) by (apply bytes_of_bits_length; reflexivity).
  assert (Hbits : bits_of_bytes (bytes_of_bits (items_bits (section_head h L))) = items_bits (section_head h L))
    by (apply (bits_of_bytes_of_bits 3); reflexivity).
  split; [exact W|]. split; [exact PL|]. split.
  - rewrite Hsplit. rewrite app_nth1 by lia. unfold section_head. cbn [items_bits flat_map item_bits wu8 app].
    rewrite (bytes_of_bits_app 1) by apply bits_of_length. rewrite bytes_of_bits_bits_of_8. reflexivity.
  - unfold its. rewrite W, app_length, PL. cbn [CrcSpec.be32 length].
    rewrite Hsplit, firstn_app, H3, Nat.sub_diag, firstn_O, app_nil_r, firstn_all2 by lia.
    unfold bitsf. rewrite Hbits. unfold section_head, items_bits. cbn [flat_map item_bits wu8 app].
    rewrite (field_skip 8) by lia. cbn [Nat.sub]. rewrite field_bit_skip, field_bit_skip.
    rewrite (field_skip 2) by lia. cbn [Nat.sub]. rewrite app_nil_r.
    unfold field. cbn [skipn]. rewrite firstn_all2 by (rewrite bits_of_length; lia).
    rewrite Z_of_bits_of; [lia|]. change (2 ^ Z.of_nat 12) with 4096. lia.
Qed.

Lemma enc_psi_section_pmt c h sh d pmt : PSISectionHeader_TableID h = 2 -> PSISectionHeader_SectionLength h > 0 ->
  PSISectionSyntaxData_PMT d = Some pmt ->
  let L := ((5 + calc_pmt_section_length pmt) mod 65536 + 4) mod 65536 in
  enc_psi_section (mk_section c h sh d) =
  res_bind (enc_pmt_section pmt) (fun body =>
    let pre := section_head h L ++ enc_psi_section_syntax_header sh ++ body in
    Ok (pre ++ [wu32 (updateCRC32 C_crc32Polynomial (bytes_of_items pre))])).
Proof.
  intros Ht Hl Hp. unfold enc_psi_section, calc_psi_section_length_res, enc_psi_section_syntax,
    enc_psi_section_syntax_data, mk_section, section_head.
  cbn [PSISection_Header PSISection_Syntax PSISectionSyntax_Data PSISectionSyntax_Header need res_bind res_map].
  rewrite Ht, Hp. change (2 =? C_PSITableIDPAT) with false. change (2 =? C_PSITableIDPMT) with true.
  change (PSITableID_hasPSISyntaxHeader 2) with true. change (PSITableID_hasCRC32 2) with true.
  cbn [negb andb need res_bind res_map].
  destruct (PSISectionHeader_SectionLength h >? 0) eqn:E; [|lia].
  destruct (enc_pmt_section pmt) as [body| |]; cbn [res_bind]; try reflexivity.
  all: try (rewrite <- !app_assoc; reflexivity).
Qed.

Section MuxPMT2.
  Variable desc_ok : list Descriptor -> Prop.
  Hypothesis desc_len : forall ds its, desc_ok ds -> enc_descriptors_with_length ds = Ok its ->
    items_bytes_ok its /\ 0 <= calc_descriptors_length ds /\
    length (items_bits its) = (8 * Z.to_nat (2 + calc_descriptors_length ds))%nat.
  Hypothesis calc_nonneg : forall ds, 0 <= calc_descriptors_length ds.

  (* C09, muxer side, PMT: whenever writePSISection accepts a PMT whose descriptor loops are in the domain of
     the descriptor length lemma and whose section fits the 12-bit length, the emitted bytes end with the
     CRC-32/MPEG-2 of everything before it and section_length is the number of bytes after the field *)
  Theorem mux_pmt c h sh d pmt its : PSISectionHeader_TableID h = 2 -> PSISectionHeader_SectionLength h > 0 ->
    PSISectionSyntaxData_PMT d = Some pmt ->
    desc_ok (PMTData_ProgramDescriptors pmt) ->
    Forall (fun es => desc_ok (PMTElementaryStream_ElementaryStreamDescriptors es)) (PMTData_ElementaryStreams pmt) ->
    pmt_body_len pmt + 9 <= 4095 ->
    enc_psi_section (mk_section c h sh d) = Ok its ->
    exists pre, bytes_of_items its = pre ++ CrcSpec.be32 (crc32_mpeg2 pre) /\
      spec_crc_ok (bytes_of_items its) /\
      (3 <= length pre)%nat /\ nth 0 pre 0 = 2 /\
      bitsf (firstn 3 pre) 12 12 = Z.of_nat (length (bytes_of_items its)) - 3.
  Proof.
    intros Ht Hl Hd Hpd Hes Hfit. rewrite (enc_psi_section_pmt c h sh d pmt Ht Hl Hd). cbn zeta.
    intros H. apply res_bind_ok in H. destruct H as (body & Hbody & H). inversion H; subst its. clear H.
    unfold enc_pmt_section in Hbody. apply res_bind_ok in Hbody. destruct Hbody as (pds & Hpds & Hbody).
    apply res_bind_ok in Hbody. destruct Hbody as (ess & Hess & Hbody).
    destruct (desc_len _ _ Hpd Hpds) as (D1 & D2 & D3).
    destruct (enc_pmt_ess_len desc_ok desc_len _ _ Hes Hess) as (S1 & S2 & S3).
    assert (Hes0 : Forall (fun es => 0 <= calc_descriptors_length (PMTElementaryStream_ElementaryStreamDescriptors es))
                     (PMTData_ElementaryStreams pmt)) by (apply Forall_forall; intros; apply calc_nonneg).
    rewrite (calc_pmt_no_wrap desc_ok pmt Hpd Hes0 D2) by lia.
    set (rest := enc_psi_section_syntax_header sh ++ body).
    set (L := ((5 + pmt_body_len pmt) mod 65536 + 4) mod 65536).
    assert (Bok : items_bytes_ok body /\ length (items_bits body) = (8 * Z.to_nat (pmt_body_len pmt))%nat).
    { assert (Eb : body = [WBits 3 255; WBits 13 (PMTData_PCRPID pmt)] ++ pds ++ ess) by (inversion Hbody; reflexivity).
      rewrite Eb. split.
      - apply items_bytes_ok_app; [repeat constructor|]. apply items_bytes_ok_app; assumption.
      - rewrite !items_bits_app, !app_length, D3, S3.
        change (length (items_bits [WBits 3 255; WBits 13 (PMTData_PCRPID pmt)])) with 16%nat.
        unfold pmt_body_len. lia. }
    destruct Bok as [Bok Blen].
    assert (Rok : items_bytes_ok rest) by (apply items_bytes_ok_app; [repeat constructor|exact Bok]).
    assert (Rlen : length (items_bits rest) = (8 * Z.to_nat (5 + pmt_body_len pmt))%nat).
    { unfold rest. rewrite items_bits_app, app_length, Blen.
      change (length (items_bits (enc_psi_section_syntax_header sh))) with 40%nat. unfold pmt_body_len in *. lia. }
    assert (HL : L = Z.of_nat (Z.to_nat (5 + pmt_body_len pmt)) + 4).
    { unfold L. unfold pmt_body_len in *. rewrite (Z.mod_small (5 + _)) by lia. rewrite Z.mod_small by lia. lia. }
    destruct (framed_section h L rest _ Rok Rlen HL ltac:(unfold pmt_body_len in *; lia)) as (F1 & F2 & F3 & F4).
    cbn zeta in F1, F2, F3, F4.
    exists (bytes_of_items (section_head h L ++ rest)).
    split; [exact F1|]. split; [eexists; exact F1|]. split; [lia|]. split; [|exact F4].
    rewrite F3, Ht. reflexivity.
  Qed.
End MuxPMT2.
