From Coq Require Import ZArith List Lia Bool ZifyBool.
Require Import Base.Bits Base.Iter Base.Wr Gen.Consts Gen.Types Gen.Preds Model.Packet Model.Desc Model.Dvb Model.Psi.
Import ListNotations.
Open Scope Z_scope.
Open Scope iter_scope.

(* ---------- buffer preservation ---------- *)
Definition keeps {A} (m : IM A) : Prop := forall i a i', m i = Ok (a, i') -> ibs i' = ibs i.

Lemma keeps_ret {A} (a : A) : keeps (iret a).
Proof. intros i x i' H. inversion H; reflexivity. Qed.
Lemma keeps_err {A} c : keeps (@ierr A c).
Proof. intros i x i' H. discriminate. Qed.
Lemma keeps_bind {A B} (m : IM A) (f : A -> IM B) : keeps m -> (forall a, keeps (f a)) -> keeps (ibind m f).
Proof.
  intros Hm Hf i b i' H. unfold ibind in H. destruct (m i) as [[a i1]| |] eqn:E; try discriminate.
  rewrite (Hf a _ _ _ H). eapply Hm; eauto.
Qed.
Lemma keeps_lift {A} (r : res A) : keeps (ilift r).
Proof. intros i a i' H. unfold ilift, res_map in H. destruct r; inversion H; reflexivity. Qed.
Lemma keeps_next_byte : keeps next_byte.
Proof. intros i a i' H. apply next_byte_ok in H. tauto. Qed.
Lemma keeps_next_bytes n : keeps (next_bytes n).
Proof. intros i a i' H. apply next_bytes_ok in H. tauto. Qed.
Lemma keeps_next_bytes_nocopy n : keeps (next_bytes_nocopy n).
Proof. apply keeps_next_bytes. Qed.
Lemma keeps_seek n : keeps (iseek n).
Proof. intros i a i' H. inversion H; reflexivity. Qed.
Lemma keeps_skip n : keeps (iskip n).
Proof. intros i a i' H. inversion H; reflexivity. Qed.
Lemma keeps_offset : keeps ioffset.
Proof. intros i a i' H. inversion H; reflexivity. Qed.
Lemma keeps_length : keeps ilength.
Proof. intros i a i' H. inversion H; reflexivity. Qed.
Lemma keeps_has_bytes_left : keeps has_bytes_left.
Proof. intros i a i' H. inversion H; reflexivity. Qed.
Lemma keeps_if {A} (c : bool) (m1 m2 : IM A) : keeps m1 -> keeps m2 -> keeps (if c then m1 else m2).
Proof. destruct c; auto. Qed.

Ltac keeps_step :=
  first
    [ apply keeps_ret | apply keeps_err | apply keeps_lift | apply keeps_next_byte | apply keeps_next_bytes_nocopy
    | apply keeps_next_bytes | apply keeps_seek | apply keeps_skip | apply keeps_offset | apply keeps_length
    | apply keeps_has_bytes_left | assumption
    | apply keeps_bind; [| intros ]
    | apply keeps_if
    | match goal with |- keeps (match ?x with _ => _ end) => destruct x end
    | match goal with |- keeps (let '(_, _) := ?x in _) => destruct x end ].
Ltac keeps_tac := repeat keeps_step.

Lemma keeps_loop_until {A} (item : IM A) : keeps item -> forall fuel e, keeps (loop_until fuel e item).
Proof.
  intros Hi. induction fuel as [|k IH]; intros e; cbn [loop_until]; keeps_tac. apply IH.
Qed.

Ltac keeps_all := repeat first [ apply keeps_loop_until | keeps_step ].

Section Keeps.
  Hypothesis keeps_descriptors : keeps parse_descriptors.
  Hypothesis keeps_dvb_time : keeps parse_dvb_time.
  Hypothesis keeps_dvb_duration : keeps parse_dvb_duration_seconds.

  Lemma keeps_syntax h off : keeps (parse_psi_section_syntax h off).
  Proof. unfold parse_psi_section_syntax. keeps_all. Qed.
End Keeps.

(* ---------- the CRC gate ---------- *)

Lemma header_ok i h offs i' : parse_psi_section_header i = Ok ((h, offs), i') ->
  ibs i' = ibs i /\ po_start offs = ioff i /\ 0 <= ioff i /\
  PSISectionHeader_TableID h = nth (Z.to_nat (ioff i)) (ibs i) 0 /\
  (shouldStopPSIParsing (PSISectionHeader_TableID h) = false ->
     po_end offs = ioff i + 3 + PSISectionHeader_SectionLength h /\
     po_sections_end offs = (if PSITableID_hasCRC32 (PSISectionHeader_TableID h) then po_end offs - 4 else po_end offs)).
Proof.
  unfold parse_psi_section_header, ibind, ioffset. 
  destruct (next_byte i) as [[b i1]| |] eqn:E1; try discriminate.
  apply next_byte_ok in E1. destruct E1 as (R1 & B1 & O1 & V1).
  destruct (shouldStopPSIParsing b) eqn:Es.
  - unfold iret. intros H; inversion H; subst; cbn. repeat split; try lia; try congruence.
  - destruct (next_bytes_nocopy 2 i1) as [[bs i2]| |] eqn:E2; try discriminate.
    apply next_bytes_ok in E2. destruct E2 as (_ & _ & _ & B2 & O2 & V2).
    unfold iret. intros H; inversion H; subst; cbn. repeat split; try lia; try congruence.
Qed.

Lemma check_crc32_ok offs i c i' : check_crc32 offs i = Ok (c, i') ->
  let a := po_start offs in let e := po_sections_end offs in
  ibs i' = ibs i /\ 0 <= a /\ a <= e /\ e + 4 <= ilen i /\
  c = be32 (slice (ibs i) e (e + 4)) /\ computeCRC32 (slice (ibs i) a e) = c.
Proof.
  unfold check_crc32, parse_crc32, ibind, iseek.
  destruct (next_bytes_nocopy 4 _) as [[cb i1]| |] eqn:E1; try discriminate.
  apply next_bytes_ok in E1. cbn [ibs ioff] in E1. destruct E1 as (_ & P1 & L1 & B1 & O1 & V1).
  unfold iret. rewrite B1.
  destruct (next_bytes_nocopy _ _) as [[db i2]| |] eqn:E2; try discriminate.
  apply next_bytes_ok in E2. cbn [ibs ioff] in E2. destruct E2 as (N2 & P2 & L2 & B2 & O2 & V2).
  destruct (computeCRC32 db =? be32 cb) eqn:Ec; [|discriminate].
  intros H; inversion H; subst. cbn zeta. unfold ilen in *. cbn [ibs] in *.
  apply Z.eqb_eq in Ec.
  replace (po_start offs + (po_sections_end offs - po_start offs)) with (po_sections_end offs) in * by lia.
  repeat split; try lia; try congruence.
Qed.

Section Gate.
  Hypothesis keeps_descriptors : keeps parse_descriptors.
  Hypothesis keeps_dvb_time : keeps parse_dvb_time.
  Hypothesis keeps_dvb_duration : keeps parse_dvb_duration_seconds.

  Lemma keeps_check_crc32 offs : keeps (check_crc32 offs).
  Proof. intros i c i' H. apply check_crc32_ok in H. tauto. Qed.

  Lemma keeps_header : keeps parse_psi_section_header.
  Proof. intros i [h offs] i' H. apply header_ok in H. tauto. Qed.

  Lemma keeps_section : keeps parse_psi_section.
  Proof.
    unfold parse_psi_section. apply keeps_bind; [apply keeps_header|]. intros [h offs].
    keeps_all; first [apply keeps_syntax; assumption | apply keeps_check_crc32].
  Qed.

  (* a section of a table id with CRC_32 that comes out of parsePSISection with a syntax part has passed
     the comparison of the recomputed checksum with the CRC_32 field *)
  Lemma gate_section i s i' : parse_psi_section i = Ok ((s, false), i') ->
    forall h, PSISection_Header s = Some h ->
    PSITableID_hasCRC32 (PSISectionHeader_TableID h) = true -> PSISection_Syntax s <> None ->
    let a := ioff i in let e := a + 3 + PSISectionHeader_SectionLength h - 4 in
    0 <= a /\ a <= e /\ e + 4 <= ilen i /\ nth (Z.to_nat a) (ibs i) 0 = PSISectionHeader_TableID h /\
    computeCRC32 (slice (ibs i) a e) = be32 (slice (ibs i) e (e + 4)) /\
    PSISection_CRC32 s = be32 (slice (ibs i) e (e + 4)).
  Proof.
    unfold parse_psi_section, ibind.
    destruct (parse_psi_section_header i) as [[[h0 offs] i1]| |] eqn:Eh; try discriminate.
    apply header_ok in Eh. destruct Eh as (B1 & S1 & P1 & T1 & Hoff).
    destruct (shouldStopPSIParsing (PSISectionHeader_TableID h0)) eqn:Es.
    { unfold iret. intros H; inversion H. }
    destruct (Hoff eq_refl) as (Oe & Ose). clear Hoff.
    destruct (PSISectionHeader_SectionLength h0 >? 0) eqn:El.
    2:{ unfold iret, iseek. intros H; inversion H; subst. cbn. intros h Hh _ Hs. congruence. }
    destruct (parse_psi_section_syntax h0 (po_sections_end offs) i1) as [[syn i2]| |] eqn:Esyn; try discriminate.
    pose proof (keeps_syntax keeps_descriptors keeps_dvb_time keeps_dvb_duration _ _ _ _ _ Esyn) as B2.
    destruct (PSITableID_hasCRC32 (PSISectionHeader_TableID h0)) eqn:Ecrc.
    2:{ unfold iret, iseek. intros H; inversion H; subst. cbn. intros h Hh Hc _. inversion Hh; subst. congruence. }
    destruct (check_crc32 offs i2) as [[c i3]| |] eqn:Ec; try discriminate.
    apply check_crc32_ok in Ec. cbn zeta in Ec. destruct Ec as (B3 & A3 & AE & EL & Cv & Cc).
    unfold iret, iseek. intros H; inversion H; subst. cbn. intros h Hh _ _. inversion Hh; subst h.
    unfold ilen in *. rewrite B2, B1 in *. rewrite S1, Ose, Oe in *.
    repeat split; try lia; try congruence.
  Qed.

  (* what the gate guarantees about a section, relative to the buffer it was parsed from *)
  Definition gated (bs : list Z) (s : PSISection) : Prop :=
    forall h, PSISection_Header s = Some h ->
    PSITableID_hasCRC32 (PSISectionHeader_TableID h) = true -> PSISection_Syntax s <> None ->
    exists a, let e := a + 3 + PSISectionHeader_SectionLength h - 4 in
      0 <= a /\ a <= e /\ e + 4 <= Z.of_nat (length bs) /\ nth (Z.to_nat a) bs 0 = PSISectionHeader_TableID h /\
      computeCRC32 (slice bs a e) = be32 (slice bs e (e + 4)) /\
      PSISection_CRC32 s = be32 (slice bs e (e + 4)).

  Lemma stop_section_ungated i s i' : parse_psi_section i = Ok ((s, true), i') -> PSISection_Syntax s = None.
  Proof.
    unfold parse_psi_section, ibind.
    destruct (parse_psi_section_header i) as [[[h0 offs] i1]| |]; try discriminate.
    destruct (shouldStopPSIParsing _).
    - unfold iret. intros H; inversion H; reflexivity.
    - destruct (if PSISectionHeader_SectionLength h0 >? 0 then _ else _) as [[[c syn] i2]| |]; try discriminate.
      all: try (unfold iret, iseek; intros H; inversion H).
  Qed.

  Lemma gate_sections fuel : forall i ss i', psi_sections fuel i = Ok (ss, i') ->
    ibs i' = ibs i /\ Forall (gated (ibs i)) ss.
  Proof.
    induction fuel as [|k IH]; intros i ss i'; cbn [psi_sections]; [discriminate|].
    unfold ibind, has_bytes_left.
    destruct (ioff i <? ilen i).
    2:{ unfold iret. intros H; inversion H; subst. split; [reflexivity|constructor]. }
    destruct (parse_psi_section i) as [[[s stop] i1]| |] eqn:Es; try discriminate.
    pose proof (keeps_section _ _ _ Es) as B1.
    destruct stop.
    - unfold iret. intros H; inversion H; subst. split; [exact B1|]. constructor; [|constructor].
      intros h _ _ Hs. apply stop_section_ungated in Es. congruence.
    - destruct (psi_sections k i1) as [[r i2]| |] eqn:Er; try discriminate.
      unfold iret. intros H; inversion H; subst. destruct (IH _ _ _ Er) as [B2 F2].
      split; [congruence|]. constructor.
      + intros h Hh Hc Hs. exists (ioff i). exact (gate_section _ _ _ Es h Hh Hc Hs).
      + rewrite B1 in F2. exact F2.
  Qed.

  Theorem gate_data bs d : parse_psi_data_bytes bs = Ok d -> Forall (gated bs) (PSIData_Sections d).
  Proof.
    unfold parse_psi_data_bytes, run_iter, parse_psi_data, ibind, res_map.
    destruct (next_byte (new_iter bs)) as [[b i1]| |] eqn:E1; try discriminate.
    apply next_byte_ok in E1. destruct E1 as (_ & B1 & _).
    unfold iskip, loop_fuel, ibind, ilength, iret.
    destruct (psi_sections _ _) as [[ss i2]| |] eqn:E2; try discriminate.
    apply gate_sections in E2. cbn [ibs] in E2. rewrite B1 in E2. cbn [ibs new_iter] in E2.
    intros H; inversion H; subst. cbn. tauto.
  Qed.
End Gate.

(* ---------- what toData delivers comes from gated sections ---------- *)

Lemma decoded_has_crc tid :
  (is_nit_id tid || (tid =? C_PSITableIDPAT) || (tid =? C_PSITableIDPMT) || is_sdt_id tid
   || (tid =? C_PSITableIDTOT) || is_eit_id tid) = true ->
  PSITableID_hasCRC32 tid = true.
Proof.
  unfold is_nit_id, is_sdt_id, is_eit_id, PSITableID_hasCRC32,
    C_PSITableIDPAT, C_PSITableIDPMT, C_PSITableIDTOT, C_PSITableIDNITVariant1, C_PSITableIDNITVariant2,
    C_PSITableIDSDTVariant1, C_PSITableIDSDTVariant2, C_PSITableIDEITStart, C_PSITableIDEITEnd.
  lia.
Qed.

Lemma section_to_data_origin s fp pid dd : In dd (section_to_data s fp pid) ->
  exists h, PSISection_Header s = Some h /\ PSISection_Syntax s <> None /\
            PSITableID_hasCRC32 (PSISectionHeader_TableID h) = true.
Proof.
  unfold section_to_data. destruct (PSISection_Syntax s) as [syn|] eqn:Es; [|intros []].
  destruct (PSISectionSyntax_Data syn) as [d|]; [|intros []].
  destruct (PSISection_Header s) as [h|]; [|intros []].
  intros Hin. exists h. split; [reflexivity|]. split; [discriminate|].
  apply decoded_has_crc.
  destruct (is_nit_id _), (_ =? C_PSITableIDPAT), (_ =? C_PSITableIDPMT), (is_sdt_id _), (_ =? C_PSITableIDTOT),
    (is_eit_id _); try reflexivity; destruct Hin.
Qed.

Lemma psi_to_data_origin d fp pid dd : In dd (psi_to_data d fp pid) ->
  exists s h, In s (PSIData_Sections d) /\ In dd (section_to_data s fp pid) /\
              PSISection_Header s = Some h /\ PSISection_Syntax s <> None /\
              PSITableID_hasCRC32 (PSISectionHeader_TableID h) = true.
Proof.
  unfold psi_to_data. rewrite in_flat_map. intros (s & Hs & Hd).
  destruct (section_to_data_origin _ _ _ _ Hd) as (h & H1 & H2 & H3). exists s, h. auto.
Qed.

Lemma Forall_slice {P : Z -> Prop} bs a e : Forall P bs -> Forall P (slice bs a e).
Proof.
  intros H. unfold slice.
  assert (Hs : Forall P (skipn (Z.to_nat a) bs)).
  { rewrite <- (firstn_skipn (Z.to_nat a) bs) in H. apply Forall_app in H. tauto. }
  rewrite <- (firstn_skipn (Z.to_nat (e - a)) (skipn (Z.to_nat a) bs)) in Hs. apply Forall_app in Hs. tauto.
Qed.
