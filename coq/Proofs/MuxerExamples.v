(* A concrete history used by the Examples beside the theorems of C04, C05 and C17: the hypotheses of the
   theorems are satisfiable by a non-trivial run (two streams, tables, data over several packets, a removal). *)
From Coq Require Import ZArith List Lia Bool.
Require Import Base.Bits Base.Iter Base.Wr Gen.Consts Gen.Types Gen.Preds Model.Packet Model.Muxer Spec.MuxSpec.
Import ListNotations.
Open Scope Z_scope.

Definition ex_es (pid : Z) : PMTElementaryStream :=
  {| PMTElementaryStream_ElementaryPID := pid;
     PMTElementaryStream_ElementaryStreamDescriptors := [];
     PMTElementaryStream_StreamType := C_StreamTypeH264Video |}.

Definition ex_af : PacketAdaptationField :=
  {| PacketAdaptationField_AdaptationExtensionField := None;
     PacketAdaptationField_OPCR := None;
     PacketAdaptationField_PCR := Some {| ClockReference_Base := 90000; ClockReference_Extension := 7 |};
     PacketAdaptationField_TransportPrivateData := [];
     PacketAdaptationField_TransportPrivateDataLength := 0;
     PacketAdaptationField_Length := 0;
     PacketAdaptationField_StuffingLength := 0;
     PacketAdaptationField_SpliceCountdown := 0;
     PacketAdaptationField_IsOneByteStuffing := false;
     PacketAdaptationField_RandomAccessIndicator := true;
     PacketAdaptationField_DiscontinuityIndicator := false;
     PacketAdaptationField_ElementaryStreamPriorityIndicator := false;
     PacketAdaptationField_HasAdaptationExtensionField := false;
     PacketAdaptationField_HasOPCR := false;
     PacketAdaptationField_HasPCR := true;
     PacketAdaptationField_HasTransportPrivateData := false;
     PacketAdaptationField_HasSplicingCountdown := false |}.

Definition ex_data (pid : Z) (af : option PacketAdaptationField) (n : nat) : MuxerData :=
  {| MuxerData_PID := pid;
     MuxerData_AdaptationField := af;
     MuxerData_PES := Some {| PESData_Data := repeat 165 n;
                              PESData_Header := Some {| PESHeader_OptionalHeader := None;
                                                        PESHeader_PacketLength := 0;
                                                        PESHeader_StreamID := 0 |} |} |}.

(* period 2: tables at the first WriteData, again at the third; a forced emission at the random access point *)
Definition ex_ops : list mop :=
  [MAdd (ex_es 257); MAdd (ex_es 0); MSetPCR 257;
   MWriteData (ex_data 257 None 400); MWriteData (ex_data 256 None 10); MWriteData (ex_data 257 None 3000);
   MSetPCR 999; MWriteTables; MSetPCR 257;
   MWriteData (ex_data 257 (Some ex_af) 100); MRemove 256; MWriteData (ex_data 256 None 10); MAdd (ex_es 256);
   MWriteData (ex_data 256 None 10); MWriteTables].

Definition ex_run : mstate * list part := mux_run_parts (new_muxer 2) ex_ops.

Lemma ex_entry_ok : Forall op_entry_ok ex_ops.
Proof. repeat constructor. Qed.

Lemma ex_no_panic : no_panic (snd ex_run).
Proof. vm_compute. repeat constructor; discriminate. Qed.
