(* descriptor.go and the BCD duration parsers of dvb.go: parse_descriptors of Model/Desc.v (the 12-bit loop length, the
   `for i.Offset() < offsetEnd` loop, tag and length byte, the user-defined range, the switch on the tag, the Seek to the
   end of every descriptor) is equal to the definition go/gen (psigen.go) translates from the CURRENT source of
   parseDescriptors into Gen/PsiGen.v, its 23 Section Variables newDescriptor* instantiated with the body parsers of the
   model; the body parsers that are themselves regenerated and the two duration parsers are proved equal one by one.
   The model's loop runs on offsetEnd - offset + 1 rounds of fuel, the generated one on input length + 1: both are
   enough, because every round reads the two header bytes from inside the input and ends further on. *)
From Coq Require Import ZArith List Lia Bool ZifyBool.
Require Import Base.Bits Base.Iter Gen.Consts Gen.Types Gen.Preds Gen.PsiGen.
Require Import Model.Packet Model.Dvb Model.Desc Proofs.ParseGenBits Proofs.ParseGenSim Proofs.PsiGenSim Proofs.DescProofs.
Import ListNotations.
Open Scope Z_scope.

(* ---------------- the body parsers of the model, as simulations of themselves ---------------- *)

Ltac body_self :=
  apply sim_self;
  lazymatch goal with |- _ ?m => change (DescProofs.pres m) end;
  unfold new_descriptor_ac3, new_descriptor_avc_video, new_descriptor_component, new_descriptor_content, content_item,
    new_descriptor_data_stream_alignment, new_descriptor_enhanced_ac3, new_descriptor_extended_event,
    new_descriptor_extended_event_item, new_descriptor_extension, new_descriptor_extension_supplementary_audio,
    new_descriptor_iso639, new_descriptor_local_time_offset, local_time_offset_item, new_descriptor_maximum_bitrate,
    new_descriptor_network_name, new_descriptor_parental_rating, parental_rating_item, new_descriptor_private_data_indicator,
    new_descriptor_private_data_specifier, new_descriptor_registration, new_descriptor_service, new_descriptor_short_event,
    new_descriptor_stream_identifier, new_descriptor_subtitling, subtitling_item, new_descriptor_teletext, teletext_item,
    new_descriptor_unknown, new_descriptor_vbi_data, vbi_data_service, opt_byte, rest_bytes, bytes_to;
  pres_tac;
  try first [ apply pres_parse_dvb_duration_minutes | apply pres_parse_dvb_time ].

Lemma self_ac3 e : sim eq (new_descriptor_ac3 e) (new_descriptor_ac3 e). Proof. body_self. Qed.
Lemma self_avc_video : sim eq new_descriptor_avc_video new_descriptor_avc_video. Proof. body_self. Qed.
Lemma self_component e : sim eq (new_descriptor_component e) (new_descriptor_component e). Proof. body_self. Qed.
Lemma self_content e : sim eq (new_descriptor_content e) (new_descriptor_content e). Proof. body_self. Qed.
Lemma self_data_stream_alignment : sim eq new_descriptor_data_stream_alignment new_descriptor_data_stream_alignment. Proof. body_self. Qed.
Lemma self_enhanced_ac3 e : sim eq (new_descriptor_enhanced_ac3 e) (new_descriptor_enhanced_ac3 e). Proof. body_self. Qed.
Lemma self_extended_event : sim eq new_descriptor_extended_event new_descriptor_extended_event. Proof. body_self. Qed.
Lemma self_extension e : sim eq (new_descriptor_extension e) (new_descriptor_extension e). Proof. body_self. Qed.
Lemma self_iso639 e : sim eq (new_descriptor_iso639 e) (new_descriptor_iso639 e). Proof. body_self. Qed.
Lemma self_local_time_offset e : sim eq (new_descriptor_local_time_offset e) (new_descriptor_local_time_offset e). Proof. body_self. Qed.
Lemma self_maximum_bitrate : sim eq new_descriptor_maximum_bitrate new_descriptor_maximum_bitrate. Proof. body_self. Qed.
Lemma self_network_name e : sim eq (new_descriptor_network_name e) (new_descriptor_network_name e). Proof. body_self. Qed.
Lemma self_parental_rating e : sim eq (new_descriptor_parental_rating e) (new_descriptor_parental_rating e). Proof. body_self. Qed.
Lemma self_private_data_indicator : sim eq new_descriptor_private_data_indicator new_descriptor_private_data_indicator. Proof. body_self. Qed.
Lemma self_private_data_specifier : sim eq new_descriptor_private_data_specifier new_descriptor_private_data_specifier. Proof. body_self. Qed.
Lemma self_registration e : sim eq (new_descriptor_registration e) (new_descriptor_registration e). Proof. body_self. Qed.
Lemma self_service : sim eq new_descriptor_service new_descriptor_service. Proof. body_self. Qed.
Lemma self_short_event : sim eq new_descriptor_short_event new_descriptor_short_event. Proof. body_self. Qed.
Lemma self_stream_identifier : sim eq new_descriptor_stream_identifier new_descriptor_stream_identifier. Proof. body_self. Qed.
Lemma self_subtitling e : sim eq (new_descriptor_subtitling e) (new_descriptor_subtitling e). Proof. body_self. Qed.
Lemma self_teletext e : sim eq (new_descriptor_teletext e) (new_descriptor_teletext e). Proof. body_self. Qed.
Lemma self_unknown t l : sim eq (new_descriptor_unknown t l) (new_descriptor_unknown t l). Proof. body_self. Qed.
Lemma self_vbi_data e : sim eq (new_descriptor_vbi_data e) (new_descriptor_vbi_data e). Proof. body_self. Qed.

(* ---------------- copies ---------------- *)

(* a slice that the model COPIES (next_bytes: it is retained in the result) must be read with NextBytes in the source as
   well; the two primitives have the same meaning in the iterator monad (aliasing is C16's subject), so the equality
   below would hold either way -- the proofs insist on it to notice a copy that became a NextBytesNoCopy *)
Ltac copy_discipline :=
  lazymatch goal with
  | |- sim _ (ibind (next_bytes _) _) (ibind (next_bytes_nocopy _) _) =>
      fail "the source reads with NextBytesNoCopy a slice that the model copies because the result retains it"
  | |- sim _ (ibind (next_bytes _) _) (ibind (next_bytes _) _) => idtac
  end.
(* the same for the trailing bytes `if i.Offset() < offsetEnd { x, err = i.NextBytes(offsetEnd - i.Offset()) }` and for a
   copy inside a conditional block *)
Ltac copy_discipline_in_block :=
  lazymatch goal with
  | |- sim _ _ ?g =>
      lazymatch g with
      | context [next_bytes_nocopy] =>
          fail "the source reads with NextBytesNoCopy a slice that the model copies because the result retains it"
      | _ => idtac
      end
  end.

(* ---------------- the loop ---------------- *)

(* parseDescriptors of Gen/PsiGen.v with its Section Variables instantiated by the model's body parsers *)
Notation gen_desc_loop := (parseDescriptors_loop1
  new_descriptor_ac3 new_descriptor_avc_video new_descriptor_component new_descriptor_content
  new_descriptor_data_stream_alignment new_descriptor_enhanced_ac3 new_descriptor_extended_event new_descriptor_extension
  new_descriptor_iso639 new_descriptor_local_time_offset new_descriptor_maximum_bitrate new_descriptor_network_name
  new_descriptor_parental_rating new_descriptor_private_data_indicator new_descriptor_private_data_specifier
  new_descriptor_registration new_descriptor_service new_descriptor_short_event new_descriptor_stream_identifier
  new_descriptor_subtitling new_descriptor_teletext new_descriptor_unknown new_descriptor_vbi_data).
Notation gen_descriptors := (parseDescriptors
  new_descriptor_ac3 new_descriptor_avc_video new_descriptor_component new_descriptor_content
  new_descriptor_data_stream_alignment new_descriptor_enhanced_ac3 new_descriptor_extended_event new_descriptor_extension
  new_descriptor_iso639 new_descriptor_local_time_offset new_descriptor_maximum_bitrate new_descriptor_network_name
  new_descriptor_parental_rating new_descriptor_private_data_indicator new_descriptor_private_data_specifier
  new_descriptor_registration new_descriptor_service new_descriptor_short_event new_descriptor_stream_identifier
  new_descriptor_subtitling new_descriptor_teletext new_descriptor_unknown new_descriptor_vbi_data).

Ltac body_case L := eapply sim_bind; [apply L|]; intros v ? <-; apply sim_ret; reflexivity.

Lemma desc_loop_sim e : forall fuel o,
  sim (fun l o' => o' = o ++ l) (iloop_fuel fuel e (parse_descriptor_with parse_descriptor_body)) (gen_desc_loop fuel e o).
Proof.
  induction fuel as [|k IH]; intros o; [apply sim_err|].
  cbn [iloop_fuel parseDescriptors_loop1].
  eapply sim_bind; [apply sim_ioffset|]. intros off ? <-. cbv beta. apply sim_if.
  2:{ apply sim_ret. rewrite app_nil_r. reflexivity. }
  set (lp := iloop_fuel k e (parse_descriptor_with parse_descriptor_body)) in *.
  unfold parse_descriptor_with. cbv zeta.
  apply sim_assoc_l. eapply sim_bind; [apply sim_next_bytes_nocopy|]. intros bs ? (<- & Hok & Hlen). cbv beta.
  explode_bytes bs Hlen Hok. nth_lit. unfold byte_at. cbn [nth]. psigen_cbn.
  eapply (sim_bind eq).
  - apply sim_if; [|apply sim_ret; reflexivity].
    eapply sim_bind; [apply sim_ioffset|]. intros o1 ? <-. cbv beta.
    eapply (sim_bind eq); [|intros d ? <-; eapply sim_bind; [apply sim_iseek|]; intros _ _ _; apply sim_ret; reflexivity].
    unfold parse_descriptor_body, is_user_defined. cbv zeta. replace (b >=? 128) with (128 <=? b) by (symmetry; apply Z.geb_leb).
    apply sim_if; [copy_discipline; eapply sim_bind; [apply sim_next_bytes|]; intros v ? (<- & _ & _); apply sim_ret; reflexivity|].
    apply sim_if; [body_case self_ac3|].
    apply sim_if; [body_case self_avc_video|].
    apply sim_if; [body_case self_component|].
    apply sim_if; [body_case self_content|].
    apply sim_if; [body_case self_data_stream_alignment|].
    apply sim_if; [body_case self_enhanced_ac3|].
    apply sim_if; [body_case self_extended_event|].
    apply sim_if; [body_case self_extension|].
    apply sim_if; [body_case self_iso639|].
    apply sim_if; [body_case self_local_time_offset|].
    apply sim_if; [body_case self_maximum_bitrate|].
    apply sim_if; [body_case self_network_name|].
    apply sim_if; [body_case self_parental_rating|].
    apply sim_if; [body_case self_private_data_indicator|].
    apply sim_if; [body_case self_private_data_specifier|].
    apply sim_if; [body_case self_registration|].
    apply sim_if; [body_case self_service|].
    apply sim_if; [body_case self_short_event|].
    apply sim_if; [body_case self_stream_identifier|].
    apply sim_if; [body_case self_subtitling|].
    apply sim_if; [body_case self_teletext|].
    apply sim_if; [body_case self_vbi_data|].
    apply sim_if; [body_case self_teletext|].
    body_case self_unknown.
  - intros d ? <-. cbv beta.
    eapply sim_map_l; [apply IH|]. cbv beta. intros l o' ->. rewrite <- app_assoc. reflexivity.
Qed.

(* ---------------- fuel ---------------- *)

(* one descriptor: the two header bytes are read from inside the input, and the iterator ends at the end of the
   descriptor (length > 0: the Seek) or just behind the header (length 0) -- further on in both cases *)
Lemma progress_descriptor body : body_pres body -> progress (parse_descriptor_with body).
Proof.
  intros Hb i d i' E. unfold parse_descriptor_with in E.
  apply ibind_ok in E. destruct E as (bs & i1 & E1 & E).
  apply next_bytes_ok in E1. destruct E1 as (G1 & G2 & G3 & G4 & G5 & G6).
  cbv zeta in E. destruct (byte_at bs 1 >? 0) eqn:El.
  - apply ibind_ok in E. destruct E as (off & i2 & E2 & E). unfold ioffset in E2. inversion E2; subst off i2; clear E2.
    apply ibind_ok in E. destruct E as (d1 & i3 & E3 & E). apply Hb in E3.
    apply ibind_ok in E. destruct E as (u & i4 & E4 & E). unfold iseek in E4. inversion E4; subst u i4; clear E4.
    unfold iret in E. inversion E; subst d1 i'; clear E. cbn [ioff ibs].
    repeat split; try lia. congruence.
  - unfold iret in E. inversion E; subst. repeat split; try lia. exact G4.
Qed.

(* parse_descriptors with the loop run on input length + 1 rounds of fuel, as the generated code does *)
Definition parse_descriptors_len (body : Z -> Z -> Z -> IM Descriptor) : IM (list Descriptor) :=
  ibind (next_bytes_nocopy 2) (fun bs =>
  let length := bitsf bs 4 12 in
  if length >? 0 then
    ibind ioffset (fun off => ibind ilength (fun n => iloop_fuel (S (Z.to_nat n)) (off + length) (parse_descriptor_with body)))
  else iret []).

Lemma parse_descriptors_len_eq body : body_pres body -> forall i, parse_descriptors_with body i = parse_descriptors_len body i.
Proof.
  intros Hb i. unfold parse_descriptors_with, parse_descriptors_len. cbv zeta.
  apply bind_step. intros bs i1 _. destruct (bitsf bs 4 12 >? 0); [|reflexivity].
  unfold iloop, ibind, ioffset, ilength.
  apply iloop_fuel_enough; [apply progress_descriptor, Hb| |].
  - replace (ioff i1 + bitsf bs 4 12 - ioff i1) with (ioff i1 + bitsf bs 4 12 - ioff i1) by reflexivity. apply enough_end.
  - apply enough_len.
Qed.

Lemma parse_descriptors_sim : sim eq parse_descriptors gen_descriptors.
Proof.
  eapply sim_trans_eq_l; [|intros i _; symmetry; apply (parse_descriptors_len_eq parse_descriptor_body pres_parse_descriptor_body)].
  unfold parse_descriptors_len, parseDescriptors. cbv zeta.
  eapply sim_bind; [apply sim_next_bytes_nocopy|]. intros bs ? (<- & Hok & Hlen). cbv beta.
  explode_bytes bs Hlen Hok. nth_lit. pose proof Hok as Hok'. bytes_inv Hok'.
  assert (E : bitsf [b; b0] 4 12 = Z.lor (Z.shiftl (Z.land b 15) 8 mod 65536) b0) by bridge.
  rewrite E. apply sim_bind_ret_r. apply sim_if; [|apply sim_ret; reflexivity].
  eapply sim_bind; [apply sim_ioffset|]. intros off ? <-. cbv beta.
  eapply sim_bind; [apply sim_ilength|]. intros n ? <-. cbv beta.
  apply sim_bind_ret_r. eapply sim_weaken; [apply desc_loop_sim|]. cbv beta. intros l o' ->. reflexivity.
Qed.

Lemma parse_descriptors_gen : same_on_bytes parse_descriptors gen_descriptors.
Proof. exact (sim_eq_point _ _ parse_descriptors_sim). Qed.

(* ---------------- the duration parsers of dvb.go ---------------- *)

Lemma parse_dvb_duration_seconds_sim : sim eq parse_dvb_duration_seconds parseDVBDurationSeconds.
Proof.
  unfold parse_dvb_duration_seconds, parseDVBDurationSeconds. cbv zeta.
  eapply sim_bind; [apply sim_next_bytes_nocopy|]. intros bs ? (<- & Hok & Hlen). apply sim_ret.
  explode_bytes bs Hlen Hok. reflexivity.
Qed.

Lemma parse_dvb_duration_minutes_sim : sim eq parse_dvb_duration_minutes parseDVBDurationMinutes.
Proof.
  unfold parse_dvb_duration_minutes, parseDVBDurationMinutes. cbv zeta.
  eapply sim_bind; [apply sim_next_bytes_nocopy|]. intros bs ? (<- & Hok & Hlen). apply sim_ret.
  explode_bytes bs Hlen Hok. reflexivity.
Qed.

(* ---------------- descriptor bodies ---------------- *)

Ltac step_bytes bs Hok Hlen := eapply sim_bind; [apply sim_next_bytes_nocopy|]; intros bs ? (<- & Hok & Hlen); cbv beta.
Ltac step_bytesc bs Hok Hlen := copy_discipline; eapply sim_bind; [apply sim_next_bytes|]; intros bs ? (<- & Hok & Hlen); cbv beta.
Ltac step_byte b Hb := eapply sim_bind; [apply sim_next_byte|]; intros b ? (<- & Hb); cbv beta.
Ltac open_bytes bs Hok Hlen := explode_bytes bs Hlen Hok; nth_lit; let H := fresh "Hok'" in pose proof Hok as H; bytes_inv H.

Lemma new_descriptor_avc_video_sim : sim eq new_descriptor_avc_video newDescriptorAVCVideo.
Proof.
  unfold new_descriptor_avc_video, newDescriptorAVCVideo. cbv zeta.
  step_byte b0 H0. step_byte b1 H1. step_byte b2 H2. step_byte b3 H3. apply sim_ret.
  psigen_cbv. f_equal; bridge.
Qed.

Lemma new_descriptor_data_stream_alignment_sim : sim eq new_descriptor_data_stream_alignment newDescriptorDataStreamAlignment.
Proof.
  unfold new_descriptor_data_stream_alignment, newDescriptorDataStreamAlignment. cbv zeta.
  step_byte b Hb. apply sim_ret. reflexivity.
Qed.

Lemma new_descriptor_maximum_bitrate_sim : sim eq new_descriptor_maximum_bitrate newDescriptorMaximumBitrate.
Proof.
  unfold new_descriptor_maximum_bitrate, newDescriptorMaximumBitrate. cbv zeta.
  step_bytes bs Hok Hlen. apply sim_ret. open_bytes bs Hok Hlen. f_equal. bridge.
Qed.

Lemma new_descriptor_private_data_indicator_sim : sim eq new_descriptor_private_data_indicator newDescriptorPrivateDataIndicator.
Proof.
  unfold new_descriptor_private_data_indicator, newDescriptorPrivateDataIndicator. cbv zeta.
  step_bytes bs Hok Hlen. apply sim_ret. open_bytes bs Hok Hlen. f_equal. bridge.
Qed.

Lemma new_descriptor_private_data_specifier_sim : sim eq new_descriptor_private_data_specifier newDescriptorPrivateDataSpecifier.
Proof.
  unfold new_descriptor_private_data_specifier, newDescriptorPrivateDataSpecifier. cbv zeta.
  step_bytes bs Hok Hlen. apply sim_ret. open_bytes bs Hok Hlen. f_equal. bridge.
Qed.

Lemma new_descriptor_stream_identifier_sim : sim eq new_descriptor_stream_identifier newDescriptorStreamIdentifier.
Proof.
  unfold new_descriptor_stream_identifier, newDescriptorStreamIdentifier. cbv zeta.
  step_byte b Hb. apply sim_ret. reflexivity.
Qed.

Lemma new_descriptor_unknown_sim t l : sim eq (new_descriptor_unknown t l) (newDescriptorUnknown t l).
Proof.
  unfold new_descriptor_unknown, newDescriptorUnknown. cbv zeta.
  step_bytesc bs Hok Hlen. apply sim_ret. reflexivity.
Qed.

(* `if i.Offset() < offsetEnd { x, err = i.NextBytes(offsetEnd - i.Offset()) }` *)
Lemma rest_bytes_sim {A} e (f g : list Z -> A) : (forall bs, f bs = g bs) ->
  sim eq (ibind (rest_bytes e) (fun bs => iret (f bs)))
         (ibind ioffset (fun o1 => ibind (if o1 <? e then ibind ioffset (fun o2 => ibind (next_bytes (e - o2)) (fun r => iret (g r))) else iret (g []))
                                         (fun d => iret d))).
Proof.
  intros H i Hi. unfold rest_bytes, ibind, ioffset, iret. destruct (ioff i <? e); [|rewrite H; auto].
  pose proof (sim_next_bytes (e - ioff i) i Hi) as S.
  destruct (next_bytes (e - ioff i) i) as [[bs i1]|c|]; auto. destruct S as (_ & _ & Hb). rewrite H. auto.
Qed.

Lemma new_descriptor_registration_sim e : sim eq (new_descriptor_registration e) (newDescriptorRegistration e).
Proof.
  unfold new_descriptor_registration, newDescriptorRegistration. cbv zeta.
  step_bytes bs Hok Hlen. open_bytes bs Hok Hlen.
  assert (E : bitsf [b; b0; b1; b2] 0 32 =
     Z.lor (Z.lor (Z.lor (Z.shiftl b 24 mod 4294967296) (Z.shiftl b0 16 mod 4294967296)) (Z.shiftl b1 8 mod 4294967296)) b2) by bridge.
  rewrite E. copy_discipline_in_block. apply rest_bytes_sim. intros; reflexivity.
Qed.

Lemma new_descriptor_network_name_sim e : sim eq (new_descriptor_network_name e) (newDescriptorNetworkName e).
Proof.
  unfold new_descriptor_network_name, newDescriptorNetworkName, bytes_to. cbv zeta.
  apply sim_assoc_l. eapply sim_bind; [apply sim_ioffset|]. intros off ? <-. cbv beta.
  step_bytesc bs Hok Hlen. apply sim_ret. reflexivity.
Qed.

Lemma new_descriptor_component_sim e : sim eq (new_descriptor_component e) (newDescriptorComponent e).
Proof.
  unfold new_descriptor_component, newDescriptorComponent. cbv zeta.
  step_byte b0 H0. step_byte ct H1. step_byte cg H2. step_bytesc lang Hok Hlen. psigen_cbn.
  assert (E1 : bitsf [b0] 4 4 = Z.land b0 15) by bridge.
  assert (E2 : bitsf [b0] 0 4 = Z.shiftr b0 4) by bridge.
  rewrite E1, E2. copy_discipline_in_block. apply rest_bytes_sim. intros; reflexivity.
Qed.

Lemma new_descriptor_service_sim : sim eq new_descriptor_service newDescriptorService.
Proof.
  unfold new_descriptor_service, newDescriptorService. cbv zeta.
  step_byte ty H0. step_byte pl H1. step_bytesc prov Hok1 Hlen1. step_byte nl H2. step_bytesc name Hok2 Hlen2.
  apply sim_ret. reflexivity.
Qed.

Lemma new_descriptor_short_event_sim : sim eq new_descriptor_short_event newDescriptorShortEvent.
Proof.
  unfold new_descriptor_short_event, newDescriptorShortEvent. cbv zeta.
  step_bytesc lang Hok0 Hlen0. step_byte elen H1. step_bytesc name Hok1 Hlen1. step_byte tlen H2. step_bytesc text Hok2 Hlen2.
  apply sim_ret. reflexivity.
Qed.

(* a loop of the model (fuel offsetEnd - offset + 1) run on input length + 1 rounds instead *)
Lemma iloop_len_eq {A} (item : IM A) e : progress item ->
  forall i, iloop e item i = ibind ilength (fun n => iloop_fuel (S (Z.to_nat n)) e item) i.
Proof.
  intros Hp i. unfold iloop, ibind, ioffset, ilength.
  apply iloop_fuel_enough; [exact Hp|apply enough_end|apply enough_len].
Qed.

Lemma sim_iloop_len {A B A2} (R : B -> A2 -> Prop) (item : IM A) e (f : list A -> IM B) m2 : progress item ->
  sim R (ibind ilength (fun n => ibind (iloop_fuel (S (Z.to_nat n)) e item) f)) m2 -> sim R (ibind (iloop e item) f) m2.
Proof.
  intros Hp H. eapply sim_trans_eq_l; [exact H|]. intros i _.
  unfold ibind at 3. rewrite (iloop_len_eq item e Hp i). unfold ibind, ilength. reflexivity.
Qed.

Lemma progress_content_item : progress content_item.
Proof.
  unfold content_item. apply progress_bind_first; [apply progress_next_bytes; lia|].
  intros bs i b i' E. unfold iret in E. inversion E; subst. split; [lia|reflexivity].
Qed.

Lemma content_loop_sim e : forall fuel d,
  sim (fun l d' => d' = set_DescriptorContent_Items (DescriptorContent_Items d ++ l) d)
      (iloop_fuel fuel e content_item) (newDescriptorContent_loop1 fuel e d).
Proof.
  induction fuel as [|k IH]; intros d; [apply sim_err|].
  cbn [iloop_fuel newDescriptorContent_loop1].
  eapply sim_bind; [apply sim_ioffset|]. intros off ? <-. cbv beta. apply sim_if.
  - set (lp := iloop_fuel k e content_item) in *. unfold content_item. cbv zeta.
    apply sim_assoc_l. step_bytes bs Hok Hlen. apply sim_ret_bind_l'.
    eapply sim_map_l; [apply IH|]. cbv beta. intros l d' ->.
    open_bytes bs Hok Hlen. psigen_cbv. rewrite <- app_assoc. cbn [app]. repeat f_equal; bridge.
  - apply sim_ret. destruct d as [its]. psigen_cbv. rewrite app_nil_r. reflexivity.
Qed.

Lemma new_descriptor_content_sim e : sim eq (new_descriptor_content e) (newDescriptorContent e).
Proof.
  unfold new_descriptor_content, newDescriptorContent. cbv zeta.
  apply sim_iloop_len; [exact progress_content_item|].
  eapply sim_bind; [apply sim_ilength|]. intros n ? <-. cbv beta.
  eapply sim_bind; [apply content_loop_sim|]. cbv beta. intros l d' ->. apply sim_ret. reflexivity.
Qed.
