(* What it means for a writer regenerated from the source (Gen/WriteGen.v, writer monad) to BE a hand-written writer
   (a `res (list witem * count)` of Model/Packet.v, Model/Clock.v, Model/Pes.v), and the tactics the equality proofs share.

   [wf_sim m r]   m : the generated function applied to its arguments, r : the hand model's result
     r = Ok (items, n)  ->  m returns (n, nil), hands over the same items in the same order up to [norm]
                            (the low w bits of a w-bit field: `WBits 8 (x mod 256)` and `WBits 8 x` are the same write),
                            and none of them through a w.Write whose result is discarded;
     r = Err c          ->  m returns an error of class c;
     r = Panic          ->  m panics.
   Same items up to [norm] means the same bytes AND the same grouping into io.Writer calls (chunks_same_norm). *)
From Coq Require Import ZArith List Lia Bool ZifyBool Znumtheory.
Require Import Base.Bits Base.Iter Base.Wr Gen.Consts Gen.Types Gen.Preds Gen.MuxGen Gen.WriteGen.
Import ListNotations.
Open Scope Z_scope.

Definition norm (it : witem) : witem :=
  match it with WBits w v => WBits w (v mod 2 ^ Z.of_nat w) | x => x end.
Definition nsnd (g : gitem) : witem := norm (snd g).
Definition kept (g : gitem) : bool := match fst g with WDropped => false | _ => true end.
Definition nd (l : list gitem) : bool := forallb kept l.

(* error class of a Go error value; None = nil *)
Definition werr (e : merror) : option Z :=
  match e with ENil => None | EExt c => Some c | _ => Some E_generic end.

Definition wf_ok {A} (m : WF (A * merror)) (items : list witem) (a : A) : Prop :=
  snd m = Some (a, ENil) /\ map nsnd (fst m) = map norm items /\ nd (fst m) = true.

Definition wf_sim {A} (m : WF (A * merror)) (r : res (list witem * A)) : Prop :=
  match r with
  | Ok (items, a) => wf_ok m items a
  | Err c => exists a e, snd m = Some (a, e) /\ werr e = Some c
  | Panic => snd m = None
  end.

(* ---- norm does not change what reaches the io.Writer ---- *)

Lemma bits_of_mod w : forall v, bits_of w (v mod 2 ^ Z.of_nat w) = bits_of w v.
Proof.
  assert (G : forall k n v, (k <= n)%nat -> bits_of k (v mod 2 ^ Z.of_nat n) = bits_of k v).
  { induction k as [|k IH]; intros n v H; [reflexivity|].
    cbn [bits_of]. rewrite IH by lia. f_equal. apply Z.mod_pow2_bits_low. lia. }
  intros v. apply G. lia.
Qed.

Lemma item_bits_norm it : item_bits (norm it) = item_bits it.
Proof. destruct it; cbn [norm item_bits]; [apply bits_of_mod|reflexivity|reflexivity]. Qed.

Lemma run_item_norm st it : run_item st (norm it) = run_item st it.
Proof.
  destruct it as [w v|b|bs]; cbn [norm]; try reflexivity.
  unfold run_item. cbn [item_bits]. rewrite bits_of_mod. reflexivity.
Qed.

Lemma run_items_norm l : forall st, run_items (map norm l) st = run_items l st.
Proof.
  unfold run_items. induction l as [|it r IH]; intros st; [reflexivity|].
  cbn [map fold_left]. rewrite run_item_norm. apply IH.
Qed.

Lemma chunks_of_norm l : chunks_of (map norm l) = chunks_of l.
Proof. unfold chunks_of. rewrite run_items_norm. reflexivity. Qed.

(* equal up to norm: the same Write calls on the io.Writer, hence the same bytes *)
Lemma chunks_same_norm a b : map norm a = map norm b -> chunks_of a = chunks_of b.
Proof. intros H. rewrite <- (chunks_of_norm a), <- (chunks_of_norm b), H. reflexivity. Qed.

Lemma bytes_same_norm a b : map norm a = map norm b -> bytes_of_items a = bytes_of_items b.
Proof. intros H. unfold bytes_of_items. rewrite (chunks_same_norm a b H). reflexivity. Qed.

Lemma map_nsnd_snd l : map nsnd l = map norm (map snd l).
Proof. rewrite map_map. reflexivity. Qed.

(* what a caller of the model gets from wf_sim *)
Lemma wf_ok_chunks {A} (m : WF (A * merror)) items (a : A) : wf_ok m items a ->
  snd m = Some (a, ENil) /\ chunks_of (map snd (fst m)) = chunks_of items /\
  bytes_of_items (map snd (fst m)) = bytes_of_items items /\ nd (fst m) = true.
Proof.
  intros (H1 & H2 & H3). rewrite map_nsnd_snd in H2.
  repeat split; auto using chunks_same_norm, bytes_same_norm.
Qed.

(* ---- arithmetic of norm ---- *)

Lemma norm_bits_eq w a b : a mod 2 ^ Z.of_nat w = b mod 2 ^ Z.of_nat w -> norm (WBits w a) = norm (WBits w b).
Proof. intros H. cbn [norm]. rewrite H. reflexivity. Qed.

Lemma mod_mod_div a m n : 0 < n -> 0 < m -> m mod n = 0 -> (a mod m) mod n = a mod n.
Proof.
  intros Hn Hm H. symmetry. apply Zmod_div_mod; [exact Hn|exact Hm|].
  apply Z.mod_divide; [lia|exact H].
Qed.

(* (x mod 2^64) and x agree on their low 15 bits, etc.: closes  a mod 2^w = b mod 2^w  where a, b differ by inner `mod 2^N`s *)
Ltac mod_norm :=
  repeat match goal with
  | |- context [(?a mod ?m) mod ?n] => rewrite (mod_mod_div a m n) by (vm_compute; reflexivity)
  end; try reflexivity.

Ltac norm_items :=
  cbn [map nsnd norm snd fst];
  repeat (first [ reflexivity | apply f_equal2; [ first [ reflexivity | f_equal; mod_norm ] | ] ]).

(* ---- the monad: reduction, and facts about lists of tagged items ---- *)

Ltac wsimpl :=
  cbn [wbind wrun wcall wret wexit wpanic wemit wemits w_write wneed batch_err merror_is_nil negb fst snd app].

Lemma nd_app a b : nd (a ++ b) = nd a && nd b.
Proof. unfold nd. apply forallb_app. Qed.

Lemma nd_repeat g n : kept g = true -> nd (repeat g n) = true.
Proof. intros H. induction n; cbn [repeat nd forallb]; [reflexivity|]. fold (nd (repeat g n)). rewrite H, IHn. reflexivity. Qed.

Lemma map_nsnd_repeat g n : map nsnd (repeat g n) = repeat (nsnd g) n.
Proof. induction n; cbn [repeat map]; congruence. Qed.

Lemma map_norm_repeat it n : map norm (repeat it n) = repeat (norm it) n.
Proof. induction n; cbn [repeat map]; congruence. Qed.

(* the shape a caller sees of a callee proved wf_sim *)
Lemma wf_sim_ok_inv {A} (m : WF (A * merror)) items (a : A) : wf_sim m (Ok (items, a)) ->
  exists l, m = (l, Some (a, ENil)) /\ map nsnd l = map norm items /\ nd l = true.
Proof. destruct m as [l o]. intros (H1 & H2 & H3). cbn [fst snd] in *. subst o. eauto. Qed.

Lemma wf_sim_err_inv {A} (m : WF (A * merror)) c : wf_sim m (@Err (list witem * A) c) ->
  exists l a e, m = (l, Some (a, e)) /\ werr e = Some c.
Proof. destruct m as [l o]. intros (a & e & H1 & H2). cbn [snd] in H1. subst o. eauto. Qed.

Lemma wf_sim_panic_inv {A} (m : WF (A * merror)) : wf_sim m (@Panic (list witem * A)) -> exists l, m = (l, None).
Proof. destruct m as [l o]. cbn [wf_sim snd]. intros ->. eauto. Qed.

Lemma werr_not_nil e c : werr e = Some c -> merror_is_nil e = false.
Proof. destruct e; cbn; congruence. Qed.

(* ---- a conditional block whose two branches fall through is kept symbolic: no case split ---- *)

Lemma wbind_if {R A B} (c : bool) la (va : A) lb vb (k : A -> WM R B) :
  wbind (if c then (la, WVal va) else (lb, WVal vb)) k = wbind ((if c then la else lb), WVal (if c then va else vb)) k.
Proof. destruct c; reflexivity. Qed.

Lemma wbind_if_add {R B} (c : bool) la (va : Z) lb vb k (K : Z -> WM R B) : va = vb + k ->
  wbind (if c then (la, WVal va) else (lb, WVal vb)) K = wbind ((if c then la else lb), WVal (vb + (if c then k else 0))) K.
Proof. intros ->. destruct c; [reflexivity|]. rewrite Z.add_0_r. reflexivity. Qed.

Lemma snd_if {A B} (c : bool) (p q : A * B) : snd (if c then p else q) = if c then snd p else snd q.
Proof. destruct c; reflexivity. Qed.
Lemma fst_if {A B} (c : bool) (p q : A * B) : fst (if c then p else q) = if c then fst p else fst q.
Proof. destruct c; reflexivity. Qed.
Lemma if_same {A} (c : bool) (a : A) : (if c then a else a) = a.
Proof. destruct c; reflexivity. Qed.

(* equality of item lists up to norm, proved constructor by constructor *)
Definition ieq (l : list gitem) (m : list witem) : Prop := map nsnd l = map norm m.
Lemma ieq_nil : ieq [] []. Proof. reflexivity. Qed.
Lemma ieq_cons g it l m : nsnd g = norm it -> ieq l m -> ieq (g :: l) (it :: m).
Proof. unfold ieq. cbn [map]. intros -> ->. reflexivity. Qed.
Lemma ieq_app l1 m1 l2 m2 : ieq l1 m1 -> ieq l2 m2 -> ieq (l1 ++ l2) (m1 ++ m2).
Proof. unfold ieq. rewrite !map_app. intros -> ->. reflexivity. Qed.
Lemma ieq_if (c : bool) a a' b b' : ieq a a' -> ieq b b' -> ieq (if c then a else b) (if c then a' else b').
Proof. destruct c; auto. Qed.
Lemma ieq_repeat g it n m : nsnd g = norm it -> n = m -> ieq (repeat g n) (repeat it m).
Proof. unfold ieq. intros H ->. rewrite map_nsnd_repeat, map_norm_repeat, H. reflexivity. Qed.
Lemma nd_nil : nd [] = true. Proof. reflexivity. Qed.
Lemma nd_cons g l : kept g = true -> nd l = true -> nd (g :: l) = true.
Proof. unfold nd. cbn [forallb]. intros -> ->. reflexivity. Qed.
Lemma nd_app' a b : nd a = true -> nd b = true -> nd (a ++ b) = true.
Proof. rewrite nd_app. intros -> ->. reflexivity. Qed.
Lemma nd_if (c : bool) a b : nd a = true -> nd b = true -> nd (if c then a else b) = true.
Proof. destruct c; auto. Qed.

(* ---- tactics ----
   hooks the files that know the hand models redefine with ::=
     wmodel_cbn     reduce the model side after a case split (res_bind, need, ...)
     wmodel_unfold  unfold model helpers in front of the final comparison
     wcall1         replace the exposed call of a translated writer by the shape its lemma gives *)
Ltac wmodel_cbn := cbn [res_map res_bind].
Ltac wmodel_unfold := idtac.
Ltac wcall1 := fail.

Ltac wdone := wmodel_cbn; cbn [wf_sim snd]; first [reflexivity | eauto].

Ltac strip vb t :=
  match t with
  | vb + ?k => k
  | ?u + ?k => let u' := strip vb u in constr:(u' + k)
  end.
Ltac wif :=
  match goal with
  | |- context [wbind (if ?c then (?la, WVal ?va) else (?lb, WVal ?vb)) ?K] =>
      first [ let k := strip vb va in rewrite (wbind_if_add c la va lb vb k K) by ring
            | rewrite (wbind_if c la va lb vb K) ]
  end.
(* evaluate as far as possible; blocks that fall through on both sides become symbolic *)
Ltac wsym := repeat (wsimpl; unfold wret; repeat wif); wsimpl.

(* the pattern variables ?A ?B ?k cannot capture a term that mentions a variable bound further out, so these match the
   EXPOSED block only (the one evaluation is stuck on), not the blocks still under the binders of later continuations *)
Ltac wflag :=
  match goal with |- context [wbind (if ?c then ?A else ?B) ?k] =>
    let C := fresh "C" in destruct c eqn:C; wmodel_cbn end.
Ltac wneed1 :=
  match goal with |- context [wbind (wneed ?o) ?k] =>
    let x := fresh "x" in destruct o as [x|]; [| wsimpl; wdone]; wmodel_cbn; wsimpl end.

Ltac wcallee H :=
  let l := fresh "l" in let E := fresh "E" in let Hn := fresh "Hn" in let Hd := fresh "Hd" in
  destruct (wf_sim_ok_inv _ _ _ H) as (l & E & Hn & Hd); rewrite E; clear E.

(* a callee that can fail: its model result decides *)
Ltac wcall_res H :=
  let HX := fresh "HX" in pose proof H as HX;
  match type of HX with wf_sim _ ?r =>
    destruct r as [[? ?]|?|] eqn:?;
    [ wcallee HX; wsimpl
    | let lx := fresh in let ax := fresh in let ex := fresh in let EX := fresh in let Hx := fresh in
      destruct (wf_sim_err_inv _ _ HX) as (lx & ax & ex & EX & Hx); rewrite EX; wsimpl;
      rewrite (werr_not_nil _ _ Hx); wsimpl; wmodel_cbn; cbn [wf_sim snd]; eauto
    | let lx := fresh in let EX := fresh in destruct (wf_sim_panic_inv _ HX) as (lx & EX); rewrite EX; wsimpl; wdone ]
  end.

Ltac wstep := repeat (wsym; first [wflag | wneed1 | wcall1]); wsym.

Ltac whyps :=
  repeat match goal with
  | H : ?x = true |- context [?x] => rewrite H
  | H : ?x = false |- context [?x] => rewrite H
  end.
Ltac whead_eq :=
  cbn [nsnd norm snd fst];
  first [ reflexivity | solve [f_equal; mod_norm]
        | wmodel_unfold; whyps;
          repeat (match goal with |- context [if ?c then _ else _] => let C := fresh "C" in destruct c eqn:C end;
                  cbn [negb] in *; try discriminate);
          first [ reflexivity | solve [f_equal; mod_norm] | exfalso; lia ] ].
Ltac witems :=
  unfold wu8, wu16, wu32; wmodel_unfold; rewrite ?Z.sub_0_r;
  repeat (rewrite fst_if; cbn [fst]);
  rewrite ?if_same; rewrite <- ?app_assoc; cbn [app];
  change (map nsnd ?l = map norm ?m) with (ieq l m);
  repeat first
    [ assumption
    | apply ieq_nil
    | apply ieq_cons; [ whead_eq | ]
    | apply ieq_app
    | apply ieq_if
    | apply ieq_repeat; [ whead_eq | first [ reflexivity | lia ] ] ].
Ltac wnd :=
  repeat first
    [ assumption
    | apply nd_nil
    | apply nd_cons; [ reflexivity | ]
    | apply nd_app'
    | apply nd_if
    | apply nd_repeat; reflexivity ].
Ltac wcount :=
  first [ reflexivity
        | apply f_equal; apply f_equal2; [ | reflexivity ];
          wmodel_unfold; repeat (rewrite snd_if; cbn [snd fst]);
          first [ reflexivity | lia
                | repeat match goal with |- context [if ?c then _ else _] => destruct c end; lia ] ].
Ltac wfinish :=
  unfold wf_sim, wf_ok; cbn [fst snd]; rewrite ?app_nil_r;
  split; [ wcount | split; [ witems | wnd ] ].
