(* Common ground of the Proofs/DemuxGenEq*.v files: how the hand-written demuxer model (Model/Demux.v, Model/Reader.v)
   instantiates the abstract world and the abstract operations of Gen/DemuxGen.v.  No lemma here mentions a generated
   FUNCTION: a change to the Go source can break DemuxGenEqData / Rewind / Parse / Buf / Detect / Psi, each imported
   only by the property whose theorems speak about that function, not this file.

   World.  W := mworld: the reader (shared by the Demuxer and its packet buffer), the program map (shared by the
   Demuxer, the pool and parseData), and the two ghost logs of Model/Demux.v.  The Demuxer's own fields (data buffer,
   packet buffer, pool, size option) stay fields.

   Errors.  The model's results carry a code (the E_ constants of Base/Iter.v); the generated code handles Go error
   VALUES (gerr).  code_x reads a code off an error value the way the harness does (errors.Is against the sentinels;
   the injected failure = any error made outside the translated code, EExt, anywhere in the chain).  Where a caller
   compares with == ErrNoMorePackets the relation is exact (res_rel_exact): the value is that sentinel itself exactly
   when the model's code is E_nomore.  The operations instantiated by the model return [err_of c] for the model's code
   c, where err_of is ANY function with the stated properties (err_of_plain is one): the equalities hold for every
   such representation of errors, not for one chosen here.  Codes the harness cannot tell apart from the generic one
   are identified with it on the model side (norm). *)
From Coq Require Import ZArith List Lia Bool String ZifyBool.
Require Import Base.Bits Base.Iter Gen.Consts Gen.Types Gen.Preds Gen.DemuxGen
  Model.Packet Model.Pool Model.Reader Model.Demux.
Import ListNotations.
Open Scope Z_scope.

(* ---- the payload concatenation of isPSIComplete / parseData ----
   both functions sum the payload lengths, take a slice of that length from bytesPool and copy the payloads into it
   one after the other; the two loops, as folds over the packets, in closed form (stated for the loop bodies as
   they are generated today; the use sites apply them up to conversion and break when the generated body differs) *)
(* replace the first fold of the goal by its closed form (the lemma is used up to conversion: the generated text
   keeps its lets, tactics may have reduced them) *)
Ltac rew_ofold H :=
  match goal with |- context [ofold ?f ?l ?s] =>
    match type of H with _ = ?rhs => replace (ofold f l s) with rhs by (symmetry; exact H) end end.


Lemma sum_loop ps : forall l0,
  ofold (fun l (p : Packet) => let l := (l + (Z.of_nat (List.length (Packet_Payload p)))) in Done l) ps l0 =
  Done (l0 + Z.of_nat (List.length (concat_payload ps))).
Proof.
  induction ps as [|p r IH]; intros l0; cbn [ofold concat_payload flat_map obind].
  - f_equal. cbn. lia.
  - rewrite IH. f_equal. fold (concat_payload r). rewrite app_length. lia.
Qed.

Lemma copy_loop ps : forall pre buf,
  List.length buf = (List.length pre + List.length (concat_payload ps))%nat -> firstn (List.length pre) buf = pre ->
  ofold (fun '(payload, o) (p_2 : Packet) =>
    if (andb (0 <=? o) (o <=? (Z.of_nat (List.length payload)))) then
      let '(payload, r_1_) := copy_at payload o (Packet_Payload p_2) in
      let o := (o + r_1_) in Done (payload, o)
    else Panicked) ps (buf, Z.of_nat (List.length pre)) =
  Done (pre ++ concat_payload ps, Z.of_nat (List.length pre + List.length (concat_payload ps))).
Proof.
  induction ps as [|p r IH]; intros pre buf Hlen Hpre.
  - cbn [ofold concat_payload flat_map List.length] in *. rewrite Nat.add_0_r in *. rewrite app_nil_r.
    rewrite <- Hlen in Hpre. rewrite firstn_all in Hpre. subst buf. reflexivity.
  - change (concat_payload (p :: r)) with (Packet_Payload p ++ concat_payload r) in *.
    cbn [ofold]. rewrite app_length in Hlen.
    set (src := Packet_Payload p) in *.
    replace (andb (0 <=? Z.of_nat (List.length pre)) (Z.of_nat (List.length pre) <=? Z.of_nat (List.length buf))) with true by lia.
    unfold copy_at.
    replace (Z.min (Z.of_nat (List.length buf) - Z.of_nat (List.length pre)) (Z.of_nat (List.length src))) with (Z.of_nat (List.length src)) by lia.
    rewrite !Nat2Z.id. rewrite Hpre.
    replace (Z.to_nat (Z.of_nat (List.length pre) + Z.of_nat (List.length src))) with (List.length pre + List.length src)%nat by lia.
    cbn [obind].
    replace (Z.of_nat (List.length pre) + Z.of_nat (List.length src)) with (Z.of_nat (List.length (pre ++ src))) by (rewrite app_length; lia).
    rewrite (app_assoc pre src).
    rewrite IH.
    + do 2 f_equal. rewrite !app_length. lia.
    + rewrite firstn_all. rewrite !app_length, skipn_length. lia.
    + rewrite firstn_all. rewrite (app_assoc pre src). rewrite firstn_app, firstn_all, Nat.sub_diag.
      cbn [firstn]. apply app_nil_r.
Qed.


(* ---- errors ---- *)

Definition e_nomore : gerr := EVar "ErrNoMorePackets".
Definition e_sync : gerr := EVar "ErrPacketMustStartWithASyncByte".
Definition e_skipped : gerr := EVar "errSkippedPacket".
Definition e_eof : gerr := EVar "io.EOF".
Definition e_ueof : gerr := EVar "io.ErrUnexpectedEOF".

(* an error made outside the translated code somewhere in the chain: the injected failure *)
Fixpoint has_ext (e : gerr) : bool :=
  match e with EExt _ => true | EWrap i => has_ext i | _ => false end.

Definition code_x (e : gerr) : Z :=
  if has_ext e then E_injected
  else if gerr_is e e_nomore then E_nomore
  else if gerr_is e e_sync then E_sync
  else if gerr_is e e_skipped then E_skipped
  else E_generic.

Definition norm (c : Z) : Z :=
  if (c =? E_nomore) || (c =? E_injected) || (c =? E_sync) || (c =? E_skipped) then c else E_generic.
Definition norm_res {A : Type} (r : res A) : res A := match r with Err c => Err (norm c) | x => x end.

Ltac norm_cases c :=
  unfold norm, E_nomore, E_injected, E_sync, E_skipped, E_generic;
  destruct (Z.eqb_spec c 1); [subst; reflexivity|];
  destruct (Z.eqb_spec c 7); [subst; reflexivity|];
  destruct (Z.eqb_spec c 2); [subst; reflexivity|];
  destruct (Z.eqb_spec c 3); [subst; reflexivity|];
  reflexivity.

Lemma norm_idem c : norm (norm c) = norm c.
Proof. norm_cases c. Qed.

Lemma norm_nomore c : (norm c =? E_nomore) = (c =? E_nomore).
Proof. norm_cases c. Qed.

Lemma norm_skipped c : (norm c =? E_skipped) = (c =? E_skipped).
Proof. norm_cases c. Qed.

(* fmt.Errorf("...: %w", e) keeps the code of e *)
Lemma code_x_wrap e : code_x (EWrap e) = code_x e.
Proof. unfold code_x. cbn [has_ext gerr_is gerr_eqb e_nomore e_sync e_skipped orb]. reflexivity. Qed.

Lemma gerr_eqb_eq a : forall b, gerr_eqb a b = true -> a = b.
Proof.
  induction a as [x|x IH| |x IH]; intros [y|y| |y] H; cbn [gerr_eqb] in H; try discriminate; try reflexivity.
  - apply String.eqb_eq in H. subst. reflexivity.
  - f_equal. apply IH. exact H.
  - f_equal. apply IH. exact H.
Qed.

Lemma code_x_nomore e : gerr_eqb e e_nomore = true -> code_x e = E_nomore.
Proof. intros H. apply gerr_eqb_eq in H. subst. reflexivity. Qed.

(* how a (value, error) pair returned by the generated code relates to a result of the model: the same value, or an
   error with the model's code (exact: moreover it is the ErrNoMorePackets sentinel itself exactly when the model's
   code is E_nomore, which is what a caller comparing with == relies on) *)
Definition res_rel {A : Type} (v : option A) (err : option gerr) (r : res A) : Prop :=
  match err, r with
  | Some e, Err c => code_x e = norm c
  | None, Ok a => v = Some a
  | _, _ => False
  end.
Definition res_rel_exact {A : Type} (v : option A) (err : option gerr) (r : res A) : Prop :=
  match err, r with
  | Some e, Err c => code_x e = norm c /\ gerr_eqb e e_nomore = (c =? E_nomore)
  | None, Ok a => v = Some a
  | _, _ => False
  end.

(* ---- the world ---- *)

Record mworld := mk_mworld {
  mw_reader : reader;
  mw_pm : pmap;
  mw_groups : list (list Packet);
  mw_consulted : list Packet
}.

Definition world_of (s : dstate) : mworld := mk_mworld (d_reader s) (d_pm s) (d_groups s) (d_consulted s).
Definition state_of (buf : list DemuxerData) (pb : option pbuf) (pl : pool) (opt : Z) (w : mworld) : dstate :=
  mk_dstate buf pb pl (mw_pm w) (mw_reader w) opt (mw_groups w) (mw_consulted w).
Definition mw_set_reader (w : mworld) (r : reader) : mworld := mk_mworld r (mw_pm w) (mw_groups w) (mw_consulted w).

Lemma state_of_world s : state_of (d_buffer s) (d_pb s) (d_pool s) (d_opt_size s) (world_of s) = s.
Proof. destruct s; reflexivity. Qed.

(* Go function values: a PacketSkipper / PacketsParser of the model as the value the generated code passes around,
   and back *)
Definition go_skipper := option Packet -> outcome bool.
Definition go_parser := list Packet -> outcome (list DemuxerData * bool * option gerr).

Definition embed_skip (f : Packet -> bool) : go_skipper :=
  fun op => match op with Some p => Done (f p) | None => Panicked end.
Definition unembed_skip (g : go_skipper) : Packet -> bool :=
  fun p => match g (Some p) with Done b => b | _ => false end.

Section Ops.
Variable err_of : Z -> gerr.
Hypothesis err_of_nomore : forall c, gerr_eqb (err_of c) e_nomore = (c =? E_nomore).
Hypothesis err_of_code : forall c, code_x (err_of c) = norm c.

Definition embed_parser (f : custom_parser) : go_parser :=
  fun ps => match f ps with
            | Ok (ds, sk) => Done (ds, sk, None)
            | Err c => Done ([], false, Some (err_of c))
            | Panic => Panicked
            end.
Definition unembed_parser (g : go_parser) : custom_parser :=
  fun ps => match g ps with
            | Done (ds, sk, None) => Ok (ds, sk)
            | Done (_, _, Some e) => Err (code_x e)
            | _ => Panic
            end.

(* parse_data looks at its PacketsParser only through the class of its result *)
Lemma parse_data_embed P prs pm ps :
  parse_data P (option_map unembed_parser (option_map embed_parser prs)) pm ps = parse_data P prs pm ps.
Proof.
  destruct prs as [f|]; [|reflexivity]. cbn [option_map]. unfold parse_data, unembed_parser, embed_parser.
  destruct (f ps) as [[ds [|]]|c|]; reflexivity.
Qed.

(* results of the model as (value, error) pairs of the generated code *)
Definition go_err (c : Z) : option gerr := Some (err_of c).

(* ---- the Demuxer's abstract operations, by the model ---- *)

(* context.Context is always live (DESIGN.md section 7) *)
Definition ctx_err_m (w : mworld) (_ : unit) : outcome (option gerr * mworld) := Done (None, w).

(* the packet buffer of the generated code: the model's pbuf together with the skipper it was created with *)
Definition gpb : Type := pbuf * option go_skipper.
Definition skip_of (o : option go_skipper) : Packet -> bool :=
  match o with Some g => unembed_skip g | None => fun _ => false end.

Definition new_pb_m (w : mworld) (_ : unit) (size : Z) (sk : option go_skipper) : outcome (option gpb * option gerr * mworld) :=
  match new_packet_buffer (mw_reader w) size with
  | (Ok pb, r') => Done (Some (pb, sk), None, mw_set_reader w r')
  | (Err c, r') => Done (None, go_err c, mw_set_reader w r')
  | (Panic, _) => Panicked
  end.

Definition pb_next_m (w : mworld) (pb : gpb) : outcome (gpb * option Packet * option gerr * mworld) :=
  let '(rp, r', l) := packet_buffer_next (skip_of (snd pb)) (fst pb) (mw_reader w) in
  let w' := mk_mworld r' (mw_pm w) (mw_groups w) (mw_consulted w ++ l) in
  match rp with
  | Ok p => Done (pb, Some p, None, w')
  | Err c => Done (pb, None, go_err c, w')
  | Panic => Panicked
  end.

Definition pool_add_m (w : mworld) (pl : pool) (p : option Packet) : outcome (pool * list Packet * mworld) :=
  match p with
  | Some p => let '(pl', ps) := pool_add (mw_pm w) pl p in Done (pl', ps, w)
  | None => Panicked
  end.

Definition pool_dump_m (w : mworld) (pl : pool) : outcome (pool * list Packet * mworld) :=
  let '(pl', ps) := pool_dump pl in Done (pl', ps, w).

Definition new_pool_m (w : mworld) (_ : option unit) : outcome (option pool * mworld) := Done (Some [], w).

(* parseData: the group is logged (ghost), then parsed against the program map of the world *)
Definition parse_data_m (P : dparsers) (w : mworld) (ps : list Packet) (prs : option go_parser) (_ : option unit)
  : outcome (list DemuxerData * option gerr * mworld) :=
  let w1 := mk_mworld (mw_reader w) (mw_pm w) (mw_groups w ++ [ps]) (mw_consulted w) in
  match parse_data P (option_map unembed_parser prs) (mw_pm w1) ps with
  | Ok ds => Done (ds, None, w1)
  | Err c => Done ([], go_err c, w1)
  | Panic => Panicked
  end.

(* programMap.setUnlocked(pid, number) *)
Definition pm_set_m (w : mworld) (_ : unit) (pid number : Z) : outcome mworld :=
  Done (mk_mworld (mw_reader w) (pm_add (mw_pm w) pid) (mw_groups w) (mw_consulted w)).

(* rewind(r) *)
Definition rewind_m (w : mworld) (_ : unit) : outcome (Z * option gerr * mworld) :=
  let '(n, r') := rewind_reader (mw_reader w) in Done (n, None, mw_set_reader w r').

End Ops.

(* ---- the packet buffer's abstract operations, by the model's reader ----
   An io.Reader value is its kind (what the type assertions to io.Seeker and to a bufio.Reader answer); the bytes and the
   position are in the world.  A reader's own failure (the injected fault) is EExt wr for an ARBITRARY wr: it may wrap
   io.EOF, io.ErrUnexpectedEOF or anything else. *)
Definition rerr_err (wr : gerr) (e : option rerr) : option gerr :=
  match e with
  | None => None
  | Some RInjected => Some (EExt wr)
  | Some REOF => Some e_eof
  | Some RUnexpectedEOF => Some e_ueof
  end.

(* io.ReadFull(r, buf): the bytes obtained overwrite the front of buf *)
Definition read_full_m (wr : gerr) (w : mworld) (_ : rkind) (buf : list Z) : outcome (list Z * Z * option gerr * mworld) :=
  let '((bs, e), r') := read_full (mw_reader w) (Z.of_nat (List.length buf)) in
  Done (bs ++ skipn (List.length bs) buf, Z.of_nat (List.length bs), rerr_err wr e, mw_set_reader w r').

(* bufio.Reader.Peek(n): the bytes available (nothing consumed); io.EOF when fewer than n *)
Definition peek_m (wr : gerr) (w : mworld) (_ : unit) (n : Z) : outcome (list Z * option gerr * mworld) :=
  let '((bs, e), _) := read_full (mw_reader w) n in
  Done (bs, match e with None => None | Some RInjected => Some (EExt wr) | Some _ => Some e_eof end, w).

(* bufio.Reader.Discard(n) *)
Definition discard_m (w : mworld) (_ : unit) (n : Z) : outcome (Z * option gerr * mworld) :=
  Done (n, None, mw_set_reader w (snd (read_full (mw_reader w) n))).

Definition as_seeker_m (k : rkind) : option unit := match k with Seekable => Some tt | _ => None end.
Definition as_bufio_m (k : rkind) : option unit := match k with Bufio => Some tt | _ => None end.

(* io.Seeker.Seek(0, io.SeekStart) of the model's seekable reader; the model knows no other seek *)
Definition seek_m (w : mworld) (_ : unit) (off whence : Z) : outcome (Z * option gerr * mworld) :=
  if (off =? 0) && (whence =? 0) then Done (0, None, mw_set_reader w (r_seek0 (mw_reader w))) else Panicked.

(* parsePacket: the packet handed to the skipper is logged (ghost) *)
Definition parse_packet_m (err_of : Z -> gerr) (w : mworld) (i : iter) (sk : option go_skipper)
  : outcome (iter * option Packet * option gerr * mworld) :=
  let w' := mk_mworld (mw_reader w) (mw_pm w) (mw_groups w) (mw_consulted w ++ consulted (ibs i)) in
  match run_iter (parse_packet (skip_of sk)) (ibs i) with
  | Ok p => Done (i, Some p, None, w')
  | Err c => Done (i, None, Some (err_of c), w')
  | Panic => Panicked
  end.

(* the reader's bookkeeping is consistent: what is left is what total and position say *)
Definition rest_len (r : reader) : Prop := Z.of_nat (List.length (r_rest r)) = r_total r - r_pos r.

Lemma r_stop_le_len r : fst (r_stop r) <= r_len r.
Proof. unfold r_stop, r_len. destruct (r_fault r) as [f|]; [destruct (f <=? r_total r) eqn:E|]; cbn [fst]; lia. Qed.

Lemma read_full_ok r n bs r' : rest_len r -> 0 <= n -> read_full r n = ((bs, None), r') ->
  Z.of_nat (List.length bs) = n /\ rest_len r' /\ r_len r' = r_len r /\ r_pos r' = r_pos r + n /\
  n <= r_len r - r_pos r /\ r_kind r' = r_kind r.
Proof.
  unfold read_full, rest_len. intros Hl Hn. pose proof (r_stop_le_len r) as Hs. unfold r_len in *.
  destruct (r_stop r) as [stop inj]. cbn [fst] in Hs.
  destruct (n <=? Z.max 0 (stop - r_pos r)) eqn:E; [|discriminate].
  intros H. inversion H; subst. unfold r_advance. cbn [r_rest r_total r_pos r_kind].
  rewrite firstn_length, skipn_length. repeat split; lia.
Qed.

Lemma rest_len_new data f k : rest_len (new_reader data f k).
Proof. unfold rest_len, new_reader. cbn [r_rest r_total r_pos]. lia. Qed.

Lemma rest_len_seek0 r : r_total r = Z.of_nat (List.length (r_all r)) -> rest_len (r_seek0 r).
Proof. intros H. unfold rest_len, r_seek0. cbn [r_rest r_total r_pos]. lia. Qed.

Lemma read_full_len r n bs e r' : 0 <= n -> read_full r n = ((bs, e), r') -> Z.of_nat (List.length bs) <= n.
Proof.
  unfold read_full. intros Hn. destruct (r_stop r) as [stop inj].
  destruct (n <=? Z.max 0 (stop - r_pos r)) eqn:E; intros H; inversion H; subst; rewrite firstn_length; lia.
Qed.

Lemma overwrite_length (bs buf : list Z) : (List.length bs <= List.length buf)%nat ->
  List.length (bs ++ skipn (List.length bs) buf) = List.length buf.
Proof. intros H. rewrite app_length, skipn_length. lia. Qed.

(* the hypotheses on err_of are satisfiable: the plainest representation of the model's codes *)
Definition err_of_plain (wr : gerr) (c : Z) : gerr :=
  if c =? E_nomore then e_nomore
  else if c =? E_injected then EExt wr
  else if c =? E_sync then EWrap e_sync
  else if c =? E_skipped then e_skipped
  else ENew.

Lemma err_of_plain_ok wr :
  (forall c, gerr_eqb (err_of_plain wr c) e_nomore = (c =? E_nomore)) /\
  (forall c, code_x (err_of_plain wr c) = norm c).
Proof. split; intros c; unfold err_of_plain; norm_cases c. Qed.
