(* descriptor.go, continued: the descriptor bodies with item loops (parental rating, subtitling, teletext, local time
   offset, extended event, VBI data with its inner loop) and with optional bytes (AC-3, enhanced AC-3, supplementary
   audio) are equal to their regenerated source; the statement quoted by Props/C14.v. *)
From Coq Require Import ZArith List Lia Bool ZifyBool.
Require Import Base.Bits Base.Iter Gen.Consts Gen.Types Gen.Preds Gen.PsiGen.
Require Import Model.Packet Model.Dvb Model.Desc Proofs.ParseGenBits Proofs.ParseGenSim Proofs.PsiGenSim Proofs.DescProofs Proofs.PsiGenDesc.
Import ListNotations.
Open Scope Z_scope.

(* ---------------- parental rating ---------------- *)

Lemma progress_parental_rating_item : progress parental_rating_item.
Proof. unfold parental_rating_item. apply progress_bind_mono; [apply progress_next_bytes; lia|]. intros. mono_tac. Qed.

Lemma parental_rating_loop_sim e : forall fuel d,
  sim (fun l d' => d' = set_DescriptorParentalRating_Items (DescriptorParentalRating_Items d ++ l) d)
      (iloop_fuel fuel e parental_rating_item) (newDescriptorParentalRating_loop1 fuel e d).
Proof.
  induction fuel as [|k IH]; intros d; [apply sim_err|].
  cbn [iloop_fuel newDescriptorParentalRating_loop1].
  eapply sim_bind; [apply sim_ioffset|]. intros off ? <-. cbv beta. apply sim_if.
  - set (lp := iloop_fuel k e parental_rating_item) in *. unfold parental_rating_item. cbv zeta.
    apply sim_assoc_l. step_bytesc bs Hok Hlen. apply sim_ret_bind_l'.
    eapply sim_map_l; [apply IH|]. cbv beta. intros l d' ->.
    psigen_cbv. rewrite <- app_assoc. reflexivity.
  - apply sim_ret. destruct d as [its]. psigen_cbv. rewrite app_nil_r. reflexivity.
Qed.

Lemma new_descriptor_parental_rating_sim e : sim eq (new_descriptor_parental_rating e) (newDescriptorParentalRating e).
Proof.
  unfold new_descriptor_parental_rating, newDescriptorParentalRating. cbv zeta.
  apply sim_iloop_len; [exact progress_parental_rating_item|].
  eapply sim_bind; [apply sim_ilength|]. intros n ? <-. cbv beta.
  eapply sim_bind; [apply parental_rating_loop_sim|]. cbv beta. intros l d' ->. apply sim_ret. reflexivity.
Qed.

(* ---------------- subtitling ---------------- *)

Lemma progress_subtitling_item : progress subtitling_item.
Proof. unfold subtitling_item. apply progress_bind_mono; [apply progress_next_bytes; lia|]. intros. mono_tac. Qed.

Lemma subtitling_loop_sim e : forall fuel d,
  sim (fun l d' => d' = set_DescriptorSubtitling_Items (DescriptorSubtitling_Items d ++ l) d)
      (iloop_fuel fuel e subtitling_item) (newDescriptorSubtitling_loop1 fuel e d).
Proof.
  induction fuel as [|k IH]; intros d; [apply sim_err|].
  cbn [iloop_fuel newDescriptorSubtitling_loop1].
  eapply sim_bind; [apply sim_ioffset|]. intros off ? <-. cbv beta. apply sim_if.
  - set (lp := iloop_fuel k e subtitling_item) in *. unfold subtitling_item. cbv zeta.
    apply sim_assoc_l. step_bytesc lang Hok0 Hlen0.
    apply sim_assoc_l. step_byte ty Hty.
    apply sim_assoc_l. step_bytes cp Hok1 Hlen1.
    apply sim_assoc_l. step_bytes ap Hok2 Hlen2.
    apply sim_ret_bind_l'.
    eapply sim_map_l; [apply IH|]. cbv beta. intros l d' ->.
    open_bytes cp Hok1 Hlen1. open_bytes ap Hok2 Hlen2.
    psigen_cbv. rewrite <- app_assoc. cbn [app]. repeat f_equal; bridge.
  - apply sim_ret. destruct d as [its]. psigen_cbv. rewrite app_nil_r. reflexivity.
Qed.

Lemma new_descriptor_subtitling_sim e : sim eq (new_descriptor_subtitling e) (newDescriptorSubtitling e).
Proof.
  unfold new_descriptor_subtitling, newDescriptorSubtitling. cbv zeta.
  apply sim_iloop_len; [exact progress_subtitling_item|].
  eapply sim_bind; [apply sim_ilength|]. intros n ? <-. cbv beta.
  eapply sim_bind; [apply subtitling_loop_sim|]. cbv beta. intros l d' ->. apply sim_ret. reflexivity.
Qed.

(* ---------------- teletext (also VBI teletext) ---------------- *)

Lemma progress_teletext_item : progress teletext_item.
Proof. unfold teletext_item. apply progress_bind_mono; [apply progress_next_bytes; lia|]. intros. mono_tac. Qed.

Lemma teletext_loop_sim e : forall fuel d,
  sim (fun l d' => d' = set_DescriptorTeletext_Items (DescriptorTeletext_Items d ++ l) d)
      (iloop_fuel fuel e teletext_item) (newDescriptorTeletext_loop1 fuel e d).
Proof.
  induction fuel as [|k IH]; intros d; [apply sim_err|].
  cbn [iloop_fuel newDescriptorTeletext_loop1].
  eapply sim_bind; [apply sim_ioffset|]. intros off ? <-. cbv beta. apply sim_if.
  - set (lp := iloop_fuel k e teletext_item) in *. unfold teletext_item. cbv zeta.
    apply sim_assoc_l. step_bytesc lang Hok0 Hlen0.
    apply sim_assoc_l. step_byte b Hb.
    apply sim_assoc_l. step_byte p Hp.
    apply sim_ret_bind_l'.
    eapply sim_map_l; [apply IH|]. cbv beta. intros l d' ->.
    assert (E1 : bitsf [b] 5 3 = Z.land b 7) by bridge.
    assert (E2 : bitsf [b] 0 5 = Z.shiftr b 3) by bridge.
    assert (E3 : bitsf [p] 0 4 * 10 + bitsf [p] 4 4 = ((Z.shiftr p 4 * 10) mod 256 + Z.land p 15) mod 256) by bridge.
    rewrite E1, E2, E3. psigen_cbv. rewrite <- app_assoc. reflexivity.
  - apply sim_ret. destruct d as [its]. psigen_cbv. rewrite app_nil_r. reflexivity.
Qed.

Lemma new_descriptor_teletext_sim e : sim eq (new_descriptor_teletext e) (newDescriptorTeletext e).
Proof.
  unfold new_descriptor_teletext, newDescriptorTeletext. cbv zeta.
  apply sim_iloop_len; [exact progress_teletext_item|].
  eapply sim_bind; [apply sim_ilength|]. intros n ? <-. cbv beta.
  eapply sim_bind; [apply teletext_loop_sim|]. cbv beta. intros l d' ->. apply sim_ret. reflexivity.
Qed.

(* ---------------- local time offset ---------------- *)

Lemma mono_dvb_duration_minutes : mono parse_dvb_duration_minutes.
Proof. unfold parse_dvb_duration_minutes. mono_tac. Qed.
Lemma mono_dvb_duration_seconds : mono parse_dvb_duration_seconds.
Proof. unfold parse_dvb_duration_seconds. mono_tac. Qed.
Lemma mono_dvb_time : mono parse_dvb_time.
Proof. unfold parse_dvb_time. mono_tac. apply mono_dvb_duration_seconds. Qed.

Lemma dvb_duration_minutes_self : sim eq parse_dvb_duration_minutes parse_dvb_duration_minutes.
Proof. apply sim_self. intros i a i' E. exact (proj2 (mono_dvb_duration_minutes i a i' E)). Qed.
Lemma dvb_time_self : sim eq parse_dvb_time parse_dvb_time.
Proof. apply sim_self. intros i a i' E. exact (proj2 (mono_dvb_time i a i' E)). Qed.

Lemma progress_local_time_offset_item : progress local_time_offset_item.
Proof.
  unfold local_time_offset_item. apply progress_bind_mono; [apply progress_next_bytes; lia|]. intros.
  mono_tac; first [apply mono_dvb_duration_minutes | apply mono_dvb_time].
Qed.

Notation gen_lto_loop := (newDescriptorLocalTimeOffset_loop1 parse_dvb_duration_minutes parse_dvb_time).

Lemma local_time_offset_loop_sim e : forall fuel d,
  sim (fun l d' => d' = set_DescriptorLocalTimeOffset_Items (DescriptorLocalTimeOffset_Items d ++ l) d)
      (iloop_fuel fuel e local_time_offset_item) (gen_lto_loop fuel e d).
Proof.
  induction fuel as [|k IH]; intros d; [apply sim_err|].
  cbn [iloop_fuel newDescriptorLocalTimeOffset_loop1].
  eapply sim_bind; [apply sim_ioffset|]. intros off ? <-. cbv beta. apply sim_if.
  - set (lp := iloop_fuel k e local_time_offset_item) in *. unfold local_time_offset_item. cbv zeta.
    apply sim_assoc_l. step_bytesc cc Hok0 Hlen0.
    apply sim_assoc_l. step_byte b Hb.
    apply sim_assoc_l. eapply sim_bind; [apply dvb_duration_minutes_self|]. intros lto ? <-. cbv beta.
    apply sim_assoc_l. eapply sim_bind; [apply dvb_time_self|]. intros toc ? <-. cbv beta.
    apply sim_assoc_l. eapply sim_bind; [apply dvb_duration_minutes_self|]. intros nto ? <-. cbv beta.
    apply sim_ret_bind_l'.
    eapply sim_map_l; [apply IH|]. cbv beta. intros l d' ->.
    assert (E1 : bitsf [b] 0 6 = Z.shiftr b 2) by bridge.
    assert (E2 : bitb [b] 7 = (Z.land b 1 >? 0)) by bridge.
    rewrite E1, E2. psigen_cbv. rewrite <- app_assoc. reflexivity.
  - apply sim_ret. destruct d as [its]. psigen_cbv. rewrite app_nil_r. reflexivity.
Qed.

Lemma new_descriptor_local_time_offset_sim e :
  sim eq (new_descriptor_local_time_offset e) (newDescriptorLocalTimeOffset parse_dvb_duration_minutes parse_dvb_time e).
Proof.
  unfold new_descriptor_local_time_offset, newDescriptorLocalTimeOffset. cbv zeta.
  apply sim_iloop_len; [exact progress_local_time_offset_item|].
  eapply sim_bind; [apply sim_ilength|]. intros n ? <-. cbv beta.
  eapply sim_bind; [apply local_time_offset_loop_sim|]. cbv beta. intros l d' ->. apply sim_ret. reflexivity.
Qed.

(* ---------------- extended event ---------------- *)

Lemma new_descriptor_extended_event_item_sim : sim eq new_descriptor_extended_event_item newDescriptorExtendedEventItem.
Proof.
  unfold new_descriptor_extended_event_item, newDescriptorExtendedEventItem. cbv zeta.
  step_byte dl H1. step_bytesc descr Hok1 Hlen1. step_byte cl H2. step_bytesc content Hok2 Hlen2.
  apply sim_ret. reflexivity.
Qed.

Lemma progress_extended_event_item : progress new_descriptor_extended_event_item.
Proof. unfold new_descriptor_extended_event_item. apply progress_bind_mono; [apply progress_next_byte|]. intros. mono_tac. Qed.

Lemma extended_event_loop_sim e : forall fuel d,
  sim (fun l d' => d' = set_DescriptorExtendedEvent_Items (DescriptorExtendedEvent_Items d ++ l) d)
      (iloop_fuel fuel e new_descriptor_extended_event_item) (newDescriptorExtendedEvent_loop1 fuel e d).
Proof.
  induction fuel as [|k IH]; intros d; [apply sim_err|].
  cbn [iloop_fuel newDescriptorExtendedEvent_loop1].
  eapply sim_bind; [apply sim_ioffset|]. intros off ? <-. cbv beta. apply sim_if.
  - cbv zeta. eapply sim_bind; [apply new_descriptor_extended_event_item_sim|]. intros it ? <-. cbv beta.
    eapply sim_map_l; [apply IH|]. cbv beta. intros l d' ->.
    psigen_cbv. rewrite <- app_assoc. reflexivity.
  - apply sim_ret. destruct d as [a b c d e0]. psigen_cbv. rewrite app_nil_r. reflexivity.
Qed.

Lemma new_descriptor_extended_event_sim : sim eq new_descriptor_extended_event newDescriptorExtendedEvent.
Proof.
  unfold new_descriptor_extended_event, newDescriptorExtendedEvent. cbv zeta.
  step_byte b Hb. step_bytesc lang Hok0 Hlen0. step_byte il Hil.
  eapply sim_bind; [apply sim_ioffset|]. intros off ? <-. cbv beta.
  apply sim_iloop_len; [exact progress_extended_event_item|].
  eapply sim_bind; [apply sim_ilength|]. intros n ? <-. cbv beta.
  eapply sim_bind; [apply extended_event_loop_sim|]. cbv beta. intros l d' ->.
  step_byte tlen Htl. step_bytesc text Hok1 Hlen1. apply sim_ret.
  assert (E1 : bitsf [b] 4 4 = Z.land b 15) by bridge.
  assert (E2 : bitsf [b] 0 4 = Z.shiftr b 4) by bridge.
  rewrite E1, E2. reflexivity.
Qed.

(* ---------------- `if flag { b, err = i.NextByte(); d.X = b }` and the trailing bytes ---------------- *)

Lemma sim_opt_field {D} (c : bool) (set : Z -> D -> D) (d0 : D) :
  set 0 d0 = d0 ->
  sim (fun v d' => d' = set v d0) (opt_byte c)
      (if c then ibind next_byte (fun r => iret (set r d0)) else iret d0).
Proof.
  intros H0. unfold opt_byte. destruct c.
  - eapply sim_map_r; [apply sim_next_byte|]. intros x ? (<- & _). reflexivity.
  - apply sim_ret. symmetry. exact H0.
Qed.

Lemma sim_rest_field {D} e (set : list Z -> D -> D) (d0 : D) :
  set [] d0 = d0 ->
  sim (fun v d' => d' = set v d0) (rest_bytes e)
      (ibind ioffset (fun o1 => if o1 <? e then ibind ioffset (fun o2 => ibind (next_bytes (e - o2)) (fun r => iret (set r d0))) else iret d0)).
Proof.
  intros H0 i Hi. unfold rest_bytes, ibind, ioffset, iret. destruct (ioff i <? e); [|rewrite H0; auto].
  pose proof (sim_next_bytes (e - ioff i) i Hi) as S.
  destruct (next_bytes (e - ioff i) i) as [[bs i1]|c|]; auto. destruct S as (_ & _ & Hb). auto.
Qed.

Ltac opt_field set :=
  lazymatch goal with |- sim _ _ (ibind (if _ then _ else iret ?D) _) =>
    eapply sim_bind; [apply (sim_opt_field _ set D); reflexivity|] end.

(* ---------------- AC-3 ---------------- *)

Lemma new_descriptor_ac3_sim e : sim eq (new_descriptor_ac3 e) (newDescriptorAC3 e).
Proof.
  unfold new_descriptor_ac3, newDescriptorAC3. cbv zeta.
  step_byte b Hb. flags b Hb. psigen_cbv.
  opt_field (fun v d => set_DescriptorAC3_ComponentType v d). cbv beta. intros ct d ->. psigen_cbv.
  opt_field (fun v d => set_DescriptorAC3_BSID v d). cbv beta. intros bsid d ->. psigen_cbv.
  opt_field (fun v d => set_DescriptorAC3_MainID v d). cbv beta. intros mid d ->. psigen_cbv.
  opt_field (fun v d => set_DescriptorAC3_ASVC v d). cbv beta. intros asvc d ->. psigen_cbv.
  copy_discipline_in_block.
  lazymatch goal with |- sim _ _ (ibind ioffset (fun _ => ibind (if _ then _ else iret ?D) _)) =>
    apply (rest_bytes_sim e _ (fun r => set_DescriptorAC3_AdditionalInfo r D)) end.
  intros; reflexivity.
Qed.

(* ---------------- enhanced AC-3 ---------------- *)

Lemma new_descriptor_enhanced_ac3_sim e : sim eq (new_descriptor_enhanced_ac3 e) (newDescriptorEnhancedAC3 e).
Proof.
  unfold new_descriptor_enhanced_ac3, newDescriptorEnhancedAC3. cbv zeta.
  step_byte b Hb. flags b Hb. psigen_cbv.
  opt_field (fun v d => set_DescriptorEnhancedAC3_ComponentType v d). cbv beta. intros ct d ->. psigen_cbv.
  opt_field (fun v d => set_DescriptorEnhancedAC3_BSID v d). cbv beta. intros bsid d ->. psigen_cbv.
  opt_field (fun v d => set_DescriptorEnhancedAC3_MainID v d). cbv beta. intros mid d ->. psigen_cbv.
  opt_field (fun v d => set_DescriptorEnhancedAC3_ASVC v d). cbv beta. intros asvc d ->. psigen_cbv.
  opt_field (fun v d => set_DescriptorEnhancedAC3_SubStream1 v d). cbv beta. intros s1 d ->. psigen_cbv.
  opt_field (fun v d => set_DescriptorEnhancedAC3_SubStream2 v d). cbv beta. intros s2 d ->. psigen_cbv.
  opt_field (fun v d => set_DescriptorEnhancedAC3_SubStream3 v d). cbv beta. intros s3 d ->. psigen_cbv.
  copy_discipline_in_block.
  lazymatch goal with |- sim _ _ (ibind ioffset (fun _ => ibind (if _ then _ else iret ?D) _)) =>
    apply (rest_bytes_sim e _ (fun r => set_DescriptorEnhancedAC3_AdditionalInfo r D)) end.
  intros; reflexivity.
Qed.

(* ---------------- supplementary audio (inside the extension descriptor) ---------------- *)

Lemma new_descriptor_extension_supplementary_audio_sim e :
  sim eq (new_descriptor_extension_supplementary_audio e) (newDescriptorExtensionSupplementaryAudio e).
Proof.
  unfold new_descriptor_extension_supplementary_audio, newDescriptorExtensionSupplementaryAudio. cbv zeta.
  step_byte b Hb. flags b Hb.
  assert (E : Z.land (Z.shiftr b 2) 31 = bitsf [b] 1 5) by (symmetry; bridge).
  rewrite E. psigen_cbv.
  lazymatch goal with |- sim _ _ (ibind (if _ then _ else iret ?D) _) =>
    eapply (sim_bind (fun v d' => d' = set_DescriptorExtensionSupplementaryAudio_LanguageCode v D)) end.
  { copy_discipline_in_block. apply sim_if.
    - eapply sim_map_r; [apply sim_next_bytes|]. intros x ? (<- & _ & _). reflexivity.
    - apply sim_ret. reflexivity. }
  cbv beta. intros lang d ->. psigen_cbv.
  copy_discipline_in_block.
  lazymatch goal with |- sim _ _ (ibind ioffset (fun _ => ibind (if _ then _ else iret ?D) _)) =>
    apply (rest_bytes_sim e _ (fun r => set_DescriptorExtensionSupplementaryAudio_PrivateData r D)) end.
  intros; reflexivity.
Qed.

(* ---------------- VBI data ---------------- *)

Lemma vbi_inner_loop_sim e : forall fuel srv,
  sim (fun l srv' => srv' = if is_vbi_line_service (DescriptorVBIDataService_DataServiceID srv)
                            then set_DescriptorVBIDataService_Descriptors (DescriptorVBIDataService_Descriptors srv ++ map vbi_line l) srv
                            else srv)
      (iloop_fuel fuel e next_byte) (newDescriptorVBIData_loop2 fuel e srv).
Proof.
  induction fuel as [|k IH]; intros srv; [apply sim_err|].
  cbn [iloop_fuel newDescriptorVBIData_loop2].
  eapply sim_bind; [apply sim_ioffset|]. intros off ? <-. cbv beta. apply sim_if.
  - step_byte b Hb. cbv zeta.
    eapply sim_map_l; [apply IH|]. cbv beta. intros l srv' ->.
    unfold is_vbi_line_service. destruct srv as [id ds]. psigen_cbn.
    assert (E1 : (Z.land b 32 >? 0) = bitb [b] 2) by (symmetry; bridge).
    assert (E2 : Z.land b 31 = bitsf [b] 3 5) by (symmetry; bridge).
    rewrite E1, E2.
    destruct ((id =? C_VBIDataServiceIDClosedCaptioning) || (id =? C_VBIDataServiceIDEBUTeletext) ||
              (id =? C_VBIDataServiceIDInvertedTeletext) || (id =? C_VBIDataServiceIDMonochrome442Samples) ||
              (id =? C_VBIDataServiceIDVPS) || (id =? C_VBIDataServiceIDWSS)) eqn:El; psigen_cbn; rewrite ?El; psigen_cbn.
    + cbn [map]. rewrite <- app_assoc. reflexivity.
    + reflexivity.
  - apply sim_ret. cbn [map]. destruct srv as [id ds]. psigen_cbn. rewrite app_nil_r.
    destruct (is_vbi_line_service id); reflexivity.
Qed.

Lemma progress_vbi_data_service : progress vbi_data_service.
Proof.
  unfold vbi_data_service. apply progress_bind_mono; [apply progress_next_byte|]. intros.
  mono_tac.
Qed.

Lemma vbi_loop_sim e : forall fuel d,
  sim (fun l d' => d' = set_DescriptorVBIData_Services (DescriptorVBIData_Services d ++ l) d)
      (iloop_fuel fuel e vbi_data_service) (newDescriptorVBIData_loop1 fuel e d).
Proof.
  induction fuel as [|k IH]; intros d; [apply sim_err|].
  cbn [iloop_fuel newDescriptorVBIData_loop1].
  eapply sim_bind; [apply sim_ioffset|]. intros off ? <-. cbv beta. apply sim_if.
  - set (lp := iloop_fuel k e vbi_data_service) in *. unfold vbi_data_service. cbv zeta.
    apply sim_assoc_l. step_byte sid Hid.
    apply sim_assoc_l. step_byte dl Hdl.
    apply sim_assoc_l. eapply sim_bind; [apply sim_ioffset|]. intros o1 ? <-. cbv beta.
    apply sim_assoc_l. apply sim_iloop_len; [exact progress_next_byte|].
    eapply sim_bind; [apply sim_ilength|]. intros n ? <-. cbv beta.
    eapply sim_bind; [apply vbi_inner_loop_sim|]. cbv beta. intros bs srv ->.
    apply sim_ret_bind_l'.
    eapply sim_map_l; [apply IH|]. cbv beta. intros l d' ->.
    psigen_cbn. rewrite <- app_assoc. cbn [app].
    destruct (is_vbi_line_service sid); reflexivity.
  - apply sim_ret. destruct d as [its]. psigen_cbv. rewrite app_nil_r. reflexivity.
Qed.

Lemma new_descriptor_vbi_data_sim e : sim eq (new_descriptor_vbi_data e) (newDescriptorVBIData e).
Proof.
  unfold new_descriptor_vbi_data, newDescriptorVBIData. cbv zeta.
  apply sim_iloop_len; [exact progress_vbi_data_service|].
  eapply sim_bind; [apply sim_ilength|]. intros n ? <-. cbv beta.
  eapply sim_bind; [apply vbi_loop_sim|]. cbv beta. intros l d' ->. apply sim_ret. reflexivity.
Qed.

(* ---------------- pointwise statements ---------------- *)

(* what Props/C14.v spells out and Props/C09.v, Props/C13.v quote by this name *)
Definition descriptor_parsers_tie : Prop :=
  same_on_bytes parse_descriptors gen_descriptors /\
  (forall e, same_on_bytes (new_descriptor_ac3 e) (newDescriptorAC3 e)) /\
  same_on_bytes new_descriptor_avc_video newDescriptorAVCVideo /\
  (forall e, same_on_bytes (new_descriptor_component e) (newDescriptorComponent e)) /\
  (forall e, same_on_bytes (new_descriptor_content e) (newDescriptorContent e)) /\
  same_on_bytes new_descriptor_data_stream_alignment newDescriptorDataStreamAlignment /\
  (forall e, same_on_bytes (new_descriptor_enhanced_ac3 e) (newDescriptorEnhancedAC3 e)) /\
  same_on_bytes new_descriptor_extended_event newDescriptorExtendedEvent /\
  (forall e, same_on_bytes (new_descriptor_extension_supplementary_audio e) (newDescriptorExtensionSupplementaryAudio e)) /\
  (forall e, same_on_bytes (new_descriptor_local_time_offset e)
               (newDescriptorLocalTimeOffset parse_dvb_duration_minutes parse_dvb_time e)) /\
  same_on_bytes new_descriptor_maximum_bitrate newDescriptorMaximumBitrate /\
  (forall e, same_on_bytes (new_descriptor_network_name e) (newDescriptorNetworkName e)) /\
  (forall e, same_on_bytes (new_descriptor_parental_rating e) (newDescriptorParentalRating e)) /\
  same_on_bytes new_descriptor_private_data_indicator newDescriptorPrivateDataIndicator /\
  same_on_bytes new_descriptor_private_data_specifier newDescriptorPrivateDataSpecifier /\
  (forall e, same_on_bytes (new_descriptor_registration e) (newDescriptorRegistration e)) /\
  same_on_bytes new_descriptor_service newDescriptorService /\
  same_on_bytes new_descriptor_short_event newDescriptorShortEvent /\
  same_on_bytes new_descriptor_stream_identifier newDescriptorStreamIdentifier /\
  (forall e, same_on_bytes (new_descriptor_subtitling e) (newDescriptorSubtitling e)) /\
  (forall e, same_on_bytes (new_descriptor_teletext e) (newDescriptorTeletext e)) /\
  (forall t l, same_on_bytes (new_descriptor_unknown t l) (newDescriptorUnknown t l)) /\
  (forall e, same_on_bytes (new_descriptor_vbi_data e) (newDescriptorVBIData e)) /\
  same_on_bytes parse_dvb_duration_minutes parseDVBDurationMinutes /\
  same_on_bytes parse_dvb_duration_seconds parseDVBDurationSeconds.

Lemma descriptor_loop_is_source : descriptor_parsers_tie.
Proof.
  unfold descriptor_parsers_tie. repeat apply conj.
  - exact parse_descriptors_gen.
  - intros e. exact (sim_eq_point _ _ (new_descriptor_ac3_sim e)).
  - exact (sim_eq_point _ _ new_descriptor_avc_video_sim).
  - intros e. exact (sim_eq_point _ _ (new_descriptor_component_sim e)).
  - intros e. exact (sim_eq_point _ _ (new_descriptor_content_sim e)).
  - exact (sim_eq_point _ _ new_descriptor_data_stream_alignment_sim).
  - intros e. exact (sim_eq_point _ _ (new_descriptor_enhanced_ac3_sim e)).
  - exact (sim_eq_point _ _ new_descriptor_extended_event_sim).
  - intros e. exact (sim_eq_point _ _ (new_descriptor_extension_supplementary_audio_sim e)).
  - intros e. exact (sim_eq_point _ _ (new_descriptor_local_time_offset_sim e)).
  - exact (sim_eq_point _ _ new_descriptor_maximum_bitrate_sim).
  - intros e. exact (sim_eq_point _ _ (new_descriptor_network_name_sim e)).
  - intros e. exact (sim_eq_point _ _ (new_descriptor_parental_rating_sim e)).
  - exact (sim_eq_point _ _ new_descriptor_private_data_indicator_sim).
  - exact (sim_eq_point _ _ new_descriptor_private_data_specifier_sim).
  - intros e. exact (sim_eq_point _ _ (new_descriptor_registration_sim e)).
  - exact (sim_eq_point _ _ new_descriptor_service_sim).
  - exact (sim_eq_point _ _ new_descriptor_short_event_sim).
  - exact (sim_eq_point _ _ new_descriptor_stream_identifier_sim).
  - intros e. exact (sim_eq_point _ _ (new_descriptor_subtitling_sim e)).
  - intros e. exact (sim_eq_point _ _ (new_descriptor_teletext_sim e)).
  - intros t l. exact (sim_eq_point _ _ (new_descriptor_unknown_sim t l)).
  - intros e. exact (sim_eq_point _ _ (new_descriptor_vbi_data_sim e)).
  - exact (sim_eq_point _ _ parse_dvb_duration_minutes_sim).
  - exact (sim_eq_point _ _ parse_dvb_duration_seconds_sim).
Qed.
