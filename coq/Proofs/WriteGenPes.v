(* The hand-written PES WRITERS of Model/Clock.v and Model/Pes.v ARE what go/gen/writegen.go regenerates from the current
   /repo/data_pes.go (Gen/WriteGen.v): writeESCR, writeDSMTrickMode, writePESOptionalHeader, writePESHeader (the
   PES_packet_length rule included: it is the value of the 16-bit item) and writePESData.  Statement and method as in
   Proofs/WriteGenEq.v (wf_sim).  The conditional blocks of writePESOptionalHeader that only write and count (ES rate,
   additional copy info, the extension with its four parts) are kept symbolic, so the proof has one case per combination
   of the blocks that call another writer, not per combination of all flags. *)
From Coq Require Import ZArith List Lia Bool ZifyBool.
Require Import Base.Bits Base.Iter Base.Wr Gen.Consts Gen.Types Gen.Preds Gen.MuxGen Gen.WriteGen
  Model.Clock Model.Packet Model.Pes Proofs.WriteGenBase Proofs.WriteGenEq.
Import ListNotations.
Open Scope Z_scope.

Ltac wmodel_cbn ::= cbn [pneed need res_map res_bind].
Ltac wmodel_unfold ::=
  unfold repeat_item, enc_opt_fixed, enc_es_rate, enc_aci, enc_pes_extension, enc_private_data, wbytes_n, pes_packet_length.

Lemma writeESCR_is_model cr : wf_sim (writeESCR cr) (Ok (enc_escr cr, C_escrLength)).
Proof. wleaf writeESCR enc_escr. Qed.

Lemma writeDSM_is_model m : wf_sim (writeDSMTrickMode m) (Ok (enc_dsm_trick_mode m, C_dsmTrickModeLength)).
Proof.
  unfold writeDSMTrickMode, enc_dsm_trick_mode. wsimpl.
  repeat match goal with |- context [if ?c then _ else _] => destruct c; wsimpl end.
  all: wfinish.
Qed.

Ltac wcall1 ::=
  match goal with
  | |- context [wbind (wcall (writePTSOrDTS ?f ?c)) ?k] => wcallee (writePTSOrDTS_is_model f c)
  | |- context [wbind (wcall (writeESCR ?c)) ?k] => wcallee (writeESCR_is_model c)
  | |- context [wbind (wcall (writeDSMTrickMode ?c)) ?k] => wcallee (writeDSM_is_model c)
  end.

(* writePESOptionalHeader takes the pointer: nil writes nothing *)
Definition opt_header_model (h : option PESOptionalHeader) : res (list witem * Z) :=
  match h with None => Ok ([], 0) | Some oh => enc_pes_optional_header oh end.

Lemma writeOH_is_model h : wf_sim (writePESOptionalHeader h) (opt_header_model h).
Proof.
  unfold writePESOptionalHeader, opt_header_model.
  destruct h as [h|]; wsimpl; [|wfinish].
  unfold enc_pes_optional_header, enc_ptsdts, enc_escr_opt, enc_dsm_opt, enc_opt_fixed.
  rewrite (surjective_pairing (enc_es_rate h)), (surjective_pairing (enc_aci h)), (surjective_pairing (enc_pes_extension h)).
  wstep.
  all: wfinish.
Qed.

Lemma writePESHeader_is_model h n : wf_sim (writePESHeader h n) (enc_pes_header h n).
Proof.
  unfold writePESHeader, enc_pes_header.
  wsym.
  wflag; wsimpl.
  - pose proof (writeOH_is_model (PESHeader_OptionalHeader h)) as H. unfold opt_header_model in H.
    wcall_res H. wmodel_cbn. wfinish.
  - wfinish.
Qed.

(* the model returns (items, total, payload); the generated function (total, payload, error) *)
Definition write_pes_data_n (h : PESHeader) (payloadLeft : list Z) (isPayloadStart : bool) (bytesAvailable : Z)
    : res (list witem * (Z * Z)) :=
  res_map (fun '(items, ntot, npayload) => (items, (ntot, npayload))) (write_pes_data h payloadLeft isPayloadStart bytesAvailable).

Ltac wslice_cases :=
  unfold wslice;
  repeat match goal with |- context [if ?c then _ else _] => let C := fresh "C" in destruct c eqn:C; wsimpl; cbn [res_map] end;
  repeat match goal with H : context [if ?c then _ else _] |- _ => let C := fresh "C" in destruct c eqn:C end;
  try (exfalso; lia); try wdone;
  rewrite ?Z.sub_0_r; cbn [Z.to_nat skipn]; wfinish.

Lemma writePESData_is_model h pl st av : wf_sim (writePESData h pl st av) (write_pes_data_n h pl st av).
Proof.
  unfold writePESData, write_pes_data_n, write_pes_data.
  wsym. wflag; wsimpl.
  - wcall_res (writePESHeader_is_model h (Z.of_nat (length pl))). wmodel_cbn. wsym. wslice_cases.
  - wmodel_cbn. wsym. wslice_cases.
Qed.

(* ---- the statement Props/C12.v quotes ---- *)

Theorem pes_writers_are_source :
  (forall flag cr, wf_sim (WriteGen.writePTSOrDTS flag cr) (Ok (enc_pts_or_dts flag cr, C_ptsOrDTSByteLength))) /\
  (forall cr, wf_sim (WriteGen.writeESCR cr) (Ok (enc_escr cr, C_escrLength))) /\
  (forall m, wf_sim (WriteGen.writeDSMTrickMode m) (Ok (enc_dsm_trick_mode m, C_dsmTrickModeLength))) /\
  (forall oh, wf_sim (WriteGen.writePESOptionalHeader (Some oh)) (enc_pes_optional_header oh)) /\
  wf_sim (WriteGen.writePESOptionalHeader None) (Ok ([], 0)) /\
  (forall h payloadSize, wf_sim (WriteGen.writePESHeader h payloadSize) (enc_pes_header h payloadSize)) /\
  (forall h payloadLeft isPayloadStart bytesAvailable,
     wf_sim (WriteGen.writePESData h payloadLeft isPayloadStart bytesAvailable)
            (write_pes_data_n h payloadLeft isPayloadStart bytesAvailable)).
Proof.
  refine (conj _ (conj _ (conj _ (conj _ (conj _ (conj _ _)))))); intros.
  - apply writePTSOrDTS_is_model.
  - apply writeESCR_is_model.
  - apply writeDSM_is_model.
  - exact (writeOH_is_model (Some oh)).
  - exact (writeOH_is_model None).
  - apply writePESHeader_is_model.
  - apply writePESData_is_model.
Qed.

(* the PES_packet_length the generated writePESHeader hands over: the model's rule, as the third item *)
Corollary pes_packet_length_is_source h payloadSize items n : enc_pes_header h payloadSize = Ok (items, n) ->
  exists l, WriteGen.writePESHeader h payloadSize = (l, Some (n, ENil)) /\
            nth_error (map nsnd l) 2 = Some (norm (WBits 16 (pes_packet_length h payloadSize))) /\
            bytes_of_items (map snd l) = bytes_of_items items.
Proof.
  intros E. pose proof (writePESHeader_is_model h payloadSize) as S. rewrite E in S.
  destruct (wf_sim_ok_inv _ _ _ S) as (l & El & Hn & Hd). exists l. split; [exact El|]. split.
  - rewrite Hn. unfold enc_pes_header in E.
    destruct (hasPESOptionalHeader (PESHeader_StreamID h)).
    + destruct (match PESHeader_OptionalHeader h with None => Ok ([], 0) | Some oh => enc_pes_optional_header oh end)
        as [[oi on]|c|]; cbn [res_bind] in E; inversion E; subst. reflexivity.
    + inversion E; subst. reflexivity.
  - apply bytes_same_norm. rewrite <- map_nsnd_snd. exact Hn.
Qed.
